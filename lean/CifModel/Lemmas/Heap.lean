import CifModel.Model.Heap
/-
  Lemmas about Model/Heap, level A (value objects): allocation and release as frame-respecting operations, the
  ownership predicate `Rep` is stable under changes outside its footprint, a clone is a representation of the same value
  on fresh blocks, releasing a represented value frees exactly its footprint.
-/
namespace CifModel.Model.Heap
open CifModel

/-! ### alloc / free -/

theorem alloc_fst (h : Heap) (c : Cell) : (alloc h c).1 = h.next := rfl
theorem alloc_cell (h : Heap) (c : Cell) (a : Nat) :
    (alloc h c).2.cell a = if a = h.next then some c else h.cell a := rfl
theorem alloc_next (h : Heap) (c : Cell) : (alloc h c).2.next = h.next + 1 := rfl

theorem alloc_WF (h : Heap) (c : Cell) (hw : h.WF) : (alloc h c).2.WF := by
  intro a ha
  rw [alloc_next] at ha
  rw [alloc_cell]
  have : a ≠ h.next := by omega
  simp [this, hw a (by omega)]

theorem alloc_cell_lt (h : Heap) (c : Cell) (a : Nat) (ha : a < h.next) : (alloc h c).2.cell a = h.cell a := by
  rw [alloc_cell]; have : a ≠ h.next := by omega
  simp [this]

theorem free_spec (h : Heap) (a : Nat) (c : Cell) (hc : h.cell a = some c) :
    ∃ h', free h a = some h' ∧ h'.next = h.next ∧ ∀ x, h'.cell x = if x = a then none else h.cell x := by
  unfold free
  rw [hc]
  exact ⟨_, rfl, rfl, fun _ => rfl⟩

theorem free_none (h : Heap) (a : Nat) (hc : h.cell a = none) : free h a = none := by
  unfold free; rw [hc]

/-! ### `Rep` only looks at its footprint -/

mutual
  theorem Rep_congr (h g : Heap) (v : V) (hv : HVal) (F : List Nat) (hag : ∀ a, a ∈ F → g.cell a = h.cell a)
      (hr : Rep h hv v F) : Rep g hv v F := by
    cases v with
    | unk => simpa [Rep] using hr
    | na => simpa [Rep] using hr
    | chr q t =>
      simp only [Rep] at hr ⊢
      obtain ⟨a, h1, h2, h3⟩ := hr
      exact ⟨a, h1, by rw [hag a (by simp [h3]), h2], h3⟩
    | numb q t neg d su sc =>
      simp only [Rep] at hr ⊢
      obtain ⟨a, b, hab, ha, hb, hrest⟩ := hr
      rcases hrest with ⟨hs, hhv, hF⟩ | ⟨s, c, hs, hca, hcb, hc, hhv, hF⟩
      · exact ⟨a, b, hab, by rw [hag a (by simp [hF]), ha], by rw [hag b (by simp [hF]), hb], Or.inl ⟨hs, hhv, hF⟩⟩
      · exact ⟨a, b, hab, by rw [hag a (by simp [hF]), ha], by rw [hag b (by simp [hF]), hb],
          Or.inr ⟨s, c, hs, hca, hcb, by rw [hag c (by simp [hF]), hc], hhv, hF⟩⟩
    | lst vs =>
      simp only [Rep] at hr ⊢
      rcases hr with hr | ⟨arr, xs, cap, F1, hhv, harr, hcap, hel, hnot, hF⟩
      · exact Or.inl hr
      · refine Or.inr ⟨arr, xs, cap, F1, hhv, by rw [hag arr (by simp [hF]), harr], hcap, ?_, hnot, hF⟩
        exact RepElems_congr h g vs xs F1 (fun a ha => hag a (by simp [hF, ha])) hel
    | tbl es =>
      simp only [Rep] at hr ⊢
      obtain ⟨ents, hhv, hen⟩ := hr
      exact ⟨ents, hhv, RepEntries_congr h g es ents F hag hen⟩
  theorem RepElems_congr (h g : Heap) (vs : List V) (xs : List Nat) (F : List Nat)
      (hag : ∀ a, a ∈ F → g.cell a = h.cell a) (hr : RepElems h xs vs F) : RepElems g xs vs F := by
    cases vs with
    | nil => simpa [RepElems] using hr
    | cons v vs =>
      simp only [RepElems] at hr ⊢
      obtain ⟨x, xs', hv, F1, F2, hxs, hx, hrep, hrest, hxF, hdis, hF⟩ := hr
      refine ⟨x, xs', hv, F1, F2, hxs, by rw [hag x (by simp [hF]), hx], ?_, ?_, hxF, hdis, hF⟩
      · exact Rep_congr h g v hv F1 (fun a ha => hag a (by simp [hF, ha])) hrep
      · exact RepElems_congr h g vs xs' F2 (fun a ha => hag a (by simp [hF, ha])) hrest
  theorem RepEntries_congr (h g : Heap) (es : List (Str × Str × V)) (ents : List Nat) (F : List Nat)
      (hag : ∀ a, a ∈ F → g.cell a = h.cell a) (hr : RepEntries h ents es F) : RepEntries g ents es F := by
    cases es with
    | nil => simpa [RepEntries] using hr
    | cons e es =>
      obtain ⟨k, ko, v⟩ := e
      simp only [RepEntries] at hr ⊢
      obtain ⟨e, ents', hv, ka, koa, F1, F2, hents, he, hka, hkoa, hrep, hrest, h1, h2, h3, h4, h5, hF⟩ := hr
      have memF : ∀ a, (a = ka ∨ a = koa ∨ a ∈ F1 ∨ a = e ∨ a ∈ F2) → a ∈ F := by
        intro a ha
        rcases hF with ⟨hkk, _, hF⟩ | ⟨_, _, hF⟩
        · rw [hF]; simp only [List.cons_append, List.mem_cons, List.mem_append, List.mem_singleton, List.not_mem_nil, or_false]
          rcases ha with rfl | rfl | ha | rfl | ha
          · exact Or.inl rfl
          · exact Or.inl hkk.symm
          · exact Or.inr (Or.inl (Or.inl ha))
          · exact Or.inr (Or.inl (Or.inr rfl))
          · exact Or.inr (Or.inr ha)
        · rw [hF]; simp only [List.cons_append, List.mem_cons, List.mem_append, List.mem_singleton, List.not_mem_nil, or_false]
          rcases ha with rfl | rfl | ha | rfl | ha
          · exact Or.inl rfl
          · exact Or.inr (Or.inl rfl)
          · exact Or.inr (Or.inr (Or.inl (Or.inl ha)))
          · exact Or.inr (Or.inr (Or.inl (Or.inr rfl)))
          · exact Or.inr (Or.inr (Or.inr ha))
      refine ⟨e, ents', hv, ka, koa, F1, F2, hents, ?_, ?_, ?_, ?_, ?_, h1, h2, h3, h4, h5, hF⟩
      · rw [hag e (memF e (by simp)), he]
      · rw [hag ka (memF ka (by simp)), hka]
      · rw [hag koa (memF koa (by simp)), hkoa]
      · exact Rep_congr h g v hv F1 (fun a ha => hag a (memF a (by simp [ha]))) hrep
      · exact RepEntries_congr h g es ents' F2 (fun a ha => hag a (memF a (by simp [ha]))) hrest
end

/-! ### building a clone -/

/-- what a build step guarantees: the heap stays well-formed, the bump pointer only moves up, cells below the old
    pointer are untouched -/
structure Ext (h h1 : Heap) : Prop where
  wf : h1.WF
  le : h.next ≤ h1.next
  frame : ∀ a, a < h.next → h1.cell a = h.cell a

theorem Ext.refl (h : Heap) (hw : h.WF) : Ext h h := ⟨hw, Nat.le_refl _, fun _ _ => rfl⟩

theorem Ext.trans {h h1 h2 : Heap} (a : Ext h h1) (b : Ext h1 h2) : Ext h h2 :=
  ⟨b.wf, Nat.le_trans a.le b.le, fun x hx => by rw [b.frame x (by have := a.le; omega), a.frame x hx]⟩

theorem Ext.alloc (h : Heap) (c : Cell) (hw : h.WF) : Ext h (alloc h c).2 :=
  ⟨alloc_WF h c hw, by rw [alloc_next]; omega, fun a ha => alloc_cell_lt h c a ha⟩

mutual
  theorem buildVal_spec (v : V) (h : Heap) (hw : h.WF) (hv : HVal) (h1 : Heap) (hb : buildVal h v = (hv, h1)) :
      Ext h h1 ∧ ∃ F, Rep h1 hv v F ∧ (∀ a, a ∈ F → h.next ≤ a ∧ a < h1.next) ∧ (∀ a, h.next ≤ a → a < h1.next → a ∈ F) := by
    cases v with
    | unk => simp only [buildVal, Prod.mk.injEq] at hb; obtain ⟨rfl, rfl⟩ := hb; exact ⟨Ext.refl h hw, [], by simp [Rep], by simp, fun a h1 h2 => by omega⟩
    | na => simp only [buildVal, Prod.mk.injEq] at hb; obtain ⟨rfl, rfl⟩ := hb; exact ⟨Ext.refl h hw, [], by simp [Rep], by simp, fun a h1 h2 => by omega⟩
    | chr q t =>
      simp only [buildVal, alloc, Prod.mk.injEq] at hb
      obtain ⟨rfl, rfl⟩ := hb
      refine ⟨Ext.alloc h (.str t) hw, [h.next], ?_, ?_, ?_⟩
      · simp only [Rep]; exact ⟨h.next, rfl, by simp, rfl⟩
      · intro a ha; simp at ha; subst ha; simp
      · intro a h1 h2; simp only [] at h2; simp; omega
    | numb q t neg d su sc =>
      cases su with
      | none =>
        simp only [buildVal, alloc, Prod.mk.injEq] at hb
        obtain ⟨rfl, rfl⟩ := hb
        have e1 := Ext.alloc h (.str t) hw
        have e2 := Ext.alloc (alloc h (.str t)).2 (.str d) e1.wf
        refine ⟨e1.trans e2, [h.next, h.next + 1], ?_, ?_, (by intro a h1 h2; simp only [] at h2; simp; omega)⟩
        · simp only [Rep]
          refine ⟨h.next, h.next + 1, by omega, ?_, ?_, ?_⟩
          · have : ¬ h.next = h.next + 1 := by omega
            simp [this]
          · simp
          · simp
        · intro a ha; simp at ha; rcases ha with rfl | rfl <;> simp <;> omega
      | some s =>
        simp only [buildVal, alloc, Prod.mk.injEq] at hb
        obtain ⟨rfl, rfl⟩ := hb
        have e1 := Ext.alloc h (.str t) hw
        have e2 := Ext.alloc (alloc h (.str t)).2 (.str d) e1.wf
        have e3 := Ext.alloc (alloc (alloc h (.str t)).2 (.str d)).2 (.str s) e2.wf
        refine ⟨(e1.trans e2).trans e3, [h.next, h.next + 1, h.next + 1 + 1], ?_, ?_, (by intro a h1 h2; simp only [] at h2; simp; omega)⟩
        · simp only [Rep]
          refine ⟨h.next, h.next + 1, by omega, ?_, ?_, Or.inr ⟨s, h.next + 1 + 1, rfl, by omega, by omega, ?_, rfl, rfl⟩⟩
          · have h1 : ¬ h.next = h.next + 1 + 1 := by omega
            have h2 : ¬ h.next = h.next + 1 := by omega
            simp [h1, h2]
          · have h1 : ¬ h.next + 1 = h.next + 1 + 1 := by omega
            simp [h1]
          · simp
        · intro a ha; simp at ha; rcases ha with rfl | rfl | rfl <;> simp <;> omega
    | lst vs =>
      simp only [buildVal] at hb
      generalize hbe : buildElems h vs = r at hb
      obtain ⟨xs, h2⟩ := r
      simp only [alloc, Prod.mk.injEq] at hb
      obtain ⟨rfl, rfl⟩ := hb
      obtain ⟨e1, F1, hrep, hrange, hcover⟩ := buildElems_spec vs h hw xs h2 hbe
      have e2 := Ext.alloc h2 (.arr xs xs.length) e1.wf
      refine ⟨e1.trans e2, F1 ++ [h2.next], ?_, ?_, ?_⟩
      · simp only [Rep]
        refine Or.inr ⟨h2.next, xs, xs.length, F1, rfl, by simp, Nat.le_refl _, ?_, ?_, rfl⟩
        · apply RepElems_congr h2 _ vs xs F1 _ hrep
          intro a ha
          have := (hrange a ha).2
          have hne : a ≠ h2.next := by omega
          simp [hne]
        · intro hmem; have := (hrange _ hmem).2; omega
      · intro a ha
        simp only [List.mem_append, List.mem_singleton] at ha
        rcases ha with ha | rfl
        · have := hrange a ha; simp only []; omega
        · have := e1.le; simp only []; omega
      · intro a h1' h2'
        simp only [] at h2'
        simp only [List.mem_append, List.mem_singleton]
        by_cases hlt : a < h2.next
        · exact Or.inl (hcover a h1' hlt)
        · exact Or.inr (by omega)
    | tbl es =>
      simp only [buildVal] at hb
      generalize hbe : buildEntries h es = r at hb
      obtain ⟨ents, h2⟩ := r
      simp only [Prod.mk.injEq] at hb
      obtain ⟨rfl, rfl⟩ := hb
      obtain ⟨e1, F1, hrep, hrange, hcover⟩ := buildEntries_spec es h hw ents h2 hbe
      exact ⟨e1, F1, by simp only [Rep]; exact ⟨ents, rfl, hrep⟩, hrange, hcover⟩
  theorem buildElems_spec (vs : List V) (h : Heap) (hw : h.WF) (xs : List Nat) (h1 : Heap)
      (hb : buildElems h vs = (xs, h1)) :
      Ext h h1 ∧ ∃ F, RepElems h1 xs vs F ∧ (∀ a, a ∈ F → h.next ≤ a ∧ a < h1.next) ∧ (∀ a, h.next ≤ a → a < h1.next → a ∈ F) := by
    cases vs with
    | nil =>
      simp only [buildElems, Prod.mk.injEq] at hb
      obtain ⟨rfl, rfl⟩ := hb
      exact ⟨Ext.refl h hw, [], by simp [RepElems], by simp, fun a h1 h2 => by omega⟩
    | cons v vs =>
      simp only [buildElems] at hb
      generalize hbv : buildVal h v = r at hb
      obtain ⟨hv, ha⟩ := r
      simp only [] at hb
      generalize hbr : buildElems (alloc ha (.val hv)).2 vs = r2 at hb
      obtain ⟨as, h3⟩ := r2
      simp only [alloc_fst, Prod.mk.injEq] at hb
      obtain ⟨rfl, rfl⟩ := hb
      obtain ⟨e1, F1, hrep1, hrange1, hcover1⟩ := buildVal_spec v h hw hv ha hbv
      have e2 := Ext.alloc ha (.val hv) e1.wf
      obtain ⟨e3, F2, hrep2, hrange2, hcover2⟩ := buildElems_spec vs (alloc ha (.val hv)).2 e2.wf as _ hbr
      have hn2 : (alloc ha (.val hv)).2.next = ha.next + 1 := rfl
      refine ⟨(e1.trans e2).trans e3, F1 ++ [ha.next] ++ F2, ?_, ?_, ?_⟩
      · simp only [RepElems]
        refine ⟨ha.next, as, hv, F1, F2, rfl, ?_, ?_, hrep2, ?_, ?_, rfl⟩
        · rw [e3.frame ha.next (by rw [hn2]; omega)]; simp [alloc_cell]
        · apply Rep_congr ha _ v hv F1 _ hrep1
          intro a hmem
          have := (hrange1 a hmem).2
          rw [e3.frame a (by rw [hn2]; omega), alloc_cell_lt ha _ a this]
        · intro hmem; have := (hrange1 _ hmem).2; omega
        · intro x hx hx2
          have r2 := (hrange2 x hx2).1
          rw [hn2] at r2
          simp only [List.mem_append, List.mem_singleton] at hx
          rcases hx with hx | rfl
          · have := (hrange1 x hx).2; omega
          · omega
      · intro a hmem
        simp only [List.mem_append, List.mem_singleton] at hmem
        have l1 := e1.le
        have l3 := e3.le
        rw [hn2] at l3
        rcases hmem with (hmem | rfl) | hmem
        · have := hrange1 a hmem; omega
        · omega
        · have := hrange2 a hmem; rw [hn2] at this; omega
      · intro a h1' h2'
        simp only [List.mem_append, List.mem_singleton]
        by_cases hlt : a < ha.next
        · exact Or.inl (Or.inl (hcover1 a h1' hlt))
        · by_cases heq : a = ha.next
          · exact Or.inl (Or.inr heq)
          · exact Or.inr (hcover2 a (by rw [hn2]; omega) h2')
  theorem buildEntries_spec (es : List (Str × Str × V)) (h : Heap) (hw : h.WF) (ents : List Nat) (h1 : Heap)
      (hb : buildEntries h es = (ents, h1)) :
      Ext h h1 ∧ ∃ F, RepEntries h1 ents es F ∧ (∀ a, a ∈ F → h.next ≤ a ∧ a < h1.next) ∧ (∀ a, h.next ≤ a → a < h1.next → a ∈ F) := by
    cases es with
    | nil =>
      simp only [buildEntries, Prod.mk.injEq] at hb
      obtain ⟨rfl, rfl⟩ := hb
      exact ⟨Ext.refl h hw, [], by simp [RepEntries], by simp, fun a h1 h2 => by omega⟩
    | cons e es =>
      obtain ⟨k, ko, v⟩ := e
      simp only [buildEntries] at hb
      -- the two key strings
      have ek := Ext.alloc h (.str k) hw
      have eko := Ext.alloc (alloc h (.str k)).2 (.str ko) ek.wf
      generalize hg2 : (alloc (alloc h (.str k)).2 (.str ko)).2 = g2 at hb eko
      have hg2n : g2.next = h.next + 2 := by rw [← hg2]; rfl
      have hg2k : g2.cell h.next = some (.str k) := by
        rw [← hg2, alloc_cell]
        have : ¬ h.next = (alloc h (.str k)).2.next := by rw [alloc_next]; omega
        simp [this, alloc_cell]
      have hg2ko : g2.cell (h.next + 1) = some (.str ko) := by rw [← hg2, alloc_cell]; simp [alloc_next]
      simp only [alloc_fst, alloc_next] at hb
      generalize hbv : buildVal g2 v = r at hb
      obtain ⟨hv, g3⟩ := r
      simp only [] at hb
      generalize hbr : buildEntries (alloc g3 (.entry hv h.next (h.next + 1))).2 es = r2 at hb
      obtain ⟨rest, g5⟩ := r2
      simp only [Prod.mk.injEq] at hb
      obtain ⟨rfl, rfl⟩ := hb
      obtain ⟨e3, F1, hrep1, hrange1, hcover1⟩ := buildVal_spec v g2 eko.wf hv g3 hbv
      have e4 := Ext.alloc g3 (.entry hv h.next (h.next + 1)) e3.wf
      obtain ⟨e5, F2, hrep2, hrange2, hcover2⟩ := buildEntries_spec es _ e4.wf rest _ hbr
      have hn4 : (alloc g3 (.entry hv h.next (h.next + 1))).2.next = g3.next + 1 := rfl
      have l3 := e3.le
      have l5 := e5.le
      rw [hn4] at l5
      refine ⟨((ek.trans eko).trans e3).trans (e4.trans e5), h.next :: (h.next + 1) :: F1 ++ [g3.next] ++ F2, ?_, ?_, ?_⟩
      · simp only [RepEntries]
        refine ⟨g3.next, rest, hv, h.next, h.next + 1, F1, F2, rfl, ?_, ?_, ?_, ?_, hrep2, ?_, ?_, ?_, by omega, by omega,
          Or.inr ⟨by omega, ?_, rfl⟩⟩
        · rw [e5.frame g3.next (by rw [hn4]; omega)]; simp [alloc_cell]
        · rw [e5.frame _ (by rw [hn4]; omega), alloc_cell_lt g3 _ _ (by omega), e3.frame _ (by omega), hg2k]
        · rw [e5.frame _ (by rw [hn4]; omega), alloc_cell_lt g3 _ _ (by omega), e3.frame _ (by omega), hg2ko]
        · apply Rep_congr g3 _ v hv F1 _ hrep1
          intro a hmem
          have := (hrange1 a hmem).2
          rw [e5.frame a (by rw [hn4]; omega), alloc_cell_lt g3 _ a this]
        · intro hmem; have := (hrange1 _ hmem).2; omega
        · intro hmem; have := (hrange1 _ hmem).1; omega
        · intro hmem; have := (hrange1 _ hmem).1; omega
        · intro x hx hx2
          have r2 := (hrange2 x hx2).1
          rw [hn4] at r2
          simp only [List.cons_append, List.mem_cons, List.mem_append, List.mem_singleton, List.not_mem_nil, or_false] at hx
          rcases hx with rfl | rfl | hx | rfl
          · omega
          · omega
          · have := (hrange1 x hx).2; omega
          · omega
      · intro a hmem
        simp only [List.cons_append, List.mem_cons, List.mem_append, List.mem_singleton, List.not_mem_nil, or_false] at hmem
        rcases hmem with rfl | rfl | (hmem | rfl) | hmem
        · omega
        · omega
        · have := hrange1 a hmem; omega
        · omega
        · have := hrange2 a hmem; rw [hn4] at this; omega
      · intro a h1' h2'
        simp only [List.cons_append, List.mem_cons, List.mem_append, List.mem_singleton, List.not_mem_nil, or_false]
        by_cases h0 : a = h.next
        · exact Or.inl h0
        · by_cases h01 : a = h.next + 1
          · exact Or.inr (Or.inl h01)
          · by_cases hlt : a < g3.next
            · exact Or.inr (Or.inr (Or.inl (Or.inl (hcover1 a (by omega) hlt))))
            · by_cases heq : a = g3.next
              · exact Or.inr (Or.inr (Or.inl (Or.inr heq)))
              · exact Or.inr (Or.inr (Or.inr (hcover2 a (by rw [hn4]; omega) h2')))
end

/-! ### releasing a represented value frees exactly its footprint -/

/-- heap `h'` is `h` with the blocks of `F` released -/
def Cleared (h h' : Heap) (F : List Nat) : Prop :=
  h'.next = h.next ∧ ∀ a, h'.cell a = if a ∈ F then none else h.cell a

theorem Cleared.nil (h : Heap) : Cleared h h [] := ⟨rfl, fun a => by simp⟩

theorem Cleared.trans {h h1 h2 : Heap} {F G : List Nat} (a : Cleared h h1 F) (b : Cleared h1 h2 G) :
    Cleared h h2 (F ++ G) := by
  refine ⟨by rw [b.1, a.1], fun x => ?_⟩
  rw [b.2 x, a.2 x]
  by_cases h1 : x ∈ F <;> by_cases h2 : x ∈ G <;> simp [h1, h2]

theorem Cleared.free (h : Heap) (a : Nat) (c : Cell) (hc : h.cell a = some c) :
    ∃ h', free h a = some h' ∧ Cleared h h' [a] := by
  obtain ⟨h', hf, hn, hcell⟩ := free_spec h a c hc
  exact ⟨h', hf, hn, fun x => by rw [hcell x]; simp⟩

mutual
  theorem cleanVal_spec (v : V) (h : Heap) (hv : HVal) (F : List Nat) (fuel : Nat) (hr : Rep h hv v F)
      (hf : need v ≤ fuel) : ∃ h', cleanVal fuel h hv = some h' ∧ Cleared h h' F := by
    cases fuel with
    | zero => cases v <;> simp [need] at hf
    | succ f =>
      cases v with
      | unk => simp only [Rep] at hr; obtain ⟨rfl, rfl⟩ := hr; exact ⟨h, rfl, Cleared.nil h⟩
      | na => simp only [Rep] at hr; obtain ⟨rfl, rfl⟩ := hr; exact ⟨h, rfl, Cleared.nil h⟩
      | chr q t =>
        simp only [Rep] at hr
        obtain ⟨a, rfl, hc, rfl⟩ := hr
        simp only [cleanVal]
        exact Cleared.free h a _ hc
      | numb q t neg d su sc =>
        simp only [Rep] at hr
        obtain ⟨a, b, hab, ha, hb, hrest⟩ := hr
        obtain ⟨h1, hf1, c1⟩ := Cleared.free h a _ ha
        have hb1 : h1.cell b = some (.str d) := by
          rw [c1.2 b]; have : b ≠ a := fun e => hab e.symm
          simp [this, hb]
        obtain ⟨h2, hf2, c2⟩ := Cleared.free h1 b _ hb1
        rcases hrest with ⟨rfl, rfl, rfl⟩ | ⟨s, c, rfl, hca, hcb, hc, rfl, rfl⟩
        · refine ⟨h2, ?_, c1.trans c2⟩
          simp [cleanVal, hf1, hf2, freeOpt]
        · have hc2 : h2.cell c = some (.str s) := by
            rw [c2.2 c, c1.2 c]; simp [hca, hcb, hc]
          obtain ⟨h3, hf3, c3⟩ := Cleared.free h2 c _ hc2
          refine ⟨h3, ?_, (c1.trans c2).trans c3⟩
          simp [cleanVal, hf1, hf2, freeOpt, hf3]
      | lst vs =>
        simp only [Rep] at hr
        rcases hr with ⟨rfl, n, rfl, rfl⟩ | ⟨arr, xs, cap, F1, rfl, harr, hcap, hel, hnot, rfl⟩
        · exact ⟨h, rfl, Cleared.nil h⟩
        · obtain ⟨h1, hfe, c1⟩ := freeElems_spec vs h xs F1 f hel (by simp [need] at hf; omega)
          have harr1 : h1.cell arr = some (.arr xs cap) := by rw [c1.2 arr]; simp [hnot, harr]
          obtain ⟨h2, hf2, c2⟩ := Cleared.free h1 arr _ harr1
          refine ⟨h2, ?_, c1.trans c2⟩
          simp [cleanVal, read, harr, hfe, hf2]
      | tbl es =>
        simp only [Rep] at hr
        obtain ⟨ents, rfl, hen⟩ := hr
        obtain ⟨h1, hfe, c1⟩ := freeEntries_spec es h ents F f hen (by simp [need] at hf; omega)
        exact ⟨h1, by simp [cleanVal, hfe], c1⟩
  theorem freeElems_spec (vs : List V) (h : Heap) (xs : List Nat) (F : List Nat) (fuel : Nat)
      (hr : RepElems h xs vs F) (hf : needList vs + 1 ≤ fuel) : ∃ h', freeElems fuel h xs = some h' ∧ Cleared h h' F := by
    cases fuel with
    | zero => omega
    | succ f =>
      cases vs with
      | nil =>
        simp only [RepElems] at hr
        obtain ⟨rfl, rfl⟩ := hr
        exact ⟨h, rfl, Cleared.nil h⟩
      | cons v vs =>
        simp only [RepElems] at hr
        obtain ⟨x, xs', hv, F1, F2, rfl, hx, hrep, hrest, hxF, hdis, rfl⟩ := hr
        obtain ⟨h1, hc1, c1⟩ := cleanVal_spec v h hv F1 f hrep (by simp [needList] at hf; omega)
        have hx1 : h1.cell x = some (.val hv) := by rw [c1.2 x]; simp [hxF, hx]
        obtain ⟨h2, hf2, c2⟩ := Cleared.free h1 x _ hx1
        have c12 := c1.trans c2
        have hrest2 : RepElems h2 xs' vs F2 := by
          apply RepElems_congr h h2 vs xs' F2 _ hrest
          intro a ha
          rw [c12.2 a]
          have : a ∉ F1 ++ [x] := fun hm => hdis a hm ha
          simp [this]
        obtain ⟨h3, hf3, c3⟩ := freeElems_spec vs h2 xs' F2 f hrest2 (by simp [needList] at hf; omega)
        refine ⟨h3, ?_, c12.trans c3⟩
        simp [freeElems, read, hx, hc1, hf2, hf3]
  theorem freeEntries_spec (es : List (Str × Str × V)) (h : Heap) (ents : List Nat) (F : List Nat) (fuel : Nat)
      (hr : RepEntries h ents es F) (hf : needEntries es + 1 ≤ fuel) :
      ∃ h', freeEntries fuel h ents = some h' ∧ Cleared h h' F := by
    cases fuel with
    | zero => omega
    | succ f =>
      cases es with
      | nil =>
        simp only [RepEntries] at hr
        obtain ⟨rfl, rfl⟩ := hr
        exact ⟨h, rfl, Cleared.nil h⟩
      | cons e es =>
        obtain ⟨k, ko, v⟩ := e
        simp only [RepEntries] at hr
        obtain ⟨e, ents', hv, ka, koa, F1, F2, rfl, he, hka, hkoa, hrep, hrest, heF, hkaF, hkoaF, heka, hekoa, hF⟩ := hr
        have hfv : need v ≤ f := by simp [needEntries] at hf; omega
        have hfr : needEntries es + 1 ≤ f := by simp [needEntries] at hf; omega
        rcases hF with ⟨rfl, hdis, rfl⟩ | ⟨hne, hdis, rfl⟩
        · -- key and original key are the same block: freed once
          obtain ⟨h2, hf2, c2⟩ := Cleared.free h ka _ hkoa
          have hrep2 : Rep h2 hv v F1 := by
            apply Rep_congr h h2 v hv F1 _ hrep
            intro a ha; rw [c2.2 a]
            have : a ≠ ka := fun e => hkaF (e ▸ ha)
            simp [this]
          obtain ⟨h3, hc3, c3⟩ := cleanVal_spec v h2 hv F1 f hrep2 hfv
          have he3 : h3.cell e = some (.entry hv ka ka) := by
            rw [c3.2 e, c2.2 e]; simp [heF, heka, he]
          obtain ⟨h4, hf4, c4⟩ := Cleared.free h3 e _ he3
          have c24 := (c2.trans c3).trans c4
          have hrest4 : RepEntries h4 ents' es F2 := by
            apply RepEntries_congr h h4 es ents' F2 _ hrest
            intro a ha
            rw [c24.2 a]
            have : a ∉ [ka] ++ F1 ++ [e] := fun hm => hdis a (by simpa using hm) ha
            rw [if_neg this]
          obtain ⟨h5, hf5, c5⟩ := freeEntries_spec es h4 ents' F2 f hrest4 hfr
          refine ⟨h5, ?_, ?_⟩
          · simp [freeEntries, read, he, hf2, hc3, hf4, hf5]
          · have := c24.trans c5
            simpa using this
        · obtain ⟨h1, hf1, c1⟩ := Cleared.free h ka _ hka
          have hkoa1 : h1.cell koa = some (.str ko) := by
            rw [c1.2 koa]; have : koa ≠ ka := fun e => hne e.symm
            simp [this, hkoa]
          obtain ⟨h2, hf2, c2⟩ := Cleared.free h1 koa _ hkoa1
          have c12 := c1.trans c2
          have hrep2 : Rep h2 hv v F1 := by
            apply Rep_congr h h2 v hv F1 _ hrep
            intro a ha; rw [c12.2 a]
            have h1' : a ≠ ka := fun e => hkaF (e ▸ ha)
            have h2' : a ≠ koa := fun e => hkoaF (e ▸ ha)
            simp [h1', h2']
          obtain ⟨h3, hc3, c3⟩ := cleanVal_spec v h2 hv F1 f hrep2 hfv
          have he3 : h3.cell e = some (.entry hv ka koa) := by
            rw [c3.2 e, c12.2 e]; simp [heF, heka, hekoa, he]
          obtain ⟨h4, hf4, c4⟩ := Cleared.free h3 e _ he3
          have c14 := (c12.trans c3).trans c4
          have hrest4 : RepEntries h4 ents' es F2 := by
            apply RepEntries_congr h h4 es ents' F2 _ hrest
            intro a ha
            rw [c14.2 a]
            have : a ∉ [ka] ++ [koa] ++ F1 ++ [e] := fun hm => hdis a (by simpa using hm) ha
            rw [if_neg this]
          obtain ⟨h5, hf5, c5⟩ := freeEntries_spec es h4 ents' F2 f hrest4 hfr
          refine ⟨h5, ?_, ?_⟩
          · simp [freeEntries, read, he, hne, hf1, hf2, hc3, hf4, hf5]
          · have := c14.trans c5
            simpa using this
end

end CifModel.Model.Heap
