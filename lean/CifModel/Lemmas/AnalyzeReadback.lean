import CifModel.Lemmas.AnalyzeQuote
import CifModel.Spec.Lexical
import CifModel.Gen.NamesConsts
/-
  Lemmas for C18_delim_reads_back: the conditions `cif_analyze_string` establishes (C18_delim_admissible, in the vocabulary of
  Spec/Analyze.lean and of the C) imply the admissibility predicates of the lexical grammar (Spec/Lexical.lean) under which
  C01_lex_value reads a presentation back.
-/
namespace CifModel.Lemmas.Analyze
open CifModel CifModel.Model CifModel.Spec

macro "omega_cu'" : tactic => `(tactic| ((try simp only [CU] at *); omega))

/-- one line ⇒ no line terminator -/
theorem single_no_term : ∀ (s : List Nat), (splitLines s).length = 1 → ∀ c ∈ s, c ≠ 10 ∧ c ≠ 13 := by
  intro s
  induction s with
  | nil => intro _ c hc; simp at hc
  | cons d rest ih =>
    intro h c hc
    by_cases hA : d = 13 ∧ rest.head? = some 10
    · exfalso
      obtain ⟨_, h10⟩ := hA
      cases rest with
      | nil => simp at h10
      | cons e r =>
        simp at h10; subst h10
        have hA' : (d = 13 ∧ (10 :: r).head? = some 10) := ⟨by assumption, rfl⟩
        simp only [splitLines, hA', and_self, if_true] at h
        simp [splitLines] at h
        have := splitLines_ne_nil r
        cases hr : splitLines r <;> simp_all
    · by_cases hB : d = 10 ∨ d = 13
      · exfalso
        simp only [splitLines, hA, hB, if_false, if_true, List.length_cons] at h
        have := splitLines_ne_nil rest
        cases hr : splitLines rest <;> simp_all
      · simp only [splitLines, hA, hB, if_false] at h
        have hlen : (splitLines rest).length = 1 := by
          cases hr : splitLines rest with
          | nil => exact absurd hr (splitLines_ne_nil rest)
          | cons a b => rw [hr] at h; simpa [consHead] using h
        rcases List.mem_cons.mp hc with rfl | hc'
        · exact ⟨fun e => hB (Or.inl e), fun e => hB (Or.inr e)⟩
        · exact ih hlen c hc'

theorem counters_one_line (s : Str) (h : (counters s).numLines = 1) : ∀ c ∈ s, c ≠ 10 ∧ c ≠ 13 := by
  cases hL : splitLines s with
  | nil => exact absurd hL (splitLines_ne_nil s)
  | cons l0 ls =>
    obtain ⟨_, h2, _⟩ := counters_stats s l0 ls hL
    exact single_no_term s (by rw [hL, ← h2, h])

theorem lowerAscii_eq : Spec.lowerAscii = Spec.Lexical.lowerAscii := rfl

/-- the reserved words of the two specifications are the same set -/
theorem reservedWord_iff (s : Str) : Spec.Lexical.isReservedWord s = true ↔ Spec.reservedWord s := by
  simp only [Spec.Lexical.isReservedWord, Spec.Lexical.startsWithCI, Spec.reservedWord, Spec.ciPrefix, Spec.ciEq,
    Bool.or_eq_true, beq_iff_eq, ← lowerAscii_eq, List.length_cons, List.length_nil, or_assoc]

/-- strings of CIF characters contain neither NUL nor CR -/
theorem okUnits_units (dia : Dialect) : ∀ (s : List Nat) (pend : Option CU), Spec.Lexical.okUnits dia pend s = true →
    ∀ c ∈ s, c ≠ 0 ∧ c ≠ 13 := by
  intro s
  induction s with
  | nil => intro _ _ c hc; simp at hc
  | cons d r ih =>
    intro pend h c hc
    cases pend with
    | none =>
      simp only [Spec.Lexical.okUnits] at h
      by_cases hl : Spec.Lexical.isLeadU d = true
      · simp only [hl, if_true, Bool.and_eq_true] at h
        rcases List.mem_cons.mp hc with rfl | hc'
        · simp [Spec.Lexical.isLeadU] at hl; omega_cu'
        · exact ih _ h.2 c hc'
      · simp only [hl, Bool.false_eq_true, if_false, Bool.and_eq_true] at h
        rcases List.mem_cons.mp hc with rfl | hc'
        · have := h.1.2
          simp [Spec.Lexical.allowedBmp] at this
          omega_cu'
        · exact ih _ h.2 c hc'
    | some l =>
      simp only [Spec.Lexical.okUnits, Bool.and_eq_true] at h
      rcases List.mem_cons.mp hc with rfl | hc'
      · have := h.1.1; simp [Spec.Lexical.isTrailU] at this; omega_cu'
      · exact ih _ h.2 c hc'


/-! ### triple-quoted bodies -/

theorem hasTriple_cons (q a : Nat) (l : List Nat) : hasTriple q (a :: l) = ([q, q, q].isPrefixOf (a :: l) || hasTriple q l) := rfl

theorem hasTriple_append (q : Nat) : ∀ (a b : List Nat), hasTriple q b = true → hasTriple q (a ++ b) = true := by
  intro a
  induction a with
  | nil => intro b h; exact h
  | cons x xs ih => intro b h; rw [List.cons_append, hasTriple_cons, ih b h]; simp

/-- no `qqq` inside (counting `cnt` delimiter characters just before) and not ending in `q` ⇒ the EBNF body -/
theorem tripleBody_of (q : Nat) : ∀ (s : List Nat) (cnt : Nat), cnt < 3 → (s = [] → cnt = 0) → s.getLast? ≠ some q →
    hasTriple q (List.replicate cnt q ++ s) = false → Spec.Lexical.tripleBody q cnt s = true := by
  intro s
  induction s with
  | nil => intro cnt _ h0 _ _; simp [Spec.Lexical.tripleBody, h0 rfl]
  | cons c r ih =>
    intro cnt hc h0 hl hn
    unfold Spec.Lexical.tripleBody
    by_cases hq : c = q
    · subst hq
      have hr : r ≠ [] := by intro e; subst e; simp at hl
      have hc1 : cnt + 1 < 3 := by
        apply Classical.byContradiction; intro h
        have : cnt = 2 := by omega
        subst this
        simp [List.replicate, hasTriple_cons, List.isPrefixOf] at hn
      have hl' : r.getLast? ≠ some c := by
        cases r with
        | nil => exact absurd rfl hr
        | cons d t => rwa [List.getLast?_cons_cons] at hl
      have hn' : hasTriple c (List.replicate (cnt + 1) c ++ r) = false := by
        rw [List.replicate_succ', List.append_assoc]; exact hn
      simp only [if_true, hc1, decide_true, Bool.true_and]
      exact ih (cnt + 1) hc1 (fun e => absurd e hr) hl' hn'
    · simp only [hq, if_false]
      have hl' : r.getLast? ≠ some q := by
        cases r with
        | nil => simp
        | cons d t => rwa [List.getLast?_cons_cons] at hl
      have hn' : hasTriple q (List.replicate 0 q ++ r) = false := by
        cases h : hasTriple q r with
        | false => simpa using h
        | true =>
          have := hasTriple_append q (List.replicate cnt q ++ [c]) r h
          rw [List.append_assoc] at this
          simp only [List.singleton_append] at this
          rw [this] at hn; cases hn
      exact ih 0 (by omega) (fun _ => rfl) hl' hn'

/-! ### text-field bodies -/

/-- no line after the first begins with `;` (`contains_text_delim = 0`) ⇒ the body may stand in a text field -/
theorem textBody_of : ∀ (s : List Nat) (b : Bool) (l0 : Str) (ls : List Str), (∀ c ∈ s, c ≠ 13) → splitLines s = l0 :: ls →
    (b = true → startsSemi l0 = false) → ls.any startsSemi = false → Spec.Lexical.textBody b s = true := by
  intro s
  induction s with
  | nil => intro _ _ _ _ _ _ _; rfl
  | cons c r ih =>
    intro b l0 ls h13 hL hb hls
    have hc13 : c ≠ 13 := h13 c (by simp)
    have hr13 : ∀ d ∈ r, d ≠ 13 := fun d hd => h13 d (List.mem_cons_of_mem _ hd)
    have hA : ¬ (c = 13 ∧ r.head? = some 10) := fun h => hc13 h.1
    obtain ⟨l0', ls', hr⟩ : ∃ a t, splitLines r = a :: t := by
      cases h : splitLines r with
      | nil => exact absurd h (splitLines_ne_nil r)
      | cons a t => exact ⟨a, t, rfl⟩
    unfold Spec.Lexical.textBody
    by_cases h10 : c = 10
    · subst h10
      have hL' : [] :: l0' :: ls' = l0 :: ls := by simpa [splitLines, hr] using hL
      simp only [List.cons.injEq] at hL'
      obtain ⟨rfl, rfl⟩ := hL'
      simp only [List.any_cons, Bool.or_eq_false_iff] at hls
      have : Spec.Lexical.isEol 10 = true := rfl
      rw [this]
      simp only [show ((10 : Nat) == 59) = false from rfl, Bool.and_false, Bool.not_false, Bool.true_and]
      exact ih true l0' ls' hr13 hr (fun _ => hls.1) hls.2
    · have hB : ¬ (c = 10 ∨ c = 13) := fun h => h.elim h10 hc13
      have hL' : (c :: l0') :: ls' = l0 :: ls := by simpa [splitLines, hA, hB, hr, consHead] using hL
      simp only [List.cons.injEq] at hL'
      obtain ⟨rfl, rfl⟩ := hL'
      have he : Spec.Lexical.isEol c = false := by simp [Spec.Lexical.isEol, h10]
      rw [he]
      have h1 : (!(b && c == 59)) = true := by
        cases b with
        | false => rfl
        | true =>
          have := hb rfl
          simp [startsSemi] at this
          simp [this]
      rw [h1, Bool.true_and]
      exact ih false l0' ls' hr13 hr (fun h => by cases h) hls


/-! ### the presentation a recommended delimiter stands for -/

def presOf : Delim → Spec.Lexical.Presentation
  | .none => .bare | .apos => .squote | .quot => .dquote | .apos3 => .tsquote | .quot3 => .tdquote | .text => .text

/-- the presentation is the string between two copies of the recommended delimiter -/
theorem render_presOf (d : Delim) (s : Str) (h : d ≠ .text) :
    Spec.Lexical.renderValue (presOf d) s = d.units ++ s ++ d.units := by
  cases d <;> simp [presOf, Spec.Lexical.renderValue, Delim.units] at h ⊢

/-- a text field: `;` at the start of a line, the string, a line terminator and `;` (the recommended delimiter `⏎;` twice,
    the first line terminator being the one that ends the previous line) -/
theorem render_text (s : Str) : 10 :: Spec.Lexical.renderValue .text s = Delim.text.units ++ s ++ Delim.text.units := by
  simp [Spec.Lexical.renderValue, Delim.units]

/-! ### the length limit: `linesFit` from the line statistics -/

theorem le_maxLen (l : Str) (ls : List Str) (h : l ∈ ls) : l.length ≤ maxLen ls := by
  induction ls with
  | nil => cases h
  | cons a r ih =>
    rw [maxLen_cons]
    rcases List.mem_cons.mp h with rfl | h'
    · omega
    · have := ih h'; omega

/-- a CR-free text whose first line fits behind column `col` and whose further lines (the last one excepted: it does not END
    inside the text) fit a line has no over-long line ending inside it -/
theorem linesFit_of_lines : ∀ (x : List Nat) (col : Nat) (l0 : Str) (ls : List Str), (∀ c ∈ x, c ≠ 13) → splitLines x = l0 :: ls →
    (ls ≠ [] → col + l0.length ≤ 2048) → (∀ l ∈ ls.dropLast, l.length ≤ 2048) → Spec.Lexical.linesFit col x = true := by
  intro x
  induction x with
  | nil => intro _ _ _ _ _ _ _; rfl
  | cons c r ih =>
    intro col l0 ls h13 hL h1 h2
    have hc13 : c ≠ 13 := h13 c (by simp)
    have hr13 : ∀ d ∈ r, d ≠ 13 := fun d hd => h13 d (List.mem_cons_of_mem _ hd)
    have hA : ¬ (c = 13 ∧ r.head? = some 10) := fun h => hc13 h.1
    obtain ⟨l0', ls', hr⟩ : ∃ a t, splitLines r = a :: t := by
      cases h : splitLines r with
      | nil => exact absurd h (splitLines_ne_nil r)
      | cons a t => exact ⟨a, t, rfl⟩
    unfold Spec.Lexical.linesFit
    by_cases h10 : c = 10
    · subst h10
      have hL' : [] :: l0' :: ls' = l0 :: ls := by simpa [splitLines, hr] using hL
      simp only [List.cons.injEq] at hL'
      obtain ⟨rfl, rfl⟩ := hL'
      have hcol : col ≤ 2048 := by have := h1 (by simp); simpa using this
      simp only [if_true, hcol, decide_true, Bool.true_and]
      refine ih 0 l0' ls' hr13 hr ?_ ?_
      · intro hne
        have : l0' ∈ (l0' :: ls').dropLast := by
          cases ls' with
          | nil => exact absurd rfl hne
          | cons a t => simp [List.dropLast]
        have := h2 l0' this; omega
      · intro l hl
        apply h2
        cases ls' with
        | nil => simp at hl
        | cons a t => simp only [List.dropLast_cons_cons]; exact List.mem_cons_of_mem _ hl
    · have hB : ¬ (c = 10 ∨ c = 13) := fun h => h.elim h10 hc13
      have hL' : (c :: l0') :: ls' = l0 :: ls := by simpa [splitLines, hA, hB, hr, consHead] using hL
      simp only [List.cons.injEq] at hL'
      obtain ⟨rfl, rfl⟩ := hL'
      simp only [h10, if_false]
      refine ih _ l0' ls' hr13 hr ?_ h2
      intro hne
      have := h1 hne
      simp only [List.length_cons] at this
      split <;> omega

/-- the lines of `x ++ t` when `t` holds no terminator: `t` extends the last line -/
theorem splitLines_append_plain : ∀ (x t : List Nat), (∀ c ∈ x, c ≠ 13) → (∀ c ∈ t, c ≠ 10 ∧ c ≠ 13) →
    splitLines (x ++ t) = (splitLines x).dropLast ++ [(splitLines x).getLastD [] ++ t] := by
  intro x
  induction x with
  | nil => intro t _ ht; simp [splitLines_single t ht, splitLines]
  | cons c r ih =>
    intro t h13 ht
    have hc13 : c ≠ 13 := h13 c (by simp)
    have hr13 : ∀ d ∈ r, d ≠ 13 := fun d hd => h13 d (List.mem_cons_of_mem _ hd)
    have := ih t hr13 ht
    have hA : ∀ (y : List Nat), ¬ (c = 13 ∧ y.head? = some 10) := fun _ h => hc13 h.1
    obtain ⟨a, b, hr⟩ : ∃ a b, splitLines r = a :: b := by
      cases h : splitLines r with
      | nil => exact absurd h (splitLines_ne_nil r)
      | cons a b => exact ⟨a, b, rfl⟩
    rw [hr] at this
    by_cases h10 : c = 10
    · subst h10
      simp only [List.cons_append, splitLines, hA, if_false, true_or, if_true, this, hr]
      cases b with
      | nil => simp
      | cons b0 bs => simp [List.dropLast, List.getLastD]
    · have hB : ¬ (c = 10 ∨ c = 13) := fun h => h.elim h10 hc13
      simp only [List.cons_append, splitLines, hA, hB, if_false, this, hr]
      cases b with
      | nil => simp [consHead]
      | cons b0 bs => simp [consHead, List.dropLast, List.getLastD]

/-- the lines of `t ++ y` when `t` holds no terminator: `t` is put in front of the first line -/
theorem splitLines_prepend_plain : ∀ (t y : List Nat) (a : Str) (b : List Str), (∀ c ∈ t, c ≠ 10 ∧ c ≠ 13) → splitLines y = a :: b →
    splitLines (t ++ y) = (t ++ a) :: b := by
  intro t
  induction t with
  | nil => intro y a b _ h; simpa using h
  | cons c r ih =>
    intro y a b ht h
    have hc := ht c (by simp)
    have hA : ¬ (c = 13 ∧ (r ++ y).head? = some 10) := fun x => hc.2 x.1
    have hB : ¬ (c = 10 ∨ c = 13) := fun x => x.elim hc.1 hc.2
    simp only [List.cons_append, splitLines, hA, hB, if_false, ih y a b (fun d hd => ht d (List.mem_cons_of_mem _ hd)) h, consHead]

/-- the line limit of the lexical grammar (`Spec.Lexical.linesFit`: 2048) is `CIF_LINE_LENGTH` as re-extracted from cif.h on every run -/
theorem linesFit_limit_link (col : Nat) : Spec.Lexical.linesFit col [10] = decide (col ≤ Gen.NamesConsts.lineLength) := by
  simp only [Spec.Lexical.linesFit, if_true, Bool.and_true]; rfl

/-- a delimited presentation `δ s δ` (δ without terminators, `s` without CR) placed at column `col` holds no over-long line, provided
    its first physical line fits behind `col` and every line of `s` fits a line -/
theorem linesFit_presentation (δ s : List Nat) (col : Nat) (l0 : Str) (ls : List Str)
    (hδ : ∀ c ∈ δ, c ≠ 10 ∧ c ≠ 13) (h13 : ∀ c ∈ s, c ≠ 13) (hL : splitLines s = l0 :: ls)
    (hfirst : ls ≠ [] → col + δ.length + l0.length ≤ 2048) (hmax : ls ≠ [] → maxLen (l0 :: ls) ≤ 2048) :
    Spec.Lexical.linesFit col (δ ++ s ++ δ) = true := by
  have h1 := splitLines_append_plain s δ h13 hδ
  rw [hL] at h1
  have hP13 : ∀ c ∈ δ ++ (s ++ δ), c ≠ 13 := by
    intro c hc
    rcases List.mem_append.mp hc with h | h
    · exact (hδ c h).2
    · rcases List.mem_append.mp h with h | h
      · exact h13 c h
      · exact (hδ c h).2
  rw [List.append_assoc]
  cases ls with
  | nil =>
    simp only [List.dropLast_singleton, List.nil_append, List.getLastD] at h1
    have h2 := splitLines_prepend_plain δ (s ++ δ) _ _ hδ h1
    exact linesFit_of_lines _ col _ _ hP13 h2 (fun h => absurd rfl h) (fun l hl => by simp at hl)
  | cons b bs =>
    have e : (l0 :: b :: bs).dropLast = l0 :: (b :: bs).dropLast := by simp [List.dropLast]
    rw [e, List.cons_append] at h1
    have h2 := splitLines_prepend_plain δ (s ++ δ) _ _ hδ h1
    refine linesFit_of_lines _ col _ _ hP13 h2 ?_ ?_
    · intro _; have := hfirst (by simp); simp only [List.length_append]; omega
    · intro l hl
      rw [List.dropLast_concat] at hl
      have hm := hmax (by simp)
      have : l ∈ l0 :: b :: bs := List.mem_cons_of_mem _ (List.dropLast_subset _ hl)
      have := le_maxLen l _ this
      omega

end CifModel.Lemmas.Analyze
