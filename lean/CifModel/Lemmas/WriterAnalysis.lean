import CifModel.Model.Analyze
import CifModel.Spec.TextProtocol
/-
  Facts about `cif_analyze_string` (model of group gA) that the writer theorems consume, proved here directly from the
  counting loop: a string containing a semicolon has `max_semi_run > 0`.
-/
namespace CifModel.Lemmas.WriterAnalysis
open CifModel.Model

/-- "a semicolon has been seen": one of the two run counters is positive -/
def SeenSemi (st : Ctr) : Prop := st.mostSemis > 0 ∨ st.consecSemis > 0

theorem rememberSemis_pos (st : Ctr) (h : SeenSemi st) : rememberSemis st > 0 := by
  unfold rememberSemis
  rcases h with h | h
  · split <;> omega
  · split <;> omega

theorem step_keeps (st : Ctr) (ch next : CU) (h : SeenSemi st) : SeenSemi (step st ch next) := by
  have hr := rememberSemis_pos st h
  unfold step
  split
  · exact h
  · split
    · left; exact hr
    · split
      · right; simp
      · left; exact hr

theorem step_semi (st : Ctr) (next : CU) : SeenSemi (step st 59 next) := by
  unfold step
  simp [SeenSemi]

theorem scan_seen : ∀ (s : Str) (st : Ctr), (SeenSemi st ∨ (59 : CU) ∈ s) → SeenSemi (scan st s) := by
  intro s
  induction s with
  | nil => intro st h; rcases h with h | h; exact h; simp at h
  | cons c rest ih =>
    intro st h
    simp only [scan]
    apply ih
    rcases h with h | h
    · left; exact step_keeps st c _ h
    · rcases List.mem_cons.mp h with h1 | h1
      · left; rw [← h1]; exact step_semi st _
      · right; exact h1

/-- `max_semi_run = 0` only for strings without a semicolon -/
theorem maxSemiRun_zero (s : Str) (unq tri : Bool) (limit : Nat)
    (h : (analyze s unq tri limit).maxSemiRun = 0) : (59 : CU) ∉ s := by
  intro hm
  have hs := scan_seen s {} (Or.inr hm)
  have hp := rememberSemis_pos _ hs
  have : (analyze s unq tri limit).maxSemiRun = rememberSemis (scan {} s) := rfl
  omega

end CifModel.Lemmas.WriterAnalysis

namespace CifModel.Lemmas.WriterAnalysis
open CifModel.Model
open CifModel.Spec.TextProtocol (endsBslBlank isBlank)

/-- the backwards scan of `has_reserved_start` over the reversed line = "the last non-blank unit is a backslash" -/
theorem reservedStartScan_snoc (x : Str) (c : CU) :
    reservedStartScan (x ++ [c]) = if x.all isBlank then (!isBlank c && c == 92) else reservedStartScan x := by
  induction x with
  | nil =>
    simp only [List.nil_append, reservedStartScan, List.all_nil, ↓reduceIte]
    by_cases h : c = 9 ∨ c = 32
    · rcases h with h | h <;> subst h <;> decide
    · have hb : isBlank c = false := by
        simp only [not_or] at h
        simp [isBlank, h.1, h.2]
      simp [h, hb]
  | cons a r ih =>
    simp only [List.cons_append, reservedStartScan, List.all_cons]
    by_cases h : a = 9 ∨ a = 32
    · have hb : isBlank a = true := by rcases h with h | h <;> subst h <;> decide
      simp only [h, ↓reduceIte, hb, Bool.true_and]
      exact ih
    · have hb : isBlank a = false := by
        simp only [not_or] at h
        simp [isBlank, h.1, h.2]
      simp [h, hb]

theorem endsBslBlank_allBlank (l : Str) (h : l.all isBlank = true) : endsBslBlank l = false := by
  induction l with
  | nil => rfl
  | cons c r ih =>
    simp only [List.all_cons, Bool.and_eq_true] at h
    have hc : (c == 92) = false := by
      have := h.1
      cases hh : (c == 92)
      · rfl
      · simp at hh; subst hh; simp [isBlank] at this
    simp [endsBslBlank, ih h.2, hc]

theorem reservedStartScan_reverse (l : Str) : reservedStartScan l.reverse = endsBslBlank l := by
  induction l with
  | nil => rfl
  | cons c r ih =>
    rw [List.reverse_cons, reservedStartScan_snoc, ih]
    simp only [List.all_reverse, endsBslBlank]
    by_cases hb : r.all isBlank = true
    · rw [endsBslBlank_allBlank r hb]
      simp only [hb, ↓reduceIte, Bool.false_or, Bool.true_and]
      cases h92 : (c == 92)
      · simp
      · simp at h92; subst h92; simp [isBlank]
    · simp [hb]

/-- `length_first` of a CR-free string is the length of its first line -/
theorem firstLine_exact : ∀ (s : Str) (st : Ctr), (13 : CU) ∉ s → st.cr = 0 → st.crlf = 0 →
    (finishCounts (scan st s)).firstLine =
      if st.nl = 0 then st.thisLine + (s.takeWhile (· != 10)).length else st.firstLine := by
  intro s
  induction s with
  | nil =>
    intro st _ hcr hcrlf
    simp only [scan, finishCounts, hcr, hcrlf, List.takeWhile_nil, List.length_nil]
    by_cases h : st.nl = 0
    · simp [h]
    · have : ¬ (1 + st.nl + 0 - 0 = 1) := by omega
      simp [h, this]
  | cons c rest ih =>
    intro st h13 hcr hcrlf
    have hc13 : c ≠ 13 := fun e => h13 (e ▸ List.mem_cons_self)
    have hrest : (13 : CU) ∉ rest := fun e => h13 (List.mem_cons_of_mem _ e)
    simp only [scan]
    by_cases hc : c = 10
    · subst hc
      have hstep : (step st 10 (rest.headD 0)).nl = st.nl + 1 ∧ (step st 10 (rest.headD 0)).cr = 0
          ∧ (step st 10 (rest.headD 0)).crlf = 0
          ∧ (step st 10 (rest.headD 0)).firstLine = (if st.nl = 0 then st.thisLine else st.firstLine) := by
        simp only [step, hcr, hcrlf]
        simp
      rw [ih _ hrest hstep.2.1 hstep.2.2.1, hstep.1, hstep.2.2.2]
      simp
    · have hstep : (step st c (rest.headD 0)).nl = st.nl ∧ (step st c (rest.headD 0)).cr = 0
          ∧ (step st c (rest.headD 0)).crlf = 0
          ∧ (step st c (rest.headD 0)).firstLine = st.firstLine
          ∧ (step st c (rest.headD 0)).thisLine = st.thisLine + 1 := by
        simp only [step, hc13, hc, false_and, false_or, ↓reduceIte]
        split <;> simp [hcr, hcrlf]
      rw [ih _ hrest hstep.2.1 hstep.2.2.1, hstep.1, hstep.2.2.2.1, hstep.2.2.2.2]
      have : ((c :: rest).takeWhile (· != 10)) = c :: rest.takeWhile (· != 10) := by simp [hc]
      rw [this]
      by_cases h : st.nl = 0
      · simp [h]; omega
      · simp [h]

end CifModel.Lemmas.WriterAnalysis
