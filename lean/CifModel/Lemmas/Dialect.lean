import CifModel.Model.Dialect
/-
  Lemmas for C11: the cascade of cif_parse() depends on `prefer_cif2` only through its four documented ranges.
-/
namespace CifModel.Model.Dialect
open CifModel.Spec.Dialect

/-- the cascade with the integer comparisons replaced by the range of `prefer_cif2` -/
def stage1c (pc : PreferClass) (force : Bool) (cfg : Cfg) (h : Header) : Encoding × Int :=
  let v0 : Int := match pc with | .high => 2 | .neg => 1 | _ => 0
  let vU : Int := match pc with | .low => -2 | _ => v0
  if force then (dflt cfg, vU)
  else
    match h.sig with
    | some e => (.signature e, vU)
    | none =>
      if pc = .high then (.utf8, v0)
      else if pc ≠ .neg ∧ h.rawShort = false ∧ h.rawMagic2 = true ∧ followerPass cfg h.rawNext = true then (.utf8, 2)
      else if pc = .low ∧ (h.rawShort = true ∨ h.rawMagic7 = false) then (.utf8, 2)
      else (if cfg.fallbackNamed then dflt cfg else .system, 1)

theorem stage1_eq_stage1c (prefer : Int) (force : Bool) (cfg : Cfg) (h : Header) :
    stage1 prefer force cfg h = stage1c (classify prefer) force cfg h := by
  obtain ⟨sig, rs, r2, rn, r7, dec, bom, nt⟩ := h
  unfold stage1 stage1c classify
  by_cases h1 : prefer < 0
  · have a1 : ¬ prefer > 19 := by omega
    have a2 : ¬ prefer > 0 := by omega
    have a3 : ¬ prefer ≥ 0 := by omega
    have a4 : prefer < 20 := by omega
    cases force <;> cases sig <;> simp [h1, a1, a2, a3, a4]
  · by_cases h2 : prefer = 0
    · subst h2; cases force <;> cases sig <;> simp
    · by_cases h3 : prefer < 20
      · have a1 : ¬ prefer > 19 := by omega
        have a2 : prefer > 0 := by omega
        have a3 : prefer ≥ 0 := by omega
        cases force <;> cases sig <;> simp [h1, h2, h3, a1, a2, a3]
      · have a1 : prefer > 19 := by omega
        have a2 : prefer > 0 := by omega
        have a3 : prefer ≥ 0 := by omega
        cases force <;> cases sig <;> simp [h1, h2, h3, a1, a2, a3]

/-- the error reports of stage 2 are functions of the version and the encoding it ends up with -/
theorem select_reports (prefer : Int) (force : Bool) (cfg : Cfg) (h : Header) (ht : h.noText = false) :
    (select prefer force cfg h).wrongEncoding =
      ((select prefer force cfg h).version == 2 && !isUtf8 cfg.namedIsUtf8 cfg.systemIsUtf8 (select prefer force cfg h).encoding) ∧
    (select prefer force cfg h).bomDisallowed = ((select prefer force cfg h).version == 1 && h.bomFirst) := by
  simp [select, stage2, ht, notUtf8]

/-- version and encoding, with a forced default or a signature: the raw-byte tests play no role -/
theorem table_forced_or_sig (pc : PreferClass) (force : Bool) (cfg : Cfg) (h : Header) (ht : h.noText = false)
    (hfs : force = true ∨ h.sig ≠ none) :
    (stage1c pc force cfg h).1 = specEncoding force h.sig (specVersion pc h.decoded) cfg.namedGiven ∧
    (stage2 (stage1c pc force cfg h).2 (notUtf8 cfg (stage1c pc force cfg h).1) h).1 = (specVersion pc h.decoded : Int) := by
  obtain ⟨sig, rs, r2, rn, r7, dec, bom, nt⟩ := h
  simp only at ht hfs
  subst ht
  cases force
  · cases sig with
    | none => simp at hfs
    | some e =>
      cases pc <;> cases dec <;> simp [stage1c, stage2, specEncoding, specVersion]
  · cases sig <;> cases pc <;> cases dec <;>
      simp [stage1c, stage2, specEncoding, specVersion, dflt, defaultEncoding]

/-- if the raw test accepts everything the documentation allows after the magic code, a whole-token magic code passes it -/
theorem followerOk_of_cover (cfg : Cfg) (n : Option Nat) (hcov : followersCover cfg) (hn : commentEndsHere n = true) :
    followerPass cfg n = true := by
  unfold followerPass
  rcases hcov with h | ⟨he, h32, h9, h10, h13⟩
  · simp [h]
  · rw [Bool.or_eq_true]; right
    cases n with
    | none => exact he
    | some b =>
      simp only [commentEndsHere, isCifWhitespace, Bool.or_eq_true, beq_iff_eq] at hn
      simp only [followerOk]
      rcases hn with ((h | h) | h) | h <;> subst h <;> assumption

/-- version and encoding without signature and without forcing: here the raw-byte tests decide, and `consistent` ties them
    to the decoded version comment -/
theorem table_raw (pc : PreferClass) (cfg : Cfg) (h : Header) (ht : h.noText = false) (hs : h.sig = none)
    (hc : consistent h) (hcfg : cfg.fallbackNamed = true ∨ cfg.namedGiven = false) (hcov : followersCover cfg) :
    (stage1c pc false cfg h).1 = specEncoding false h.sig (specVersion pc h.decoded) cfg.namedGiven ∧
    (stage2 (stage1c pc false cfg h).2 (notUtf8 cfg (stage1c pc false cfg h).1) h).1 = (specVersion pc h.decoded : Int) := by
  have hc' := hc hs
  obtain ⟨c1, c2, c3⟩ := hc'
  -- the test on the following byte, as a Boolean fact: it passes whenever the raw magic code is there
  have hfo : h.rawMagic2 = true → followerPass cfg h.rawNext = true :=
    fun h2 => followerOk_of_cover cfg h.rawNext hcov (c3 h2)
  unfold stage1c
  generalize hgen : followerPass cfg h.rawNext = fo at hfo
  obtain ⟨sig, rs, r2, rn, r7, dec, bom, nt⟩ := h
  obtain ⟨ng, n8, s8, fb, mw, mf, me⟩ := cfg
  simp only at ht hs hcfg c1 c2 hfo
  subst ht hs
  clear c3 hgen
  cases dec <;> cases rs <;> cases r2 <;> cases r7 <;> simp at c1 c2 hfo <;>
    cases pc <;> cases ng <;> cases fb <;> cases fo <;>
    simp_all [stage2, specEncoding, specVersion, dflt, defaultEncoding]

end CifModel.Model.Dialect
