import CifModel.Lemmas.ParseCBDupX
import CifModel.Lemmas.ParseCBSub
/-
  CifModel.Lemmas.ParseCBDupSub — with duplicates and for EVERY handler program the callbacks of the structural interpreter `xDocD`
  (= the parse, `docD_x`), error callbacks set aside and handles / loop payloads abstracted (`absEv`: a reopened container carries
  the code of its first spelling, a loop that lost columns carries fewer names), are in order callbacks the document owes.
-/
set_option linter.unusedSimpArgs false
set_option linter.unusedVariables false

namespace CifModel.Lemmas.ParseCB
open CifModel.ParseCB CifModel.Spec.Doc
open CifModel.Gen.ErrCodes (CIF_DUP_ITEMNAME CIF_DUP_BLOCKCODE CIF_DUP_FRAMECODE)

/-- an invocation of the error callback (`errEv`) -/
def isErr : Ev → Bool
  | .keyword (0 :: _) => true
  | _ => false

/-- a callback without the payload that duplicates can change: container handles, the names of a loop handle, the items of packet_end -/
def absEv : Ev → Ev
  | .blockStart _ => .blockStart none
  | .blockEnd _ => .blockEnd none
  | .frameStart _ => .frameStart none
  | .frameEnd _ => .frameEnd none
  | .loopStart _ => .loopStart []
  | .loopEnd _ => .loopEnd none
  | .pktEnd _ => .pktEnd []
  | e => e

/-- the callbacks other than error callbacks, abstracted -/
def view (l : List Ev) : List Ev := (l.filter (fun e => !isErr e)).map absEv

theorem view_append (a b : List Ev) : view (a ++ b) = view a ++ view b := by simp [view]

def SubA (s s' : St) (E : List Ev) : Prop := ∃ l : List Ev, s'.log = l.reverse ++ s.log ∧ (view l).Sublist E

theorem SubA.same {s s' : St} (E : List Ev) (h : s'.log = s.log) : SubA s s' E := ⟨[], by simp [h], by simp [view]⟩

theorem SubA.trans {s s1 s2 : St} {E1 E2 : List Ev} (h1 : SubA s s1 E1) (h2 : SubA s1 s2 E2) : SubA s s2 (E1 ++ E2) := by
  obtain ⟨l1, a1, b1⟩ := h1
  obtain ⟨l2, a2, b2⟩ := h2
  exact ⟨l1 ++ l2, by rw [a2, a1]; simp, by rw [view_append]; exact List.Sublist.append b1 b2⟩

theorem SubA.mono {s s' : St} {E E' : List Ev} (h : SubA s s' E) (hE : E.Sublist E') : SubA s s' E' := by
  obtain ⟨l, a, b⟩ := h
  exact ⟨l, a, b.trans hE⟩

theorem SubA.one {s s' : St} (e : Ev) (he : isErr e = false) (h : s'.log = e :: s.log) : SubA s s' [absEv e] :=
  ⟨[e], by simp [h], by simp [view, he]⟩

theorem SubA.err {s s' : St} (k : Nat) (h : s'.log = errEv k :: s.log) : SubA s s' [] :=
  ⟨[errEv k], by simp [h], by simp [view, isErr, errEv]⟩

theorem report_subA (s : St) (k : Nat) : SubA s (report s k) [] := SubA.err k rfl

theorem site_subA (p : Prog) (s : St) (e : Ev) (cur sib : Option Int) (he : isErr e = false) :
    SubA s (site p s e cur sib).2 [absEv e] := SubA.one e he (site_log ..)

-- ---- loops ----------------------------------------------------------------------------------------------------------------------

theorem hdrD_subA (norm : Str → Str) (cont : Bool) (c : Content) : ∀ (names : List Str) (s : St) (acc : List (Option Str)),
    SubA s (hdrD norm cont c names s acc).2 (names.map Ev.dataname)
  | [], s, _ => SubA.same _ rfl
  | nm :: ns, s, acc => by
    simp only [hdrD, List.map_cons]
    have hnote : SubA s (if s.skip ≤ 0 then note s (.dataname nm) else s) [Ev.dataname nm] := by
      split
      · exact SubA.one (Ev.dataname nm) rfl rfl
      · exact SubA.mono (SubA.same [] rfl) (by simp)
    split
    · have h2 := SubA.trans hnote (report_subA _ CIF_DUP_ITEMNAME)
      have h3 := SubA.trans h2 (hdrD_subA norm cont c ns _ (acc ++ [none]))
      simpa using h3
    · have h3 := SubA.trans hnote (hdrD_subA norm cont c ns _ (acc ++ [some nm]))
      simpa using h3

/-- the slots of a header: every slot is dropped or holds the name at its position -/
def SlotsOf : List Str → List (Option Str) → Prop
  | [], [] => True
  | n :: ns, x :: xs => (x = none ∨ x = some n) ∧ SlotsOf ns xs
  | _, _ => False

theorem hdrD_slotsOf (norm : Str → Str) (cont : Bool) (c : Content) : ∀ (names : List Str) (s : St) (acc : List (Option Str)),
    ∃ tl, (hdrD norm cont c names s acc).1 = acc ++ tl ∧ SlotsOf names tl
  | [], s, acc => ⟨[], by simp [hdrD], trivial⟩
  | nm :: ns, s, acc => by
    simp only [hdrD]
    split
    · obtain ⟨tl, a, b⟩ := hdrD_slotsOf norm cont c ns
        (report (if s.skip ≤ 0 then note s (.dataname nm) else s) CIF_DUP_ITEMNAME) (acc ++ [none])
      exact ⟨none :: tl, by rw [a]; simp, Or.inl rfl, b⟩
    · obtain ⟨tl, a, b⟩ := hdrD_slotsOf norm cont c ns (if s.skip ≤ 0 then note s (.dataname nm) else s) (acc ++ [some nm])
      exact ⟨some nm :: tl, by rw [a]; simp, Or.inr rfl, b⟩

theorem slotsOf_getD : ∀ (names : List Str) (slots : List (Option Str)), SlotsOf names slots → ∀ col,
    slots.getD col none = none ∨ slots.getD col none = some (names.getD col [])
  | [], [], _, col => by simp [List.getD]
  | [], _ :: _, h, _ => nomatch h
  | _ :: _, [], h, _ => nomatch h
  | n :: ns, x :: xs, h, col => by
    cases col with
    | zero => simpa [List.getD] using h.1
    | succ k =>
      have := slotsOf_getD ns xs h.2 k
      simpa [List.getD] using this

theorem xRowD_subA (p : Prog) (names : List Str) (slots : List (Option Str)) (hs : SlotsOf names slots) :
    ∀ (vals : List V) (col : Nat) (s : St), SubA s (xRowD p slots col vals s).2 (rowE names col vals)
  | [], _, s => SubA.same _ rfl
  | v :: vs, col, s => by
    simp only [xRowD, rowE]
    have h1 : SubA s (itemStepD p (slots.getD col none) OK v s).2 [.item (names.getD col []) v] := by
      rcases slotsOf_getD names slots hs col with h | h
      · rw [h]; exact SubA.mono (SubA.same [] rfl) (by simp)
      · rw [h]
        simp only [itemStepD, itemStep]
        split
        · exact site_subA p s (.item (names.getD col []) v) none (some 1) rfl
        · exact SubA.mono (SubA.same [] rfl) (by simp)
    split
    · exact SubA.trans h1 (xRowD_subA p names slots hs vs (col + 1) _)
    · exact SubA.mono h1 (by simp)

theorem pktStart_subA (p : Prog) (s : St) : SubA s (pktStartStep p s).2 [.pktStart] := by
  unfold pktStartStep
  split
  · exact SubA.mono (SubA.same [] rfl) (by simp)
  · exact site_subA p s .pktStart _ _ rfl

theorem pktEnd_subA (p : Prog) (items : List (Str × V)) (s : St) : SubA s (pktEndStep p items s).2.1 [.pktEnd []] := by
  unfold pktEndStep
  split
  · exact SubA.mono (SubA.same [] rfl) (by simp)
  · exact site_subA p s (.pktEnd items) _ _ rfl

/-- the callbacks of a packet, abstracted -/
def pktA (names : List Str) (pk : List V) : List Ev := .pktStart :: (rowE names 0 pk ++ [.pktEnd []])

theorem xPkD_subA (p : Prog) (names : List Str) (slots : List (Option Str)) (hs : SlotsOf names slots) (pk : List V) (s : St) :
    SubA s (xPkD p slots 0 [] pk s).2.1 (pktA names pk) := by
  unfold xPkD pktA
  simp only [if_true, List.nil_append]
  have h1 := pktStart_subA p s
  split
  · exact SubA.mono h1 (by simp)
  · have h2 := xRowD_subA p names slots hs pk 0 (pktStartStep p s).2
    split
    · exact SubA.mono (SubA.trans h1 h2) (by simp)
    · have h3 := pktEnd_subA p (List.zip (slots.filterMap id) (keptD slots 0 pk)) (xRowD p slots 0 pk (pktStartStep p s).2).2
      exact SubA.mono (SubA.trans (SubA.trans h1 h2) h3) (by simp)

theorem xPacketsD_subA (p : Prog) (loopH : Bool) (names : List Str) (slots : List (Option Str)) (hs : SlotsOf names slots) :
    ∀ (pks : List (List V)) (s : St) (acc : List (List V)),
    SubA s (xPacketsD p loopH slots pks s acc).2.1 (pks.map (pktA names)).flatten
  | [], s, _ => SubA.same _ rfl
  | pk :: pks, s, acc => by
    simp only [xPacketsD, List.map_cons, List.flatten_cons]
    have h1 := xPkD_subA p names slots hs pk s
    split
    · exact SubA.mono h1 (List.sublist_append_left _ _)
    · exact SubA.trans h1 (xPacketsD_subA p loopH names slots hs pks _ _)

theorem loopStart_subA (p : Prog) (cont : Bool) (names : List Str) (s : St) :
    SubA s (loopStartStep p cont names s).2.1 [.loopStart []] := by
  unfold loopStartStep
  split
  · exact site_subA p s (.loopStart names) _ _ rfl
  · exact SubA.mono (SubA.same [] rfl) (by simp)

theorem loopEnd_subA (p : Prog) (hd : Option (List Str)) (r : Int) (s : St) : SubA s (loopEndStep p hd r s).2 [.loopEnd none] := by
  unfold loopEndStep
  split
  · exact SubA.mono (SubA.same [] rfl) (by simp)
  · split
    · exact site_subA p s (.loopEnd hd) _ _ rfl
    · exact SubA.mono (SubA.same [] rfl) (by simp)

/-- the callbacks of a loop behind its keyword, abstracted -/
def loopA (names : List Str) (pks : List (List V)) : List Ev :=
  names.map Ev.dataname ++ (.loopStart [] :: ((pks.map (pktA names)).flatten ++ [.loopEnd none]))

theorem xLoopD_subA (p : Prog) (norm : Str → Str) (cont : Bool) (c : Content) (names : List Str) (pks : List (List V)) (s : St) :
    SubA s (xLoopD p norm cont c names pks s).2.1 (loopA names pks) := by
  have hinc : SubA s (inc s) [] := SubA.same _ (inc_log s)
  have hh := hdrD_subA norm cont c names (inc s) []
  obtain ⟨tl, ha, hb⟩ := hdrD_slotsOf norm cont c names (inc s) []
  simp only [List.nil_append] at ha
  unfold xLoopD loopA
  dsimp only
  rw [ha]
  have h0 := SubA.trans hinc hh
  simp only [List.nil_append] at h0
  split
  · exact SubA.mono (SubA.trans h0 (loopEnd_subA p none MALFORMED _)) (by simp)
  · have h1 := loopStart_subA p cont (tl.filterMap id) (hdrD norm cont c names (inc s) []).2
    split
    · have h2 := xPacketsD_subA p (loopStartStep p cont (tl.filterMap id) (hdrD norm cont c names (inc s) []).2).2.2.1 names tl hb pks
        (loopStartStep p cont (tl.filterMap id) (hdrD norm cont c names (inc s) []).2).2.1 []
      have h3 := loopEnd_subA p (if (loopStartStep p cont (tl.filterMap id) (hdrD norm cont c names (inc s) []).2).2.2.1 = true
          then some (tl.filterMap id) else none)
        (xPacketsD p (loopStartStep p cont (tl.filterMap id) (hdrD norm cont c names (inc s) []).2).2.2.1 tl pks
          (loopStartStep p cont (tl.filterMap id) (hdrD norm cont c names (inc s) []).2).2.1 []).1
        (xPacketsD p (loopStartStep p cont (tl.filterMap id) (hdrD norm cont c names (inc s) []).2).2.2.1 tl pks
          (loopStartStep p cont (tl.filterMap id) (hdrD norm cont c names (inc s) []).2).2.1 []).2.1
      exact SubA.mono (SubA.trans h0 (SubA.trans h1 (SubA.trans h2 h3))) (by simp)
    · have h3 := loopEnd_subA p (if (loopStartStep p cont (tl.filterMap id) (hdrD norm cont c names (inc s) []).2).2.2.1 = true
          then some (tl.filterMap id) else none)
        (loopStartStep p cont (tl.filterMap id) (hdrD norm cont c names (inc s) []).2).1
        (loopStartStep p cont (tl.filterMap id) (hdrD norm cont c names (inc s) []).2).2.1
      exact SubA.mono (SubA.trans h0 (SubA.trans h1 h3)) (by simp)

-- ---- containers -----------------------------------------------------------------------------------------------------------------

mutual
  /-- the callbacks an element owes, abstracted -/
  def elemA : Elem → List Ev
    | .item nm v => [.dataname nm, .item nm v]
    | .loop names pks => .keyword [] :: loopA names pks
    | .frame _ body => .frameStart none :: (elemsA body ++ [.frameEnd none])
  def elemsA : List Elem → List Ev
    | [] => []
    | e :: es => elemA e ++ elemsA es
end

theorem contStart_subA (p : Prog) (cont isBlock : Bool) (code : Str) (s : St) :
    SubA s (contStartStep p cont isBlock code s).2 [if isBlock then Ev.blockStart none else Ev.frameStart none] := by
  unfold contStartStep
  split
  · exact SubA.mono (SubA.same [] (inc_log s)) (by simp)
  · cases isBlock
    · exact site_subA p s (.frameStart _) _ _ rfl
    · exact site_subA p s (.blockStart _) _ _ rfl

theorem containerEnd_subA (p : Prog) (cont isBlock : Bool) (code : Str) (r : Int) (s : St) (c : Content) :
    SubA s (containerEnd p cont isBlock code r s c).2.1 [if isBlock then Ev.blockEnd none else Ev.frameEnd none] := by
  unfold containerEnd
  split
  · have h1 : SubA s (dec s) [] := SubA.same _ (dec_log s)
    cases isBlock
    · exact SubA.mono (SubA.trans h1 (site_subA p (dec s) (.frameEnd _) _ _ rfl)) (by simp [absEv])
    · exact SubA.mono (SubA.trans h1 (site_subA p (dec s) (.blockEnd _) _ _ rfl)) (by simp [absEv])
  · exact SubA.mono (SubA.same [] (dec_log s)) (by simp)

theorem xContD_subA (p : Prog) (norm : Str → Str) (fc isBlock : Bool) (code : Str) (body : List Elem) (s : St) (c0 : Content)
    (ih : ∀ s' c', SubA s' (xElemsD p norm fc body s' c').2.1 (elemsA body)) :
    SubA s (xContD p norm fc isBlock code body s c0).2.1
      ((if isBlock then Ev.blockStart none else Ev.frameStart none)
        :: (elemsA body ++ [if isBlock then Ev.blockEnd none else Ev.frameEnd none])) := by
  unfold xContD
  have h1 := contStart_subA p fc isBlock code s
  by_cases hst : (contStartStep p fc isBlock code s).1 ≠ OK
  · rw [if_pos hst]
    exact SubA.mono (SubA.trans h1 (containerEnd_subA p fc isBlock code _ _ _)) (by simp)
  · rw [if_neg hst]
    have h2 := ih (contStartStep p fc isBlock code s).2 c0
    exact SubA.mono (SubA.trans h1 (SubA.trans h2 (containerEnd_subA p fc isBlock code _ _ _))) (by simp)

mutual
  theorem xElemD_subA (p : Prog) (norm : Str → Str) (cont : Bool) : ∀ (e : Elem) (s : St) (c : Content),
      SubA s (xElemD p norm cont e s c).2.1 (elemA e)
    | .item nm v, s, c => by
      simp only [xElemD, elemA]
      split
      · exact SubA.mono (SubA.same [] (by rw [dec_log, inc_log])) (by simp)
      · split
        · have h1 : SubA s (note s (.dataname nm)) [Ev.dataname nm] := SubA.one (Ev.dataname nm) rfl rfl
          have h2 := report_subA (note s (.dataname nm)) CIF_DUP_ITEMNAME
          have h3 : SubA (report (note s (.dataname nm)) CIF_DUP_ITEMNAME)
              (dec (inc (report (note s (.dataname nm)) CIF_DUP_ITEMNAME))) [] := SubA.same _ (by rw [dec_log, inc_log])
          exact SubA.mono (SubA.trans h1 (SubA.trans h2 h3)) (by simp)
        · have h1 : SubA s (inc (note s (.dataname nm))) [Ev.dataname nm] :=
            SubA.one (Ev.dataname nm) rfl (by rw [inc_log]; rfl)
          have h2 : SubA (inc (note s (.dataname nm))) (dec (scalarItemStep p cont nm v (inc (note s (.dataname nm)))).2.1) [.item nm v] :=
            SubA.one (.item nm v) rfl (by rw [dec_log]; exact site_log ..)
          exact SubA.trans h1 h2
    | .loop names pks, s, c => by
      simp only [xElemD, elemA]
      split
      · exact SubA.trans (SubA.one (Ev.keyword []) rfl rfl : SubA s (note s (Ev.keyword [])) [Ev.keyword []])
          (xLoopD_subA p norm cont c names pks _)
      · exact SubA.mono (xLoopD_subA p norm cont c names pks s) (by simp)
    | .frame code body, s, c => by
      rw [xElemD_frame]
      simp only [elemA]
      split
      · have := xContD_subA p norm false false code body s .empty (fun s' c' => xElemsD_subA p norm false body s' c')
        simpa using this
      · split
        · rename_i old _
          have h1 := report_subA s CIF_DUP_FRAMECODE
          have h2 := xContD_subA p norm true false old.code body (report s CIF_DUP_FRAMECODE) ⟨old.frames, old.loops⟩
            (fun s' c' => xElemsD_subA p norm true body s' c')
          have := SubA.trans h1 h2
          simpa using this
        · have := xContD_subA p norm true false code body s .empty (fun s' c' => xElemsD_subA p norm true body s' c')
          simpa using this
  theorem xElemsD_subA (p : Prog) (norm : Str → Str) (cont : Bool) : ∀ (es : List Elem) (s : St) (c : Content),
      SubA s (xElemsD p norm cont es s c).2.1 (elemsA es)
    | [], s, _ => SubA.same _ rfl
    | e :: es, s, c => by
      simp only [xElemsD, elemsA]
      have h1 := xElemD_subA p norm cont e s c
      split
      · exact SubA.trans h1 (xElemsD_subA p norm cont es _ _)
      · exact SubA.mono h1 (List.sublist_append_left _ _)
end

def blocksA (d : Doc) : List Ev := (d.map (fun b => Ev.blockStart none :: (elemsA b.body ++ [Ev.blockEnd none]))).flatten

theorem xBlocksD_subA (p : Prog) (norm : Str → Str) (cif : Bool) : ∀ (d : Doc) (s : St) (acc : List Container),
    SubA s (xBlocksD p norm cif d s acc).2.1 (blocksA d)
  | [], s, _ => SubA.same _ rfl
  | b :: bs, s, acc => by
    simp only [xBlocksD, blocksA, List.map_cons, List.flatten_cons]
    have hrest := fun s' acc' => xBlocksD_subA p norm cif bs s' acc'
    split
    · split
      · rename_i old _
        have h1 := report_subA s CIF_DUP_BLOCKCODE
        have h2 := xContD_subA p norm true true old.code b.body (report s CIF_DUP_BLOCKCODE) ⟨old.frames, old.loops⟩
          (fun s' c' => xElemsD_subA p norm true b.body s' c')
        have h12 := SubA.trans h1 h2
        simp only [List.nil_append, if_true] at h12
        split
        · exact SubA.trans h12 (hrest _ _)
        · exact SubA.mono h12 (List.sublist_append_left _ _)
      · have h2 := xContD_subA p norm true true b.code b.body s .empty (fun s' c' => xElemsD_subA p norm true b.body s' c')
        simp only [if_true] at h2
        split
        · exact SubA.trans h2 (hrest _ _)
        · exact SubA.mono h2 (List.sublist_append_left _ _)
    · have h2 := xContD_subA p norm false true b.code b.body s .empty (fun s' c' => xElemsD_subA p norm false b.body s' c')
      simp only [if_true] at h2
      split
      · exact SubA.trans h2 (hrest _ _)
      · exact SubA.mono h2 (List.sublist_append_left _ _)

/-- the callbacks a document owes, handles and loop payloads abstracted -/
def docA (cif : Bool) (d : Doc) : List Ev := Ev.cifStart cif :: (blocksA d ++ [Ev.cifEnd cif])

/-- **every program, any duplicates**: the callbacks of the structural interpreter — error callbacks set aside, abstracted — are in
    order callbacks the document owes -/
theorem xDocD_subA (p : Prog) (norm : Str → Str) (cif : Bool) (d : Doc) :
    (view (xDocD p norm cif d (St.init [])).2.1.log.reverse).Sublist (docA cif d) := by
  have fin : ∀ (s' : St), SubA (St.init []) s' (docA cif d) → (view s'.log.reverse).Sublist (docA cif d) := by
    intro s' h
    obtain ⟨l, a, b⟩ := h
    rw [a]; simpa [St.init] using b
  have cifEnd_subA : ∀ (r : Int) (s : St), SubA s (cifEndStep p cif r s).2 [Ev.cifEnd cif] := by
    intro r s
    unfold cifEndStep
    split
    · exact SubA.one (Ev.cifEnd cif) rfl (by simp [push, dec_log])
    · exact SubA.mono (SubA.same [] (dec_log s)) (by simp)
  apply fin
  unfold xDocD docA
  split
  · exact SubA.mono (SubA.one (Ev.cifStart cif) rfl rfl : SubA (St.init []) (push (St.init []) (Ev.cifStart cif)) [Ev.cifStart cif])
      (by simp [absEv])
  · have h1 : SubA (St.init []) (site p (St.init []) (Ev.cifStart cif) (some 1) (some 1)).2 [Ev.cifStart cif] :=
      site_subA p _ (.cifStart cif) _ _ rfl
    by_cases hok : (site p (St.init []) (Ev.cifStart cif) (some 1) (some 1)).1 = OK
    · simp only [hok, if_true]
      have h2 := xBlocksD_subA p norm cif d (site p (St.init []) (Ev.cifStart cif) (some 1) (some 1)).2 []
      have := SubA.trans h1 (SubA.trans h2 (cifEnd_subA
        (xBlocksD p norm cif d (site p (St.init []) (Ev.cifStart cif) (some 1) (some 1)).2 []).1 _))
      simpa using this
    · simp only [hok, if_false]
      have := SubA.trans h1 (cifEnd_subA (site p (St.init []) (Ev.cifStart cif) (some 1) (some 1)).1 _)
      exact SubA.mono this (by simp)

-- ---- the abstract target is the document's callbacks, abstracted ------------------------------------------------------------------------

theorem map_absEv_itemEvs (names : List Str) (vals : List V) : (itemEvs names vals).map absEv = itemEvs names vals := by
  unfold itemEvs
  rw [List.map_map]
  apply List.map_congr_left
  intro x _
  rfl

theorem map_absEv_datanames (names : List Str) : (names.map Ev.dataname).map absEv = names.map Ev.dataname := by
  rw [List.map_map]; apply List.map_congr_left; intro x _; rfl

theorem pktA_eq (names : List Str) (pk : List V) (h : pk.length = names.length) : pktA names pk = (pktEvs names pk).map absEv := by
  unfold pktA pktEvs
  rw [rowE_eq names pk 0 (by simp [h])]
  simp [map_absEv_itemEvs, absEv]

theorem loopA_eq (names : List Str) (pks : List (List V)) (hl : ∀ pk ∈ pks, pk.length = names.length) :
    loopA names pks = (loopEvs true names pks).map absEv := by
  unfold loopA loopEvs
  have hpk : (pks.map (pktA names)).flatten = ((pks.map (pktEvs names)).flatten).map absEv := by
    rw [List.map_flatten, List.map_map]
    congr 1
    apply List.map_congr_left
    intro pk h
    exact pktA_eq names pk (hl pk h)
  simp [hpk, map_absEv_datanames, absEv]

mutual
  theorem elemA_eq : ∀ (e : Elem) (a : Bool), wfElem a e = true → elemA e = (elemEvents true e).map absEv
    | .item nm v, _, _ => rfl
    | .loop names pks, a, hw => by
      rw [elemEvents_loop]
      simp only [elemA, List.map_cons, loopA_eq names pks (wfElem_loop_len hw)]
      rfl
    | .frame code body, a, hw => by
      have hwb : wfElems false body = true := by
        simp only [wfElem, Bool.and_eq_true] at hw; exact hw.2
      simp [elemA, elemEvents, elemsA_eq body false hwb, absEv]
  theorem elemsA_eq : ∀ (es : List Elem) (a : Bool), wfElems a es = true → elemsA es = (elemsEvents true es).map absEv
    | [], _, _ => rfl
    | e :: es, a, hw => by
      simp only [wfElems, Bool.and_eq_true] at hw
      simp [elemsA, elemsEvents, elemA_eq e a hw.1, elemsA_eq es a hw.2]
end

theorem docA_eq (d : Doc) (hw : wfDoc d = true) : docA true d = (docEvents true d).map absEv := by
  unfold docA docEvents blocksA
  have hb : (d.map (fun b => Ev.blockStart none :: (elemsA b.body ++ [Ev.blockEnd none]))).flatten
      = ((d.map (fun b => Ev.blockStart (if true = true then some b.code else none)
          :: (elemsEvents true b.body ++ [Ev.blockEnd (if true = true then some b.code else none)]))).flatten).map absEv := by
    rw [List.map_flatten, List.map_map]
    congr 1
    apply List.map_congr_left
    intro b hb
    have hwb : wfElems true b.body = true := by
      simp only [wfDoc, List.all_eq_true] at hw; exact hw b hb
    simp [elemsA_eq b.body true hwb, absEv]
  simp [hb, absEv]

end CifModel.Lemmas.ParseCB
