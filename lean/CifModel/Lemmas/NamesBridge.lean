import CifModel.Lemmas.NamesEntry
/-
  The bridge between the two association-list models of map.c: `Model.Value`'s `mapFind / mapSet / mapReplace / mapErase / mapKeys`
  (group gC: tables and packets as values, first match replaced / erased) and `Model.Normalize`'s `Entries.find / set / remove / keys`
  (group gA: every match rewritten / filtered), on which the C09 map theorems are stated.  The entry type is the same
  (`Value.Entry = Str × Str × V`, `Entries V`); the operations coincide on maps whose normalised keys are pairwise different — the
  invariant `KeyedBy` that `cif_map_set_item` maintains (`C09_map_invariant`).
-/
namespace CifModel.Lemmas.Names
open CifModel CifModel.Model

theorem mapFind_eq_find : ∀ (es : List Value.Entry) (nk : Str), Value.mapFind es nk = Entries.find es nk
  | [], _ => rfl
  | e :: es, nk => by
    unfold Value.mapFind Entries.find
    by_cases h : e.1 = nk
    · simp [h]
    · have hb : (e.1 == nk) = false := by simpa using h
      simp only [h, if_false, List.find?, hb]
      exact mapFind_eq_find es nk

theorem mapReplace_absent : ∀ (es : List Value.Entry) (nk ko : Str) (x : V), nk ∉ es.map (·.1) → Value.mapReplace es nk ko x = es
  | [], _, _, _, _ => rfl
  | e :: es, nk, ko, x, h => by
    have h1 : ¬ e.1 = nk := fun e1 => h (by simp [e1])
    have h2 : nk ∉ es.map (·.1) := fun hm => h (by simp at hm ⊢; exact Or.inr hm)
    simp only [Value.mapReplace, h1, if_false, mapReplace_absent es nk ko x h2]

theorem map_absent (es : List Value.Entry) (nk ko : Str) (x : V) (h : nk ∉ es.map (·.1)) :
    es.map (fun e => if e.1 == nk then (nk, ko, x) else e) = es := by
  induction es with
  | nil => rfl
  | cons e es ih =>
    have h1 : (e.1 == nk) = false := by
      have : ¬ e.1 = nk := fun e1 => h (by simp [e1])
      simpa using this
    have h2 : nk ∉ es.map (·.1) := fun hm => h (by simp at hm ⊢; exact Or.inr hm)
    simp only [List.map_cons, h1, Bool.false_eq_true, if_false, ih h2]

/-- replacing the FIRST match = rewriting EVERY match, when keys are pairwise different -/
theorem mapReplace_eq_map : ∀ (es : List Value.Entry) (nk ko : Str) (x : V), (es.map (·.1)).Nodup →
    Value.mapReplace es nk ko x = es.map (fun e => if e.1 == nk then (nk, ko, x) else e)
  | [], _, _, _, _ => rfl
  | e :: es, nk, ko, x, hnd => by
    rw [List.map_cons, List.nodup_cons] at hnd
    by_cases h : e.1 = nk
    · subst h
      have h1 : (e.1 == e.1) = true := by simp
      rw [List.map_cons, map_absent es e.1 ko x hnd.1]
      simp only [Value.mapReplace, ↓reduceIte, h1]
    · have hb : (e.1 == nk) = false := by simpa using h
      simp only [Value.mapReplace, h, if_false, List.map_cons, hb, Bool.false_eq_true, mapReplace_eq_map es nk ko x hnd.2]

theorem filter_absent (es : List Value.Entry) (nk : Str) (h : nk ∉ es.map (·.1)) : es.filter (fun e => !(e.1 == nk)) = es := by
  rw [List.filter_eq_self]
  intro e he
  have : ¬ e.1 = nk := fun e1 => h (List.mem_map.mpr ⟨e, he, e1⟩)
  simpa using this

/-- erasing the FIRST match = filtering EVERY match out, when keys are pairwise different -/
theorem mapErase_eq_filter : ∀ (es : List Value.Entry) (nk : Str), (es.map (·.1)).Nodup →
    Value.mapErase es nk = es.filter (fun e => !(e.1 == nk))
  | [], _, _ => rfl
  | e :: es, nk, hnd => by
    rw [List.map_cons, List.nodup_cons] at hnd
    by_cases h : e.1 = nk
    · subst h
      have h1 : (e.1 == e.1) = true := by simp
      rw [List.filter_cons, filter_absent es e.1 hnd.1]
      simp only [Value.mapErase, ↓reduceIte, h1, Bool.not_true, Bool.false_eq_true]
    · have hb : (e.1 == nk) = false := by simpa using h
      simp only [Value.mapErase, h, if_false, List.filter_cons, hb, Bool.not_false, if_true, mapErase_eq_filter es nk hnd.2]

/-- `cif_value_get_item_by_key` of the value model = `Entries.get` with the table normaliser -/
theorem tableGet_bridge (U : UnicodeOps) (es : List Value.Entry) (key : Str) :
    Value.tableGet (tableNorm U) (.tbl es) key
      = Entries.get es (fun n => normalizeTableIndex U n Value.NOSUCH_ITEM) key Value.NOSUCH_ITEM := by
  cases hd : hasDisallowed key with
  | true => simp [Value.tableGet, Entries.get, tableNorm, normalizeTableIndex, hd]
  | false =>
    simp only [Value.tableGet, Entries.get, tableNorm, normalizeTableIndex, hd, Bool.false_eq_true, if_false, mapFind_eq_find]
    cases Entries.find es (U.nfc key) <;> rfl

/-- `cif_value_set_item_by_key` of the value model = `Entries.set` with the table normaliser, on a map with distinct keys -/
theorem tableSet_bridge (U : UnicodeOps) (es : List Value.Entry) (key : Str) (x : V) (hnd : (es.map (·.1)).Nodup) :
    Value.tableSet (tableNorm U) (.tbl es) key (some x)
      = (Entries.set es (fun n => normalizeTableIndex U n Value.INVALID_INDEX) key x).map V.tbl := by
  cases hd : hasDisallowed key with
  | true => simp [Value.tableSet, Entries.set, tableNorm, normalizeTableIndex, hd, Except.map]
  | false =>
    simp only [Value.tableSet, Entries.set, tableNorm, normalizeTableIndex, hd, Bool.false_eq_true, if_false, Value.mapSet,
      mapFind_eq_find, Option.getD]
    cases hf : Entries.find es (U.nfc key) with
    | none => simp [Except.map]
    | some e => simp [Except.map, mapReplace_eq_map es _ _ _ hnd]

/-- `cif_value_remove_item_by_key` of the value model = `Entries.remove` with the table normaliser, on a map with distinct keys -/
theorem tableRemove_bridge (U : UnicodeOps) (es : List Value.Entry) (key : Str) (hnd : (es.map (·.1)).Nodup) :
    (Value.tableRemove (tableNorm U) (.tbl es) key).map (·.1)
      = (Entries.remove es (fun n => normalizeTableIndex U n Value.NOSUCH_ITEM) key Value.NOSUCH_ITEM).map V.tbl := by
  cases hd : hasDisallowed key with
  | true => simp [Value.tableRemove, Entries.remove, tableNorm, normalizeTableIndex, hd, Except.map]
  | false =>
    simp only [Value.tableRemove, Entries.remove, tableNorm, normalizeTableIndex, hd, Bool.false_eq_true, if_false, mapFind_eq_find]
    cases hf : Entries.find es (U.nfc key) with
    | none => simp [Except.map]
    | some e => simp [Except.map, mapErase_eq_filter es _ hnd]

theorem tableKeys_bridge (es : List Value.Entry) : Value.tableKeys (.tbl es) = .ok (Entries.keys es) := rfl

end CifModel.Lemmas.Names
