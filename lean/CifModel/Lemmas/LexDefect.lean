import CifModel.Lemmas.ParserDetLex
import CifModel.Lemmas.LexerKw
/-
  Lemmas/LexDefect — the defect classes of property C12 that live in the scanner (Model/Lexer.lean): what the scan
  functions do at a defect under the accept-all policy — the report(s), the documented recovery, the state in which scanning
  goes on — and, through prefix determinism (`DetL`, Lemmas/ParserDet*.lean), under the die policy.
-/
set_option linter.unusedSimpArgs false

namespace CifModel.Model.Lexer
open CifModel CifModel.Model.Chars CifModel.Spec.Lexical CifModel.Model.Parser
open CifModel.Gen.ErrCodes

/-! ### from accept-all to die -/

theorem report_accept (code : Code) (line col : Nat) (log : List Report) :
    report code line col acceptAll log = .ok () (⟨code, line, col⟩ :: log) := by
  simp [report, acceptAll]

theorem firstNZ_die (n : Nat) (d : List Report) (r : Report) (hr : r.code ≠ 0) :
    firstNZ dieAll n (d ++ [r]) = some (r, []) := by
  rw [firstNZ_append]
  have : firstNZ dieAll n [r] = some (r, []) := by
    simp only [firstNZ, List.length_nil, Nat.add_zero, dieAll]
    simp [hr]
  rw [this]

/-- if the accept-all run of a scanner action logs at least one report, the run under `cif_parse_error_die` stops at the
    OLDEST of them, with its code, having logged just that one -/
theorem die_of_accept {α} {m : L α} (hdet : DetL m) {log d : List Report} {r : Report} {a : α}
    (h : m acceptAll log = .ok a (d ++ [r] ++ log)) : m dieAll log = .abort r.code (r :: log) := by
  obtain ⟨d', hlog, hcodes, hres⟩ := hdet.run dieAll log
  rw [h] at hlog
  simp only [logOfL] at hlog
  have hd : d' = d ++ [r] := (List.append_cancel_right hlog).symm
  subst hd
  have hr : r.code ≠ 0 := hcodes r (by simp)
  rw [firstNZ_die log.length d r hr] at hres
  simpa [dieAll] using hres

/-! ### CIF_DISALLOWED_INITIAL_CHAR (cif_parse_internal / get_first_char; Model/Parser.lean `parseInternal`) -/

/-- accept: one report (code 109, line 1), the character is accepted and the parse goes on as `afterFirst` does on the same text -/
theorem initial_char_accept (o : Opts) (fuel : Nat) (c : Nat) (rest : Str) (w : W) (h : disallowedInitial c = true) :
    parseInternal o fuel (c :: rest) acceptAll w
      = afterFirst o fuel c rest acceptAll { w with log := ⟨CIF_DISALLOWED_INITIAL_CHAR, 1, 0⟩ :: w.log } := by
  simp [parseInternal, h, ask, P.bind, acceptAll]

/-- die: the parse ends at once with that code, nothing else is reported -/
theorem initial_char_die (o : Opts) (fuel : Nat) (c : Nat) (rest : Str) (w : W) (h : disallowedInitial c = true) :
    parseInternal o fuel (c :: rest) dieAll w
      = .abort CIF_DISALLOWED_INITIAL_CHAR { w with log := ⟨CIF_DISALLOWED_INITIAL_CHAR, 1, 0⟩ :: w.log } := by
  simp [parseInternal, h, ask, P.bind, dieAll, Parser.fail, CIF_DISALLOWED_INITIAL_CHAR]

/-- no defect, no report from this site (any policy) -/
theorem initial_char_clean (o : Opts) (fuel : Nat) (c : Nat) (rest : Str) (pol : Policy) (w : W) (h : disallowedInitial c = false) :
    parseInternal o fuel (c :: rest) pol w = afterFirst o fuel c rest pol w := by
  simp [parseInternal, h, P.bind, P.pure]

/-- which first characters are refused: anything above U+007E except U+FEFF, and the C0 controls other than HT, LF, CR, and DEL -/
theorem disallowedInitial_iff (c : Nat) :
    disallowedInitial c = true ↔ (126 < c ∧ c ≠ 0xFEFF) ∨ (c < 32 ∧ c ≠ 9 ∧ c ≠ 10 ∧ c ≠ 13) := by
  by_cases hc : c < 160
  · have key : (List.range 160).all (fun c => disallowedInitial c == (decide ((126 < c ∧ c ≠ 0xFEFF) ∨ (c < 32 ∧ c ≠ 9 ∧ c ≠ 10 ∧ c ≠ 13)))) = true := by
      decide +kernel
    have := forall_lt_of_range_all key c hc
    simp only [beq_iff_eq] at this
    rw [this]; simp
  · have h1 : c > cif1MaxChar := by simp only [cif1MaxChar]; omega
    simp only [disallowedInitial, h1, if_true, bne_iff_ne, ne_eq]
    constructor
    · intro h; left; exact ⟨by omega, h⟩
    · rintro (⟨_, h⟩ | ⟨h, _⟩)
      · exact h
      · omega

/-! ### CIF_MISSING_SPACE: a token that starts where whitespace is required -/

/-- next_token's dispatch behind the whitespace test -/
def stepBody (dia : Dialect) (afterWs : Bool) (c : CU) (r : Str) (line col : Nat) : L Step := do
  let col1 := col + 1
  let cls := classOf dia c
  if cls = .eol then do
    let p ← scanWs dia (c :: r) line (col1 - 1) 0
    pure (.skip true p)
  else if cls = .ws then do
    let p ← scanWs dia r line col1 0
    pure (.skip true p)
  else if cls = .hash then do
    let s ← scanToEol dia r line col1 false [c]
    pure (.skip afterWs s.pos)
  else if cls = .undersc then do
    let s ← scanToWs dia r line col1 false [c]
    pure (mkTok .name s.acc.reverse s.pos)
  else if cls = .obrak then pure (mkTok .olist [c] ⟨r, line, col1⟩)
  else if cls = .cbrak then pure (mkTok .clist [c] ⟨r, line, col1⟩)
  else if cls = .ocurl then pure (mkTok .otable [c] ⟨r, line, col1⟩)
  else if cls = .ccurl then pure (mkTok .ctable [c] ⟨r, line, col1⟩)
  else if cls = .quote then do
    let s ← scanDelim dia c r line col1 false [] true
    pure (keyPeek .key .qvalue s.acc.reverse s.pos)
  else if cls = .semi then
    if col1 = 1 then do
      let s ← scanText dia r line col1 false [] 0
      if dia = .cif2 then pure (keyPeek .tkey .tvalue s.acc.reverse s.pos)
      else pure (mkTok .tvalue s.acc.reverse s.pos)
    else do
      let s ← scanUnquoted dia (c :: r) line (col1 - 1) false [] 0 true true
      finishUnquoted dia afterWs s.acc.reverse s.pos
  else do
    let s ← scanUnquoted dia (c :: r) line (col1 - 1) false [] 0 true true
    finishUnquoted dia afterWs s.acc.reverse s.pos

theorem stepTok_eq_body (dia : Dialect) (aw : Bool) (c : Nat) (r : Str) (line col : Nat) :
    stepTok dia aw c r line col
      = L.bind (reportIf (metaOfCls (classOf dia c) != .close && metaOfCls (classOf dia c) != .ws && !aw) CIF_MISSING_SPACE line col)
          (fun _ => stepBody dia aw c r line col) := by
  unfold stepTok stepBody
  simp only [bind_eq, Nat.add_sub_cancel]

theorem finishUnquoted_tok_aw {dia : Dialect} {aw aw' : Bool} {t : Str} {p : Pos} {pol : Policy} {log log' : List Report} {tk : Tok} {p' : Pos}
    (h : finishUnquoted dia aw t p pol log = .ok (.tok tk p') log') : finishUnquoted dia aw' t p pol log = .ok (.tok tk p') log' := by
  unfold finishUnquoted at h ⊢
  cases hk : classify dia t <;> simp only [hk] at h ⊢
  all_goals first
    | exact h
    | (simp only [bind_eq, pure_eq] at h
       obtain ⟨_, l1, _, h2⟩ := L.bind_ok_inv h
       obtain ⟨h3, _⟩ := L.pure_ok_inv h2
       cases h3)

/-- a token that the dispatch yields does not depend on the `after_ws` flag -/
theorem stepBody_tok_aw {dia : Dialect} {aw aw' : Bool} {c : Nat} {r : Str} {line col : Nat} {pol : Policy} {log log' : List Report}
    {tk : Tok} {p' : Pos} (h : stepBody dia aw c r line col pol log = .ok (.tok tk p') log') :
    stepBody dia aw' c r line col pol log = .ok (.tok tk p') log' := by
  unfold stepBody at h ⊢
  simp only [bind_eq] at h ⊢
  simp only [pure_eq] at h ⊢
  by_cases h1 : classOf dia c = .eol
  · rw [if_pos h1] at h ⊢; exact h
  rw [if_neg h1] at h ⊢
  by_cases h2 : classOf dia c = .ws
  · rw [if_pos h2] at h ⊢; exact h
  rw [if_neg h2] at h ⊢
  by_cases h3 : classOf dia c = .hash
  · rw [if_pos h3] at h
    obtain ⟨_, l1, _, h4⟩ := L.bind_ok_inv h
    obtain ⟨h5, _⟩ := L.pure_ok_inv h4
    cases h5
  rw [if_neg h3] at h ⊢
  by_cases h4 : classOf dia c = .undersc
  · rw [if_pos h4] at h ⊢; exact h
  rw [if_neg h4] at h ⊢
  by_cases h5 : classOf dia c = .obrak
  · rw [if_pos h5] at h ⊢; exact h
  rw [if_neg h5] at h ⊢
  by_cases h6 : classOf dia c = .cbrak
  · rw [if_pos h6] at h ⊢; exact h
  rw [if_neg h6] at h ⊢
  by_cases h7 : classOf dia c = .ocurl
  · rw [if_pos h7] at h ⊢; exact h
  rw [if_neg h7] at h ⊢
  by_cases h8 : classOf dia c = .ccurl
  · rw [if_pos h8] at h ⊢; exact h
  rw [if_neg h8] at h ⊢
  by_cases h9 : classOf dia c = .quote
  · rw [if_pos h9] at h ⊢; exact h
  rw [if_neg h9] at h ⊢
  by_cases h10 : classOf dia c = .semi
  · rw [if_pos h10] at h ⊢
    by_cases h11 : col + 1 = 1
    · rw [if_pos h11] at h ⊢; exact h
    · rw [if_neg h11] at h ⊢
      obtain ⟨s, l1, hs, h12⟩ := L.bind_ok_inv h
      rw [L.bind_ok hs]
      exact finishUnquoted_tok_aw h12
  · rw [if_neg h10] at h ⊢
    obtain ⟨s, l1, hs, h12⟩ := L.bind_ok_inv h
    rw [L.bind_ok hs]
    exact finishUnquoted_tok_aw h12

/-- **missing whitespace, generically**: where whitespace is required (the previous token is not `[`, `{`, a key, nor the
    beginning) a unit that neither is whitespace nor a closing bracket starts a token all the same: ONE report
    CIF_MISSING_SPACE at the token's first unit (line, column before it), then exactly the token that is read there when
    whitespace is not required — "assume the omitted whitespace" -/
theorem missing_space_step (dia : Dialect) (c : Nat) (r : Str) (line col : Nat) (log log' : List Report) (tk : Tok) (p : Pos)
    (hm : metaOfCls (classOf dia c) ≠ .close ∧ metaOfCls (classOf dia c) ≠ .ws)
    (h : stepTok dia true c r line col acceptAll (⟨CIF_MISSING_SPACE, line, col⟩ :: log) = .ok (.tok tk p) log') :
    stepTok dia false c r line col acceptAll log = .ok (.tok tk p) log' := by
  rw [stepTok_eq_body] at h ⊢
  have e1 : (metaOfCls (classOf dia c) != Meta.close && metaOfCls (classOf dia c) != Meta.ws && !true) = false := by simp
  have e2 : (metaOfCls (classOf dia c) != Meta.close && metaOfCls (classOf dia c) != Meta.ws && !false) = true := by
    simp [hm.1, hm.2]
  rw [e1, reportIf_false, L.pure_bind] at h
  rw [e2, reportIf_true, L.bind_ok (report_accept _ _ _ _)]
  exact stepBody_tok_aw h

theorem missing_space_nextToken (dia : Dialect) (c : Nat) (r : Str) (line col : Nat) (lt : TokType) (log log' : List Report)
    (tk : Tok) (p : Pos) (haw : afterWsOf lt = false)
    (hm : metaOfCls (classOf dia c) ≠ .close ∧ metaOfCls (classOf dia c) ≠ .ws)
    (h : stepTok dia true c r line col acceptAll (⟨CIF_MISSING_SPACE, line, col⟩ :: log) = .ok (.tok tk p) log') :
    nextToken dia ⟨c :: r, line, col, lt⟩ acceptAll log = .ok (tk, ⟨p.rest, p.line, p.col, tk.ty⟩) log' := by
  have := missing_space_step dia c r line col log log' tk p hm h
  rw [← haw] at this
  exact stepTok_tok_nextToken this

/-- a loop of fuel 1 that yields a real token: its one iteration yielded it -/
theorem stepTok_of_tokLoop1 {dia : Dialect} {aw : Bool} {c : Nat} {r : Str} {line col : Nat} {pol : Policy} {log log' : List Report}
    {t : Tok} {p : Pos} (h : tokLoop dia 1 aw ⟨c :: r, line, col⟩ pol log = .ok (t, p) log') (hty : t.ty ≠ .error) :
    stepTok dia aw c r line col pol log = .ok (.tok t p) log' := by
  rw [tokLoop_cons] at h
  obtain ⟨st, l1, hst, h2⟩ := L.bind_ok_inv h
  cases st with
  | tok t1 p1 =>
    simp only [] at h2
    obtain ⟨h3, e⟩ := L.pure_ok_inv h2
    simp only [Prod.mk.injEq] at h3
    rw [hst, h3.1, h3.2, e]
  | skip aw' p1 =>
    simp only [tokLoop, pure_eq] at h2
    obtain ⟨h3, _⟩ := L.pure_ok_inv h2
    simp only [Prod.mk.injEq] at h3
    exact absurd (by rw [← h3.1]) hty

/-- a unit whose iteration yields a token other than a closing bracket is neither whitespace nor a closing bracket -/
theorem meta_of_tok {dia : Dialect} {aw : Bool} {c : Nat} {r : Str} {line col : Nat} {pol : Policy} {log log' : List Report}
    {t : Tok} {p : Pos} (h : stepTok dia aw c r line col pol log = .ok (.tok t p) log')
    (h1 : t.ty ≠ .clist) (h2 : t.ty ≠ .ctable) :
    metaOfCls (classOf dia c) ≠ .close ∧ metaOfCls (classOf dia c) ≠ .ws := by
  constructor
  · intro hm
    have hc : classOf dia c = .cbrak ∨ classOf dia c = .ccurl := by
      cases hcl : classOf dia c <;> rw [hcl] at hm <;> simp [metaOfCls] at hm <;> simp
    rw [stepTok_eq_body] at h
    obtain ⟨_, l1, _, h3⟩ := L.bind_ok_inv h
    unfold stepBody at h3
    simp only [bind_eq] at h3
    simp only [pure_eq] at h3
    rcases hc with hc | hc
    · simp only [hc, show ¬ (Cls.cbrak = Cls.eol) from by decide, show ¬ (Cls.cbrak = Cls.ws) from by decide,
        show ¬ (Cls.cbrak = Cls.hash) from by decide, show ¬ (Cls.cbrak = Cls.undersc) from by decide,
        show ¬ (Cls.cbrak = Cls.obrak) from by decide, if_false, if_true] at h3
      obtain ⟨h4, _⟩ := L.pure_ok_inv h3
      simp only [mkTok, Step.tok.injEq] at h4
      exact h1 (by rw [← h4.1])
    · simp only [hc, show ¬ (Cls.ccurl = Cls.eol) from by decide, show ¬ (Cls.ccurl = Cls.ws) from by decide,
        show ¬ (Cls.ccurl = Cls.hash) from by decide, show ¬ (Cls.ccurl = Cls.undersc) from by decide,
        show ¬ (Cls.ccurl = Cls.obrak) from by decide, show ¬ (Cls.ccurl = Cls.cbrak) from by decide,
        show ¬ (Cls.ccurl = Cls.ocurl) from by decide, if_false, if_true] at h3
      obtain ⟨h4, _⟩ := L.pure_ok_inv h3
      simp only [mkTok, Step.tok.injEq] at h4
      exact h2 (by rw [← h4.1])
  · intro hm
    have hc : classOf dia c = .ws ∨ classOf dia c = .eol := by
      cases hcl : classOf dia c <;> rw [hcl] at hm <;> simp [metaOfCls] at hm <;> simp
    rcases hc with hc | hc
    · rw [stepTok_wsclass dia aw c r line col hc] at h
      obtain ⟨_, l1, _, h3⟩ := L.bind_ok_inv h
      obtain ⟨h4, _⟩ := L.pure_ok_inv h3
      cases h4
    · rw [stepTok_eolclass dia aw c r line col hc] at h
      obtain ⟨_, l1, _, h3⟩ := L.bind_ok_inv h
      obtain ⟨h4, _⟩ := L.pure_ok_inv h3
      cases h4

/-- **CIF_MISSING_SPACE**, from any silent token equation: if, where whitespace is not required, the scanner reads the token
    `tk` at `c :: r` under every log, then where whitespace IS required it reports CIF_MISSING_SPACE once, at the position of
    `c`, and reads the same token -/
theorem missing_space_of_tok (dia : Dialect) (c : Nat) (r : Str) (line col : Nat) (lt : TokType) (log : List Report)
    (tk : Tok) (p : Pos) (haw : afterWsOf lt = false) (h1 : tk.ty ≠ .clist) (h2 : tk.ty ≠ .ctable)
    (h : ∀ log, stepTok dia true c r line col acceptAll log = .ok (.tok tk p) log) :
    nextToken dia ⟨c :: r, line, col, lt⟩ acceptAll log
      = .ok (tk, ⟨p.rest, p.line, p.col, tk.ty⟩) (⟨CIF_MISSING_SPACE, line, col⟩ :: log) :=
  missing_space_nextToken dia c r line col lt log _ tk p haw (meta_of_tok (h log) h1 h2) (h _)

/-- scan_unquoted at an opening bracket or brace that is glued to a bare value (CIF 2.0): CIF_MISSING_SPACE at the bracket,
    the value ends in front of it -/
theorem scanUnquoted_open (d : Nat) (hd : d = 91 ∨ d = 123) (r : Str) (line : Nat) (log : List Report) :
    ∀ (s : Str) (pend : Option CU) (acc : Str) (col k : Nat) (kd ks : Bool),
      okUnits .cif2 pend s = true → pendOk .cif2 pend acc → s.all (fun x => !isWs x) = true →
      s.all (fun x => !(x == 91 || x == 93 || x == 123 || x == 125)) = true →
      ((!(kwAfter .cif2 k kd ks s).2.1 && !(kwAfter .cif2 k kd ks s).2.2) || decide ((kwAfter .cif2 k kd ks s).1 < 5)) = true →
      scanUnquoted .cif2 (s ++ d :: r) line col pend.isSome acc k kd ks acceptAll log
        = .ok ⟨s.reverse ++ acc, ⟨d :: r, line, col + colAdd s⟩⟩ (⟨CIF_MISSING_SPACE, line, col + colAdd s + 1⟩ :: log) := by
  have hda : allowedBmp .cif2 d = true := by rcases hd with h | h <;> subst h <;> decide
  have hdm : metaOfCls (classOf .cif2 d) = .open_ := by rcases hd with h | h <;> subst h <;> decide
  intro s
  induction s with
  | nil =>
    intro pend acc col k kd ks hok _ _ _ hflag
    cases pend with
    | some l => simp [okUnits] at hok
    | none =>
      simp only [kwAfter, List.foldl_nil] at hflag
      simp only [List.nil_append, scanUnquoted, Option.isSome_none, bind_eq, pure_eq]
      rw [L.bind_ok (scanUChar_bmp .cif2 d hda line col _ acceptAll log)]
      simp only [fixAcc_false, hdm]
      split
      · rw [L.bind_ok (report_accept _ _ _ _)]; simp
      · rename_i h; exact absurd hflag h
  | cons c s ih =>
    intro pend acc col k kd ks hok hp hnws hnbr hflag
    obtain ⟨hstep, hok', hp', hf, _⟩ := ok_step .cif2 pend c s acc hok hp line col acceptAll log
    simp only [List.all_cons, Bool.and_eq_true, Bool.not_eq_true'] at hnws hnbr
    simp only [List.cons_append, scanUnquoted, bind_eq, pure_eq]
    rw [L.bind_ok hstep]
    simp only [fixAcc_false]
    have hmeta : metaOfCls (classOf .cif2 c) = .general := by
      have h1 : ¬ metaOf .cif2 c = .ws := by rw [hf.mws]; simp [hnws.1]
      have h2 : ¬ metaOf .cif2 c = .no := hf.mno
      have hb := hnbr.1
      simp only [Bool.or_eq_false_iff, beq_eq_false_iff_ne] at hb
      have h3 : ¬ metaOf .cif2 c = .open_ := by
        rw [hf.mopen]; rintro ⟨_, hc | hc⟩
        · exact hb.1.1.1 hc
        · exact hb.1.2 hc
      have h4 : ¬ metaOf .cif2 c = .close := by
        rw [hf.mclose]; rintro ⟨_, hc | hc⟩
        · exact hb.1.1.2 hc
        · exact hb.2 hc
      simp only [metaOf] at h1 h2 h3 h4
      cases hm : metaOfCls (classOf .cif2 c) <;> simp_all
    simp only [hmeta]
    have := ih (nextPend c) (c :: acc) (col + (if isTrailU c then 0 else 1)) (k + 1)
      (if k < 5 then kd && (classOf .cif2 c == dataCls k) else kd) (if k < 5 then ks && (classOf .cif2 c == saveCls k) else ks)
      hok' hp' hnws.2 hnbr.2 (by simp only [kwAfter, List.foldl_cons, kwStep] at hflag; exact hflag)
    rw [isSome_nextPend] at this
    rw [this, colAdd_cons]
    simp [Nat.add_comm, Nat.add_left_comm]

/-- a whitespace-delimited value with an opening bracket or brace glued to it (CIF 2.0): the token, and the report -/
theorem stepTok_bare_open (dia : Dialect) (hdia : dia = .cif2) (s : Str) (dc : Nat) (hdc : dc = 91 ∨ dc = 123) (rest : Str)
    (line col : Nat) (log : List Report)
    (hok : bareOk dia s = true) (hsemi : semiOk s col = true) :
    ∃ c r, s = c :: r ∧
    stepTok dia true c (r ++ dc :: rest) line col acceptAll log
      = .ok (.tok ⟨.value, s, line, col + colAdd s⟩ ⟨dc :: rest, line, col + colAdd s⟩)
          (⟨CIF_MISSING_SPACE, line, col + colAdd s + 1⟩ :: log) := by
  cases s with
  | nil => simp [bareOk] at hok
  | cons c r =>
    refine ⟨c, r, rfl, ?_⟩
    simp only [bareOk, Bool.and_eq_true, Bool.not_eq_true', Bool.or_eq_false_iff, beq_eq_false_iff_ne, ne_eq] at hok
    obtain ⟨⟨⟨⟨hunits, hnws⟩, hfirst⟩, hbr⟩, hres⟩ := hok
    have hbr2 : dia = .cif2 → (c :: r).all (fun x => !(x == 91 || x == 93 || x == 123 || x == 125)) = true := by
      intro hd; subst hd; exact hbr
    have hf : UF dia c := okUnits_head_facts dia c r hunits
    have hnws1 : isWs c = false := by
      simp only [List.all_cons, Bool.and_eq_true, Bool.not_eq_true'] at hnws; exact hnws.1
    have hmeta : metaOfCls (classOf dia c) ≠ .ws ∧ metaOfCls (classOf dia c) ≠ .open_ ∧ metaOfCls (classOf dia c) ≠ .close := by
      refine ⟨?_, ?_, ?_⟩
      · have := hf.mws; simp only [metaOf] at this; intro h; have h' := this.mp h; simp [hnws1] at h'
      · have := hf.mopen; simp only [metaOf] at this; intro h; obtain ⟨hd, hc⟩ := this.mp h
        have := hbr2 hd
        simp only [List.all_cons, Bool.and_eq_true, Bool.not_eq_true', Bool.or_eq_false_iff, beq_eq_false_iff_ne] at this
        rcases hc with hc | hc
        · exact this.1.1.1.1 hc
        · exact this.1.1.2 hc
      · have := hf.mclose; simp only [metaOf] at this; intro h; obtain ⟨hd, hc⟩ := this.mp h
        have := hbr2 hd
        simp only [List.all_cons, Bool.and_eq_true, Bool.not_eq_true', Bool.or_eq_false_iff, beq_eq_false_iff_ne] at this
        rcases hc with hc | hc
        · exact this.1.1.1.2 hc
        · exact this.1.2 hc
    have hc1 : ¬ classOf dia c = .eol := by rw [hf.eol]; simp [isWs, isEol] at hnws1; exact hnws1.2
    have hc2 : ¬ classOf dia c = .ws := by rw [hf.ws]; simp [isWs] at hnws1; simp [hnws1.1]
    have hc3 : ¬ classOf dia c = .hash := by rw [hf.hash]; exact hfirst.1.1.1.2
    have hc4 : ¬ classOf dia c = .undersc := by rw [hf.undersc]; exact hfirst.2
    have hc9 : ¬ classOf dia c = .quote := by rw [hf.quote]; rintro (h | h); exact hfirst.1.1.1.1 h; exact hfirst.1.2 h
    have hc5 : ¬ classOf dia c = .obrak := by intro h; apply hmeta.2.1; rw [h]; rfl
    have hc6 : ¬ classOf dia c = .cbrak := by intro h; apply hmeta.2.2; rw [h]; rfl
    have hc7 : ¬ classOf dia c = .ocurl := by intro h; apply hmeta.2.1; rw [h]; rfl
    have hc8 : ¬ classOf dia c = .ccurl := by intro h; apply hmeta.2.2; rw [h]; rfl
    have hcv := classify_value dia (c :: r) hres
    simp only [stepTok, bind_eq, pure_eq]
    have hrep : ((metaOfCls (classOf dia c) != Meta.close && metaOfCls (classOf dia c) != Meta.ws && !true) = false) := by simp
    simp only [hrep, reportIf_false, L.pure_bind, hc1, hc2, hc3, hc4, hc5, hc6, hc7, hc8, hc9, if_false]
    by_cases hs : classOf dia c = .semi
    · have hc59 : c = 59 := hf.semi.mp hs
      subst hc59
      have hcol : ¬ col + 1 = 1 := by
        simp [semiOk] at hsemi; omega
      simp only [hs, if_true, hcol, if_false, Nat.add_sub_cancel]
      have hfl : ((!(kwAfter .cif2 0 true true (59 :: r)).2.1 && !(kwAfter .cif2 0 true true (59 :: r)).2.2)
          || decide ((kwAfter .cif2 0 true true (59 :: r)).1 < 5)) = true := by
        apply kwAfter_flags
        simp only [isReservedWord, Bool.or_eq_false_iff] at hres
        exact ⟨hres.1.1.1.1, hres.1.1.1.2⟩
      have hscan := scanUnquoted_open dc hdc rest line log (59 :: r) none [] col 0 true true (hdia ▸ hunits) trivial hnws (hbr2 hdia) hfl
      rw [← hdia] at hscan
      simp only [Option.isSome_none, List.cons_append] at hscan
      rw [L.bind_ok hscan]
      simp [finishUnquoted, hcv, mkTok]
    · simp only [hs, if_false, Nat.add_sub_cancel]
      have hfl : ((!(kwAfter .cif2 0 true true (c :: r)).2.1 && !(kwAfter .cif2 0 true true (c :: r)).2.2)
          || decide ((kwAfter .cif2 0 true true (c :: r)).1 < 5)) = true := by
        apply kwAfter_flags
        simp only [isReservedWord, Bool.or_eq_false_iff] at hres
        exact ⟨hres.1.1.1.1, hres.1.1.1.2⟩
      have hscan := scanUnquoted_open dc hdc rest line log (c :: r) none [] col 0 true true (hdia ▸ hunits) trivial hnws (hbr2 hdia) hfl
      rw [← hdia] at hscan
      simp only [Option.isSome_none, List.cons_append] at hscan
      rw [L.bind_ok hscan]
      simp [finishUnquoted, hcv, mkTok]



/-! ### CIF_MISSING_ENDQUOTE: a quoted string that is not closed on its line -/

/-- what the line of an unterminated quoted string ends with: the end of the input or a line terminator -/
def lineEnd (ctx : Str) : Bool := match ctx with | [] => true | c :: _ => c == 10

/-- the content of an unterminated CIF 1.1 quoted string: no delimiter followed by a blank — nor by the end of the line -/
def openQuoted1 (q : Nat) (s : Str) : Bool := noQuoteBlank q (s ++ [32])

theorem scanDelim_unterminated2 (q : Nat) (hq : q = 34 ∨ q = 39) (ctx : Str) (hctx : lineEnd ctx = true) (line : Nat) (log : List Report) :
    ∀ (s : Str) (pend : Option CU) (acc : Str) (col : Nat) (first : Bool),
      okUnits .cif2 pend s = true → pendOk .cif2 pend acc → s.all (fun x => !isEol x) = true → s.all (fun x => x != q) = true →
      scanDelim .cif2 q (s ++ ctx) line col pend.isSome acc first acceptAll log
        = .ok ⟨s.reverse ++ acc, ⟨ctx, line, col + colAdd s⟩⟩ (⟨CIF_MISSING_ENDQUOTE, line, col + colAdd s⟩ :: log) := by
  intro s
  induction s with
  | nil =>
    intro pend acc col first hok _ _ _
    cases pend with
    | some l => simp [okUnits] at hok
    | none =>
      cases ctx with
      | nil => simp [scanDelim, leadAtEof, L.bind, report_accept]
      | cons d r =>
        have hd : d = 10 := by simpa [lineEnd] using hctx
        subst hd
        have h10 : ¬ (10 : Nat) = q := by rcases hq with h | h <;> omega
        simp only [List.nil_append, scanDelim, Option.isSome_none, bind_eq, pure_eq]
        rw [L.bind_ok (scanUChar_bmp .cif2 10 (by decide) line col _ acceptAll log)]
        simp only [fixAcc_false, h10, if_false, show classOf .cif2 10 = .eol from by decide, if_true, Nat.add_sub_cancel]
        rw [L.bind_ok (report_accept _ _ _ _)]
        simp
  | cons c s ih =>
    intro pend acc col first hok hp heol hnq
    obtain ⟨hstep, hok', hp', hf, _⟩ := ok_step .cif2 pend c s acc hok hp line col acceptAll log
    simp only [List.all_cons, Bool.and_eq_true] at heol hnq
    simp only [List.cons_append, scanDelim, bind_eq, pure_eq]
    rw [L.bind_ok hstep]
    have hcq : ¬ c = q := by simpa using hnq.1
    have hceol : ¬ classOf .cif2 c = .eol := by
      rw [hf.eol]; simpa [isEol] using heol.1
    simp only [fixAcc_false, hcq, if_false, hceol]
    have := ih (nextPend c) (c :: acc) (col + (if isTrailU c then 0 else 1)) false hok' hp' heol.2 hnq.2
    rw [isSome_nextPend] at this
    rw [this, colAdd_cons]
    simp [Nat.add_comm, Nat.add_left_comm]

theorem scanDelim_unterminated1 (q : Nat) (hq : q = 34 ∨ q = 39) (ctx : Str) (hctx : lineEnd ctx = true) (line : Nat) (log : List Report) :
    ∀ (s : Str) (acc : Str) (col : Nat) (first : Bool),
      okUnits .cif1 none s = true → s.all (fun x => !isEol x) = true → openQuoted1 q s = true →
      scanDelim .cif1 q (s ++ ctx) line col false acc first acceptAll log
        = .ok ⟨s.reverse ++ acc, ⟨ctx, line, col + colAdd s⟩⟩ (⟨CIF_MISSING_ENDQUOTE, line, col + colAdd s⟩ :: log) := by
  intro s
  induction s with
  | nil =>
    intro acc col first _ _ _
    cases ctx with
    | nil => simp [scanDelim, leadAtEof, L.bind, report_accept]
    | cons d r =>
      have hd : d = 10 := by simpa [lineEnd] using hctx
      subst hd
      have h10 : ¬ (10 : Nat) = q := by rcases hq with h | h <;> omega
      simp only [List.nil_append, scanDelim, bind_eq, pure_eq]
      rw [L.bind_ok (scanUChar_bmp .cif1 10 (by decide) line col _ acceptAll log)]
      simp only [fixAcc_false, h10, if_false, show classOf .cif1 10 = .eol from by decide, if_true, Nat.add_sub_cancel]
      rw [L.bind_ok (report_accept _ _ _ _)]
      simp
  | cons c s ih =>
    intro acc col first hok heol hnq
    obtain ⟨hstep, hok', hp', hf, _⟩ := ok_step .cif1 none c s acc hok trivial line col acceptAll log
    have hnl : isLeadU c = false := by
      cases hl : isLeadU c with
      | false => rfl
      | true => simp [okUnits, hl] at hok
    have hnp : nextPend c = none := by simp [nextPend, hnl]
    rw [hnp] at hok'
    simp only [List.all_cons, Bool.and_eq_true] at heol
    simp only [openQuoted1, List.cons_append, noQuoteBlank, Bool.and_eq_true, Bool.not_eq_true'] at hnq
    simp only [List.cons_append, scanDelim, bind_eq, pure_eq]
    rw [Option.isSome_none] at hstep
    rw [L.bind_ok hstep]
    have hceol : ¬ classOf .cif1 c = .eol := by
      rw [hf.eol]; simpa [isEol] using heol.1
    have hrec := ih (c :: acc) (col + (if isTrailU c then 0 else 1)) false hok' heol.2 (by simpa [openQuoted1] using hnq.2)
    simp only [fixAcc_false, hnl]
    have hfin : scanDelim .cif1 q (s ++ ctx) line (col + (if isTrailU c then 0 else 1)) false (c :: acc) false acceptAll log
        = .ok ⟨(c :: s).reverse ++ acc, ⟨ctx, line, col + colAdd (c :: s)⟩⟩
            (⟨CIF_MISSING_ENDQUOTE, line, col + colAdd (c :: s)⟩ :: log) := by
      rw [hrec, colAdd_cons]; simp [Nat.add_comm, Nat.add_left_comm]
    by_cases hcq : c = q
    · subst hcq
      simp only [if_true]
      cases s with
      | nil => simp [isBlank] at hnq
      | cons d s' =>
        have hd : UF .cif1 d := okUnits_head_facts .cif1 d s' hok'
        have hdw : ¬ metaOf .cif1 d = .ws := by
          rw [hd.mws]
          have h1 : isBlank d = false := by simpa using hnq.1
          have h2 : isEol d = false := by
            have := heol.2
            simp only [List.all_cons, Bool.and_eq_true, Bool.not_eq_true'] at this
            exact this.1
          simp [isWs, h1, h2]
        simp only [List.cons_append, hdw, ne_eq, not_false_eq_true, if_true]
        exact hfin
    · simp only [hcq, if_false, hceol]
      exact hfin

/-- **CIF_MISSING_ENDQUOTE**: an opening quote, content that does not close the string, then the end of the line (or of the
    input): ONE report, on that line, at the column reached; the token is the QUOTED value with the text up to the end of the
    line — "assume the missing delimiter at the end of the line" — and scanning goes on at the line terminator -/
theorem missing_endquote_step (dia : Dialect) (q : Nat) (hq : q = 34 ∨ q = 39) (s ctx : Str) (line col : Nat) (log : List Report)
    (hok : okUnits dia none s = true) (hne : s.all (fun x => !isEol x) = true)
    (hopen : (match dia with | .cif2 => s.all (fun x => x != q) | .cif1 => openQuoted1 q s) = true)
    (hctx : lineEnd ctx = true) :
    stepTok dia true q (s ++ ctx) line col acceptAll log
      = .ok (.tok ⟨.qvalue, s, line, col + 1 + colAdd s⟩ ⟨ctx, line, col + 1 + colAdd s⟩)
          (⟨CIF_MISSING_ENDQUOTE, line, col + 1 + colAdd s⟩ :: log) := by
  rw [quote_dispatch dia q hq]
  have hscan : scanDelim dia q (s ++ ctx) line (col + 1) false [] true acceptAll log
      = .ok ⟨s.reverse ++ [], ⟨ctx, line, col + 1 + colAdd s⟩⟩ (⟨CIF_MISSING_ENDQUOTE, line, col + 1 + colAdd s⟩ :: log) := by
    cases dia with
    | cif2 =>
      have := scanDelim_unterminated2 q hq ctx hctx line log s none [] (col + 1) true hok trivial hne hopen
      simpa using this
    | cif1 => exact scanDelim_unterminated1 q hq ctx hctx line log s [] (col + 1) true hok hne hopen
  rw [L.bind_ok hscan]
  cases ctx with
  | nil => simp [keyPeek, mkTok]
  | cons d r =>
    have hd : d = 10 := by simpa [lineEnd] using hctx
    subst hd
    simp [keyPeek, mkTok, colon]

/-! ### CIF_UNCLOSED_TEXT: a text field or a triple-quoted string that is not closed before the end of the input -/

/-- a triple-quoted body in which the delimiter never occurs three times in a row (it may END with one or two) -/
def tripleOpen (q : CU) : Nat → Str → Bool
  | _, [] => true
  | cnt, c :: r => if c = q then decide (cnt + 1 < 3) && tripleOpen q (cnt + 1) r else tripleOpen q 0 r

theorem scanText_unclosed (dia : Dialect) (log : List Report) :
    ∀ (s : Str) (pend : Option CU) (acc : Str) (line col sol : Nat),
      okUnits dia pend s = true → pendOk dia pend acc → textBody (decide (sol ≠ 0)) s = true → sol % 4 ≠ 2 →
      linesFit col s = true →
      scanText dia s line col pend.isSome acc sol acceptAll log
        = .ok ⟨s.reverse ++ acc, ⟨[], (posAfter line col s).1, (posAfter line col s).2⟩⟩
            (⟨CIF_UNCLOSED_TEXT, (posAfter line col s).1, (posAfter line col s).2⟩ :: log) := by
  have hlfc : classOf dia 10 = .eol := by cases dia <;> decide
  have hscc : classOf dia 59 = .semi := by cases dia <;> decide
  intro s
  induction s with
  | nil =>
    intro pend acc line col sol hok _ _ _ _
    cases pend with
    | some l => simp [okUnits] at hok
    | none => simp [scanText, leadAtEof, L.bind, report_accept, posAfter]
  | cons c s ih =>
    intro pend acc line col sol hok hp hbody hsol hfit
    obtain ⟨hstep, hok', hp', hf, hch⟩ := ok_step dia pend c s acc hok hp line col acceptAll log
    simp only [scanText, bind_eq, pure_eq]
    rw [L.bind_ok hstep]
    simp only [fixAcc_false]
    simp only [textBody, Bool.and_eq_true, Bool.not_eq_true', Bool.and_eq_false_iff, decide_eq_false_iff_not, ne_eq,
      Decidable.not_not, beq_eq_false_iff_ne] at hbody
    by_cases h59 : c = 59
    · subst h59
      have hsol0 : sol = 0 := by
        rcases hbody.1 with h | h
        · exact h
        · exact absurd rfl h
      subst hsol0
      have h10 : ¬ (59 : Nat) = 10 := by decide
      simp only [linesFit, h10, if_false] at hfit
      have hb : textBody (decide ((0 : Nat) ≠ 0)) s = true := by simpa [isEol] using hbody.2
      have := ih (nextPend 59) (59 :: acc) line (col + (if isTrailU 59 then 0 else 1)) 0 hok' hp' hb hsol hfit
      rw [isSome_nextPend] at this
      simp only [hscc, if_true, ne_eq, not_true_eq_false, if_false]
      rw [this]
      simp [posAfter]
    · have hnsemi : ¬ classOf dia c = .semi := by rw [hf.semi]; exact h59
      simp only [hnsemi, if_false]
      by_cases h10 : c = 10
      · subst h10
        simp only [linesFit, if_true, Bool.and_eq_true, decide_eq_true_eq] at hfit
        have ht : isTrailU 10 = false := by decide
        have hl : isLeadU 10 = false := by decide
        simp only [hlfc, if_true, ht, Bool.false_eq_true, if_false, Nat.add_sub_cancel]
        rw [L.bind_ok (handleEol_lf line col sol hfit.1 hsol acceptAll log)]
        have hb : textBody (decide ((sol * 4 + 1) % 16 ≠ 0)) s = true := by
          have : (sol * 4 + 1) % 16 ≠ 0 := by omega
          simpa [isEol, this] using hbody.2
        have := ih none (10 :: acc) (line + 1) 0 ((sol * 4 + 1) % 16) (by simpa [nextPend, hl] using hok') trivial hb (by omega) hfit.2
        simp only [Option.isSome_none] at this
        simp only [hl]
        rw [this]
        simp [posAfter]
      · have hne : ¬ classOf dia c = .eol := by rw [hf.eol]; exact h10
        simp only [linesFit, h10, if_false] at hfit
        have hb : textBody (decide ((0 : Nat) ≠ 0)) s = true := by
          have : isEol c = false := by simp [isEol, h10]
          simpa [this] using hbody.2
        have := ih (nextPend c) (c :: acc) line (col + (if isTrailU c then 0 else 1)) 0 hok' hp' hb (by omega) hfit
        rw [isSome_nextPend] at this
        simp only [hne, if_false]
        rw [this]
        simp [posAfter, h10]

theorem scanTriple_unclosed (q : Nat) (hq : q = 34 ∨ q = 39) (log : List Report) :
    ∀ (s : Str) (pend : Option CU) (acc : Str) (line col cnt sol : Nat),
      okUnits .cif2 pend s = true → pendOk .cif2 pend acc → tripleOpen q cnt s = true → sol % 4 ≠ 2 → linesFit col s = true →
      scanTriple .cif2 q s line col pend.isSome acc cnt sol acceptAll log
        = .ok ⟨s.reverse ++ acc, ⟨[], (posAfter line col s).1, (posAfter line col s).2⟩⟩
            (⟨CIF_UNCLOSED_TEXT, (posAfter line col s).1, (posAfter line col s).2⟩ :: log) := by
  intro s
  induction s with
  | nil =>
    intro pend acc line col cnt sol hok _ _ _ _
    cases pend with
    | some l => simp [okUnits] at hok
    | none => simp [scanTriple, leadAtEof, L.bind, report_accept, posAfter]
  | cons c s ih =>
    intro pend acc line col cnt sol hok hp hbody hsol hfit
    obtain ⟨hstep, hok', hp', hf, _⟩ := ok_step .cif2 pend c s acc hok hp line col acceptAll log
    simp only [scanTriple, bind_eq, pure_eq]
    rw [L.bind_ok hstep]
    simp only [fixAcc_false]
    by_cases hcq : c = q
    · subst hcq
      have hc10 : ¬ c = 10 := by rcases hq with h | h <;> omega_cu
      simp only [tripleOpen, if_true, Bool.and_eq_true, decide_eq_true_eq] at hbody
      have hge : ¬ cnt + 1 ≥ 3 := by omega
      simp only [linesFit, hc10, if_false] at hfit
      have := ih (nextPend c) (c :: acc) line (col + (if isTrailU c then 0 else 1)) (cnt + 1) sol hok' hp' hbody.2 hsol hfit
      rw [isSome_nextPend] at this
      simp only [if_true, hge, if_false]
      rw [this]
      simp [posAfter, hc10]
    · simp only [tripleOpen, hcq, if_false] at hbody
      simp only [hcq, if_false]
      by_cases h10 : c = 10
      · subst h10
        have heol : classOf .cif2 10 = .eol := by decide
        simp only [linesFit, if_true, Bool.and_eq_true, decide_eq_true_eq] at hfit
        have ht : isTrailU 10 = false := by decide
        simp only [heol, if_true, ht, Bool.false_eq_true, if_false, Nat.add_sub_cancel]
        rw [L.bind_ok (handleEol_lf line col sol hfit.1 hsol acceptAll log)]
        have hl : isLeadU 10 = false := by decide
        have := ih none (10 :: acc) (line + 1) 0 0 ((sol * 4 + 1) % 16) (by simpa [nextPend, hl] using hok') trivial hbody (by omega) hfit.2
        simp only [Option.isSome_none] at this
        simp only [hl]
        rw [this]
        simp [posAfter]
      · have hne : ¬ classOf .cif2 c = .eol := by rw [hf.eol]; exact h10
        simp only [linesFit, h10, if_false] at hfit
        have := ih (nextPend c) (c :: acc) line (col + (if isTrailU c then 0 else 1)) 0 0 hok' hp' hbody (by omega) hfit
        rw [isSome_nextPend] at this
        simp only [hne, if_false]
        rw [this]
        simp [posAfter, h10]

/-- next_token's dispatch for a semicolon in column 1 -/
theorem text_dispatch (dia : Dialect) (r : Str) (line : Nat) :
    stepTok dia true 59 r line 0
      = L.bind (scanText dia r line 1 false [] 0) (fun s =>
          if dia = .cif2 then L.pure (keyPeek .tkey .tvalue s.acc.reverse s.pos) else L.pure (mkTok .tvalue s.acc.reverse s.pos)) := by
  have hcls : classOf dia 59 = .semi := by cases dia <;> decide
  unfold stepTok
  simp only [bind_eq]
  simp only [pure_eq]
  have : (metaOfCls (classOf dia 59) != Meta.close && metaOfCls (classOf dia 59) != Meta.ws && !true) = false := by simp
  rw [this, reportIf_false, L.pure_bind]
  simp only [hcls, show ¬ (Cls.semi = Cls.eol) from by decide, show ¬ (Cls.semi = Cls.ws) from by decide,
    show ¬ (Cls.semi = Cls.hash) from by decide, show ¬ (Cls.semi = Cls.undersc) from by decide,
    show ¬ (Cls.semi = Cls.obrak) from by decide, show ¬ (Cls.semi = Cls.cbrak) from by decide,
    show ¬ (Cls.semi = Cls.ocurl) from by decide, show ¬ (Cls.semi = Cls.ccurl) from by decide,
    show ¬ (Cls.semi = Cls.quote) from by decide, if_false, if_true, Nat.zero_add]

/-- **CIF_UNCLOSED_TEXT (text field)**: `;` at the beginning of a line, a body no line of which begins with `;`, the end of the
    input: ONE report, at the last line; the token is the text value with the WHOLE rest of the input as body -/
theorem unclosed_text_step (dia : Dialect) (s : Str) (line : Nat) (log : List Report)
    (hok : textOk dia s = true) (hfit : linesFit 1 s = true) :
    stepTok dia true 59 s line 0 acceptAll log
      = .ok (.tok ⟨.tvalue, s, (posAfter line 1 s).1, (posAfter line 1 s).2⟩ ⟨[], (posAfter line 1 s).1, (posAfter line 1 s).2⟩)
          (⟨CIF_UNCLOSED_TEXT, (posAfter line 1 s).1, (posAfter line 1 s).2⟩ :: log) := by
  simp only [textOk, Bool.and_eq_true] at hok
  have hscan := scanText_unclosed dia log s none [] line 1 0 hok.1 trivial (by simpa using hok.2) (by decide) hfit
  simp only [Option.isSome_none] at hscan
  rw [text_dispatch, L.bind_ok hscan]
  cases dia <;> simp [keyPeek, mkTok]

/-- **CIF_UNCLOSED_TEXT (triple-quoted string)**: the opening delimiter, a body without three delimiters in a row, the end of
    the input: ONE report; the token is the quoted value with the whole rest of the input as text -/
theorem unclosed_triple_step (q : Nat) (hq : q = 34 ∨ q = 39) (s : Str) (line col : Nat) (log : List Report)
    (hok : okUnits .cif2 none s = true) (hopen : tripleOpen q 0 s = true) (hfit : linesFit (col + 3) s = true) :
    stepTok .cif2 true q (q :: q :: s) line col acceptAll log
      = .ok (.tok ⟨.qvalue, s, (posAfter line (col + 3) s).1, (posAfter line (col + 3) s).2⟩
                  ⟨[], (posAfter line (col + 3) s).1, (posAfter line (col + 3) s).2⟩)
          (⟨CIF_UNCLOSED_TEXT, (posAfter line (col + 3) s).1, (posAfter line (col + 3) s).2⟩ :: log) := by
  have hscan := scanTriple_unclosed q hq log s none [] line (col + 1 + 2) 0 0 hok trivial hopen (by decide) hfit
  simp only [Option.isSome_none] at hscan
  have hscan' := (scanDelim_triple_open q hq s line (col + 1) acceptAll log).trans hscan
  rw [quote_dispatch .cif2 q hq, L.bind_ok hscan']
  simp [keyPeek, mkTok]

/-! ### CIF_OVERLENGTH_LINE: the reports, where lines end — between tokens, in text fields, in triple-quoted strings -/

/-- the over-length reports that the line terminators inside `units` cause, in order: one per terminated line that holds more
    than 2048 characters, with that line's number (the column passed is the line's length) -/
def longReps (line col : Nat) : Str → List Report
  | [] => []
  | c :: r =>
    if c = 10 then
      (if col > 2048 then ⟨CIF_OVERLENGTH_LINE, line, col⟩ :: longReps (line + 1) 0 r else longReps (line + 1) 0 r)
    else longReps line (col + (if isTrailU c then 0 else 1)) r

theorem longReps_append (a b : Str) : ∀ (line col : Nat),
    longReps line col (a ++ b) = longReps line col a ++ longReps (posAfter line col a).1 (posAfter line col a).2 b := by
  induction a with
  | nil => intro line col; simp [longReps, posAfter]
  | cons c a ih =>
    intro line col
    by_cases h : c = 10
    · by_cases hc : col > 2048 <;> simp [longReps, posAfter, h, hc, ih]
    · simp [longReps, posAfter, h, ih]

theorem longReps_noeol (s : Str) (h : s.all (fun x => !isEol x) = true) : ∀ (line col : Nat), longReps line col s = [] := by
  induction s with
  | nil => intro line col; rfl
  | cons c s ih =>
    intro line col
    simp only [List.all_cons, Bool.and_eq_true, Bool.not_eq_true'] at h
    have hc : ¬ c = 10 := by simpa [isEol] using h.1
    simp [longReps, hc, ih h.2]

/-- no over-long line, no report -/
theorem longReps_fit (s : Str) : ∀ (line col : Nat), linesFit col s = true → longReps line col s = [] := by
  induction s with
  | nil => intro line col _; rfl
  | cons c s ih =>
    intro line col h
    by_cases hc : c = 10
    · simp only [linesFit, hc, if_true, Bool.and_eq_true, decide_eq_true_eq] at h
      have : ¬ col > 2048 := by omega
      simp [longReps, hc, this, ih _ _ h.2]
    · simp only [linesFit, hc, if_false] at h
      simp [longReps, hc, ih _ _ h]

/-- every one of these reports is a CIF_OVERLENGTH_LINE for a line that is longer than 2048 characters, not before `line` -/
theorem longReps_mem (s : Str) : ∀ (line col : Nat) (r : Report), r ∈ longReps line col s →
    r.code = CIF_OVERLENGTH_LINE ∧ r.col > 2048 ∧ line ≤ r.line := by
  induction s with
  | nil => intro line col r h; cases h
  | cons c s ih =>
    intro line col r h
    by_cases hc : c = 10
    · by_cases hl : col > 2048
      · simp only [longReps, hc, if_true, hl, List.mem_cons] at h
        rcases h with e | e
        · subst e; exact ⟨rfl, hl, Nat.le_refl _⟩
        · have := ih _ _ r e; exact ⟨this.1, this.2.1, by omega⟩
      · simp only [longReps, hc, if_true, hl, if_false] at h
        have := ih _ _ r h; exact ⟨this.1, this.2.1, by omega⟩
    · simp only [longReps, hc, if_false] at h
      exact ih _ _ r h

theorem handleEol_lf_accept (line col sol : Nat) (hsol : sol % 4 ≠ 2) (log : List Report) :
    handleEol line col sol 10 acceptAll log
      = .ok (line + 1, 0, (sol * 4 + 1) % 16) (if col > 2048 then ⟨CIF_OVERLENGTH_LINE, line, col⟩ :: log else log) := by
  have h2 : ¬ (sol * 4 + 1) % 16 = 9 := by omega
  by_cases hc : col > 2048
  · have : col > lineLength := hc
    simp [handleEol, this, hc, h2, L.bind, report_accept]
  · have : ¬ col > lineLength := hc
    simp [handleEol, this, hc, h2]

/-- a line terminator between tokens, whatever the length of the line it ends -/
theorem tokLoop_lf_accept (dia : Dialect) (R : Str) (line col f : Nat) (aw : Bool) (log : List Report) (hf : R.length + 1 < f) :
    tokLoop dia f aw ⟨10 :: R, line, col⟩ acceptAll log
      = tokLoop dia (R.length + 1) true ⟨R, line + 1, 0⟩ acceptAll
          (if col > 2048 then ⟨CIF_OVERLENGTH_LINE, line, col⟩ :: log else log) := by
  cases f with
  | zero => omega
  | succ f =>
    have hc : classOf dia 10 = .eol := by cases dia <;> decide
    rw [tokLoop_wsrun dia f aw 10 R line col acceptAll log (Or.inr hc)]
    have e : scanWs dia (10 :: R) line col 0 acceptAll log
        = scanWs dia R (line + 1) 0 1 acceptAll (if col > 2048 then ⟨CIF_OVERLENGTH_LINE, line, col⟩ :: log else log) := by
      have hne : ¬ (Cls.eol = Cls.ws) := by decide
      simp only [scanWs, hc, hne, if_false, if_true, bind_eq]
      rw [L.bind_ok (handleEol_lf_accept line col 0 (by decide) log)]
    rw [e, scanWs_sol_congr dia R (line + 1) 0 1 0 acceptAll _ (by decide)]
    exact (tokLoop_absorb dia R (line + 1) 0 (R.length + 1) f acceptAll _ (by omega) (by omega)).symm

/-- **whitespace and comments with lines of any length**: the run is crossed as in `lex_sep_loop`; every line terminator in
    it that ends a line of more than 2048 characters adds ONE report with that line's number, nothing else changes -/
theorem lex_sep_accept (dia : Dialect) (R : Str) : ∀ (w : List WsAtom) (line col f : Nat) (aw : Bool) (log : List Report),
    (∀ a ∈ w, a.ok dia = true) →
    (aw = true ∨ ∀ b rest, w ≠ WsAtom.comment b :: rest) → (renderWs w ++ R).length < f →
    tokLoop dia f aw ⟨renderWs w ++ R, line, col⟩ acceptAll log
      = tokLoop dia (R.length + 1) (aw || !w.isEmpty) ⟨R, (posAfter line col (renderWs w)).1, (posAfter line col (renderWs w)).2⟩
          acceptAll ((longReps line col (renderWs w)).reverse ++ log) := by
  intro w
  induction w with
  | nil =>
    intro line col f aw log _ _ hf
    simp only [renderWs, List.map_nil, List.flatten_nil, List.nil_append, posAfter, List.isEmpty_nil, Bool.not_true, Bool.or_false,
      longReps, List.reverse_nil] at hf ⊢
    exact tokLoop_fuel dia acceptAll f (R.length + 1) aw _ log hf (by simp)
  | cons a w ih =>
    intro line col f aw log hok hfirst hf
    have hokw : ∀ a' ∈ w, a'.ok dia = true := fun a' h => hok a' (List.mem_cons_of_mem _ h)
    have hrender : renderWs (a :: w) = a.render ++ renderWs w := by simp [renderWs]
    rw [hrender, posAfter_append, longReps_append]
    simp only [List.isEmpty_cons, Bool.not_false, Bool.or_true, List.reverse_append, List.append_assoc]
    have cont : ∀ (l c : Nat) (lg : List Report),
        tokLoop dia ((renderWs w ++ R).length + 1) true ⟨renderWs w ++ R, l, c⟩ acceptAll lg
          = tokLoop dia (R.length + 1) true ⟨R, (posAfter l c (renderWs w)).1, (posAfter l c (renderWs w)).2⟩ acceptAll
              ((longReps l c (renderWs w)).reverse ++ lg) := by
      intro l c lg
      have := ih l c ((renderWs w ++ R).length + 1) true lg hokw (Or.inl rfl) (by omega)
      simpa using this
    cases a with
    | blank x =>
      have hx : isWs x = true := by
        have := hok (.blank x) (List.mem_cons_self ..)
        simp only [WsAtom.ok] at this
        simp [isWs, this]
      have h10 : x ≠ 10 := by
        have := hok (.blank x) (List.mem_cons_self ..)
        simp [WsAtom.ok, isBlank] at this
        omega_cu
      simp only [hrender, WsAtom.render, List.cons_append, List.nil_append, List.length_cons] at hf
      simp only [WsAtom.render, List.cons_append, List.nil_append]
      rw [tokLoop_ws1 dia x hx (renderWs w ++ R) line col f aw acceptAll log (by omega) (fun e => absurd e h10)]
      have h10' : ¬ x = 10 := h10
      have : longReps line col [x] = [] := by simp [longReps, h10']
      rw [this, cont]
      simp
    | eol =>
      simp only [hrender, WsAtom.render, List.cons_append, List.nil_append, List.length_cons] at hf
      simp only [WsAtom.render, List.cons_append, List.nil_append]
      rw [tokLoop_lf_accept dia (renderWs w ++ R) line col f aw log (by omega)]
      have hp : posAfter line col [10] = (line + 1, 0) := by simp [posAfter]
      rw [hp, cont]
      by_cases hc : col > 2048 <;> simp [longReps, hc]
    | comment body =>
      have haw : aw = true := by
        rcases hfirst with h | h
        · exact h
        · exact absurd rfl (h body w)
      subst haw
      have hb := hok (.comment body) (List.mem_cons_self ..)
      simp only [WsAtom.ok, Bool.and_eq_true] at hb
      have e : (WsAtom.comment body).render ++ (renderWs w ++ R) = 35 :: (body ++ 10 :: (renderWs w ++ R)) := by
        simp [WsAtom.render]
      rw [e]
      simp only [hrender, List.append_assoc, e, List.length_cons, List.length_append] at hf
      cases f with
      | zero => omega
      | succ f =>
        rw [tokLoop_comment dia body (renderWs w ++ R) line col f acceptAll log hb.1 hb.2]
        rw [tokLoop_lf_accept dia (renderWs w ++ R) line (col + 1 + colAdd body) f true log
          (by simp only [List.length_append]; omega)]
        have hpa : posAfter line col (WsAtom.comment body).render = (line + 1, 0) := by
          simp only [WsAtom.render, posAfter, show ¬ (35 : Nat) = 10 from by decide, if_false,
            show isTrailU 35 = false from by decide, Bool.false_eq_true]
          rw [posAfter_append, posAfter_noeol body hb.2]
          simp [posAfter]
        have hlr : longReps line col (WsAtom.comment body).render
            = (if col + 1 + colAdd body > 2048 then [⟨CIF_OVERLENGTH_LINE, line, col + 1 + colAdd body⟩] else []) := by
          simp only [WsAtom.render, longReps, show ¬ (35 : Nat) = 10 from by decide, if_false,
            show isTrailU 35 = false from by decide, Bool.false_eq_true]
          rw [longReps_append, longReps_noeol body hb.2, posAfter_noeol body hb.2]
          by_cases hc : col + 1 + colAdd body > 2048 <;> simp [longReps, hc]
        rw [hpa, hlr, cont]
        by_cases hc : col + 1 + colAdd body > 2048 <;> simp [hc]

theorem longReps_lf (line col : Nat) (r : Str) (log : List Report) :
    (longReps (line + 1) 0 r).reverse ++ (if col > 2048 then ⟨CIF_OVERLENGTH_LINE, line, col⟩ :: log else log)
      = (longReps line col (10 :: r)).reverse ++ log := by
  by_cases hc : col > 2048 <;> simp [longReps, hc]

/-- a text field with lines of any length: the token is unaffected, every over-long line of the body (the last one included) is
    reported once -/
theorem scanText_accept (dia : Dialect) (ctx : Str) :
    ∀ (s : Str) (pend : Option CU) (acc : Str) (line col sol : Nat) (log : List Report),
      okUnits dia pend s = true → pendOk dia pend acc → textBody (decide (sol ≠ 0)) s = true → sol % 4 ≠ 2 →
      acc.head? ≠ some 13 →
      scanText dia (s ++ 10 :: 59 :: ctx) line col pend.isSome acc sol acceptAll log
        = .ok ⟨s.reverse ++ acc, ⟨ctx, (posAfter line col s).1 + 1, 1⟩⟩ ((longReps line col (s ++ [10])).reverse ++ log) := by
  have hlf : allowedBmp dia 10 = true := by cases dia <;> decide
  have hsc : allowedBmp dia 59 = true := by cases dia <;> decide
  have hlfc : classOf dia 10 = .eol := by cases dia <;> decide
  have hscc : classOf dia 59 = .semi := by cases dia <;> decide
  intro s
  induction s with
  | nil =>
    intro pend acc line col sol log hok hp _ hsol hacc
    cases pend with
    | some l => simp [okUnits] at hok
    | none =>
      simp only [List.nil_append, scanText, Option.isSome_none, bind_eq, pure_eq]
      rw [L.bind_ok (scanUChar_bmp dia 10 hlf line col _ acceptAll log)]
      have h1 : ¬ (Cls.eol = Cls.semi) := by decide
      simp only [fixAcc_false, hlfc, h1, if_false, if_true, Nat.add_sub_cancel]
      rw [L.bind_ok (handleEol_lf_accept line col sol hsol log)]
      rw [L.bind_ok (scanUChar_bmp dia 59 hsc (line + 1) 0 _ acceptAll _)]
      have h2 : (sol * 4 + 1) % 16 ≠ 0 := by omega
      simp only [fixAcc_false, hscc, if_true, h2, ne_eq, not_false_eq_true]
      have h13 : ¬ (acc[0]?.getD 0 = 13) := by
        cases acc with
        | nil => simp
        | cons a t => simpa using hacc
      by_cases hc : col > 2048 <;> simp [h13, posAfter, longReps, hc]
  | cons c s ih =>
    intro pend acc line col sol log hok hp hbody hsol hacc
    obtain ⟨hstep, hok', hp', hf, hch⟩ := ok_step dia pend c s acc hok hp line col acceptAll log
    have hc13 : c ≠ 13 := by
      rcases hch with h | h
      · intro e; subst e; cases dia <;> simp [allowedBmp] at h
      · omega_cu
    simp only [List.cons_append, scanText, bind_eq, pure_eq]
    rw [L.bind_ok hstep]
    simp only [fixAcc_false]
    simp only [textBody, Bool.and_eq_true, Bool.not_eq_true', Bool.and_eq_false_iff, decide_eq_false_iff_not, ne_eq,
      Decidable.not_not, beq_eq_false_iff_ne] at hbody
    have hacc' : (c :: acc).head? ≠ some 13 := by simp [hc13]
    by_cases h59 : c = 59
    · subst h59
      have hsol0 : sol = 0 := by
        rcases hbody.1 with h | h
        · exact h
        · exact absurd rfl h
      subst hsol0
      have hb : textBody (decide ((0 : Nat) ≠ 0)) s = true := by simpa [isEol] using hbody.2
      have := ih (nextPend 59) (59 :: acc) line (col + (if isTrailU 59 then 0 else 1)) 0 log hok' hp' hb hsol hacc'
      rw [isSome_nextPend] at this
      simp only [hscc, if_true, ne_eq, not_true_eq_false, if_false]
      rw [this]
      simp [posAfter, longReps]
    · have hnsemi : ¬ classOf dia c = .semi := by rw [hf.semi]; exact h59
      simp only [hnsemi, if_false]
      by_cases h10 : c = 10
      · subst h10
        have ht : isTrailU 10 = false := by decide
        have hl : isLeadU 10 = false := by decide
        simp only [hlfc, if_true, ht, Bool.false_eq_true, if_false, Nat.add_sub_cancel]
        rw [L.bind_ok (handleEol_lf_accept line col sol hsol log)]
        have hb : textBody (decide ((sol * 4 + 1) % 16 ≠ 0)) s = true := by
          have : (sol * 4 + 1) % 16 ≠ 0 := by omega
          simpa [isEol, this] using hbody.2
        have := ih none (10 :: acc) (line + 1) 0 ((sol * 4 + 1) % 16) (if col > 2048 then ⟨CIF_OVERLENGTH_LINE, line, col⟩ :: log else log)
          (by simpa [nextPend, hl] using hok') trivial hb (by omega) hacc'
        simp only [Option.isSome_none] at this
        simp only [hl]
        rw [this, longReps_lf]
        simp [posAfter]
      · have hne : ¬ classOf dia c = .eol := by rw [hf.eol]; exact h10
        have hb : textBody (decide ((0 : Nat) ≠ 0)) s = true := by
          have : isEol c = false := by simp [isEol, h10]
          simpa [this] using hbody.2
        have := ih (nextPend c) (c :: acc) line (col + (if isTrailU c then 0 else 1)) 0 log hok' hp' hb (by omega) hacc'
        rw [isSome_nextPend] at this
        simp only [hne, if_false]
        rw [this]
        simp [posAfter, longReps, h10]

/-- a triple-quoted string with lines of any length -/
theorem scanTriple_accept (q : Nat) (hq : q = 34 ∨ q = 39) (ctx : Str) :
    ∀ (s : Str) (pend : Option CU) (acc : Str) (line col cnt sol : Nat) (log : List Report),
      okUnits .cif2 pend s = true → pendOk .cif2 pend acc → tripleBody q cnt s = true → sol % 4 ≠ 2 →
      scanTriple .cif2 q (s ++ q :: q :: q :: ctx) line col pend.isSome acc cnt sol acceptAll log
        = .ok ⟨s.reverse ++ acc, ⟨ctx, (posAfter line col s).1, (posAfter line col s).2 + 3⟩⟩
            ((longReps line col s).reverse ++ log) := by
  intro s
  induction s with
  | nil =>
    intro pend acc line col cnt sol log hok hp hbody _
    cases pend with
    | some l => simp [okUnits] at hok
    | none =>
      have hcnt : cnt = 0 := by simpa [tripleBody] using hbody
      subst hcnt
      simp only [List.nil_append, Option.isSome_none]
      rw [scanTriple_delim_step q hq, if_neg (by omega), scanTriple_delim_step q hq, if_neg (by omega),
        scanTriple_delim_step q hq, if_pos (by omega)]
      simp [posAfter, longReps]
  | cons c s ih =>
    intro pend acc line col cnt sol log hok hp hbody hsol
    obtain ⟨hstep, hok', hp', hf, _⟩ := ok_step .cif2 pend c s acc hok hp line col acceptAll log
    simp only [List.cons_append, scanTriple, bind_eq, pure_eq]
    rw [L.bind_ok hstep]
    simp only [fixAcc_false]
    by_cases hcq : c = q
    · subst hcq
      have hc10 : ¬ c = 10 := by rcases hq with h | h <;> omega_cu
      simp only [tripleBody, if_true, Bool.and_eq_true, decide_eq_true_eq] at hbody
      have hge : ¬ cnt + 1 ≥ 3 := by omega
      have := ih (nextPend c) (c :: acc) line (col + (if isTrailU c then 0 else 1)) (cnt + 1) sol log hok' hp' hbody.2 hsol
      rw [isSome_nextPend] at this
      simp only [if_true, hge, if_false]
      rw [this]
      simp [posAfter, longReps, hc10]
    · simp only [tripleBody, hcq, if_false] at hbody
      simp only [hcq, if_false]
      by_cases h10 : c = 10
      · subst h10
        have heol : classOf .cif2 10 = .eol := by decide
        have ht : isTrailU 10 = false := by decide
        simp only [heol, if_true, ht, Bool.false_eq_true, if_false, Nat.add_sub_cancel]
        rw [L.bind_ok (handleEol_lf_accept line col sol hsol log)]
        have hl : isLeadU 10 = false := by decide
        have := ih none (10 :: acc) (line + 1) 0 0 ((sol * 4 + 1) % 16) (if col > 2048 then ⟨CIF_OVERLENGTH_LINE, line, col⟩ :: log else log)
          (by simpa [nextPend, hl] using hok') trivial hbody (by omega)
        simp only [Option.isSome_none] at this
        simp only [hl]
        rw [this, longReps_lf]
        simp [posAfter]
      · have hne : ¬ classOf .cif2 c = .eol := by rw [hf.eol]; exact h10
        have := ih (nextPend c) (c :: acc) line (col + (if isTrailU c then 0 else 1)) 0 0 log hok' hp' hbody (by omega)
        rw [isSome_nextPend] at this
        simp only [hne, if_false]
        rw [this]
        simp [posAfter, longReps, h10]

/-- text field, any line lengths (token level) -/
theorem text_accept_step (dia : Dialect) (s ctx : Str) (line : Nat) (log : List Report)
    (hok : textOk dia s = true) (hctx : followOk dia ctx = true) :
    stepTok dia true 59 (s ++ 10 :: 59 :: ctx) line 0 acceptAll log
      = .ok (.tok ⟨.tvalue, s, (posAfter line 1 s).1 + 1, 1⟩ ⟨ctx, (posAfter line 1 s).1 + 1, 1⟩)
          ((longReps line 1 (s ++ [10])).reverse ++ log) := by
  simp only [textOk, Bool.and_eq_true] at hok
  have hscan := scanText_accept dia ctx s none [] line 1 0 log hok.1 trivial (by simpa using hok.2) (by decide) (by simp)
  simp only [Option.isSome_none] at hscan
  rw [text_dispatch, L.bind_ok hscan]
  have hcol : ∀ d r, ctx = d :: r → ¬ d = colon := by
    intro d r h
    subst h
    simp only [followOk, isWs, isBlank, isEol, Bool.or_eq_true, beq_iff_eq, Bool.and_eq_true] at hctx
    simp only [colon]; omega_cu
  cases dia with
  | cif1 => simp [mkTok]
  | cif2 =>
    cases ctx with
    | nil => simp [keyPeek, mkTok]
    | cons d r => simp [keyPeek, mkTok, hcol d r rfl]

/-- triple-quoted string, any line lengths (token level) -/
theorem triple_accept_step (q : Nat) (hq : q = 34 ∨ q = 39) (s ctx : Str) (line col : Nat) (log : List Report)
    (hok : Spec.Lexical.tripleOk .cif2 q s = true) (hctx : followOk .cif2 ctx = true) :
    stepTok .cif2 true q (q :: q :: (s ++ q :: q :: q :: ctx)) line col acceptAll log
      = .ok (.tok ⟨.qvalue, s, (posAfter line (col + 3) s).1, (posAfter line (col + 3) s).2 + 3⟩
                  ⟨ctx, (posAfter line (col + 3) s).1, (posAfter line (col + 3) s).2 + 3⟩)
          ((longReps line (col + 3) s).reverse ++ log) := by
  simp only [Spec.Lexical.tripleOk, Bool.and_eq_true] at hok
  obtain ⟨⟨_, h1⟩, h2⟩ := hok
  have hscan := scanTriple_accept q hq ctx s none [] line (col + 1 + 2) 0 0 log h1 trivial h2 (by decide)
  simp only [Option.isSome_none] at hscan
  have hscan' := (scanDelim_triple_open q hq (s ++ q :: q :: q :: ctx) line (col + 1) acceptAll log).trans hscan
  rw [quote_dispatch .cif2 q hq, L.bind_ok hscan']
  cases ctx with
  | nil => simp [keyPeek, mkTok]
  | cons d r =>
    have : ¬ d = colon := by
      simp only [followOk, isWs, isBlank, isEol, Bool.or_eq_true, beq_iff_eq, Bool.and_eq_true] at hctx
      simp only [colon]; omega_cu
    simp [keyPeek, mkTok, this]

end CifModel.Model.Lexer
