import CifModel.Lemmas.LexDefect
/-
  Lemmas/LexPrefix — PREFIX lemmas: what each scan function has done after an admissible piece of token content, with ANY
  input behind it (silently, under every policy).  They compose with the closing lemmas of Lemmas/LexerValue.lean and with a
  one-unit step, which is how a defective unit in the middle of a token is handled (CIF_DISALLOWED_CHAR, CIF_INVALID_CHAR).
-/
set_option linter.unusedSimpArgs false

namespace CifModel.Model.Lexer
open CifModel CifModel.Model.Chars CifModel.Spec.Lexical CifModel.Model.Parser
open CifModel.Gen.ErrCodes

/-- scan_delim_string over content without delimiter and line terminator (either dialect) -/
theorem scanDelim_prefix (dia : Dialect) (q : Nat) (R : Str) (line : Nat) (pol : Policy) (log : List Report) :
    ∀ (s : Str) (pend : Option CU) (acc : Str) (col : Nat) (first : Bool),
      okUnits dia pend s = true → pendOk dia pend acc → s.all (fun x => !isEol x) = true → s.all (fun x => x != q) = true →
      scanDelim dia q (s ++ R) line col pend.isSome acc first pol log
        = scanDelim dia q R line (col + colAdd s) false (s.reverse ++ acc) (first && s.isEmpty) pol log := by
  intro s
  induction s with
  | nil =>
    intro pend acc col first hok _ _ _
    cases pend with
    | some l => simp [okUnits] at hok
    | none => simp
  | cons c s ih =>
    intro pend acc col first hok hp heol hnq
    obtain ⟨hstep, hok', hp', hf, _⟩ := ok_step dia pend c s acc hok hp line col pol log
    simp only [List.all_cons, Bool.and_eq_true] at heol hnq
    have hcq : ¬ c = q := by simpa using hnq.1
    have hceol : ¬ classOf dia c = .eol := by rw [hf.eol]; simpa [isEol] using heol.1
    have := ih (nextPend c) (c :: acc) (col + (if isTrailU c then 0 else 1)) false hok' hp' heol.2 hnq.2
    rw [isSome_nextPend] at this
    conv => lhs; simp only [List.cons_append, scanDelim, bind_eq, pure_eq]
    rw [L.bind_ok hstep]
    simp only [fixAcc_false, hcq, if_false, hceol]
    rw [this, colAdd_cons]
    simp [Nat.add_comm, Nat.add_left_comm]

/-- scan_to_ws over non-blank content -/
theorem scanToWs_prefix (dia : Dialect) (R : Str) (line : Nat) (pol : Policy) (log : List Report) :
    ∀ (s : Str) (pend : Option CU) (acc : Str) (col : Nat),
      okUnits dia pend s = true → pendOk dia pend acc → s.all (fun x => !isWs x) = true →
      scanToWs dia (s ++ R) line col pend.isSome acc pol log
        = scanToWs dia R line (col + colAdd s) false (s.reverse ++ acc) pol log := by
  intro s
  induction s with
  | nil =>
    intro pend acc col hok _ _
    cases pend with
    | some l => simp [okUnits] at hok
    | none => simp
  | cons c s ih =>
    intro pend acc col hok hp hnws
    obtain ⟨hstep, hok', hp', hf, _⟩ := ok_step dia pend c s acc hok hp line col pol log
    simp only [List.all_cons, Bool.and_eq_true, Bool.not_eq_true'] at hnws
    have hm : ¬ metaOf dia c = .ws := by rw [hf.mws]; simp [hnws.1]
    have := ih (nextPend c) (c :: acc) (col + (if isTrailU c then 0 else 1)) hok' hp' hnws.2
    rw [isSome_nextPend] at this
    conv => lhs; simp only [List.cons_append, scanToWs, bind_eq, pure_eq]
    rw [L.bind_ok hstep]
    simp only [fixAcc_false, hm, if_false]
    rw [this, colAdd_cons]
    simp [Nat.add_comm, Nat.add_left_comm]

/-- scan_to_eol over comment content -/
theorem scanToEol_prefix (dia : Dialect) (R : Str) (line : Nat) (pol : Policy) (log : List Report) :
    ∀ (s : Str) (pend : Option CU) (acc : Str) (col : Nat),
      okUnits dia pend s = true → pendOk dia pend acc → s.all (fun x => !isEol x) = true →
      scanToEol dia (s ++ R) line col pend.isSome acc pol log
        = scanToEol dia R line (col + colAdd s) false (s.reverse ++ acc) pol log := by
  intro s
  induction s with
  | nil =>
    intro pend acc col hok _ _
    cases pend with
    | some l => simp [okUnits] at hok
    | none => simp
  | cons c s ih =>
    intro pend acc col hok hp heol
    obtain ⟨hstep, hok', hp', hf, _⟩ := ok_step dia pend c s acc hok hp line col pol log
    simp only [List.all_cons, Bool.and_eq_true, Bool.not_eq_true'] at heol
    have hne : ¬ classOf dia c = .eol := by rw [hf.eol]; simpa [isEol] using heol.1
    have := ih (nextPend c) (c :: acc) (col + (if isTrailU c then 0 else 1)) hok' hp' heol.2
    rw [isSome_nextPend] at this
    conv => lhs; simp only [List.cons_append, scanToEol, bind_eq, pure_eq]
    rw [L.bind_ok hstep]
    simp only [fixAcc_false, hne, if_false]
    rw [this, colAdd_cons]
    simp [Nat.add_comm, Nat.add_left_comm]

/-- scan_unquoted over non-blank content without brackets: offset and keyword flags advance as `kwAfter` says -/
theorem scanUnquoted_prefix (dia : Dialect) (R : Str) (line : Nat) (pol : Policy) (log : List Report) :
    ∀ (s : Str) (pend : Option CU) (acc : Str) (col k : Nat) (kd ks : Bool),
      okUnits dia pend s = true → pendOk dia pend acc → s.all (fun x => !isWs x) = true →
      (dia = .cif2 → s.all (fun x => !(x == 91 || x == 93 || x == 123 || x == 125)) = true) →
      scanUnquoted dia (s ++ R) line col pend.isSome acc k kd ks pol log
        = scanUnquoted dia R line (col + colAdd s) false (s.reverse ++ acc) (kwAfter dia k kd ks s).1 (kwAfter dia k kd ks s).2.1
            (kwAfter dia k kd ks s).2.2 pol log := by
  intro s
  induction s with
  | nil =>
    intro pend acc col k kd ks hok _ _ _
    cases pend with
    | some l => simp [okUnits] at hok
    | none => simp [kwAfter]
  | cons c s ih =>
    intro pend acc col k kd ks hok hp hnws hnbr
    obtain ⟨hstep, hok', hp', hf, _⟩ := ok_step dia pend c s acc hok hp line col pol log
    simp only [List.all_cons, Bool.and_eq_true, Bool.not_eq_true'] at hnws
    have hmeta : metaOfCls (classOf dia c) = .general := by
      have h1 : ¬ metaOf dia c = .ws := by rw [hf.mws]; simp [hnws.1]
      have h2 : ¬ metaOf dia c = .no := hf.mno
      have h3 : ¬ metaOf dia c = .open_ := by
        rw [hf.mopen]
        rintro ⟨hd, hc⟩
        have := hnbr hd
        simp only [List.all_cons, Bool.and_eq_true, Bool.not_eq_true', Bool.or_eq_false_iff, beq_eq_false_iff_ne] at this
        rcases hc with hc | hc
        · exact this.1.1.1.1 hc
        · exact this.1.1.2 hc
      have h4 : ¬ metaOf dia c = .close := by
        rw [hf.mclose]
        rintro ⟨hd, hc⟩
        have := hnbr hd
        simp only [List.all_cons, Bool.and_eq_true, Bool.not_eq_true', Bool.or_eq_false_iff, beq_eq_false_iff_ne] at this
        rcases hc with hc | hc
        · exact this.1.1.1.2 hc
        · exact this.1.2 hc
      simp only [metaOf] at h1 h2 h3 h4
      cases hm : metaOfCls (classOf dia c) <;> simp_all
    have hnbr' : dia = .cif2 → s.all (fun x => !(x == 91 || x == 93 || x == 123 || x == 125)) = true := by
      intro hd
      have := hnbr hd
      simp only [List.all_cons, Bool.and_eq_true] at this
      exact this.2
    have := ih (nextPend c) (c :: acc) (col + (if isTrailU c then 0 else 1)) (k + 1)
      (if k < 5 then kd && (classOf dia c == dataCls k) else kd) (if k < 5 then ks && (classOf dia c == saveCls k) else ks)
      hok' hp' hnws.2 hnbr'
    rw [isSome_nextPend] at this
    conv => lhs; simp only [List.cons_append, scanUnquoted, bind_eq, pure_eq]
    rw [L.bind_ok hstep]
    simp only [fixAcc_false, hmeta]
    rw [this, colAdd_cons]
    simp [kwAfter, kwStep, Nat.add_comm, Nat.add_left_comm]

/-- scan_triple_delim_string over content in which the delimiter does not occur three times in a row -/
theorem scanTriple_prefix (q : Nat) (hq : q = 34 ∨ q = 39) (R : Str) (pol : Policy) (log : List Report) :
    ∀ (s : Str) (pend : Option CU) (acc : Str) (line col cnt sol : Nat),
      okUnits .cif2 pend s = true → pendOk .cif2 pend acc → tripleOpen q cnt s = true → sol % 4 ≠ 2 → linesFit col s = true →
      ∃ cnt' sol', sol' % 4 ≠ 2 ∧
        scanTriple .cif2 q (s ++ R) line col pend.isSome acc cnt sol pol log
          = scanTriple .cif2 q R (posAfter line col s).1 (posAfter line col s).2 false (s.reverse ++ acc) cnt' sol' pol log := by
  intro s
  induction s with
  | nil =>
    intro pend acc line col cnt sol hok _ _ hsol _
    cases pend with
    | some l => simp [okUnits] at hok
    | none => exact ⟨cnt, sol, hsol, by simp [posAfter]⟩
  | cons c s ih =>
    intro pend acc line col cnt sol hok hp hbody hsol hfit
    obtain ⟨hstep, hok', hp', hf, _⟩ := ok_step .cif2 pend c s acc hok hp line col pol log
    by_cases hcq : c = q
    · subst hcq
      have hc10 : ¬ c = 10 := by rcases hq with h | h <;> omega_cu
      simp only [tripleOpen, if_true, Bool.and_eq_true, decide_eq_true_eq] at hbody
      have hge : ¬ cnt + 1 ≥ 3 := by omega
      simp only [linesFit, hc10, if_false] at hfit
      obtain ⟨cnt', sol', h1, h2⟩ := ih (nextPend c) (c :: acc) line (col + (if isTrailU c then 0 else 1)) (cnt + 1) sol hok' hp' hbody.2 hsol hfit
      rw [isSome_nextPend] at h2
      refine ⟨cnt', sol', h1, ?_⟩
      conv => lhs; simp only [List.cons_append, scanTriple, bind_eq, pure_eq]
      rw [L.bind_ok hstep]
      simp only [fixAcc_false, if_true, hge, if_false]
      rw [h2]
      simp [posAfter, hc10]
    · simp only [tripleOpen, hcq, if_false] at hbody
      by_cases h10 : c = 10
      · subst h10
        have heol : classOf .cif2 10 = .eol := by decide
        simp only [linesFit, if_true, Bool.and_eq_true, decide_eq_true_eq] at hfit
        have ht : isTrailU 10 = false := by decide
        have hl : isLeadU 10 = false := by decide
        obtain ⟨cnt', sol', h1, h2⟩ := ih none (10 :: acc) (line + 1) 0 0 ((sol * 4 + 1) % 16) (by simpa [nextPend, hl] using hok') trivial hbody (by omega) hfit.2
        simp only [Option.isSome_none] at h2
        refine ⟨cnt', sol', h1, ?_⟩
        conv => lhs; simp only [List.cons_append, scanTriple, bind_eq, pure_eq]
        rw [L.bind_ok hstep]
        simp only [fixAcc_false, hcq, if_false, heol, if_true, ht, Bool.false_eq_true, Nat.add_sub_cancel]
        rw [L.bind_ok (handleEol_lf line col sol hfit.1 hsol pol log)]
        simp only [hl]
        rw [h2]
        simp [posAfter]
      · have hne : ¬ classOf .cif2 c = .eol := by rw [hf.eol]; exact h10
        simp only [linesFit, h10, if_false] at hfit
        obtain ⟨cnt', sol', h1, h2⟩ := ih (nextPend c) (c :: acc) line (col + (if isTrailU c then 0 else 1)) 0 0 hok' hp' hbody (by omega) hfit
        rw [isSome_nextPend] at h2
        refine ⟨cnt', sol', h1, ?_⟩
        conv => lhs; simp only [List.cons_append, scanTriple, bind_eq, pure_eq]
        rw [L.bind_ok hstep]
        simp only [fixAcc_false, hcq, if_false, hne]
        rw [h2]
        simp [posAfter, h10]

/-- scan_text over body content no line of which begins with `;` -/
theorem scanText_prefix (dia : Dialect) (R : Str) (pol : Policy) (log : List Report) :
    ∀ (s : Str) (pend : Option CU) (acc : Str) (line col sol : Nat),
      okUnits dia pend s = true → pendOk dia pend acc → textBody (decide (sol ≠ 0)) s = true → sol % 4 ≠ 2 →
      linesFit col s = true →
      ∃ sol', sol' % 4 ≠ 2 ∧
        scanText dia (s ++ R) line col pend.isSome acc sol pol log
          = scanText dia R (posAfter line col s).1 (posAfter line col s).2 false (s.reverse ++ acc) sol' pol log := by
  have hlfc : classOf dia 10 = .eol := by cases dia <;> decide
  have hscc : classOf dia 59 = .semi := by cases dia <;> decide
  intro s
  induction s with
  | nil =>
    intro pend acc line col sol hok _ _ hsol _
    cases pend with
    | some l => simp [okUnits] at hok
    | none => exact ⟨sol, hsol, by simp [posAfter]⟩
  | cons c s ih =>
    intro pend acc line col sol hok hp hbody hsol hfit
    obtain ⟨hstep, hok', hp', hf, hch⟩ := ok_step dia pend c s acc hok hp line col pol log
    simp only [textBody, Bool.and_eq_true, Bool.not_eq_true', Bool.and_eq_false_iff, decide_eq_false_iff_not, ne_eq,
      Decidable.not_not, beq_eq_false_iff_ne] at hbody
    by_cases h59 : c = 59
    · subst h59
      have hsol0 : sol = 0 := by
        rcases hbody.1 with h | h
        · exact h
        · exact absurd rfl h
      subst hsol0
      have h10 : ¬ (59 : Nat) = 10 := by decide
      simp only [linesFit, h10, if_false] at hfit
      have hb : textBody (decide ((0 : Nat) ≠ 0)) s = true := by simpa [isEol] using hbody.2
      obtain ⟨sol', h1, h2⟩ := ih (nextPend 59) (59 :: acc) line (col + (if isTrailU 59 then 0 else 1)) 0 hok' hp' hb hsol hfit
      rw [isSome_nextPend] at h2
      refine ⟨sol', h1, ?_⟩
      conv => lhs; simp only [List.cons_append, scanText, bind_eq, pure_eq]
      rw [L.bind_ok hstep]
      simp only [fixAcc_false, hscc, if_true, ne_eq, not_true_eq_false, if_false]
      rw [h2]
      simp [posAfter]
    · have hnsemi : ¬ classOf dia c = .semi := by rw [hf.semi]; exact h59
      by_cases h10 : c = 10
      · subst h10
        simp only [linesFit, if_true, Bool.and_eq_true, decide_eq_true_eq] at hfit
        have ht : isTrailU 10 = false := by decide
        have hl : isLeadU 10 = false := by decide
        have hb : textBody (decide ((sol * 4 + 1) % 16 ≠ 0)) s = true := by
          have : (sol * 4 + 1) % 16 ≠ 0 := by omega
          simpa [isEol, this] using hbody.2
        obtain ⟨sol', h1, h2⟩ := ih none (10 :: acc) (line + 1) 0 ((sol * 4 + 1) % 16) (by simpa [nextPend, hl] using hok') trivial hb (by omega) hfit.2
        simp only [Option.isSome_none] at h2
        refine ⟨sol', h1, ?_⟩
        conv => lhs; simp only [List.cons_append, scanText, bind_eq, pure_eq]
        rw [L.bind_ok hstep]
        simp only [fixAcc_false, hlfc, show ¬ (Cls.eol = Cls.semi) from by decide, if_false, if_true, ht, Bool.false_eq_true, Nat.add_sub_cancel]
        rw [L.bind_ok (handleEol_lf line col sol hfit.1 hsol pol log)]
        simp only [hl]
        rw [h2]
        simp [posAfter]
      · have hne : ¬ classOf dia c = .eol := by rw [hf.eol]; exact h10
        simp only [linesFit, h10, if_false] at hfit
        have hb : textBody (decide ((0 : Nat) ≠ 0)) s = true := by
          have : isEol c = false := by simp [isEol, h10]
          simpa [this] using hbody.2
        obtain ⟨sol', h1, h2⟩ := ih (nextPend c) (c :: acc) line (col + (if isTrailU c then 0 else 1)) 0 hok' hp' hb (by omega) hfit
        rw [isSome_nextPend] at h2
        refine ⟨sol', h1, ?_⟩
        conv => lhs; simp only [List.cons_append, scanText, bind_eq, pure_eq]
        rw [L.bind_ok hstep]
        simp only [fixAcc_false, hnsemi, if_false, hne]
        rw [h2]
        simp [posAfter, h10]

end CifModel.Model.Lexer
