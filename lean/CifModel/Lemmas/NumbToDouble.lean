import CifModel.Lemmas.NumbRound
/-
  Lemmas for C10_to_double_big: the exact-arithmetic model of to_double() computes IEEE round-to-nearest-even.
-/
namespace CifModel.Lemmas.NumbToDouble
open CifModel.Model.Numb CifModel.Spec.Rounding CifModel.Lemmas.NumbRound

/-! ### powers of two with integer exponents, division-free: `2^e = P e / Q e` -/
def P (e : Int) : Nat := 2 ^ e.toNat
def Q (e : Int) : Nat := 2 ^ (-e).toNat

theorem P_pos (e : Int) : 0 < P e := Nat.two_pow_pos _
theorem Q_pos (e : Int) : 0 < Q e := Nat.two_pow_pos _

theorem PQ_add (a b : Int) : P (a + b) * Q a * Q b = P a * P b * Q (a + b) := by
  unfold P Q
  rw [← Nat.pow_add, ← Nat.pow_add, ← Nat.pow_add, ← Nat.pow_add]
  congr 1
  omega

theorem P_nonneg_Q (e : Int) (h : 0 ≤ e) : Q e = 1 := by
  unfold Q; have : (-e).toNat = 0 := by omega
  rw [this]

theorem Q_nonpos_P (e : Int) (h : e ≤ 0) : P e = 1 := by
  unfold P; have : e.toNat = 0 := by omega
  rw [this]

/-! ### bit length -/

theorem bitLen_of_bounds (n b : Nat) (h1 : 2 ^ b ≤ n) (h2 : n < 2 ^ (b + 1)) : bitLen n = b + 1 := by
  have hn : n ≠ 0 := by
    intro h; subst h
    have := Nat.two_pow_pos b; omega
  unfold bitLen
  simp only [hn, if_false]
  have a : b ≤ n.log2 := (Nat.le_log2 hn).mpr h1
  have c : n.log2 < b + 1 := (Nat.log2_lt hn).mpr h2
  omega

theorem bitLen_bounds (n : Nat) (hn : n ≠ 0) : 2 ^ (bitLen n - 1) ≤ n ∧ n < 2 ^ bitLen n := by
  unfold bitLen
  simp only [hn, if_false]
  exact ⟨by simpa using Nat.log2_self_le hn, Nat.lt_log2_self⟩

/-! ### the tail of to_double: rounding, carry, ldexp -/

/-- what `toDoubleCore` does after the mantissa loop -/
def finish (num den : Nat) (e : Int) : Dbl :=
  let mant := roundToInt num den
  if pow2 53 - 1 < mant then ldexpNat false 1 (e + (DBL_MANT_DIG : Nat)) else ldexpNat false mant e

theorem roundHalfEven_range (num den lo : Nat) (hden : 0 < den) (h1 : den * lo ≤ num) (h2 : num < den * (2 * lo)) :
    lo ≤ roundHalfEven num den ∧ roundHalfEven num den ≤ 2 * lo := by
  have hq1 : lo ≤ num / den := (Nat.le_div_iff_mul_le hden).mpr (by rw [Nat.mul_comm]; exact h1)
  have hq2 : num / den < 2 * lo := (Nat.div_lt_iff_lt_mul hden).mpr (by rw [Nat.mul_comm]; exact h2)
  unfold roundHalfEven
  simp only
  generalize num / den = q at *
  split
  · omega
  · split
    · split <;> omega
    · omega

/-- the value is in `[2^52, 2^53)·2^e`: the tail delivers the half-even rounding with carry, when that is normal -/
theorem finish_binade (num den : Nat) (e : Int) (hden : 0 < den)
    (h1 : den * 2 ^ 52 ≤ num) (h2 : num < den * 2 ^ 53)
    (hlo : -1074 ≤ (carry (roundHalfEven num den) e).2) (hhi : (carry (roundHalfEven num den) e).2 ≤ 971) :
    finish num den e = .fin false (carry (roundHalfEven num den) e).1 (carry (roundHalfEven num den) e).2 := by
  have hr := roundHalfEven_range num den (2 ^ 52) hden h1 (by
    have : 2 * 2 ^ 52 = 2 ^ 53 := by decide
    rw [this]; exact h2)
  unfold finish
  simp only [roundToInt_eq num den hden]
  generalize roundHalfEven num den = R at *
  have h53 : (2 : Nat) ^ 53 = 9007199254740992 := by decide
  have h52 : (2 : Nat) ^ 52 = 4503599627370496 := by decide
  unfold carry at *
  by_cases hR : R = 2 ^ 53
  · simp only [hR, if_true] at hlo hhi ⊢
    have : pow2 53 - 1 < 2 ^ 53 := by unfold pow2; rw [h53]; omega
    simp only [this, if_true]
    unfold ldexpNat
    have hb : bitLen 1 = 1 := by decide
    simp only [hb, DBL_MANT_DIG]
    have c1 : ¬ ((1 : Nat) = 0) := by decide
    simp only [c1, if_false]
    have c2 : ¬ (e + ((53 : Nat) : Int) + ((1 : Nat) : Int) > 1024) := by omega
    have c3 : e + ((53 : Nat) : Int) + ((1 : Nat) : Int) - 1 ≥ -1022 := by omega
    simp only [c2, c3, if_true, if_false]
    have c4 : (1 : Nat) ≤ 53 := by decide
    simp only [c4, if_true]
    have : pow2 (53 - 1) = 2 ^ 52 := by unfold pow2; rfl
    rw [this, Nat.one_mul]
    congr 1
    omega
  · simp only [hR, if_false] at hlo hhi ⊢
    have hlt : R < 2 ^ 53 := by omega
    have : ¬ (pow2 53 - 1 < R) := by unfold pow2; omega
    simp only [this, if_false]
    have hb : bitLen R = 53 := bitLen_of_bounds R 52 hr.1 hlt
    unfold ldexpNat
    have c1 : ¬ (R = 0) := by omega
    simp only [c1, if_false, hb]
    have c2 : ¬ (e + ((53 : Nat) : Int) > 1024) := by omega
    have c3 : e + ((53 : Nat) : Int) - 1 ≥ -1022 := by omega
    simp only [c2, c3, if_true, if_false]
    have c4 : (53 : Nat) ≤ 53 := by decide
    simp only [c4, if_true]
    have : pow2 (53 - 53) = 1 := by unfold pow2; rfl
    rw [this, Nat.mul_one]
    congr 1
    omega


/-! ### the representation invariant: `num/den = (num0/den0) / 2^e` -/

def Rep (num0 den0 num den : Nat) (e : Int) : Prop := num * (den0 * P e) = (num0 * Q e) * den

theorem rep_le (num0 den0 num den lo : Nat) (e : Int) (hden0 : 0 < den0) (hden : 0 < den)
    (hrep : Rep num0 den0 num den e) : (den0 * P e * lo ≤ num0 * Q e) ↔ (den * lo ≤ num) := by
  have hc : 0 < den0 * P e := Nat.mul_pos hden0 (P_pos e)
  unfold Rep at hrep
  constructor
  · intro h
    apply Nat.le_of_mul_le_mul_right (c := den0 * P e) _ hc
    calc den * lo * (den0 * P e) = (den0 * P e * lo) * den := by grind
      _ ≤ (num0 * Q e) * den := Nat.mul_le_mul_right den h
      _ = num * (den0 * P e) := hrep.symm
  · intro h
    apply Nat.le_of_mul_le_mul_right (c := den) _ hden
    calc den0 * P e * lo * den = (den * lo) * (den0 * P e) := by grind
      _ ≤ num * (den0 * P e) := Nat.mul_le_mul_right _ h
      _ = num0 * Q e * den := hrep

theorem rep_lt (num0 den0 num den hi : Nat) (e : Int) (hden0 : 0 < den0) (hden : 0 < den)
    (hrep : Rep num0 den0 num den e) : (num0 * Q e < den0 * P e * hi) ↔ (num < den * hi) := by
  have hc : 0 < den0 * P e := Nat.mul_pos hden0 (P_pos e)
  unfold Rep at hrep
  constructor
  · intro h
    apply Nat.lt_of_mul_lt_mul_right (a := den0 * P e)
    calc num * (den0 * P e) = num0 * Q e * den := hrep
      _ < (den0 * P e * hi) * den := Nat.mul_lt_mul_of_pos_right h hden
      _ = den * hi * (den0 * P e) := by grind
  · intro h
    apply Nat.lt_of_mul_lt_mul_right (a := den)
    calc num0 * Q e * den = num * (den0 * P e) := hrep.symm
      _ < (den * hi) * (den0 * P e) := Nat.mul_lt_mul_of_pos_right h hc
      _ = den0 * P e * hi * den := by grind

theorem rep_binade (num0 den0 num den : Nat) (e : Int) (hden0 : 0 < den0) (hden : 0 < den)
    (hrep : Rep num0 den0 num den e) (h1 : den * 2 ^ 52 ≤ num) (h2 : num < den * 2 ^ 53) : BinadeOf num0 den0 e := by
  unfold BinadeOf
  exact ⟨(rep_le num0 den0 num den _ e hden0 hden hrep).mpr h1, (rep_lt num0 den0 num den _ e hden0 hden hrep).mpr h2⟩

theorem rep_roundAt (num0 den0 num den : Nat) (e : Int) (hden0 : 0 < den0) (hden : 0 < den)
    (hrep : Rep num0 den0 num den e) : roundAt num0 den0 e = roundHalfEven num den := by
  unfold roundAt
  exact roundHalfEven_cross _ _ _ _ (Nat.mul_pos hden0 (P_pos e)) hden hrep.symm

theorem rep_double (num0 den0 num den : Nat) (e : Int) (hrep : Rep num0 den0 num den e) :
    Rep num0 den0 (num * 2) den (e - 1) := by
  unfold Rep at *
  have law := PQ_add (e - 1) 1
  have e1 : e - 1 + 1 = e := by omega
  have q1 : Q 1 = 1 := by decide
  have p1 : P 1 = 2 := by decide
  rw [e1, q1, p1] at law
  apply Nat.eq_of_mul_eq_mul_right (Q_pos e)
  grind

/-! ### the mantissa loop -/

theorem dbl_bounds (num X Y Z : Nat) (e53 : Z = 2 * X) (e52 : X = 2 * Y) (h1 : Y ≤ num) (hlt : num < X) :
    X ≤ num * 2 ∧ num * 2 < Z := by omega

theorem mantLoop_spec (fuel num den : Nat) (e : Int) (hden : 0 < den)
    (h1 : den * 2 ^ 51 ≤ num) (h2 : num < den * 2 ^ 53) :
    (2 ^ 52 ≤ num / den ∨ num % den = 0) ∧ mantLoop (fuel + 2) num den e = (num, e) ∨
    (¬ (2 ^ 52 ≤ num / den ∨ num % den = 0)) ∧ mantLoop (fuel + 2) num den e = (num * 2, e - 1) ∧
      den * 2 ^ 52 ≤ num * 2 ∧ num * 2 < den * 2 ^ 53 := by
  by_cases hc : 2 ^ 52 ≤ num / den ∨ num % den = 0
  · left
    refine ⟨hc, ?_⟩
    unfold mantLoop pow2
    simp only [hc, if_true]
  · right
    have hq : num / den < 2 ^ 52 := by omega
    have hlt : num < 2 ^ 52 * den := (Nat.div_lt_iff_lt_mul hden).mp hq
    have e53 : den * 2 ^ 53 = 2 * (den * 2 ^ 52) := by
      have : (2 : Nat) ^ 53 = 2 * 2 ^ 52 := by decide
      rw [this]; grind
    have e52 : den * 2 ^ 52 = 2 * (den * 2 ^ 51) := by
      have : (2 : Nat) ^ 52 = 2 * 2 ^ 51 := by decide
      rw [this]; grind
    have hcomm : 2 ^ 52 * den = den * 2 ^ 52 := Nat.mul_comm _ _
    rw [hcomm] at hlt
    have b12 : den * 2 ^ 52 ≤ num * 2 ∧ num * 2 < den * 2 ^ 53 := dbl_bounds _ _ _ _ e53 e52 h1 hlt
    have b1 := b12.1
    have b2 := b12.2
    refine ⟨hc, ?_, b1, b2⟩
    have hq2 : 2 ^ 52 ≤ num * 2 / den := (Nat.le_div_iff_mul_le hden).mpr (by rw [Nat.mul_comm]; exact b1)
    have step1 : mantLoop (fuel + 2) num den e = mantLoop (fuel + 1) (num * 2) den (e - 1) := by
      rw [mantLoop]; unfold pow2; simp only [hc, if_false]
    rw [step1, mantLoop]
    unfold pow2
    simp only [hq2, true_or, if_true]

/-! ### the shift-left loop -/

theorem shlLoop_spec (den : Nat) (rs : Int) : ∀ (fuel num : Nat) (e : Int), rs ≤ e → e - rs ≤ 28 * (fuel : Int) →
    ∃ j : Nat, shlLoop fuel num den e rs = (num * 2 ^ j, e - (j : Int)) ∧ rs ≤ e - (j : Int) ∧
      (e - (j : Int) = rs ∨ (num * 2 ^ j) % den = 0) := by
  intro fuel
  induction fuel with
  | zero =>
    intro num e h1 h2
    refine ⟨0, ?_, ?_, ?_⟩
    · simp [shlLoop]
    · simpa using h1
    · left; simp; omega
  | succ f ih =>
    intro num e h1 h2
    rw [shlLoop]
    by_cases hc : rs < e ∧ num % den ≠ 0
    · rw [if_pos hc]
      have hsh : ((min BDIG_PER_DIG (e - rs).toNat : Nat) : Int) ≤ e - rs := by
        have : min BDIG_PER_DIG (e - rs).toNat ≤ (e - rs).toNat := Nat.min_le_right _ _
        omega
      have hsh2 : min BDIG_PER_DIG (e - rs).toNat = 28 ∨ ((min BDIG_PER_DIG (e - rs).toNat : Nat) : Int) = e - rs := by
        unfold BDIG_PER_DIG
        rcases Nat.le_total 28 (e - rs).toNat with h | h
        · left; exact Nat.min_eq_left h
        · right; rw [Nat.min_eq_right h]; omega
      generalize min BDIG_PER_DIG (e - rs).toNat = sh at *
      obtain ⟨j, hj1, hj2, hj3⟩ := ih (num * pow2 sh) (e - (sh : Int)) (by omega) (by rcases hsh2 with h | h <;> omega)
      refine ⟨sh + j, ?_, ?_, ?_⟩
      · rw [hj1]
        unfold pow2
        have hA : num * 2 ^ sh * 2 ^ j = num * 2 ^ (sh + j) := by rw [Nat.pow_add, Nat.mul_assoc]
        have hB : e - (sh : Int) - (j : Int) = e - ((sh + j : Nat) : Int) := by omega
        rw [hA, hB]
      · have : ((sh + j : Nat) : Int) = (sh : Int) + (j : Int) := by omega
        omega
      · unfold pow2 at hj3
        rw [Nat.pow_add, ← Nat.mul_assoc]
        have : ((sh + j : Nat) : Int) = (sh : Int) + (j : Int) := by omega
        rcases hj3 with h | h
        · left; omega
        · right; exact h
    · rw [if_neg hc]
      refine ⟨0, ?_, ?_, ?_⟩
      · simp
      · simpa using h1
      · by_cases h3 : rs < e
        · right
          have : num % den = 0 := by
            by_cases h4 : num % den = 0
            · exact h4
            · exact absurd ⟨h3, h4⟩ hc
          simpa using this
        · left; simp; omega


/-! ### putting the tail together -/

theorem finish_rne (num0 den0 num den : Nat) (e : Int) (hden0 : 0 < den0) (hden : 0 < den)
    (hrep : Rep num0 den0 num den e) (h1 : den * 2 ^ 52 ≤ num) (h2 : num < den * 2 ^ 53) :
    ∃ p : Nat × Int, IsRne num0 den0 p ∧ (InNormalRange p → finish num den e = .fin false p.1 p.2) := by
  refine ⟨carry (roundHalfEven num den) e, ⟨e, rep_binade _ _ _ _ _ hden0 hden hrep h1 h2, ?_⟩, ?_⟩
  · rw [rep_roundAt _ _ _ _ _ hden0 hden hrep]
  · intro hn
    exact finish_binade num den e hden h1 h2 hn.1 hn.2

theorem roundHalfEven_exact (num den : Nat) (hden : 0 < den) (h : num % den = 0) : roundHalfEven num den = num / den := by
  unfold roundHalfEven
  simp [h, hden]

theorem roundHalfEven_one (n : Nat) : roundHalfEven n 1 = n := by
  unfold roundHalfEven
  simp [Nat.mod_one]

/-- the scaled significand is an integer `M < 2^53`: `ldexp` is exact and the result is the rounding of the value -/
theorem finish_exact (num0 den0 num den : Nat) (e : Int) (hnum0 : 0 < num0) (hden0 : 0 < den0) (hden : 0 < den)
    (hrep : Rep num0 den0 num den e) (hmod : num % den = 0) (hM : num / den < 2 ^ 53) :
    ∃ p : Nat × Int, IsRne num0 den0 p ∧ (InNormalRange p → finish num den e = .fin false p.1 p.2) := by
  have hnum : num = num / den * den := by
    have := Nat.div_add_mod num den
    rw [hmod, Nat.add_zero, Nat.mul_comm] at this
    exact this.symm
  generalize hMdef : num / den = M at *
  -- R1 : M * den0 * P e = num0 * Q e
  have R1 : M * den0 * P e = num0 * Q e := by
    unfold Rep at hrep
    rw [hnum] at hrep
    apply Nat.eq_of_mul_eq_mul_right hden
    grind
  have hMpos : 0 < M := by
    rcases Nat.eq_zero_or_pos M with h | h
    · rw [h] at R1
      have : 0 < num0 * Q e := Nat.mul_pos hnum0 (Q_pos e)
      simp at R1
      omega
    · exact h
  have hMne : M ≠ 0 := by omega
  have hb := bitLen_bounds M hMne
  generalize hbdef : bitLen M = b at *
  have hb53 : b ≤ 53 := by
    have : 2 ^ (b - 1) < 2 ^ 53 := Nat.lt_of_le_of_lt hb.1 hM
    have := (Nat.pow_lt_pow_iff_right (by decide : 1 < 2)).mp this
    omega
  have hb1 : 1 ≤ b := by
    rcases Nat.eq_zero_or_pos b with h | h
    · rw [h] at hb; simp at hb; omega
    · exact h
  -- the normalised pair
  let k := 53 - b
  let E : Int := e - (k : Int)
  have law := PQ_add E (k : Int)
  have hEk : E + (k : Int) = e := by omega
  have hQk : Q (k : Int) = 1 := P_nonneg_Q _ (by omega)
  have hPk : P (k : Int) = 2 ^ k := by unfold P; simp
  rw [hEk, hQk, hPk] at law
  have hrep' : Rep num0 den0 (M * 2 ^ k) 1 E := by
    unfold Rep
    apply Nat.eq_of_mul_eq_mul_right (Q_pos e)
    grind
  have hlo : 1 * 2 ^ 52 ≤ M * 2 ^ k := by
    have : 2 ^ (b - 1) * 2 ^ k = 2 ^ 52 := by rw [← Nat.pow_add]; congr 1; omega
    rw [Nat.one_mul, ← this]
    exact Nat.mul_le_mul_right _ hb.1
  have hhi : M * 2 ^ k < 1 * 2 ^ 53 := by
    have : 2 ^ b * 2 ^ k = 2 ^ 53 := by rw [← Nat.pow_add]; congr 1; omega
    rw [Nat.one_mul, ← this]
    exact Nat.mul_lt_mul_of_pos_right hb.2 (Nat.two_pow_pos k)
  refine ⟨(M * 2 ^ k, E), ⟨E, rep_binade _ _ _ _ _ hden0 (by decide) hrep' hlo hhi, ?_⟩, ?_⟩
  · rw [rep_roundAt _ _ _ _ _ hden0 (by decide) hrep', roundHalfEven_one]
    unfold carry
    have : ¬ (M * 2 ^ k = 2 ^ 53) := by omega
    simp [this]
  · intro hn
    unfold InNormalRange at hn
    simp only at hn
    unfold finish
    rw [roundToInt_eq num den hden, roundHalfEven_exact num den hden hmod, hMdef]
    have : ¬ (pow2 53 - 1 < M) := by unfold pow2; omega
    simp only [this, if_false]
    unfold ldexpNat
    simp only [hMne, if_false, hbdef]
    have c2 : ¬ (e + (b : Int) > 1024) := by omega
    have c3 : e + (b : Int) - 1 ≥ -1022 := by omega
    simp only [c2, c3, hb53, if_true, if_false]
    unfold pow2
    rfl

/-- `V/2^rs < 2^53` and `rs ≤ e` give `V/2^e < 2^53` for an integral `V/2^e` -/
theorem exact_lt (num0 den0 M : Nat) (e rs : Int) (hden0 : 0 < den0) (hge : rs ≤ e)
    (R1 : M * den0 * P e = num0 * Q e) (Hhi : num0 * Q rs < den0 * P rs * 2 ^ 53) : M < 2 ^ 53 := by
  let d := (e - rs).toNat
  have law := PQ_add rs (d : Int)
  have hsum : rs + (d : Int) = e := by omega
  have hQd : Q (d : Int) = 1 := P_nonneg_Q _ (by omega)
  have hPd : P (d : Int) = 2 ^ d := by unfold P; simp
  rw [hsum, hQd, hPd] at law
  have hc : 0 < den0 * P rs * Q e := Nat.mul_pos (Nat.mul_pos hden0 (P_pos rs)) (Q_pos e)
  have h1 : M * 2 ^ d * (den0 * P rs * Q e) = num0 * Q rs * Q e := by grind
  have h2 : num0 * Q rs * Q e < 2 ^ 53 * (den0 * P rs * Q e) := by
    have := Nat.mul_lt_mul_of_pos_right Hhi (Q_pos e)
    calc num0 * Q rs * Q e < den0 * P rs * 2 ^ 53 * Q e := this
      _ = 2 ^ 53 * (den0 * P rs * Q e) := by grind
  rw [← h1] at h2
  have h3 : M * 2 ^ d < 2 ^ 53 := Nat.lt_of_mul_lt_mul_right h2
  have h4 : M ≤ M * 2 ^ d := Nat.le_mul_of_pos_right M (Nat.two_pow_pos d)
  omega

/-- everything after the scaling step -/
theorem after_scale (num0 den0 num1 den1 : Nat) (e1 rs : Int) (hnum0 : 0 < num0) (hden0 : 0 < den0) (hden1 : 0 < den1)
    (hrep : Rep num0 den0 num1 den1 e1) (hge : rs ≤ e1) (hor : e1 = rs ∨ num1 % den1 = 0)
    (Hlo : den0 * P rs * 2 ^ 51 ≤ num0 * Q rs) (Hhi : num0 * Q rs < den0 * P rs * 2 ^ 53) :
    ∃ p : Nat × Int, IsRne num0 den0 p ∧
      (InNormalRange p → finish (mantLoop 64 num1 den1 e1).1 den1 (mantLoop 64 num1 den1 e1).2 = .fin false p.1 p.2) := by
  by_cases hmod : num1 % den1 = 0
  · -- no fractional digits: the loop is left at once
    have hml : mantLoop 64 num1 den1 e1 = (num1, e1) := by
      rw [show (64 : Nat) = 63 + 1 from rfl, mantLoop]
      simp [hmod]
    rw [hml]
    have hnum : num1 = num1 / den1 * den1 := by
      have := Nat.div_add_mod num1 den1
      rw [hmod, Nat.add_zero, Nat.mul_comm] at this
      exact this.symm
    have R1 : num1 / den1 * den0 * P e1 = num0 * Q e1 := by
      unfold Rep at hrep
      apply Nat.eq_of_mul_eq_mul_right hden1
      calc num1 / den1 * den0 * P e1 * den1 = (num1 / den1 * den1) * (den0 * P e1) := by grind
        _ = num1 * (den0 * P e1) := by rw [← hnum]
        _ = num0 * Q e1 * den1 := hrep
    exact finish_exact num0 den0 num1 den1 e1 hnum0 hden0 hden1 hrep hmod (exact_lt num0 den0 _ e1 rs hden0 hge R1 Hhi)
  · have he : e1 = rs := by
      rcases hor with h | h
      · exact h
      · exact absurd h hmod
    subst he
    have b1 : den1 * 2 ^ 51 ≤ num1 := (rep_le _ _ _ _ _ _ hden0 hden1 hrep).mp Hlo
    have b2 : num1 < den1 * 2 ^ 53 := (rep_lt _ _ _ _ _ _ hden0 hden1 hrep).mp Hhi
    rcases mantLoop_spec 62 num1 den1 e1 hden1 b1 b2 with ⟨hc, hml⟩ | ⟨hc, hml, c1, c2⟩
    · rw [show (64 : Nat) = 62 + 2 from rfl, hml]
      have hq : 2 ^ 52 ≤ num1 / den1 := by
        rcases hc with h | h
        · exact h
        · exact absurd h hmod
      have c1 : den1 * 2 ^ 52 ≤ num1 := by
        have := (Nat.le_div_iff_mul_le hden1).mp hq
        rw [Nat.mul_comm]; exact this
      exact finish_rne num0 den0 num1 den1 e1 hden0 hden1 hrep c1 b2
    · rw [show (64 : Nat) = 62 + 2 from rfl, hml]
      exact finish_rne num0 den0 (num1 * 2) den1 (e1 - 1) hden0 hden1 (rep_double _ _ _ _ _ hrep) c1 c2


/-! ### the scaling step and the core theorem -/

/-- the three-way scaling step of `toDoubleCore` -/
def scaleStep (num0 den0 : Nat) (rs : Int) : Nat × Nat × Int :=
  if 0 < rs then (num0, den0 * pow2 rs.toNat, rs)
  else if rs < 0 then ((shlLoop 64 num0 den0 0 rs).1, den0, (shlLoop 64 num0 den0 0 rs).2)
  else (num0, den0, 0)

theorem toDoubleCore_eq (num0 den0 un ud : Nat) :
    toDoubleCore num0 den0 un ud =
      finish (mantLoop 64 (scaleStep num0 den0 (1 + flog2Rat un ud - (DBL_MANT_DIG : Nat))).1
                (scaleStep num0 den0 (1 + flog2Rat un ud - (DBL_MANT_DIG : Nat))).2.1
                (scaleStep num0 den0 (1 + flog2Rat un ud - (DBL_MANT_DIG : Nat))).2.2).1
             (scaleStep num0 den0 (1 + flog2Rat un ud - (DBL_MANT_DIG : Nat))).2.1
             (mantLoop 64 (scaleStep num0 den0 (1 + flog2Rat un ud - (DBL_MANT_DIG : Nat))).1
                (scaleStep num0 den0 (1 + flog2Rat un ud - (DBL_MANT_DIG : Nat))).2.1
                (scaleStep num0 den0 (1 + flog2Rat un ud - (DBL_MANT_DIG : Nat))).2.2).2 := rfl

theorem scaleStep_spec (num0 den0 : Nat) (rs : Int) (hden0 : 0 < den0) (hlow : -1792 ≤ rs) :
    ∃ num1 den1 e1, scaleStep num0 den0 rs = (num1, den1, e1) ∧ 0 < den1 ∧ Rep num0 den0 num1 den1 e1 ∧ rs ≤ e1 ∧
      (e1 = rs ∨ num1 % den1 = 0) := by
  unfold scaleStep
  by_cases h1 : 0 < rs
  · rw [if_pos h1]
    refine ⟨num0, den0 * pow2 rs.toNat, rs, rfl, Nat.mul_pos hden0 (Nat.two_pow_pos _), ?_, Int.le_refl _, Or.inl rfl⟩
    unfold Rep
    rw [P_nonneg_Q rs (by omega)]
    unfold P pow2
    grind
  · rw [if_neg h1]
    by_cases h2 : rs < 0
    · rw [if_pos h2]
      obtain ⟨j, hj1, hj2, hj3⟩ := shlLoop_spec den0 rs 64 num0 0 (by omega) (by omega)
      rw [hj1]
      refine ⟨num0 * 2 ^ j, den0, 0 - (j : Int), rfl, hden0, ?_, hj2, hj3⟩
      unfold Rep
      rw [Q_nonpos_P (0 - (j : Int)) (by omega)]
      have : Q (0 - (j : Int)) = 2 ^ j := by unfold Q; simp
      rw [this]
      grind
    · rw [if_neg h2]
      have h0 : rs = 0 := by omega
      subst h0
      refine ⟨num0, den0, 0, rfl, hden0, ?_, Int.le_refl _, Or.inl rfl⟩
      unfold Rep
      have p0 : P 0 = 1 := by decide
      have q0 : Q 0 = 1 := by decide
      rw [p0, q0]
      grind

/-- **Core.**  If the estimate `rs = right_shift_max` puts the value into `[2^51, 2^53)·2^rs` (which is what the
    leading-digit estimate guarantees, see `rsMax_bounds`), `toDoubleCore` returns the IEEE round-to-nearest-even
    double of `num0/den0` whenever that is a normal number. -/
theorem toDoubleCore_rne (num0 den0 un ud : Nat) (hnum0 : 0 < num0) (hden0 : 0 < den0)
    (hlow : -1792 ≤ 1 + flog2Rat un ud - ((DBL_MANT_DIG : Nat) : Int))
    (Hlo : den0 * P (1 + flog2Rat un ud - ((DBL_MANT_DIG : Nat) : Int)) * 2 ^ 51 ≤ num0 * Q (1 + flog2Rat un ud - ((DBL_MANT_DIG : Nat) : Int)))
    (Hhi : num0 * Q (1 + flog2Rat un ud - ((DBL_MANT_DIG : Nat) : Int)) < den0 * P (1 + flog2Rat un ud - ((DBL_MANT_DIG : Nat) : Int)) * 2 ^ 53) :
    ∃ p : Nat × Int, IsRne num0 den0 p ∧ (InNormalRange p → toDoubleCore num0 den0 un ud = .fin false p.1 p.2) := by
  rw [toDoubleCore_eq]
  generalize 1 + flog2Rat un ud - ((DBL_MANT_DIG : Nat) : Int) = rs at *
  obtain ⟨num1, den1, e1, hs, hden1, hrep, hge, hor⟩ := scaleStep_spec num0 den0 rs hden0 hlow
  rw [hs]
  exact after_scale num0 den0 num1 den1 e1 rs hnum0 hden0 hden1 hrep hge hor Hlo Hhi

end CifModel.Lemmas.NumbToDouble
