import CifModel.Lemmas.LexerBasic
/-
  Lemmas/LexerValue — the scan functions on admissible presentations: one induction per scan function.
-/
namespace CifModel.Model.Lexer
open CifModel CifModel.Model.Chars CifModel.Spec.Lexical

/-- number of characters (columns) of a well-formed unit string: trail surrogates complete a character -/
def colAdd (s : Str) : Nat := (s.filter (fun c => !isTrailU c)).length

@[simp] theorem colAdd_nil : colAdd [] = 0 := rfl
theorem colAdd_cons (c : Nat) (s : Str) : colAdd (c :: s) = (if isTrailU c then 0 else 1) + colAdd s := by
  by_cases h : isTrailU c <;> simp [colAdd, h] <;> omega

def nextPend (c : Nat) : Option CU := if isLeadU c then some c else none

/-- the scanner's lead-surrogate flag and buffer agree with the pending state of the specification -/
def pendOk (dia : Dialect) (pend : Option CU) (acc : Str) : Prop :=
  match pend with
  | none => True
  | some l => dia = .cif2 ∧ isLeadU l = true ∧ acc.headD 0 = l

/-- what the scan functions test about a unit of an admissible string -/
def unitFacts (dia : Dialect) (c : Nat) : Bool :=
  ((classOf dia c == .eol) == (c == 10)) && ((classOf dia c == .ws) == isBlank c) && ((metaOf dia c == .ws) == isWs c)
  && (classOf dia c != .no)
  && ((classOf dia c == .semi) == (c == 59))
  && ((metaOf dia c == .open_) == (dia == .cif2 && (c == 91 || c == 123)))
  && ((metaOf dia c == .close) == (dia == .cif2 && (c == 93 || c == 125)))
  && (metaOf dia c != .no)
  && ((classOf dia c == .hash) == (c == 35))
  && ((classOf dia c == .undersc) == (c == 95))
  && ((classOf dia c == .quote) == (c == 34 || c == 39))

structure UF (dia : Dialect) (c : Nat) : Prop where
  eol : classOf dia c = .eol ↔ c = 10
  ws : classOf dia c = .ws ↔ isBlank c = true
  mws : metaOf dia c = .ws ↔ isWs c = true
  nno : classOf dia c ≠ .no
  semi : classOf dia c = .semi ↔ c = 59
  mopen : metaOf dia c = .open_ ↔ (dia = .cif2 ∧ (c = 91 ∨ c = 123))
  mclose : metaOf dia c = .close ↔ (dia = .cif2 ∧ (c = 93 ∨ c = 125))
  mno : metaOf dia c ≠ .no
  hash : classOf dia c = .hash ↔ c = 35
  undersc : classOf dia c = .undersc ↔ c = 95
  quote : classOf dia c = .quote ↔ (c = 34 ∨ c = 39)
theorem beq_eq_beq_iff {α β} [BEq α] [LawfulBEq α] [BEq β] [LawfulBEq β] {a b : α} {x y : β} (h : (a == b) = (x == y)) : a = b ↔ x = y := by
  constructor
  · intro e; have : (a == b) = true := by simp [e]
    rw [h] at this; simpa using this
  · intro e; have : (x == y) = true := by simp [e]
    rw [← h] at this; simpa using this
theorem beq_eq_bool_iff {α} [BEq α] [LawfulBEq α] {a b : α} {x : Bool} (h : (a == b) = x) : a = b ↔ x = true := by
  subst h; simp
theorem UF.of {dia : Dialect} {c : Nat} (h : unitFacts dia c = true) : UF dia c := by
  simp only [unitFacts, Bool.and_eq_true, bne_iff_ne, ne_eq, beq_iff_eq] at h
  obtain ⟨⟨⟨⟨⟨⟨⟨⟨⟨⟨g1, g2⟩, g3⟩, g4⟩, g5⟩, g6⟩, g7⟩, g8⟩, g9⟩, g10⟩, g11⟩ := h
  refine ⟨beq_eq_beq_iff g1, beq_eq_bool_iff g2, beq_eq_bool_iff g3, g4, beq_eq_beq_iff g5, ?_, ?_, g8,
    beq_eq_beq_iff g9, beq_eq_beq_iff g10, ?_⟩
  · rw [beq_eq_bool_iff g6]; simp
  · rw [beq_eq_bool_iff g7]; simp
  · rw [beq_eq_bool_iff g11]; simp

theorem unitFacts_surrogate (c : Nat) (h : 0xD800 ≤ c ∧ c ≤ 0xDFFF) : unitFacts .cif2 c = true := by
  have hc : ¬ c < 160 := by omega
  have hcls : classOf .cif2 c = .general := by simp [classOf, hc]
  have h4 : isWs c = false := by simp [isWs, isBlank, isEol]; omega_cu
  have h5 : isBlank c = false := by simp [isBlank]; omega_cu
  have h6 : (c == 10) = false := by simp; omega_cu
  have h7 : (c == 59) = false := by simp; omega_cu
  have h8 : (c == 91) = false ∧ (c == 123) = false ∧ (c == 93) = false ∧ (c == 125) = false := by
    refine ⟨?_, ?_, ?_, ?_⟩ <;> simp <;> omega_cu
  have h9 : (c == 35) = false ∧ (c == 95) = false ∧ (c == 34) = false ∧ (c == 39) = false := by
    refine ⟨?_, ?_, ?_, ?_⟩ <;> simp <;> omega_cu
  simp [unitFacts, hcls, metaOf, metaOfCls, h4, h5, h6, h7, h8, h9]

/-- one SCAN_UCHAR step inside an admissible string -/
theorem ok_step (dia : Dialect) (pend : Option CU) (c : Nat) (r acc : Str)
    (h : okUnits dia pend (c :: r) = true) (hp : pendOk dia pend acc) (line col : Nat) (pol : Policy) (log : List Report) :
    scanUChar dia line col (acc.headD 0) c pend.isSome pol log
        = .ok ⟨c, false, col + (if isTrailU c then 0 else 1), isLeadU c⟩ log
    ∧ okUnits dia (nextPend c) r = true ∧ pendOk dia (nextPend c) (c :: acc) ∧ UF dia c
    ∧ (allowedBmp dia c = true ∨ (0xD800 ≤ c ∧ c ≤ 0xDFFF)) := by
  cases pend with
  | none =>
    by_cases hl : isLeadU c = true
    · simp only [okUnits, hl, if_true, Bool.and_eq_true, beq_iff_eq] at h
      obtain ⟨hd, hr⟩ := h
      subst hd
      have ht : isTrailU c = false := by simp [isLeadU] at hl; simp [isTrailU]; omega_cu
      have hsur : 0xD800 ≤ c ∧ c ≤ 0xDFFF := by simp [isLeadU] at hl; omega_cu
      refine ⟨?_, ?_, ?_, UF.of (unitFacts_surrogate c hsur), Or.inr hsur⟩
      · simp [scanUChar_lead c hl, ht, hl]
      · simpa [nextPend, hl] using hr
      · simp [nextPend, hl, pendOk]
    · have hl' : isLeadU c = false := by simpa using hl
      simp only [okUnits, hl', Bool.false_eq_true, if_false, Bool.and_eq_true, Bool.not_eq_true'] at h
      obtain ⟨⟨ht, ha⟩, hr⟩ := h
      have f := bmpFacts_of_allowed dia c ha
      refine ⟨?_, ?_, ?_, ?_, Or.inl ha⟩
      · simp [scanUChar_bmp dia c ha, ht, hl']
      · simpa [nextPend, hl'] using hr
      · simp [nextPend, hl', pendOk]
      · apply UF.of
        simp only [bmpFacts, Bool.and_eq_true] at f
        simp only [unitFacts, Bool.and_eq_true]
        obtain ⟨⟨⟨⟨⟨⟨⟨⟨⟨⟨⟨_, g1⟩, g2⟩, g3⟩, g4⟩, g5⟩, g6⟩, g7⟩, g8⟩, g9⟩, g10⟩, g11⟩ := f
        exact ⟨⟨⟨⟨⟨⟨⟨⟨⟨⟨g1, g2⟩, g3⟩, g4⟩, g5⟩, g6⟩, g7⟩, g8⟩, g9⟩, g10⟩, g11⟩
  | some l =>
    simp only [okUnits, Bool.and_eq_true, Bool.not_eq_true'] at h
    obtain ⟨⟨ht, hn⟩, hr⟩ := h
    obtain ⟨hcif2, hll, hacc⟩ := hp
    subst hcif2
    have hl' : isLeadU c = false := by simp [isTrailU] at ht; simp [isLeadU]; omega_cu
    have hsur : 0xD800 ≤ c ∧ c ≤ 0xDFFF := by simp [isTrailU] at ht; omega_cu
    refine ⟨?_, ?_, ?_, UF.of (unitFacts_surrogate c hsur), Or.inr hsur⟩
    · show scanUChar .cif2 line col (acc.headD 0) c true pol log = _
      rw [hacc, scanUChar_trail l c hll ht hn]
      simp [ht, hl']
    · simpa [nextPend, hl'] using hr
    · simp [nextPend, hl', pendOk]


@[simp] theorem fixAcc_false (dia : Dialect) (acc : Str) : fixAcc dia false acc = acc := rfl

theorem isSome_nextPend (c : Nat) : (nextPend c).isSome = isLeadU c := by
  by_cases h : isLeadU c <;> simp [nextPend, h]

theorem pendOk_none (dia : Dialect) (acc : Str) : pendOk dia none acc := trivial

/-- `'…'` / `"…"` in CIF 2.0 -/
theorem scanDelim_cif2 (q : Nat) (hq : q = 34 ∨ q = 39) (ctx : Str) (line : Nat) (pol : Policy) (log : List Report) :
    ∀ (s : Str) (pend : Option CU) (acc : Str) (col : Nat) (first : Bool),
      okUnits .cif2 pend s = true → pendOk .cif2 pend acc → s.all (fun x => !isEol x) = true → s.all (fun x => x != q) = true →
      (first = true → s = [] → ctx.head? ≠ some q) →
      scanDelim .cif2 q (s ++ q :: ctx) line col pend.isSome acc first pol log
        = .ok ⟨s.reverse ++ acc, ⟨ctx, line, col + colAdd s + 1⟩⟩ log := by
  intro s
  induction s with
  | nil =>
    intro pend acc col first hok hp _ _ hfirst
    cases pend with
    | some l => simp [okUnits] at hok
    | none =>
      have hqa : allowedBmp .cif2 q = true := by rcases hq with h | h <;> subst h <;> decide
      simp only [List.nil_append, scanDelim, Option.isSome_none, bind_eq, pure_eq]
      rw [L.bind_ok (scanUChar_bmp .cif2 q hqa line col _ pol log)]
      cases ctx with
      | nil => simp
      | cons d r' =>
        have : (first && d == q) = false := by
          cases first with
          | false => rfl
          | true =>
            have := hfirst rfl rfl
            simp at this
            simp [this]
        simp [this]
  | cons c s ih =>
    intro pend acc col first hok hp heol hnq hfirst
    obtain ⟨hstep, hok', hp', hf, _⟩ := ok_step .cif2 pend c s acc hok hp line col pol log
    simp only [List.all_cons, Bool.and_eq_true] at heol hnq
    simp only [List.cons_append, scanDelim, bind_eq, pure_eq]
    rw [L.bind_ok hstep]
    have hcq : ¬ c = q := by simpa using hnq.1
    have hceol : ¬ classOf .cif2 c = .eol := by
      rw [hf.eol]; simpa [isEol] using heol.1
    simp only [fixAcc_false, hcq, if_false, hceol]
    have := ih (nextPend c) (c :: acc) (col + (if isTrailU c then 0 else 1)) false hok' hp' heol.2 hnq.2 (by simp)
    rw [isSome_nextPend] at this
    rw [this, colAdd_cons]
    simp [Nat.add_comm, Nat.add_left_comm]


/-! ### facts about the few ASCII characters the scanner dispatches on -/

theorem ws_char_facts (dia : Dialect) (d : Nat) (h : isWs d = true) :
    allowedBmp dia d = true ∧ metaOf dia d = .ws ∧ d ≠ eofChar := by
  simp [isWs, isBlank, isEol] at h
  rcases h with (h | h) | h <;> subst h <;> cases dia <;> decide

theorem okUnits_head_facts (dia : Dialect) (d : Nat) (r : Str) (h : okUnits dia none (d :: r) = true) :
    UF dia d := by
  obtain ⟨_, _, _, hf, _⟩ := ok_step dia none d r [] h trivial 0 0 acceptAll []
  exact hf

/-- quoted strings in CIF 1.1: the delimiter may occur inside unless followed by a blank; the closing one is followed by
    whitespace or the end of the input -/
theorem scanDelim_cif1 (q : Nat) (hq : q = 34 ∨ q = 39) (ctx : Str) (hctx : ctx = [] ∨ ∃ d r, ctx = d :: r ∧ isWs d = true)
    (line : Nat) (pol : Policy) (log : List Report) :
    ∀ (s : Str) (acc : Str) (col : Nat) (first : Bool),
      okUnits .cif1 none s = true → s.all (fun x => !isEol x) = true → noQuoteBlank q s = true →
      scanDelim .cif1 q (s ++ q :: ctx) line col false acc first pol log
        = .ok ⟨s.reverse ++ acc, ⟨ctx, line, col + colAdd s + 1⟩⟩ log := by
  have hqa : allowedBmp .cif1 q = true := by rcases hq with h | h <;> subst h <;> decide
  have hqm : metaOf .cif1 q ≠ .ws := by rcases hq with h | h <;> subst h <;> decide
  intro s
  induction s with
  | nil =>
    intro acc col first _ _ _
    simp only [List.nil_append, scanDelim, bind_eq, pure_eq]
    rw [L.bind_ok (scanUChar_bmp .cif1 q hqa line col _ pol log)]
    rcases hctx with h | ⟨d, r, h, hd⟩
    · subst h; simp
    · subst h
      have := (ws_char_facts .cif1 d hd).2.1
      simp [this]
  | cons c s ih =>
    intro acc col first hok heol hnq
    obtain ⟨hstep, hok', hp', hf, _⟩ := ok_step .cif1 none c s acc hok trivial line col pol log
    have hnl : isLeadU c = false := by
      cases hl : isLeadU c with
      | false => rfl
      | true => simp [okUnits, hl] at hok
    have hnp : nextPend c = none := by simp [nextPend, hnl]
    rw [hnp] at hok'
    simp only [List.all_cons, Bool.and_eq_true] at heol
    simp only [noQuoteBlank, Bool.and_eq_true, Bool.not_eq_true'] at hnq
    simp only [List.cons_append, scanDelim, bind_eq, pure_eq]
    rw [Option.isSome_none] at hstep
    rw [L.bind_ok hstep]
    have hceol : ¬ classOf .cif1 c = .eol := by
      rw [hf.eol]; simpa [isEol] using heol.1
    have hrec := ih (c :: acc) (col + (if isTrailU c then 0 else 1)) false hok' heol.2 hnq.2
    simp only [fixAcc_false, hnl]
    have hfin : scanDelim .cif1 q (s ++ q :: ctx) line (col + (if isTrailU c then 0 else 1)) false (c :: acc) false pol log
        = .ok ⟨(c :: s).reverse ++ acc, ⟨ctx, line, col + colAdd (c :: s) + 1⟩⟩ log := by
      rw [hrec, colAdd_cons]; simp [Nat.add_comm, Nat.add_left_comm]
    by_cases hcq : c = q
    · -- an embedded delimiter: the next unit is not whitespace
      subst hcq
      simp only [if_true]
      cases s with
      | nil =>
        simp only [List.nil_append]
        simp only [hqm, ne_eq, not_false_eq_true, if_true]
        exact hfin
      | cons d s' =>
        have hd : UF .cif1 d := okUnits_head_facts .cif1 d s' hok'
        have hdw : ¬ metaOf .cif1 d = .ws := by
          rw [hd.mws]
          have h1 : isBlank d = false := by simpa using hnq.1
          have h2 : isEol d = false := by
            have := heol.2
            simp only [List.all_cons, Bool.and_eq_true, Bool.not_eq_true'] at this
            exact this.1
          simp [isWs, h1, h2]
        simp only [List.cons_append, hdw, ne_eq, not_false_eq_true, if_true]
        exact hfin
    · simp only [hcq, if_false, hceol]
      exact hfin

/-- HANDLE_EOL on LF in a line that fits, with no CR before it -/
theorem handleEol_lf (line col sol : Nat) (hcol : col ≤ 2048) (hsol : sol % 4 ≠ 2) (pol : Policy) (log : List Report) :
    handleEol line col sol 10 pol log = .ok (line + 1, 0, (sol * 4 + 1) % 16) log := by
  have h1 : ¬ col > lineLength := by simp [lineLength]; omega
  have h2 : ¬ (sol * 4 + 1) % 16 = 9 := by omega
  simp [handleEol, h1, h2]

/-- one delimiter character inside / at the end of a triple-quoted string -/
theorem scanTriple_delim_step (q : Nat) (hq : q = 34 ∨ q = 39) (r acc : Str) (line col cnt sol : Nat) (pol : Policy)
    (log : List Report) :
    scanTriple .cif2 q (q :: r) line col false acc cnt sol pol log
      = if cnt + 1 ≥ 3 then .ok ⟨(q :: acc).drop 3, ⟨r, line, col + 1⟩⟩ log
        else scanTriple .cif2 q r line (col + 1) false (q :: acc) (cnt + 1) sol pol log := by
  have hqa : allowedBmp .cif2 q = true := by rcases hq with h | h <;> subst h <;> decide
  simp only [scanTriple, bind_eq, pure_eq]
  rw [L.bind_ok (scanUChar_bmp .cif2 q hqa line col _ pol log)]
  by_cases h : cnt + 1 ≥ 3 <;> simp [h]

/-- triple-quoted strings -/
theorem scanTriple_ok (q : Nat) (hq : q = 34 ∨ q = 39) (ctx : Str) (pol : Policy) (log : List Report) :
    ∀ (s : Str) (pend : Option CU) (acc : Str) (line col cnt sol : Nat),
      okUnits .cif2 pend s = true → pendOk .cif2 pend acc → tripleBody q cnt s = true → sol % 4 ≠ 2 → linesFit col s = true →
      scanTriple .cif2 q (s ++ q :: q :: q :: ctx) line col pend.isSome acc cnt sol pol log
        = .ok ⟨s.reverse ++ acc, ⟨ctx, (posAfter line col s).1, (posAfter line col s).2 + 3⟩⟩ log := by
  have hqa : allowedBmp .cif2 q = true := by rcases hq with h | h <;> subst h <;> decide
  intro s
  induction s with
  | nil =>
    intro pend acc line col cnt sol hok hp hbody _ _
    cases pend with
    | some l => simp [okUnits] at hok
    | none =>
      have hcnt : cnt = 0 := by simpa [tripleBody] using hbody
      subst hcnt
      simp only [List.nil_append, Option.isSome_none]
      rw [scanTriple_delim_step q hq, if_neg (by omega), scanTriple_delim_step q hq, if_neg (by omega),
        scanTriple_delim_step q hq, if_pos (by omega)]
      simp [posAfter]
  | cons c s ih =>
    intro pend acc line col cnt sol hok hp hbody hsol hfit
    obtain ⟨hstep, hok', hp', hf, _⟩ := ok_step .cif2 pend c s acc hok hp line col pol log
    simp only [List.cons_append, scanTriple, bind_eq, pure_eq]
    rw [L.bind_ok hstep]
    simp only [fixAcc_false]
    by_cases hcq : c = q
    · subst hcq
      have hc10 : ¬ c = 10 := by rcases hq with h | h <;> omega_cu
      simp only [tripleBody, if_true, Bool.and_eq_true, decide_eq_true_eq] at hbody
      have hge : ¬ cnt + 1 ≥ 3 := by omega
      simp only [linesFit, hc10, if_false] at hfit
      have := ih (nextPend c) (c :: acc) line (col + (if isTrailU c then 0 else 1)) (cnt + 1) sol hok' hp' hbody.2 hsol hfit
      rw [isSome_nextPend] at this
      simp only [if_true, hge, if_false]
      rw [this]
      simp [posAfter, hc10]
    · simp only [tripleBody, hcq, if_false] at hbody
      simp only [hcq, if_false]
      by_cases h10 : c = 10
      · subst h10
        have heol : classOf .cif2 10 = .eol := by decide
        simp only [linesFit, if_true, Bool.and_eq_true, decide_eq_true_eq] at hfit
        have ht : isTrailU 10 = false := by decide
        simp only [heol, if_true, ht, Bool.false_eq_true, if_false, Nat.add_sub_cancel]
        rw [L.bind_ok (handleEol_lf line col sol hfit.1 hsol pol log)]
        have hl : isLeadU 10 = false := by decide
        have := ih none (10 :: acc) (line + 1) 0 0 ((sol * 4 + 1) % 16) (by simpa [nextPend, hl] using hok') trivial hbody (by omega) hfit.2
        simp only [Option.isSome_none] at this
        simp only [hl]
        rw [this]
        simp [posAfter]
      · have hne : ¬ classOf .cif2 c = .eol := by rw [hf.eol]; exact h10
        simp only [linesFit, h10, if_false] at hfit
        have := ih (nextPend c) (c :: acc) line (col + (if isTrailU c then 0 else 1)) 0 0 hok' hp' hbody (by omega) hfit
        rw [isSome_nextPend] at this
        simp only [hne, if_false]
        rw [this]
        simp [posAfter, h10]


/-- text fields: body, then LF `;` -/
theorem scanText_ok (dia : Dialect) (ctx : Str) (pol : Policy) (log : List Report) :
    ∀ (s : Str) (pend : Option CU) (acc : Str) (line col sol : Nat),
      okUnits dia pend s = true → pendOk dia pend acc → textBody (decide (sol ≠ 0)) s = true → sol % 4 ≠ 2 →
      linesFit col (s ++ [10]) = true → acc.head? ≠ some 13 →
      scanText dia (s ++ 10 :: 59 :: ctx) line col pend.isSome acc sol pol log
        = .ok ⟨s.reverse ++ acc, ⟨ctx, (posAfter line col s).1 + 1, 1⟩⟩ log := by
  have hlf : allowedBmp dia 10 = true := by cases dia <;> decide
  have hsc : allowedBmp dia 59 = true := by cases dia <;> decide
  have hlfc : classOf dia 10 = .eol := by cases dia <;> decide
  have hscc : classOf dia 59 = .semi := by cases dia <;> decide
  intro s
  induction s with
  | nil =>
    intro pend acc line col sol hok hp _ hsol hfit hacc
    cases pend with
    | some l => simp [okUnits] at hok
    | none =>
      simp only [List.nil_append, linesFit, if_true, Bool.and_eq_true, decide_eq_true_eq] at hfit
      simp only [List.nil_append, scanText, Option.isSome_none, bind_eq, pure_eq]
      rw [L.bind_ok (scanUChar_bmp dia 10 hlf line col _ pol log)]
      have h1 : ¬ (Cls.eol = Cls.semi) := by decide
      simp only [fixAcc_false, hlfc, h1, if_false, if_true, Nat.add_sub_cancel]
      rw [L.bind_ok (handleEol_lf line col sol hfit.1 hsol pol log)]
      rw [L.bind_ok (scanUChar_bmp dia 59 hsc (line + 1) 0 _ pol log)]
      have h2 : (sol * 4 + 1) % 16 ≠ 0 := by omega
      simp only [fixAcc_false, hscc, if_true, h2, ne_eq, not_false_eq_true]
      have h13 : ¬ (acc[0]?.getD 0 = 13) := by
        cases acc with
        | nil => simp
        | cons a t => simpa using hacc
      simp [h13, posAfter]
  | cons c s ih =>
    intro pend acc line col sol hok hp hbody hsol hfit hacc
    obtain ⟨hstep, hok', hp', hf, hch⟩ := ok_step dia pend c s acc hok hp line col pol log
    have hc13 : c ≠ 13 := by
      rcases hch with h | h
      · intro e; subst e; cases dia <;> simp [allowedBmp] at h
      · omega_cu
    simp only [List.cons_append, scanText, bind_eq, pure_eq]
    rw [L.bind_ok hstep]
    simp only [fixAcc_false]
    simp only [textBody, Bool.and_eq_true, Bool.not_eq_true', Bool.and_eq_false_iff, decide_eq_false_iff_not, ne_eq,
      Decidable.not_not, beq_eq_false_iff_ne] at hbody
    have hacc' : (c :: acc).head? ≠ some 13 := by simp [hc13]
    by_cases h59 : c = 59
    · subst h59
      have hsol0 : sol = 0 := by
        rcases hbody.1 with h | h
        · exact h
        · exact absurd rfl h
      subst hsol0
      have h10 : ¬ (59 : Nat) = 10 := by decide
      simp only [List.cons_append, linesFit, h10, if_false] at hfit
      have hb : textBody (decide ((0 : Nat) ≠ 0)) s = true := by simpa [isEol] using hbody.2
      have := ih (nextPend 59) (59 :: acc) line (col + (if isTrailU 59 then 0 else 1)) 0 hok' hp' hb hsol hfit hacc'
      rw [isSome_nextPend] at this
      simp only [hscc, if_true, ne_eq, not_true_eq_false, if_false]
      rw [this]
      simp [posAfter]
    · have hnsemi : ¬ classOf dia c = .semi := by rw [hf.semi]; exact h59
      simp only [hnsemi, if_false]
      by_cases h10 : c = 10
      · subst h10
        simp only [List.cons_append, linesFit, if_true, Bool.and_eq_true, decide_eq_true_eq] at hfit
        have ht : isTrailU 10 = false := by decide
        have hl : isLeadU 10 = false := by decide
        simp only [hlfc, if_true, ht, Bool.false_eq_true, if_false, Nat.add_sub_cancel]
        rw [L.bind_ok (handleEol_lf line col sol hfit.1 hsol pol log)]
        have hb : textBody (decide ((sol * 4 + 1) % 16 ≠ 0)) s = true := by
          have : (sol * 4 + 1) % 16 ≠ 0 := by omega
          simpa [isEol, this] using hbody.2
        have := ih none (10 :: acc) (line + 1) 0 ((sol * 4 + 1) % 16) (by simpa [nextPend, hl] using hok') trivial hb (by omega) hfit.2 hacc'
        simp only [Option.isSome_none] at this
        simp only [hl]
        rw [this]
        simp [posAfter]
      · have hne : ¬ classOf dia c = .eol := by rw [hf.eol]; exact h10
        simp only [List.cons_append, linesFit, h10, if_false] at hfit
        have hb : textBody (decide ((0 : Nat) ≠ 0)) s = true := by
          have : isEol c = false := by simp [isEol, h10]
          simpa [this] using hbody.2
        have := ih (nextPend c) (c :: acc) line (col + (if isTrailU c then 0 else 1)) 0 hok' hp' hb (by omega) hfit hacc'
        rw [isSome_nextPend] at this
        simp only [hne, if_false]
        rw [this]
        simp [posAfter, h10]

/-- whitespace-delimited strings: no whitespace, (CIF 2.0) no brackets, followed by whitespace or the end of input -/
theorem scanUnquoted_ok (dia : Dialect) (ctx : Str) (hctx : ctx = [] ∨ ∃ d r, ctx = d :: r ∧ isWs d = true)
    (line : Nat) (pol : Policy) (log : List Report) :
    ∀ (s : Str) (pend : Option CU) (acc : Str) (col k : Nat) (kd ks : Bool),
      okUnits dia pend s = true → pendOk dia pend acc → s.all (fun x => !isWs x) = true →
      (dia = .cif2 → s.all (fun x => !(x == 91 || x == 93 || x == 123 || x == 125)) = true) →
      scanUnquoted dia (s ++ ctx) line col pend.isSome acc k kd ks pol log
        = .ok ⟨s.reverse ++ acc, ⟨ctx, line, col + colAdd s⟩⟩ log := by
  intro s
  induction s with
  | nil =>
    intro pend acc col k kd ks hok _ _ _
    cases pend with
    | some l => simp [okUnits] at hok
    | none =>
      rcases hctx with h | ⟨d, r, h, hd⟩
      · subst h
        simp [scanUnquoted, leadAtEof]
      · subst h
        obtain ⟨ha, hm, he⟩ := ws_char_facts dia d hd
        simp only [List.nil_append, scanUnquoted, Option.isSome_none, bind_eq, pure_eq]
        rw [L.bind_ok (scanUChar_bmp dia d ha line col _ pol log)]
        have hm' : metaOfCls (classOf dia d) = .ws := hm
        simp [hm', he]
  | cons c s ih =>
    intro pend acc col k kd ks hok hp hnws hnbr
    obtain ⟨hstep, hok', hp', hf, _⟩ := ok_step dia pend c s acc hok hp line col pol log
    simp only [List.all_cons, Bool.and_eq_true, Bool.not_eq_true'] at hnws
    simp only [List.cons_append, scanUnquoted, bind_eq, pure_eq]
    rw [L.bind_ok hstep]
    simp only [fixAcc_false]
    have hmeta : metaOfCls (classOf dia c) = .general := by
      have h1 : ¬ metaOf dia c = .ws := by rw [hf.mws]; simp [hnws.1]
      have h2 : ¬ metaOf dia c = .no := hf.mno
      have h3 : ¬ metaOf dia c = .open_ := by
        rw [hf.mopen]
        rintro ⟨hd, hc⟩
        have := hnbr hd
        simp only [List.all_cons, Bool.and_eq_true, Bool.not_eq_true', Bool.or_eq_false_iff, beq_eq_false_iff_ne] at this
        rcases hc with hc | hc
        · exact this.1.1.1.1 hc
        · exact this.1.1.2 hc
      have h4 : ¬ metaOf dia c = .close := by
        rw [hf.mclose]
        rintro ⟨hd, hc⟩
        have := hnbr hd
        simp only [List.all_cons, Bool.and_eq_true, Bool.not_eq_true', Bool.or_eq_false_iff, beq_eq_false_iff_ne] at this
        rcases hc with hc | hc
        · exact this.1.1.1.2 hc
        · exact this.1.2 hc
      simp only [metaOf] at h1 h2 h3 h4
      cases hm : metaOfCls (classOf dia c) <;> simp_all
    have hnbr' : dia = .cif2 → s.all (fun x => !(x == 91 || x == 93 || x == 123 || x == 125)) = true := by
      intro hd
      have := hnbr hd
      simp only [List.all_cons, Bool.and_eq_true] at this
      exact this.2
    simp only [hmeta]
    have := ih (nextPend c) (c :: acc) (col + (if isTrailU c then 0 else 1)) (k + 1)
      (if k < 5 then kd && (classOf dia c == dataCls k) else kd) (if k < 5 then ks && (classOf dia c == saveCls k) else ks)
      hok' hp' hnws.2 hnbr'
    rw [isSome_nextPend] at this
    rw [this, colAdd_cons]
    simp [Nat.add_comm, Nat.add_left_comm]

end CifModel.Model.Lexer
