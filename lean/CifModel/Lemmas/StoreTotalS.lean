import CifModel.Lemmas.StoreTotal
import CifModel.Lemmas.StoreRows
import CifModel.Lemmas.StoreWorld
/-
  Lemmas/StoreTotalS — the invariant `Inv` together with PacketsTotal (`Good`), carried through transactions, savepoints and the
  API functions exactly as `InvS` is in Lemmas/StoreInv (the tower below is that one, over `Good`), then over worlds (`WGood`).
  The one API function that needs a fact about the history is cif_pktitr_update_packet: its iterator must still be attached.
-/
namespace CifModel.Store
open Gen.ErrCodes World

/-- the iterator's `scalar` flag (the handle's cached category at cif_loop_get_packets) tells the truth about the stored loop -/
def Iter.ScalarOk (it : Iter) (d : Db) : Prop :=
  ∀ x ∈ d.loops, x.cid = it.cid → x.loopNum = it.loopNum → (x.category = some [] ↔ it.scalar = true)

structure Good (d : Db) : Prop where
  inv : Inv d
  total : PacketsTotal d
  rows : Rows d

theorem Good.empty : Good {} := ⟨Inv.empty, PacketsTotal.empty, Rows.empty⟩
theorem Good.insertContainer {d : Db} (h : Good d) : Good d.insertContainer.1 :=
  ⟨h.inv.insertContainer, h.total.insertContainer, h.rows.congr rfl rfl rfl⟩
theorem Good.insertBlock {d d' : Db} (h : Good d) (cid : Nat) (k o : Str) (he : d.insertBlock cid k o = some d') : Good d' := by
  refine ⟨h.inv.insertBlock cid k o he, h.total.insertBlock cid k o he, ?_⟩
  unfold Db.insertBlock at he
  split at he; · cases he
  split at he; · cases he
  split at he; · cases he
  cases he; exact h.rows.congr rfl rfl rfl
theorem Good.insertFrame {d d' : Db} (h : Good d) (cid par : Nat) (k o : Str) (hord : par < cid) (he : d.insertFrame cid par k o = some d') : Good d' := by
  refine ⟨h.inv.insertFrame cid par k o hord he, h.total.insertFrame cid par k o he, ?_⟩
  unfold Db.insertFrame at he
  split at he; · cases he
  split at he; · cases he
  split at he; · cases he
  split at he; · cases he
  split at he; · cases he
  cases he; exact h.rows.congr rfl rfl rfl
theorem Good.deleteContainer {d : Db} (h : Good d) (id : Nat) : Good (d.deleteContainer id).1 :=
  ⟨h.inv.deleteContainer id, h.total.deleteContainer h.inv id, h.rows.deleteContainer h.inv id⟩
/-- REMOVE_ITEM_SQL when the item's loop has another item (cif_container_remove_item destroys the loop otherwise) -/
theorem Good.removeItem {d : Db} (h : Good d) (cid : Nat) (k : Str)
    (hother : ∀ i ∈ d.items, i.cid = cid → i.name = k → ∃ j0 ∈ d.loopItems i.cid i.loopNum, j0.name ≠ k) : Good (d.removeItem cid k) :=
  ⟨h.inv.removeItem cid k, h.total.removeItem h.inv cid k, h.rows.removeItem h.inv h.total cid k hother⟩
theorem Good.destroyLoop {d : Db} (h : Good d) (cid ln : Nat) : Good (d.destroyLoop cid ln).1 :=
  ⟨h.inv.destroyLoop cid ln, h.total.destroyLoop h.inv cid ln, h.rows.destroyLoop h.inv cid ln⟩
theorem Good.prune {d : Db} (h : Good d) (cid : Nat) : Good (d.prune cid) := ⟨h.inv.prune cid, h.total.prune h.inv cid, h.rows.prune h.inv cid⟩
/-- the two database effects of cif_pktitr_remove_packet, for an iterator that stands on a row of its loop and whose `scalar` flag
    is true to the store -/
theorem Good.removePacketIt {d : Db} (h : Good d) (it : Iter) (hat : it.Attached d) (hsc : it.ScalarOk d) :
    Good (if it.scalar then (d.removePacket it.cid it.loopNum it.prev.toNat).resetRowNum it.cid it.loopNum
          else d.removePacket it.cid it.loopNum it.prev.toNat) := by
  split
  · rename_i hs
    exact ⟨(h.inv.removePacket _ _ _).resetRowNum _ _, (h.total.removePacket h.inv _ _ _).resetRowNum _ _,
      h.rows.removePacketReset h.inv _ _ _ (fun x hx e1 e2 => (hsc x hx e1 e2).mpr hs) hat.1⟩
  · rename_i hs
    exact ⟨h.inv.removePacket _ _ _, h.total.removePacket h.inv _ _ _,
      h.rows.removePacket h.inv _ _ _ (fun x hx e1 e2 hc => hs ((hsc x hx e1 e2).mp hc))⟩
theorem Good.setAllValues {d : Db} (h : Good d) (cid : Nat) (k : Str) (v : V) : Good (d.setAllValues cid k v).1 :=
  ⟨h.inv.setAllValues cid k v, h.total.setAllValues h.inv cid k v, h.rows.setAllValues h.inv.itemPK cid k v⟩
theorem Good.setCategory {d d' : Db} (h : Good d) (cid ln : Nat) (cat : Option Str) (n : Nat) (hcat : cat ≠ some [])
    (he : d.setCategory cid ln cat = .ok (d', n)) : Good d' :=
  ⟨h.inv.setCategory cid ln cat n he, h.total.setCategory cid ln cat n he, h.rows.setCategory cid ln cat n hcat he⟩

theorem createLoopBody_good (cid : Nat) (cat : Option Str) (names : List Name) (d d' : Db) (l : LH) (h : Good d)
    (he : createLoopBody cid cat names d = .ok (d', l)) : Good d' :=
  ⟨createLoopBody_inv cid cat names d d' l h.inv he, createLoopBody_total cid cat names d d' l h.total h.inv he,
   createLoopBody_rows cid cat names d d' l h.rows h.inv he⟩
theorem addItemBody_good (l : LH) (k o : Str) (v : V) (d d' : Db) (n : Nat) (h : Good d) (he : addItemBody l k o v d = .ok (d', n)) : Good d' :=
  ⟨addItemBody_inv l k o v d d' n h.inv he, addItemBody_total l k o v d d' n h.total h.inv he, addItemBody_rows l k o v d d' n h.rows h.inv he⟩
theorem addPacketBody_good (l : LH) (p : List (Str × V)) (d d' : Db) (u : Unit) (h : Good d) (hne : p ≠ [])
    (he : addPacketBody l p d = .ok (d', u)) : Good d' :=
  ⟨addPacketBody_inv l p d d' u h.inv he, addPacketBody_total l p d d' u h.total h.inv he, addPacketBody_rows l p d d' u h.rows h.inv hne he⟩
theorem updateValues_good (p : List (Str × V)) (d d' : Db) (it : Iter) (h : Good d) (hat : it.Attached d)
    (he : updateValues d it p = .ok d') : Good d' :=
  ⟨updateValues_inv p d d' it h.inv he, updateValues_total p d d' it h.total h.inv hat he,
   updateValues_rows p d d' it h.rows h.total h.inv hat he⟩

-- ---- the tower of Lemmas/StoreInv, over `Good` -------------------------------------------------------------------------------------

structure GoodS (s : Store) : Prop where
  db : Good s.db
  txn : ∀ d, s.txn = some d → Good d
  saves : ∀ d ∈ s.saves, Good d
  /-- savepoints exist only inside a BEGIN transaction (the C uses SAVE only when sqlite3_get_autocommit() is 0) -/
  txwf : s.txn = none → s.saves = []

theorem GoodS.empty : GoodS {} := ⟨Good.empty, (fun _ h => nomatch h), (fun _ h => nomatch h), (fun _ => rfl)⟩

theorem GoodS.setDb {s : Store} (h : GoodS s) {d : Db} (hd : Good d) : GoodS { s with db := d } := ⟨hd, h.txn, h.saves, h.txwf⟩

theorem GoodS.begin {s s1 : Store} (h : GoodS s) (hb : s.begin = some s1) : GoodS s1 := by
  obtain ⟨_, rfl⟩ := begin_autocommit s s1 hb
  exact ⟨h.db, fun d hd => by cases hd; exact h.db, h.saves, fun ht => nomatch ht⟩

theorem GoodS.commitD {s : Store} (h : GoodS s) (s0 : Store) (h0 : GoodS s0) : GoodS (s.commit.getD s0) := by
  unfold Store.commit; split
  · exact h0
  · exact ⟨h.db, (fun _ hd => nomatch hd), (fun _ hd => nomatch hd), (fun _ => rfl)⟩

theorem GoodS.outermost {s : Store} (h : GoodS s) : Good s.outermost := by
  unfold Store.outermost
  split
  · rename_i d hd; exact h.txn d hd
  · cases hl : s.saves.getLast? with
    | none => exact h.db
    | some d => exact h.saves d (List.mem_of_getLast? hl)

theorem GoodS.rollbackD {s : Store} (h : GoodS s) (s0 : Store) (h0 : GoodS s0) : GoodS (s.rollback.getD s0) := by
  unfold Store.rollback; split
  · exact h0
  · exact ⟨h.outermost, (fun _ hd => nomatch hd), (fun _ hd => nomatch hd), (fun _ => rfl)⟩

theorem GoodS.txn_of_not_autocommit {s : Store} (h : GoodS s) (ha : s.autocommit = false) : ∃ d, s.txn = some d := by
  cases ht : s.txn with
  | some d => exact ⟨d, rfl⟩
  | none => simp [Store.autocommit, ht, h.txwf ht] at ha

theorem GoodS.save {s : Store} (h : GoodS s) (ha : s.autocommit = false) : GoodS s.save := by
  obtain ⟨d0, hd0⟩ := h.txn_of_not_autocommit ha
  exact ⟨h.db, h.txn, fun d hd => by rcases List.mem_cons.mp hd with rfl | hd; exact h.db; exact h.saves d hd,
    fun ht => by simp [Store.save, hd0] at ht⟩

theorem GoodS.releaseD {s : Store} (h : GoodS s) : GoodS (s.release.getD s) := by
  unfold Store.release; split
  · exact h
  · rename_i d r hs
    exact ⟨h.db, h.txn, fun d' hd' => h.saves d' (by rw [hs]; exact List.mem_cons_of_mem _ hd'),
      fun ht => by have := h.txwf ht; rw [hs] at this; cases this⟩

theorem GoodS.rollbackToD {s : Store} (h : GoodS s) : GoodS (s.rollbackTo.getD s) := by
  unfold Store.rollbackTo; split
  · exact h
  · rename_i d r hs
    exact ⟨h.saves d (by rw [hs]; exact List.mem_cons_self), h.txn, h.saves, h.txwf⟩

theorem GoodS.beginNest {s : Store} (h : GoodS s) : GoodS s.beginNest.1 := by
  unfold Store.beginNest; split
  · exact ⟨h.db, fun d hd => by cases hd; exact h.db, h.saves, fun ht => nomatch ht⟩
  · rename_i ha; exact h.save (by simpa using ha)

theorem GoodS.commitNest {s : Store} (h : GoodS s) (top : Bool) : GoodS (s.commitNest top) := by
  unfold Store.commitNest; split
  · exact h.commitD s h
  · exact h.releaseD

theorem GoodS.rollbackNest {s : Store} (h : GoodS s) (top : Bool) : GoodS (s.rollbackNest top) := by
  unfold Store.rollbackNest; split
  · exact h.rollbackD s h
  · exact h.rollbackToD

theorem GoodS.nest {α} {s : Store} (h : GoodS s) (body : Db → Except Code (Db × α))
    (hb : ∀ d d' a, Good d → body d = .ok (d', a) → Good d') : GoodS (s.nest body).1 := by
  unfold Store.nest
  have h1 := h.beginNest
  generalize s.beginNest = b at h1
  obtain ⟨s1, top⟩ := b
  simp only []
  split
  · rename_i d2 a he
    exact (h1.setDb (hb _ _ _ h1.db he)).commitNest top
  · exact h1.rollbackNest top

theorem GoodS.nestRO {α} {s : Store} (h : GoodS s) (body : Db → Except Code α) : GoodS (s.nestRO body).1 := by
  unfold Store.nestRO
  exact h.beginNest.rollbackNest _

-- ---- the API functions -----------------------------------------------------------------------------------------------------------

theorem createLoopInternal_goodS {s : Store} (h : GoodS s) (hd : CH) (cat : Option Str) (names : List Name) :
    GoodS (createLoopInternal s hd cat names).1 :=
  h.nest _ (fun d d' a hi he => createLoopBody_good _ _ _ d d' a hi he)

theorem createLoop_goodS {s : Store} (h : GoodS s) (hd : CH) (cat : Option Str) (names : List Name) : GoodS (createLoop s hd cat names).1 := by
  unfold createLoop
  split; · exact h
  split; · exact h
  exact createLoopInternal_goodS h hd cat names

theorem addItemInternal_goodS {s : Store} (h : GoodS s) (l : LH) (k o : Str) (v : V) : GoodS (addItemInternal s l k o v).1 :=
  h.nest _ (fun d d' a hi he => addItemBody_good _ _ _ _ d d' a hi he)

theorem addItem_goodS {s : Store} (h : GoodS s) (l : LH) (n : Option Name) (v : Option V) : GoodS (addItem s l n v).1 := by
  unfold addItem
  split; · exact h
  split; · exact h
  have := addItemInternal_goodS h l (by assumption : Name).key (by assumption : Name).orig (v.getD .unk)
  split
  · rename_i he; rw [he] at this; exact this
  · rename_i he; rw [he] at this; exact this

theorem addPacket_goodS {s : Store} (h : GoodS s) (l : LH) (p : List (Str × V)) : GoodS (addPacket s l p).1 := by
  unfold addPacket
  split; · exact h
  rename_i hne
  have hne' : p ≠ [] := by intro e; subst e; simp at hne
  exact h.nest _ (fun d d' a hi he => addPacketBody_good _ _ d d' a hi hne' he)

theorem createBlock_goodS {s : Store} (h : GoodS s) (n : Option Name) (len : Bool) : GoodS (createBlock s n len).1 := by
  unfold createBlock
  split; · exact h
  split; · exact h
  split; · exact h
  rename_i s1 hb
  have h1 := h.begin hb
  simp only []
  split
  · exact h1.rollbackD s1 h1
  · rename_i d2 hi
    exact (h1.setDb (h1.db.insertContainer.insertBlock _ _ _ hi)).commitD s1 h1

theorem createFrame_goodS {s : Store} (h : GoodS s) (hd : CH) (n : Option Name) (len : Bool) : GoodS (createFrame s hd n len).1 := by
  unfold createFrame
  split; · exact h
  split; · exact h
  split; · exact h
  rename_i s1 hb
  have h1 := h.begin hb
  simp only []
  split
  · exact h1.rollbackD s1 h1
  · rename_i d2 hi
    exact (h1.setDb (h1.db.insertContainer.insertFrame _ _ _ _ (insertFrame_parent_lt h1.db.inv _ _ _ hi) hi)).commitD s1 h1

theorem destroyContainer_goodS {s : Store} (h : GoodS s) (hd : CH) : GoodS (destroyContainer s hd).1 := by
  unfold destroyContainer
  simp only []
  split <;> exact h.setDb (h.db.deleteContainer _)

theorem destroyLoop_goodS {s : Store} (h : GoodS s) (l : LH) : GoodS (destroyLoop s l).1 := by
  unfold destroyLoop
  simp only []
  split
  · exact h.setDb (h.db.destroyLoop _ _)
  · split <;> exact h.setDb (h.db.destroyLoop _ _)

theorem prune_goodS {s : Store} (h : GoodS s) (hd : CH) : GoodS (prune s hd).1 := h.setDb (h.db.prune _)

theorem removeItem_goodS {s : Store} (h : GoodS s) (hd : CH) (n : Option Name) : GoodS (removeItem s hd n).1 := by
  unfold removeItem
  split; · exact h
  split; · exact h
  split; · exact h
  rename_i s1 hb
  have h1 := h.begin hb
  split
  · exact h1.rollbackD s1 h1
  · rename_i ln size hsz
    simp only []
    refine (h1.setDb ?_).commitD s1 h1
    split
    · exact h1.db.destroyLoop _ _
    · rename_i hs1
      exact h1.db.removeItem _ _ (loopSize_other s1.db h1.db.inv _ _ ln size hsz (by simpa using hs1))

theorem allLoops_goodS {s : Store} (h : GoodS s) (hd : CH) : GoodS (allLoops s hd).1 := h.nestRO _
theorem getNames_goodS {s : Store} (h : GoodS s) (l : LH) : GoodS (getNames s l).1 := h.nestRO _

theorem getPackets_goodS {s : Store} (h : GoodS s) (l : LH) : GoodS (getPackets s l).1 := by
  unfold getPackets
  have hn := getNames_goodS h l
  split
  · rename_i he; rw [he] at hn; exact hn
  · rename_i s1 ns he
    rw [he] at hn
    split
    · exact hn
    · rename_i s2 hb
      have h2 := hn.begin hb
      split
      · exact h2.rollbackD s2 h2
      · exact h2

theorem updatePacket_goodS {s : Store} (h : GoodS s) (it : Iter) (p : List (Str × V)) (hat : 0 < it.prev → it.Attached s.db) : GoodS (updatePacket s it p).1 := by
  unfold updatePacket
  split; · exact h
  rename_i ha
  have hsv := h.save (by simpa using ha)
  split; · exact h
  simp only []
  split
  · rename_i d2 hu
    exact (hsv.setDb (updateValues_good p _ d2 it hsv.db (hat (by omega)) hu)).releaseD
  · exact hsv.rollbackToD

theorem removePacket_goodS {s : Store} (h : GoodS s) (it : Iter) (hat : 0 < it.prev → it.Attached s.db) (hsc : it.ScalarOk s.db) : GoodS (removePacket s it).1 := by
  unfold removePacket
  split; · exact h
  rename_i ha
  have hsv := h.save (by simpa using ha)
  split; · exact h
  simp only []
  exact (hsv.setDb (hsv.db.removePacketIt it (hat (by omega)) hsc)).releaseD

theorem closeIter_goodS {s : Store} (h : GoodS s) : GoodS (closeIter s).1 := by
  unfold closeIter
  split
  · rename_i s1 hc
    have := h.commitD s h; rw [hc] at this; exact this
  · exact h.rollbackD s h

theorem abortIter_goodS {s : Store} (h : GoodS s) : GoodS (abortIter s).1 := by
  unfold abortIter
  split
  · rename_i s1 hc
    have := h.rollbackD s h; rw [hc] at this; exact this
  · exact h


theorem addScalar_goodS {s : Store} (h : GoodS s) (hd : CH) (key orig : Str) (v : V) : GoodS (addScalar s hd key orig v).1 := by
  unfold addScalar
  have h1 : ∀ (r : R LH), GoodS r.1 →
      GoodS (match r.2 with
        | .error c => ((r.1, Except.error c) : R Unit)
        | .ok l => match addItemInternal r.1 l key orig v with
          | (s2, .error c) => (s2, .error c)
          | (s2, .ok numPackets) => if numPackets == 0 then addPacket s2 l [(key, v)] else (s2, .ok ())).1 := by
    intro r hr
    split
    · exact hr
    · rename_i l _
      have h2 := addItemInternal_goodS hr l key orig v
      split
      · rename_i s2 c he; rw [he] at h2; exact h2
      · rename_i s2 np he
        rw [he] at h2
        split
        · exact addPacket_goodS h2 l _
        · exact h2
  have h0 : GoodS (match getCategoryLoop s hd (some []) with
      | (s', .error c) => if c == CIF_NOSUCH_LOOP then createLoopInternal s' hd (some []) [] else (s', .error c)
      | r => r).1 := by
    have hg : (getCategoryLoop s hd (some [])).1 = s := by
      unfold getCategoryLoop; simp only []; split <;> rfl
    split
    · rename_i s' c he
      have : s' = s := by rw [← hg, he]
      subst this
      split
      · exact createLoopInternal_goodS h hd _ _
      · exact h
    · rw [hg]; exact h
  exact h1 _ h0

theorem setValue_goodS {s : Store} (h : GoodS s) (hd : CH) (n : Option Name) (v : Option V) : GoodS (setValue s hd n v).1 := by
  unfold setValue
  split; · exact h
  split; · exact h
  split; · exact h
  rename_i nm _ _ s1 hb
  have h1 := h.begin hb
  have h2 : GoodS (setValueInner s1 hd nm.key nm.orig (v.getD .unk)).1 := by
    unfold setValueInner
    split
    · split
      · exact addScalar_goodS h1 hd _ _ _
      · exact h1
    · exact h1.setDb (h1.db.setAllValues _ _ _)
  split
  · rename_i s2 _ he; rw [he] at h2; exact h2.commitD s2 h2
  · rename_i s2 c he; rw [he] at h2; exact h2.rollbackD s2 h2


theorem setCategory_goodS {s : Store} (h : GoodS s) (l : LH) (cat : Option Str) : GoodS (setCategory s l cat).1 := by
  unfold setCategory
  split; · exact h
  rename_i hres
  split
  · exact h
  · rename_i d1 n he
    simp only []
    have hcat : cat ≠ some [] := by
      intro e; subst e
      exact hres (by simp [catReserved])
    split
    · exact h.setDb (h.db.setCategory _ _ _ _ hcat he)
    · split <;> exact h.setDb (h.db.setCategory _ _ _ _ hcat he)


-- ---- worlds ------------------------------------------------------------------------------------------------------------------------

def WGood (w : World) : Prop := ∀ c s, w.cifs.getD c none = some s → GoodS s

theorem WGood.empty : WGood {} := by intro c s h; simp [List.getD] at h

theorem WGood.of_cifs {w w' : World} (h : WGood w) (he : w'.cifs = w.cifs) : WGood w' := by
  intro c s hs; rw [he] at hs; exact h c s hs

theorem WGood.setCif {w : World} (h : WGood w) (c : Nat) (s1 : Store) (h1 : GoodS s1) : WGood (w.setCif c s1) := by
  intro c' s hs
  unfold World.setCif at hs
  rcases getD_set_any _ _ _ _ _ hs with hx | hx
  · cases hx; exact h1
  · exact h c' s hx

theorem WGood.live {w : World} (h : WGood w) {c : Nat} {s : Store} (hl : w.liveC c = some s) : GoodS s := h c s hl

end CifModel.Store
