import CifModel.Lemmas.HeapHistState
/-
  Lemmas for operation histories on the heap: different references designate different objects.

  * `Rep_det` — the value and the footprint a structure represents are determined by the heap and the fields;
  * `Rep_step_sep` — two different members of one container own disjoint blocks;
  * `Obj_path_inj` / `RepS.resolve_inj` — two references that resolve to the same address are the same reference.
  So the pointer comparison `src == dst` of `cif_value_clone` (heap interpretation) is the comparison of the two references
  (pure interpretation).
-/
namespace CifModel.Model.Hist
open CifModel CifModel.Model.Heap
open CifModel.Model.Value (Step Entry resolve update child setChild mapFind)

/-! ### determinacy -/

mutual
  theorem Rep_det (h : Heap) (v : V) (hv : HVal) (F : List Nat) (v' : V) (F' : List Nat) (hr : Rep h hv v F)
      (hr' : Rep h hv v' F') : v = v' ∧ F = F' := by
    cases v with
    | unk =>
      simp only [Rep] at hr
      obtain ⟨rfl, rfl⟩ := hr
      cases v' with
      | unk => simp only [Rep] at hr'; exact ⟨rfl, hr'.2.symm⟩
      | na => simp [Rep] at hr'
      | chr q t => simp [Rep] at hr'
      | numb q t neg d su sc =>
        simp only [Rep] at hr'
        obtain ⟨_, _, _, _, _, hrest⟩ := hr'
        rcases hrest with ⟨_, h1, _⟩ | ⟨_, _, _, _, _, _, h1, _⟩ <;> cases h1
      | lst vs => simp only [Rep] at hr'; rcases hr' with ⟨_, n, h1, _⟩ | ⟨_, _, _, _, h1, _⟩ <;> cases h1
      | tbl es => simp [Rep] at hr'
    | na =>
      simp only [Rep] at hr
      obtain ⟨rfl, rfl⟩ := hr
      cases v' with
      | na => simp only [Rep] at hr'; exact ⟨rfl, hr'.2.symm⟩
      | unk => simp [Rep] at hr'
      | chr q t => simp [Rep] at hr'
      | numb q t neg d su sc =>
        simp only [Rep] at hr'
        obtain ⟨_, _, _, _, _, hrest⟩ := hr'
        rcases hrest with ⟨_, h1, _⟩ | ⟨_, _, _, _, _, _, h1, _⟩ <;> cases h1
      | lst vs => simp only [Rep] at hr'; rcases hr' with ⟨_, n, h1, _⟩ | ⟨_, _, _, _, h1, _⟩ <;> cases h1
      | tbl es => simp [Rep] at hr'
    | chr q t =>
      simp only [Rep] at hr
      obtain ⟨a, rfl, ha, rfl⟩ := hr
      cases v' with
      | chr q' t' =>
        simp only [Rep] at hr'
        obtain ⟨a', h1, ha', rfl⟩ := hr'
        cases h1
        rw [ha] at ha'
        cases ha'
        exact ⟨rfl, rfl⟩
      | unk => simp [Rep] at hr'
      | na => simp [Rep] at hr'
      | numb q' t' neg d su sc =>
        simp only [Rep] at hr'
        obtain ⟨_, _, _, _, _, hrest⟩ := hr'
        rcases hrest with ⟨_, h1, _⟩ | ⟨_, _, _, _, _, _, h1, _⟩ <;> cases h1
      | lst vs => simp only [Rep] at hr'; rcases hr' with ⟨_, n, h1, _⟩ | ⟨_, _, _, _, h1, _⟩ <;> cases h1
      | tbl es => simp [Rep] at hr'
    | numb q t neg d su sc =>
      simp only [Rep] at hr
      obtain ⟨a, b, _, ha, hb, hrest⟩ := hr
      cases v' with
      | numb q' t' neg' d' su' sc' =>
        simp only [Rep] at hr'
        obtain ⟨a', b', _, ha', hb', hrest'⟩ := hr'
        rcases hrest with ⟨rfl, rfl, rfl⟩ | ⟨s, c, rfl, _, _, hc, rfl, rfl⟩
        · rcases hrest' with ⟨rfl, h1, rfl⟩ | ⟨s', c', _, _, _, _, h1, _⟩
          · cases h1
            rw [ha] at ha'; rw [hb] at hb'
            cases ha'; cases hb'
            exact ⟨rfl, rfl⟩
          · cases h1
        · rcases hrest' with ⟨_, h1, _⟩ | ⟨s', c', rfl, _, _, hc', h1, rfl⟩
          · cases h1
          · cases h1
            rw [ha] at ha'; rw [hb] at hb'; rw [hc] at hc'
            cases ha'; cases hb'; cases hc'
            exact ⟨rfl, rfl⟩
      | unk =>
        simp only [Rep] at hr'
        rcases hrest with ⟨_, h1, _⟩ | ⟨_, _, _, _, _, _, h1, _⟩ <;> (rw [h1] at hr'; simp at hr')
      | na =>
        simp only [Rep] at hr'
        rcases hrest with ⟨_, h1, _⟩ | ⟨_, _, _, _, _, _, h1, _⟩ <;> (rw [h1] at hr'; simp at hr')
      | chr q' t' =>
        simp only [Rep] at hr'
        obtain ⟨a', h2, _⟩ := hr'
        rcases hrest with ⟨_, h1, _⟩ | ⟨_, _, _, _, _, _, h1, _⟩ <;> (rw [h1] at h2; cases h2)
      | lst vs =>
        simp only [Rep] at hr'
        rcases hrest with ⟨_, h1, _⟩ | ⟨_, _, _, _, _, _, h1, _⟩ <;>
          (rcases hr' with ⟨_, n, h2, _⟩ | ⟨_, _, _, _, h2, _⟩ <;> (rw [h1] at h2; cases h2))
      | tbl es =>
        simp only [Rep] at hr'
        obtain ⟨ents, h2, _⟩ := hr'
        rcases hrest with ⟨_, h1, _⟩ | ⟨_, _, _, _, _, _, h1, _⟩ <;> (rw [h1] at h2; cases h2)
    | lst vs =>
      simp only [Rep] at hr
      cases v' with
      | lst vs' =>
        simp only [Rep] at hr'
        rcases hr with ⟨rfl, n, rfl, rfl⟩ | ⟨arr, xs, cap, F1, rfl, harr, _, hel, _, rfl⟩
        · rcases hr' with ⟨rfl, _, _, rfl⟩ | ⟨_, _, _, _, h2, _⟩
          · exact ⟨rfl, rfl⟩
          · cases h2
        · rcases hr' with ⟨_, _, h2, _⟩ | ⟨arr', xs', cap', F1', h2, harr', _, hel', _, rfl⟩
          · cases h2
          · simp only [HVal.lst.injEq, Option.some.injEq] at h2
            obtain ⟨rfl, _⟩ := h2
            rw [harr] at harr'
            simp only [Option.some.injEq, Cell.arr.injEq] at harr'
            obtain ⟨rfl, rfl⟩ := harr'
            obtain ⟨e1, e2⟩ := RepElems_det h vs xs F1 vs' F1' hel hel'
            subst e1; subst e2
            exact ⟨rfl, rfl⟩
      | unk => simp only [Rep] at hr'; rcases hr with ⟨_, n, h1, _⟩ | ⟨_, _, _, _, h1, _⟩ <;> (rw [h1] at hr'; simp at hr')
      | na => simp only [Rep] at hr'; rcases hr with ⟨_, n, h1, _⟩ | ⟨_, _, _, _, h1, _⟩ <;> (rw [h1] at hr'; simp at hr')
      | chr q t =>
        simp only [Rep] at hr'
        obtain ⟨a', h2, _⟩ := hr'
        rcases hr with ⟨_, n, h1, _⟩ | ⟨_, _, _, _, h1, _⟩ <;> (rw [h1] at h2; cases h2)
      | numb q t neg d su sc =>
        simp only [Rep] at hr'
        obtain ⟨_, _, _, _, _, hrest'⟩ := hr'
        rcases hr with ⟨_, n, h1, _⟩ | ⟨_, _, _, _, h1, _⟩ <;>
          (rcases hrest' with ⟨_, h2, _⟩ | ⟨_, _, _, _, _, _, h2, _⟩ <;> (rw [h1] at h2; cases h2))
      | tbl es =>
        simp only [Rep] at hr'
        obtain ⟨ents, h2, _⟩ := hr'
        rcases hr with ⟨_, n, h1, _⟩ | ⟨_, _, _, _, h1, _⟩ <;> (rw [h1] at h2; cases h2)
    | tbl es =>
      simp only [Rep] at hr
      obtain ⟨ents, rfl, hen⟩ := hr
      cases v' with
      | tbl es' =>
        simp only [Rep] at hr'
        obtain ⟨ents', h2, hen'⟩ := hr'
        cases h2
        obtain ⟨e1, e2⟩ := RepEntries_det h es ents F es' F' hen hen'
        subst e1; subst e2
        exact ⟨rfl, rfl⟩
      | unk => simp [Rep] at hr'
      | na => simp [Rep] at hr'
      | chr q t => simp [Rep] at hr'
      | numb q t neg d su sc =>
        simp only [Rep] at hr'
        obtain ⟨_, _, _, _, _, hrest'⟩ := hr'
        rcases hrest' with ⟨_, h2, _⟩ | ⟨_, _, _, _, _, _, h2, _⟩ <;> cases h2
      | lst vs => simp only [Rep] at hr'; rcases hr' with ⟨_, n, h1, _⟩ | ⟨_, _, _, _, h1, _⟩ <;> cases h1
  theorem RepElems_det (h : Heap) (vs : List V) (xs : List Nat) (F : List Nat) (vs' : List V) (F' : List Nat)
      (hr : RepElems h xs vs F) (hr' : RepElems h xs vs' F') : vs = vs' ∧ F = F' := by
    cases vs with
    | nil =>
      simp only [RepElems] at hr
      obtain ⟨rfl, rfl⟩ := hr
      cases vs' with
      | nil => simp only [RepElems] at hr'; exact ⟨rfl, hr'.2.symm⟩
      | cons v' vs' => simp only [RepElems] at hr'; obtain ⟨_, _, _, _, _, h1, _⟩ := hr'; cases h1
    | cons v vs =>
      simp only [RepElems] at hr
      obtain ⟨x, xs1, hv, F1, F2, rfl, hx, hrep, hrest, _, _, rfl⟩ := hr
      cases vs' with
      | nil => simp only [RepElems] at hr'; cases hr'.1
      | cons v' vs' =>
        simp only [RepElems] at hr'
        obtain ⟨x', xs1', hv', F1', F2', h1, hx', hrep', hrest', _, _, rfl⟩ := hr'
        cases h1
        rw [hx] at hx'
        cases hx'
        obtain ⟨e1, e2⟩ := Rep_det h v hv F1 v' F1' hrep hrep'
        obtain ⟨e3, e4⟩ := RepElems_det h vs xs1 F2 vs' F2' hrest hrest'
        subst e1; subst e2; subst e3; subst e4
        exact ⟨rfl, rfl⟩
  theorem RepEntries_det (h : Heap) (es : List (Str × Str × V)) (ents : List Nat) (F : List Nat) (es' : List (Str × Str × V))
      (F' : List Nat) (hr : RepEntries h ents es F) (hr' : RepEntries h ents es' F') : es = es' ∧ F = F' := by
    cases es with
    | nil =>
      simp only [RepEntries] at hr
      obtain ⟨rfl, rfl⟩ := hr
      cases es' with
      | nil => simp only [RepEntries] at hr'; exact ⟨rfl, hr'.2.symm⟩
      | cons e' es' =>
        obtain ⟨k', ko', v'⟩ := e'
        simp only [RepEntries] at hr'
        obtain ⟨_, _, _, _, _, _, _, h1, _⟩ := hr'
        cases h1
    | cons e es =>
      obtain ⟨k, ko, v⟩ := e
      simp only [RepEntries] at hr
      obtain ⟨e, ents1, hv, ka, koa, F1, F2, rfl, he, hka, hkoa, hrep, hrest, _, _, _, _, _, hF⟩ := hr
      cases es' with
      | nil => simp only [RepEntries] at hr'; cases hr'.1
      | cons e' es' =>
        obtain ⟨k', ko', v'⟩ := e'
        simp only [RepEntries] at hr'
        obtain ⟨e', ents1', hv', ka', koa', F1', F2', h1, he', hka', hkoa', hrep', hrest', _, _, _, _, _, hF'⟩ := hr'
        cases h1
        rw [he] at he'
        cases he'
        rw [hka] at hka'; rw [hkoa] at hkoa'
        cases hka'; cases hkoa'
        obtain ⟨e1, e2⟩ := Rep_det h v hv F1 v' F1' hrep hrep'
        obtain ⟨e3, e4⟩ := RepEntries_det h es ents1 F2 es' F2' hrest hrest'
        subst e1; subst e2; subst e3; subst e4
        refine ⟨rfl, ?_⟩
        rcases hF with ⟨hkk, _, rfl⟩ | ⟨hne, _, rfl⟩ <;> rcases hF' with ⟨hkk', _, rfl⟩ | ⟨hne', _, rfl⟩
        · rfl
        · exact absurd hkk hne'
        · exact absurd hkk' hne
        · rfl
end

/-! ### two members of one container own disjoint blocks -/

theorem RepElems_sep (h : Heap) : ∀ (vs : List V) (xs : List Nat) (F : List Nat) (i j : Nat), RepElems h xs vs F → i < j →
    ∀ t t', xs[i]? = some t → xs[j]? = some t' →
    ∃ hvt c Ft hvt' c' Ft', h.cell t = some (.val hvt) ∧ Rep h hvt c Ft ∧ h.cell t' = some (.val hvt') ∧ Rep h hvt' c' Ft'
      ∧ t ≠ t' ∧ t ∉ Ft' ∧ t' ∉ Ft ∧ ∀ a, a ∈ Ft → a ∉ Ft' := by
  intro vs
  induction vs with
  | nil =>
    intro xs F i j hr _ t t' hi _
    simp only [RepElems] at hr
    rw [hr.1] at hi; simp at hi
  | cons v vs ih =>
    intro xs F i j hr hij t t' hi hj
    simp only [RepElems] at hr
    obtain ⟨x, xs', hv, F1, F2, rfl, hx, hrep, hrest, hxF, hdis, rfl⟩ := hr
    cases j with
    | zero => omega
    | succ j' =>
      simp only [List.getElem?_cons_succ] at hj
      cases i with
      | zero =>
        simp only [List.getElem?_cons_zero, Option.some.injEq] at hi
        subst hi
        have hlen := RepElems_length h vs xs' F2 hrest
        have hj' : j' < vs.length := by
          rw [← hlen]
          exact (List.getElem?_eq_some_iff.mp hj).1
        obtain ⟨t'', v', hvt', Ft', hxj, _, ht', hrept', _, hsub', hmem', _⟩ := RepElems_replace h vs xs' F2 j' hrest hj'
        rw [hj] at hxj
        simp only [Option.some.injEq] at hxj
        subst hxj
        refine ⟨hv, v, F1, hvt', v', Ft', hx, hrep, ht', hrept', ?_, ?_, ?_, ?_⟩
        · exact fun e => hdis x (by simp) (by rw [e]; exact hmem')
        · exact fun hm => hdis x (by simp) (hsub' x hm)
        · exact fun hm => hdis t' (by simp [hm]) hmem'
        · exact fun a ha hm => hdis a (by simp [ha]) (hsub' a hm)
      | succ i' =>
        simp only [List.getElem?_cons_succ] at hi
        exact ih xs' F2 i' j' hrest (by omega) t t' hi hj

theorem findEntry_cons (h : Heap) (e : Nat) (ents : List Nat) (k nk : Str) (hk : entryKey h e = some k) :
    findEntry h (e :: ents) nk = if k = nk then some (some e) else findEntry h ents nk := by
  simp [findEntry, hk]

theorem RepEntry_parts {h : Heap} {e : Nat} {k ko : Str} {v : V} {Fe : List Nat} (hre : RepEntry h e k ko v Fe) :
    ∃ hv0 ka koa F1, h.cell e = some (.entry hv0 ka koa) ∧ Rep h hv0 v F1 ∧ e ∈ Fe ∧ ∀ a, a ∈ F1 → a ∈ Fe := by
  have hmem := RepEntry_mem h e k ko v Fe hre
  obtain ⟨hv0, ka, koa, F1, he, _, _, hrep, _, _, _, _, _, hFs⟩ := hre
  refine ⟨hv0, ka, koa, F1, he, hrep, hmem, ?_⟩
  intro a ha
  rcases hFs with ⟨_, rfl⟩ | ⟨_, rfl⟩ <;> simp [ha]

theorem RepEntries_sep (h : Heap) : ∀ (es : List (Str × Str × V)) (ents : List Nat) (F : List Nat) (nk nk' : Str),
    RepEntries h ents es F → nk ≠ nk' → ∀ e e', findEntry h ents nk = some (some e) → findEntry h ents nk' = some (some e') →
    ∃ hv0 ka koa c F1 hv0' ka' koa' c' F1', h.cell e = some (.entry hv0 ka koa) ∧ Rep h hv0 c F1
      ∧ h.cell e' = some (.entry hv0' ka' koa') ∧ Rep h hv0' c' F1'
      ∧ e ≠ e' ∧ e ∉ F1' ∧ e' ∉ F1 ∧ ∀ a, a ∈ F1 → a ∉ F1' := by
  intro es
  induction es with
  | nil =>
    intro ents F nk nk' hr _ e e' hf _
    simp only [RepEntries] at hr
    rw [hr.1] at hf; simp [findEntry] at hf
  | cons hd es ih =>
    obtain ⟨k0, ko0, v0⟩ := hd
    intro ents F nk nk' hr hne e e' hf hf'
    obtain ⟨e0, ents', Fe0, F2, rfl, hre0, hrest, hdis, rfl⟩ := (RepEntries_cons h ents k0 ko0 v0 es F).mp hr
    have hk0 := RepEntry_key h e0 k0 ko0 v0 Fe0 hre0
    rw [findEntry_cons h e0 ents' k0 nk hk0] at hf
    rw [findEntry_cons h e0 ents' k0 nk' hk0] at hf'
    -- an entry found in the rest lies in the rest's footprint
    have inRest : ∀ (key : Str) (x : Nat), findEntry h ents' key = some (some x) →
        ∃ hvx kax koax cx Fx, h.cell x = some (.entry hvx kax koax) ∧ Rep h hvx cx Fx ∧ x ∈ F2 ∧ ∀ a, a ∈ Fx → a ∈ F2 := by
      intro key x hfx
      rcases RepEntries_find h es ents' F2 key hrest with ⟨_, hnone⟩ | ⟨x', ko, vx, Fe, _, hsome, hre, hsub, _⟩
      · rw [hnone] at hfx; cases hfx
      · rw [hsome] at hfx
        simp only [Option.some.injEq] at hfx
        subst hfx
        obtain ⟨hvx, kax, koax, Fx, hc, hrepx, hmem, hsubx⟩ := RepEntry_parts hre
        exact ⟨hvx, kax, koax, vx, Fx, hc, hrepx, hsub _ hmem, fun a ha => hsub a (hsubx a ha)⟩
    obtain ⟨hv0, ka0, koa0, F10, hc0, hrep0, hmem0, hsub0⟩ := RepEntry_parts hre0
    by_cases h1 : k0 = nk
    · have h2 : ¬ k0 = nk' := fun e2 => hne (h1.symm.trans e2)
      simp only [h1, if_true, Option.some.injEq] at hf
      rw [h1] at hf'
      simp only [hne, if_false] at hf'
      subst hf
      obtain ⟨hvx, kax, koax, cx, Fx, hcx, hrepx, hxm, hxsub⟩ := inRest nk' e' hf'
      refine ⟨hv0, ka0, koa0, v0, F10, hvx, kax, koax, cx, Fx, hc0, hrep0, hcx, hrepx, ?_, ?_, ?_, ?_⟩
      · exact fun e2 => hdis _ hmem0 (e2 ▸ hxm)
      · exact fun hm => hdis _ hmem0 (hxsub _ hm)
      · exact fun hm => hdis _ (hsub0 _ hm) hxm
      · exact fun a ha hm => hdis a (hsub0 a ha) (hxsub a hm)
    · simp only [h1, if_false] at hf
      by_cases h2 : k0 = nk'
      · simp only [h2, if_true, Option.some.injEq] at hf'
        subst hf'
        obtain ⟨hvx, kax, koax, cx, Fx, hcx, hrepx, hxm, hxsub⟩ := inRest nk e hf
        refine ⟨hvx, kax, koax, cx, Fx, hv0, ka0, koa0, v0, F10, hcx, hrepx, hc0, hrep0, ?_, ?_, ?_, ?_⟩
        · exact fun e2 => hdis _ hmem0 (e2 ▸ hxm)
        · exact fun hm => hdis _ (hsub0 _ hm) hxm
        · exact fun hm => hdis _ hmem0 (hxsub _ hm)
        · exact fun a ha hm => hdis a (hsub0 a hm) (hxsub a ha)
      · simp only [h2, if_false] at hf'
        exact ih ents' F2 nk nk' hrest hne e e' hf hf'

theorem Rep_step_sep (h : Heap) (hv : HVal) (v : V) (F : List Nat) (s s' : Step) (hr : Rep h hv v F) (hne : s ≠ s')
    (t t' : Nat) (hs : stepF h hv s = some t) (hs' : stepF h hv s' = some t')
    (hvt : HVal) (c : V) (Ft : List Nat) (hvt' : HVal) (c' : V) (Ft' : List Nat)
    (hg : getHV h t = some hvt) (hrep : Rep h hvt c Ft) (hg' : getHV h t' = some hvt') (hrep' : Rep h hvt' c' Ft') :
    t ≠ t' ∧ t ∉ Ft' ∧ t' ∉ Ft ∧ ∀ a, a ∈ Ft → a ∉ Ft' := by
  cases hv with
  | lst elems size =>
    cases elems with
    | none => cases s <;> simp [stepF] at hs
    | some arr =>
      cases s with
      | key k => simp [stepF] at hs
      | idx i =>
        cases s' with
        | key k => simp [stepF] at hs'
        | idx j =>
          have hij : i ≠ j := fun e => hne (by rw [e])
          cases v with
          | lst vs =>
            simp only [Rep] at hr
            rcases hr with ⟨_, n, h1, _⟩ | ⟨arr', xs, cap, F1, h1, harr, _, hel, _, _⟩
            · cases h1
            · simp only [HVal.lst.injEq, Option.some.injEq] at h1
              obtain ⟨rfl, _⟩ := h1
              simp only [stepF, harr] at hs hs'
              -- identify the witnesses of the separation lemma with the given ones
              have fin : ∀ (t1 t2 : Nat) (a1 : HVal) (b1 : V) (G1 : List Nat) (a2 : HVal) (b2 : V) (G2 : List Nat),
                  h.cell t1 = some (.val a1) → Rep h a1 b1 G1 → h.cell t2 = some (.val a2) → Rep h a2 b2 G2 →
                  ∀ (x1 : HVal) (y1 : V) (H1 : List Nat), getHV h t1 = some x1 → Rep h x1 y1 H1 → H1 = G1 := by
                intro t1 t2 a1 b1 G1 a2 b2 G2 hc1 hr1 _ _ x1 y1 H1 hgx hrx
                have : x1 = a1 := by simp [getHV, hc1] at hgx; exact hgx.symm
                subst this
                exact (Rep_det h y1 x1 H1 b1 G1 hrx hr1).2
              rcases Nat.lt_or_gt_of_ne hij with hlt | hgt
              · obtain ⟨a1, b1, G1, a2, b2, G2, hc1, hr1, hc2, hr2, n1, n2, n3, n4⟩ := RepElems_sep h _ xs F1 i j hel hlt t t' hs hs'
                have e1 := fin t t' a1 b1 G1 a2 b2 G2 hc1 hr1 hc2 hr2 hvt c Ft hg hrep
                have e2 := fin t' t a2 b2 G2 a1 b1 G1 hc2 hr2 hc1 hr1 hvt' c' Ft' hg' hrep'
                subst e1; subst e2
                exact ⟨n1, n2, n3, n4⟩
              · obtain ⟨a1, b1, G1, a2, b2, G2, hc1, hr1, hc2, hr2, n1, n2, n3, n4⟩ := RepElems_sep h _ xs F1 j i hel hgt t' t hs' hs
                have e1 := fin t' t a1 b1 G1 a2 b2 G2 hc1 hr1 hc2 hr2 hvt' c' Ft' hg' hrep'
                have e2 := fin t t' a2 b2 G2 a1 b1 G1 hc2 hr2 hc1 hr1 hvt c Ft hg hrep
                subst e1; subst e2
                exact ⟨fun e => n1 e.symm, n3, n2, fun a ha hm => n4 a hm ha⟩
          | unk => simp [Rep] at hr
          | na => simp [Rep] at hr
          | chr q tx => simp [Rep] at hr
          | numb q tx neg d su sc =>
            simp only [Rep] at hr
            obtain ⟨_, _, _, _, _, hrest⟩ := hr
            rcases hrest with ⟨_, h1, _⟩ | ⟨_, _, _, _, _, _, h1, _⟩ <;> cases h1
          | tbl es => simp [Rep] at hr
  | tbl ents =>
    cases s with
    | idx i => simp [stepF] at hs
    | key nk =>
      cases s' with
      | idx j => simp [stepF] at hs'
      | key nk' =>
        have hkk : nk ≠ nk' := fun e => hne (by rw [e])
        cases v with
        | tbl es =>
          simp only [Rep] at hr
          obtain ⟨ents', h1, hen⟩ := hr
          cases h1
          have hf : findEntry h ents nk = some (some t) := by
            simp only [stepF] at hs
            cases hfe : findEntry h ents nk with
            | none => rw [hfe] at hs; cases hs
            | some o => rw [hfe] at hs; cases o <;> simp_all
          have hf' : findEntry h ents nk' = some (some t') := by
            simp only [stepF] at hs'
            cases hfe : findEntry h ents nk' with
            | none => rw [hfe] at hs'; cases hs'
            | some o => rw [hfe] at hs'; cases o <;> simp_all
          obtain ⟨a1, k1, k1', b1, G1, a2, k2, k2', b2, G2, hc1, hr1, hc2, hr2, n1, n2, n3, n4⟩ :=
            RepEntries_sep h es ents F nk nk' hen hkk t t' hf hf'
          have x1 : hvt = a1 := by simp [getHV, hc1] at hg; exact hg.symm
          have x2 : hvt' = a2 := by simp [getHV, hc2] at hg'; exact hg'.symm
          subst x1; subst x2
          have e1 := (Rep_det h c hvt Ft b1 G1 hrep hr1).2
          have e2 := (Rep_det h c' hvt' Ft' b2 G2 hrep' hr2).2
          subst e1; subst e2
          exact ⟨n1, n2, n3, n4⟩
        | unk => simp [Rep] at hr
        | na => simp [Rep] at hr
        | chr q tx => simp [Rep] at hr
        | numb q tx neg d su sc =>
          simp only [Rep] at hr
          obtain ⟨_, _, _, _, _, hrest⟩ := hr
          rcases hrest with ⟨_, h1, _⟩ | ⟨_, _, _, _, _, _, h1, _⟩ <;> cases h1
        | lst vs => simp only [Rep] at hr; rcases hr with ⟨_, n, h1, _⟩ | ⟨_, _, _, _, h1, _⟩ <;> cases h1
  | unk => cases s <;> simp [stepF] at hs
  | na => cases s <;> simp [stepF] at hs
  | chr q a => cases s <;> simp [stepF] at hs
  | numb q neg sc a b su => cases s <;> simp [stepF] at hs

/-! ### different paths, different objects -/

theorem Obj_path_inj (h : Heap) : ∀ (p q : List Step) (a : Nat) (hv : HVal) (v : V) (F : List Nat),
    getHV h a = some hv → Rep h hv v F → a ∉ F → ∀ t, resolveF h hv p a = some t → resolveF h hv q a = some t →
    (resolve v p).isSome = true → (resolve v q).isSome = true → p = q := by
  -- the address a non-empty path resolves to lies in the footprint
  have inF : ∀ (q : List Step) (a : Nat) (hv : HVal) (v : V) (F : List Nat), getHV h a = some hv → Rep h hv v F → a ∉ F →
      ∀ t, resolveF h hv q a = some t → (resolve v q).isSome = true → (q = [] → t = a) ∧ (q ≠ [] → t ∈ F) := by
    intro q a hv v F hg hr haF t hres hsome
    have := Obj_path h q a hv v F hg hr haF
    cases hq : resolve v q with
    | none => rw [hq] at hsome; cases hsome
    | some c =>
      rw [hq] at this
      obtain ⟨t0, _, _, hrf, _, _, _, _, hnil, hcons, _⟩ := this
      rw [hres] at hrf
      simp only [Option.some.injEq] at hrf
      subst hrf
      exact ⟨fun e => (hnil e).1, fun e => (hcons e).1⟩
  intro p
  induction p with
  | nil =>
    intro q a hv v F hg hr haF t hp hq _ hsq
    cases q with
    | nil => rfl
    | cons s' q' =>
      simp only [resolveF, Option.some.injEq] at hp
      subst hp
      exact absurd ((inF _ a hv v F hg hr haF _ hq hsq).2 (by simp)) haF
  | cons s p' ih =>
    intro q a hv v F hg hr haF t hp hq hsp hsq
    cases q with
    | nil =>
      simp only [resolveF, Option.some.injEq] at hq
      subst hq
      exact absurd ((inF _ a hv v F hg hr haF _ hp hsp).2 (by simp)) haF
    | cons s' q' =>
      -- the two first members
      have hs1 := Rep_step h hv v F s hr
      have hs2 := Rep_step h hv v F s' hr
      simp only [resolve] at hsp hsq
      cases hc1 : child v s with
      | none => rw [hc1] at hsp; cases hsp
      | some c1 =>
        cases hc2 : child v s' with
        | none => rw [hc2] at hsq; cases hsq
        | some c2 =>
          rw [hc1] at hs1 hsp
          rw [hc2] at hs2 hsq
          obtain ⟨t1, hvt1, Ft1, hst1, hg1, _, hrep1, ht1F1, _, _, _⟩ := hs1
          obtain ⟨t2, hvt2, Ft2, hst2, hg2, _, hrep2, ht2F2, _, _, _⟩ := hs2
          simp only [resolveF, hst1, hg1] at hp
          simp only [resolveF, hst2, hg2] at hq
          by_cases hss : s = s'
          · subst hss
            rw [hst1] at hst2
            simp only [Option.some.injEq] at hst2
            subst hst2
            rw [hg1] at hg2
            simp only [Option.some.injEq] at hg2
            subst hg2
            rw [hc1] at hc2
            simp only [Option.some.injEq] at hc2
            subst hc2
            have := ih q' t1 hvt1 c1 Ft1 hg1 hrep1 ht1F1 t hp hq hsp hsq
            rw [this]
          · exfalso
            obtain ⟨n1, n2, n3, n4⟩ := Rep_step_sep h hv v F s s' hr hss t1 t2 hst1 hst2 hvt1 c1 Ft1 hvt2 c2 Ft2 hg1 hrep1 hg2 hrep2
            have w1 := inF p' t1 hvt1 c1 Ft1 hg1 hrep1 ht1F1 t hp hsp
            have w2 := inF q' t2 hvt2 c2 Ft2 hg2 hrep2 ht2F2 t hq hsq
            by_cases e1 : p' = [] <;> by_cases e2 : q' = []
            · exact n1 ((w1.1 e1).symm.trans (w2.1 e2))
            · exact n2 ((w1.1 e1) ▸ w2.2 e2)
            · exact n3 ((w2.1 e2) ▸ w1.2 e1)
            · exact n4 t (w1.2 e1) (w2.2 e2)

/-- **two references that resolve to the same address are the same reference** -/
theorem RepS.resolve_inj {T : List Nat} {s : HState} {p : PState} {F : Root → List Nat} (inv : RepS T s p F) (r1 r2 : Ref)
    (c1 c2 : V) (h1 : getP p r1 = some c1) (h2 : getP p r2 = some c2) (t : Nat) (hr1 : resolveRef s r1 = some t)
    (hr2 : resolveRef s r2 = some t) : r1 = r2 := by
  have a1 := inv.atRef r1
  have a2 := inv.atRef r2
  rw [h1] at a1
  rw [h2] at a2
  obtain ⟨x1, t1, _, _, hs1, hres1, _, _, _, htG1, _⟩ := a1
  obtain ⟨x2, t2, _, _, hs2, hres2, _, _, _, htG2, _⟩ := a2
  rw [hr1] at hres1; rw [hr2] at hres2
  simp only [Option.some.injEq] at hres1 hres2
  subst hres1
  have hroot : r1.root = r2.root := by
    by_cases he : r1.root = r2.root
    · exact he
    · exact absurd (hres2 ▸ htG2) (inv.dis r1.root r2.root he t htG1)
  obtain ⟨v, hp, hroot1⟩ := inv.fullSlot r1.root x1 hs1
  obtain ⟨hv, F0, hg, _, hrep, haF, _⟩ := hroot1
  have hs2' : s.slot r1.root = some x2 := by rw [hroot]; exact hs2
  rw [hs1] at hs2'
  simp only [Option.some.injEq] at hs2'
  subst hs2'
  have e1 : resolveF s.h hv r1.path x1 = some t := by
    simpa [resolveRef, hs1, resolveAddr, hg] using hr1
  have e2 : resolveF s.h hv r2.path x1 = some t := by
    have : s.slot r2.root = some x1 := by rw [← hroot]; exact hs1
    simpa [resolveRef, this, resolveAddr, hg] using hr2
  have g1 : (resolve v r1.path).isSome = true := by
    simp only [getP, hp] at h1; rw [h1]; rfl
  have g2 : (resolve v r2.path).isSome = true := by
    have : p.get r2.root = some v := by rw [← hroot]; exact hp
    simp only [getP, this] at h2; rw [h2]; rfl
  have hpath := Obj_path_inj s.h r1.path r2.path x1 hv v F0 hg hrep haF t e1 e2 g1 g2
  cases r1; cases r2
  simp only at hroot hpath
  rw [hroot, hpath]

end CifModel.Model.Hist
