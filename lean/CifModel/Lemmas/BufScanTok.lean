import CifModel.Lemmas.BufScanSim
import CifModel.Lemmas.LexerTok
import CifModel.Lemmas.LexerStream
/-
  Lemmas/BufScanTok — next_token at buffer level (Model.BufScan.stepTokB / tokLoopB / nextTokenB) simulates the lexer model's
  next_token (Model.Lexer.stepTok / tokLoop / nextToken); whole token streams.
-/
namespace CifModel.Model.BufScan
open CifModel CifModel.Model.Chars CifModel.Model.Lexer CifModel.Model.Fill CifModel.Model.ScanBuf CifModel.Spec.Eol

/-- as `sim_bind`, with the knowledge that the list-level value was produced by the list-level action -/
theorem sim_bind' {α β γ δ : Type} {Q : γ → δ → Prop} {R : α → β → Prop} {m : L γ} {m' : L δ} {f : γ → L α} {f' : δ → L β}
    (hm : Sim Q m m') (hf : ∀ a b, Q a b → (∃ pol log log', m' pol log = .ok b log') → Sim R (f a) (f' b)) :
    Sim R (L.bind m f) (L.bind m' f') := by
  intro pol log
  have h := hm pol log
  unfold L.bind
  cases h1 : m pol log with
  | ok a l =>
    cases h2 : m' pol log with
    | ok b l' =>
      rw [h1, h2] at h
      obtain ⟨e, q⟩ := h
      subst e
      exact hf a b q ⟨pol, log, l, h2⟩ pol l
    | abort rv l' => rw [h1, h2] at h; exact h.elim
  | abort rv l =>
    cases h2 : m' pol log with
    | ok b l' => rw [h1, h2] at h; exact h.elim
    | abort rv' l' => rw [h1, h2] at h; exact h

/-- the shape of the pending token the grammar productions rely on: a whitespace-delimited VALUE is its whole token text
    (TRIM_TOKEN counts from `text_start`); behind a KEY / TKEY the unit before `next_char` is the colon, outside the value -/
def TokShape (ty : TokType) (s : BS) : Prop :=
  (ty = .value → s.sb.tvalueOffset = 0 ∧ s.sb.tvalueStart + s.tvlen = s.sb.next) ∧
  ((ty = .key ∨ ty = .tkey) → s.sb.tvalueStart + s.tvlen < s.sb.next ∧ s.get (s.sb.next - 1) = colon) ∧
  ((ty = .blockHead ∨ ty = .frameHead) → s.sb.tvalueStart + s.tvlen < s.sb.size)

theorem TokShape.other {ty : TokType} {s : BS} (h1 : ty ≠ .value) (h2 : ty ≠ .key) (h3 : ty ≠ .tkey)
    (h4 : ty ≠ .blockHead) (h5 : ty ≠ .frameHead) : TokShape ty s :=
  ⟨fun h => absurd h h1, fun h => by
    rcases h with h | h
    · exact absurd h h2
    · exact absurd h h3, fun h => by
    rcases h with h | h
    · exact absurd h h4
    · exact absurd h h5⟩

/-- related outcomes of one pass through next_token's loop body.  A dropped reserved word is `tok` with an empty token text at
    buffer level (CONSUME_TOKEN was executed; the loop head will go on) and `skip` in the lexer model. -/
def RelStep (mf : Nat) (aw0 : Bool) : StepB → Step → Prop
  | .tok ty s2, .tok t p => Good mf s2 ∧ ty = t.ty ∧ s2.value = t.text ∧ s2.line = t.line ∧ s2.col = t.col ∧
      s2.remaining = p.rest ∧ s2.line = p.line ∧ s2.col = p.col ∧ s2.sb.textStart < s2.sb.next ∧
      s2.sb.tvalueStart + s2.tvlen ≤ s2.sb.next ∧ TokShape ty s2
  | .skip aw s2, .skip aw' p => aw = aw' ∧ Good mf s2 ∧ s2.remaining = p.rest ∧ s2.line = p.line ∧ s2.col = p.col ∧
      s2.sb.textStart = s2.sb.next
  | .tok _ s2, .skip aw' p => aw' = aw0 ∧ Good mf s2 ∧ s2.remaining = p.rest ∧ s2.line = p.line ∧ s2.col = p.col ∧
      s2.sb.textStart = s2.sb.next
  | .skip _ _, .tok _ _ => False

theorem consumeToken_good {mf : Nat} {s : BS} (g : Good mf s) : Good mf (consumeToken s) ∧
    (consumeToken s).remaining = s.remaining ∧ (consumeToken s).sb.textStart = (consumeToken s).sb.next := by
  obtain ⟨h1, h2, h3, h4, h5⟩ := g.inv
  exact ⟨⟨⟨Nat.le_refl _, Nat.le_refl _, h3, h4, h5⟩, g.size, g.mf, g.ok, g.eof⟩, rfl, rfl⟩

/-- a token scan that did not give back more than it was handed leaves a non-empty token text -/
theorem Out.nonempty {mf L0 : Nat} {W : Bool} {s2 : BS} {sc : Scanned} (o : Out mf L0 W s2 sc) (h : sc.pos.rest.length < L0) :
    s2.sb.textStart < s2.sb.next := by
  have := o.good.text_length
  have := o.len
  rw [o.rem] at this
  omega

theorem value_length {mf : Nat} {s : BS} (g : Good mf s) (hb : s.sb.tvalueStart + s.tvlen ≤ s.sb.next) : s.value.length = s.tvlen := by
  obtain ⟨h1, h2, h3, h4, h5⟩ := g.inv
  simp only [BS.value, List.length_take, List.length_drop]
  omega

theorem Same.value {mf : Nat} {s s1 : BS} (h : Same mf s s1) (g : Good mf s) (hb : s.sb.tvalueStart + s.tvlen ≤ s.sb.next) :
    s1.value = s.value ∧ s1.sb.tvalueStart + s1.tvlen ≤ s1.sb.next := by
  have l1 := g.text_length
  have l2 := h.good.text_length
  have ht := h.text
  have hb' : s1.sb.tvalueStart + s1.tvlen ≤ s1.sb.next := by
    have := congrArg List.length ht
    have i1 := g.inv; have i2 := h.good.inv
    have hv := h.tvoff; have hl := h.tvlen
    simp only [SB.tvalueOffset] at hv
    obtain ⟨a1, a2, a3, a4, a5⟩ := i1
    obtain ⟨b1, b2, b3, b4, b5⟩ := i2
    omega
  refine ⟨?_, hb'⟩
  rw [value_eq mf s1 h.good hb', value_eq mf s g hb, h.text, h.tvoff, h.tvlen]

theorem keyPeekB_none {mf : Nat} {a b : TokType} {s : BS} (h : (peekChar mf s).1 = none) :
    keyPeekB mf a b s = (b, (peekChar mf s).2) := by
  unfold keyPeekB; simp only [h]

theorem keyPeekB_some {mf : Nat} {a b : TokType} {s : BS} {c : CU} (h : (peekChar mf s).1 = some c) :
    keyPeekB mf a b s = if c = colon then (a, skipOne (peekChar mf s).2) else (b, (peekChar mf s).2) := by
  unfold keyPeekB; simp only [h]

/-- the colon peek -/
theorem keyPeekB_rel (mf : Nat) (aw0 : Bool) (a b : TokType) (s2 : BS) (g : Good mf s2)
    (hb : s2.sb.tvalueStart + s2.tvlen ≤ s2.sb.next) (hne : s2.sb.textStart < s2.sb.next)
    (ha : a = .key ∨ a = .tkey) (hbt : b ≠ .value ∧ b ≠ .key ∧ b ≠ .tkey ∧ b ≠ .blockHead ∧ b ≠ .frameHead) :
    RelStep mf aw0 (.tok (keyPeekB mf a b s2).1 (keyPeekB mf a b s2).2) (keyPeek a b s2.value ⟨s2.remaining, s2.line, s2.col⟩) := by
  have pk := peekChar_spec mf s2 g
  have sm := pk.1
  have hv := sm.value g hb
  have hne' : (peekChar mf s2).2.sb.textStart < (peekChar mf s2).2.sb.next := by
    have l1 := g.text_length
    have l2 := sm.good.text_length
    have := congrArg List.length sm.text
    omega
  unfold keyPeek
  cases hp : (peekChar mf s2).1 with
  | none =>
    have hnil := pk.2.1 hp
    rw [keyPeekB_none hp]
    simp only [hnil]
    exact ⟨sm.good, rfl, hv.1, sm.line, sm.col, sm.rem.trans hnil, sm.line, sm.col, hne', hv.2, TokShape.other hbt.1 hbt.2.1 hbt.2.2.1 hbt.2.2.2.1 hbt.2.2.2.2⟩
  | some d =>
    have hp2 := pk.2.2 d hp
    have hrc := remaining_cons mf _ sm.good hp2.1
    rw [sm.rem, ← hp2.2] at hrc
    rw [hrc, keyPeekB_some hp]
    simp only []
    by_cases hc : d = colon
    · simp only [hc, if_true]
      have ad := skipOne_adv mf Dialect.cif2 _ sm.good hp2.1
      have hrm : (skipOne (peekChar mf s2).2).remaining = (s2.remaining).tail := by
        have := ad.rem
        rw [sm.rem, hrc] at this
        rw [hrc]
        exact (List.cons.inj this).2.symm
      refine ⟨ad.good, rfl, hv.1, sm.line, ?_, ?_, sm.line, ?_, ?_, ?_, ?_⟩
      · show (peekChar mf s2).2.col + 1 = s2.col + 1
        rw [sm.col]
      · rw [hrm, hrc]
      · show (peekChar mf s2).2.col + 1 = s2.col + 1
        rw [sm.col]
      · rw [ad.textStart, ad.next]; omega
      · have := hv.2
        show (peekChar mf s2).2.sb.tvalueStart + (peekChar mf s2).2.tvlen ≤ (peekChar mf s2).2.sb.next + 1
        omega
      · refine ⟨fun h => ?_, fun _ => ⟨?_, ?_⟩, fun h => ?_⟩
        · rcases ha with h' | h' <;> rw [h'] at h <;> cases h
        · have := hv.2
          show (peekChar mf s2).2.sb.tvalueStart + (peekChar mf s2).2.tvlen < (peekChar mf s2).2.sb.next + 1
          omega
        · show (peekChar mf s2).2.get ((peekChar mf s2).2.sb.next + 1 - 1) = colon
          rw [Nat.add_sub_cancel, ← hp2.2, hc]
        · rcases ha with h' | h' <;> rw [h'] at h <;> rcases h with h | h <;> cases h
    · simp only [hc, if_false]
      refine ⟨sm.good, rfl, hv.1, sm.line, sm.col, ?_, sm.line, sm.col, hne', hv.2, TokShape.other hbt.1 hbt.2.1 hbt.2.2.1 hbt.2.2.2.1 hbt.2.2.2.2⟩
      rw [sm.rem, hrc]; rfl

/-! ### the reserved-word block -/

theorem classify_len (dia : Dialect) (t : Str) (h : classify dia t ≠ .value) : 4 < t.length := by
  unfold classify at h
  simp only [] at h
  split at h
  · next h1 => exact h1.1
  · split at h
    · next h2 => omega
    · exact absurd rfl h

theorem value_shift (B : Str) (a n : Nat) : ((B.drop a).take n).drop 5 = (B.drop (a + 5)).take (n - 5) := by buf_ext

theorem finishUnquotedB_sim (dia : Dialect) (mf : Nat) (aw0 : Bool) (s2 : BS) (g : Good mf s2)
    (hb : s2.sb.tvalueStart + s2.tvlen ≤ s2.sb.next) (hne : s2.sb.textStart < s2.sb.next)
    (hw : s2.sb.tvalueOffset = 0 ∧ s2.sb.tvalueStart + s2.tvlen = s2.sb.next) (hfit : s2.sb.next < s2.sb.size) :
    Sim (fun f st => RelStep mf aw0 (.tok f.1 f.2) st) (finishUnquotedB dia s2)
      (finishUnquoted dia aw0 s2.value ⟨s2.remaining, s2.line, s2.col⟩) := by
  obtain ⟨h1, h2, h3, h4, h5⟩ := g.inv
  have hvl := value_length g hb
  unfold finishUnquotedB finishUnquoted
  have hshift : classify dia s2.value ≠ .value → ∀ ty, (ty ≠ .value ∧ ty ≠ .key ∧ ty ≠ .tkey) →
      RelStep mf aw0 (.tok ty { s2 with sb := { s2.sb with tvalueStart := s2.sb.tvalueStart + 5 }, tvlen := s2.tvlen - 5 })
        (mkTok ty (s2.value.drop 5) ⟨s2.remaining, s2.line, s2.col⟩) := by
    intro hc ty hty
    have hl := classify_len dia s2.value hc
    rw [hvl] at hl
    refine ⟨⟨⟨by show s2.sb.textStart ≤ s2.sb.tvalueStart + 5; omega, by show s2.sb.tvalueStart + 5 ≤ s2.sb.next; omega, h3, h4, h5⟩,
      g.size, g.mf, g.ok, g.eof⟩, rfl, ?_, rfl, rfl, rfl, rfl, rfl, hne,
      by show s2.sb.tvalueStart + 5 + (s2.tvlen - 5) ≤ s2.sb.next; omega,
      ⟨fun h => absurd h hty.1, fun h => by
        rcases h with h | h
        · exact absurd h hty.2.1
        · exact absurd h hty.2.2, fun _ => by
        have := hw.2
        show s2.sb.tvalueStart + 5 + (s2.tvlen - 5) < s2.sb.size; omega⟩⟩
    show (s2.sb.buffer.drop (s2.sb.tvalueStart + 5)).take (s2.tvlen - 5) = ((s2.sb.buffer.drop s2.sb.tvalueStart).take s2.tvlen).drop 5
    rw [value_shift]
  cases hc : classify dia s2.value with
  | value => exact sim_pure ⟨g, rfl, rfl, rfl, rfl, rfl, rfl, rfl, hne, hb, ⟨fun _ => hw, (fun h => by rcases h with h | h <;> cases h), (fun h => by rcases h with h | h <;> cases h)⟩⟩
  | blockHead => exact sim_pure (hshift (by rw [hc]; simp) _ (by simp))
  | frameHead => exact sim_pure (hshift (by rw [hc]; simp) _ (by simp))
  | frameTerm => exact sim_pure (hshift (by rw [hc]; simp) _ (by simp))
  | loopKw => exact sim_pure (hshift (by rw [hc]; simp) _ (by simp))
  | reserved =>
    simp only [bind_eq, pure_eq]
    rw [hvl]
    apply sim_bind_same
    intro _
    apply sim_pure
    have c := consumeToken_good g
    exact ⟨rfl, c.1, c.2.1, rfl, rfl, c.2.2⟩

/-! ### the body of next_token's loop -/

theorem sim_map_left {α α' β : Type} {R : α' → β → Prop} {m : L α} {m' : L β} (h : α → α')
    (hs : Sim (fun a b => R (h a) b) m m') : Sim R (L.bind m (fun a => L.pure (h a))) m' := by
  intro pol log
  have := hs pol log
  unfold L.bind
  cases h1 : m pol log <;> cases h2 : m' pol log <;> rw [h1, h2] at this <;> exact this

theorem classOf_cr (dia : Dialect) : classOf dia 13 = .eol := by cases dia <;> rfl

theorem meta_general_or_no (cls : Cls) (h1 : cls ≠ .eol) (h2 : cls ≠ .ws) (h3 : cls ≠ .obrak) (h4 : cls ≠ .cbrak)
    (h5 : cls ≠ .ocurl) (h6 : cls ≠ .ccurl) : metaOfCls cls = .general ∨ metaOfCls cls = .no := by
  cases cls <;> simp_all [metaOfCls]

theorem stepTokB_sim (dia : Dialect) (mf : Nat) (aw : Bool) (c : CU) (s1 : BS) (col : Nat) (g : Good mf s1)
    (ht : s1.text = [c]) (h0 : s1.sb.tvalueOffset = 0) (hcol : s1.col = col + 1) (htv : s1.tvlen = 0) :
    Sim (RelStep mf aw) (stepTokB dia mf aw c s1) (stepTok dia aw c s1.remaining s1.line col) := by
  obtain ⟨i1, i2, i3, i4, i5⟩ := g.inv
  have hlen := g.text_length
  rw [ht] at hlen
  simp only [List.length_cons, List.length_nil] at hlen
  have hts : s1.sb.tvalueStart = s1.sb.textStart := by simp only [SB.tvalueOffset] at h0; omega
  have hL : s1.text.length + s1.remaining.length = s1.remaining.length + 1 := by rw [ht]; simp; omega
  have hr0 : racc 0 s1 = [c] := by unfold racc; rw [ht]; rfl
  have hr1 : racc 1 s1 = [] := by unfold racc; rw [ht]; rfl
  have hfuel := g.measure_lt_fuelOf
  -- the state after BACK_UP
  have b := backUp_spec mf s1 g (by omega)
  have hbget : s1.get (s1.sb.next - 1) = c := by
    have := get_prev mf s1 g (by omega)
    rw [ht] at this
    exact (Option.some.inj this).symm
  have hbrem : (backUp s1).remaining = c :: s1.remaining := by rw [b.2.2.1, hbget]
  have hbtext : (backUp s1).text = [] := by rw [b.2.1, ht]; rfl
  have hbcol : (backUp s1).col = col := by rw [b.2.2.2.2.2.1, hcol]; omega
  have hbfuel := b.1.measure_lt_fuelOf
  have hbr0 : racc 0 (backUp s1) = [] := by unfold racc; rw [hbtext]; rfl
  have hbL : (backUp s1).text.length + (backUp s1).remaining.length = s1.remaining.length + 1 := by rw [hbtext, hbrem]; simp
  -- the unquoted-value branch (used twice)
  have hunq : metaOfCls (classOf dia c) = .general ∨ metaOfCls (classOf dia c) = .no →
      Sim (RelStep mf aw)
        (L.bind (scanUnquotedB dia mf (fuelOf (backUp s1)) (backUp s1) (backUp s1).sb.limit false 0 true true)
          (fun s2 => L.bind (finishUnquotedB dia s2) (fun f => L.pure (StepB.tok f.1 f.2))))
        (L.bind (scanUnquoted dia (c :: s1.remaining) s1.line col false [] 0 true true)
          (fun s => finishUnquoted dia aw s.acc.reverse s.pos)) := by
    intro hmeta
    have hs := scanUnquotedB_sim dia mf (s1.remaining.length + 1) (fuelOf (backUp s1)) (backUp s1) _ false 0 true true b.1 rfl
      (by rw [b.2.2.2.1, h0]) (fun h => by simp at h) hbfuel hbL
    rw [hbrem, b.2.2.2.2.1, hbcol, hbr0] at hs
    apply sim_bind' hs
    intro s2 sc o ⟨pol, log, log', hprod⟩
    have hlt := scanUnquoted_len_lt dia c _ _ _ _ _ _ _ _ _ _ _ hmeta hprod
    have hne := o.nonempty (by omega)
    have := finishUnquotedB_sim dia mf aw s2 o.good o.bound hne (o.whole rfl) (o.fits rfl)
    rw [o.value, o.rem, o.line, o.col] at this
    exact sim_map_left (fun f : TokType × BS => StepB.tok f.1 f.2) this
  unfold stepTokB stepTok
  simp only [bind_eq, pure_eq]
  rw [show col + 1 - 1 = col from by omega, ← hcol, show s1.col - 1 = col from by omega]
  apply sim_bind_same
  intro _
  by_cases heol : classOf dia c = .eol
  · simp only [heol, if_true]
    have hs := scanWsB_sim dia mf (fuelOf (backUp s1)) (backUp s1) _ 0 b.1 rfl hbfuel
    rw [hbrem, b.2.2.2.2.1, hbcol] at hs
    apply sim_bind hs
    intro s2 p o
    apply sim_pure
    have cg := consumeToken_good o.good
    exact ⟨rfl, cg.1, cg.2.1.trans o.rem, o.line, o.col, cg.2.2⟩
  · simp only [heol, if_false]
    by_cases hws : classOf dia c = .ws
    · simp only [hws, if_true]
      have hs := scanWsB_sim dia mf (fuelOf s1) s1 _ 0 g rfl hfuel
      apply sim_bind hs
      intro s2 p o
      apply sim_pure
      have cg := consumeToken_good o.good
      exact ⟨rfl, cg.1, cg.2.1.trans o.rem, o.line, o.col, cg.2.2⟩
    · simp only [hws, if_false]
      by_cases hhash : classOf dia c = .hash
      · simp only [hhash, if_true]
        have hs := scanToEolB_sim dia mf _ (fuelOf s1) s1 _ false g rfl h0 (fun h => by simp at h) hfuel hL
        rw [hr0] at hs
        apply sim_bind hs
        intro s2 sc o
        apply sim_pure
        have cg := consumeToken_good o.good
        exact ⟨rfl, cg.1, cg.2.1.trans o.rem, o.line, o.col, cg.2.2⟩
      · simp only [hhash, if_false]
        by_cases hund : classOf dia c = .undersc
        · simp only [hund, if_true]
          have hs := scanToWsB_sim dia mf _ (fuelOf s1) s1 _ false g rfl h0 (fun h => by simp at h) hfuel hL
          rw [hr0] at hs
          apply sim_bind' hs
          intro s2 sc o ⟨pol, log, log', hprod⟩
          have hle := scanToWs_len dia _ _ _ _ _ _ _ _ _ hprod
          apply sim_pure
          exact ⟨o.good, rfl, o.value, o.line, o.col, o.rem, o.line, o.col, o.nonempty (by omega), o.bound, TokShape.other (by simp) (by simp) (by simp) (by simp) (by simp)⟩
        · simp only [hund, if_false]
          have hbr : ∀ ty, (∀ s, TokShape ty s) → RelStep mf aw (.tok ty { s1 with tvlen := 1 }) (mkTok ty [c] ⟨s1.remaining, s1.line, s1.col⟩) := by
            intro ty hbrk'
            have hbrk := fun (_ : TokType) => hbrk' { s1 with tvlen := 1 }
            have g' : Good mf { s1 with tvlen := 1 } := g.congr rfl rfl rfl
            refine ⟨g', rfl, ?_, rfl, rfl, rfl, rfl, rfl, by show s1.sb.textStart < s1.sb.next; omega,
              by show s1.sb.tvalueStart + 1 ≤ s1.sb.next; omega, ?_⟩
            · rw [value_eq mf _ g' (by show s1.sb.tvalueStart + 1 ≤ s1.sb.next; omega)]
              show (s1.text.drop s1.sb.tvalueOffset).take 1 = [c]
              rw [ht, h0]; rfl
            · exact hbrk ty
          by_cases h1 : classOf dia c = .obrak
          · simp only [h1, if_true]; exact sim_pure (hbr _ (fun _ => TokShape.other (by simp) (by simp) (by simp) (by simp) (by simp)))
          · simp only [h1, if_false]
            by_cases h2 : classOf dia c = .cbrak
            · simp only [h2, if_true]; exact sim_pure (hbr _ (fun _ => TokShape.other (by simp) (by simp) (by simp) (by simp) (by simp)))
            · simp only [h2, if_false]
              by_cases h3 : classOf dia c = .ocurl
              · simp only [h3, if_true]; exact sim_pure (hbr _ (fun _ => TokShape.other (by simp) (by simp) (by simp) (by simp) (by simp)))
              · simp only [h3, if_false]
                by_cases h4 : classOf dia c = .ccurl
                · simp only [h4, if_true]; exact sim_pure (hbr _ (fun _ => TokShape.other (by simp) (by simp) (by simp) (by simp) (by simp)))
                · simp only [h4, if_false]
                  have hmeta := meta_general_or_no _ heol hws h1 h2 h3 h4
                  by_cases hq : classOf dia c = .quote
                  · simp only [hq, if_true]
                    have hdel : s1.get s1.sb.textStart = c := by
                      have := get_first mf s1 g (by rw [ht]; simp)
                      rw [ht] at this
                      exact (Option.some.inj this).symm
                    rw [hdel]
                    have hs := scanDelimB_sim dia mf _ c (fuelOf s1) s1 _ false true g rfl h0 (by rw [ht]; simp)
                      (fun h => by simp at h) (by rw [ht]; simp) (by rw [ht]; rfl) hfuel hL
                    rw [hr1] at hs
                    apply sim_bind' hs
                    intro s2 sc o ⟨pol, log, log', hprod⟩
                    have hle := scanDelim_len dia _ _ _ _ _ _ _ _ _ _ _ hprod
                    apply sim_pure
                    have := keyPeekB_rel mf aw .key .qvalue s2 o.good o.bound (o.nonempty (by omega)) (Or.inl rfl) (by simp)
                    rw [o.value, o.rem, o.line, o.col] at this
                    exact this
                  · simp only [hq, if_false]
                    by_cases hsemi : classOf dia c = .semi
                    · by_cases hc1 : s1.col = 1
                      · simp only [hsemi, hc1, and_self, if_true]
                        have hne13 : s1.text.head? ≠ some 13 := by
                          rw [ht]
                          intro h
                          have : c = 13 := by simpa using h
                          rw [this, classOf_cr] at hsemi
                          exact absurd hsemi (by simp)
                        have hs := scanTextB_sim dia mf _ (fuelOf s1) s1 _ false 0 g rfl h0 (by rw [ht]; simp)
                          (fun h => by simp at h) (fun h => absurd rfl h) hne13 hfuel hL
                        rw [hr1, hc1] at hs
                        apply sim_bind' hs
                        intro s2 sc o ⟨pol, log, log', hprod⟩
                        have hle := scanText_len dia _ _ _ _ _ _ _ _ _ _ hprod
                        by_cases hv : dia = .cif2
                        · simp only [hv, if_true]
                          apply sim_pure
                          have := keyPeekB_rel mf aw .tkey .tvalue s2 o.good o.bound (o.nonempty (by omega)) (Or.inr rfl) (by simp)
                          rw [o.value, o.rem, o.line, o.col] at this
                          exact this
                        · simp only [hv, if_false]
                          apply sim_pure
                          exact ⟨o.good, rfl, o.value, o.line, o.col, o.rem, o.line, o.col, o.nonempty (by omega), o.bound, TokShape.other (by simp) (by simp) (by simp) (by simp) (by simp)⟩
                      · simp only [hsemi, hc1, and_false, if_false, if_true]
                        exact hunq hmeta
                    · simp only [hsemi, false_and, if_false]
                      exact hunq hmeta

/-! ### next_token -/

/-- related results of next_token's loop -/
structure RelTok (mf : Nat) (s' : BS) (tp : Tok × Pos) : Prop where
  good : Good mf s'
  tok : s'.tok = tp.1
  rem : s'.remaining = tp.2.rest
  line : s'.line = tp.2.line
  col : s'.col = tp.2.col
  bound : s'.sb.tvalueStart + s'.tvlen ≤ s'.sb.next
  shape : TokShape s'.ttype s'

theorem nextChar_none {mf : Nat} {s : BS} (h : (peekChar mf s).1 = none) : nextChar mf s = (none, (peekChar mf s).2) := by
  unfold nextChar; simp only [h]

theorem nextChar_some {mf : Nat} {s : BS} {c : CU} (h : (peekChar mf s).1 = some c) :
    nextChar mf s = (some c, skipOne (peekChar mf s).2) := by
  unfold nextChar; simp only [h]; rfl

/-- a token is ready: the loop is left -/
theorem tokLoopB_exit (dia : Dialect) (mf fuel : Nat) (s : BS) (aw : Bool) (ty : TokType) (h : s.sb.textStart < s.sb.next) :
    tokLoopB dia mf fuel s aw ty = L.pure { s with ttype := ty } := by
  cases fuel with
  | zero => rfl
  | succ f =>
    unfold tokLoopB
    rw [if_neg (by omega)]
    rfl

/-- one iteration of the loop from the state `s0` in which `tvalue_start` / `tvalue_length` have been reset -/
def tokIter (dia : Dialect) (mf fuel : Nat) (aw : Bool) (s0 : BS) : L BS :=
  match (nextChar mf s0).1 with
  | none => pure { (nextChar mf s0).2 with ttype := .end_ }
  | some c => do
    let st ← stepTokB dia mf aw c (nextChar mf s0).2
    match st with
    | .tok ty' s2 => tokLoopB dia mf fuel s2 aw ty'
    | .skip aw' s2 => tokLoopB dia mf fuel s2 aw' .error

theorem tokLoopB_succ (dia : Dialect) (mf fuel : Nat) (s : BS) (aw : Bool) (ty : TokType) (h : s.sb.textStart ≥ s.sb.next) :
    tokLoopB dia mf (fuel + 1) s aw ty
      = tokIter dia mf fuel aw { s with sb := { s.sb with tvalueStart := s.sb.textStart }, tvlen := 0 } := by
  rw [tokLoopB, if_pos h]
  rfl

theorem tokIter_sim (dia : Dialect) (mf fuel : Nat) (aw : Bool) (s0 : BS) (line col : Nat)
    (ih : ∀ (s : BS) (aw : Bool) (ty : TokType), Good mf s → s.sb.textStart = s.sb.next → s.remaining.length < fuel →
      Sim (RelTok mf) (tokLoopB dia mf fuel s aw ty) (tokLoop dia fuel aw ⟨s.remaining, s.line, s.col⟩))
    (g0 : Good mf s0) (htext0 : s0.text = []) (htv0 : s0.sb.tvalueOffset = 0) (hlen0 : s0.tvlen = 0)
    (hline : s0.line = line) (hcol : s0.col = col) (hf : s0.remaining.length < fuel + 1) :
    Sim (RelTok mf) (tokIter dia mf fuel aw s0) (tokLoop dia (fuel + 1) aw ⟨s0.remaining, line, col⟩) := by
  have pk := peekChar_spec mf s0 g0
  have sm := pk.1
  unfold tokIter
  cases hp : (peekChar mf s0).1 with
  | none =>
    rw [nextChar_none hp]
    have hnil := pk.2.1 hp
    rw [hnil]
    simp only []
    intro pol log
    rw [tokLoop_nil]
    refine ⟨rfl, sm.good.congr rfl rfl rfl, ?_, ?_, sm.line.trans hline, sm.col.trans hcol, ?_, TokShape.other (by simp) (by simp) (by simp) (by simp) (by simp)⟩
    · show (⟨TokType.end_, (peekChar mf s0).2.value, (peekChar mf s0).2.line, (peekChar mf s0).2.col⟩ : Tok) = ⟨.end_, [], line, col⟩
      have hv : (peekChar mf s0).2.value = [] := by
        simp only [BS.value, sm.tvlen, hlen0]; rfl
      rw [hv, sm.line, sm.col, hline, hcol]
    · show (peekChar mf s0).2.remaining = []
      rw [sm.rem, hnil]
    · show (peekChar mf s0).2.sb.tvalueStart + (peekChar mf s0).2.tvlen ≤ (peekChar mf s0).2.sb.next
      rw [sm.tvlen, hlen0]
      have := sm.good.inv.2.1
      omega
  | some c =>
    rw [nextChar_some hp]
    have hp2 := pk.2.2 c hp
    have ad := skipOne_adv mf dia _ sm.good hp2.1
    rw [← hp2.2] at ad
    have hrc : s0.remaining = c :: (skipOne (peekChar mf s0).2).remaining := by
      have := ad.rem
      rw [sm.rem, ← hp2.2] at this
      exact this
    have hfl : (skipOne (peekChar mf s0).2).remaining.length < fuel := by
      rw [hrc] at hf; simp only [List.length_cons] at hf; omega
    rw [hrc, tokLoop_cons]
    simp only []
    have h1text : (skipOne (peekChar mf s0).2).text = [c] := by
      rw [ad.text, sm.text, htext0]; rfl
    have hst := stepTokB_sim dia mf aw c _ col ad.good h1text (by rw [ad.tvoff, sm.tvoff, htv0])
      (by show (peekChar mf s0).2.col + 1 = col + 1; rw [sm.col, hcol]) (by show (peekChar mf s0).2.tvlen = 0; rw [sm.tvlen, hlen0])
    have hl1 : (skipOne (peekChar mf s0).2).line = line := by
      show (peekChar mf s0).2.line = line
      rw [sm.line, hline]
    rw [hl1] at hst
    show Sim _ (L.bind _ _) (L.bind _ _)
    apply sim_bind' hst
    intro stB st rel ⟨pol, log, log', hprod⟩
    have hle := (stepTok_len dia aw c _ _ _ pol log log' st hprod).1
    cases stB with
    | tok ty' s2 =>
      cases st with
      | tok t p =>
        obtain ⟨r1, r2, r3, r4, r5, r6, r7, r8, r9, r10, r11⟩ := rel
        simp only []
        rw [tokLoopB_exit dia mf fuel s2 aw ty' r9]
        apply sim_pure
        refine ⟨r1.congr rfl rfl rfl, ?_, r6, r7, r8, r10, r11⟩
        show (⟨ty', s2.value, s2.line, s2.col⟩ : Tok) = t
        rw [r2, r3, r4, r5]
      | skip aw' p =>
        obtain ⟨r1, r2, r3, r4, r5, r6⟩ := rel
        simp only []
        have hlp : p.rest.length < fuel := by simp only [Step.pos] at hle; omega
        subst r1
        have := ih s2 aw' ty' r2 r6 (by rw [r3]; exact hlp)
        rw [r3, r4, r5] at this
        exact this
    | skip aw2 s2 =>
      cases st with
      | tok t p => exact rel.elim
      | skip aw' p =>
        obtain ⟨r1, r2, r3, r4, r5, r6⟩ := rel
        simp only []
        have hlp : p.rest.length < fuel := by simp only [Step.pos] at hle; omega
        subst r1
        have := ih s2 aw2 .error r2 r6 (by rw [r3]; exact hlp)
        rw [r3, r4, r5] at this
        exact this

theorem tokLoopB_sim (dia : Dialect) (mf : Nat) : ∀ (fuel : Nat) (s : BS) (aw : Bool) (ty : TokType), Good mf s →
    s.sb.textStart = s.sb.next → s.remaining.length < fuel →
    Sim (RelTok mf) (tokLoopB dia mf fuel s aw ty) (tokLoop dia fuel aw ⟨s.remaining, s.line, s.col⟩) := by
  intro fuel
  induction fuel with
  | zero => intro s aw ty g ht hf; omega
  | succ fuel ih =>
    intro s aw ty g ht hf
    obtain ⟨i1, i2, i3, i4, i5⟩ := g.inv
    rw [tokLoopB_succ dia mf fuel s aw ty (by omega)]
    have g0 : Good mf { s with sb := { s.sb with tvalueStart := s.sb.textStart }, tvlen := 0 } :=
      ⟨⟨Nat.le_refl _, by show s.sb.textStart ≤ s.sb.next; omega, i3, i4, i5⟩, g.size, g.mf, g.ok, g.eof⟩
    have htext0 : ({ s with sb := { s.sb with tvalueStart := s.sb.textStart }, tvlen := 0 } : BS).text = [] := by
      have := g0.text_length
      have h2 : ({ s with sb := { s.sb with tvalueStart := s.sb.textStart }, tvlen := 0 } : BS).sb.next -
          ({ s with sb := { s.sb with tvalueStart := s.sb.textStart }, tvlen := 0 } : BS).sb.textStart = 0 := by
        show s.sb.next - s.sb.textStart = 0; omega
      rw [h2] at this
      exact List.eq_nil_of_length_eq_zero this
    exact tokIter_sim dia mf fuel aw _ s.line s.col ih g0 htext0 (by simp [SB.tvalueOffset]) rfl rfl rfl hf

/-! ### next_token as a whole, token streams -/

/-- the buffer-level scanner between two tokens (after CONSUME_TOKEN) against the lexer model's scanner state -/
structure Abs (mf : Nat) (s : BS) (sc : Scan) : Prop where
  good : Good mf s
  cons : s.sb.textStart = s.sb.next
  rem : s.remaining = sc.rest
  line : s.line = sc.line
  col : s.col = sc.col
  ty : s.ttype = sc.lastType

def RelNT (mf : Nat) (s' : BS) (r : Tok × Scan) : Prop :=
  Good mf s' ∧ s'.tok = r.1 ∧ s'.remaining = r.2.rest ∧ s'.line = r.2.line ∧ s'.col = r.2.col ∧ s'.ttype = r.2.lastType ∧
  s'.sb.tvalueStart + s'.tvlen ≤ s'.sb.next ∧ TokShape s'.ttype s'

theorem nextTokenB_sim (dia : Dialect) (mf : Nat) (s : BS) (sc : Scan) (a : Abs mf s sc) :
    Sim (RelNT mf) (nextTokenB dia mf s) (nextToken dia sc) := by
  intro pol log
  rw [nextToken_eq]
  unfold nextTokenB
  have hm := a.good.measure_lt_fuelOf
  have hlt : s.remaining.length < fuelOf s := by simp only [BS.measure] at hm; omega
  have h := tokLoopB_sim dia mf (fuelOf s) s (afterWsOf s.ttype) s.ttype a.good a.cons hlt pol log
  rw [a.rem, a.line, a.col, a.ty] at h
  rw [tokLoop_fuel dia pol (fuelOf s) (sc.rest.length + 1) _ ⟨sc.rest, sc.line, sc.col⟩ log (by rw [← a.rem]; exact hlt) (by simp)] at h
  rw [a.ty]
  cases h1 : tokLoopB dia mf (fuelOf s) s (afterWsOf sc.lastType) sc.lastType pol log with
  | ok s' l =>
    cases h2 : tokLoop dia (sc.rest.length + 1) (afterWsOf sc.lastType) ⟨sc.rest, sc.line, sc.col⟩ pol log with
    | ok tp l' =>
      rw [h1, h2] at h
      obtain ⟨t, p⟩ := tp
      obtain ⟨e, r⟩ := h
      exact ⟨e, r.good, r.tok, r.rem, r.line, r.col, by have := congrArg Tok.ty r.tok; exact this, r.bound, r.shape⟩
    | abort rv l' => rw [h1, h2] at h; exact h.elim
  | abort rv l =>
    cases h2 : tokLoop dia (sc.rest.length + 1) (afterWsOf sc.lastType) ⟨sc.rest, sc.line, sc.col⟩ pol log with
    | ok tp l' => rw [h1, h2] at h; exact h.elim
    | abort rv' l' => rw [h1, h2] at h; exact h

theorem tokensLoopB_sim (dia : Dialect) (mf : Nat) (pol : Policy) : ∀ (fuel : Nat) (s : BS) (sc : Scan) (recs : List Rec) (toks : List Tok)
    (log : List Report), Abs mf s sc → recs.map (·.tok) = toks →
    (tokensLoopB dia mf pol fuel s recs log).1.map (·.tok) = (tokensLoop dia pol fuel sc toks log).1 ∧
    (tokensLoopB dia mf pol fuel s recs log).2 = (tokensLoop dia pol fuel sc toks log).2 := by
  intro fuel
  induction fuel with
  | zero =>
    intro s sc recs toks log a hm
    simp only [tokensLoopB, tokensLoop]
    exact ⟨by rw [← hm, List.map_reverse], trivial⟩
  | succ fuel ih =>
    intro s sc recs toks log a hm
    have h := nextTokenB_sim dia mf s sc a pol log
    simp only [tokensLoopB, tokensLoop]
    cases h1 : nextTokenB dia mf s pol log with
    | ok s' l =>
      cases h2 : nextToken dia sc pol log with
      | ok tp l' =>
        rw [h1, h2] at h
        obtain ⟨t, sc'⟩ := tp
        obtain ⟨e, g', r1, r2, r3, r4, r5, r6, r7⟩ := h
        subst e
        have hty : s'.ttype = t.ty := congrArg Tok.ty r1
        simp only [hty]
        have hm' : (s'.toRec :: recs).map (·.tok) = t :: toks := by
          simp only [List.map_cons, hm]
          have : s'.toRec.tok = t := r1
          rw [this]
        by_cases hend : t.ty = .end_
        · simp only [hend, if_true]
          exact ⟨by rw [← hm', List.map_reverse], trivial⟩
        · simp only [hend, if_false]
          have cg := consumeToken_good g'
          exact ih (consumeToken s') sc' _ _ l ⟨cg.1, cg.2.2, cg.2.1.trans r2, r3, r4, r5⟩ hm'
      | abort rv l' => rw [h1, h2] at h; exact h.elim
    | abort rv l =>
      cases h2 : nextToken dia sc pol log with
      | ok tp l' => rw [h1, h2] at h; exact h.elim
      | abort rv' l' =>
        rw [h1, h2] at h
        obtain ⟨e1, e2⟩ := h
        subst e1; subst e2
        exact ⟨by rw [← hm, List.map_reverse], rfl⟩

/-- with more fuel than remaining units the token stream does not depend on the fuel -/
theorem tokensLoop_fuel (dia : Dialect) (pol : Policy) : ∀ (f1 f2 : Nat) (s : Scan) (toks : List Tok) (log : List Report),
    s.rest.length < f1 → s.rest.length < f2 → tokensLoop dia pol f1 s toks log = tokensLoop dia pol f2 s toks log := by
  intro f1
  induction f1 with
  | zero => intro f2 s toks log h; omega
  | succ f1 ih =>
    intro f2 s toks log h1 h2
    cases f2 with
    | zero => omega
    | succ f2 =>
      simp only [tokensLoop]
      cases hn : nextToken dia s pol log with
      | abort rv l => rfl
      | ok tp l =>
        obtain ⟨t, s'⟩ := tp
        simp only []
        by_cases hend : t.ty = .end_
        · simp only [hend, if_true]
        · simp only [hend, if_false]
          obtain ⟨p, hl, hs⟩ := nextToken_ok_inv hn
          have hp := tokLoop_progress dia pol _ _ _ _ _ _ _ (by simp) hl
          rcases hp with ⟨he, _, _⟩ | ⟨_, _, hlt⟩
          · exact absurd he hend
          · subst hs
            simp only [] at hlt
            exact ih f2 _ _ l (by show p.rest.length < f1; omega) (by show p.rest.length < f2; omega)

/-! ### the initial state: cif_parse_internal's set-up and get_first_char -/

theorem getFirstChar_len (fix : Bool) (src : Src) : ∀ r, getFirstChar fix src = some r → r.1.length ≤ 2 := by
  intro r h
  unfold getFirstChar at h
  simp only [] at h
  split at h
  · cases h
  · split at h
    · split at h
      · cases h; simp
      · split at h
        · split at h <;> (cases h; simp)
        · cases h; simp
    · cases h; simp

theorem init_abs (mf size : Nat) (chunks : List Str) (hmf : 1 ≤ mf) (hsize : 2 ≤ size) (hne : ∀ c ∈ chunks, c ≠ []) :
    Abs mf (BS.init size ⟨chunks⟩) (Scan.init (normalizeEOL chunks.flatten)) := by
  have hfix : Gen.ParseConsts.firstCharFoldsSecondCR = true := by decide
  have hspec := getFirstChar_spec Gen.ParseConsts.firstCharFoldsSecondCR ⟨chunks⟩ hne (Or.inl hfix)
  have hinit : (SB.init size).Inv := ⟨Nat.le_refl _, Nat.le_refl _, Nat.le_refl _, Nat.zero_le _, by simp [SB.init]⟩
  unfold BS.init
  cases hg : getFirstChar Gen.ParseConsts.firstCharFoldsSecondCR ⟨chunks⟩ with
  | none =>
    rw [hg] at hspec
    simp only [] at hspec
    have hflat : chunks.flatten = [] := hspec
    refine ⟨⟨hinit, by show 1 ≤ size; omega, hmf, hne, fun _ => hspec⟩, rfl, ?_, rfl, rfl, rfl⟩
    show (SB.init size).unread ++ normFrom false (Src.flat ⟨chunks⟩) = normalizeEOL chunks.flatten
    rw [hflat]
    simp [SB.unread, SB.init, Src.flat, hflat, normalizeEOL, normFrom_nil]
  | some r =>
    rw [hg] at hspec
    simp only [] at hspec
    obtain ⟨e1, e2, e3, _⟩ := hspec
    have hl := getFirstChar_len _ _ r hg
    have ap := append_spec (SB.init size) r.1 hinit (by show r.1.length ≤ size - 0; omega)
    refine ⟨⟨ap.1, by show 1 ≤ size; omega, hmf, e2, e3⟩, rfl, ?_, rfl, rfl, rfl⟩
    show (append (SB.init size) r.1).unread ++ normFrom r.2.1.crPending r.2.2.flat = normalizeEOL chunks.flatten
    rw [ap.2.2.2]
    have : (SB.init size).unread = [] := by simp [SB.unread, SB.init]
    rw [this, List.nil_append, e1]
    rfl

/-- **buffer-level scanner = list-level lexer on the normalised input**, for every chunking and initial buffer size -/
theorem tokenizeB_eq (dia : Dialect) (mf size : Nat) (pol : Policy) (chunks : List Str) (hmf : 1 ≤ mf) (hsize : 2 ≤ size)
    (hne : ∀ c ∈ chunks, c ≠ []) :
    ((tokenizeB dia mf size pol chunks).1.map (·.tok), (tokenizeB dia mf size pol chunks).2.1, (tokenizeB dia mf size pol chunks).2.2)
      = tokenizeWith dia pol (normalizeEOL chunks.flatten) := by
  have a := init_abs mf size chunks hmf hsize hne
  have h := tokensLoopB_sim dia mf pol (chunks.flatten.length + 1) _ _ [] [] [] a rfl
  have hlen : (normalizeEOL chunks.flatten).length ≤ chunks.flatten.length := normFrom_length_le false _
  have hf := tokensLoop_fuel dia pol (chunks.flatten.length + 1) ((normalizeEOL chunks.flatten).length + 1)
    (Scan.init (normalizeEOL chunks.flatten)) [] [] (by show (normalizeEOL chunks.flatten).length < _; omega)
    (by show (normalizeEOL chunks.flatten).length < _; omega)
  rw [hf] at h
  unfold tokenizeB tokenizeWith
  simp only []
  rw [h.1, h.2]

/-! ### the pointer invariant at every token -/

/-- what the parser may rely on when next_token() has returned: the offsets are ordered and the token value lies inside the
    scanned token text -/
def Rec.ordered (r : Rec) : Prop :=
  r.textStart ≤ r.tvalueStart ∧ r.tvalueStart + r.tok.text.length ≤ r.next ∧ r.next ≤ r.limit ∧ r.limit ≤ r.size

theorem toRec_ordered {mf : Nat} {s : BS} (g : Good mf s) (hb : s.sb.tvalueStart + s.tvlen ≤ s.sb.next) : s.toRec.ordered := by
  obtain ⟨h1, h2, h3, h4, h5⟩ := g.inv
  have := value_length g hb
  exact ⟨h1, by show s.sb.tvalueStart + s.value.length ≤ s.sb.next; omega, h3, h4⟩

/-- whatever holds of every state next_token() can leave (good, value inside the token, `TokShape`) holds of every record -/
theorem tokensLoopB_all (dia : Dialect) (mf : Nat) (pol : Policy) (P : Rec → Prop)
    (hP : ∀ s' : BS, Good mf s' → s'.sb.tvalueStart + s'.tvlen ≤ s'.sb.next → TokShape s'.ttype s' → P s'.toRec) :
    ∀ (fuel : Nat) (s : BS) (sc : Scan) (recs : List Rec)
    (log : List Report), Abs mf s sc → (∀ r ∈ recs, P r) → ∀ r ∈ (tokensLoopB dia mf pol fuel s recs log).1, P r := by
  intro fuel
  induction fuel with
  | zero =>
    intro s sc recs log a hr r hmem
    simp only [tokensLoopB, List.mem_reverse] at hmem
    exact hr r hmem
  | succ fuel ih =>
    intro s sc recs log a hr
    have h := nextTokenB_sim dia mf s sc a pol log
    simp only [tokensLoopB]
    cases h1 : nextTokenB dia mf s pol log with
    | abort rv l =>
      intro r hmem
      simp only [List.mem_reverse] at hmem
      exact hr r hmem
    | ok s' l =>
      cases h2 : nextToken dia sc pol log with
      | abort rv l' => rw [h1, h2] at h; exact h.elim
      | ok tp l' =>
        rw [h1, h2] at h
        obtain ⟨t, sc'⟩ := tp
        obtain ⟨e, g', r1, r2, r3, r4, r5, r6, r7⟩ := h
        have hr' : ∀ r ∈ s'.toRec :: recs, P r := by
          intro r hmem
          rcases List.mem_cons.mp hmem with h | h
          · rw [h]; exact hP s' g' r6 r7
          · exact hr r h
        by_cases hend : s'.ttype = .end_
        · simp only [hend, if_true]
          intro r hmem
          simp only [List.mem_reverse] at hmem
          exact hr' r hmem
        · simp only [hend, if_false]
          have cg := consumeToken_good g'
          exact ih (consumeToken s') sc' _ l ⟨cg.1, cg.2.2, cg.2.1.trans r2, r3, r4, r5⟩ hr'

theorem tokensLoopB_ordered (dia : Dialect) (mf : Nat) (pol : Policy) (fuel : Nat) (s : BS) (sc : Scan) (recs : List Rec)
    (log : List Report) (a : Abs mf s sc) (hr : ∀ r ∈ recs, r.ordered) : ∀ r ∈ (tokensLoopB dia mf pol fuel s recs log).1, r.ordered :=
  tokensLoopB_all dia mf pol Rec.ordered (fun _ g hb _ => toRec_ordered g hb) fuel s sc recs log a hr

/-- the parser's string terminator fits: behind the value of a BLOCK_HEAD / FRAME_HEAD token there is a unit of the buffer array -/
def Rec.terminatorFits (r : Rec) : Prop :=
  (r.tok.ty = .blockHead ∨ r.tok.ty = .frameHead) → r.tvalueStart + r.tok.text.length < r.size

theorem tokensLoopB_fits (dia : Dialect) (mf : Nat) (pol : Policy) (fuel : Nat) (s : BS) (sc : Scan) (recs : List Rec)
    (log : List Report) (a : Abs mf s sc) (hr : ∀ r ∈ recs, r.terminatorFits) :
    ∀ r ∈ (tokensLoopB dia mf pol fuel s recs log).1, r.terminatorFits :=
  tokensLoopB_all dia mf pol Rec.terminatorFits (fun s' g hb sh hty => by
    have := value_length g hb
    have h3 := sh.2.2 hty
    show s'.sb.tvalueStart + s'.value.length < s'.sb.size
    omega) fuel s sc recs log a hr
