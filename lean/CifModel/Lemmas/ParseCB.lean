import CifModel.Model.ParseCB
/-
  CifModel.Lemmas.ParseCB — the skip_depth bookkeeping of the parser model balances.
-/
namespace CifModel.Lemmas.ParseCB
open CifModel.ParseCB

@[simp] theorem reportPre_skip : ∀ (l : List Seg) (s : St), (reportPre l s).skip = s.skip
  | [], s => rfl
  | .ws t :: r, s => by
    simp only [reportPre]
    rw [reportPre_skip r]
    split <;> rfl
  | .comment t :: r, s => by
    simp only [reportPre]
    rw [reportPre_skip r]
    rfl

@[simp] theorem reportPre_n : ∀ (l : List Seg) (s : St), (reportPre l s).n = s.n
  | [], s => rfl
  | .ws t :: r, s => by
    simp only [reportPre]
    rw [reportPre_n r]
    split <;> rfl
  | .comment t :: r, s => by
    simp only [reportPre]
    rw [reportPre_n r]
    rfl

@[simp] theorem nextToken_skip (s : St) : (nextToken s).2.skip = s.skip := by
  unfold nextToken
  split
  · rfl
  · split <;> simp

@[simp] theorem nextToken_n (s : St) : (nextToken s).2.n = s.n := by
  unfold nextToken
  split
  · rfl
  · split <;> simp

@[simp] theorem consume_skip (s : St) : (consume s).skip = s.skip := rfl
@[simp] theorem consume_n (s : St) : (consume s).n = s.n := rfl
@[simp] theorem note_skip (s : St) (e : Ev) : (note s e).skip = s.skip := rfl
@[simp] theorem call_skip (p : Prog) (s : St) (e : Ev) : (call p s e).2.skip = s.skip := rfl
@[simp] theorem push_skip (s : St) (e : Ev) : (push s e).skip = s.skip := rfl
@[simp] theorem push_n (s : St) (e : Ev) : (push s e).n = s.n + 1 := rfl
@[simp] theorem push_log (s : St) (e : Ev) : (push s e).log = e :: s.log := rfl

/-- an answer that is no directive other than END is the result of the call site, and the depth is untouched -/
theorem site_stop (p : Prog) (s : St) (e : Ev) (cur sib : Option Int) (r : Int) (h : p s.n e = r)
    (h1 : r ≠ CONTINUE) (h2 : r ≠ SKIP_CURRENT) (h3 : r ≠ SKIP_SIBLINGS) : site p s e cur sib = (r, push s e) := by
  simp [site, h, h1, h2, h3]

/-- the depth after a handler call site: unchanged, or the value the site assigns for SKIP_CURRENT / SKIP_SIBLINGS -/
theorem site_skip (p : Prog) (s : St) (e : Ev) (cur sib : Option Int) :
    (site p s e cur sib).2.skip = s.skip ∨ cur = some (site p s e cur sib).2.skip ∨ sib = some (site p s e cur sib).2.skip := by
  unfold site
  split
  · left; rfl
  · split
    · cases cur with
      | none => left; rfl
      | some d => right; left; rfl
    · split
      · cases sib with
        | none => left; rfl
        | some d => right; right; rfl
      · left; rfl

/-- values: no handler is called and the depth is not touched -/
theorem value_skip : ∀ (fuel : Nat),
    (∀ s, (parseValue fuel s).2.2.skip = s.skip ∧ (parseValue fuel s).2.2.n = s.n)
    ∧ (∀ s acc, (listLoop fuel s acc).2.2.skip = s.skip ∧ (listLoop fuel s acc).2.2.n = s.n)
    ∧ (∀ s acc, (tableLoop fuel s acc).2.2.skip = s.skip ∧ (tableLoop fuel s acc).2.2.n = s.n)
  | 0 => by simp [parseValue, listLoop, tableLoop]
  | fuel + 1 => by
    obtain ⟨ihv, ihl, iht⟩ := value_skip fuel
    refine ⟨?_, ?_, ?_⟩
    · intro s
      simp only [parseValue]
      split <;> simp [ihl, iht]
    · intro s acc
      simp only [listLoop]
      split
      · split
        · rw [(ihl _ _).1, (ihl _ _).2, (ihv _).1, (ihv _).2]; simp
        · rw [(ihv _).1, (ihv _).2]; simp
      · split <;> simp
    · intro s acc
      simp only [tableLoop]
      split
      · split
        · split
          · rw [(iht _ _).1, (iht _ _).2, (ihv _).1, (ihv _).2]; simp
          · rw [(ihv _).1, (ihv _).2]; simp
        · simp
      · split <;> simp

theorem pv_skip (fuel : Nat) (s : St) : (parseValue fuel s).2.2.skip = s.skip := ((value_skip fuel).1 s).1

/-- "returns with the depth it was entered with": unchanged when entered inside a skipped region; 0 or 1 (a handler of
    the production asked to skip the following siblings) when entered at depth 0 -/
def Bal (e x : Int) : Prop := (e > 0 → x = e) ∧ (e = 0 → x = 0 ∨ x = 1)

theorem Bal.trans {a b c : Int} (h1 : Bal a b) (h2 : Bal b c) : Bal a c := by
  unfold Bal at *
  omega

theorem Bal.refl (a : Int) : Bal a a := by unfold Bal; omega

theorem Bal.nonneg {a b : Int} (ha : 0 ≤ a) (h : Bal a b) : 0 ≤ b := by unfold Bal at h; omega

@[simp] theorem inc_skip (s : St) : (inc s).skip = if s.skip > 0 then s.skip + 1 else s.skip := by
  unfold inc; split <;> rfl
@[simp] theorem dec_skip (s : St) : (dec s).skip = if s.skip > 0 then s.skip - 1 else s.skip := by
  unfold dec; split <;> rfl

/-- parse_item: balanced (a skipped item carries no name) -/
theorem item_bal (p : Prog) (fuel : Nat) (cont : Bool) (name : Option Str) (s : St)
    (h0 : 0 ≤ s.skip) (hn : s.skip > 0 → name = none) :
    Bal s.skip (parseItem p fuel cont name s).2.1.skip := by
  unfold parseItem
  dsimp only
  split
  · simp only [dec_skip, inc_skip, nextToken_skip]
    unfold Bal; omega
  · split
    · cases name with
      | none =>
        simp only [dec_skip, pv_skip, inc_skip, nextToken_skip]
        unfold Bal; omega
      | some nm =>
        have hs : s.skip = 0 := by
          by_cases h : s.skip > 0
          · exact absurd (hn h) (by simp)
          · omega
        dsimp only [scalarItemStep]
        have := site_skip p (parseValue fuel (inc (nextToken s).2)).2.2
          (.item nm (parseValue fuel (inc (nextToken s).2)).2.1) none (some 2)
        simp only [pv_skip, inc_skip, nextToken_skip, reduceCtorEq, Option.some.injEq, false_or] at this
        simp only [dec_skip]
        unfold Bal; omega
    · simp only [dec_skip, pv_skip, inc_skip, nextToken_skip]
      unfold Bal; omega

theorem header_skip : ∀ (fuel : Nat) (s : St) (acc : List Str), (headerLoop fuel s acc).2.2.skip = s.skip
  | 0, s, acc => rfl
  | fuel + 1, s, acc => by
    simp only [headerLoop]
    split
    · rw [header_skip fuel]
      split <;> simp
    · simp

/-- invariant of the packet loop, relative to the depth `b` at the packet boundaries: at a boundary (`col = 0`) the depth
    is balanced with `b`; inside a packet it is one more than `b` (skipped region) or at most 2 (entered at 0) -/
def PInv (b : Int) (col : Nat) (x : Int) : Prop :=
  if col = 0 then Bal b x else (b > 0 → x = b + 1) ∧ (b = 0 → x = 0 ∨ x = 1 ∨ x = 2)

macro "nums" : tactic => `(tactic| simp only [OK, CONTINUE, SKIP_CURRENT, SKIP_SIBLINGS, END, MALFORMED, NOFUEL] at *)

theorem pktStart_inv (p : Prog) (b : Int) (hb : 0 ≤ b) (s : St) (h : Bal b s.skip) (hok : (pktStartStep p s).1 = OK) :
    (b > 0 → (pktStartStep p s).2.skip = b + 1)
    ∧ (b = 0 → (pktStartStep p s).2.skip = 0 ∨ (pktStartStep p s).2.skip = 1 ∨ (pktStartStep p s).2.skip = 2) := by
  unfold pktStartStep
  unfold Bal at h
  by_cases h0 : s.skip > 0
  · simp only [h0, if_true]; omega
  · simp only [h0, if_false]
    have := site_skip p s .pktStart (some 1) (some 2)
    simp only [Option.some.injEq] at this
    omega

theorem itemStep_inv (p : Prog) (nm : Str) (r : Int) (v : V) (s : St) (b : Int) (hb : 0 ≤ b)
    (h : (b > 0 → s.skip = b + 1) ∧ (b = 0 → s.skip = 0 ∨ s.skip = 1 ∨ s.skip = 2)) :
    (b > 0 → (itemStep p nm r v s).2.skip = b + 1)
    ∧ (b = 0 → (itemStep p nm r v s).2.skip = 0 ∨ (itemStep p nm r v s).2.skip = 1 ∨ (itemStep p nm r v s).2.skip = 2) := by
  unfold itemStep
  by_cases h0 : r = OK ∧ s.skip ≤ 0
  · simp only [h0, and_self, if_true]
    have := site_skip p s (.item nm v) none (some 1)
    simp only [reduceCtorEq, Option.some.injEq, false_or] at this
    omega
  · simp only [h0, if_false]; omega

theorem pktEnd_inv (p : Prog) (items : List (Str × V)) (s : St) (b : Int) (hb : 0 ≤ b)
    (h : (b > 0 → s.skip = b + 1) ∧ (b = 0 → s.skip = 0 ∨ s.skip = 1 ∨ s.skip = 2)) :
    Bal b (pktEndStep p items s).2.1.skip := by
  unfold pktEndStep Bal
  by_cases h0 : s.skip > 0
  · simp only [h0, if_true]; omega
  · simp only [h0, if_false]
    have := site_skip p s (.pktEnd items) none (some 1)
    simp only [reduceCtorEq, Option.some.injEq, false_or] at this
    omega

theorem packets_bal (p : Prog) (loopH : Bool) (names : List Str) (b : Int) (hb : 0 ≤ b) :
    ∀ (fuel : Nat) (s : St) (k : PkSt), PInv b k.col s.skip →
      (packetsLoop p loopH names fuel s k).1 = OK → Bal b (packetsLoop p loopH names fuel s k).2.1.skip
  | 0, s, k, _, h => by simp [packetsLoop, NOFUEL, OK] at h
  | fuel + 1, s, k, hinv, h => by
    have ih := packets_bal p loopH names b hb fuel
    unfold packetsLoop at h ⊢
    by_cases hval : isValueStart (nextToken s).1 = true
    · simp only [hval, if_true] at h ⊢
      -- state after the (possible) packet_start
      generalize hs1 : (if k.col = 0 then pktStartStep p (nextToken s).2 else (OK, (nextToken s).2)) = s1 at h ⊢
      by_cases h1 : s1.1 = OK
      · simp only [h1, ne_eq, not_true_eq_false, if_false] at h ⊢
        have hmid : (b > 0 → s1.2.skip = b + 1) ∧ (b = 0 → s1.2.skip = 0 ∨ s1.2.skip = 1 ∨ s1.2.skip = 2) := by
          unfold PInv at hinv
          by_cases hc : k.col = 0
          · simp only [hc, if_true] at hinv hs1
            subst hs1
            exact pktStart_inv p b hb _ (by simpa using hinv) h1
          · simp only [hc, if_false] at hinv hs1
            subst hs1
            simpa using hinv
        have hpv : (b > 0 → (parseValue fuel s1.2).2.2.skip = b + 1)
            ∧ (b = 0 → (parseValue fuel s1.2).2.2.skip = 0 ∨ (parseValue fuel s1.2).2.2.skip = 1 ∨ (parseValue fuel s1.2).2.2.skip = 2) := by
          rw [pv_skip]; exact hmid
        have hit := itemStep_inv p (names.getD k.col []) (parseValue fuel s1.2).1 (parseValue fuel s1.2).2.1
          (parseValue fuel s1.2).2.2 b hb hpv
        generalize (itemStep p (names.getD k.col []) (parseValue fuel s1.2).1 (parseValue fuel s1.2).2.1
          (parseValue fuel s1.2).2.2) = it at h hit ⊢
        by_cases h2 : it.1 = OK
        · simp only [h2, ne_eq, not_true_eq_false, if_false] at h ⊢
          by_cases hcol : (k.col + 1) % names.length = 0
          · simp only [hcol, if_true] at h ⊢
            have hpe := pktEnd_inv p (List.zip names (k.row ++ [(parseValue fuel s1.2).2.1])) it.2 b hb hit
            generalize (pktEndStep p (List.zip names (k.row ++ [(parseValue fuel s1.2).2.1])) it.2) = pe at h hpe ⊢
            by_cases h3 : pe.1 = OK
            · simp only [h3, ne_eq, not_true_eq_false, if_false] at h ⊢
              exact ih _ _ (by unfold PInv; simpa using hpe) h
            · simp only [h3, ne_eq, not_false_eq_true, if_true] at h
          · simp only [hcol, if_false] at h ⊢
            exact ih _ _ (by unfold PInv; simp only [hcol, if_false]; exact hit) h
        · simp only [h2, ne_eq, not_false_eq_true, if_true] at h
      · simp only [h1, ne_eq, not_false_eq_true, if_true] at h
    · simp only [hval, Bool.false_eq_true, if_false] at h ⊢
      split at h
      · simp [MALFORMED, OK] at h
      · split at h
        · simp [MALFORMED, OK] at h
        · split at h
          · simp [MALFORMED, OK] at h
          · rename_i hc1 hc2 hc3
            simp only [hc1, hc2, hc3, if_false]
            have hc0 : k.col = 0 := by simpa using hc2
            unfold PInv at hinv
            simpa [hc0] using hinv

/-- the loop_start step: a skipped loop keeps its depth; at depth 0 the handler may raise it to 1 or 2 -/
theorem loopStart_inv (p : Prog) (cont : Bool) (names : List Str) (s : St) (h0 : 0 ≤ s.skip) :
    (s.skip > 0 → (loopStartStep p cont names s).2.1.skip = s.skip)
    ∧ (s.skip = 0 → (loopStartStep p cont names s).2.1.skip = 0 ∨ (loopStartStep p cont names s).2.1.skip = 1
        ∨ (loopStartStep p cont names s).2.1.skip = 2) := by
  unfold loopStartStep
  by_cases h : s.skip ≤ 0
  · simp only [h, if_true]
    have := site_skip p s (.loopStart names) (some 1) (some 2)
    simp only [Option.some.injEq] at this
    omega
  · simp only [h, if_false]; exact ⟨fun _ => trivial, by omega⟩

theorem loopStart_noBody (p : Prog) (cont : Bool) (names : List Str) (s : St)
    (h : (loopStartStep p cont names s).2.2.2 = false) : (loopStartStep p cont names s).1 ≠ OK := by
  unfold loopStartStep at h ⊢
  by_cases h0 : s.skip ≤ 0
  · simp only [h0, if_true] at h ⊢
    simpa using h
  · simp [h0] at h

theorem loopEnd_ne (p : Prog) (hd : Option (List Str)) (r : Int) (s : St) (hr : r ≠ OK) :
    (loopEndStep p hd r s).1 = r := by
  unfold loopEndStep
  split
  · rfl
  · simp [hr]

theorem loopEnd_skip (p : Prog) (hd : Option (List Str)) (r : Int) (s : St) :
    (s.skip > 0 → (loopEndStep p hd r s).2.skip = s.skip - 1 ∧ (loopEndStep p hd r s).1 = r)
    ∧ (s.skip ≤ 0 → (loopEndStep p hd r s).2.skip = s.skip ∨ (loopEndStep p hd r s).2.skip = 1) := by
  unfold loopEndStep
  by_cases h : s.skip > 0
  · simp only [h, if_true]; exact ⟨fun _ => ⟨trivial, trivial⟩, by omega⟩
  · simp only [h, if_false]
    refine ⟨fun h' => absurd h' (by simp), fun _ => ?_⟩
    by_cases hr : r = OK
    · simp only [hr, if_true]
      have := site_skip p s (.loopEnd hd) none (some 1)
      simp only [reduceCtorEq, Option.some.injEq, false_or] at this
      omega
    · simp only [hr, if_false]; left; trivial

/-- parse_loop: balanced -/
theorem loop_bal (p : Prog) (fuel : Nat) (cont : Bool) (s : St) (h0 : 0 ≤ s.skip)
    (hok : (parseLoop p fuel cont s).1 = OK) : Bal s.skip (parseLoop p fuel cont s).2.1.skip := by
  unfold parseLoop at hok ⊢
  have hhd : (headerLoop fuel (inc s) []).2.2.skip = if s.skip > 0 then s.skip + 1 else s.skip := by
    rw [header_skip, inc_skip]
  generalize headerLoop fuel (inc s) [] = hd at hok hhd ⊢
  dsimp only at hok ⊢
  by_cases h1 : hd.1 = OK
  · simp only [h1, ne_eq, not_true_eq_false, if_false] at hok ⊢
    by_cases h2 : hd.2.1.isEmpty = true
    · simp only [h2, if_true] at hok
      rw [loopEnd_ne p none MALFORMED hd.2.2 (by decide)] at hok
      exact absurd hok (by decide)
    · simp only [h2, Bool.false_eq_true, if_false] at hok ⊢
      have hb0 : 0 ≤ hd.2.2.skip := by rw [hhd]; split <;> omega
      have hls := loopStart_inv p cont hd.2.1 hd.2.2 hb0
      have hnb := loopStart_noBody p cont hd.2.1 hd.2.2
      generalize loopStartStep p cont hd.2.1 hd.2.2 = ls at hok hls hnb ⊢
      by_cases h3 : ls.2.2.2 = true
      · simp only [h3, if_true] at hok ⊢
        have hb : 0 ≤ ls.2.1.skip := by omega
        have hpk := packets_bal p ls.2.2.1 hd.2.1 ls.2.1.skip hb fuel ls.2.1
          { col := 0, row := [], havePk := false, stored := [] } (by unfold PInv; simp [Bal.refl])
        generalize packetsLoop p ls.2.2.1 hd.2.1 fuel ls.2.1 { col := 0, row := [], havePk := false, stored := [] } = pk
          at hok hpk ⊢
        have hle := loopEnd_skip p (if ls.2.2.1 = true then some hd.2.1 else none) pk.1 pk.2.1
        have hne := loopEnd_ne p (if ls.2.2.1 = true then some hd.2.1 else none) pk.1 pk.2.1
        generalize loopEndStep p (if ls.2.2.1 = true then some hd.2.1 else none) pk.1 pk.2.1 = e at hok hle hne ⊢
        have hr : pk.1 = OK := by
          by_cases hr : pk.1 = OK
          · exact hr
          · rw [hne hr] at hok; exact absurd hok hr
        have hbal := hpk hr
        unfold Bal at hbal ⊢
        by_cases hpos : pk.2.1.skip > 0
        · have := (hle.1 hpos).1
          omega
        · have := hle.2 (by omega)
          omega
      · simp only [h3, Bool.false_eq_true, if_false] at hok
        have := hnb (by simpa using h3)
        rw [loopEnd_ne p _ ls.1 ls.2.1 this] at hok
        exact absurd hok this
  · simp only [h1, ne_eq, not_false_eq_true, if_true] at hok
    rw [loopEnd_ne p none hd.1 hd.2.2 h1] at hok
    exact absurd hok h1

theorem contStart_inv (p : Prog) (cont isBlock : Bool) (code : Str) (s : St) (h0 : 0 ≤ s.skip) :
    (s.skip > 0 → (contStartStep p cont isBlock code s).2.skip = s.skip + 1)
    ∧ (s.skip = 0 → (contStartStep p cont isBlock code s).2.skip = 0 ∨ (contStartStep p cont isBlock code s).2.skip = 1
        ∨ (contStartStep p cont isBlock code s).2.skip = 2) := by
  unfold contStartStep
  by_cases h : s.skip > 0
  · simp only [h, if_true, inc_skip]; exact ⟨fun _ => trivial, by omega⟩
  · simp only [h, if_false]
    refine ⟨fun h' => absurd h' (by simpa using h), fun _ => ?_⟩
    have := site_skip p s (if isBlock then Ev.blockStart (if cont then some code else none)
      else Ev.frameStart (if cont then some code else none)) (some 1) (some 2)
    simp only [Option.some.injEq] at this
    omega

theorem containerEnd_ne (p : Prog) (cont isBlock : Bool) (code : Str) (r : Int) (s : St) (c : Content) (hr : r ≠ OK) :
    (containerEnd p cont isBlock code r s c).1 = r := by
  unfold containerEnd
  simp [hr]

/-- container_end from depth `x`: one level is popped; at depth 0 the end handler may set the depth to 1 -/
theorem containerEnd_skip (p : Prog) (cont isBlock : Bool) (code : Str) (r : Int) (s : St) (c : Content) :
    (s.skip > 1 → (containerEnd p cont isBlock code r s c).2.1.skip = s.skip - 1)
    ∧ (s.skip = 1 ∨ s.skip = 0 → (containerEnd p cont isBlock code r s c).2.1.skip = 0
        ∨ (containerEnd p cont isBlock code r s c).2.1.skip = 1) := by
  unfold containerEnd
  have hd := dec_skip s
  generalize dec s = d at hd ⊢
  by_cases h : r = OK ∧ d.skip ≤ 0
  · simp only [h, and_self, if_true]
    have := site_skip p d (if isBlock then Ev.blockEnd (if cont then some code else none)
      else Ev.frameEnd (if cont then some code else none)) none (some 1)
    simp only [reduceCtorEq, Option.some.injEq, false_or] at this
    have h2 := h.2
    split at hd <;> omega
  · simp only [h, if_false]
    split at hd <;> omega

/-- an element production followed by the rest of the element loop -/
theorem seq_bal (e x1 : Int) (xs : St) (cB : Content) (rest : Int × St × Content) (he : 0 ≤ e)
    (hprod : x1 = OK → Bal e xs.skip)
    (hrec : 0 ≤ xs.skip → rest.1 = OK → Bal xs.skip rest.2.1.skip)
    (hok : (if x1 = OK then rest else (x1, xs, cB)).1 = OK) :
    Bal e (if x1 = OK then rest else (x1, xs, cB)).2.1.skip := by
  by_cases h : x1 = OK
  · simp only [h, if_true] at hok ⊢
    exact (hprod h).trans (hrec (Bal.nonneg he (hprod h)) hok)
  · simp only [h, if_false] at hok

/-- parse_container and its element loop: balanced (mutual induction on the fuel) -/
theorem container_bal (p : Prog) (m : Int) : ∀ (fuel : Nat),
    (∀ cont isBlock code s, 0 ≤ s.skip → (parseContainer p m fuel cont isBlock code s).1 = OK →
        Bal s.skip (parseContainer p m fuel cont isBlock code s).2.1.skip)
    ∧ (∀ cont isBlock s c, 0 ≤ s.skip → (elemsLoop p m fuel cont isBlock s c).1 = OK →
        Bal s.skip (elemsLoop p m fuel cont isBlock s c).2.1.skip)
  | 0 => by
    constructor
    · intro cont isBlock code s _ h; simp [parseContainer, NOFUEL, OK] at h
    · intro cont isBlock s c _ h; simp [elemsLoop, NOFUEL, OK] at h
  | fuel + 1 => by
    obtain ⟨ihc, ihe⟩ := container_bal p m fuel
    constructor
    · intro cont isBlock code s h0 hok
      unfold parseContainer at hok ⊢
      dsimp only at hok ⊢
      have hst := contStart_inv p cont isBlock code s h0
      generalize contStartStep p cont isBlock code s = st at hok hst ⊢
      by_cases h1 : st.1 = OK
      · simp only [h1, ne_eq, not_true_eq_false, if_false] at hok ⊢
        have hst0 : 0 ≤ st.2.skip := by omega
        have hel := ihe cont isBlock st.2 Content.empty hst0
        generalize elemsLoop p m fuel cont isBlock st.2 Content.empty = el at hok hel ⊢
        have hr : el.1 = OK := by
          by_cases hr : el.1 = OK
          · exact hr
          · rw [containerEnd_ne p cont isBlock code el.1 el.2.1 el.2.2 hr] at hok; exact absurd hok hr
        have hb := hel hr
        have hce := containerEnd_skip p cont isBlock code el.1 el.2.1 el.2.2
        unfold Bal at hb ⊢
        omega
      · simp only [h1, ne_eq, not_false_eq_true, if_true] at hok
        rw [containerEnd_ne p cont isBlock code st.1 st.2 Content.empty h1] at hok
        exact absurd hok h1
    · intro cont isBlock s0 c h0 hok
      unfold elemsLoop at hok ⊢
      dsimp only at hok ⊢
      have hnt : (nextToken s0).2.skip = s0.skip := nextToken_skip s0
      generalize nextToken s0 = nt at hok hnt ⊢
      split at hok
      · -- blockHead
        split at hok <;> simp_all [Bal.refl, MALFORMED, OK]
      · -- frameHead
        have hcs : (consume nt.2).skip = s0.skip := by simp [hnt]
        split at hok
        · -- frame = NULL
          split
          · refine seq_bal _ _ _ _ _ h0 (fun h => ?_) (fun h1 h => ?_) hok
            · have := ihc false false (cur nt.2).text (consume nt.2) (by omega) h
              rwa [hcs] at this
            · exact ihe _ _ _ _ h1 h
          · rename_i h1 h2; exact absurd h1 h2
        · rename_i hnn
          split at hok
          · simp [MALFORMED, OK] at hok
          · split at hok
            · simp [MALFORMED, OK] at hok
            · rename_i hm0 hm1
              simp only [hnn, hm0, hm1, if_false]
              refine seq_bal _ _ _ _ _ h0 (fun h => ?_) (fun h1 h => ?_) hok
              · have := ihc true false (cur nt.2).text (consume nt.2) (by omega) h
                rwa [hcs] at this
              · exact ihe _ _ _ _ h1 h
      · -- frameTerm
        split at hok <;> simp_all [Bal.refl, MALFORMED, OK]
      · -- loopKw
        have hcs : (consume (if nt.2.skip ≤ 0 then note nt.2 (Ev.keyword (cur nt.2).text) else nt.2)).skip = s0.skip := by
          split <;> simp [hnt]
        refine seq_bal _ _ _ _ _ h0 (fun h => ?_) (fun h1 h => ?_) hok
        · have := loop_bal p fuel cont _ (by rw [hcs]; exact h0) h
          rwa [hcs] at this
        · exact ihe _ _ _ _ h1 h
      · -- name
        split at hok
        · rename_i hpos
          simp only [hpos, if_true]
          have hcs : (consume nt.2).skip = s0.skip := by simp [hnt]
          refine seq_bal _ _ _ _ _ h0 (fun _ => ?_) (fun h1 h => ?_) hok
          · have := item_bal p fuel cont none (consume nt.2) (by omega) (fun _ => rfl)
            rwa [hcs] at this
          · exact ihe _ _ _ _ h1 h
        · rename_i hpos
          simp only [hpos, if_false]
          have hcs : (consume (note nt.2 (Ev.dataname (cur nt.2).text))).skip = s0.skip := by simp [hnt]
          refine seq_bal _ _ _ _ _ h0 (fun _ => ?_) (fun h1 h => ?_) hok
          · have := item_bal p fuel cont (some (cur nt.2).text) (consume (note nt.2 (Ev.dataname (cur nt.2).text)))
              (by omega) (fun h => absurd h (by rw [hcs]; omega))
            rwa [hcs] at this
          · exact ihe _ _ _ _ h1 h
      · split at hok <;> simp_all [Bal.refl, MALFORMED, OK]
      · simp [MALFORMED, OK] at hok

/-- the block loop of parse_cif: balanced -/
theorem blocks_bal (p : Prog) (m : Int) (cif : Bool) : ∀ (fuel : Nat) (s : St) (acc : List Container), 0 ≤ s.skip →
    (blocksLoop p m cif fuel s acc).1 = OK → Bal s.skip (blocksLoop p m cif fuel s acc).2.1.skip
  | 0, s, acc, _, h => by simp [blocksLoop, NOFUEL, OK] at h
  | fuel + 1, s0, acc, h0, hok => by
    unfold blocksLoop at hok ⊢
    dsimp only at hok ⊢
    have hnt : (nextToken s0).2.skip = s0.skip := nextToken_skip s0
    generalize nextToken s0 = nt at hok hnt ⊢
    split at hok
    · have hcs : (consume nt.2).skip = s0.skip := by simp [hnt]
      have hb := (container_bal p m fuel).1 (cif && decide (nt.2.skip ≤ 0)) true (cur nt.2).text (consume nt.2) (by omega)
      generalize parseContainer p m fuel (cif && decide (nt.2.skip ≤ 0)) true (cur nt.2).text (consume nt.2) = b at hok hb ⊢
      by_cases h1 : b.1 = OK
      · simp only [h1, if_true] at hok ⊢
        have hb1 := hb h1
        rw [hcs] at hb1
        exact hb1.trans (blocks_bal p m cif fuel _ _ (Bal.nonneg h0 hb1) hok)
      · simp only [h1, if_false] at hok
    · simp only [hnt, Bal.refl]
    · simp [MALFORMED, OK] at hok

/-- parse_cif entered at depth 0 leaves the scanner at depth 0, provided the block loop (if entered) ended with CIF_OK -/
theorem cif_bal (p : Prog) (m : Int) (cif : Bool) (fuel : Nat) (s : St) (hs : s.skip = 0)
    (hok : (site p s (.cifStart cif) (some 1) (some 1)).1 = OK →
      (blocksLoop p m cif fuel (site p s (.cifStart cif) (some 1) (some 1)).2 []).1 = OK) :
    (parseCif p m cif fuel s).2.1.skip = 0 := by
  unfold parseCif
  by_cases he : p s.n (.cifStart cif) = END
  · simp only [he, if_true, push_skip, hs]
  · simp only [he, if_false]
    have hst := site_skip p s (.cifStart cif) (some 1) (some 1)
    simp only [Option.some.injEq] at hst
    generalize site p s (.cifStart cif) (some 1) (some 1) = st at hok hst ⊢
    by_cases h1 : st.1 = OK
    · simp only [h1, if_true]
      have h0 : 0 ≤ st.2.skip := by omega
      have hb := blocks_bal p m cif fuel st.2 [] h0 (hok h1)
      generalize blocksLoop p m cif fuel st.2 [] = b at hb hok ⊢
      unfold cifEndStep
      simp only [hok h1, if_true, push_skip, dec_skip]
      unfold Bal at hb
      split <;> omega
    · simp only [h1, if_false]
      unfold cifEndStep
      simp only [h1, if_false, dec_skip]
      split <;> omega

end CifModel.Lemmas.ParseCB
