import CifModel.Model.ParseCB
/-
  CifModel.Lemmas.ParseCB — the skip_depth bookkeeping of the parser model balances.
-/
namespace CifModel.Lemmas.ParseCB
open CifModel.ParseCB

@[simp] theorem reportPre_skip : ∀ (l : List Seg) (s : St), (reportPre l s).skip = s.skip
  | [], s => rfl
  | .ws t :: r, s => by
    simp only [reportPre]
    rw [reportPre_skip r]
    split <;> rfl
  | .comment t :: r, s => by
    simp only [reportPre]
    rw [reportPre_skip r]
    rfl

@[simp] theorem reportPre_n : ∀ (l : List Seg) (s : St), (reportPre l s).n = s.n
  | [], s => rfl
  | .ws t :: r, s => by
    simp only [reportPre]
    rw [reportPre_n r]
    split <;> rfl
  | .comment t :: r, s => by
    simp only [reportPre]
    rw [reportPre_n r]
    rfl

@[simp] theorem nextToken_skip (s : St) : (nextToken s).2.skip = s.skip := by
  unfold nextToken
  split
  · rfl
  · split <;> simp

@[simp] theorem nextToken_n (s : St) : (nextToken s).2.n = s.n := by
  unfold nextToken
  split
  · rfl
  · split <;> simp

@[simp] theorem consume_skip (s : St) : (consume s).skip = s.skip := rfl
@[simp] theorem consume_n (s : St) : (consume s).n = s.n := rfl
@[simp] theorem note_skip (s : St) (e : Ev) : (note s e).skip = s.skip := rfl
@[simp] theorem call_skip (p : Prog) (s : St) (e : Ev) : (call p s e).2.skip = s.skip := rfl

/-- values: no handler is called and the depth is not touched -/
theorem value_skip : ∀ (fuel : Nat),
    (∀ s, (parseValue fuel s).2.2.skip = s.skip ∧ (parseValue fuel s).2.2.n = s.n)
    ∧ (∀ s acc, (listLoop fuel s acc).2.2.skip = s.skip ∧ (listLoop fuel s acc).2.2.n = s.n)
    ∧ (∀ s acc, (tableLoop fuel s acc).2.2.skip = s.skip ∧ (tableLoop fuel s acc).2.2.n = s.n)
  | 0 => by simp [parseValue, listLoop, tableLoop]
  | fuel + 1 => by
    obtain ⟨ihv, ihl, iht⟩ := value_skip fuel
    refine ⟨?_, ?_, ?_⟩
    · intro s
      simp only [parseValue]
      split <;> simp [ihl, iht]
    · intro s acc
      simp only [listLoop]
      split
      · split
        · rw [(ihl _ _).1, (ihl _ _).2, (ihv _).1, (ihv _).2]; simp
        · rw [(ihv _).1, (ihv _).2]; simp
      · split <;> simp
    · intro s acc
      simp only [tableLoop]
      split
      · split
        · split
          · rw [(iht _ _).1, (iht _ _).2, (ihv _).1, (ihv _).2]; simp
          · rw [(ihv _).1, (ihv _).2]; simp
        · simp
      · split <;> simp

theorem pv_skip (fuel : Nat) (s : St) : (parseValue fuel s).2.2.skip = s.skip := ((value_skip fuel).1 s).1

/-- "returns with the depth it was entered with": unchanged when entered inside a skipped region; 0 or 1 (a handler of
    the production asked to skip the following siblings) when entered at depth 0 -/
def Bal (e x : Int) : Prop := (e > 0 → x = e) ∧ (e = 0 → x = 0 ∨ x = 1)

theorem Bal.trans {a b c : Int} (h1 : Bal a b) (h2 : Bal b c) : Bal a c := by
  unfold Bal at *
  omega

theorem Bal.refl (a : Int) : Bal a a := by unfold Bal; omega

theorem Bal.nonneg {a b : Int} (ha : 0 ≤ a) (h : Bal a b) : 0 ≤ b := by unfold Bal at h; omega

@[simp] theorem inc_skip (s : St) : (inc s).skip = if s.skip > 0 then s.skip + 1 else s.skip := by
  unfold inc; split <;> rfl
@[simp] theorem dec_skip (s : St) : (dec s).skip = if s.skip > 0 then s.skip - 1 else s.skip := by
  unfold dec; split <;> rfl

/-- parse_item: balanced (a skipped item carries no name) -/
theorem item_bal (p : Prog) (fuel : Nat) (cont : Bool) (name : Option Str) (s : St)
    (h0 : 0 ≤ s.skip) (hn : s.skip > 0 → name = none) :
    Bal s.skip (parseItem p fuel cont name s).2.1.skip := by
  unfold parseItem
  simp only []
  split
  · -- not a value
    simp only [dec_skip, inc_skip, nextToken_skip]
    unfold Bal; omega
  · split
    · -- parse_value OK
      cases name with
      | none =>
        simp only [dec_skip, pv_skip, inc_skip, nextToken_skip]
        unfold Bal; omega
      | some nm =>
        have hs : s.skip = 0 := by
          by_cases h : s.skip > 0
          · exact absurd (hn h) (by simp)
          · omega
        simp only []
        split
        · simp only [dec_skip, call_skip, pv_skip, inc_skip, nextToken_skip]; unfold Bal; omega
        · split
          · simp only [dec_skip, call_skip, pv_skip, inc_skip, nextToken_skip]; unfold Bal; omega
          · split
            · simp only [dec_skip]; unfold Bal; omega
            · simp only [dec_skip, call_skip, pv_skip, inc_skip, nextToken_skip]; unfold Bal; omega
    · simp only [dec_skip, pv_skip, inc_skip, nextToken_skip]
      unfold Bal; omega

theorem header_skip : ∀ (fuel : Nat) (s : St) (acc : List Str), (headerLoop fuel s acc).2.2.skip = s.skip
  | 0, s, acc => rfl
  | fuel + 1, s, acc => by
    simp only [headerLoop]
    split
    · rw [header_skip fuel]
      split <;> simp
    · simp

/-- invariant of the packet loop, relative to the depth `b` at the packet boundaries: at a boundary (`col = 0`) the depth
    is balanced with `b`; inside a packet it is one more than `b` (skipped region) or at most 2 (entered at 0) -/
def PInv (b : Int) (col : Nat) (x : Int) : Prop :=
  if col = 0 then Bal b x else (b > 0 → x = b + 1) ∧ (b = 0 → x = 0 ∨ x = 1 ∨ x = 2)

macro "nums" : tactic => `(tactic| simp only [OK, CONTINUE, SKIP_CURRENT, SKIP_SIBLINGS, END, MALFORMED, NOFUEL] at *)

theorem pktStart_inv (p : Prog) (b : Int) (hb : 0 ≤ b) (s : St) (h : Bal b s.skip) (hok : (pktStartStep p s).1 = OK) :
    (b > 0 → (pktStartStep p s).2.skip = b + 1)
    ∧ (b = 0 → (pktStartStep p s).2.skip = 0 ∨ (pktStartStep p s).2.skip = 1 ∨ (pktStartStep p s).2.skip = 2) := by
  unfold pktStartStep at hok ⊢
  unfold Bal at h
  by_cases h0 : s.skip > 0
  · simp only [h0, if_true]; omega
  · simp only [h0, if_false] at hok ⊢
    split
    · dsimp only; omega
    · split
      · dsimp only; omega
      · split
        · dsimp only; simp only [call_skip]; omega
        · rename_i h1 h2 h3
          simp only [h1, h2, h3, if_false] at hok
          exact absurd hok h3

theorem itemStep_inv (p : Prog) (nm : Str) (r : Int) (v : V) (s : St) (b : Int) (hb : 0 ≤ b)
    (h : (b > 0 → s.skip = b + 1) ∧ (b = 0 → s.skip = 0 ∨ s.skip = 1 ∨ s.skip = 2)) :
    (b > 0 → (itemStep p nm r v s).2.skip = b + 1)
    ∧ (b = 0 → (itemStep p nm r v s).2.skip = 0 ∨ (itemStep p nm r v s).2.skip = 1 ∨ (itemStep p nm r v s).2.skip = 2) := by
  unfold itemStep
  by_cases h0 : r = OK ∧ s.skip ≤ 0
  · simp only [h0, and_self, if_true]
    split
    · dsimp only; simp only [call_skip]; omega
    · split
      · dsimp only; omega
      · dsimp only; simp only [call_skip]; omega
  · simp only [h0, if_false]; omega

theorem pktEnd_inv (p : Prog) (items : List (Str × V)) (s : St) (b : Int) (hb : 0 ≤ b)
    (h : (b > 0 → s.skip = b + 1) ∧ (b = 0 → s.skip = 0 ∨ s.skip = 1 ∨ s.skip = 2)) :
    Bal b (pktEndStep p items s).2.1.skip := by
  unfold pktEndStep Bal
  by_cases h0 : s.skip > 0
  · simp only [h0, if_true]; omega
  · simp only [h0, if_false]
    split
    · dsimp only; simp only [call_skip]; omega
    · split
      · dsimp only; simp only [call_skip]; omega
      · split
        · dsimp only; omega
        · dsimp only; simp only [call_skip]; omega

theorem packets_bal (p : Prog) (loopH : Bool) (names : List Str) (b : Int) (hb : 0 ≤ b) :
    ∀ (fuel : Nat) (s : St) (k : PkSt), PInv b k.col s.skip →
      (packetsLoop p loopH names fuel s k).1 = OK → Bal b (packetsLoop p loopH names fuel s k).2.1.skip
  | 0, s, k, _, h => by simp [packetsLoop, NOFUEL, OK] at h
  | fuel + 1, s, k, hinv, h => by
    have ih := packets_bal p loopH names b hb fuel
    unfold packetsLoop at h ⊢
    by_cases hval : isValueStart (nextToken s).1 = true
    · simp only [hval, if_true] at h ⊢
      -- state after the (possible) packet_start
      generalize hs1 : (if k.col = 0 then pktStartStep p (nextToken s).2 else (OK, (nextToken s).2)) = s1 at h ⊢
      by_cases h1 : s1.1 = OK
      · simp only [h1, ne_eq, not_true_eq_false, if_false] at h ⊢
        have hmid : (b > 0 → s1.2.skip = b + 1) ∧ (b = 0 → s1.2.skip = 0 ∨ s1.2.skip = 1 ∨ s1.2.skip = 2) := by
          unfold PInv at hinv
          by_cases hc : k.col = 0
          · simp only [hc, if_true] at hinv hs1
            subst hs1
            exact pktStart_inv p b hb _ (by simpa using hinv) h1
          · simp only [hc, if_false] at hinv hs1
            subst hs1
            simpa using hinv
        have hpv : (b > 0 → (parseValue fuel s1.2).2.2.skip = b + 1)
            ∧ (b = 0 → (parseValue fuel s1.2).2.2.skip = 0 ∨ (parseValue fuel s1.2).2.2.skip = 1 ∨ (parseValue fuel s1.2).2.2.skip = 2) := by
          rw [pv_skip]; exact hmid
        have hit := itemStep_inv p (names.getD k.col []) (parseValue fuel s1.2).1 (parseValue fuel s1.2).2.1
          (parseValue fuel s1.2).2.2 b hb hpv
        generalize (itemStep p (names.getD k.col []) (parseValue fuel s1.2).1 (parseValue fuel s1.2).2.1
          (parseValue fuel s1.2).2.2) = it at h hit ⊢
        by_cases h2 : it.1 = OK
        · simp only [h2, ne_eq, not_true_eq_false, if_false] at h ⊢
          by_cases hcol : (k.col + 1) % names.length = 0
          · simp only [hcol, if_true] at h ⊢
            have hpe := pktEnd_inv p (List.zip names (k.row ++ [(parseValue fuel s1.2).2.1])) it.2 b hb hit
            generalize (pktEndStep p (List.zip names (k.row ++ [(parseValue fuel s1.2).2.1])) it.2) = pe at h hpe ⊢
            by_cases h3 : pe.1 = OK
            · simp only [h3, ne_eq, not_true_eq_false, if_false] at h ⊢
              exact ih _ _ (by unfold PInv; simpa using hpe) h
            · simp only [h3, ne_eq, not_false_eq_true, if_true] at h
          · simp only [hcol, if_false] at h ⊢
            exact ih _ _ (by unfold PInv; simp only [hcol, if_false]; exact hit) h
        · simp only [h2, ne_eq, not_false_eq_true, if_true] at h
      · simp only [h1, ne_eq, not_false_eq_true, if_true] at h
    · simp only [hval, Bool.false_eq_true, if_false] at h ⊢
      split at h
      · simp [MALFORMED, OK] at h
      · split at h
        · simp [MALFORMED, OK] at h
        · split at h
          · simp [MALFORMED, OK] at h
          · rename_i hc1 hc2 hc3
            simp only [hc1, hc2, hc3, if_false]
            have hc0 : k.col = 0 := by simpa using hc2
            unfold PInv at hinv
            simpa [hc0] using hinv

end CifModel.Lemmas.ParseCB
