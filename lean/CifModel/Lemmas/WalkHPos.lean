import CifModel.Lemmas.WalkH
import CifModel.Spec.TraversalPos
/-
  CifModel.Lemmas.WalkHPos — the walk with handles against the positional traversal of Spec/TraversalPos.lean:
    * `walkWH_ext`: whatever the program, the (callback, handle) pairs delivered are a SUBLIST of the positional traversal;
    * `pos_res`: every entry of the positional traversal is resolved by `lookup` to the element it names (`Res`);
    * `pos_erase`: forgetting the positions gives `fullTraversal`;
    * `pos_nodup`: no (callback kind, position) occurs twice in the positional traversal.
-/
set_option linter.unusedSimpArgs false
set_option linter.unusedVariables false

namespace CifModel.Lemmas.WalkHPos
open CifModel.Walk CifModel.Lemmas.WalkH CifModel.Spec.TraversalPos CifModel.Spec.Traversal

-- ---- sublist -----------------------------------------------------------------------------------------------------------------------

/-- from `w` to `w'` the log grew by a sublist of `l` (in order) -/
def Ext (w w' : WH) (l : List (Ev × Handle)) : Prop := ∃ out : List (Ev × Handle), w'.log = out.reverse ++ w.log ∧ out.Sublist l

theorem Ext.refl (w : WH) (l : List (Ev × Handle)) : Ext w w l := ⟨[], rfl, List.nil_sublist _⟩

theorem Ext.trans {w w1 w2 : WH} {l1 l2 : List (Ev × Handle)} (a : Ext w w1 l1) (b : Ext w1 w2 l2) : Ext w w2 (l1 ++ l2) := by
  obtain ⟨o1, e1, s1⟩ := a
  obtain ⟨o2, e2, s2⟩ := b
  refine ⟨o1 ++ o2, ?_, List.Sublist.append s1 s2⟩
  rw [e2, e1]; simp

theorem Ext.mono {w w' : WH} {l l' : List (Ev × Handle)} (a : Ext w w' l) (s : l.Sublist l') : Ext w w' l' := by
  obtain ⟨o, e, s1⟩ := a
  exact ⟨o, e, s1.trans s⟩

theorem Ext.call (p : Prog) (w : WH) (e : Ev) (h : Handle) : Ext w (callH p w e h).2 [(e, h)] :=
  ⟨[(e, h)], rfl, List.Sublist.refl _⟩

/-- first entry, then a run over `l` -/
theorem Ext.cons {w w1 w2 : WH} {x : Ev × Handle} {l : List (Ev × Handle)} (a : Ext w w1 [x]) (b : Ext w1 w2 l) :
    Ext w w2 (x :: l) := by simpa using a.trans b

theorem Ext.head {w w1 : WH} {x : Ev × Handle} (l : List (Ev × Handle)) (a : Ext w w1 [x]) : Ext w w1 (x :: l) :=
  a.cons (Ext.refl _ _)

theorem Ext.left {w w1 : WH} {l : List (Ev × Handle)} (l2 : List (Ev × Handle)) (a : Ext w w1 l) : Ext w w1 (l ++ l2) :=
  a.trans (Ext.refl _ _)

theorem items_ext (p : Prog) (path : Path) (i j : Nat) : ∀ (k : Nat) (is : List (Str × V)) (w : WH),
    Ext w (walkItemsH p path i j k is w).2 (posItems path i j k is)
  | _, [], w => Ext.refl _ _
  | k, (nm, v) :: is, w => by
    have hc := Ext.call p w (.item nm v) (.item path i j k)
    simp only [walkItemsH, posItems]
    generalize callH p w (Ev.item nm v) (Handle.item path i j k) = x at hc
    rcases x with ⟨r, w1⟩
    dsimp only at hc ⊢
    by_cases h1 : r = CONTINUE ∨ r = SKIP_CURRENT
    · simp only [h1, if_true]; exact hc.cons (items_ext p path i j (k + 1) is w1)
    · simp only [h1, if_false]
      by_cases h2 : r = SKIP_SIBLINGS
      · simp only [h2, if_true]; exact hc.head _
      · simp only [h2, if_false]; exact hc.head _

theorem packet_ext (p : Prog) (path : Path) (i j : Nat) (pk : List (Str × V)) (w : WH) :
    Ext w (walkPacketH p path i j pk w).2 (posPacket path i j pk) := by
  have hc := Ext.call p w (.pktStart pk) (.packet path i j)
  simp only [walkPacketH, posPacket]
  generalize callH p w (Ev.pktStart pk) (Handle.packet path i j) = x at hc
  rcases x with ⟨r, w1⟩
  dsimp only at hc ⊢
  by_cases h1 : r = CONTINUE
  · simp only [h1, ne_eq, not_true_eq_false, if_false]
    have hi := items_ext p path i j 0 pk w1
    generalize walkItemsH p path i j 0 pk w1 = y at hi
    rcases y with ⟨o, w2⟩
    cases o with
    | some r2 => exact hc.cons (hi.left _)
    | none => exact hc.cons (hi.trans (Ext.call p w2 _ _))
  · simp only [h1, ne_eq, not_false_eq_true, if_true]; exact hc.head _

theorem packets_ext (p : Prog) (path : Path) (i : Nat) : ∀ (j : Nat) (pks : List (List (Str × V))) (w : WH),
    Ext w (walkPacketsH p path i j pks w).2.2 (posPackets path i j pks)
  | _, [], w => Ext.refl _ _
  | j, pk :: pks, w => by
    have hp := packet_ext p path i j pk w
    simp only [walkPacketsH, posPackets]
    generalize walkPacketH p path i j pk w = x at hp
    rcases x with ⟨r, w1⟩
    dsimp only at hp ⊢
    by_cases h1 : r = CONTINUE ∨ r = SKIP_CURRENT
    · simp only [h1, if_true]; exact hp.trans (packets_ext p path i (j + 1) pks w1)
    · simp only [h1, if_false]
      by_cases h2 : r = SKIP_SIBLINGS
      · simp only [h2, if_true]; exact hp.left _
      · simp only [h2, if_false]; exact hp.left _

theorem loop_ext (p : Prog) (path : Path) (i : Nat) (l : WLoop) (w : WH) :
    Ext w (walkLoopH p path i l w).2 (posLoop path i l) := by
  have hc := Ext.call p w (.loopStart l.category l.names) (.loop path i)
  simp only [walkLoopH, posLoop]
  generalize callH p w (Ev.loopStart l.category l.names) (Handle.loop path i) = x at hc
  rcases x with ⟨r, w1⟩
  dsimp only at hc ⊢
  by_cases h1 : r = CONTINUE
  · simp only [h1, ne_eq, not_true_eq_false, if_false]
    by_cases he : l.packets.isEmpty = true
    · simp only [he, if_true]; exact hc.head _
    · simp only [he, Bool.false_eq_true, if_false]
      have hp := packets_ext p path i 0 l.packets w1
      generalize walkPacketsH p path i 0 l.packets w1 = y at hp
      rcases y with ⟨st, r2, w2⟩
      dsimp only at hp ⊢
      by_cases h2 : st = true ∨ r2 ≠ FINISHED
      · simp only [h2, if_true]; exact hc.cons (hp.left _)
      · simp only [h2, if_false]; exact hc.cons (hp.trans (Ext.call p w2 _ _))
  · simp only [h1, ne_eq, not_false_eq_true, if_true]; exact hc.head _

theorem loops_ext (p : Prog) (path : Path) : ∀ (i : Nat) (ls : List WLoop) (res : Int) (w : WH),
    Ext w (walkLoopsFromH p path i ls res w).2 (posLoops path i ls)
  | _, [], res, w => Ext.refl _ _
  | i, l :: ls, res, w => by
    have hp := loop_ext p path i l w
    simp only [walkLoopsFromH, posLoops]
    generalize walkLoopH p path i l w = x at hp
    rcases x with ⟨r, w1⟩
    dsimp only at hp ⊢
    by_cases h1 : r = SKIP_CURRENT ∨ r = CONTINUE
    · simp only [h1, if_true]; exact hp.trans (loops_ext p path (i + 1) ls r w1)
    · simp only [h1, if_false]; exact hp.left _

mutual
  theorem cont_ext (p : Prog) : ∀ (d : Nat) (path : Path) (ct : WCont) (w : WH),
      Ext w (walkContH p d path ct w).2 (posCont d path ct)
    | d, path, .mk code frames loops, w => by
      have hc := Ext.call p w (if d = 0 then Ev.blockStart code else Ev.frameStart code) (Handle.cont path)
      simp only [walkContH, posCont]
      generalize callH p w (if d = 0 then Ev.blockStart code else Ev.frameStart code) (Handle.cont path) = x at hc
      rcases x with ⟨r, w1⟩
      dsimp only at hc ⊢
      by_cases h1 : r = CONTINUE
      · simp only [h1, ne_eq, not_true_eq_false, if_false]
        have hf := frames_ext p (d + 1) path 0 frames w1
        generalize walkFramesH p (d + 1) path 0 frames w1 = y at hf
        rcases y with ⟨o, w2⟩
        cases o with
        | some r2 => exact hc.cons (hf.left _)
        | none =>
          dsimp only at hf ⊢
          have hl := loops_ext p path 0 loops OK w2
          generalize walkLoopsFromH p path 0 loops OK w2 = z at hl
          rcases z with ⟨r3, w3⟩
          dsimp only at hl ⊢
          by_cases h2 : r3 = CONTINUE ∨ r3 = SKIP_CURRENT
          · simp only [h2, if_true]; exact hc.cons (hf.trans (hl.trans (Ext.call p w3 _ _)))
          · simp only [h2, if_false]
            by_cases h3 : r3 = SKIP_SIBLINGS
            · simp only [h3, if_true]; exact hc.cons (hf.trans (hl.left _))
            · simp only [h3, if_false]; exact hc.cons (hf.trans (hl.left _))
      · simp only [h1, ne_eq, not_false_eq_true, if_true]; exact hc.head _
  theorem frames_ext (p : Prog) : ∀ (d : Nat) (parent : Path) (j : Nat) (fs : List WCont) (w : WH),
      Ext w (walkFramesH p d parent j fs w).2 (posFrames d parent j fs)
    | d, parent, j, [], w => by simp only [walkFramesH, posFrames]; exact Ext.refl _ _
    | d, parent, j, f :: fs, w => by
      have hp := cont_ext p d (parent ++ [j]) f w
      simp only [walkFramesH, posFrames]
      generalize walkContH p d (parent ++ [j]) f w = x at hp
      rcases x with ⟨r, w1⟩
      dsimp only at hp ⊢
      by_cases h1 : r = CONTINUE ∨ r = SKIP_CURRENT
      · simp only [h1, if_true]; exact hp.trans (frames_ext p d parent (j + 1) fs w1)
      · simp only [h1, if_false]
        by_cases h2 : r = SKIP_SIBLINGS
        · simp only [h2, if_true]; exact hp.left _
        · simp only [h2, if_false]; exact hp.left _
end

theorem blocks_ext (p : Prog) : ∀ (i : Nat) (bs : List WCont) (w : WH),
    Ext w (walkBlocksH p i bs w).2 (posBlocks i bs)
  | _, [], w => Ext.refl _ _
  | i, b :: bs, w => by
    have hp := cont_ext p 0 [i] b w
    simp only [walkBlocksH, posBlocks]
    generalize walkContH p 0 [i] b w = x at hp
    rcases x with ⟨r, w1⟩
    dsimp only at hp ⊢
    by_cases h1 : r = CONTINUE ∨ r = SKIP_CURRENT
    · simp only [h1, if_true]; exact hp.trans (blocks_ext p (i + 1) bs w1)
    · simp only [h1, if_false]
      by_cases h2 : r = SKIP_SIBLINGS ∨ r = END
      · simp only [h2, if_true]; exact hp.left _
      · simp only [h2, if_false]; exact hp.left _

theorem walkWH_ext (p : Prog) (c : WCif) : Ext WH.init (walkWH p c).2 (fullTraversalH c) := by
  have hc := Ext.call p WH.init .cifStart .cif
  simp only [walkWH, fullTraversalH]
  generalize callH p WH.init Ev.cifStart Handle.cif = x at hc
  rcases x with ⟨r, w1⟩
  dsimp only at hc ⊢
  by_cases h1 : r = CONTINUE
  · simp only [h1, if_true]
    have hb := blocks_ext p 0 c w1
    generalize walkBlocksH p 0 c w1 = y at hb
    rcases y with ⟨o, w2⟩
    cases o with
    | some r2 => exact hc.cons (hb.left _)
    | none =>
      dsimp only at hb ⊢
      have he := hc.cons (hb.trans (Ext.call p w2 .cifEnd .cif))
      generalize callH p w2 Ev.cifEnd Handle.cif = z at he
      rcases z with ⟨r3, w3⟩
      dsimp only at he ⊢
      split <;> exact he
  · simp only [h1, if_false]
    split <;> exact hc.head _

theorem walkH_sublist (p : Prog) (c : WCif) : (walkH p c).1.Sublist (fullTraversalH c) := by
  obtain ⟨o, e, s⟩ := walkWH_ext p c
  unfold walkH
  show (walkWH p c).2.log.reverse.Sublist _
  rw [e]
  simpa [WH.init] using s

-- ---- forgetting the positions gives `fullTraversal` -------------------------------------------------------------------------------

theorem items_erase' (path : Path) (i j : Nat) : ∀ (k : Nat) (is : List (Str × V)),
    (posItems path i j k is).map (·.1) = flattenList (is.map itemTree)
  | _, [] => by simp [posItems, flattenList]
  | k, (nm, v) :: is => by
    simp [posItems, flattenList, flatten, itemTree, items_erase' path i j (k + 1) is]

theorem packet_erase' (path : Path) (i j : Nat) (pk : List (Str × V)) :
    (posPacket path i j pk).map (·.1) = flatten (packetTree pk) := by
  simp [posPacket, packetTree, flatten, flattenList, items_erase']

theorem packets_erase' (path : Path) (i : Nat) : ∀ (j : Nat) (pks : List (List (Str × V))),
    (posPackets path i j pks).map (·.1) = flattenList (pks.map packetTree)
  | _, [] => by simp [posPackets, flattenList]
  | j, pk :: pks => by
    simp [posPackets, flattenList, packet_erase', packets_erase' path i (j + 1) pks]

theorem loop_erase' (path : Path) (i : Nat) (l : WLoop) : (posLoop path i l).map (·.1) = flatten (loopTree l) := by
  cases hp : l.packets with
  | nil => simp [posLoop, loopTree, flatten, flattenList, hp, posPackets]
  | cons pk pks =>
    have := packets_erase' path i 0 (pk :: pks)
    simp [posLoop, loopTree, flatten, flattenList, hp] at this ⊢
    rw [this]; simp [flattenList]

theorem loops_erase' (path : Path) : ∀ (i : Nat) (ls : List WLoop),
    (posLoops path i ls).map (·.1) = flattenList (ls.map loopTree)
  | _, [] => by simp [posLoops, flattenList]
  | i, l :: ls => by
    simp [posLoops, flattenList, loop_erase', loops_erase' path (i + 1) ls]

mutual
  theorem cont_erase' : ∀ (d : Nat) (path : Path) (ct : WCont), (posCont d path ct).map (·.1) = flatten (contTree d ct)
    | d, path, .mk code frames loops => by
      simp only [posCont, contTree, flatten, List.map_cons, List.map_append, frames_erase' (d + 1) path 0 frames,
        loops_erase' path 0 loops, List.map_nil]
  theorem frames_erase' : ∀ (d : Nat) (parent : Path) (j : Nat) (fs : List WCont),
      (posFrames d parent j fs).map (·.1) = flattenList (contTrees d fs)
    | d, parent, j, [] => by simp [posFrames, contTrees, flattenList]
    | d, parent, j, f :: fs => by
      simp only [posFrames, contTrees, flattenList, List.map_append, cont_erase' d (parent ++ [j]) f,
        frames_erase' d parent (j + 1) fs]
end

theorem blocks_erase' : ∀ (i : Nat) (bs : List WCont), (posBlocks i bs).map (·.1) = flattenList (contTrees 0 bs)
  | _, [] => by simp [posBlocks, contTrees, flattenList]
  | i, b :: bs => by
    simp only [posBlocks, contTrees, flattenList, List.map_append, cont_erase' 0 [i] b, blocks_erase' (i + 1) bs]

theorem pos_erase (c : WCif) : (fullTraversalH c).map (·.1) = fullTraversal c := by
  simp only [fullTraversalH, fullTraversal, cifTree, flatten, flattenList, List.map_cons, List.map_append, blocks_erase' 0 c,
    List.map_nil, List.nil_append]

-- ---- every entry of the positional traversal is resolved by `lookup` to the element it names ---------------------------------------

theorem items_pres (c : WCif) (path : Path) (i j : Nat) (l : WLoop) (pk : List (Str × V))
    (hl : lookupLoop c path i = some l) (hpk : l.packets[j]? = some pk) : ∀ (k : Nat) (is : List (Str × V)),
    pk.drop k = is → ∀ x ∈ posItems path i j k is, Res c x
  | _, [], _, x, hx => by simp [posItems] at hx
  | k, (nm, v) :: is, hd, x, hx => by
    obtain ⟨d1, d2⟩ := drop_cons pk k (nm, v) is hd
    simp only [posItems, List.mem_cons] at hx
    rcases hx with rfl | hx
    · exact ⟨l, pk, hl, hpk, d1⟩
    · exact items_pres c path i j l pk hl hpk (k + 1) is d2 x hx

theorem packet_pres (c : WCif) (path : Path) (i j : Nat) (l : WLoop) (pk : List (Str × V))
    (hl : lookupLoop c path i = some l) (hpk : l.packets[j]? = some pk) : ∀ x ∈ posPacket path i j pk, Res c x := by
  intro x hx
  simp only [posPacket, List.mem_cons, List.mem_append, List.mem_singleton, List.not_mem_nil, or_false] at hx
  rcases hx with rfl | hx | rfl
  · exact ⟨l, hl, hpk⟩
  · exact items_pres c path i j l pk hl hpk 0 pk rfl x hx
  · exact ⟨l, hl, hpk⟩

theorem packets_pres (c : WCif) (path : Path) (i : Nat) (l : WLoop) (hl : lookupLoop c path i = some l) :
    ∀ (j : Nat) (pks : List (List (Str × V))), l.packets.drop j = pks → ∀ x ∈ posPackets path i j pks, Res c x
  | _, [], _, x, hx => by simp [posPackets] at hx
  | j, pk :: pks, hd, x, hx => by
    obtain ⟨d1, d2⟩ := drop_cons l.packets j pk pks hd
    simp only [posPackets, List.mem_append] at hx
    rcases hx with hx | hx
    · exact packet_pres c path i j l pk hl d1 x hx
    · exact packets_pres c path i l hl (j + 1) pks d2 x hx

theorem loop_pres (c : WCif) (path : Path) (i : Nat) (l : WLoop) (hl : lookupLoop c path i = some l) :
    ∀ x ∈ posLoop path i l, Res c x := by
  intro x hx
  simp only [posLoop, List.mem_cons, List.mem_append, List.mem_singleton, List.not_mem_nil, or_false] at hx
  rcases hx with rfl | hx | rfl
  · exact ⟨l, hl, rfl, rfl⟩
  · exact packets_pres c path i l hl 0 l.packets rfl x hx
  · exact ⟨l, hl, rfl, rfl⟩

theorem loops_pres (c : WCif) (path : Path) (ct : WCont) (hct : lookup c path = some ct) :
    ∀ (i : Nat) (ls : List WLoop), ct.loops.drop i = ls → ∀ x ∈ posLoops path i ls, Res c x
  | _, [], _, x, hx => by simp [posLoops] at hx
  | i, l :: ls, hd, x, hx => by
    obtain ⟨d1, d2⟩ := drop_cons ct.loops i l ls hd
    have hll : lookupLoop c path i = some l := by simp only [lookupLoop, hct]; exact d1
    simp only [posLoops, List.mem_append] at hx
    rcases hx with hx | hx
    · exact loop_pres c path i l hll x hx
    · exact loops_pres c path ct hct (i + 1) ls d2 x hx

mutual
  theorem cont_pres (c : WCif) : ∀ (d : Nat) (path : Path) (ct : WCont),
      lookup c path = some ct → (d = 0 ↔ path.length = 1) → ∀ x ∈ posCont d path ct, Res c x
    | d, path, .mk code frames loops, hct, hd, x, hx => by
      have hstart : Res c ((if d = 0 then Ev.blockStart code else Ev.frameStart code), Handle.cont path) := by
        by_cases h0 : d = 0
        · simp only [h0, if_true]; exact ⟨hd.mp h0, _, hct, rfl⟩
        · simp only [h0, if_false]; exact ⟨fun hh => h0 (hd.mpr hh), _, hct, rfl⟩
      have hend : Res c ((if d = 0 then Ev.blockEnd code else Ev.frameEnd code), Handle.cont path) := by
        by_cases h0 : d = 0
        · simp only [h0, if_true]; exact ⟨hd.mp h0, _, hct, rfl⟩
        · simp only [h0, if_false]; exact ⟨fun hh => h0 (hd.mpr hh), _, hct, rfl⟩
      have hpne : path ≠ [] := by
        intro hh; rw [hh] at hct; simp [lookup] at hct
      simp only [posCont, List.mem_cons, List.mem_append, List.mem_singleton, List.not_mem_nil, or_false] at hx
      rcases hx with rfl | hx | hx | rfl
      · exact hstart
      · exact frames_pres c (d + 1) path (.mk code frames loops) hct hpne 0 frames rfl (by omega) x hx
      · exact loops_pres c path (.mk code frames loops) hct 0 loops rfl x hx
      · exact hend
  theorem frames_pres (c : WCif) : ∀ (d : Nat) (parent : Path) (ct : WCont), lookup c parent = some ct → parent ≠ [] →
      ∀ (j : Nat) (fs : List WCont), ct.frames.drop j = fs → d ≠ 0 → ∀ x ∈ posFrames d parent j fs, Res c x
    | d, parent, ct, hct, hne, j, [], _, _, x, hx => by simp [posFrames] at hx
    | d, parent, ct, hct, hne, j, f :: fs, hd, hd0, x, hx => by
      obtain ⟨d1, d2⟩ := drop_cons ct.frames j f fs hd
      have hlk : lookup c (parent ++ [j]) = some f := by rw [lookup_snoc parent c ct j hct]; exact d1
      have hlen : (d = 0 ↔ (parent ++ [j]).length = 1) := by
        constructor
        · intro h0; exact absurd h0 hd0
        · intro hl
          cases parent with
          | nil => exact absurd rfl hne
          | cons a r => simp at hl
      simp only [posFrames, List.mem_append] at hx
      rcases hx with hx | hx
      · exact cont_pres c d (parent ++ [j]) f hlk hlen x hx
      · exact frames_pres c d parent ct hct hne (j + 1) fs d2 hd0 x hx
end

theorem blocks_pres (c : WCif) : ∀ (i : Nat) (bs : List WCont), c.drop i = bs → ∀ x ∈ posBlocks i bs, Res c x
  | _, [], _, x, hx => by simp [posBlocks] at hx
  | i, b :: bs, hd, x, hx => by
    obtain ⟨d1, d2⟩ := drop_cons c i b bs hd
    have hlk : lookup c [i] = some b := by rw [lookup_single]; exact d1
    simp only [posBlocks, List.mem_append] at hx
    rcases hx with hx | hx
    · exact cont_pres c 0 [i] b hlk (by simp) x hx
    · exact blocks_pres c (i + 1) bs d2 x hx

theorem pos_res (c : WCif) : ∀ x ∈ fullTraversalH c, Res c x := by
  intro x hx
  simp only [fullTraversalH, List.mem_cons, List.mem_append, List.mem_singleton, List.not_mem_nil, or_false] at hx
  rcases hx with rfl | hx | rfl
  · trivial
  · exact blocks_pres c 0 c rfl x hx
  · trivial

-- ---- no (callback kind, position) twice ---------------------------------------------------------------------------------------------

def hpath : Handle → Path
  | .cif => [] | .cont p => p | .loop p _ => p | .packet p _ _ => p | .item p _ _ _ => p
def hi : Handle → Option Nat
  | .loop _ i => some i | .packet _ i _ => some i | .item _ i _ _ => some i | _ => none
def hj : Handle → Option Nat
  | .packet _ _ j => some j | .item _ _ j _ => some j | _ => none
def hk : Handle → Option Nat
  | .item _ _ _ k => some k | _ => none

/-- (callback kind, position) -/
def K (x : Ev × Handle) : Nat × Handle := (kind x.1, x.2)
abbrev ND (l : List (Ev × Handle)) : Prop := l.Pairwise (fun a b => K a ≠ K b)

theorem K_h {a b : Ev × Handle} (h : K a = K b) : a.2 = b.2 := (Prod.mk.injEq _ _ _ _ ▸ h : _ ∧ _).2
theorem K_k {a b : Ev × Handle} (h : K a = K b) : kind a.1 = kind b.1 := (Prod.mk.injEq _ _ _ _ ▸ h : _ ∧ _).1

theorem pre_idx {parent q : Path} {j : Nat} (h : (parent ++ [j]) <+: q) : q[parent.length]? = some j := by
  obtain ⟨t, rfl⟩ := h
  simp

theorem pre_len {path q : Path} {j : Nat} (h : (path ++ [j]) <+: q) : path.length < q.length := by
  have := h.length_le
  simp at this; omega

theorem items_mem (path : Path) (i j : Nat) : ∀ (k : Nat) (is : List (Str × V)), ∀ x ∈ posItems path i j k is,
    hpath x.2 = path ∧ hi x.2 = some i ∧ hj x.2 = some j ∧ ∃ k', k ≤ k' ∧ hk x.2 = some k'
  | _, [], x, hx => by simp [posItems] at hx
  | k, (nm, v) :: is, x, hx => by
    simp only [posItems, List.mem_cons] at hx
    rcases hx with rfl | hx
    · exact ⟨rfl, rfl, rfl, k, Nat.le_refl _, rfl⟩
    · obtain ⟨a, b, c, k', h1, h2⟩ := items_mem path i j (k + 1) is x hx
      exact ⟨a, b, c, k', by omega, h2⟩

theorem items_nd (path : Path) (i j : Nat) : ∀ (k : Nat) (is : List (Str × V)), ND (posItems path i j k is)
  | _, [] => by simp [posItems]
  | k, (nm, v) :: is => by
    simp only [posItems, ND, List.pairwise_cons]
    refine ⟨?_, items_nd path i j (k + 1) is⟩
    intro b hb hK
    obtain ⟨_, _, _, k', h1, h2⟩ := items_mem path i j (k + 1) is b hb
    have := K_h hK
    dsimp only at this
    rw [← this] at h2
    simp [hk] at h2
    omega

theorem packet_mem (path : Path) (i j : Nat) (pk : List (Str × V)) : ∀ x ∈ posPacket path i j pk,
    hpath x.2 = path ∧ hi x.2 = some i ∧ hj x.2 = some j := by
  intro x hx
  simp only [posPacket, List.mem_cons, List.mem_append, List.mem_singleton, List.not_mem_nil, or_false] at hx
  rcases hx with rfl | hx | rfl
  · exact ⟨rfl, rfl, rfl⟩
  · obtain ⟨a, b, c, _⟩ := items_mem path i j 0 pk x hx
    exact ⟨a, b, c⟩
  · exact ⟨rfl, rfl, rfl⟩

theorem packet_nd (path : Path) (i j : Nat) (pk : List (Str × V)) : ND (posPacket path i j pk) := by
  simp only [posPacket, ND, List.pairwise_cons, List.pairwise_append, List.mem_append, List.mem_singleton]
  refine ⟨?_, items_nd path i j 0 pk, by simp, ?_⟩
  · intro b hb hK
    rcases hb with hb | rfl
    · obtain ⟨_, _, _, k', _, h2⟩ := items_mem path i j 0 pk b hb
      have := K_h hK
      dsimp only at this
      rw [← this] at h2
      simp [hk] at h2
    · have := K_k hK
      simp [kind] at this
  · intro a ha b hb hK
    subst hb
    obtain ⟨_, _, _, k', _, h2⟩ := items_mem path i j 0 pk a ha
    have := K_h hK
    dsimp only at this
    rw [this] at h2
    simp [hk] at h2

theorem packets_mem (path : Path) (i : Nat) : ∀ (j : Nat) (pks : List (List (Str × V))), ∀ x ∈ posPackets path i j pks,
    hpath x.2 = path ∧ hi x.2 = some i ∧ ∃ j', j ≤ j' ∧ hj x.2 = some j'
  | _, [], x, hx => by simp [posPackets] at hx
  | j, pk :: pks, x, hx => by
    simp only [posPackets, List.mem_append] at hx
    rcases hx with hx | hx
    · obtain ⟨a, b, c⟩ := packet_mem path i j pk x hx
      exact ⟨a, b, j, Nat.le_refl _, c⟩
    · obtain ⟨a, b, j', h1, h2⟩ := packets_mem path i (j + 1) pks x hx
      exact ⟨a, b, j', by omega, h2⟩

theorem packets_nd (path : Path) (i : Nat) : ∀ (j : Nat) (pks : List (List (Str × V))), ND (posPackets path i j pks)
  | _, [] => by simp [posPackets]
  | j, pk :: pks => by
    simp only [posPackets, ND, List.pairwise_append]
    refine ⟨packet_nd path i j pk, packets_nd path i (j + 1) pks, ?_⟩
    intro a ha b hb hK
    obtain ⟨_, _, h3⟩ := packet_mem path i j pk a ha
    obtain ⟨_, _, j', h4, h5⟩ := packets_mem path i (j + 1) pks b hb
    rw [K_h hK, h5] at h3
    simp at h3; omega

theorem loop_mem (path : Path) (i : Nat) (l : WLoop) : ∀ x ∈ posLoop path i l, hpath x.2 = path ∧ hi x.2 = some i := by
  intro x hx
  simp only [posLoop, List.mem_cons, List.mem_append, List.mem_singleton, List.not_mem_nil, or_false] at hx
  rcases hx with rfl | hx | rfl
  · exact ⟨rfl, rfl⟩
  · obtain ⟨a, b, _⟩ := packets_mem path i 0 l.packets x hx
    exact ⟨a, b⟩
  · exact ⟨rfl, rfl⟩

theorem loop_nd (path : Path) (i : Nat) (l : WLoop) : ND (posLoop path i l) := by
  simp only [posLoop, ND, List.pairwise_cons, List.pairwise_append, List.mem_append, List.mem_singleton]
  refine ⟨?_, packets_nd path i 0 l.packets, by simp, ?_⟩
  · intro b hb hK
    rcases hb with hb | rfl
    · obtain ⟨_, _, j', _, h2⟩ := packets_mem path i 0 l.packets b hb
      have := K_h hK
      dsimp only at this
      rw [← this] at h2
      simp [hj] at h2
    · have := K_k hK
      simp [kind] at this
  · intro a ha b hb hK
    subst hb
    obtain ⟨_, _, j', _, h2⟩ := packets_mem path i 0 l.packets a ha
    have := K_h hK
    dsimp only at this
    rw [this] at h2
    simp [hj] at h2

theorem loops_mem (path : Path) : ∀ (i : Nat) (ls : List WLoop), ∀ x ∈ posLoops path i ls,
    hpath x.2 = path ∧ ∃ i', i ≤ i' ∧ hi x.2 = some i'
  | _, [], x, hx => by simp [posLoops] at hx
  | i, l :: ls, x, hx => by
    simp only [posLoops, List.mem_append] at hx
    rcases hx with hx | hx
    · obtain ⟨a, b⟩ := loop_mem path i l x hx
      exact ⟨a, i, Nat.le_refl _, b⟩
    · obtain ⟨a, i', h1, h2⟩ := loops_mem path (i + 1) ls x hx
      exact ⟨a, i', by omega, h2⟩

theorem loops_nd (path : Path) : ∀ (i : Nat) (ls : List WLoop), ND (posLoops path i ls)
  | _, [] => by simp [posLoops]
  | i, l :: ls => by
    simp only [posLoops, ND, List.pairwise_append]
    refine ⟨loop_nd path i l, loops_nd path (i + 1) ls, ?_⟩
    intro a ha b hb hK
    obtain ⟨_, h3⟩ := loop_mem path i l a ha
    obtain ⟨_, i', h4, h5⟩ := loops_mem path (i + 1) ls b hb
    rw [K_h hK, h5] at h3
    simp at h3; omega

mutual
  theorem cont_mem : ∀ (d : Nat) (path : Path) (ct : WCont), ∀ x ∈ posCont d path ct, path <+: hpath x.2
    | d, path, .mk code frames loops, x, hx => by
      simp only [posCont, List.mem_cons, List.mem_append, List.mem_singleton, List.not_mem_nil, or_false] at hx
      rcases hx with rfl | hx | hx | rfl
      · exact List.prefix_refl _
      · obtain ⟨j', _, h⟩ := frames_mem (d + 1) path 0 frames x hx
        exact (List.prefix_append path [j']).trans h
      · rw [(loops_mem path 0 loops x hx).1]; exact List.prefix_refl _
      · exact List.prefix_refl _
  theorem frames_mem : ∀ (d : Nat) (parent : Path) (j : Nat) (fs : List WCont), ∀ x ∈ posFrames d parent j fs,
      ∃ j', j ≤ j' ∧ (parent ++ [j']) <+: hpath x.2
    | d, parent, j, [], x, hx => by simp [posFrames] at hx
    | d, parent, j, f :: fs, x, hx => by
      simp only [posFrames, List.mem_append] at hx
      rcases hx with hx | hx
      · exact ⟨j, Nat.le_refl _, cont_mem d (parent ++ [j]) f x hx⟩
      · obtain ⟨j', h1, h2⟩ := frames_mem d parent (j + 1) fs x hx
        exact ⟨j', by omega, h2⟩
end

theorem kind_se (d : Nat) (code : Str) :
    kind (if d = 0 then Ev.blockStart code else Ev.frameStart code) ≠ kind (if d = 0 then Ev.blockEnd code else Ev.frameEnd code) := by
  by_cases h : d = 0 <;> simp [h, kind]

mutual
  theorem cont_nd : ∀ (d : Nat) (path : Path) (ct : WCont), ND (posCont d path ct)
    | d, path, .mk code frames loops => by
      have hfr : ∀ b ∈ posFrames (d + 1) path 0 frames, b.2 ≠ Handle.cont path := by
        intro b hb he
        obtain ⟨j', _, h⟩ := frames_mem (d + 1) path 0 frames b hb
        rw [he] at h
        have := pre_len h
        simp [hpath] at this
      have hlo : ∀ b ∈ posLoops path 0 loops, b.2 ≠ Handle.cont path := by
        intro b hb he
        obtain ⟨_, i', _, h⟩ := loops_mem path 0 loops b hb
        rw [he] at h
        simp [hi] at h
      simp only [posCont, ND, List.pairwise_cons, List.pairwise_append, List.mem_append, List.mem_singleton]
      refine ⟨?_, frames_nd (d + 1) path 0 frames, ⟨loops_nd path 0 loops, by simp, ?_⟩, ?_⟩
      · intro b hb hK
        rcases hb with hb | hb | rfl
        · exact hfr b hb (K_h hK).symm
        · exact hlo b hb (K_h hK).symm
        · exact kind_se d code (K_k hK)
      · intro a ha b hb hK
        subst hb
        exact hlo a ha (K_h hK)
      · intro a ha b hb hK
        rcases hb with hb | rfl
        · obtain ⟨j', _, h⟩ := frames_mem (d + 1) path 0 frames a ha
          rw [K_h hK, (loops_mem path 0 loops b hb).1] at h
          have := pre_len h
          omega
        · exact hfr a ha (K_h hK)
  theorem frames_nd : ∀ (d : Nat) (parent : Path) (j : Nat) (fs : List WCont), ND (posFrames d parent j fs)
    | d, parent, j, [] => by simp [posFrames]
    | d, parent, j, f :: fs => by
      simp only [posFrames, ND, List.pairwise_append]
      refine ⟨cont_nd d (parent ++ [j]) f, frames_nd d parent (j + 1) fs, ?_⟩
      intro a ha b hb hK
      have h1 := pre_idx (cont_mem d (parent ++ [j]) f a ha)
      obtain ⟨j', h2, h3⟩ := frames_mem d parent (j + 1) fs b hb
      have h4 := pre_idx h3
      rw [K_h hK, h4] at h1
      simp at h1; omega
end

theorem blocks_mem : ∀ (i : Nat) (bs : List WCont), ∀ x ∈ posBlocks i bs, ∃ i', i ≤ i' ∧ ([] ++ [i']) <+: hpath x.2
  | _, [], x, hx => by simp [posBlocks] at hx
  | i, b :: bs, x, hx => by
    simp only [posBlocks, List.mem_append] at hx
    rcases hx with hx | hx
    · exact ⟨i, Nat.le_refl _, cont_mem 0 [i] b x hx⟩
    · obtain ⟨i', h1, h2⟩ := blocks_mem (i + 1) bs x hx
      exact ⟨i', by omega, h2⟩

theorem blocks_nd : ∀ (i : Nat) (bs : List WCont), ND (posBlocks i bs)
  | _, [] => by simp [posBlocks]
  | i, b :: bs => by
    simp only [posBlocks, ND, List.pairwise_append]
    refine ⟨cont_nd 0 [i] b, blocks_nd (i + 1) bs, ?_⟩
    intro a ha b' hb hK
    have h1 := pre_idx (parent := []) (cont_mem 0 [i] b a ha)
    obtain ⟨i', h2, h3⟩ := blocks_mem (i + 1) bs b' hb
    have h4 := pre_idx h3
    rw [K_h hK, h4] at h1
    simp at h1; omega

theorem pos_nd (c : WCif) : ND (fullTraversalH c) := by
  have hb : ∀ b ∈ posBlocks 0 c, b.2 ≠ Handle.cif := by
    intro b hb he
    obtain ⟨i', _, h⟩ := blocks_mem 0 c b hb
    rw [he] at h
    have := pre_len h
    simp [hpath] at this
  simp only [fullTraversalH, ND, List.pairwise_cons, List.pairwise_append, List.mem_append, List.mem_singleton]
  refine ⟨?_, blocks_nd 0 c, by simp, ?_⟩
  · intro b hb' hK
    rcases hb' with hb' | rfl
    · exact hb b hb' (K_h hK).symm
    · have := K_k hK
      simp [kind] at this
  · intro a ha b hb' hK
    subst hb'
    exact hb a ha (K_h hK)

theorem pos_nodup (c : WCif) : ((fullTraversalH c).map (fun x => (kind x.1, x.2))).Nodup := by
  have := pos_nd c
  simp only [List.Nodup, List.pairwise_map]
  exact this

end CifModel.Lemmas.WalkHPos
