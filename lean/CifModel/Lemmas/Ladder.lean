import CifModel.Model.Ladder
import CifModel.Spec.HeapTrace
/-
  CifModel.Lemmas.Ladder — basic facts about the heap-trace checker and about the primitive steps of the ladder
  model (alloc / free), and the bookkeeping predicates `Inv`, `Good`, `Bad` used by all ladder proofs.
-/
namespace CifModel.Lemmas.Ladder
open CifModel.Model.Ladder CifModel.Spec.HeapTrace

-- ---------------------------------------------------------------------------------------------------------------
-- the checker

theorem final_snoc (evs : List Ev) (e : Ev) : final (evs ++ [e]) = step (final evs) e := by
  simp [final, List.foldl_append]

theorem balanced_perm {evs : List Ev} {L L' : List Nat} (h : Balanced evs L) (p : L.Perm L') : Balanced evs L' := by
  obtain ⟨M, hM, hp⟩ := h
  exact ⟨M, hM, hp.trans p⟩

theorem balanced_alloc {evs : List Ev} {L : List Nat} {i : Nat} (h : Balanced evs L) (hi : i ∉ L) :
    Balanced (evs ++ [.alloc i]) (i :: L) := by
  obtain ⟨M, hM, hp⟩ := h
  have : i ∉ M := fun hm => hi (hp.mem_iff.mp hm)
  exact ⟨i :: M, by simp [final_snoc, hM, step, this], hp.cons i⟩

theorem balanced_fail {evs : List Ev} {L : List Nat} (i : Nat) (h : Balanced evs L) :
    Balanced (evs ++ [.fail i]) L := by
  obtain ⟨M, hM, hp⟩ := h
  exact ⟨M, by simp [final_snoc, hM, step], hp⟩

theorem balanced_free {evs : List Ev} {L : List Nat} {i : Nat} (h : Balanced evs (i :: L)) :
    Balanced (evs ++ [.free i]) L := by
  obtain ⟨M, hM, hp⟩ := h
  have hi : i ∈ M := hp.mem_iff.mpr (List.mem_cons_self ..)
  refine ⟨M.erase i, by simp [final_snoc, hM, step, hi], ?_⟩
  have := hp.erase i
  simpa using this

theorem balanced_nil : Balanced [] [] := ⟨[], rfl, List.Perm.refl _⟩

@[simp] theorem failIds_nil : failIds [] = [] := rfl
@[simp] theorem failIds_snoc_alloc (evs : List Ev) (i : Nat) : failIds (evs ++ [.alloc i]) = failIds evs := by
  simp [failIds]
@[simp] theorem failIds_snoc_free (evs : List Ev) (i : Nat) : failIds (evs ++ [.free i]) = failIds evs := by
  simp [failIds]
@[simp] theorem failIds_snoc_fail (evs : List Ev) (i : Nat) : failIds (evs ++ [.fail i]) = failIds evs ++ [i] := by
  simp [failIds]

theorem noFail_iff_failIds (evs : List Ev) : NoFail evs ↔ failIds evs = [] := by
  unfold NoFail failIds
  rw [List.filterMap_eq_nil_iff]
  constructor
  · intro h e he
    cases e with
    | fail i => exact absurd he (h i)
    | alloc i => rfl
    | free i => rfl
  · intro h i hi
    have := h _ hi
    simp at this

-- ---------------------------------------------------------------------------------------------------------------
-- bookkeeping over model states

/-- the events so far respect the heap contract, exactly `L` is live, and every live id has been issued already
    (so the next id `count + 1` is fresh) -/
def Inv (s : St) (L : List Nat) : Prop := Balanced s.evs L ∧ ∀ i ∈ L, i ≤ s.count

/-- from `s` to `s'` exactly `N` requests were made, the fault position `k` was not among them, no `fail` event -/
def Good (k N : Nat) (s s' : St) : Prop :=
  s'.count = s.count + N ∧ ¬(s.count < k ∧ k ≤ s.count + N) ∧ failIds s'.evs = failIds s.evs

/-- from `s` to `s'` the fault position `k` was hit (it lies within the next `N` requests); that request was the last
    one, and it is the only new `fail` event -/
def Bad (k N : Nat) (s s' : St) : Prop :=
  s.count < k ∧ k ≤ s.count + N ∧ s'.count = k ∧ failIds s'.evs = failIds s.evs ++ [k]

theorem Inv.perm {s : St} {L L' : List Nat} (h : Inv s L) (p : L.Perm L') : Inv s L' :=
  ⟨balanced_perm h.1 p, fun i hi => h.2 i (p.mem_iff.mpr hi)⟩

theorem Inv.nil : Inv {} [] := ⟨balanced_nil, by simp⟩

/-- the two possible outcomes of one allocation request -/
theorem alloc_cases (k : Nat) (s : St) :
    (k = s.count + 1 ∧ alloc k s = (none, { count := s.count + 1, evs := s.evs ++ [.fail (s.count + 1)] })) ∨
    (k ≠ s.count + 1 ∧ alloc k s = (some (s.count + 1), { count := s.count + 1, evs := s.evs ++ [.alloc (s.count + 1)] })) := by
  unfold alloc
  by_cases h : s.count + 1 = k
  · left; simp [h]
  · right; simp [h]; omega

theorem Inv.alloc {s : St} {L : List Nat} (h : Inv s L) :
    Inv { count := s.count + 1, evs := s.evs ++ [.alloc (s.count + 1)] } ((s.count + 1) :: L) := by
  refine ⟨balanced_alloc h.1 ?_, ?_⟩
  · intro hm; have := h.2 _ hm; omega
  · intro i hi
    simp only [List.mem_cons] at hi
    rcases hi with rfl | hi
    · exact Nat.le_refl _
    · exact Nat.le_succ_of_le (h.2 i hi)

theorem Inv.fail {s : St} {L : List Nat} (h : Inv s L) :
    Inv { count := s.count + 1, evs := s.evs ++ [.fail (s.count + 1)] } L :=
  ⟨balanced_fail _ h.1, fun i hi => Nat.le_succ_of_le (h.2 i hi)⟩

theorem Inv.free {s : St} {L : List Nat} {i : Nat} (h : Inv s (i :: L)) : Inv (free i s) L :=
  ⟨balanced_free h.1, fun j hj => h.2 j (List.mem_cons_of_mem _ hj)⟩

@[simp] theorem free_count (i : Nat) (s : St) : (free i s).count = s.count := rfl
@[simp] theorem free_failIds (i : Nat) (s : St) : failIds (free i s).evs = failIds s.evs := by simp [free]

theorem Good.refl (k : Nat) (s : St) : Good k 0 s s := by simp [Good]

theorem Good.alloc {k : Nat} {s : St} (hk : k ≠ s.count + 1) :
    Good k 1 s { count := s.count + 1, evs := s.evs ++ [.alloc (s.count + 1)] } := by
  simp [Good]; omega

theorem Bad.alloc {k : Nat} {s : St} (hk : k = s.count + 1) :
    Bad k 1 s { count := s.count + 1, evs := s.evs ++ [.fail (s.count + 1)] } := by
  simp [Bad]; omega

theorem Good.trans {k N M : Nat} {s s' s'' : St} (h : Good k N s s') (h' : Good k M s' s'') : Good k (N + M) s s'' := by
  unfold Good at *; refine ⟨by omega, by omega, by rw [h'.2.2, h.2.2]⟩

theorem Good.bad {k N M : Nat} {s s' s'' : St} (h : Good k N s s') (h' : Bad k M s' s'') : Bad k (N + M) s s'' := by
  unfold Good at h; unfold Bad at *; refine ⟨by omega, by omega, by omega, by rw [h'.2.2.2, h.2.2]⟩

theorem Bad.mono {k N M : Nat} {s s' : St} (h : Bad k N s s') (hNM : N ≤ M) : Bad k M s s' := by
  unfold Bad at *; refine ⟨by omega, by omega, by omega, h.2.2.2⟩

theorem Bad.free {k N : Nat} {s s' : St} (i : Nat) (h : Bad k N s s') : Bad k N s (free i s') := by
  unfold Bad at *; simpa using h

/-- a run cannot be both -/
theorem Good.not_bad {k N M : Nat} {s s' s'' : St} (h : Good k N s s') (h' : Bad k M s s'') (hMN : M ≤ N) : False := by
  unfold Good at h; unfold Bad at h'; omega

theorem Good.trans' {k N M K : Nat} {s s' s'' : St} (h : Good k N s s') (h' : Good k M s' s'') (e : K = N + M) :
    Good k K s s'' := e ▸ h.trans h'

theorem Good.bad' {k N M K : Nat} {s s' s'' : St} (h : Good k N s s') (h' : Bad k M s' s'') (e : N + M ≤ K) :
    Bad k K s s'' := (h.bad h').mono e

-- ---------------------------------------------------------------------------------------------------------------
-- freeAll

theorem freeAll_count (ids : List Nat) : ∀ s : St, (freeAll ids s).count = s.count := by
  induction ids with
  | nil => intro s; rfl
  | cons d ds ih => intro s; simp only [freeAll, List.foldl_cons] at ih ⊢; rw [ih]; rfl

theorem freeAll_failIds (ids : List Nat) : ∀ s : St, failIds (freeAll ids s).evs = failIds s.evs := by
  induction ids with
  | nil => intro s; rfl
  | cons d ds ih => intro s; simp only [freeAll, List.foldl_cons] at ih ⊢; rw [ih]; simp

theorem Inv.freeAll (ids : List Nat) : ∀ (s : St) (L : List Nat), Inv s (ids ++ L) → Inv (freeAll ids s) L := by
  induction ids with
  | nil => intro s L h; exact h
  | cons d ds ih =>
    intro s L h
    simp only [Model.Ladder.freeAll, List.foldl_cons] at ih ⊢
    exact ih _ _ h.free

theorem Bad.freeAll {k N : Nat} {s s' : St} (ids : List Nat) (h : Bad k N s s') : Bad k N s (freeAll ids s') := by
  unfold Bad at *; rw [freeAll_count, freeAll_failIds]; exact h

end CifModel.Lemmas.Ladder
