import CifModel.Lemmas.ParseCB
import CifModel.Spec.Traversal
/-
  CifModel.Lemmas.ParseCBMirror — first building block of C15_all_continue_mirror: the value productions consume exactly
  the (layout-free) tokens of a value and rebuild it.
-/
namespace CifModel.Lemmas.ParseCB
open CifModel.ParseCB CifModel.Spec.Doc

/-- the scanner positioned before the tokens `toks` (`b`: the first of them has already been looked at) -/
def atb (s : St) (toks : List Tok) (b : Bool) : St := { s with toks := toks, scanned := b }

-- values whose tables carry the key spelling as normalised key (what the parser model stores)
mutual
  def wfV : V → Bool
    | .lst vs => wfVs vs
    | .tbl es => wfEs es
    | _ => true
  def wfVs : List V → Bool
    | [] => true
    | v :: vs => wfV v && wfVs vs
  def wfEs : List (Str × Str × V) → Bool
    | [] => true
    | (nk, k, v) :: es => (nk == k) && wfV v && wfEs es
end

mutual
  def szV : V → Nat
    | .lst vs => szVs vs + 2
    | .tbl es => szEs es + 2
    | _ => 1
  def szVs : List V → Nat
    | [] => 0
    | v :: vs => szV v + szVs vs + 1
  def szEs : List (Str × Str × V) → Nat
    | [] => 0
    | (_, _, v) :: es => szV v + szEs es + 2
end

theorem nextToken_atb (s : St) (t : Tok) (rest : List Tok) (b : Bool) (ht : t.pre = []) :
    nextToken (atb s (t :: rest) b) = (t.ty, atb s (t :: rest) true) := by
  cases b <;> simp [nextToken, atb, ht, reportPre]

theorem consume_atb (s : St) (t : Tok) (rest : List Tok) (b : Bool) : consume (atb s (t :: rest) b) = atb s rest false := by
  simp [consume, atb]

theorem cur_atb (s : St) (t : Tok) (rest : List Tok) (b : Bool) : cur (atb s (t :: rest) b) = t := by
  simp [cur, atb]

/-- the first token of a value starts a value and carries no layout -/
theorem valueToks_head (v : V) : ∃ t ts, valueToks v = t :: ts ∧ t.pre = [] ∧ isValueStart t.ty = true := by
  cases v with
  | unk => exact ⟨_, _, rfl, rfl, rfl⟩
  | na => exact ⟨_, _, rfl, rfl, rfl⟩
  | chr q t => cases q <;> exact ⟨_, _, rfl, rfl, rfl⟩
  | numb q t n d su sc => exact ⟨_, _, rfl, rfl, rfl⟩
  | lst vs => exact ⟨{ ty := .olist, pre := [], text := [], v := .unk }, _, by simp only [valueToks]; rfl, rfl, rfl⟩
  | tbl es => exact ⟨{ ty := .otable, pre := [], text := [], v := .unk }, _, by simp only [valueToks]; rfl, rfl, rfl⟩

/-- a scalar value token -/
theorem scalar_step (s : St) (t : Tok) (rest : List Tok) (b : Bool) (fuel : Nat) (ht : t.pre = [])
    (hty : t.ty = .value ∨ t.ty = .qvalue ∨ t.ty = .tvalue) :
    parseValue (fuel + 1) (atb s (t :: rest) b) = (OK, t.v, atb s rest false) := by
  simp only [parseValue, nextToken_atb s t rest b ht]
  rcases hty with h | h | h <;> simp only [h, cur_atb, consume_atb]

mutual
  theorem value_mirror : ∀ (v : V) (rest : List Tok) (s : St) (b : Bool) (fuel : Nat), wfV v = true → szV v ≤ fuel →
      parseValue fuel (atb s (valueToks v ++ rest) b) = (OK, v, atb s rest false)
    | .unk, rest, s, b, fuel, _, hf => by
      obtain ⟨f, rfl⟩ : ∃ f, fuel = f + 1 := ⟨fuel - 1, by simp [szV] at hf; omega⟩
      simpa [valueToks] using scalar_step s _ rest b f rfl (Or.inl rfl)
    | .na, rest, s, b, fuel, _, hf => by
      obtain ⟨f, rfl⟩ : ∃ f, fuel = f + 1 := ⟨fuel - 1, by simp [szV] at hf; omega⟩
      simpa [valueToks] using scalar_step s _ rest b f rfl (Or.inl rfl)
    | .chr true t, rest, s, b, fuel, _, hf => by
      obtain ⟨f, rfl⟩ : ∃ f, fuel = f + 1 := ⟨fuel - 1, by simp [szV] at hf; omega⟩
      simpa [valueToks] using scalar_step s _ rest b f rfl (Or.inr (Or.inl rfl))
    | .chr false t, rest, s, b, fuel, _, hf => by
      obtain ⟨f, rfl⟩ : ∃ f, fuel = f + 1 := ⟨fuel - 1, by simp [szV] at hf; omega⟩
      simpa [valueToks] using scalar_step s _ rest b f rfl (Or.inl rfl)
    | .numb q t n d su sc, rest, s, b, fuel, _, hf => by
      obtain ⟨f, rfl⟩ : ∃ f, fuel = f + 1 := ⟨fuel - 1, by simp [szV] at hf; omega⟩
      simpa [valueToks] using scalar_step s _ rest b f rfl (Or.inl rfl)
    | .lst vs, rest, s, b, fuel, hw, hf => by
      obtain ⟨f, rfl⟩ : ∃ f, fuel = f + 1 := ⟨fuel - 1, by simp [szV] at hf; omega⟩
      have := values_mirror vs rest s f [] (by simpa [wfV] using hw) (by simp [szV] at hf; omega)
      simp only [valueToks, List.cons_append, List.append_assoc, parseValue,
        nextToken_atb s { ty := .olist, pre := [], text := [], v := .unk } _ b rfl, consume_atb,
        List.singleton_append, this, List.nil_append]
    | .tbl es, rest, s, b, fuel, hw, hf => by
      obtain ⟨f, rfl⟩ : ∃ f, fuel = f + 1 := ⟨fuel - 1, by simp [szV] at hf; omega⟩
      have := entries_mirror es rest s f [] (by simpa [wfV] using hw) (by simp [szV] at hf; omega)
      simp only [valueToks, List.cons_append, List.append_assoc, parseValue,
        nextToken_atb s { ty := .otable, pre := [], text := [], v := .unk } _ b rfl, consume_atb,
        List.singleton_append, this, List.nil_append]
  theorem values_mirror : ∀ (vs : List V) (rest : List Tok) (s : St) (fuel : Nat) (acc : List V), wfVs vs = true →
      szVs vs + 1 ≤ fuel →
      listLoop fuel (atb s (valuesToks vs ++ ({ ty := .clist, pre := [], text := [], v := .unk } :: rest)) false) acc
        = (OK, acc ++ vs, atb s rest false)
    | [], rest, s, fuel, acc, _, hf => by
      obtain ⟨f, rfl⟩ : ∃ f, fuel = f + 1 := ⟨fuel - 1, by omega⟩
      simp [valuesToks, listLoop, nextToken_atb s { ty := .clist, pre := [], text := [], v := .unk } rest false rfl, isValueStart, consume_atb]
    | v :: vs, rest, s, fuel, acc, hw, hf => by
      obtain ⟨f, rfl⟩ : ∃ f, fuel = f + 1 := ⟨fuel - 1, by omega⟩
      simp only [wfVs, Bool.and_eq_true] at hw
      simp only [szVs] at hf
      obtain ⟨t, ts, hvt, hpre, hstart⟩ := valueToks_head v
      have hv := value_mirror v (valuesToks vs ++ ({ ty := .clist, pre := [], text := [], v := .unk } :: rest)) s true f
        hw.1 (by omega)
      have hrest := values_mirror vs rest s f (acc ++ [v]) hw.2 (by omega)
      rw [hvt] at hv
      simp only [valuesToks, hvt, List.cons_append, List.append_assoc, listLoop, nextToken_atb _ _ _ _ hpre, hstart, if_true]
      simp only [List.cons_append] at hv
      simp only [hv, if_true, hrest, List.append_assoc, List.singleton_append]
  theorem entries_mirror : ∀ (es : List (Str × Str × V)) (rest : List Tok) (s : St) (fuel : Nat) (acc : List (Str × Str × V)),
      wfEs es = true → szEs es + 1 ≤ fuel →
      tableLoop fuel (atb s (entriesToks es ++ ({ ty := .ctable, pre := [], text := [], v := .unk } :: rest)) false) acc
        = (OK, acc ++ es, atb s rest false)
    | [], rest, s, fuel, acc, _, hf => by
      obtain ⟨f, rfl⟩ : ∃ f, fuel = f + 1 := ⟨fuel - 1, by omega⟩
      simp [entriesToks, tableLoop, nextToken_atb s { ty := .ctable, pre := [], text := [], v := .unk } rest false rfl, consume_atb]
    | (nk, k, v) :: es, rest, s, fuel, acc, hw, hf => by
      obtain ⟨f, rfl⟩ : ∃ f, fuel = f + 1 := ⟨fuel - 1, by omega⟩
      simp only [wfEs, Bool.and_eq_true, beq_iff_eq] at hw
      simp only [szEs] at hf
      obtain ⟨t, ts, hvt, hpre, hstart⟩ := valueToks_head v
      have hv := value_mirror v (entriesToks es ++ ({ ty := .ctable, pre := [], text := [], v := .unk } :: rest)) s true f
        hw.1.2 (by omega)
      have hrest := entries_mirror es rest s f (acc ++ [(k, k, v)]) hw.2 (by omega)
      rw [hvt] at hv
      simp only [List.cons_append] at hv
      simp only [entriesToks, hvt, List.cons_append, List.append_assoc, tableLoop,
        nextToken_atb s { ty := .key, pre := [], text := k, v := .unk } _ false rfl, if_true,
        cur_atb, consume_atb, nextToken_atb _ _ _ _ hpre, hstart, hv, hrest, List.singleton_append, hw.1.1]
      simp

end

end CifModel.Lemmas.ParseCB
