import CifModel.Lemmas.NamesMap
import CifModel.Model.Store
import CifModel.Model.Value
import CifModel.Model.NamesApi
/-
  How the name-taking entry points of the API see a spelling (C09): the store model (group gF, Model/Store.lean) receives a `Name`
  record (normalised key, original spelling, verdict of cif_is_valid_name), the value model (group gC, Model/Value.lean) a
  normaliser `Str → Option Str`.  Here both are built from the models of utils.c (Model/Names.lean, Model/Normalize.lean), so that
  statements about those entry points become statements about spellings.
-/
namespace CifModel.Lemmas.Names
open CifModel CifModel.Model

export CifModel.Model (apiName tableNorm itemNorm)

theorem tableNorm_eq (U : UnicodeOps) (k : Str) (c : Code) :
    (normalizeTableIndex U (some k) c = .error c ∧ tableNorm U k = none) ∨
    (normalizeTableIndex U (some k) c = .ok (U.nfc k) ∧ tableNorm U k = some (U.nfc k)) := by
  unfold normalizeTableIndex tableNorm; cases h : hasDisallowed k <;> simp [h]

theorem itemNorm_eq (U : UnicodeOps) (n : Str) (c : Code) :
    (normalizeItemName U (some n) c = .error c ∧ itemNorm U n = none) ∨
    (normalizeItemName U (some n) c = .ok (cifNormalize U n) ∧ itemNorm U n = some (cifNormalize U n)) := by
  unfold normalizeItemName itemNorm; cases h : isValidName true n <;> simp [h]

/-- look-up after `set`, for any normaliser: found with the new value iff the normal forms coincide, otherwise as before -/
theorem get_after_set {α : Type} (normS normG : Option Str → Except Code Str) (es es' : Entries α) (key key' k k' : Str) (v : α)
    (noSuch : Code) (hk : normS (some key) = .ok k) (hk' : normG (some key') = .ok k')
    (hset : es.set normS key v = .ok es') :
    (k' = k → es'.get normG key' noSuch = .ok v) ∧ (k' ≠ k → es'.get normG key' noSuch = es.get normG key' noSuch) ∧
    es'.find k = some (k, key, v) := by
  simp only [Entries.set, hk] at hset
  by_cases hex : (es.find k).isSome = true
  · rw [if_pos hex] at hset
    injection hset with hset
    subst hset
    have hf := find_overwrite k key v es hex
    refine ⟨?_, ?_, hf⟩
    · intro e; simp only [Entries.get, hk', e, hf]
    · intro hne; simp only [Entries.get, hk', find_other k key v k' hne es]
  · have hnone : es.find k = none := by cases h : es.find k <;> simp_all
    rw [if_neg hex] at hset
    injection hset with hset
    subst hset
    have hf : Entries.find (es ++ [(k, key, v)]) k = some (k, key, v) := by
      simp only [Entries.find] at hnone ⊢
      rw [List.find?_append, hnone]; simp
    refine ⟨?_, ?_, hf⟩
    · intro e; simp only [Entries.get, hk', e, hf]
    · intro hne
      have : Entries.find (es ++ [(k, key, v)]) k' = Entries.find es k' := by
        simp only [Entries.find]
        rw [List.find?_append]
        cases h : List.find? (fun e => e.1 == k') es with
        | some e => rfl
        | none =>
          have : (k == k') = false := by simpa using fun e => hne e.symm
          simp [List.find?, this]
      simp only [Entries.get, hk', this]

end CifModel.Lemmas.Names
