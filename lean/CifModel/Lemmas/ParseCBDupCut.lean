import CifModel.Lemmas.ParseCBDupPlain
import CifModel.Spec.TraversalDupCut
/-
  CifModel.Lemmas.ParseCBDupCut — the structural interpreter with the duplicate checks (`xDocD`, = the parse by `docD_x`) returns and
  stores what the specification `cDocD` (Spec/TraversalDupCut.lean) says, for EVERY handler program.
  Loops: the dropped columns make no callback and no state change, so the body of a loop over slots IS the body of the plain loop over
  the retained names and values (`xPacketsD_kept`), to which the lemmas of ParseCBCut apply.
-/
set_option linter.unusedSimpArgs false
set_option linter.unusedVariables false

namespace CifModel.Lemmas.ParseCB
open CifModel.ParseCB CifModel.Spec.Doc
open CifModel.Gen.ErrCodes (CIF_DUP_ITEMNAME CIF_DUP_BLOCKCODE CIF_DUP_FRAMECODE)

theorem hdrSlots_eq (norm : Str → Str) (c : Content) : ∀ (names : List Str) (acc : List (Option Str)),
    hdrSlots norm c names acc = slotsOf norm c names acc
  | [], _ => rfl
  | nm :: ns, acc => by
    simp only [hdrSlots, slotsOf]
    split <;> exact hdrSlots_eq norm c ns _

theorem keptCols_eq (slots : List (Option Str)) : ∀ (vals : List V) (col : Nat), keptCols slots col vals = keptD slots col vals
  | [], _ => rfl
  | v :: vs, col => by simp only [keptCols, keptD, keptCols_eq slots vs (col + 1)]

/-- the header: slots, and the count / depth are untouched (data-name and error callbacks are no handler callbacks) -/
theorem hdrD_ns (norm : Str → Str) (c : Content) : ∀ (names : List Str) (s : St) (acc : List (Option Str)),
    (hdrD norm true c names s acc).1 = slotsOf norm c names acc ∧ (hdrD norm true c names s acc).2.n = s.n
    ∧ (hdrD norm true c names s acc).2.skip = s.skip
  | [], s, acc => ⟨rfl, rfl, rfl⟩
  | nm :: ns, s, acc => by
    simp only [hdrD, slotsOf, Bool.true_and]
    by_cases hd : (hasName norm c nm || acc.any (slotIs norm nm)) = true
    · simp only [hd, if_true]
      obtain ⟨a, b, cc⟩ := hdrD_ns norm c ns (report (if s.skip ≤ 0 then note s (.dataname nm) else s) CIF_DUP_ITEMNAME) (acc ++ [none])
      refine ⟨a, ?_, ?_⟩
      · rw [b]; split <;> rfl
      · rw [cc]; split <;> rfl
    · simp only [hd, Bool.false_eq_true, if_false]
      obtain ⟨a, b, cc⟩ := hdrD_ns norm c ns (if s.skip ≤ 0 then note s (.dataname nm) else s) (acc ++ [some nm])
      refine ⟨a, ?_, ?_⟩
      · rw [b]; split <;> rfl
      · rw [cc]; split <;> rfl

-- ---- the retained columns ---------------------------------------------------------------------------------------------------------

/-- the number of retained columns in front of column `col` -/
def idxK (slots : List (Option Str)) (col : Nat) : Nat := ((slots.take col).filterMap id).length

theorem take_succ_getD (slots : List (Option Str)) (col : Nat) (h : col < slots.length) :
    slots.take (col + 1) = slots.take col ++ [slots.getD col none] := by
  rw [List.take_succ]
  simp [List.getD, h]

theorem idxK_succ_none (slots : List (Option Str)) (col : Nat) (h : col < slots.length) (hs : slots.getD col none = none) :
    idxK slots (col + 1) = idxK slots col := by
  unfold idxK; rw [take_succ_getD slots col h, hs]; simp

theorem idxK_succ_some (slots : List (Option Str)) (col : Nat) (h : col < slots.length) (nm : Str) (hs : slots.getD col none = some nm) :
    idxK slots (col + 1) = idxK slots col + 1 := by
  unfold idxK; rw [take_succ_getD slots col h, hs]; simp

theorem kept_getD (slots : List (Option Str)) (col : Nat) (h : col < slots.length) (nm : Str) (hs : slots.getD col none = some nm) :
    (slots.filterMap id).getD (idxK slots col) [] = nm := by
  have hsplit : slots = slots.take col ++ (slots.getD col none :: slots.drop (col + 1)) := by
    have : slots.getD col none = slots[col] := by simp [List.getD, h]
    rw [this, ← List.drop_eq_getElem_cons h, List.take_append_drop]
  have hfm : slots.filterMap id = (slots.take col).filterMap id ++ nm :: (slots.drop (col + 1)).filterMap id := by
    conv => lhs; rw [hsplit, hs]
    simp [List.filterMap_append]
  rw [hfm]
  simp [idxK, List.getD]

theorem xRowD_kept (p : Prog) (slots : List (Option Str)) : ∀ (vals : List V) (col : Nat) (s : St), col + vals.length ≤ slots.length →
    xRowD p slots col vals s = xRow p (slots.filterMap id) (idxK slots col) (keptD slots col vals) s
  | [], _, _, _ => rfl
  | v :: vs, col, s, hl => by
    have hlt : col < slots.length := by simp at hl; omega
    have hl' : col + 1 + vs.length ≤ slots.length := by simp at hl ⊢; omega
    cases hs : slots.getD col none with
    | none =>
      simp only [xRowD, keptD, hs, itemStepD, if_true, Option.isSome_none, Bool.false_eq_true, if_false, List.nil_append]
      rw [xRowD_kept p slots vs (col + 1) s hl', idxK_succ_none slots col hlt hs]
    | some nm =>
      simp only [xRowD, keptD, hs, itemStepD, Option.isSome_some, if_true, List.singleton_append, xRow,
        kept_getD slots col hlt nm hs]
      rw [xRowD_kept p slots vs (col + 1) _ hl', idxK_succ_some slots col hlt nm hs]

theorem xPkD_kept (p : Prog) (slots : List (Option Str)) (pk : List V) (s : St) (hl : pk.length = slots.length) :
    xPkD p slots 0 [] pk s = xPk p (slots.filterMap id) 0 [] (keptD slots 0 pk) s := by
  unfold xPkD xPk
  have h0 : idxK slots 0 = 0 := by simp [idxK]
  simp only [xRowD_kept p slots pk 0 _ (by simp [hl]), h0]

theorem xPacketsD_kept (p : Prog) (loopH : Bool) (slots : List (Option Str)) : ∀ (pks : List (List V)) (s : St) (acc : List (List V)),
    (∀ pk ∈ pks, pk.length = slots.length) →
    xPacketsD p loopH slots pks s acc = xPackets p loopH (slots.filterMap id) (pks.map (keptD slots 0)) s acc
  | [], _, _, _ => rfl
  | pk :: pks, s, acc, hl => by
    have h1 := hl pk (List.mem_cons_self ..)
    simp only [xPacketsD, List.map_cons, xPackets, xPkD_kept p slots pk s h1]
    split
    · rfl
    · exact xPacketsD_kept p loopH slots pks _ _ (fun q hq => hl q (List.mem_cons_of_mem _ hq))

theorem keptD_length (slots : List (Option Str)) : ∀ (vals : List V) (col : Nat), col + vals.length = slots.length →
    (keptD slots col vals).length + idxK slots col = (slots.filterMap id).length
  | [], col, h => by
    simp only [List.length_nil, Nat.add_zero] at h
    simp [keptD, idxK, h]
  | v :: vs, col, h => by
    have hlt : col < slots.length := by simp at h; omega
    have ih := keptD_length slots vs (col + 1) (by simp at h ⊢; omega)
    cases hs : slots.getD col none with
    | none =>
      simp only [keptD, hs, Option.isSome_none, Bool.false_eq_true, if_false, List.nil_append]
      rw [idxK_succ_none slots col hlt hs] at ih; exact ih
    | some nm =>
      simp only [keptD, hs, Option.isSome_some, if_true, List.singleton_append, List.length_cons]
      rw [idxK_succ_some slots col hlt nm hs] at ih; omega

/-- parse_loop behind its header: loop_start, the packets, loop_end -/
def xLoopBody (p : Prog) (cont : Bool) (names : List Str) (pks : List (List V)) (s1 : St) : Int × St × Option Loop :=
  let ls := loopStartStep p cont names s1
  if ls.2.2.2 then
    let pk := xPackets p ls.2.2.1 names pks ls.2.1 []
    let e := loopEndStep p (if ls.2.2.1 then some names else none) pk.1 pk.2.1
    (e.1, e.2, if ls.2.2.1 then some { category := none, names := names, packets := pk.2.2 } else none)
  else
    let e := loopEndStep p (if ls.2.2.1 then some names else none) ls.1 ls.2.1
    (e.1, e.2, if ls.2.2.1 then some { category := none, names := names, packets := [] } else none)

theorem xLoop_body (p : Prog) (cont : Bool) (names : List Str) (pks : List (List V)) (s : St) :
    xLoop p cont names pks s = xLoopBody p cont names pks (kHeader names (inc s)) := rfl

theorem xLoopD_body (p : Prog) (norm : Str → Str) (cont : Bool) (c : Content) (names : List Str) (pks : List (List V)) (s : St)
    (hk : ((hdrD norm cont c names (inc s) []).1.filterMap id).isEmpty = false)
    (hl : ∀ pk ∈ pks, pk.length = names.length) :
    xLoopD p norm cont c names pks s
      = xLoopBody p cont ((hdrD norm cont c names (inc s) []).1.filterMap id)
          (pks.map (keptD (hdrD norm cont c names (inc s) []).1 0)) (hdrD norm cont c names (inc s) []).2 := by
  have hlen : (hdrD norm cont c names (inc s) []).1.length = names.length := by rw [hdrD_length]; simp
  unfold xLoopD xLoopBody
  simp only [hk, Bool.false_eq_true, if_false,
    xPacketsD_kept p _ (hdrD norm cont c names (inc s) []).1 pks _ _ (fun pk h => by rw [hlen]; exact hl pk h)]

/-- the body of a loop at depth 0, against `cLoop` (the proof of `xLoop_c`, for any state behind the header) -/
theorem xLoopBody_c (p : Prog) (names : List Str) (pks : List (List V)) (s1 : St) (c : Content)
    (hs10 : s1.skip = 0) (hl : ∀ pk ∈ pks, pk.length = names.length) :
    (xLoopBody p true names pks s1).2.1.n = (cLoop p true names pks s1.n).n
    ∧ (xLoopBody p true names pks s1).1 = codeOf (cLoop p true names pks s1.n).stop
    ∧ (match (xLoopBody p true names pks s1).2.2 with | some l => c.addLoop l | none => c)
        = denoteBody (cLoop p true names pks s1.n).kept c
    ∧ ((cLoop p true names pks s1.n).stop = none →
        (xLoopBody p true names pks s1).2.1.skip = (if (cLoop p true names pks s1.n).sib then 1 else 0)) := by
  have hs1' : s1.skip ≤ 0 := by omega
  have hs1 : s1.skip = 0 := hs10
  unfold xLoopBody cLoop
  simp only [loopStartStep, hs1', if_true]
  rcases ans4 (p s1.n (.loopStart names)) with h | h | h | ⟨h1, h2, h3⟩
  · rw [site_cont p s1 _ _ _ h]
    simp only [h, if_true, decide_true, Bool.and_self]
    obtain ⟨a, b, e, d⟩ := xPackets_c p names pks (push s1 (.loopStart names)) [] (by simp; omega) hl
    simp only [push_n, List.nil_append] at a b e d
    cases hstop : (cPackets p names pks (s1.n + 1)).stop with
    | some r =>
      rw [hstop] at b
      have hne : (xPackets p true names pks (push s1 (.loopStart names)) []).1 ≠ OK := by
        rw [b]; intro h'
        exact (cPackets_good p names pks (s1.n + 1)) (by rw [hstop]; simp only [codeOf] at h'; rw [h'])
      -- the depth is still 0 when a handler stops the parse? not needed: loop_end only passes the code on
      have hle : ∀ s2 : St, (loopEndStep p (some names) (xPackets p true names pks (push s1 (.loopStart names)) []).1 s2).1
          = (xPackets p true names pks (push s1 (.loopStart names)) []).1
          ∧ (loopEndStep p (some names) (xPackets p true names pks (push s1 (.loopStart names)) []).1 s2).2.n = s2.n := by
        intro s2
        unfold loopEndStep
        by_cases hk : s2.skip > 0
        · simp only [hk, if_true]; exact ⟨trivial, trivial⟩
        · simp only [hk, if_false, hne]; exact ⟨trivial, trivial⟩
      obtain ⟨l1, l2⟩ := hle (xPackets p true names pks (push s1 (.loopStart names)) []).2.1
      simp only [Option.isSome_some, if_true]
      refine ⟨by rw [l2, a], by rw [l1, b], ?_, fun h => nomatch h⟩
      simp [e, denoteBody, denoteElem]
    | none =>
      rw [hstop] at b
      have hok : (xPackets p true names pks (push s1 (.loopStart names)) []).1 = OK := b
      have d' := d hstop
      simp only [Option.isSome_none, Bool.false_eq_true, if_false, hok]
      by_cases hb : (cPackets p names pks (s1.n + 1)).sib = true
      · simp only [hb, if_true] at d' ⊢
        have hk : (xPackets p true names pks (push s1 (.loopStart names)) []).2.1.skip > 0 := by omega
        simp only [loopEndStep, hk, if_true]
        refine ⟨a, rfl, ?_, fun _ => ?_⟩
        · simp [e, denoteBody, denoteElem]
        · show (xPackets p true names pks (push s1 (.loopStart names)) []).2.1.skip - 1 = 0
          omega
      · simp only [hb, Bool.false_eq_true, if_false] at d' ⊢
        obtain ⟨x, y, z⟩ := loopEnd_c p (some names) (xPackets p true names pks (push s1 (.loopStart names)) []).2.1 d'
        rw [a] at x y z
        simp only [x, y, e, denoteBody, denoteElem]
        refine ⟨trivial, trivial, trivial, fun hs => ?_⟩
        rw [z hs]
        by_cases hq : p (cPackets p names pks (s1.n + 1)).n (Ev.loopEnd (some names)) = SKIP_SIBLINGS <;> simp [hq]
  · rw [site_cur p s1 _ _ _ h]
    simp only [h, cur_ne_cont, if_false, decide_false, Bool.and_false, if_true, decide_true]
    rw [xPackets_skipped p false names pks _ [] (by simp)]
    simp [loopEndStep, denoteBody, codeOf]
  · rw [site_sib p s1 _ _ _ h]
    simp only [h, sib_ne_cont, sib_ne_cur, if_false, decide_false, Bool.and_false, if_true, decide_true]
    rw [xPackets_skipped p false names pks _ [] (by simp)]
    simp [loopEndStep, denoteBody, codeOf]
  · rw [site_stop' p s1 _ _ _ h1 h2 h3]
    have hne : ¬ (p s1.n (Ev.loopStart names) = OK) := h1
    simp only [h1, h2, h3, hne, if_false, decide_false, Bool.and_false, Bool.false_eq_true]
    rw [loopEnd_stop p none _ _ (by simpa using hs10) hne]
    simp [denoteBody, codeOf]

-- ---- productions entered while skipping ------------------------------------------------------------------------------------------

theorem hdrD_ns' (norm : Str → Str) (cont : Bool) (c : Content) : ∀ (names : List Str) (s : St) (acc : List (Option Str)),
    (hdrD norm cont c names s acc).2.n = s.n ∧ (hdrD norm cont c names s acc).2.skip = s.skip
  | [], s, acc => ⟨rfl, rfl⟩
  | nm :: ns, s, acc => by
    simp only [hdrD]
    split
    · obtain ⟨b, cc⟩ := hdrD_ns' norm cont c ns (report (if s.skip ≤ 0 then note s (.dataname nm) else s) CIF_DUP_ITEMNAME) (acc ++ [none])
      refine ⟨?_, ?_⟩
      · rw [b]; split <;> rfl
      · rw [cc]; split <;> rfl
    · obtain ⟨b, cc⟩ := hdrD_ns' norm cont c ns (if s.skip ≤ 0 then note s (.dataname nm) else s) (acc ++ [some nm])
      refine ⟨?_, ?_⟩
      · rw [b]; split <;> rfl
      · rw [cc]; split <;> rfl

theorem xRowD_skipped (p : Prog) (slots : List (Option Str)) : ∀ (vals : List V) (col : Nat) (s : St), s.skip > 0 →
    xRowD p slots col vals s = (OK, s)
  | [], _, _, _ => rfl
  | v :: vs, col, s, h => by
    have hstep : itemStepD p (slots.getD col none) OK v s = (OK, s) := by
      cases slots.getD col none with
      | none => rfl
      | some nm =>
        have : ¬ (True ∧ s.skip ≤ 0) := by omega
        simp only [itemStepD, itemStep, this, if_false]
    simp only [xRowD, hstep, if_true]
    exact xRowD_skipped p slots vs (col + 1) s h

theorem xPkD_skipped (p : Prog) (slots : List (Option Str)) (pk : List V) (s : St) (h : s.skip > 0) :
    xPkD p slots 0 [] pk s = (OK, s, false) := by
  have h1 : (pktStartStep p s) = (OK, { s with skip := s.skip + 1 }) := by unfold pktStartStep; simp only [h, if_true]
  have h2 : ({ s with skip := s.skip + 1 } : St).skip > 0 := by show s.skip + 1 > 0; omega
  unfold xPkD
  simp only [if_true, h1, ne_eq, not_true_eq_false, if_false, xRowD_skipped p slots pk 0 _ h2, pktEndStep, h2]
  rw [St.eta s _ (by omega)]

theorem xPacketsD_skipped (p : Prog) (loopH : Bool) (slots : List (Option Str)) : ∀ (pks : List (List V)) (s : St) (acc : List (List V)),
    s.skip > 0 → xPacketsD p loopH slots pks s acc = (OK, s, acc)
  | [], _, _, _ => rfl
  | pk :: pks, s, acc, h => by
    simp only [xPacketsD, xPkD_skipped p slots pk s h, ne_eq, not_true_eq_false, if_false, Bool.false_and, Bool.false_eq_true]
    exact xPacketsD_skipped p loopH slots pks s acc h

/-- a production entered while skipping, as far as the store specification is concerned: result, count, depth, content -/
def Skipped (x : Int × St × Content) (s : St) (c : Content) : Prop :=
  x.1 = OK ∧ x.2.1.n = s.n ∧ x.2.1.skip = s.skip ∧ x.2.2 = c

/-- a loop entered while skipping: nothing happens (error callbacks apart) — unless its header loses all its names -/
theorem xLoopD_skipped (p : Prog) (norm : Str → Str) (cont : Bool) (c : Content) (names : List Str) (pks : List (List V)) (s : St)
    (h : s.skip > 0) (hne : (xLoopD p norm cont c names pks s).1 ≠ MALFORMED) :
    (xLoopD p norm cont c names pks s).1 = OK ∧ (xLoopD p norm cont c names pks s).2.1.n = s.n
    ∧ (xLoopD p norm cont c names pks s).2.1.skip = s.skip ∧ (xLoopD p norm cont c names pks s).2.2 = none := by
  have hi : (inc s).skip = s.skip + 1 := by rw [inc_skip]; simp only [h, if_true]
  have hin : (inc s).n = s.n := by unfold inc; split <;> rfl
  obtain ⟨hn, hsk⟩ := hdrD_ns' norm cont c names (inc s) []
  rw [hi] at hsk
  rw [hin] at hn
  unfold xLoopD at hne ⊢
  generalize hdrD norm cont c names (inc s) [] = hd at hn hsk hne ⊢
  have hpos : hd.2.skip > 0 := by omega
  have hnle : ¬ hd.2.skip ≤ 0 := by omega
  by_cases hk : (hd.1.filterMap id).isEmpty = true
  · simp only [hk, if_true, loopEndStep, hpos] at hne
    exact absurd rfl hne
  · simp only [hk, Bool.false_eq_true, if_false, loopStartStep, hnle, if_true, xPacketsD_skipped p false hd.1 pks hd.2 [] hpos,
      loopEndStep, hpos]
    exact ⟨trivial, hn, by show hd.2.skip - 1 = s.skip; omega, trivial⟩

mutual
  theorem xElemD_skipped (p : Prog) (norm : Str → Str) (cont : Bool) : ∀ (e : Elem) (s : St) (c : Content), s.skip > 0 →
      (xElemD p norm cont e s c).1 ≠ MALFORMED → Skipped (xElemD p norm cont e s c) s c
    | .item nm v, s, c, h, _ => by
      simp only [xElemD, h, if_true, dec_inc s (by omega)]
      exact ⟨rfl, rfl, rfl, rfl⟩
    | .loop names pks, s, c, h, hne => by
      have hnle : ¬ s.skip ≤ 0 := by omega
      simp only [xElemD, hnle, if_false] at hne ⊢
      obtain ⟨a, b, cc, d⟩ := xLoopD_skipped p norm cont c names pks s h hne
      exact ⟨a, b, cc, by simp only [d]⟩
    | .frame code body, s, c, h, hne => by
      have hor : ((!cont) = true ∨ s.skip > 0) := Or.inr h
      have hi : (inc s).skip > 0 := by rw [inc_skip]; simp only [h, if_true]; omega
      have hst : contStartStep p false false code s = (OK, inc s) := by unfold contStartStep; simp only [h, if_true]
      simp only [xElemD, hor, if_true, hst, ne_eq, not_true_eq_false, if_false] at hne ⊢
      have hbody : (xElemsD p norm false body (inc s) Content.empty).1 ≠ MALFORMED := by
        intro hm
        rw [containerEnd_stop p false false code _ _ _ (by rw [hm]; decide)] at hne
        exact hne hm
      obtain ⟨a, b, cc, d⟩ := xElemsD_skipped p norm false body (inc s) Content.empty hi hbody
      have hce : containerEnd p false false code (xElemsD p norm false body (inc s) Content.empty).1
          (xElemsD p norm false body (inc s) Content.empty).2.1 (xElemsD p norm false body (inc s) Content.empty).2.2
          = (OK, dec (xElemsD p norm false body (inc s) Content.empty).2.1, (xElemsD p norm false body (inc s) Content.empty).2.2) := by
        unfold containerEnd
        rw [a]
        have hds : (dec (xElemsD p norm false body (inc s) Content.empty).2.1).skip > 0 := by
          rw [dec_skip, cc]
          have : (inc s).skip = s.skip + 1 := by rw [inc_skip]; simp only [h, if_true]
          simp only [hi, if_true]; omega
        have hc : ¬ (OK = OK ∧ (dec (xElemsD p norm false body (inc s) Content.empty).2.1).skip ≤ 0) := by omega
        rw [if_neg hc]
      rw [hce]
      refine ⟨rfl, ?_, ?_, rfl⟩
      · show (dec _).n = s.n
        rw [dec_n, b]; unfold inc; split <;> rfl
      · show (dec _).skip = s.skip
        rw [dec_skip, cc]
        have : (inc s).skip = s.skip + 1 := by rw [inc_skip]; simp only [h, if_true]
        simp only [hi, if_true]; omega
  theorem xElemsD_skipped (p : Prog) (norm : Str → Str) (cont : Bool) : ∀ (es : List Elem) (s : St) (c : Content), s.skip > 0 →
      (xElemsD p norm cont es s c).1 ≠ MALFORMED → Skipped (xElemsD p norm cont es s c) s c
    | [], s, c, _, _ => ⟨rfl, rfl, rfl, rfl⟩
    | e :: es, s, c, h, hne => by
      simp only [xElemsD] at hne ⊢
      by_cases hok : (xElemD p norm cont e s c).1 = OK
      · simp only [hok, if_true] at hne ⊢
        obtain ⟨a, b, cc, d⟩ := xElemD_skipped p norm cont e s c h (by rw [hok]; decide)
        have h2 : (xElemD p norm cont e s c).2.1.skip > 0 := by rw [cc]; exact h
        obtain ⟨a2, b2, c2, d2⟩ := xElemsD_skipped p norm cont es _ _ h2 hne
        exact ⟨a2, by rw [b2, b], by rw [c2, cc], by rw [d2, d]⟩
      · simp only [hok, if_false] at hne ⊢
        obtain ⟨a, _, _, _⟩ := xElemD_skipped p norm cont e s c h hne
        exact absurd a hok
end

/-- a container without handle entered while skipping -/
theorem xContD_skipped (p : Prog) (norm : Str → Str) (isBlock : Bool) (code : Str) (body : List Elem) (s : St) (c0 : Content)
    (h : s.skip > 0) (hne : (xContD p norm false isBlock code body s c0).1 ≠ MALFORMED) :
    (xContD p norm false isBlock code body s c0).1 = OK ∧ (xContD p norm false isBlock code body s c0).2.1.n = s.n
    ∧ (xContD p norm false isBlock code body s c0).2.1.skip = s.skip := by
  have hi : (inc s).skip > 0 := by rw [inc_skip]; simp only [h, if_true]; omega
  have hst : contStartStep p false isBlock code s = (OK, inc s) := by unfold contStartStep; simp only [h, if_true]
  unfold xContD at hne ⊢
  simp only [hst, ne_eq, not_true_eq_false, if_false] at hne ⊢
  have hbody : (xElemsD p norm false body (inc s) c0).1 ≠ MALFORMED := by
    intro hm
    rw [containerEnd_stop p false isBlock code _ _ _ (by rw [hm]; decide)] at hne
    exact hne hm
  obtain ⟨a, b, cc, d⟩ := xElemsD_skipped p norm false body (inc s) c0 hi hbody
  have hce : containerEnd p false isBlock code (xElemsD p norm false body (inc s) c0).1
      (xElemsD p norm false body (inc s) c0).2.1 (xElemsD p norm false body (inc s) c0).2.2
      = (OK, dec (xElemsD p norm false body (inc s) c0).2.1, (xElemsD p norm false body (inc s) c0).2.2) := by
    unfold containerEnd
    rw [a]
    have hds : (dec (xElemsD p norm false body (inc s) c0).2.1).skip > 0 := by
      rw [dec_skip, cc]
      have : (inc s).skip = s.skip + 1 := by rw [inc_skip]; simp only [h, if_true]
      simp only [hi, if_true]; omega
    have hc : ¬ (OK = OK ∧ (dec (xElemsD p norm false body (inc s) c0).2.1).skip ≤ 0) := by omega
    rw [if_neg hc]
  rw [hce]
  refine ⟨rfl, ?_, ?_⟩
  · show (dec _).n = s.n
    rw [dec_n, b]; unfold inc; split <;> rfl
  · show (dec _).skip = s.skip
    rw [dec_skip, cc]
    have : (inc s).skip = s.skip + 1 := by rw [inc_skip]; simp only [h, if_true]
    simp only [hi, if_true]; omega

theorem xBlocksD_skipped (p : Prog) (norm : Str → Str) (cif : Bool) : ∀ (d : Doc) (s : St) (acc : List Container), s.skip > 0 →
    (xBlocksD p norm cif d s acc).1 ≠ MALFORMED →
    (xBlocksD p norm cif d s acc).1 = OK ∧ (xBlocksD p norm cif d s acc).2.1.n = s.n ∧ (xBlocksD p norm cif d s acc).2.1.skip = s.skip
    ∧ (xBlocksD p norm cif d s acc).2.2 = acc
  | [], _, _, _, _ => ⟨rfl, rfl, rfl, rfl⟩
  | b :: bs, s, acc, h, hne => by
    have hbc : (cif && decide (s.skip ≤ 0)) = false := by
      have : ¬ s.skip ≤ 0 := by omega
      simp [this]
    simp only [xBlocksD, hbc, Bool.false_eq_true, if_false] at hne ⊢
    by_cases hok : (xContD p norm false true b.code b.body s Content.empty).1 = OK
    · simp only [hok, if_true] at hne ⊢
      obtain ⟨a, bb, cc⟩ := xContD_skipped p norm true b.code b.body s .empty h (by rw [hok]; decide)
      obtain ⟨a2, b2, c2, d2⟩ := xBlocksD_skipped p norm cif bs _ acc (by rw [cc]; exact h) hne
      exact ⟨a2, by rw [b2, bb], by rw [c2, cc], d2⟩
    · simp only [hok, if_false] at hne ⊢
      obtain ⟨a, _, _⟩ := xContD_skipped p norm true b.code b.body s .empty h hne
      exact absurd a hok

-- ---- the specification never stops with CIF_OK ---------------------------------------------------------------------------------------

theorem malformed_ne_ok : MALFORMED ≠ OK := by decide

theorem cContD_good (p : Prog) (sEv eEv : Ev) (n : Nat) (c0 : Content) (body : CutC) (hb : body.stop ≠ some OK) :
    (cContD p sEv eEv n c0 body).stop ≠ some OK := by
  unfold cContD
  split
  · split
    · exact hb
    · exact stopOf_good _
  · split
    · exact stopOf_good _
    · split
      · simp
      · rename_i h1 h2 h3; exact some_good h1

mutual
  theorem cElemD_good (p : Prog) (norm : Str → Str) : ∀ (e : Elem) (n : Nat) (c : Content), (cElemD p norm e n c).stop ≠ some OK
    | .item nm v, n, c => by
      simp only [cElemD]
      split
      · simp
      · exact stopOf_good _
    | .loop names pks, n, c => by
      simp only [cElemD]
      split
      · simp only [ne_eq, Option.some.injEq]; exact malformed_ne_ok
      · exact cLoop_good p true _ _ n
    | .frame code body, n, c => by
      simp only [cElemD]
      split
      · exact cContD_good p _ _ n _ _ (cElemsD_good p norm body (n + 1) _)
      · exact cContD_good p _ _ n _ _ (cElemsD_good p norm body (n + 1) _)
  theorem cElemsD_good (p : Prog) (norm : Str → Str) : ∀ (es : List Elem) (n : Nat) (c : Content), (cElemsD p norm es n c).stop ≠ some OK
    | [], n, c => by simp [cElemsD]
    | e :: es, n, c => by
      simp only [cElemsD]
      split
      · exact cElemD_good p norm e n c
      · split
        · simp
        · exact cElemsD_good p norm es _ _
end

-- ---- productions entered at depth 0 --------------------------------------------------------------------------------------------------

/-- what `xElemsD` owes `cElemsD` (statement of the induction) -/
def ElemsOKD (p : Prog) (norm : Str → Str) (body : List Elem) : Prop :=
  ∀ (s' : St) (c' : Content), s'.skip = 0 → (xElemsD p norm true body s' c').1 ≠ MALFORMED →
    (xElemsD p norm true body s' c').2.1.n = (cElemsD p norm body s'.n c').n
    ∧ (xElemsD p norm true body s' c').1 = codeOf (cElemsD p norm body s'.n c').stop
    ∧ (xElemsD p norm true body s' c').2.2 = (cElemsD p norm body s'.n c').c
    ∧ ((cElemsD p norm body s'.n c').stop = none →
        (xElemsD p norm true body s' c').2.1.skip = 0 ∨ (xElemsD p norm true body s' c').2.1.skip = 1)

/-- a container (new or reopened, holding `c0`) entered at depth 0 with a handle -/
theorem xContD_c (p : Prog) (norm : Str → Str) (isBlock : Bool) (code : Str) (body : List Elem) (s : St) (c0 : Content)
    (h0 : s.skip = 0) (hne : (xContD p norm true isBlock code body s c0).1 ≠ MALFORMED) (ih : ElemsOKD p norm body) :
    (xContD p norm true isBlock code body s c0).2.1.n
        = (cContD p (evS isBlock code) (evE isBlock code) s.n c0 (cElemsD p norm body (s.n + 1) c0)).n
    ∧ (xContD p norm true isBlock code body s c0).1
        = codeOf (cContD p (evS isBlock code) (evE isBlock code) s.n c0 (cElemsD p norm body (s.n + 1) c0)).stop
    ∧ (xContD p norm true isBlock code body s c0).2.2
        = (cContD p (evS isBlock code) (evE isBlock code) s.n c0 (cElemsD p norm body (s.n + 1) c0)).c
    ∧ ((cContD p (evS isBlock code) (evE isBlock code) s.n c0 (cElemsD p norm body (s.n + 1) c0)).stop = none →
        (xContD p norm true isBlock code body s c0).2.1.skip
          = (if (cContD p (evS isBlock code) (evE isBlock code) s.n c0 (cElemsD p norm body (s.n + 1) c0)).sib then 1 else 0)) := by
  obtain ⟨hn, hcode, hsk⟩ := contStart_c p isBlock code s h0
  unfold cContD
  rcases ans4 (p s.n (evS isBlock code)) with h | h | h | ⟨h1, h2, h3⟩
  · -- CONTINUE
    have hst0 : (contStartStep p true isBlock code s).2.skip = 0 := by rw [hsk]; simp [h, cont_ne_cur, cont_ne_sib]
    have hok : (contStartStep p true isBlock code s).1 = OK := by rw [hcode, h]; rfl
    have hR : xContD p norm true isBlock code body s c0
        = containerEnd p true isBlock code (xElemsD p norm true body (contStartStep p true isBlock code s).2 c0).1
            (xElemsD p norm true body (contStartStep p true isBlock code s).2 c0).2.1
            (xElemsD p norm true body (contStartStep p true isBlock code s).2 c0).2.2 := by
      unfold xContD
      simp only [hok, ne_eq, not_true_eq_false, if_false]
    have hbody : (xElemsD p norm true body (contStartStep p true isBlock code s).2 c0).1 ≠ MALFORMED := by
      intro hm
      rw [hR, containerEnd_stop p true isBlock code _ _ _ (by rw [hm]; decide)] at hne
      exact hne hm
    obtain ⟨a, bb, e, d⟩ := ih (contStartStep p true isBlock code s).2 c0 hst0 hbody
    rw [hn] at a bb e d
    simp only [h, if_true]
    cases hstop : (cElemsD p norm body (s.n + 1) c0).stop with
    | some r =>
      rw [hstop] at bb
      have hne2 : (xElemsD p norm true body (contStartStep p true isBlock code s).2 c0).1 ≠ OK := by
        rw [bb]; simp only [codeOf]
        intro h'
        exact (cElemsD_good p norm body (s.n + 1) c0) (by rw [hstop, h'])
      rw [hR, containerEnd_stop p true isBlock code _ _ _ hne2]
      simp only [Option.isSome_some, if_true]
      exact ⟨by simp only [dec_n]; exact a, by rw [bb], e, fun hh => nomatch hh⟩
    | none =>
      rw [hstop] at bb
      have hok2 : (xElemsD p norm true body (contStartStep p true isBlock code s).2 c0).1 = OK := bb
      obtain ⟨c1, _⟩ := containerEnd_c p isBlock code (xElemsD p norm true body (contStartStep p true isBlock code s).2 c0).2.1
        (xElemsD p norm true body (contStartStep p true isBlock code s).2 c0).2.2
      obtain ⟨x, y, z, w⟩ := c1 (d hstop)
      rw [hR, hok2]
      rw [a] at x y w
      simp only [Option.isSome_none, Bool.false_eq_true, if_false]
      refine ⟨x, y, by rw [z, e], fun hs => ?_⟩
      rw [w hs]
      by_cases hq : p (cElemsD p norm body (s.n + 1) c0).n (evE isBlock code) = SKIP_SIBLINGS <;> simp [hq]
  · -- SKIP_CURRENT
    have hst1 : (contStartStep p true isBlock code s).2.skip = 1 := by rw [hsk]; simp [h]
    have hok : (contStartStep p true isBlock code s).1 = OK := by rw [hcode, h]; rfl
    have hR : xContD p norm true isBlock code body s c0
        = containerEnd p true isBlock code (xElemsD p norm true body (contStartStep p true isBlock code s).2 c0).1
            (xElemsD p norm true body (contStartStep p true isBlock code s).2 c0).2.1
            (xElemsD p norm true body (contStartStep p true isBlock code s).2 c0).2.2 := by
      unfold xContD
      simp only [hok, ne_eq, not_true_eq_false, if_false]
    have hbody : (xElemsD p norm true body (contStartStep p true isBlock code s).2 c0).1 ≠ MALFORMED := by
      intro hm
      rw [hR, containerEnd_stop p true isBlock code _ _ _ (by rw [hm]; decide)] at hne
      exact hne hm
    obtain ⟨a, b, cc, d⟩ := xElemsD_skipped p norm true body (contStartStep p true isBlock code s).2 c0 (by omega) hbody
    obtain ⟨c1, _⟩ := containerEnd_c p isBlock code (xElemsD p norm true body (contStartStep p true isBlock code s).2 c0).2.1
      (xElemsD p norm true body (contStartStep p true isBlock code s).2 c0).2.2
    obtain ⟨x, y, z, w⟩ := c1 (Or.inr (by rw [cc]; exact hst1))
    rw [b, hn] at x y w
    rw [hR, a]
    simp only [h, cur_ne_cont, if_false, if_true]
    refine ⟨x, y, by rw [z, d], fun hs => ?_⟩
    rw [w hs]
    by_cases hq : p (s.n + 1) (evE isBlock code) = SKIP_SIBLINGS <;> simp [hq]
  · -- SKIP_SIBLINGS
    have hst2 : (contStartStep p true isBlock code s).2.skip = 2 := by rw [hsk]; simp [h, sib_ne_cur]
    have hok : (contStartStep p true isBlock code s).1 = OK := by rw [hcode, h]; rfl
    have hR : xContD p norm true isBlock code body s c0
        = containerEnd p true isBlock code (xElemsD p norm true body (contStartStep p true isBlock code s).2 c0).1
            (xElemsD p norm true body (contStartStep p true isBlock code s).2 c0).2.1
            (xElemsD p norm true body (contStartStep p true isBlock code s).2 c0).2.2 := by
      unfold xContD
      simp only [hok, ne_eq, not_true_eq_false, if_false]
    have hbody : (xElemsD p norm true body (contStartStep p true isBlock code s).2 c0).1 ≠ MALFORMED := by
      intro hm
      rw [hR, containerEnd_stop p true isBlock code _ _ _ (by rw [hm]; decide)] at hne
      exact hne hm
    obtain ⟨a, b, cc, d⟩ := xElemsD_skipped p norm true body (contStartStep p true isBlock code s).2 c0 (by omega) hbody
    obtain ⟨_, c2⟩ := containerEnd_c p isBlock code (xElemsD p norm true body (contStartStep p true isBlock code s).2 c0).2.1
      (xElemsD p norm true body (contStartStep p true isBlock code s).2 c0).2.2
    obtain ⟨x, y, z, w⟩ := c2 (by rw [cc]; exact hst2)
    rw [b, hn] at x
    rw [hR, a]
    simp only [h, sib_ne_cont, sib_ne_cur, if_false, if_true]
    exact ⟨x, by rw [y]; rfl, by rw [w, d], fun _ => z⟩
  · -- a stopping answer
    have hcode' : (contStartStep p true isBlock code s).1 = p s.n (evS isBlock code) := by
      rw [hcode, stopOf_stop _ h1 h2 h3]; rfl
    have hne2 : (contStartStep p true isBlock code s).1 ≠ OK := by rw [hcode']; exact h1
    have hR : xContD p norm true isBlock code body s c0
        = containerEnd p true isBlock code (contStartStep p true isBlock code s).1 (contStartStep p true isBlock code s).2 c0 := by
      unfold xContD
      simp only [hne2, ne_eq, not_false_eq_true, if_true]
    rw [hR, containerEnd_stop p true isBlock code _ _ _ hne2]
    simp only [h1, h2, h3, if_false]
    exact ⟨by simp only [dec_n]; exact hn, by rw [hcode']; rfl, trivial, fun hh => nomatch hh⟩

theorem idxK_zero (slots : List (Option Str)) : idxK slots 0 = 0 := by simp [idxK]

theorem keptCols_map (slots : List (Option Str)) (pks : List (List V)) :
    pks.map (keptCols slots 0) = pks.map (keptD slots 0) :=
  List.map_congr_left (fun pk _ => keptCols_eq slots pk 0)

mutual
  theorem xElemD_c (p : Prog) (norm : Str → Str) : ∀ (e : Elem) (a : Bool) (s : St) (c : Content), s.skip = 0 → wfElem a e = true →
      (xElemD p norm true e s c).1 ≠ MALFORMED →
      (xElemD p norm true e s c).2.1.n = (cElemD p norm e s.n c).n
      ∧ (xElemD p norm true e s c).1 = codeOf (cElemD p norm e s.n c).stop
      ∧ (xElemD p norm true e s c).2.2 = (cElemD p norm e s.n c).c
      ∧ ((cElemD p norm e s.n c).stop = none →
          (xElemD p norm true e s c).2.1.skip = (if (cElemD p norm e s.n c).sib then 1 else 0))
    | .item nm v, a, s, c, h0, _, _ => by
      have hns : ¬ s.skip > 0 := by omega
      have hnote : (note s (Ev.dataname nm)).skip = 0 := h0
      by_cases hd : hasName norm c nm = true
      · have hst : (report (note s (Ev.dataname nm)) CIF_DUP_ITEMNAME).skip = 0 := h0
        simp only [xElemD, hns, if_false, hd, Bool.true_and, if_true, cElemD, inc0 _ hst, dec0 _ hst]
        exact ⟨by first | trivial | rfl, by first | trivial | rfl, by first | trivial | rfl, fun _ => h0⟩
      · simp only [xElemD, hns, if_false, hd, Bool.true_and, Bool.false_eq_true, inc0 _ hnote, scalarItemStep, cElemD]
        have hnn : (note s (Ev.dataname nm)).n = s.n := rfl
        rw [← hnn]
        rcases ans4 (p (note s (Ev.dataname nm)).n (.item nm v)) with h | h | h | ⟨h1, h2, h3⟩
        · rw [site_cont p _ _ _ _ h]
          simp [h, h0, cont_ne_sib, stopOf_cont, codeOf, dec0 (push (note s (Ev.dataname nm)) (Ev.item nm v)) (by simpa using hnote)]
        · rw [site_cur p _ _ _ _ h]
          simp [h, h0, cur_ne_sib, cur_ne_cont, stopOf_cur, codeOf,
            dec0 (push (note s (Ev.dataname nm)) (Ev.item nm v)) (by simpa using hnote)]
        · rw [site_sib p _ _ _ _ h]
          simp [h, sib_ne_cont, stopOf_sib, codeOf, dec_n, dec_skip]
        · rw [site_stop' p _ _ _ _ h1 h2 h3]
          simp [h1, h3, stopOf_stop _ h1 h2 h3, codeOf, dec_n]
    | .loop names pks, a, s, c, h0, hw, hne => by
      obtain ⟨hnn, _, hall⟩ := loop_wf_all names pks hw
      have hle : s.skip ≤ 0 := by omega
      have hs1 : (note s (Ev.keyword [])).skip = 0 := h0
      obtain ⟨hslots, hn, hsk⟩ := hdrD_ns norm c names (inc (note s (Ev.keyword []))) []
      rw [inc0 _ hs1] at hslots hn hsk
      simp only [xElemD, hle, if_true] at hne ⊢
      simp only [cElemD, hdrSlots_eq, keptCols_map]
      by_cases hk : ((slotsOf norm c names []).filterMap id).isEmpty = true
      · exfalso
        apply hne
        unfold xLoopD
        simp only [inc0 _ hs1, hslots, hk, if_true, loopEndStep]
        have : ¬ (hdrD norm true c names (note s (Ev.keyword [])) []).2.skip > 0 := by rw [hsk, hs1]; decide
        simp only [this, if_false, malformed_ne_ok]
      · have hk' : ((hdrD norm true c names (inc (note s (Ev.keyword []))) []).1.filterMap id).isEmpty = false := by
          rw [inc0 _ hs1, hslots]; simpa using hk
        rw [xLoopD_body p norm true c names pks _ hk' (fun pk h => (hall pk h).2.1)]
        simp only [inc0 _ hs1, hslots, hk, Bool.false_eq_true, if_false]
        have hrect : ∀ pk ∈ pks.map (keptD (slotsOf norm c names []) 0), pk.length = ((slotsOf norm c names []).filterMap id).length := by
          intro pk hpk
          obtain ⟨q, hq, rfl⟩ := List.mem_map.mp hpk
          have hlen : (slotsOf norm c names []).length = names.length := by
            have := hdrD_length norm true c names (note s (Ev.keyword [])) []
            rw [hslots] at this; simpa using this
          have := keptD_length (slotsOf norm c names []) q 0 (by rw [hlen]; simpa using (hall q hq).2.1)
          rw [idxK_zero] at this; simpa using this
        have hb := xLoopBody_c p ((slotsOf norm c names []).filterMap id) (pks.map (keptD (slotsOf norm c names []) 0))
          (hdrD norm true c names (note s (Ev.keyword [])) []).2 c (by rw [hsk]; exact hs1) hrect
        rw [hn] at hb
        exact hb
    | .frame code body, a, s, c, h0, hw, hne => by
      have hwb : wfElems false body = true := by
        simp only [wfElem, Bool.and_eq_true] at hw; exact hw.2
      have hcond : ¬ ((!true) = true ∨ s.skip > 0) := by simp [h0]
      have ih : ElemsOKD p norm body := fun s' c' hs' hne' => xElemsD_c p norm body false s' c' hs' hwb hne'
      cases hfind : findC norm c.frames code with
      | some old =>
        simp only [xElemD_frame, hcond, if_false, hfind, cElemD] at hne ⊢
        have hrs : (report s CIF_DUP_FRAMECODE).skip = 0 := h0
        obtain ⟨x, y, z, w⟩ := xContD_c p norm false old.code body (report s CIF_DUP_FRAMECODE) ⟨old.frames, old.loops⟩ hrs hne ih
        simp only [evS, evE, Bool.false_eq_true, if_false] at x y z w
        have hrn : (report s CIF_DUP_FRAMECODE).n = s.n := rfl
        rw [hrn] at x y z w
        exact ⟨x, y, by rw [z], w⟩
      | none =>
        simp only [xElemD_frame, hcond, if_false, hfind, cElemD] at hne ⊢
        obtain ⟨x, y, z, w⟩ := xContD_c p norm false code body s .empty h0 hne ih
        simp only [evS, evE, Bool.false_eq_true, if_false] at x y z w
        exact ⟨x, y, by rw [z], w⟩
  theorem xElemsD_c (p : Prog) (norm : Str → Str) : ∀ (es : List Elem) (a : Bool) (s : St) (c : Content), s.skip = 0 →
      wfElems a es = true → (xElemsD p norm true es s c).1 ≠ MALFORMED →
      (xElemsD p norm true es s c).2.1.n = (cElemsD p norm es s.n c).n
      ∧ (xElemsD p norm true es s c).1 = codeOf (cElemsD p norm es s.n c).stop
      ∧ (xElemsD p norm true es s c).2.2 = (cElemsD p norm es s.n c).c
      ∧ ((cElemsD p norm es s.n c).stop = none →
          (xElemsD p norm true es s c).2.1.skip = 0 ∨ (xElemsD p norm true es s c).2.1.skip = 1)
    | [], a, s, c, h0, _, _ => by simp [xElemsD, cElemsD, codeOf, h0]
    | e :: es, a, s, c, h0, hw, hne => by
      simp only [wfElems, Bool.and_eq_true] at hw
      have hne1 : (xElemD p norm true e s c).1 ≠ MALFORMED := by
        intro hm
        simp only [xElemsD, hm, malformed_ne_ok, if_false] at hne
        exact hne rfl
      obtain ⟨x, y, z, w⟩ := xElemD_c p norm e a s c h0 hw.1 hne1
      simp only [xElemsD, cElemsD] at hne ⊢
      cases hstop : (cElemD p norm e s.n c).stop with
      | some r =>
        rw [hstop] at y
        have hnok : ¬ ((xElemD p norm true e s c).1 = OK) := by
          rw [y]; intro h
          exact (cElemD_good p norm e s.n c) (by rw [hstop]; simp only [codeOf] at h; rw [h])
        simp only [hnok, if_false, Option.isSome_some, if_true]
        exact ⟨x, y, z, fun h => nomatch h⟩
      | none =>
        rw [hstop] at y
        have hok : (xElemD p norm true e s c).1 = OK := y
        have w' := w hstop
        simp only [hok, if_true, Option.isSome_none, Bool.false_eq_true, if_false] at hne ⊢
        by_cases hsib : (cElemD p norm e s.n c).sib = true
        · simp only [hsib, if_true] at w' ⊢
          obtain ⟨a1, b1, c1, d1⟩ := xElemsD_skipped p norm true es _ _ (by omega) hne
          exact ⟨by rw [b1, x], a1, by rw [d1, z], fun _ => Or.inr (by rw [c1]; exact w')⟩
        · simp only [hsib, Bool.false_eq_true, if_false] at w' ⊢
          obtain ⟨x2, y2, z2, w2⟩ := xElemsD_c p norm es a (xElemD p norm true e s c).2.1 (xElemD p norm true e s c).2.2 w' hw.2 hne
          rw [← x, ← z]
          exact ⟨x2, y2, z2, w2⟩
end

theorem cBlocksD_good (p : Prog) (norm : Str → Str) : ∀ (bs : List Block) (n : Nat) (acc : List Container),
    (cBlocksD p norm bs n acc).stop ≠ some OK
  | [], n, acc => by simp [cBlocksD]
  | b :: bs, n, acc => by
    simp only [cBlocksD]
    split
    · split
      · exact cContD_good p _ _ n _ _ (cElemsD_good p norm b.body (n + 1) _)
      · split
        · simp
        · exact cBlocksD_good p norm bs _ _
    · split
      · exact cContD_good p _ _ n _ _ (cElemsD_good p norm b.body (n + 1) _)
      · split
        · simp
        · exact cBlocksD_good p norm bs _ _

/-- one data block (new or reopened; `R` = its parse, `r` = its specification) followed by the rest of the block loop -/
theorem blockD_step (p : Prog) (norm : Str → Str) (bs : List Block) (R : Int × St × Content) (r : CutC) (mk : Content → List Container)
    (x : R.2.1.n = r.n) (y : R.1 = codeOf r.stop) (z : R.2.2 = r.c)
    (w : r.stop = none → R.2.1.skip = (if r.sib then 1 else 0)) (hgood : r.stop ≠ some OK)
    (hne : (if R.1 = OK then xBlocksD p norm true bs R.2.1 (mk R.2.2) else (R.1, R.2.1, mk R.2.2)).1 ≠ MALFORMED)
    (ihrest : ∀ (s2 : St) (acc2 : List Container), s2.skip = 0 → (xBlocksD p norm true bs s2 acc2).1 ≠ MALFORMED →
      (xBlocksD p norm true bs s2 acc2).2.1.n = (cBlocksD p norm bs s2.n acc2).n
      ∧ (xBlocksD p norm true bs s2 acc2).1 = codeOf (cBlocksD p norm bs s2.n acc2).stop
      ∧ (xBlocksD p norm true bs s2 acc2).2.2 = (cBlocksD p norm bs s2.n acc2).cif) :
    (if R.1 = OK then xBlocksD p norm true bs R.2.1 (mk R.2.2) else (R.1, R.2.1, mk R.2.2)).2.1.n
        = (if r.stop.isSome then (⟨r.n, mk r.c, r.stop⟩ : CutB) else if r.sib then ⟨r.n, mk r.c, none⟩
            else cBlocksD p norm bs r.n (mk r.c)).n
    ∧ (if R.1 = OK then xBlocksD p norm true bs R.2.1 (mk R.2.2) else (R.1, R.2.1, mk R.2.2)).1
        = codeOf (if r.stop.isSome then (⟨r.n, mk r.c, r.stop⟩ : CutB) else if r.sib then ⟨r.n, mk r.c, none⟩
            else cBlocksD p norm bs r.n (mk r.c)).stop
    ∧ (if R.1 = OK then xBlocksD p norm true bs R.2.1 (mk R.2.2) else (R.1, R.2.1, mk R.2.2)).2.2
        = (if r.stop.isSome then (⟨r.n, mk r.c, r.stop⟩ : CutB) else if r.sib then ⟨r.n, mk r.c, none⟩
            else cBlocksD p norm bs r.n (mk r.c)).cif := by
  cases hstop : r.stop with
  | some r0 =>
    have hnok : ¬ (R.1 = OK) := by
      rw [y, hstop]; simp only [codeOf]
      intro h
      exact hgood (by rw [hstop, h])
    simp only [hnok, if_false, Option.isSome_some, if_true]
    exact ⟨x, by rw [y, hstop], by rw [z]⟩
  | none =>
    have hok : R.1 = OK := by rw [y, hstop]; rfl
    have w' := w hstop
    simp only [hok, if_true] at hne
    simp only [hok, if_true, Option.isSome_none, Bool.false_eq_true, if_false]
    by_cases hsib : r.sib = true
    · simp only [hsib, if_true] at w' ⊢
      obtain ⟨a1, b1, _, d1⟩ := xBlocksD_skipped p norm true bs R.2.1 (mk R.2.2) (by omega) hne
      exact ⟨by rw [b1, x], by rw [a1]; rfl, by rw [d1, z]⟩
    · simp only [hsib, Bool.false_eq_true, if_false] at w' ⊢
      obtain ⟨x2, y2, z2⟩ := ihrest R.2.1 (mk R.2.2) w' hne
      rw [← x, ← z]
      exact ⟨x2, y2, z2⟩

theorem xBlocksD_c (p : Prog) (norm : Str → Str) : ∀ (d : Doc) (s : St) (acc : List Container), s.skip = 0 → wfDoc d = true →
    (xBlocksD p norm true d s acc).1 ≠ MALFORMED →
    (xBlocksD p norm true d s acc).2.1.n = (cBlocksD p norm d s.n acc).n
    ∧ (xBlocksD p norm true d s acc).1 = codeOf (cBlocksD p norm d s.n acc).stop
    ∧ (xBlocksD p norm true d s acc).2.2 = (cBlocksD p norm d s.n acc).cif
  | [], s, acc, _, _, _ => by simp [xBlocksD, cBlocksD, codeOf]
  | b :: bs, s, acc, h0, hw, hne => by
    simp only [wfDoc, List.all_cons, Bool.and_eq_true] at hw
    have hbs : wfDoc bs = true := by simpa [wfDoc] using hw.2
    have hbc : (true && decide (s.skip ≤ 0)) = true := by simp [h0]
    have ihb : ElemsOKD p norm b.body := fun s' c' hs' hne' => xElemsD_c p norm b.body true s' c' hs' hw.1 hne'
    have ihrest := fun (s2 : St) (acc2 : List Container) (h2 : s2.skip = 0) (hn2 : (xBlocksD p norm true bs s2 acc2).1 ≠ MALFORMED) =>
      xBlocksD_c p norm bs s2 acc2 h2 hbs hn2
    have hS : ∀ code, evS true code = Ev.blockStart (some code) := fun _ => rfl
    have hE : ∀ code, evE true code = Ev.blockEnd (some code) := fun _ => rfl
    cases hfind : findC norm acc b.code with
    | some old =>
      simp only [xBlocksD, hbc, if_true, hfind, cBlocksD] at hne ⊢
      have hrs : (report s CIF_DUP_BLOCKCODE).skip = 0 := h0
      have hneR : (xContD p norm true true old.code b.body (report s CIF_DUP_BLOCKCODE) ⟨old.frames, old.loops⟩).1 ≠ MALFORMED := by
        intro hm
        apply hne
        rw [hm]; simp only [malformed_ne_ok, if_false]
      obtain ⟨x, y, z, w⟩ := xContD_c p norm true old.code b.body (report s CIF_DUP_BLOCKCODE) ⟨old.frames, old.loops⟩ hrs hneR ihb
      rw [hS, hE] at x y z w
      have hrn : (report s CIF_DUP_BLOCKCODE).n = s.n := rfl
      rw [hrn] at x y z w
      exact blockD_step p norm bs _ _ (fun c' => replaceC norm acc b.code (.mk old.code c'.frames c'.loops)) x y z w
        (cContD_good p _ _ s.n _ _ (cElemsD_good p norm b.body (s.n + 1) _)) hne ihrest
    | none =>
      simp only [xBlocksD, hbc, if_true, hfind, cBlocksD] at hne ⊢
      have hneR : (xContD p norm true true b.code b.body s .empty).1 ≠ MALFORMED := by
        intro hm
        apply hne
        rw [hm]; simp only [malformed_ne_ok, if_false]
      obtain ⟨x, y, z, w⟩ := xContD_c p norm true b.code b.body s .empty h0 hneR ihb
      rw [hS, hE] at x y z w
      exact blockD_step p norm bs _ _ (fun c' => acc ++ [.mk b.code c'.frames c'.loops]) x y z w
        (cContD_good p _ _ s.n _ _ (cElemsD_good p norm b.body (s.n + 1) _)) hne ihrest

theorem malformed_pos : (if MALFORMED > OK then MALFORMED else OK) = MALFORMED := by decide

/-- **the structural interpreter with the duplicate checks returns and stores what `cDocD` says, for every program** -/
theorem xDocD_c (p : Prog) (norm : Str → Str) (d : Doc) (hw : wfDoc d = true)
    (hne : (xDocD p norm true d (St.init [])).1 ≠ MALFORMED) :
    (xDocD p norm true d (St.init [])).1 = cResultD p (cDocD p norm d)
    ∧ (xDocD p norm true d (St.init [])).2.2 = (cDocD p norm d).cif := by
  have h0 : (St.init []).skip = 0 := rfl
  have hn0 : (St.init []).n = 0 := rfl
  unfold xDocD at hne ⊢
  unfold cDocD
  rw [hn0] at hne ⊢
  by_cases hend : p 0 (.cifStart true) = END
  · simp only [hend, if_true, end_ne.1, end_ne.2.1, end_ne.2.2.1, if_false, cResultD, end_ne.2.2.2]
    exact ⟨trivial, trivial⟩
  · simp only [hend, if_false] at hne ⊢
    rcases ans4 (p 0 (.cifStart true)) with h | h | h | ⟨h1, h2, h3⟩
    · rw [site_cont p _ _ _ _ (by rw [hn0]; exact h)] at hne ⊢
      simp only [h, if_true] at hne ⊢
      have hneB : (xBlocksD p norm true d (push (St.init []) (.cifStart true)) []).1 ≠ MALFORMED := by
        intro hm
        apply hne
        unfold cifEndStep
        simp only [hm, malformed_ne_ok, if_false, malformed_pos]
      obtain ⟨x, y, z⟩ := xBlocksD_c p norm d (push (St.init []) (.cifStart true)) [] (by simp [h0]) hw hneB
      simp only [push_n, hn0, Nat.zero_add] at x y z
      refine ⟨?_, z⟩
      unfold cifEndStep cResultD
      cases hstop : (cBlocksD p norm d 1 []).stop with
      | some r =>
        rw [hstop] at y
        have hner : ¬ (r = OK) := by
          intro h'
          exact cBlocksD_good p norm d 1 [] (by rw [hstop, h'])
        simp only [y, codeOf, hner, if_false]
      | none =>
        rw [hstop] at y
        have hok : (xBlocksD p norm true d (push (St.init []) (.cifStart true)) []).1 = OK := y
        simp only [hok, if_true, dec_n, x]
    · rw [site_cur p _ _ _ _ (by rw [hn0]; exact h)] at hne ⊢
      simp only [h, cur_ne_cont, if_false, if_true] at hne ⊢
      have hneB : (xBlocksD p norm true d (setSkip (push (St.init []) (.cifStart true)) (some 1)) []).1 ≠ MALFORMED := by
        intro hm
        apply hne
        unfold cifEndStep
        simp only [hm, malformed_ne_ok, if_false, malformed_pos]
      obtain ⟨a, b, _, dd⟩ := xBlocksD_skipped p norm true d _ [] (by simp) hneB
      refine ⟨?_, dd⟩
      unfold cifEndStep cResultD
      simp only [a, if_true, dec_n, b]
      rfl
    · rw [site_sib p _ _ _ _ (by rw [hn0]; exact h)] at hne ⊢
      simp only [h, sib_ne_cont, sib_ne_cur, if_false, if_true] at hne ⊢
      have hneB : (xBlocksD p norm true d (setSkip (push (St.init []) (.cifStart true)) (some 1)) []).1 ≠ MALFORMED := by
        intro hm
        apply hne
        unfold cifEndStep
        simp only [hm, malformed_ne_ok, if_false, malformed_pos]
      obtain ⟨a, b, _, dd⟩ := xBlocksD_skipped p norm true d _ [] (by simp) hneB
      refine ⟨?_, dd⟩
      unfold cifEndStep cResultD
      simp only [a, if_true, dec_n, b]
      rfl
    · rw [site_stop' p _ _ _ _ (by rw [hn0]; exact h1) (by rw [hn0]; exact h2) (by rw [hn0]; exact h3)]
      have hner : ¬ (p 0 (Ev.cifStart true) = OK) := h1
      simp only [hn0, h1, h2, h3, hner, if_false, cifEndStep, cResultD]
      exact ⟨trivial, trivial⟩

end CifModel.Lemmas.ParseCB
