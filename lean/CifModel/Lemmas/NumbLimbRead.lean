import CifModel.Lemmas.NumbLimbPass
import CifModel.Lemmas.NumbDigits
/-
  Limb level of C10, part 4: reading the decimal digits into the base-10⁹ work array ("convert to base-BBASE bignum").
-/
namespace CifModel.Lemmas.NumbLimbRead
open CifModel.Model.Numb CifModel.Model.NumbLimbs CifModel.Lemmas.NumbLimbPass CifModel.Lemmas.NumbDigits

/-- invariant of the reading loop after the digits `p`: `limbs` complete limbs, `cur` holds `9 - left` digits -/
structure RInv (first : Nat) (st : List Nat × Nat × Nat) (p : List Nat) : Prop where
  l1 : 1 ≤ st.2.2
  l9 : st.2.2 ≤ 9
  cnt : 9 * st.1.length + (9 - st.2.2) = (9 - first) + p.length
  val : natOfLimbs st.1 * 10 ^ (9 - st.2.2) + st.2.1 = natOfDigits p
  cur : st.2.1 < 10 ^ (9 - st.2.2)
  small : Small st.1

theorem natOfDigits_snoc (p : List Nat) (d : Nat) : natOfDigits (p ++ [d]) = natOfDigits p * 10 + d := by
  unfold natOfDigits; rw [List.foldl_append]; rfl

theorem Bb_eq : Bb = 10 ^ 9 := by decide

theorem readStep_inv (first : Nat) (st : List Nat × Nat × Nat) (p : List Nat) (d : Nat) (hd : d ≤ 9)
    (h : RInv first st p) : RInv first (readStep st d) (p ++ [d]) := by
  obtain ⟨limbs, c, left⟩ := st
  obtain ⟨l1, l9, cnt, val, cur, small⟩ := h
  dsimp only at l1 l9 cnt val cur small
  unfold readStep
  dsimp only
  by_cases hl : left = 1
  · rw [if_pos hl]
    subst hl
    have h8 : (10 : Nat) ^ (9 - 1) = 100000000 := by decide
    rw [h8] at val cur
    refine ⟨?_, ?_, ?_, ?_, ?_, ?_⟩ <;> dsimp only [DDIG_PER_DIG]
    · decide
    · decide
    · simp only [List.length_append, List.length_cons, List.length_nil]
      omega
    · rw [nat_snoc, natOfDigits_snoc, ← val]
      have : Bb = 1000000000 := rfl
      rw [this]
      have e0 : (10 : Nat) ^ (9 - 9) = 1 := by decide
      rw [e0]
      generalize natOfLimbs limbs = N
      omega
    · decide
    · intro x hx
      simp only [List.mem_append, List.mem_singleton] at hx
      rcases hx with hx | hx
      · exact small x hx
      · rw [hx]; show c * 10 + d < 1000000000; omega
  · rw [if_neg hl]
    have hpow : 10 ^ (9 - (left - 1)) = 10 ^ (9 - left) * 10 := by
      have : 9 - (left - 1) = (9 - left) + 1 := by omega
      rw [this, Nat.pow_succ]
    refine ⟨?_, ?_, ?_, ?_, ?_, small⟩ <;> dsimp only
    · omega
    · omega
    · simp only [List.length_append, List.length_cons, List.length_nil]; omega
    · rw [natOfDigits_snoc, ← val, hpow]
      generalize natOfLimbs limbs = N
      generalize 10 ^ (9 - left) = W
      grind
    · rw [hpow]
      generalize 10 ^ (9 - left) = W at *
      omega

theorem foldl_readStep_inv (first : Nat) : ∀ (rest : List Nat) (st : List Nat × Nat × Nat) (p : List Nat),
    (∀ d ∈ rest, d ≤ 9) → RInv first st p → RInv first (rest.foldl readStep st) (p ++ rest) := by
  intro rest
  induction rest with
  | nil => intro st p _ h; simpa using h
  | cons d r ih =>
    intro st p hd h
    simp only [List.foldl_cons]
    have := ih (readStep st d) (p ++ [d]) (fun x hx => hd x (by simp [hx])) (readStep_inv first st p d (hd d (by simp)) h)
    simpa using this

/-- what `readLimbs` delivers: the limbs denote the digits followed by `pad` zeroes, `9·(number of limbs)` decimal
    places in all with `9 - first` unused places in the first limb -/
theorem readLimbs_spec (sig : List Nat) (first : Nat) (hf1 : 1 ≤ first) (hf9 : first ≤ 9) (hd : ∀ d ∈ sig, d ≤ 9) :
    ∃ pad, natOfLimbs (readLimbs sig first).1 = natOfDigits sig * 10 ^ pad ∧
      9 * (readLimbs sig first).1.length = (9 - first) + sig.length + pad ∧ pad ≤ 8 ∧
      Small (readLimbs sig first).1 ∧ ((readLimbs sig first).2 = true → pad = 0) := by
  have h0 : RInv first ([], 0, first) [] := by
    refine ⟨hf1, hf9, by simp, by simp [natOfLimbs, natOfDigits], Nat.pow_pos (by decide), ?_⟩
    intro x hx; simp at hx
  have h := foldl_readStep_inv first sig ([], 0, first) [] hd h0
  simp only [List.nil_append] at h
  unfold readLimbs
  simp only
  generalize sig.foldl readStep ([], 0, first) = st at *
  obtain ⟨limbs, c, left⟩ := st
  obtain ⟨l1, l9, cnt, val, cur, small⟩ := h
  dsimp only at l1 l9 cnt val cur small ⊢
  unfold DDIG_PER_DIG pow10
  by_cases hl : left < 9
  · rw [if_pos hl]
    refine ⟨left, ?_, ?_, by omega, ?_, fun hh => by simp at hh⟩
    · simp only
      rw [nat_snoc, ← val, Bb_eq]
      have : (10 : Nat) ^ 9 = 10 ^ (9 - left) * 10 ^ left := by rw [← Nat.pow_add]; congr 1; omega
      rw [this]
      generalize natOfLimbs limbs = N
      generalize 10 ^ (9 - left) = W
      generalize 10 ^ left = V
      grind
    · simp only [List.length_append, List.length_cons, List.length_nil]; omega
    · intro x hx
      simp only [List.mem_append, List.mem_singleton] at hx
      rcases hx with hx | hx
      · exact small x hx
      · rw [hx, Bb_eq]
        have : (10 : Nat) ^ 9 = 10 ^ (9 - left) * 10 ^ left := by rw [← Nat.pow_add]; congr 1; omega
        rw [this]
        exact Nat.mul_lt_mul_of_pos_right cur (Nat.pow_pos (by decide))
  · rw [if_neg hl]
    have h9 : left = 9 := by omega
    rw [h9] at cnt val cur
    simp only [Nat.sub_self, Nat.pow_zero, Nat.mul_one] at cnt val cur
    refine ⟨0, ?_, by simp only; omega, by omega, small, fun _ => rfl⟩
    simp only; omega

end CifModel.Lemmas.NumbLimbRead
