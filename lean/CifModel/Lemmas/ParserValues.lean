import CifModel.Model.ParserTrace
import CifModel.Lemmas.ParserBasic
/-
  Lemmas/ParserValues — what parse_value / parse_list / parse_table RETURN: a value without number objects (`numbFree`): character
  values (cif_value_set_quoted / try_quoted never turn a string into a number — numbers are recognised lazily, by
  cif_value_get_number), the unknown and the not-applicable value, lists and tables of such values.  Under every callback policy.

  `Ret Q m`: whenever `m` ends normally, its result satisfies `Q`.
-/
set_option linter.unusedSimpArgs false
set_option linter.unusedVariables false

namespace CifModel.Model.Parser
open CifModel CifModel.Model CifModel.Model.Lexer CifModel.Gen.ErrCodes

structure Ret {α} (Q : α → Prop) (m : P α) : Prop where
  run : ∀ pol w a w', m pol w = .ok a w' → Q a

theorem Ret.pure {α} {Q : α → Prop} (a : α) (h : Q a) : Ret Q (P.pure a) :=
  ⟨fun _ _ _ _ he => by simp only [P.pure] at he; cases he; exact h⟩

theorem Ret.fail {α} {Q : α → Prop} (code : Int) : Ret Q (Parser.fail code : P α) :=
  ⟨fun _ _ _ _ he => by simp [Parser.fail] at he⟩

theorem Ret.triv {α} (m : P α) : Ret (fun _ => True) m := ⟨fun _ _ _ _ _ => trivial⟩

theorem Ret.bind {α β} {R : α → Prop} {Q : β → Prop} {m : P α} {f : α → P β} (hm : Ret R m) (hf : ∀ a, R a → Ret Q (f a)) :
    Ret Q (P.bind m f) := by
  constructor
  intro pol w b w' he
  simp only [P.bind] at he
  cases hA : m pol w with
  | ok a w1 => rw [hA] at he; exact (hf a (hm.run pol w a w1 hA)).run pol w1 b w' he
  | abort r w1 => rw [hA] at he; cases he

theorem Ret.bind' {α β} {Q : β → Prop} {m : P α} {f : α → P β} (hf : ∀ a, Ret Q (f a)) : Ret Q (P.bind m f) :=
  Ret.bind (Ret.triv m) (fun a _ => hf a)

theorem Ret.ite {α} {Q : α → Prop} {c : Prop} [Decidable c] {a b : P α} (ha : Ret Q a) (hb : Ret Q b) : Ret Q (if c then a else b) := by
  split <;> assumption

theorem numbFreeList_append : ∀ (a : List V) (v : V), numbFreeList a = true → numbFree v = true → numbFreeList (a ++ [v]) = true
  | [], v, _, hv => by simp [numbFreeList, hv]
  | x :: r, v, ha, hv => by
    simp only [numbFreeList, Bool.and_eq_true] at ha
    simp only [List.cons_append, numbFreeList, Bool.and_eq_true]
    exact ⟨ha.1, numbFreeList_append r v ha.2 hv⟩

theorem numbFreeEntries_append : ∀ (a : List (Str × Str × V)) (k ko : Str) (v : V), numbFreeEntries a = true → numbFree v = true →
    numbFreeEntries (a ++ [(k, ko, v)]) = true
  | [], _, _, v, _, hv => by simp [numbFreeEntries, hv]
  | (_, _, x) :: r, k, ko, v, ha, hv => by
    simp only [numbFreeEntries, Bool.and_eq_true] at ha
    simp only [List.cons_append, numbFreeEntries, Bool.and_eq_true]
    exact ⟨ha.1, numbFreeEntries_append r k ko v ha.2 hv⟩

theorem numbFreeEntries_map (k : Str) (e' : Str × Str × V) (he : numbFree e'.2.2 = true) : ∀ (a : List (Str × Str × V)),
    numbFreeEntries a = true → numbFreeEntries (a.map fun e => if e.1 == k then e' else e) = true
  | [], _ => rfl
  | (k1, ko1, x) :: r, ha => by
    simp only [numbFreeEntries, Bool.and_eq_true] at ha
    simp only [List.map_cons]
    obtain ⟨k', ko', v'⟩ := e'
    split
    · simp only [numbFreeEntries, Bool.and_eq_true]; exact ⟨he, numbFreeEntries_map k _ he r ha.2⟩
    · simp only [numbFreeEntries, Bool.and_eq_true]; exact ⟨ha.1, numbFreeEntries_map k _ he r ha.2⟩

theorem numbFree_tableSet (normKey : Str → Str) (es : List (Str × Str × V)) (key : Str) (v : V) (hes : numbFreeEntries es = true)
    (hv : numbFree v = true) : numbFreeEntries (tableSet normKey es key v) = true := by
  unfold tableSet
  simp only []
  split
  · exact numbFreeEntries_map _ _ hv es hes
  · exact numbFreeEntries_append es _ _ v hes hv

theorem setQuoted_chr_numbFree (len q qq : Bool) (t : Str) (v : V) (h : setQuoted len (.chr qq t) q = .ok v) : numbFree v = true := by
  simp only [setQuoted] at h
  repeat' split at h
  all_goals first | (cases h; rfl) | (cases h)

theorem bareValue_numbFree (dia : Dialect) (text : Str) (v : V) (h : bareValue dia text = some v) : numbFree v = true := by
  unfold bareValue at h
  split at h
  · cases h; rfl
  · split at h
    · cases h; rfl
    · cases hq : setQuoted (dia == .cif1) (.chr true (cstr text)) false with
      | ok v' =>
        rw [hq] at h
        cases h
        exact setQuoted_chr_numbFree _ _ _ _ _ hq
      | error c => rw [hq] at h; cases h

section Values
attribute [local irreducible] nextTok P.bind P.pure Parser.report Parser.fail

theorem values_numbFree (o : Opts) : ∀ fuel : Nat,
    (∀ s, Ret (fun r => numbFree r.1 = true) (parseValue o fuel s)) ∧
    (∀ s acc, numbFreeList acc = true → Ret (fun r => numbFreeList r.1 = true) (listLoop o fuel s acc)) ∧
    (∀ s acc, numbFreeEntries acc = true → Ret (fun r => numbFreeEntries r.1 = true) (tableLoop o fuel s acc)) ∧
    (∀ s acc key, numbFreeEntries acc = true → Ret (fun r => numbFreeEntries r.1 = true) (tableEntry o fuel s acc key)) := by
  intro fuel
  induction fuel with
  | zero =>
    refine ⟨?_, ?_, ?_, ?_⟩ <;> intros
    · rw [parseValue]; exact Ret.fail _
    · rw [listLoop]; exact Ret.fail _
    · rw [tableLoop]; exact Ret.fail _
    · rename_i key _; cases key <;> rw [tableEntry] <;> exact Ret.fail _
  | succ fuel ih =>
    obtain ⟨hv, hl, ht, he⟩ := ih
    refine ⟨?_, ?_, ?_, ?_⟩
    · intro s
      rw [parseValue]
      simp only [bind_eq, pure_eq]
      apply Ret.bind'
      rintro ⟨t, s1⟩
      simp only []
      split
      · apply Ret.bind (hl _ [] rfl)
        rintro ⟨vs, s2⟩ h
        exact Ret.pure _ (by simpa [numbFree] using h)
      · apply Ret.bind (ht _ [] rfl)
        rintro ⟨es, s2⟩ h
        exact Ret.pure _ (by simpa [numbFree] using h)
      · exact Ret.pure _ rfl
      · exact Ret.pure _ rfl
      · split
        · rename_i v hb
          exact Ret.pure _ (bareValue_numbFree _ _ _ hb)
        · apply Ret.bind'
          intro _
          exact Ret.pure _ rfl
      · exact Ret.fail _
    · intro s acc hacc
      rw [listLoop]
      simp only [bind_eq, pure_eq]
      apply Ret.bind'
      rintro ⟨t, s1⟩
      simp only []
      apply Ret.ite
      · apply Ret.bind'
        intro _
        apply Ret.bind (hv _)
        rintro ⟨v, s2⟩ h
        exact hl _ _ (numbFreeList_append acc v hacc h)
      · apply Ret.ite
        · apply Ret.bind (hv _)
          rintro ⟨v, s2⟩ h
          exact hl _ _ (numbFreeList_append acc v hacc h)
        · apply Ret.ite
          · exact Ret.pure _ hacc
          · apply Ret.bind'
            intro _
            exact Ret.pure _ hacc
    · intro s acc hacc
      rw [tableLoop]
      simp only [bind_eq, pure_eq]
      apply Ret.bind'
      rintro ⟨t, s1⟩
      simp only []
      split
      · -- a whitespace-delimited value where a key is expected
        apply Ret.ite
        · apply Ret.bind'
          intro _
          exact he _ _ _ hacc
        · split
          · apply Ret.bind'
            intro _
            exact he _ _ _ hacc
          · apply Ret.bind'
            intro _
            exact ht _ _ hacc
      · exact he _ _ _ hacc
      · apply Ret.bind'
        intro _
        exact he _ _ _ hacc
      all_goals first
        | (apply Ret.bind'
           intro _
           apply Ret.bind'
           intro _
           exact ht _ _ hacc)
        | exact Ret.pure _ hacc
        | (apply Ret.bind'
           intro _
           exact Ret.pure _ hacc)
    · intro s acc key hacc
      have htail : ∀ key' : Option Str, Ret (fun r => numbFreeEntries r.fst = true)
          ((nextTok o s).bind fun x =>
            if isValueStart x.fst.ty = true then
              (parseValue o fuel x.snd).bind fun y =>
                tableLoop o fuel y.snd (match key' with
                  | some k => tableSet o.normKey acc k y.fst
                  | none => acc)
            else
              (report CIF_MISSING_VALUE x.snd.scan.line (x.snd.scan.col - List.length x.fst.text)).bind fun _ =>
                tableLoop o fuel x.snd (match key' with
                  | some k => tableSet o.normKey acc k V.unk
                  | none => acc)) := by
        intro key'
        apply Ret.bind'
        rintro ⟨t, s1⟩
        simp only []
        apply Ret.ite
        · apply Ret.bind (hv _)
          rintro ⟨v, s2⟩ h
          apply ht
          cases key' with
          | none => exact hacc
          | some k' => exact numbFree_tableSet _ _ _ _ hacc h
        · apply Ret.bind'
          intro _
          apply ht
          cases key' with
          | none => exact hacc
          | some k' => exact numbFree_tableSet _ _ _ _ hacc rfl
      cases key with
      | none =>
        rw [tableEntry]
        simp only [bind_eq, pure_eq]
        apply Ret.bind'
        intro key'
        exact htail key'
      | some k =>
        rw [tableEntry]
        simp only [bind_eq, pure_eq]
        apply Ret.ite
        · apply Ret.bind'
          intro _
          apply Ret.bind'
          intro key'
          exact htail key'
        · apply Ret.bind'
          intro key'
          exact htail key'

end Values

theorem parseValue_numbFree (o : Opts) (fuel : Nat) (s : PS) : Ret (fun r => numbFree r.1 = true) (parseValue o fuel s) :=
  (values_numbFree o fuel).1 s

end CifModel.Model.Parser
