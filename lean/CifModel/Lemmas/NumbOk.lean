import CifModel.Lemmas.NumbMisc
import CifModel.Model.Columns
/-
  Lemmas/NumbOk (group gG, property C07) — whatever `cif_value_parse_numb` accepts yields fields that the CHECK constraints
  of item_value accept (`numbOk`: non-empty text, non-empty digit strings of digit values, sign flag = leading '-').
  This is the bridge between "numbers the API can construct" (C07_constructible: their fields are what parse_numb makes of
  their text) and "values the store can hold" (wfValue).
-/
namespace CifModel.Lemmas.NumbOk
open CifModel CifModel.Model.Numb CifModel.Model.Columns CifModel.Lemmas.NumbMisc

theorem isDigit_ne_point (c : Nat) (h : isDigit c = true) : c ≠ UCHAR_DECIMAL := by
  unfold isDigit UCHAR_0 UCHAR_9 at h
  unfold UCHAR_DECIMAL
  simp at h
  omega

theorem mem_trimLead : ∀ (l : Str) (c : Nat), c ∈ trimLead l → c ∈ l
  | [], c, h => by simp [trimLead] at h
  | x :: r, c, h => by
    unfold trimLead at h
    split at h
    · exact List.mem_cons_of_mem _ (mem_trimLead r c h)
    · exact h

theorem getLast_mem_trimLead : ∀ (l : Str) (h : l ≠ []), l.getLast h ∈ trimLead l
  | [x], _ => by simp [trimLead]
  | x :: y :: r, _ => by
    unfold trimLead
    split
    · have := getLast_mem_trimLead (y :: r) (by simp)
      simpa [List.getLast_cons] using this
    · exact List.getLast_mem _

theorem mem_trimZeros : ∀ (l : Str) (c : Nat), c ∈ trimZeros l → c ∈ l
  | [], c, h => by simp [trimZeros] at h
  | x :: r, c, h => by
    unfold trimZeros at h
    split at h
    · exact List.mem_cons_of_mem _ (mem_trimZeros r c h)
    · exact h

theorem trimZeros_ne_nil : ∀ (l : Str), l ≠ [] → trimZeros l ≠ []
  | [x], _ => by simp [trimZeros]
  | x :: y :: r, _ => by
    unfold trimZeros
    split
    · exact trimZeros_ne_nil (y :: r) (by simp)
    · simp

theorem mem_mantA (s0 : Str) (c : Nat) (h : c ∈ mantA s0) : isDigit c = true := mem_takeWhile_prop isDigit s0 c h

theorem mem_mantB (s0 : Str) (c : Nat) (h : c ∈ mantB s0) : isDigit c = true := by
  unfold mantB at h
  split at h
  · exact mem_takeWhile_prop isDigit _ c h
  · cases h

theorem mem_mantRegion (s0 : Str) (c : Nat) (h : c ∈ mantRegion s0) : isDigit c = true ∨ c = UCHAR_DECIMAL := by
  unfold mantRegion at h
  split at h
  · rcases List.mem_append.mp h with h | h
    · exact Or.inl (mem_mantA s0 c h)
    · rcases List.mem_cons.mp h with h | h
      · exact Or.inr h
      · exact Or.inl (mem_mantB s0 c h)
  · exact Or.inl (mem_mantA s0 c h)

/-- the region copied into the digit string ends in a digit -/
theorem mantRegion_last (s0 : Str) (hne : (mantA s0).length + (mantB s0).length ≠ 0) :
    ∃ h : mantRegion s0 ≠ [], isDigit ((mantRegion s0).getLast h) = true := by
  unfold mantRegion
  by_cases hd : numDecimal s0 = true
  · simp only [hd, if_true]
    have hB : mantB s0 ≠ [] := by
      unfold numDecimal at hd
      simp only [Bool.and_eq_true, Bool.not_eq_true', List.isEmpty_eq_false_iff] at hd
      exact hd.2
    refine ⟨by simp, ?_⟩
    have : (mantA s0 ++ UCHAR_DECIMAL :: mantB s0).getLast (by simp) = (mantB s0).getLast hB := by
      rw [List.getLast_append_of_ne_nil (by simp)]
      exact List.getLast_cons hB
    rw [this]
    exact mem_mantB s0 _ (List.getLast_mem hB)
  · simp only [hd, Bool.false_eq_true, if_false]
    have hB : mantB s0 = [] := by
      unfold numDecimal at hd
      by_cases hp : hasPoint s0 = true
      · simp only [hp, Bool.true_and, Bool.not_eq_true'] at hd
        cases hm : mantB s0 with
        | nil => rfl
        | cons x r => rw [hm] at hd; simp at hd
      · unfold mantB; simp [hp]
    have hA : mantA s0 ≠ [] := by
      intro h; rw [h, hB] at hne; simp at hne
    exact ⟨hA, mem_mantA s0 _ (List.getLast_mem hA)⟩

theorem digitVals_lt (l : Str) (h : ∀ c ∈ l, isDigit c = true) : allDigits (digitVals l) = true := by
  unfold allDigits digitVals
  rw [List.all_eq_true]
  intro x hx
  obtain ⟨c, hc, rfl⟩ := List.mem_map.mp hx
  have := isDigit_sub c (h c hc)
  simp only [decide_eq_true_eq]
  omega

theorem mantDigits_ok (s0 : Str) (hne : (mantA s0).length + (mantB s0).length ≠ 0) :
    mantDigits s0 ≠ [] ∧ allDigits (mantDigits s0) = true := by
  unfold mantDigits
  constructor
  · obtain ⟨hR, hlast⟩ := mantRegion_last s0 hne
    have hmem := getLast_mem_trimLead (mantRegion s0) hR
    have hf : (mantRegion s0).getLast hR ∈ (trimLead (mantRegion s0)).filter (· ≠ UCHAR_DECIMAL) := by
      simp only [List.mem_filter, decide_eq_true_eq]
      exact ⟨hmem, isDigit_ne_point _ hlast⟩
    intro he
    unfold digitVals at he
    rw [List.map_eq_nil_iff] at he
    rw [he] at hf; cases hf
  · apply digitVals_lt
    intro c hc
    simp only [List.mem_filter, decide_eq_true_eq] at hc
    rcases mem_mantRegion s0 c (mem_trimLead _ c hc.1) with h | h
    · exact h
    · exact absurd h hc.2

theorem parseSu_ok (s : Str) (u : Option Str × Str) (h : parseSu s = some u) :
    match u.1.map digitVals with
    | none => True
    | some d => d ≠ [] ∧ allDigits d = true := by
  unfold parseSu at h
  split at h
  · rename_i c r
    split at h
    · split at h
      · rename_i c1 r2 hdw
        split at h
        · cases h
        · rename_i hcond
          simp only [Option.some.injEq] at h
          subst h
          simp only [Option.map_some]
          have hne : r.takeWhile isDigit ≠ [] := fun e => hcond (Or.inl e)
          constructor
          · intro he
            unfold digitVals at he
            rw [List.map_eq_nil_iff] at he
            exact trimZeros_ne_nil _ hne he
          · apply digitVals_lt
            intro x hx
            exact mem_takeWhile_prop isDigit r x (mem_trimZeros _ x hx)
      · cases h
    · simp only [Option.some.injEq] at h; subst h; simp
  · simp only [Option.some.injEq] at h; subst h; simp

theorem takeSign_neg (u : Str) : (takeSign u).1 = (u.head? == some UCHAR_MINUS) := by
  unfold takeSign
  cases u with
  | nil => simp
  | cons c r =>
    simp only [List.head?_cons]
    by_cases h1 : c = UCHAR_MINUS
    · simp [h1]
    · by_cases h2 : c = UCHAR_PLUS
      · subst h2
        have hpm : ¬ (UCHAR_PLUS = UCHAR_MINUS) := by decide
        simp [hpm]
      · simp [h1, h2]

/-- **what parse_numb accepts, the CHECK constraints accept** (NUL-free text, any saturation bound) -/
theorem parseNumbZL_numbOk (lim : Nat) (u : Str) (f : NumbFields) (h : parseNumbZL lim u = some f) :
    numbOk u f.neg f.digits f.su = true := by
  have hu : u ≠ [] := by
    intro e; subst e
    simp [parseNumbZL, takeSign, mantA, mantB, hasPoint, afterA] at h
  unfold parseNumbZL at h
  split at h
  · cases h
  · rename_i hne
    cases hE : parseExpL lim (afterMant (takeSign u).2) with
    | none => rw [hE] at h; cases h
    | some r =>
      rw [hE] at h
      simp only at h
      cases hS : parseSu r.2 with
      | none => rw [hS] at h; cases h
      | some w =>
        rw [hS] at h
        simp only at h
        split at h
        · cases h
        · simp only [Option.some.injEq] at h
          subst h
          obtain ⟨hd1, hd2⟩ := mantDigits_ok (takeSign u).2 hne
          have hsu := parseSu_ok r.2 w hS
          unfold numbOk
          simp only [Bool.and_eq_true, bne_iff_ne, ne_eq, beq_iff_eq]
          refine ⟨⟨⟨⟨hu, hd1⟩, hd2⟩, ?_⟩, ?_⟩
          · cases hw : w.1.map digitVals with
            | none => rfl
            | some d =>
              rw [hw] at hsu
              simp only [Bool.and_eq_true, bne_iff_ne, ne_eq]
              exact hsu
          · rw [takeSign_neg]; rfl

theorem cstr_head (t : Str) (h : cstr t ≠ []) : (cstr t).head? = t.head? := by
  unfold cstr at h ⊢
  cases t with
  | nil => rfl
  | cons c r =>
    rw [List.takeWhile_cons] at h ⊢
    split
    · rfl
    · rename_i hc; rw [if_neg hc] at h; exact absurd rfl h

/-- `cif_value_parse_numb(text)`: the fields it records, with the text as given (init_numb / autoinit_numb keep the text they
    wrote) or cut at the first NUL (the char → numb coercion keeps `cstr text`), pass `numbOk` -/
theorem parseNumb_numbOk (t : Str) (f : NumbFields) (h : parseNumb t = some f) :
    numbOk (cstr t) f.neg f.digits f.su = true ∧ numbOk t f.neg f.digits f.su = true := by
  have h1 := parseNumbZL_numbOk _ (cstr t) f h
  refine ⟨h1, ?_⟩
  unfold numbOk at h1 ⊢
  simp only [Bool.and_eq_true, bne_iff_ne, ne_eq, beq_iff_eq] at h1 ⊢
  obtain ⟨⟨⟨⟨hc, hd1⟩, hd2⟩, hsu⟩, hneg⟩ := h1
  have ht : t ≠ [] := by intro e; subst e; exact hc rfl
  refine ⟨⟨⟨⟨ht, hd1⟩, hd2⟩, hsu⟩, ?_⟩
  rw [hneg, cstr_head t hc]

end CifModel.Lemmas.NumbOk
