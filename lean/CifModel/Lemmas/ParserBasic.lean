import CifModel.Model.Parser
/-
  Lemmas/ParserBasic — first facts about the reporting monad `P` of Model/Parser.lean: how `bind`, `report`, `fail`, `ask`,
  `clamp`, `liftL` compute.  Core Lean only.
-/
namespace CifModel.Model.Parser
open CifModel CifModel.Model CifModel.Model.Lexer

@[simp] theorem pure_eq {α} (a : α) : (pure a : P α) = P.pure a := rfl
@[simp] theorem bind_eq {α β} (m : P α) (f : α → P β) : (m >>= f) = P.bind m f := rfl

theorem P.bind_ok {α β} {m : P α} {f : α → P β} {pol : Policy} {w w' : W} {a : α} (h : m pol w = .ok a w') :
    P.bind m f pol w = f a pol w' := by
  simp [P.bind, h]

theorem P.bind_abort {α β} {m : P α} {f : α → P β} {pol : Policy} {w w' : W} {rv : Int} (h : m pol w = .abort rv w') :
    P.bind m f pol w = .abort rv w' := by
  simp [P.bind, h]

/-- `report` under a policy that answers 0: the report is logged and the parse goes on -/
theorem report_zero (code : Code) (line col : Nat) (pol : Policy) (w : W) (h : pol w.log.length ⟨code, line, col⟩ = 0) :
    report code line col pol w = .ok () { w with log := ⟨code, line, col⟩ :: w.log } := by
  simp [report, ask, P.bind, P.pure, h]

/-- `report` under a policy that answers `rv ≠ 0`: the report is logged and the production is left with `rv` -/
theorem report_nonzero (code : Code) (line col : Nat) (pol : Policy) (w : W) (h : pol w.log.length ⟨code, line, col⟩ ≠ 0) :
    report code line col pol w = .abort (pol w.log.length ⟨code, line, col⟩) { w with log := ⟨code, line, col⟩ :: w.log } := by
  simp [report, ask, P.bind, P.pure, fail, h]

/-- parse_cif's clamp never lets a navigation code (< 0) or 0 through as a failure -/
theorem clamp_abort_pos (m : P Unit) (pol : Policy) (w w' : W) (rv : Int) (h : clamp m pol w = .abort rv w') : rv > 0 := by
  unfold clamp at h
  split at h
  · cases h
  · split at h
    · cases h; assumption
    · cases h

end CifModel.Model.Parser
