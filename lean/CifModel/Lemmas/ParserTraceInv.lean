import CifModel.Lemmas.ParserTrace
import CifModel.Lemmas.ParserRect
/-
  Lemmas/ParserTraceInv — the target is consistent and rectangular (`OkR`) not only when a parse ends (Lemmas/ParserRect) but AFTER EVERY
  STORE CALL it makes: for every prefix of the recorded trace, the replay of that prefix on a consistent, rectangular initial target is
  consistent and rectangular (`trace_prefix_okR`).  Consequently every recorded call meets the target in a state in which
  `C03_store_ops_documented` applies: a parse is a sequence of calls of the DOCUMENTED API functions.

  Method: the Hoare logic of Lemmas/ParserConsistent once more, for the instrumented productions (`HTT`), with the history invariant
  `Hist` (the target is the replay of the trace; every earlier prefix replays to an `OkR` target); the proofs follow Lemmas/ParserRect
  production by production, `emit` taking the place of `setCif`.
-/
set_option linter.unusedSimpArgs false
set_option linter.unusedVariables false

namespace CifModel.Model.Parser
open CifModel CifModel.Model CifModel.Model.Lexer CifModel.Gen.ErrCodes

/-- what the documentation asks of the state in which a call is made, beyond consistency: the code of a new block / save frame is
    valid unless the creation is the lenient one, and not in use; a packet is given to the LAST loop of its container, which is not the scalar loop and has one name per value (and the
    packet is not empty); a new loop has names, all of them valid data names, none of them in use in the container, no two equal -/
def SOp.docOk (o : Opts) : SOp → Cif → Prop
  | .mkBlock code lenient, c => (lenient = true ∨ isValidName false code = true) ∧ c.any (codeIs o.norm (o.norm code)) = false
  | .mkFrame parent code lenient, c => (lenient = true ∨ isValidName false code = true) ∧
    ((Option.map Container.frames (getIn o.norm parent c)).getD []).any (codeIs o.norm (o.norm code)) = false
  | .addPkt path vals, c => vals ≠ [] ∧ ∀ cc, getIn o.norm path c = some cc →
      ∃ l, cc.loops.getLast? = some l ∧ Parser.isScalarLoop l = false ∧ l.names.length = vals.length
  | .mkLoop path names, c => names ≠ [] ∧ (names.any fun n => !isValidName true n) = false ∧ ∀ cc, getIn o.norm path c = some cc →
      ((names.any fun n => hasItem o.norm cc (o.norm n)) || hasDup (names.map o.norm)) = false
  | _, _ => True

/-- the target is the replay of the trace so far; the replay of every prefix of it is consistent and rectangular; every recorded
    call was made in a state that meets `docOk` (`ops` is kept newest first: `ops.drop k` = the trace without its last `k` calls) -/
def Hist (o : Opts) (pre0 : Cif) (wt : WT) : Prop :=
  wt.w.cif = replay o wt.ops pre0 ∧ (∀ k, OkR o (replay o (wt.ops.drop k) pre0)) ∧
    ∀ (k : Nat) (op : SOp), wt.ops[k]? = some op → op.docOk o (replay o (wt.ops.drop (k + 1)) pre0)

structure HTT (o : Opts) (pre0 : Cif) {α} (pre : Cif → Prop) (mt : PT α) (post : α → Cif → Prop) (ab : Cif → Prop) : Prop where
  run : ∀ pol wt, Hist o pre0 wt → pre wt.w.cif →
    match mt pol wt with
    | .ok a wt' => Hist o pre0 wt' ∧ post a wt'.w.cif
    | .abort _ wt' => Hist o pre0 wt' ∧ ab wt'.w.cif

abbrev PresT (o : Opts) (pre0 : Cif) {α} (I : Cif → Prop) (mt : PT α) : Prop := HTT o pre0 I mt (fun _ => I) I

variable {o : Opts} {pre0 : Cif}

theorem HTT.bind {α β} {pre : Cif → Prop} {mid : α → Cif → Prop} {post : β → Cif → Prop} {ab : Cif → Prop} {mt : PT α}
    {ft : α → PT β} (hm : HTT o pre0 pre mt mid ab) (hf : ∀ a, HTT o pre0 (mid a) (ft a) post ab) :
    HTT o pre0 pre (PT.bind mt ft) post ab := by
  constructor
  intro pol wt hh hp
  have h1 := hm.run pol wt hh hp
  simp only [PT.bind]
  cases hA : mt pol wt with
  | ok a wt1 => rw [hA] at h1; exact (hf a).run pol wt1 h1.1 h1.2
  | abort r wt1 => rw [hA] at h1; exact h1

theorem HTT.conseq {α} {pre pre' : Cif → Prop} {post post' : α → Cif → Prop} {ab ab' : Cif → Prop} {mt : PT α}
    (h : HTT o pre0 pre mt post ab) (hpre : ∀ c, pre' c → pre c) (hpost : ∀ a c, post a c → post' a c) (hab : ∀ c, ab c → ab' c) :
    HTT o pre0 pre' mt post' ab' := by
  constructor
  intro pol wt hh hp
  have h1 := h.run pol wt hh (hpre _ hp)
  cases hA : mt pol wt with
  | ok a wt1 => rw [hA] at h1; exact ⟨h1.1, hpost _ _ h1.2⟩
  | abort r wt1 => rw [hA] at h1; exact ⟨h1.1, hab _ h1.2⟩

theorem HTT.pure {α} {pre : Cif → Prop} {post : α → Cif → Prop} {ab : Cif → Prop} (a : α) (h : ∀ c, pre c → post a c) :
    HTT o pre0 pre (PT.pure a) post ab := ⟨fun _ wt hh hp => ⟨hh, h _ hp⟩⟩

/-- a production of Model/Parser.lean that leaves the target alone, with its own Hoare triple -/
theorem HTT.liftP {α} {pre : Cif → Prop} {post : α → Cif → Prop} {ab : Cif → Prop} (m : P α)
    (hcif : ∀ c0 : Cif, Pres (fun c => c = c0) m) (h : HT pre m post ab) : HTT o pre0 pre (Parser.liftP m) post ab := by
  constructor
  intro pol wt hh hp
  have h1 := (hcif wt.w.cif).run pol wt.w rfl
  have h2 := h.run pol wt.w hp
  simp only [Parser.liftP]
  cases hB : m pol wt.w with
  | ok a w1 =>
    rw [hB] at h1 h2
    simp only [] at h1 h2
    refine ⟨⟨?_, hh.2⟩, h2⟩
    show w1.cif = _
    rw [h1]; exact hh.1
  | abort r w1 =>
    rw [hB] at h1 h2
    simp only [] at h1 h2
    refine ⟨⟨?_, hh.2⟩, h2⟩
    show w1.cif = _
    rw [h1]; exact hh.1

theorem HTT.getCif {pre : Cif → Prop} {ab : Cif → Prop} :
    HTT o pre0 pre (Parser.liftP Parser.getCif) (fun a c => pre c ∧ a = c) ab :=
  ⟨fun _ wt hh hp => ⟨hh, hp, rfl⟩⟩

/-- a recorded store call: it must lead to a consistent, rectangular target -/
theorem HTT.emit {pre : Cif → Prop} {post : Unit → Cif → Prop} {ab : Cif → Prop} (op : SOp)
    (h : ∀ c, pre c → OkR o (op.apply o c) ∧ op.docOk o c ∧ post () (op.apply o c)) : HTT o pre0 pre (Parser.emit o op) post ab := by
  constructor
  intro pol wt hh hp
  simp only [Parser.emit]
  obtain ⟨h1, hd, h2⟩ := h _ hp
  refine ⟨⟨?_, ?_, ?_⟩, h2⟩
  · show op.apply o wt.w.cif = replay o (op :: wt.ops) pre0
    rw [hh.1]; rfl
  · intro k
    cases k with
    | zero =>
      show OkR o (replay o (op :: wt.ops) pre0)
      have : replay o (op :: wt.ops) pre0 = op.apply o wt.w.cif := by rw [hh.1]; rfl
      rw [this]; exact h1
    | succ k => exact hh.2.1 k
  · intro k op' hk
    cases k with
    | zero =>
      simp only [List.getElem?_cons_zero, Option.some.injEq] at hk
      subst hk
      show op.docOk o (replay o wt.ops pre0)
      rw [← hh.1]; exact hd
    | succ k =>
      simp only [List.getElem?_cons_succ] at hk
      exact hh.2.2 k op' hk

theorem HTT.pull {α} {R : Cif → Prop} {p : Prop} {post : α → Cif → Prop} {ab : Cif → Prop} {mt : PT α}
    (h : p → HTT o pre0 R mt post ab) : HTT o pre0 (fun c => R c ∧ p) mt post ab :=
  ⟨fun pol wt hh hw => (h hw.2).run pol wt hh hw.1⟩

theorem HTT.dead {α} {post : α → Cif → Prop} {ab : Cif → Prop} (mt : PT α) : HTT o pre0 (fun _ => False) mt post ab :=
  ⟨fun _ _ _ h => h.elim⟩

theorem HTT.failThen {α β} {pre : Cif → Prop} {post : β → Cif → Prop} {ab : Cif → Prop} (code : Int) (f : α → PT β)
    (h : ∀ c, pre c → ab c) : HTT o pre0 pre (PT.bind (Parser.liftP (Parser.fail code : P α)) f) post ab :=
  HTT.bind (mid := fun _ _ => False) (HTT.liftP _ (fun _ => Pres.fail _ _) (HT.fail code h)) (fun _ => HTT.dead _)

theorem PresT.pure {α} (I : Cif → Prop) (a : α) : PresT o pre0 I (PT.pure a) := HTT.pure a (fun _ h => h)

theorem PresT.liftP {α} (I : Cif → Prop) (m : P α) (hcif : ∀ c0 : Cif, Pres (fun c => c = c0) m) (h : Pres I m) :
    PresT o pre0 I (Parser.liftP m) := HTT.liftP m hcif h

theorem PresT.bind {α β} {I : Cif → Prop} {mt : PT α} {ft : α → PT β} (hm : PresT o pre0 I mt) (hf : ∀ a, PresT o pre0 I (ft a)) :
    PresT o pre0 I (PT.bind mt ft) := HTT.bind hm hf

theorem PresT.ite {α} {I : Cif → Prop} {c : Prop} [Decidable c] {a b : PT α} (ha : PresT o pre0 I a) (hb : PresT o pre0 I b) :
    PresT o pre0 I (if c then a else b) := by
  split <;> assumption

theorem PresT.dite' {α} {I : Cif → Prop} {c : Prop} [Decidable c] {a b : PT α} (ha : c → PresT o pre0 I a) (hb : ¬ c → PresT o pre0 I b) :
    PresT o pre0 I (if c then a else b) := by
  split
  · exact ha ‹_›
  · exact hb ‹_›

theorem PresT.clamp {I : Cif → Prop} {mt : PT Unit} (h : PresT o pre0 I mt) : PresT o pre0 I (clampT mt) := by
  constructor
  intro pol wt hh hp
  have h1 := h.run pol wt hh hp
  simp only [clampT]
  cases hA : mt pol wt with
  | ok a wt1 => rw [hA] at h1; exact h1
  | abort r wt1 =>
    rw [hA] at h1
    have h1' : Hist o pre0 wt1 ∧ I wt1.w.cif := h1
    by_cases hc : r > 0
    · simp only [hc, if_true]; exact h1'
    · simp only [hc, if_false]; exact h1'

/-- `presqT [h₁, …]`: decompose an instrumented production into the closure lemmas -/
syntax "presqT" "[" term,* "]" : tactic
macro_rules
  | `(tactic| presqT [$hs,*]) => `(tactic| repeat (first
      | exact PresT.pure _ _
      | exact PresT.liftP _ _ (fun _ => by keepq) (by keepq)
      | (first $[| exact $hs ..]*)
      | apply PresT.bind
      | apply PresT.ite
      | intro _
      | split))

/-! ### the store calls -/

theorem okR_setVal (o : Opts) (path : Path) (name : Str) (v : V) (c : Cif) (h : OkR o c) : OkR o ((SOp.setVal path name v).apply o c) := by
  simp only [SOp.apply]
  apply updIn_okR o _ (fun c => by unfold setValueC; split <;> rfl) path c h
  · intro cc _ hc
    exact okC_setValue o name v cc hc
  · intro cc _ hc
    exact rectC_setValue o name v cc hc

theorem okR_prune (o : Opts) (path : Path) (c : Cif) (h : OkR o c) : OkR o ((SOp.prune path).apply o c) := by
  simp only [SOp.apply]
  apply updIn_okR o pruneC (fun c => by cases c; rfl) path c h
  · intro cc _ hcc
    exact okC_prune o cc hcc
  · intro cc _ hcc
    exact rectC_prune cc hcc

theorem okR_mkBlock (o : Opts) (code : Str) (lenient : Bool) (c : Cif) (h : OkR o c)
    (hx : c.any (codeIs o.norm (o.norm code)) ≠ true) : OkR o ((SOp.mkBlock code lenient).apply o c) :=
  ⟨okCif_newBlock o code c h.1 (by simpa using hx), rectCs_snoc c code h.2⟩

theorem okR_mkFrame (o : Opts) (parent : Path) (code : Str) (lenient : Bool) (c : Cif) (h : OkR o c)
    (hx : ((Option.map Container.frames (getIn o.norm parent c)).getD []).any (codeIs o.norm (o.norm code)) ≠ true) :
    OkR o ((SOp.mkFrame parent code lenient).apply o c) := by
  simp only [SOp.apply]
  apply updIn_okR o (fun c => Container.mk c.code (c.frames ++ [Container.mk code [] []]) c.loops) (fun c => rfl) parent c h
  · intro cc hg hcc
    apply okC_newFrame o code cc hcc
    simp only [hg, Option.map_some, Option.getD_some] at hx
    simpa using hx
  · intro cc _ hcc
    exact rectC_newFrame code cc hcc

theorem ILR_addPkt (o : Opts) (path : Path) (n : Nat) (p : List V) (hp : p.length = n) (c : Cif) (h : ILR o (some path) n c) :
    ILR o (some path) n ((SOp.addPkt path p).apply o c) := by
  have := (addPacket_presR o (some path) n p hp).run acceptAll { log := [], cif := c } h
  simpa only [addPacket, bind_eq, P.bind, Parser.getCif, Parser.setCif, SOp.apply] using this

/-- the creation of the loop by parse_loop: afterwards the new loop is the last loop of its container, not scalar, with one name per
    retained header slot -/
theorem ILR_mkLoop (o : Opts) (path : Path) (slots : List (Option Str)) (cif : Cif) (hok : OkR o cif)
    (hcl : ∀ cc, getIn o.norm path cif = some cc →
      (((List.filterMap id slots).any fun n => hasItem o.norm cc (o.norm n)) ||
        hasDup (List.map o.norm (List.filterMap id slots))) = false) :
    ILR o (some path) (keptN slots) ((SOp.mkLoop path (List.filterMap id slots)).apply o cif) := by
  simp only [SOp.apply]
  have hf : ∀ c : Container, (Container.mk c.code c.frames
      (c.loops ++ [{ category := none, names := List.filterMap id slots, packets := [] }])).code = c.code := fun c => rfl
  refine ⟨⟨?_, ?_⟩, ?_, ?_⟩
  · apply updIn_okCif o _ hf path cif hok.1
    intro cc hg hcc
    have hcl' := hcl cc hg
    obtain ⟨code, fs, ls⟩ := cc
    rw [OkC_mk] at hcc
    simp only [Container.code, Container.frames, Container.loops]
    rw [OkC_mk]
    exact ⟨(loopsOk_newLoop o code fs ls _ hcc.1 hcl').1, hcc.2⟩
  · intro path' hp c' hg
    cases hp
    rw [getIn_updIn o _ hf] at hg
    cases hg0 : getIn o.norm path cif with
    | none => rw [hg0] at hg; cases hg
    | some cc =>
      rw [hg0] at hg
      simp only [Option.map_some, Option.some.injEq] at hg
      subst hg
      exact ⟨{ category := none, names := List.filterMap id slots, packets := [] }, by simp [Container.loops], rfl⟩
  · apply updIn_rect o _ path cif hok.1.1 hok.1.2 hok.2
    intro cc hg hcc
    obtain ⟨code, fs, ls⟩ := cc
    rw [RectC_mk] at hcc
    simp only [Container.code, Container.frames, Container.loops]
    rw [RectC_mk]
    exact ⟨(loopsRect_newLoop ls _ hcc.1).1, hcc.2⟩
  · intro path' hp c' hg
    cases hp
    rw [getIn_updIn o _ hf] at hg
    cases hg0 : getIn o.norm path cif with
    | none => rw [hg0] at hg; cases hg
    | some cc =>
      rw [hg0] at hg
      simp only [Option.map_some, Option.some.injEq] at hg
      subst hg
      exact ⟨{ category := none, names := List.filterMap id slots, packets := [] }, by simp [Container.loops],
        filterMap_id_length slots⟩

theorem setValueT_presT (o : Opts) (pre0 : Cif) (path : Path) (name : Str) (v : V) : PresT o pre0 (OkR o) (setValueT o path name v) := by
  unfold setValueT
  split
  · exact PresT.liftP _ _ (fun _ => by keepq) (by keepq)
  · exact HTT.emit _ (fun c hc => ⟨okR_setVal o path name v c hc, trivial, okR_setVal o path name v c hc⟩)

theorem docOk_addPkt (o : Opts) (path : Path) (n : Nat) (p : List V) (hp : p.length = n) (hn : 0 < n) (c : Cif)
    (h : ILR o (some path) n c) : (SOp.addPkt path p).docOk o c := by
  refine ⟨by intro e; rw [e] at hp; simp at hp; omega, ?_⟩
  intro cc hg
  obtain ⟨l, hl, hs⟩ := h.1.2 path rfl cc hg
  obtain ⟨l', hl', hw⟩ := h.2.2 path rfl cc hg
  rw [hl] at hl'
  cases hl'
  exact ⟨l, hl, hs, by rw [hw, hp]⟩

theorem addPacketT_presT (o : Opts) (pre0 : Cif) (loopAt : Option Path) (n : Nat) (p : List V) (hp : p.length = n)
    (hn : loopAt ≠ none → 0 < n) : PresT o pre0 (ILR o loopAt n) (addPacketT o loopAt p) := by
  cases loopAt with
  | none => exact PresT.pure _ _
  | some path =>
    exact HTT.emit _ (fun c hc => ⟨(ILR_addPkt o path n p hp c hc).okR, docOk_addPkt o path n p hp (hn (by simp)) c hc,
      ILR_addPkt o path n p hp c hc⟩)

/-! ### the productions -/

section Productions
attribute [local irreducible] parseValue listLoop tableLoop tableEntry nextTok P.bind P.pure Parser.report Parser.fail
  headerLoop packetsLoop parseContainer elemsLoop blocksLoop PT.bind PT.pure Parser.liftP Parser.emit
  packetsLoopT parseContainerT elemsLoopT blocksLoopT

theorem parseItemT_presT (o : Opts) (pre0 : Cif) (fuel : Nat) (s : PS) (cont : Option Path) (name : Option Str) :
    PresT o pre0 (OkR o) (parseItemT o fuel s cont name) := by
  unfold parseItemT
  simp only [bindT_eq, pureT_eq]
  have hs := setValueT_presT o pre0
  presqT [hs]

theorem packetsLoopT_presT (o : Opts) (pre0 : Cif) (loopAt : Option Path) (slots : List (Option Str)) (hne : slots ≠ [])
    (hpos : loopAt ≠ none → 0 < keptN slots) :
    ∀ (fuel : Nat) (s : PS) (k : Pk), k.idx < slots.length → k.cur.length = keptN (slots.take k.idx) →
      PresT o pre0 (ILR o loopAt (keptN slots)) (packetsLoopT o loopAt slots fuel s k) := by
  intro fuel
  induction fuel with
  | zero => intro s k _ _; rw [packetsLoopT]; exact PresT.liftP _ _ (fun _ => by keepq) (by keepq)
  | succ fuel ih =>
    intro s k hidx hcur
    rw [packetsLoopT]
    simp only [bindT_eq, pureT_eq]
    have hlen : 0 < slots.length := List.length_pos_iff.mpr hne
    apply PresT.bind (PresT.liftP _ _ (fun _ => by keepq) (by keepq))
    rintro ⟨t, s1⟩
    simp only []
    have hval : ∀ s2 : PS, PresT o pre0 (ILR o loopAt (keptN slots)) ((Parser.liftP (parseValue o fuel s2)).bind fun x =>
        if (k.idx + 1) % slots.length = 0 then
          (addPacketT o loopAt (if (slots.getD k.idx none).isSome = true then k.cur ++ [x.fst] else k.cur)).bind
            fun _ => packetsLoopT o loopAt slots fuel x.snd { idx := 0, some := true, cur := [] }
        else
          packetsLoopT o loopAt slots fuel x.snd
            { idx := (k.idx + 1) % slots.length, some := k.some,
              cur := if (slots.getD k.idx none).isSome = true then k.cur ++ [x.fst] else k.cur }) := by
      intro s2
      apply PresT.bind (PresT.liftP _ _ (fun _ => by keepq) (by keepq))
      rintro ⟨v, s3⟩
      simp only []
      have hcur' : (if (slots.getD k.idx none).isSome = true then k.cur ++ [v] else k.cur).length
          = keptN (slots.take (k.idx + 1)) := by
        rw [keptN_take_succ slots k.idx hidx]
        split <;> simp [hcur]
      apply PresT.dite'
      · intro hz
        have hfull : k.idx + 1 = slots.length := by
          by_cases hlt : k.idx + 1 < slots.length
          · rw [Nat.mod_eq_of_lt hlt] at hz; omega
          · omega
        apply PresT.bind
        · apply addPacketT_presT _ _ _ _ _ _ hpos
          rw [hcur', hfull, keptN_take_all]
        · intro _
          exact ih s3 { idx := 0, some := true, cur := [] } hlen (by simp [keptN])
      · intro hz
        have hlt : k.idx + 1 < slots.length := by
          by_cases hlt : k.idx + 1 < slots.length
          · exact hlt
          · have : k.idx + 1 = slots.length := by omega
            rw [this, Nat.mod_self] at hz
            exact absurd rfl hz
        apply ih
        · simp only []
          rw [Nat.mod_eq_of_lt hlt]; exact hlt
        · simp only []
          rw [Nat.mod_eq_of_lt hlt]; exact hcur'
    apply PresT.dite'
    · intro _
      apply PresT.dite'
      · intro _
        apply PresT.bind (PresT.liftP _ _ (fun _ => by keepq) (by keepq))
        intro _
        apply PresT.bind (PresT.pure _ _)
        intro s2
        exact hval s2
      · intro _
        apply PresT.bind (PresT.pure _ _)
        intro s2
        exact hval s2
    · intro _
      apply PresT.dite'
      · intro _
        apply PresT.bind (PresT.liftP _ _ (fun _ => by keepq) (by keepq))
        intro _
        exact ih _ k hidx hcur
      · intro _
        apply PresT.dite'
        · intro _
          apply PresT.bind (PresT.liftP _ _ (fun _ => by keepq) (by keepq))
          intro _
          apply PresT.bind
          · apply addPacketT_presT _ _ _ _ _ _ hpos
            simp only [List.length_append, List.length_map, hcur]
            exact keptN_take_drop slots k.idx
          · intro _
            exact PresT.pure _ _
        · intro _
          presqT []

theorem parseLoopT_presT (o : Opts) (pre0 : Cif) (fuel : Nat) (s : PS) (cont : Option Path) :
    PresT o pre0 (OkR o) (parseLoopT o fuel s cont) := by
  unfold parseLoopT
  simp only [bindT_eq, pureT_eq]
  apply HTT.bind (PresT.liftP (OkR o) _ (fun _ => by keepq) (by keepq))
  rintro ⟨slots, s1⟩
  simp only []
  split
  · presqT []
  · rename_i hemp
    have hne : slots ≠ [] := by
      intro e; rw [e] at hemp; exact hemp rfl
    have hlen : 0 < slots.length := List.length_pos_iff.mpr hne
    have hpk0 : ∀ (la : Option Path), (la ≠ none → 0 < keptN slots) → ∀ (s : PS), PresT o pre0 (ILR o la (keptN slots))
        (packetsLoopT o la slots fuel s { idx := 0, some := false, cur := [] }) :=
      fun la hla s => packetsLoopT_presT o pre0 la slots hne hla fuel s _ hlen (by simp [keptN])
    have hrest : ∀ (la : Option Path) (m : PT PS), PresT o pre0 (ILR o la (keptN slots)) m →
        HTT o pre0 (ILR o la (keptN slots)) m (fun _ => OkR o) (OkR o) :=
      fun la m h => h.conseq (fun _ h => h) (fun _ _ h => h.okR) (fun _ h => h.okR)
    have hnone : ∀ c, OkR o c → ILR o none (keptN slots) c ∧ ((none : Option Path) ≠ none → 0 < keptN slots) :=
      fun c h => ⟨ILR_none o _ c h, fun hne => absurd rfl hne⟩
    split
    · apply HTT.bind (mid := fun la c => ILR o la (keptN slots) c ∧ (la ≠ none → 0 < keptN slots)) (HTT.pure _ hnone)
      intro la
      apply HTT.pull
      intro hla
      apply hrest
      have hpk := hpk0 la hla
      presqT [hpk]
    · rename_i path
      split
      · apply HTT.bind (mid := fun la c => ILR o la (keptN slots) c ∧ (la ≠ none → 0 < keptN slots)) (HTT.pure _ hnone)
        intro la
        apply HTT.pull
        intro hla
        apply hrest
        have hpk := hpk0 la hla
        presqT [hpk]
      · rename_i hnames
        have hposn : 0 < keptN slots := by
          rw [← filterMap_id_length]
          cases hfm : List.filterMap id slots with
          | nil => rw [hfm] at hnames; exact absurd rfl hnames
          | cons a r => simp
        have hnn : List.filterMap id slots ≠ [] := by
          intro e; rw [e] at hnames; exact hnames rfl
        split
        · exact HTT.failThen _ _ (fun _ h => h)
        · rename_i hvalid
          have hvalid' : ((List.filterMap id slots).any fun n => !isValidName true n) = false := by
            simpa using hvalid
          apply HTT.bind (mid := fun cif c => OkR o c ∧ cif = c) HTT.getCif
          intro cif
          have hcreate : ∀ (k : Option Path → PT PS), (∀ la, (la ≠ none → 0 < keptN slots) → PresT o pre0 (ILR o la (keptN slots)) (k la)) →
              (∀ cc, getIn o.norm path cif = some cc →
                (((List.filterMap id slots).any fun n => hasItem o.norm cc (o.norm n)) ||
                  hasDup (List.map o.norm (List.filterMap id slots))) = false) →
              HTT o pre0 (fun c => OkR o c ∧ cif = c)
                ((Parser.emit o (.mkLoop path (List.filterMap id slots))).bind
                  fun _ => (PT.pure (some path)).bind k) (fun _ => OkR o) (OkR o) := by
            intro k hk hcl
            apply HTT.bind (mid := fun _ c => ILR o (some path) (keptN slots) c)
            · apply HTT.emit
              rintro c ⟨hok, rfl⟩
              have := ILR_mkLoop o path slots cif hok hcl
              exact ⟨this.okR, ⟨hnn, hvalid', hcl⟩, this⟩
            · intro _
              apply HTT.bind (mid := fun la c => ILR o la (keptN slots) c ∧ (la ≠ none → 0 < keptN slots))
                (HTT.pure _ (fun c h => ⟨h, fun _ => hposn⟩))
              intro la
              apply HTT.pull
              intro hla
              exact hrest la _ (hk la hla)
          split
          · rename_i hg
            simp only [Bool.false_eq_true, if_false]
            exact hcreate _ (fun la hla => by have hpk := hpk0 la hla; presqT [hpk]) (fun cc h => by rw [hg] at h; cases h)
          · rename_i cc hg
            split
            · exact HTT.failThen _ _ (fun _ h => h.1)
            · rename_i hcl
              exact hcreate _ (fun la hla => by have hpk := hpk0 la hla; presqT [hpk])
                (fun cc' h => by rw [hg] at h; cases h; simpa using hcl)

theorem createInT_presT (o : Opts) (pre0 : Cif) (isBlock : Bool) (parent : Path) (code : Str) (line col : Nat) :
    PresT o pre0 (OkR o) (createInT o isBlock parent code line col) := by
  unfold createInT
  simp only [bindT_eq, pureT_eq]
  apply HTT.bind (mid := fun cif c => OkR o c ∧ cif = c) HTT.getCif
  intro cif
  have hrep : ∀ (code : Code) (line col : Nat) (a : Path), HTT o pre0 (fun c => OkR o c ∧ cif = c)
      (PT.bind (Parser.liftP (Parser.report code line col)) fun _ => PT.pure a) (fun _ => OkR o) (OkR o) :=
    fun code line col a => HTT.bind (mid := fun _ c => OkR o c ∧ cif = c)
      ((PresT.liftP (fun c => OkR o c ∧ cif = c) _ (fun _ => by keepq) (by keepq)).conseq (fun _ h => h) (fun _ _ h => h) (fun _ h => h.1))
      (fun _ => HTT.pure _ (fun _ h => h.1))
  have hrep' : ∀ (code : Code) (line col : Nat), HTT o pre0 (fun c => OkR o c ∧ cif = c) (Parser.liftP (Parser.report code line col))
      (fun _ c => OkR o c ∧ cif = c) (OkR o) :=
    fun code line col => (PresT.liftP (fun c => OkR o c ∧ cif = c) _ (fun _ => by keepq) (by keepq)).conseq
      (fun _ h => h) (fun _ _ h => h) (fun _ h => h.1)
  cases isBlock <;> simp only [Bool.false_eq_true, if_false, if_true]
  · have hadd : ∀ (lenient : Bool) (a : Path), (lenient = true ∨ isValidName false code = true) →
        ((Option.map Container.frames (getIn o.norm parent cif)).getD []).any (codeIs o.norm (o.norm code)) ≠ true →
        HTT o pre0 (fun c => OkR o c ∧ cif = c) (PT.bind (Parser.emit o (.mkFrame parent code lenient)) fun _ => PT.pure a)
          (fun _ => OkR o) (OkR o) := by
      intro lenient a hl hx
      apply HTT.bind (mid := fun _ c => OkR o c)
      · apply HTT.emit
        rintro c ⟨hok, rfl⟩
        exact ⟨okR_mkFrame o parent code lenient cif hok hx, ⟨hl, by simpa using hx⟩, okR_mkFrame o parent code lenient cif hok hx⟩
      · intro _
        exact HTT.pure _ (fun _ h => h)
    split
    · apply HTT.bind (mid := fun _ c => OkR o c ∧ cif = c) (hrep' _ _ _)
      intro _
      split
      · exact hrep _ _ _ _
      · rename_i hx
        exact hadd _ _ (Or.inl rfl) hx
    · rename_i hvalid
      split
      · exact hrep _ _ _ _
      · rename_i hx
        exact hadd _ _ (Or.inr (by simpa using hvalid)) hx
  · have hadd : ∀ (lenient : Bool) (a : Path), (lenient = true ∨ isValidName false code = true) →
        cif.any (codeIs o.norm (o.norm code)) ≠ true →
        HTT o pre0 (fun c => OkR o c ∧ cif = c) (PT.bind (Parser.emit o (.mkBlock code lenient)) fun _ => PT.pure a)
          (fun _ => OkR o) (OkR o) := by
      intro lenient a hl hx
      apply HTT.bind (mid := fun _ c => OkR o c)
      · apply HTT.emit
        rintro c ⟨hok, rfl⟩
        exact ⟨okR_mkBlock o code lenient cif hok hx, ⟨hl, by simpa using hx⟩, okR_mkBlock o code lenient cif hok hx⟩
      · intro _
        exact HTT.pure _ (fun _ h => h)
    split
    · apply HTT.bind (mid := fun _ c => OkR o c ∧ cif = c) (hrep' _ _ _)
      intro _
      split
      · exact hrep _ _ _ _
      · rename_i hx
        exact hadd _ _ (Or.inl rfl) hx
    · rename_i hvalid
      split
      · exact hrep _ _ _ _
      · rename_i hx
        exact hadd _ _ (Or.inr (by simpa using hvalid)) hx

theorem pruneT_presT (o : Opts) (pre0 : Cif) (path : Path) (s : PS) :
    PresT o pre0 (OkR o) (PT.bind (Parser.emit o (.prune path)) fun _ => PT.pure s) :=
  HTT.bind (mid := fun _ c => OkR o c) (HTT.emit _ (fun c hc => ⟨okR_prune o path c hc, trivial, okR_prune o path c hc⟩))
    (fun _ => HTT.pure _ (fun _ h => h))

theorem containersT_presT (o : Opts) (pre0 : Cif) : ∀ fuel : Nat,
    (∀ s cont isBlock, PresT o pre0 (OkR o) (parseContainerT o fuel s cont isBlock)) ∧
    (∀ s cont isBlock, PresT o pre0 (OkR o) (elemsLoopT o fuel s cont isBlock)) := by
  intro fuel
  induction fuel with
  | zero =>
    refine ⟨?_, ?_⟩ <;> intros
    · rw [parseContainerT]; exact PresT.liftP _ _ (fun _ => by keepq) (by keepq)
    · rw [elemsLoopT]; exact PresT.liftP _ _ (fun _ => by keepq) (by keepq)
  | succ fuel ih =>
    obtain ⟨hc, he⟩ := ih
    have hp := parseItemT_presT o pre0
    have hl := parseLoopT_presT o pre0
    have hk := createInT_presT o pre0
    have hpr := pruneT_presT o pre0
    refine ⟨?_, ?_⟩
    · intro s cont isBlock
      rw [parseContainerT]
      simp only [bindT_eq, pureT_eq]
      presqT [hpr, hc, he, hp, hl, hk]
    · intro s cont isBlock
      rw [elemsLoopT]
      simp only [bindT_eq, pureT_eq]
      presqT [hpr, hc, he, hp, hl, hk]

theorem anonT_presT {β} (o : Opts) (pre0 : Cif) (K : PT β) (hK : PresT o pre0 (OkR o) K) :
    PresT o pre0 (OkR o) (PT.bind (Parser.liftP Parser.getCif) fun cif =>
      if cif.any (codeIs o.norm (o.norm [])) = true then K
      else PT.bind (Parser.emit o (.mkBlock [] true)) fun _ => K) := by
  apply HTT.bind (mid := fun cif c => OkR o c ∧ cif = c) HTT.getCif
  intro cif
  split
  · exact hK.conseq (fun _ h => h.1) (fun _ _ h => h) (fun _ h => h)
  · rename_i hx
    apply HTT.bind (mid := fun _ c => OkR o c)
    · apply HTT.emit
      rintro c ⟨hok, rfl⟩
      exact ⟨okR_mkBlock o [] true cif hok hx, ⟨Or.inl rfl, by simpa using hx⟩, okR_mkBlock o [] true cif hok hx⟩
    · intro _
      exact hK

theorem blocksLoopT_presT (o : Opts) (pre0 : Cif) : ∀ (fuel : Nat) (s : PS), PresT o pre0 (OkR o) (blocksLoopT o fuel s) := by
  intro fuel
  induction fuel with
  | zero => intro s; rw [blocksLoopT]; exact PresT.liftP _ _ (fun _ => by keepq) (by keepq)
  | succ fuel ih =>
    intro s
    rw [blocksLoopT]
    simp only [bindT_eq, pureT_eq]
    have hk := createInT_presT o pre0
    have hc := (containersT_presT o pre0 fuel).1
    apply PresT.bind (PresT.liftP _ _ (fun _ => by keepq) (by keepq))
    intro a
    split
    · presqT [hk, hc, ih]
    · presqT [hk, hc, ih]
    · apply PresT.bind (PresT.liftP _ _ (fun _ => by keepq) (by keepq))
      intro _
      split
      · apply anonT_presT
        presqT [hc, ih]
      · presqT [hc, ih]

end Productions

/-! ### the whole parse -/

theorem parseCifT_presT (o : Opts) (pre0 : Cif) (fuel : Nat) (s : PS) : PresT o pre0 (OkR o) (parseCifT o fuel s) := by
  unfold parseCifT
  simp only [bindT_eq, pureT_eq]
  exact PresT.clamp (PresT.bind (blocksLoopT_presT o pre0 fuel s) (fun _ => PresT.pure _ _))

theorem afterFirstT_presT (o : Opts) (pre0 : Cif) (fuel : Nat) (c : CU) (rest : Str) :
    PresT o pre0 (OkR o) (afterFirstT o fuel c rest) := by
  unfold afterFirstT
  simp only [bindT_eq, pureT_eq]
  have hp := parseCifT_presT o pre0 fuel
  presqT [hp]

theorem parseInternalT_presT (o : Opts) (pre0 : Cif) (fuel : Nat) (units : Str) :
    PresT o pre0 (OkR o) (parseInternalT o fuel units) := by
  cases units with
  | nil => exact PresT.pure _ _
  | cons c rest =>
    simp only [parseInternalT]
    have ha := afterFirstT_presT o pre0 fuel
    presqT [ha]

/-- the history invariant holds of the whole recorded trace -/
theorem trace_hist (o : Opts) (pol : Policy) (pre : Cif) (units : Str) (h : OkR o pre) :
    ∃ wt : WT, Hist o pre wt ∧ storeTrace o pol pre units = wt.ops.reverse := by
  have h0 : Hist o pre { w := { log := [], cif := pre }, ops := [] } :=
    ⟨rfl, fun _ => by simpa [replay] using h, fun k op hk => by simp at hk⟩
  have h1 := (parseInternalT_presT o pre (fuelFor units) units).run pol { w := { log := [], cif := pre }, ops := [] } h0 h
  unfold storeTrace parseT runT
  cases hA : parseInternalT o (fuelFor units) units pol { w := { log := [], cif := pre }, ops := [] } with
  | ok a wt => rw [hA] at h1; exact ⟨wt, h1.1, rfl⟩
  | abort r wt => rw [hA] at h1; exact ⟨wt, h1.1, rfl⟩

theorem replay_drop_eq (o : Opts) (pre : Cif) (ops : List SOp) (k : Nat) (hk : k ≤ ops.length) :
    replay o (ops.drop (ops.length - k)) pre = (ops.reverse.take k).foldl (fun c op => op.apply o c) pre := by
  rw [replay, ← List.foldl_reverse, List.reverse_drop]
  congr 2
  omega

/-- **after every store call of a parse the target is consistent and rectangular**: every prefix of the recorded trace, replayed on the
    (consistent, rectangular) initial target -/
theorem trace_prefix_okR (o : Opts) (pol : Policy) (pre : Cif) (units : Str) (h : OkR o pre) (k : Nat) :
    OkR o (((storeTrace o pol pre units).take k).foldl (fun c op => op.apply o c) pre) := by
  obtain ⟨wt, hh, he⟩ := trace_hist o pol pre units h
  rw [he]
  by_cases hk : k ≤ wt.ops.length
  · rw [← replay_drop_eq o pre wt.ops k hk]
    exact hh.2.1 _
  · have : wt.ops.reverse.take k = wt.ops.reverse.take wt.ops.length := by
      rw [List.take_of_length_le (by simp; omega), List.take_of_length_le (by simp)]
    rw [this, ← replay_drop_eq o pre wt.ops wt.ops.length (Nat.le_refl _)]
    exact hh.2.1 _

/-- **every recorded call is made in a state that meets what the documentation asks** (`SOp.docOk`): the `k`-th call of the trace, in
    the replay of the first `k` calls -/
theorem trace_calls_docOk (o : Opts) (pol : Policy) (pre : Cif) (units : Str) (h : OkR o pre) (k : Nat) (op : SOp)
    (hk : (storeTrace o pol pre units)[k]? = some op) :
    op.docOk o (((storeTrace o pol pre units).take k).foldl (fun c op => op.apply o c) pre) := by
  obtain ⟨wt, hh, he⟩ := trace_hist o pol pre units h
  rw [he] at hk ⊢
  have hlt : k < wt.ops.length := by
    have := (List.getElem?_eq_some_iff.mp hk).1
    simpa using this
  have hk' : wt.ops[wt.ops.length - 1 - k]? = some op := by
    rw [List.getElem?_reverse hlt] at hk
    exact hk
  have := hh.2.2 (wt.ops.length - 1 - k) op hk'
  have e : wt.ops.length - 1 - k + 1 = wt.ops.length - k := by omega
  rw [e, replay_drop_eq o pre wt.ops k (by omega)] at this
  exact this

/-- two updates that agree on consistent, rectangular containers agree on a consistent, rectangular CIF -/
theorem updIn_congr_ok (o : Opts) (f g : Container → Container) (hfg : ∀ c, OkC o c → RectC c → f c = g c) :
    ∀ (path : Path) (cs : List Container), OkCs o cs → RectCs cs → updIn o.norm f path cs = updIn o.norm g path cs
  | [], cs, _, _ => by simp [updIn]
  | [k], cs, hok, hr => by
    simp only [updIn]
    rw [OkCs_iff] at hok
    rw [RectCs_iff] at hr
    apply List.map_congr_left
    intro c hc
    split
    · exact hfg c (hok c hc) (hr c hc)
    · rfl
  | k :: k' :: ks, cs, hok, hr => by
    simp only [updIn]
    rw [OkCs_iff] at hok
    rw [RectCs_iff] at hr
    apply List.map_congr_left
    intro c hc
    split
    · have h1 := hok c hc
      have h2 := hr c hc
      obtain ⟨code, fs, ls⟩ := c
      rw [OkC_mk] at h1
      rw [RectC_mk] at h2
      simp only [Container.code, Container.frames, Container.loops]
      rw [updIn_congr_ok o f g hfg (k' :: ks) fs h1.2.2 h2.2]
    · rfl

/-- the container at a path of a consistent CIF is consistent -/
theorem getIn_okC (o : Opts) : ∀ (path : Path) (cs : List Container) (c : Container), OkCs o cs →
    getIn o.norm path cs = some c → OkC o c
  | [], _, _, _, h => by simp [getIn] at h
  | [k], cs, c, hok, h => by
    simp only [getIn] at h
    rw [OkCs_iff] at hok
    exact hok c (List.mem_of_find?_eq_some h)
  | k :: k' :: ks, cs, c, hok, h => by
    simp only [getIn] at h
    cases hf : cs.find? (codeIs o.norm k) with
    | none => rw [hf] at h; cases h
    | some c0 =>
      rw [hf] at h
      simp only [] at h
      rw [OkCs_iff] at hok
      have h0 := hok c0 (List.mem_of_find?_eq_some hf)
      obtain ⟨code, fs, ls⟩ := c0
      rw [OkC_mk] at h0
      exact getIn_okC o (k' :: ks) fs c h0.2.2 h

end CifModel.Model.Parser
