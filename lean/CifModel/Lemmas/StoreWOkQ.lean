import CifModel.Lemmas.StoreWOk
import CifModel.Lemmas.StoreQuiet
/-
  Lemmas/StoreWOkQ — `WOk` = `WTied` (Lemmas/StoreWOk: every CIF Good, every iterator tied, one iterator per CIF) and `Quiet`:
  a CIF on which no iterator is open is in autocommit mode.
-/
namespace CifModel.Store
open Gen.ErrCodes World

def Quiet (w : World) : Prop := ∀ c s, w.liveC c = some s → w.cifBusy c = false → s.autocommit = true

structure WOk (w : World) : Prop where
  tied : WTied w
  quiet : Quiet w

theorem WOk.good {w : World} (h : WOk w) : WGood w := h.tied.good
theorem WOk.iters {w : World} (h : WOk w) : Iters w := h.tied.iters
theorem WOk.one {w : World} (h : WOk w) : OneIter w := h.tied.one

theorem WOk.empty : WOk {} := ⟨WTied.empty, fun c s hs => by simp [liveC, List.getD] at hs⟩

theorem busy_of_entry {w : World} {i : Nat} {e : ITE} (hi : w.its.getD i none = some e) : w.cifBusy e.cif = true := by
  cases hb : w.cifBusy e.cif with
  | true => rfl
  | false => exact absurd rfl (cifBusy_false hb i e hi)

theorem entry_of_busy {w : World} {c : Nat} (hb : w.cifBusy c = true) : ∃ i e, w.its.getD i none = some e ∧ e.cif = c := by
  unfold cifBusy at hb
  obtain ⟨x, hx, hk⟩ := List.any_eq_true.mp hb
  cases x with
  | none => simp at hk
  | some e =>
    obtain ⟨i, hi, hget⟩ := List.getElem_of_mem hx
    refine ⟨i, e, ?_, by simpa using hk⟩
    simp [List.getD, hi, hget]

/-- the busy CIFs of `w'` are busy in `w` as soon as every entry of `w` (with that CIF) has a counterpart in `w'` -/
theorem busy_mono {w w' : World} (c : Nat) (h : ∀ i e, w.its.getD i none = some e → e.cif = c → ∃ j e', w'.its.getD j none = some e' ∧ e'.cif = c)
    (hb : w'.cifBusy c = false) : w.cifBusy c = false := by
  cases hw : w.cifBusy c with
  | false => rfl
  | true =>
    obtain ⟨i, e, hi, hc⟩ := entry_of_busy hw
    obtain ⟨j, e', hj, hc'⟩ := h i e hi hc
    have := busy_of_entry hj
    rw [hc', hb] at this; cases this

theorem Quiet.same {w w' : World} (h : Quiet w) (hits : w'.its = w.its) (hcifs : w'.cifs = w.cifs) : Quiet w' := by
  intro c s hs hb
  have h1 : w.liveC c = some s := by unfold liveC at hs ⊢; rw [← hcifs]; exact hs
  have h2 : w.cifBusy c = false := by unfold cifBusy at hb ⊢; rw [← hits]; exact hb
  exact h c s h1 h2

theorem Quiet.setFree {w w' : World} (h : Quiet w) (c : Nat) (s1 : Store) (hq : s1.autocommit = true)
    (hits : w'.its = w.its) (hcifs : w'.cifs = w.cifs.set c (some s1)) : Quiet w' := by
  intro c' s hs hb
  have h2 : w.cifBusy c' = false := by unfold cifBusy at hb ⊢; rw [← hits]; exact hb
  unfold liveC at hs
  rw [hcifs] at hs
  rcases getD_set_cases _ _ _ _ _ hs with ⟨_, h1⟩ | ⟨_, h1⟩
  · cases h1; exact hq
  · exact h c' s h1 h2

theorem WOk.same {w w' : World} (h : WOk w) (hits : w'.its = w.its) (hcifs : w'.cifs = w.cifs) : WOk w' :=
  ⟨h.tied.same hits hcifs, h.quiet.same hits hcifs⟩

theorem WOk.setFree {w w' : World} (h : WOk w) (c : Nat) (s1 : Store) (hg : GoodS s1) (hq : s1.autocommit = true) (hb : w.cifBusy c = false)
    (hits : w'.its = w.its) (hcifs : w'.cifs = w.cifs.set c (some s1)) : WOk w' :=
  ⟨h.tied.setFree c s1 hg hb hits hcifs, h.quiet.setFree c s1 hq hits hcifs⟩

/-- the store of a CIF without open iterator is in autocommit mode -/
theorem WOk.autocommit {w : World} (h : WOk w) {c : Nat} {s : Store} (hs : w.liveC c = some s) (hb : w.cifBusy c = false) :
    s.autocommit = true := h.quiet c s hs hb

theorem WOk.cifNew {w w' : World} (h : WOk w) (hits : w'.its = w.its) (hcifs : w'.cifs = w.cifs ++ [some ({} : Store)]) : WOk w' := by
  refine ⟨h.tied.cifNew hits hcifs, ?_⟩
  intro c s hs hb
  have h2 : w.cifBusy c = false := by unfold cifBusy at hb ⊢; rw [← hits]; exact hb
  unfold liveC at hs
  rw [hcifs] at hs
  rcases getD_append_cases _ _ _ _ hs with ⟨_, h1⟩ | ⟨_, h1⟩
  · exact h.quiet c s h1 h2
  · cases h1; rfl

theorem WOk.cifDel {w w' : World} (h : WOk w) (c : Nat) (hb : w.cifBusy c = false)
    (hits : w'.its = w.its.map (fun e => match e with | some e => if e.cif == c then none else some e | none => none))
    (hcifs : w'.cifs = w.cifs.set c none) : WOk w' := by
  refine ⟨h.tied.cifDel c hb hits hcifs, ?_⟩
  -- no entry is removed: the CIF has no open iterator
  have hsame : w'.its = w.its := by
    rw [hits]
    have : ∀ x ∈ w.its, (match x with | some e => if e.cif == c then none else some e | none => none) = x := by
      intro x hx
      cases x with
      | none => rfl
      | some e =>
        obtain ⟨i, hi, hget⟩ := List.getElem_of_mem hx
        have hne := cifBusy_false hb i e (by simp [List.getD, hi, hget])
        simp [hne]
    calc w.its.map _ = w.its.map id := List.map_congr_left this
      _ = w.its := List.map_id _
  intro c' s hs hb'
  have h2 : w.cifBusy c' = false := by unfold cifBusy at hb' ⊢; rw [← hsame]; exact hb'
  unfold liveC at hs
  rw [hcifs] at hs
  rcases getD_set_cases _ _ _ _ _ hs with ⟨_, h1⟩ | ⟨_, h1⟩
  · cases h1
  · exact h.quiet c' s h1 h2

theorem WOk.itNone {w w' : World} (h : WOk w) (hits : w'.its = w.its ++ [none]) (hcifs : w'.cifs = w.cifs) : WOk w' := by
  refine ⟨h.tied.itNone hits hcifs, ?_⟩
  intro c s hs hb
  have h1 : w.liveC c = some s := by unfold liveC at hs ⊢; rw [← hcifs]; exact hs
  refine h.quiet c s h1 (busy_mono c ?_ hb)
  intro i e hi _
  refine ⟨i, e, ?_, by assumption⟩
  rw [hits]
  have := getD_some_lt _ _ _ hi
  simpa [List.getD, List.getElem?_append_left this] using hi

theorem WOk.itOpen {w w' : World} (h : WOk w) (l : Nat) (e : LHE) (s : Store) (hl : w.liveL l = some (e, s))
    (hb : w.cifBusy e.cif = false) (hv : e.h.validB s.db = true)
    (hits : w'.its = w.its ++ [match (getPackets s e.h).2 with | .ok it => some { cif := e.cif, lh := l, it := it } | .error _ => none])
    (hcifs : w'.cifs = w.cifs.set e.cif (some (getPackets s e.h).1)) : WOk w' := by
  refine ⟨h.tied.itOpen l e s hl hb hv hits hcifs, ?_⟩
  have hs := liveL_liveC hl
  have hold : ∀ c', w'.cifBusy c' = false → w.cifBusy c' = false := by
    intro c' hb'
    refine busy_mono c' ?_ hb'
    intro i e' hi hc
    refine ⟨i, e', ?_, hc⟩
    rw [hits]
    have := getD_some_lt _ _ _ hi
    simpa [List.getD, List.getElem?_append_left this] using hi
  intro c' s' hs' hb'
  unfold liveC at hs'
  rw [hcifs] at hs'
  rcases getD_set_cases _ _ _ _ _ hs' with ⟨hc, h1⟩ | ⟨_, h1⟩
  · cases h1
    subst hc
    -- the call delivered no iterator (else the CIF would be busy now)
    cases hr : (getPackets s e.h).2 with
    | error c => exact getPackets_autocommit s e.h (h.quiet _ s hs hb) c hr
    | ok it =>
      exfalso
      have : w'.its.getD w.its.length none = some { cif := e.cif, lh := l, it := it } := by
        rw [hits, hr]; simp [List.getD]
      have := busy_of_entry this
      simp only [] at this
      rw [hb'] at this; cases this
  · exact h.quiet c' s' h1 (hold c' hb')

theorem WOk.itNext {w w' : World} (h : WOk w) (i : Nat) (e : ITE) (s : Store) (hl : w.liveI i = some (e, s))
    (hits : w'.its = w.its.set i (some { e with it := (nextPacket s e.it).1 })) (hcifs : w'.cifs = w.cifs) : WOk w' := by
  refine ⟨h.tied.itNext i e s hl hits hcifs, ?_⟩
  have hi := liveI_its hl
  intro c s' hs' hb'
  have h1 : w.liveC c = some s' := by unfold liveC at hs' ⊢; rw [← hcifs]; exact hs'
  refine h.quiet c s' h1 (busy_mono c ?_ hb')
  intro j e' hj hc
  by_cases hji : j = i
  · subst hji
    rw [hi] at hj; cases hj
    refine ⟨j, { e with it := (nextPacket s e.it).1 }, ?_, hc⟩
    rw [hits]
    have := getD_some_lt _ _ _ hi
    simp [List.getD, this]
  · refine ⟨j, e', ?_, hc⟩
    rw [hits]
    simpa [List.getD, List.getElem?_set_ne (Ne.symm hji)] using hj

theorem WOk.itUpd {w w' : World} (h : WOk w) (i : Nat) (e : ITE) (s : Store) (p : List (Str × V)) (hl : w.liveI i = some (e, s))
    (hits : w'.its = w.its) (hcifs : w'.cifs = w.cifs.set e.cif (some (updatePacket s e.it p).1)) : WOk w' := by
  refine ⟨h.tied.itUpd i e s p hl hits hcifs, ?_⟩
  have hi := liveI_its hl
  intro c s' hs' hb'
  have h2 : w.cifBusy c = false := by unfold cifBusy at hb' ⊢; rw [← hits]; exact hb'
  unfold liveC at hs'
  rw [hcifs] at hs'
  rcases getD_set_cases _ _ _ _ _ hs' with ⟨hc, _⟩ | ⟨_, h1⟩
  · subst hc
    have := busy_of_entry hi
    rw [h2] at this; cases this
  · exact h.quiet c s' h1 h2

theorem WOk.itRem {w w' : World} (h : WOk w) (i : Nat) (e : ITE) (s : Store) (hl : w.liveI i = some (e, s))
    (hits : w'.its = w.its.set i (some { e with it := (removePacket s e.it).2.1 }))
    (hcifs : w'.cifs = w.cifs.set e.cif (some (removePacket s e.it).1)) : WOk w' := by
  refine ⟨h.tied.itRem i e s hl hits hcifs, ?_⟩
  have hi := liveI_its hl
  have hmono : ∀ c, w'.cifBusy c = false → w.cifBusy c = false := by
    intro c hb'
    refine busy_mono c ?_ hb'
    intro j e' hj hc
    by_cases hji : j = i
    · subst hji
      rw [hi] at hj; cases hj
      refine ⟨j, { e with it := (removePacket s e.it).2.1 }, ?_, hc⟩
      rw [hits]
      have := getD_some_lt _ _ _ hi
      simp [List.getD, this]
    · refine ⟨j, e', ?_, hc⟩
      rw [hits]
      simpa [List.getD, List.getElem?_set_ne (Ne.symm hji)] using hj
  intro c s' hs' hb'
  have h2 := hmono c hb'
  unfold liveC at hs'
  rw [hcifs] at hs'
  rcases getD_set_cases _ _ _ _ _ hs' with ⟨hc, _⟩ | ⟨_, h1⟩
  · subst hc
    have := busy_of_entry hi
    rw [h2] at this; cases this
  · exact h.quiet c s' h1 h2

theorem WOk.itEnd {w w' : World} (h : WOk w) (i : Nat) (e : ITE) (s s1 : Store) (hl : w.liveI i = some (e, s)) (hg : GoodS s1)
    (hq : s1.autocommit = true) (hits : w'.its = w.its.set i none) (hcifs : w'.cifs = w.cifs.set e.cif (some s1)) : WOk w' := by
  refine ⟨h.tied.itEnd i e s s1 hl hg hits hcifs, ?_⟩
  have hi := liveI_its hl
  intro c s' hs' hb'
  unfold liveC at hs'
  rw [hcifs] at hs'
  rcases getD_set_cases _ _ _ _ _ hs' with ⟨_, h1⟩ | ⟨hne, h1⟩
  · cases h1; exact hq
  · refine h.quiet c s' h1 (busy_mono c ?_ hb')
    intro j e' hj hc
    have hji : j ≠ i := by
      intro hji; subst hji
      rw [hi] at hj; cases hj
      exact hne hc.symm
    refine ⟨j, e', ?_, hc⟩
    rw [hits]
    simpa [List.getD, List.getElem?_set_ne (Ne.symm hji)] using hj

end CifModel.Store
