import CifModel.Lemmas.StoreWOk
import CifModel.Lemmas.StoreQuiet
/-
  Lemmas/StoreWOkQ — `WOk` = `WTied` (Lemmas/StoreWOk: every CIF Good, every iterator tied, one iterator per CIF) and `Quiet`:
  a CIF on which no iterator is open is in autocommit mode.
-/
namespace CifModel.Store
open Gen.ErrCodes World

def Quiet (w : World) : Prop := ∀ c s, w.liveC c = some s → w.cifBusy c = false → s.autocommit = true

/-- a CIF on which an iterator is open is inside that iterator's transaction -/
def Loud (w : World) : Prop := ∀ c s, w.liveC c = some s → w.cifBusy c = true → ∃ d, s.txn = some d

structure WOk (w : World) : Prop where
  tied : WTied w
  quiet : Quiet w
  loud : Loud w

theorem WOk.good {w : World} (h : WOk w) : WGood w := h.tied.good
theorem WOk.iters {w : World} (h : WOk w) : Iters w := h.tied.iters
theorem WOk.one {w : World} (h : WOk w) : OneIter w := h.tied.one

theorem WOk.empty : WOk {} := ⟨WTied.empty, (fun c s hs => by simp [liveC, List.getD] at hs), (fun c s hs => by simp [liveC, List.getD] at hs)⟩

theorem busy_of_entry {w : World} {i : Nat} {e : ITE} (hi : w.its.getD i none = some e) : w.cifBusy e.cif = true := by
  cases hb : w.cifBusy e.cif with
  | true => rfl
  | false => exact absurd rfl (cifBusy_false hb i e hi)

theorem entry_of_busy {w : World} {c : Nat} (hb : w.cifBusy c = true) : ∃ i e, w.its.getD i none = some e ∧ e.cif = c := by
  unfold cifBusy at hb
  obtain ⟨x, hx, hk⟩ := List.any_eq_true.mp hb
  cases x with
  | none => simp at hk
  | some e =>
    obtain ⟨i, hi, hget⟩ := List.getElem_of_mem hx
    refine ⟨i, e, ?_, by simpa using hk⟩
    simp [List.getD, hi, hget]

/-- the busy CIFs of `w'` are busy in `w` as soon as every entry of `w` (with that CIF) has a counterpart in `w'` -/
theorem busy_mono {w w' : World} (c : Nat) (h : ∀ i e, w.its.getD i none = some e → e.cif = c → ∃ j e', w'.its.getD j none = some e' ∧ e'.cif = c)
    (hb : w'.cifBusy c = false) : w.cifBusy c = false := by
  cases hw : w.cifBusy c with
  | false => rfl
  | true =>
    obtain ⟨i, e, hi, hc⟩ := entry_of_busy hw
    obtain ⟨j, e', hj, hc'⟩ := h i e hi hc
    have := busy_of_entry hj
    rw [hc', hb] at this; cases this

theorem Quiet.same {w w' : World} (h : Quiet w) (hits : w'.its = w.its) (hcifs : w'.cifs = w.cifs) : Quiet w' := by
  intro c s hs hb
  have h1 : w.liveC c = some s := by unfold liveC at hs ⊢; rw [← hcifs]; exact hs
  have h2 : w.cifBusy c = false := by unfold cifBusy at hb ⊢; rw [← hits]; exact hb
  exact h c s h1 h2

theorem Quiet.setFree {w w' : World} (h : Quiet w) (c : Nat) (s1 : Store) (hq : s1.autocommit = true)
    (hits : w'.its = w.its) (hcifs : w'.cifs = w.cifs.set c (some s1)) : Quiet w' := by
  intro c' s hs hb
  have h2 : w.cifBusy c' = false := by unfold cifBusy at hb ⊢; rw [← hits]; exact hb
  unfold liveC at hs
  rw [hcifs] at hs
  rcases getD_set_cases _ _ _ _ _ hs with ⟨_, h1⟩ | ⟨_, h1⟩
  · cases h1; exact hq
  · exact h c' s h1 h2


theorem Loud.same {w w' : World} (h : Loud w) (hits : w'.its = w.its) (hcifs : w'.cifs = w.cifs) : Loud w' := by
  intro c s hs hb
  have h1 : w.liveC c = some s := by unfold liveC at hs ⊢; rw [← hcifs]; exact hs
  have h2 : w.cifBusy c = true := by unfold cifBusy at hb ⊢; rw [← hits]; exact hb
  exact h c s h1 h2

/-- the busy CIFs keep their stores -/
theorem Loud.frame {w w' : World} (h : Loud w) (hb : ∀ c, w'.cifBusy c = true → w.cifBusy c = true)
    (hc : ∀ c s, w'.liveC c = some s → w'.cifBusy c = true → w.liveC c = some s) : Loud w' :=
  fun c s hs hbusy => h c s (hc c s hs hbusy) (hb c hbusy)

theorem busy_of_its {w w' : World} (hits : w'.its = w.its) (c : Nat) : w'.cifBusy c = w.cifBusy c := by unfold cifBusy; rw [hits]

theorem getPackets_txn (s s2 : Store) (l : LH) (it : Iter) (h : getPackets s l = (s2, .ok it)) : ∃ d, s2.txn = some d := by
  unfold getPackets at h
  split at h
  · cases h
  · split at h
    · cases h
    · rename_i s2' hb
      obtain ⟨_, hs2⟩ := begin_autocommit _ s2' hb
      split at h
      · cases h
      · simp only [Prod.mk.injEq, Except.ok.injEq] at h
        rw [← h.1, hs2]; exact ⟨_, rfl⟩

theorem WOk.same {w w' : World} (h : WOk w) (hits : w'.its = w.its) (hcifs : w'.cifs = w.cifs) : WOk w' :=
  ⟨h.tied.same hits hcifs, h.quiet.same hits hcifs, h.loud.same hits hcifs⟩

theorem WOk.setFree {w w' : World} (h : WOk w) (c : Nat) (s1 : Store) (hg : GoodS s1) (hq : s1.autocommit = true) (hb : w.cifBusy c = false)
    (hits : w'.its = w.its) (hcifs : w'.cifs = w.cifs.set c (some s1)) : WOk w' :=
  ⟨h.tied.setFree c s1 hg hb hits hcifs, h.quiet.setFree c s1 hq hits hcifs,
   h.loud.frame (fun c' hb' => by rw [busy_of_its hits] at hb'; exact hb') (fun c' s' hs' hb' => by
     rw [busy_of_its hits] at hb'
     have hne : c' ≠ c := by intro e; subst e; rw [hb] at hb'; cases hb'
     unfold liveC at hs' ⊢
     rw [hcifs, getD_set_ne' _ _ _ _ hne] at hs'; exact hs')⟩

/-- the store of a CIF without open iterator is in autocommit mode -/
theorem WOk.autocommit {w : World} (h : WOk w) {c : Nat} {s : Store} (hs : w.liveC c = some s) (hb : w.cifBusy c = false) :
    s.autocommit = true := h.quiet c s hs hb

theorem WOk.cifNew_tq {w w' : World} (h : WOk w) (hits : w'.its = w.its) (hcifs : w'.cifs = w.cifs ++ [some ({} : Store)]) : WTied w' ∧ Quiet w' := by
  refine ⟨h.tied.cifNew hits hcifs, ?_⟩
  intro c s hs hb
  have h2 : w.cifBusy c = false := by unfold cifBusy at hb ⊢; rw [← hits]; exact hb
  unfold liveC at hs
  rw [hcifs] at hs
  rcases getD_append_cases _ _ _ _ hs with ⟨_, h1⟩ | ⟨_, h1⟩
  · exact h.quiet c s h1 h2
  · cases h1; rfl

theorem WOk.cifDel_tq {w w' : World} (h : WOk w) (c : Nat) (hb : w.cifBusy c = false)
    (hits : w'.its = w.its.map (fun e => match e with | some e => if e.cif == c then none else some e | none => none))
    (hcifs : w'.cifs = w.cifs.set c none) : WTied w' ∧ Quiet w' := by
  refine ⟨h.tied.cifDel c hb hits hcifs, ?_⟩
  -- no entry is removed: the CIF has no open iterator
  have hsame : w'.its = w.its := by
    rw [hits]
    have : ∀ x ∈ w.its, (match x with | some e => if e.cif == c then none else some e | none => none) = x := by
      intro x hx
      cases x with
      | none => rfl
      | some e =>
        obtain ⟨i, hi, hget⟩ := List.getElem_of_mem hx
        have hne := cifBusy_false hb i e (by simp [List.getD, hi, hget])
        simp [hne]
    calc w.its.map _ = w.its.map id := List.map_congr_left this
      _ = w.its := List.map_id _
  intro c' s hs hb'
  have h2 : w.cifBusy c' = false := by unfold cifBusy at hb' ⊢; rw [← hsame]; exact hb'
  unfold liveC at hs
  rw [hcifs] at hs
  rcases getD_set_cases _ _ _ _ _ hs with ⟨_, h1⟩ | ⟨_, h1⟩
  · cases h1
  · exact h.quiet c' s h1 h2

theorem WOk.itNone_tq {w w' : World} (h : WOk w) (hits : w'.its = w.its ++ [none]) (hcifs : w'.cifs = w.cifs) : WTied w' ∧ Quiet w' := by
  refine ⟨h.tied.itNone hits hcifs, ?_⟩
  intro c s hs hb
  have h1 : w.liveC c = some s := by unfold liveC at hs ⊢; rw [← hcifs]; exact hs
  refine h.quiet c s h1 (busy_mono c ?_ hb)
  intro i e hi _
  refine ⟨i, e, ?_, by assumption⟩
  rw [hits]
  have := getD_some_lt _ _ _ hi
  simpa [List.getD, List.getElem?_append_left this] using hi

theorem WOk.itOpen_tq {w w' : World} (h : WOk w) (l : Nat) (e : LHE) (s : Store) (hl : w.liveL l = some (e, s))
    (hb : w.cifBusy e.cif = false) (hv : e.h.validB s.db = true)
    (hits : w'.its = w.its ++ [match (getPackets s e.h).2 with | .ok it => some { cif := e.cif, lh := l, it := it } | .error _ => none])
    (hcifs : w'.cifs = w.cifs.set e.cif (some (getPackets s e.h).1)) : WTied w' ∧ Quiet w' := by
  refine ⟨h.tied.itOpen l e s hl hb hv hits hcifs, ?_⟩
  have hs := liveL_liveC hl
  have hold : ∀ c', w'.cifBusy c' = false → w.cifBusy c' = false := by
    intro c' hb'
    refine busy_mono c' ?_ hb'
    intro i e' hi hc
    refine ⟨i, e', ?_, hc⟩
    rw [hits]
    have := getD_some_lt _ _ _ hi
    simpa [List.getD, List.getElem?_append_left this] using hi
  intro c' s' hs' hb'
  unfold liveC at hs'
  rw [hcifs] at hs'
  rcases getD_set_cases _ _ _ _ _ hs' with ⟨hc, h1⟩ | ⟨_, h1⟩
  · cases h1
    subst hc
    -- the call delivered no iterator (else the CIF would be busy now)
    cases hr : (getPackets s e.h).2 with
    | error c => exact getPackets_autocommit s e.h (h.quiet _ s hs hb) c hr
    | ok it =>
      exfalso
      have : w'.its.getD w.its.length none = some { cif := e.cif, lh := l, it := it } := by
        rw [hits, hr]; simp [List.getD]
      have := busy_of_entry this
      simp only [] at this
      rw [hb'] at this; cases this
  · exact h.quiet c' s' h1 (hold c' hb')

theorem WOk.itNext_tq {w w' : World} (h : WOk w) (i : Nat) (e : ITE) (s : Store) (hl : w.liveI i = some (e, s))
    (hits : w'.its = w.its.set i (some { e with it := (nextPacket s e.it).1 })) (hcifs : w'.cifs = w.cifs) : WTied w' ∧ Quiet w' := by
  refine ⟨h.tied.itNext i e s hl hits hcifs, ?_⟩
  have hi := liveI_its hl
  intro c s' hs' hb'
  have h1 : w.liveC c = some s' := by unfold liveC at hs' ⊢; rw [← hcifs]; exact hs'
  refine h.quiet c s' h1 (busy_mono c ?_ hb')
  intro j e' hj hc
  by_cases hji : j = i
  · subst hji
    rw [hi] at hj; cases hj
    refine ⟨j, { e with it := (nextPacket s e.it).1 }, ?_, hc⟩
    rw [hits]
    have := getD_some_lt _ _ _ hi
    simp [List.getD, this]
  · refine ⟨j, e', ?_, hc⟩
    rw [hits]
    simpa [List.getD, List.getElem?_set_ne (Ne.symm hji)] using hj

theorem WOk.itUpd_tq {w w' : World} (h : WOk w) (i : Nat) (e : ITE) (s : Store) (p : List (Str × V)) (hl : w.liveI i = some (e, s))
    (hits : w'.its = w.its) (hcifs : w'.cifs = w.cifs.set e.cif (some (updatePacket s e.it p).1)) : WTied w' ∧ Quiet w' := by
  refine ⟨h.tied.itUpd i e s p hl hits hcifs, ?_⟩
  have hi := liveI_its hl
  intro c s' hs' hb'
  have h2 : w.cifBusy c = false := by unfold cifBusy at hb' ⊢; rw [← hits]; exact hb'
  unfold liveC at hs'
  rw [hcifs] at hs'
  rcases getD_set_cases _ _ _ _ _ hs' with ⟨hc, _⟩ | ⟨_, h1⟩
  · subst hc
    have := busy_of_entry hi
    rw [h2] at this; cases this
  · exact h.quiet c s' h1 h2

theorem WOk.itRem_tq {w w' : World} (h : WOk w) (i : Nat) (e : ITE) (s : Store) (hl : w.liveI i = some (e, s))
    (hits : w'.its = w.its.set i (some { e with it := (removePacket s e.it).2.1 }))
    (hcifs : w'.cifs = w.cifs.set e.cif (some (removePacket s e.it).1)) : WTied w' ∧ Quiet w' := by
  refine ⟨h.tied.itRem i e s hl hits hcifs, ?_⟩
  have hi := liveI_its hl
  have hmono : ∀ c, w'.cifBusy c = false → w.cifBusy c = false := by
    intro c hb'
    refine busy_mono c ?_ hb'
    intro j e' hj hc
    by_cases hji : j = i
    · subst hji
      rw [hi] at hj; cases hj
      refine ⟨j, { e with it := (removePacket s e.it).2.1 }, ?_, hc⟩
      rw [hits]
      have := getD_some_lt _ _ _ hi
      simp [List.getD, this]
    · refine ⟨j, e', ?_, hc⟩
      rw [hits]
      simpa [List.getD, List.getElem?_set_ne (Ne.symm hji)] using hj
  intro c s' hs' hb'
  have h2 := hmono c hb'
  unfold liveC at hs'
  rw [hcifs] at hs'
  rcases getD_set_cases _ _ _ _ _ hs' with ⟨hc, _⟩ | ⟨_, h1⟩
  · subst hc
    have := busy_of_entry hi
    rw [h2] at this; cases this
  · exact h.quiet c s' h1 h2

theorem WOk.itEnd_tq {w w' : World} (h : WOk w) (i : Nat) (e : ITE) (s s1 : Store) (hl : w.liveI i = some (e, s)) (hg : GoodS s1)
    (hq : s1.autocommit = true) (hits : w'.its = w.its.set i none) (hcifs : w'.cifs = w.cifs.set e.cif (some s1)) : WTied w' ∧ Quiet w' := by
  refine ⟨h.tied.itEnd i e s s1 hl hg hits hcifs, ?_⟩
  have hi := liveI_its hl
  intro c s' hs' hb'
  unfold liveC at hs'
  rw [hcifs] at hs'
  rcases getD_set_cases _ _ _ _ _ hs' with ⟨_, h1⟩ | ⟨hne, h1⟩
  · cases h1; exact hq
  · refine h.quiet c s' h1 (busy_mono c ?_ hb')
    intro j e' hj hc
    have hji : j ≠ i := by
      intro hji; subst hji
      rw [hi] at hj; cases hj
      exact hne hc.symm
    refine ⟨j, e', ?_, hc⟩
    rw [hits]
    simpa [List.getD, List.getElem?_set_ne (Ne.symm hji)] using hj


-- ---- Loud through the ops that touch the iterator table ---------------------------------------------------------------------------------

theorem entry_lt {w : World} (h : WOk w) {i : Nat} {e : ITE} (hi : w.its.getD i none = some e) : e.cif < w.cifs.length := by
  obtain ⟨s, hs, _⟩ := h.iters i e hi
  exact getD_some_lt _ _ _ hs

theorem WOk.cifNew {w w' : World} (h : WOk w) (hits : w'.its = w.its) (hcifs : w'.cifs = w.cifs ++ [some ({} : Store)]) : WOk w' := by
  obtain ⟨ht, hq⟩ := h.cifNew_tq hits hcifs
  refine ⟨ht, hq, h.loud.frame (fun c hb => by rw [busy_of_its hits] at hb; exact hb) ?_⟩
  intro c s hs hb
  rw [busy_of_its hits] at hb
  obtain ⟨i, e, hi, hc⟩ := entry_of_busy hb
  have hlt := entry_lt h hi
  unfold liveC at hs ⊢
  rw [hcifs] at hs
  rcases getD_append_cases _ _ _ _ hs with ⟨_, h1⟩ | ⟨h0, _⟩
  · exact h1
  · omega

theorem WOk.cifDel {w w' : World} (h : WOk w) (c : Nat) (hb : w.cifBusy c = false)
    (hits : w'.its = w.its.map (fun e => match e with | some e => if e.cif == c then none else some e | none => none))
    (hcifs : w'.cifs = w.cifs.set c none) : WOk w' := by
  obtain ⟨ht, hq⟩ := h.cifDel_tq c hb hits hcifs
  have hsame : w'.its = w.its := by
    rw [hits]
    have : ∀ x ∈ w.its, (match x with | some e => if e.cif == c then none else some e | none => none) = x := by
      intro x hx
      cases x with
      | none => rfl
      | some e =>
        obtain ⟨i, hi, hget⟩ := List.getElem_of_mem hx
        have hne := cifBusy_false hb i e (by simp [List.getD, hi, hget])
        simp [hne]
    calc w.its.map _ = w.its.map id := List.map_congr_left this
      _ = w.its := List.map_id _
  refine ⟨ht, hq, h.loud.frame (fun c' hb' => by rw [busy_of_its hsame] at hb'; exact hb') ?_⟩
  intro c' s hs hb'
  unfold liveC at hs ⊢
  rw [hcifs] at hs
  rcases getD_set_cases _ _ _ _ _ hs with ⟨_, h1⟩ | ⟨_, h1⟩
  · cases h1
  · exact h1

theorem busy_append_none {w w' : World} (hits : w'.its = w.its ++ [none]) (c : Nat) : w'.cifBusy c = w.cifBusy c := by
  unfold cifBusy; rw [hits, List.any_append]; simp

theorem WOk.itNone {w w' : World} (h : WOk w) (hits : w'.its = w.its ++ [none]) (hcifs : w'.cifs = w.cifs) : WOk w' := by
  obtain ⟨ht, hq⟩ := h.itNone_tq hits hcifs
  refine ⟨ht, hq, h.loud.frame (fun c hb => by rw [busy_append_none hits] at hb; exact hb) ?_⟩
  intro c s hs _
  unfold liveC at hs ⊢; rw [hcifs] at hs; exact hs

theorem WOk.itOpen {w w' : World} (h : WOk w) (l : Nat) (e : LHE) (s : Store) (hl : w.liveL l = some (e, s))
    (hb : w.cifBusy e.cif = false) (hv : e.h.validB s.db = true)
    (hits : w'.its = w.its ++ [match (getPackets s e.h).2 with | .ok it => some { cif := e.cif, lh := l, it := it } | .error _ => none])
    (hcifs : w'.cifs = w.cifs.set e.cif (some (getPackets s e.h).1)) : WOk w' := by
  obtain ⟨ht, hq⟩ := h.itOpen_tq l e s hl hb hv hits hcifs
  refine ⟨ht, hq, ?_⟩
  intro c s' hs' hb'
  unfold liveC at hs'
  rw [hcifs] at hs'
  rcases getD_set_cases _ _ _ _ _ hs' with ⟨hc, h1⟩ | ⟨hne, h1⟩
  · cases h1
    cases hr : (getPackets s e.h).2 with
    | ok it => exact getPackets_txn s _ e.h it (by rw [← hr])
    | error cc =>
      exfalso
      have : w'.its = w.its ++ [none] := by rw [hits, hr]
      rw [busy_append_none this, hc, hb] at hb'; cases hb'
  · refine h.loud c s' h1 ?_
    obtain ⟨i, e', hi, hce⟩ := entry_of_busy hb'
    rw [hits] at hi
    rcases getD_append_cases _ _ _ _ hi with ⟨_, h2⟩ | ⟨_, h2⟩
    · rw [← hce]; exact busy_of_entry h2
    · exfalso
      cases hr : (getPackets s e.h).2 with
      | ok it => rw [hr] at h2; simp only [Option.some.injEq] at h2; subst h2; exact hne hce.symm
      | error cc => rw [hr] at h2; cases h2

theorem busy_set_same {w w' : World} (i : Nat) (e e' : ITE) (hi : w.its.getD i none = some e) (hc : e'.cif = e.cif)
    (hits : w'.its = w.its.set i (some e')) (c : Nat) (hb : w'.cifBusy c = true) : w.cifBusy c = true := by
  obtain ⟨j, e2, hj, hce⟩ := entry_of_busy hb
  rw [hits] at hj
  rcases getD_set_cases _ _ _ _ _ hj with ⟨_, h1⟩ | ⟨_, h1⟩
  · simp only [Option.some.injEq] at h1; subst h1
    rw [← hce, hc]; exact busy_of_entry hi
  · rw [← hce]; exact busy_of_entry h1

theorem WOk.itNext {w w' : World} (h : WOk w) (i : Nat) (e : ITE) (s : Store) (hl : w.liveI i = some (e, s))
    (hits : w'.its = w.its.set i (some { e with it := (nextPacket s e.it).1 })) (hcifs : w'.cifs = w.cifs) : WOk w' := by
  obtain ⟨ht, hq⟩ := h.itNext_tq i e s hl hits hcifs
  refine ⟨ht, hq, h.loud.frame (fun c hb => busy_set_same i e { e with it := (nextPacket s e.it).1 } (liveI_its hl) rfl hits c hb) ?_⟩
  intro c s' hs' _
  unfold liveC at hs' ⊢; rw [hcifs] at hs'; exact hs'

theorem WOk.itUpd {w w' : World} (h : WOk w) (i : Nat) (e : ITE) (s : Store) (p : List (Str × V)) (hl : w.liveI i = some (e, s))
    (hits : w'.its = w.its) (hcifs : w'.cifs = w.cifs.set e.cif (some (updatePacket s e.it p).1)) : WOk w' := by
  obtain ⟨ht, hq⟩ := h.itUpd_tq i e s p hl hits hcifs
  refine ⟨ht, hq, ?_⟩
  intro c s' hs' hb'
  rw [busy_of_its hits] at hb'
  unfold liveC at hs'
  rw [hcifs] at hs'
  rcases getD_set_cases _ _ _ _ _ hs' with ⟨hc, h1⟩ | ⟨_, h1⟩
  · cases h1
    rw [updatePacket_txn]
    exact h.loud e.cif s (liveI_liveC hl) (busy_of_entry (liveI_its hl))
  · exact h.loud c s' h1 hb'

theorem WOk.itRem {w w' : World} (h : WOk w) (i : Nat) (e : ITE) (s : Store) (hl : w.liveI i = some (e, s))
    (hits : w'.its = w.its.set i (some { e with it := (removePacket s e.it).2.1 }))
    (hcifs : w'.cifs = w.cifs.set e.cif (some (removePacket s e.it).1)) : WOk w' := by
  obtain ⟨ht, hq⟩ := h.itRem_tq i e s hl hits hcifs
  refine ⟨ht, hq, ?_⟩
  intro c s' hs' hb'
  have hb := busy_set_same i e { e with it := (removePacket s e.it).2.1 } (liveI_its hl) rfl hits c hb'
  unfold liveC at hs'
  rw [hcifs] at hs'
  rcases getD_set_cases _ _ _ _ _ hs' with ⟨hc, h1⟩ | ⟨_, h1⟩
  · cases h1
    rw [removePacket_txn]
    exact h.loud e.cif s (liveI_liveC hl) (busy_of_entry (liveI_its hl))
  · exact h.loud c s' h1 hb

theorem WOk.itEnd {w w' : World} (h : WOk w) (i : Nat) (e : ITE) (s s1 : Store) (hl : w.liveI i = some (e, s)) (hg : GoodS s1)
    (hq1 : s1.autocommit = true) (hits : w'.its = w.its.set i none) (hcifs : w'.cifs = w.cifs.set e.cif (some s1)) : WOk w' := by
  obtain ⟨ht, hq⟩ := h.itEnd_tq i e s s1 hl hg hq1 hits hcifs
  have hi := liveI_its hl
  refine ⟨ht, hq, ?_⟩
  intro c s' hs' hb'
  obtain ⟨j, e2, hj, hce⟩ := entry_of_busy hb'
  rw [hits] at hj
  rcases getD_set_cases _ _ _ _ _ hj with ⟨_, h1⟩ | ⟨hji, h1⟩
  · cases h1
  · have hne : c ≠ e.cif := by
      intro hc
      exact hji (h.one j i e2 e h1 hi (by rw [hce, hc]))
    unfold liveC at hs'
    rw [hcifs, getD_set_ne' _ _ _ _ hne] at hs'
    exact h.loud c s' hs' (by rw [← hce]; exact busy_of_entry h1)

/-- cif_loop_get_packets inside a transaction: refused, database and transaction as they were -/
theorem getPackets_refused (s : Store) (l : LH) (d : Db) (ht : s.txn = some d) :
    (∃ c, (getPackets s l).2 = .error c) ∧ (getPackets s l).1.txn = s.txn ∧ (getPackets s l).1.db = s.db := by
  have hsame := getNames_same s l
  have hna : ∀ s1 : Store, s1.txn = s.txn → s1.begin = none := by
    intro s1 h1
    unfold Store.begin
    have : s1.autocommit = false := by simp [Store.autocommit, h1, ht]
    simp [this]
  unfold getPackets
  split
  · rename_i s1 c hg
    rw [hg] at hsame
    exact ⟨⟨c, rfl⟩, hsame.2.1, hsame.1⟩
  · rename_i s1 ns hg
    rw [hg] at hsame
    rw [hna s1 hsame.2.1]
    exact ⟨⟨_, rfl⟩, hsame.2.1, hsame.1⟩

/-- a second cif_loop_get_packets while an iterator is open on the CIF: refused (no iterator is delivered), the open iterator and its
    transaction are untouched — one iterator at a time per CIF -/
theorem WOk.itOpenBusy {w w' : World} (h : WOk w) (l : Nat) (e : LHE) (s : Store) (hl : w.liveL l = some (e, s))
    (hb : w.cifBusy e.cif = true)
    (hits : w'.its = w.its ++ [match (getPackets s e.h).2 with | .ok it => some { cif := e.cif, lh := l, it := it } | .error _ => none])
    (hcifs : w'.cifs = w.cifs.set e.cif (some (getPackets s e.h).1)) :
    WOk w' ∧ ∃ c, (getPackets s e.h).2 = .error c := by
  have hs := liveL_liveC hl
  obtain ⟨d, ht⟩ := h.loud e.cif s hs hb
  obtain ⟨⟨c, hc⟩, htx, hdb⟩ := getPackets_refused s e.h d ht
  refine ⟨?_, c, hc⟩
  have hits' : w'.its = w.its ++ [none] := by rw [hits, hc]
  have hentry : ∀ i e', w'.its.getD i none = some e' → w.its.getD i none = some e' := by
    intro i e' hi
    rw [hits'] at hi
    rcases getD_append_cases _ _ _ _ hi with ⟨_, h1⟩ | ⟨_, h1⟩
    · exact h1
    · cases h1
  have hlive : ∀ c' s', w'.liveC c' = some s' → (c' = e.cif ∧ s' = (getPackets s e.h).1) ∨ (c' ≠ e.cif ∧ w.liveC c' = some s') := by
    intro c' s' hs'
    unfold liveC at hs'
    rw [hcifs] at hs'
    rcases getD_set_cases _ _ _ _ _ hs' with ⟨h1, h2⟩ | ⟨h1, h2⟩
    · cases h2; exact Or.inl ⟨h1, rfl⟩
    · exact Or.inr ⟨h1, h2⟩
  refine ⟨⟨?_, ?_, ?_⟩, ?_, ?_⟩
  · exact (h.good.setCif e.cif _ (getPackets_goodS (h.good.live hs) e.h)).of_cifs (by rw [hcifs]; rfl)
  · intro i e' hi
    obtain ⟨s', hs', hok⟩ := h.iters i e' (hentry i e' hi)
    by_cases hce : e'.cif = e.cif
    · rw [hce, hs] at hs'; cases hs'
      refine ⟨(getPackets s e.h).1, ?_, by rw [hdb]; exact hok⟩
      unfold liveC; rw [hcifs, hce]; exact liveC_set_self w e.cif s _ hs
    · refine ⟨s', ?_, hok⟩
      unfold liveC at hs' ⊢
      rw [hcifs, getD_set_ne' _ _ _ _ hce]; exact hs'
  · intro i j e1 e2 h1 h2
    exact h.one i j e1 e2 (hentry i e1 h1) (hentry j e2 h2)
  · intro c' s' hs' hb'
    rw [busy_append_none hits'] at hb'
    rcases hlive c' s' hs' with ⟨h1, _⟩ | ⟨_, h2⟩
    · rw [h1, hb] at hb'; cases hb'
    · exact h.quiet c' s' h2 hb'
  · intro c' s' hs' hb'
    rw [busy_append_none hits'] at hb'
    rcases hlive c' s' hs' with ⟨_, h2⟩ | ⟨_, h2⟩
    · rw [h2, htx]; exact ⟨d, ht⟩
    · exact h.loud c' s' h2 hb'

end CifModel.Store
