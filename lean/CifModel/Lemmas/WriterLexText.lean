import CifModel.Lemmas.WriterLex
import CifModel.Lemmas.WriterPure
/-
  The text-field presentation: the body `write_text` produces is an admissible text-field body of the lexical grammar
  (no line of it begins with a semicolon), consists of well-formed allowed characters, and has no over-long line.
-/
namespace CifModel.Lemmas.WriterLexText
open CifModel.Model CifModel.Model.Writer
open CifModel.Spec.Lexical
open CifModel.Lemmas.WriterLex

abbrev lexTextBody := Spec.Lexical.textBody

/-! ### (i) no line of the body begins with a semicolon -/

theorem textBody_of_no_semi (b : Str) (h : (59 : CU) ∉ b) : ∀ atBol, lexTextBody atBol b = true := by
  induction b with
  | nil => intro _; rfl
  | cons c r ih =>
    intro atBol
    have hc : (c == 59) = false := by
      simp only [beq_eq_false_iff_ne, ne_eq]; intro e; exact h (e ▸ List.mem_cons_self)
    simp only [lexTextBody, Spec.Lexical.textBody, hc, Bool.and_false, Bool.not_false, Bool.true_and]
    exact ih (fun hm => h (List.mem_cons_of_mem _ hm)) _

/-- inside a line nothing is checked -/
theorem textBody_skip (r t : Str) (h : (10 : CU) ∉ r) : lexTextBody false (r ++ t) = lexTextBody false t := by
  induction r with
  | nil => rfl
  | cons c r ih =>
    have hc : isEol c = false := by
      simp only [isEol, beq_eq_false_iff_ne, ne_eq]; intro e; exact h (e ▸ List.mem_cons_self)
    simp only [List.cons_append, lexTextBody, Spec.Lexical.textBody, Bool.false_and, Bool.not_false, Bool.true_and, hc]
    exact ih (fun hm => h (List.mem_cons_of_mem _ hm))

/-- physical lines none of which begins with a semicolon -/
theorem textBody_flat : ∀ (P : List Str), (∀ p ∈ P, (10 : CU) ∉ p ∧ p.head? ≠ some 59) →
    ∀ atBol, lexTextBody atBol (flat P) = true := by
  intro P
  induction P with
  | nil => intro _ _; rfl
  | cons p ps ih =>
    intro h atBol
    have hp := h p List.mem_cons_self
    have ihp := ih (fun x hx => h x (List.mem_cons_of_mem _ hx))
    simp only [flat, lexTextBody, Spec.Lexical.textBody, isEol, beq_self_eq_true]
    have h10 : ((10 : CU) == 59) = false := by decide
    simp only [h10, Bool.and_false, Bool.not_false, Bool.true_and]
    cases p with
    | nil => exact ihp true
    | cons c r =>
      have hc : (c == 59) = false := by
        simp only [beq_eq_false_iff_ne, ne_eq]; intro e; apply hp.2; simp [e]
      have hce : isEol c = false := by
        simp only [isEol, beq_eq_false_iff_ne, ne_eq]; intro e; exact hp.1 (e ▸ List.mem_cons_self)
      simp only [List.cons_append, Spec.Lexical.textBody, hc, Bool.and_false, Bool.not_false, Bool.true_and, hce]
      have := textBody_skip r (flat ps) (fun hm => hp.1 (List.mem_cons_of_mem _ hm))
      simp only [lexTextBody] at this
      rw [this]
      exact ihp false

/-- with the prefix protocol every non-empty physical line begins with `>` -/
theorem segLines_heads (fold protect : Bool) (target : Nat) :
    ∀ (fuel : Nat) (tok : Str) (ps : List Str), segLines fold true protect target fuel tok = .ok ps →
      ∀ p ∈ ps, p.head? = some 62 := by
  intro fuel
  induction fuel with
  | zero => intro tok ps h p hp; simp [segLines] at h; subst h; simp at hp
  | succ f ih =>
    intro tok ps h p hp
    cases tok with
    | nil => simp [segLines] at h; subst h; simp at hp
    | cons c cs =>
      simp only [segLines] at h
      split at h
      · cases h
      · cases hr : segLines fold true protect target f ((c :: cs).drop (foldLine (c :: cs) fold target WINDOW true)) with
        | error e => simp [hr] at h
        | ok rest =>
          simp only [hr] at h
          cases h
          rcases List.mem_cons.mp hp with h1 | h1
          · subst h1; simp [PREFIX]
          · exact ih _ rest hr p h1

theorem textPhys_heads (fold : Bool) (target : Nat) :
    ∀ (ls : List Str) (Q : List Str), textPhys fold true target ls = .ok Q → ∀ p ∈ Q, p.head? ≠ some 59 := by
  intro ls
  induction ls with
  | nil => intro Q h p hp; simp [textPhys] at h; subst h; simp at hp
  | cons l rest ih =>
    intro Q h p hp
    simp only [textPhys] at h
    cases h1 : logicalLinePhys fold true target l with
    | error e => simp [h1] at h
    | ok ps =>
      cases h2 : textPhys fold true target rest with
      | error e => simp [h1, h2] at h
      | ok qs =>
        simp only [h1, h2] at h
        cases h
        rcases List.mem_append.mp hp with h3 | h3
        · cases l with
          | nil => simp [logicalLinePhys] at h1; subst h1; simp at h3; subst h3; simp
          | cons c cs =>
            simp only [logicalLinePhys, List.length_cons] at h1
            cases hs : segLines fold true (fold && endsBslBlank (c :: cs)) target (cs.length + 1) (c :: cs) with
            | error e => simp [hs] at h1
            | ok ss =>
              simp only [hs] at h1
              cases h1
              rcases List.mem_append.mp h3 with h4 | h4
              · rw [segLines_heads _ _ _ _ _ _ hs p h4]; simp
              · split at h4
                · simp at h4; subst h4; simp
                · simp at h4
        · exact ih qs h2 p h3

/-- a CR-free text none of whose lines after the first begins with a semicolon -/
theorem textBody_of_lines : ∀ (s : Str) (b : Bool), (13 : CU) ∉ s → (Spec.splitLines s).tail.any Spec.startsSemi = false →
    (b = true → ((Spec.splitLines s).headD []).head? ≠ some 59) → lexTextBody b s = true := by
  intro s
  induction s with
  | nil => intro _ _ _ _; rfl
  | cons c rest ih =>
    intro b h13 htail hhead
    have hc13 : c ≠ 13 := fun e => h13 (e ▸ List.mem_cons_self)
    have hrest : (13 : CU) ∉ rest := fun e => h13 (List.mem_cons_of_mem _ e)
    have hne := Lemmas.Analyze.splitLines_ne_nil rest
    cases hs : Spec.splitLines rest with
    | nil => exact absurd hs hne
    | cons l0 ls =>
      by_cases hc : c = 10
      · subst hc
        rw [Lemmas.Analyze.splitLines_cons_lf, hs] at htail
        simp only [List.tail_cons, List.any_cons, Bool.or_eq_false_iff] at htail
        simp only [lexTextBody, Spec.Lexical.textBody, isEol, beq_self_eq_true]
        have h10 : ((10 : CU) == 59) = false := by decide
        simp only [h10, Bool.and_false, Bool.not_false, Bool.true_and]
        apply ih true hrest
        · rw [hs]; exact htail.2
        · intro _
          rw [hs]
          simp only [List.headD_cons]
          have := htail.1
          simp only [Spec.startsSemi, beq_eq_false_iff_ne, ne_eq] at this
          exact this
      · have hsl : Spec.splitLines (c :: rest) = Spec.consHead c (Spec.splitLines rest) := by
          simp [Spec.splitLines, hc, hc13]
        rw [hsl, hs] at htail hhead
        simp only [Spec.consHead, List.tail_cons, List.headD_cons, List.head?_cons] at htail hhead
        have hce : isEol c = false := by simp [isEol, hc]
        simp only [lexTextBody, Spec.Lexical.textBody, hce]
        have h1 : (!(b && c == 59)) = true := by
          cases b with
          | false => simp
          | true =>
            have := hhead rfl
            simp only [ne_eq, Option.some.injEq] at this
            simp [this]
        rw [h1, Bool.true_and]
        apply ih false hrest
        · rw [hs]; exact htail
        · intro e; cases e

/-- (i) the body `write_text` produces has no line that begins with a semicolon — under the conditions `write_char`
    establishes: prefixing, or no semicolon in the text, or (unmarked) no line of the text after the first begins with one -/
theorem body_textBody (s : Str) (fold pre : Bool) (body : Str) (hcr : (13 : CU) ∉ s)
    (h : Writer.textBody s fold pre = .ok body)
    (hcond : pre = true ∨ (59 : CU) ∉ s ∨ (fold = false ∧ pre = false ∧ lexTextBody false s = true)) :
    lexTextBody false body = true := by
  rcases hcond with hp | hsemi | ⟨hf, hp, hs⟩
  · subst hp
    unfold Writer.textBody at h
    simp only [Bool.true_eq_false, and_false, ↓reduceIte] at h
    cases hq : textPhys fold true (targetLength true) (splitLines s) with
    | error e => simp [hq] at h
    | ok Q =>
      simp only [hq] at h
      cases h
      have hsp := Lemmas.WriterText.splitLines_spec s
      have hno : ∀ l ∈ splitLines s, Lemmas.DecodeLines.NoEol l := fun l hl =>
        Lemmas.WriterText.noEol_of_no10_no13 (hsp.1 l hl)
          (fun h13 => hcr (Lemmas.WriterText.splitLines_mem s l hl 13 h13))
      obtain ⟨_, hnoe, _⟩ :=
        Lemmas.WriterText.textPhys_spec fold true (Or.inr rfl) _ (splitLines s) Q (Lemmas.WriterText.splitLines_ne_nil s) hno hq
      have hm : (10 : CU) ∉ textMarker fold true := by cases fold <;> decide
      have := textBody_skip (textMarker fold true) (flat Q) hm
      simp only [lexTextBody] at this ⊢
      rw [this]
      apply textBody_flat Q
      intro p hp
      exact ⟨fun h10 => (hnoe p hp 10 h10).1 rfl, textPhys_heads fold _ _ Q hq p hp⟩
  · apply textBody_of_no_semi
    intro hm
    rcases Lemmas.WriterPure.textBody_mem s fold pre body h 59 hm with h1 | h1
    · exact hsemi h1
    · rcases h1 with h1 | h1 | h1 | h1 <;> cases h1
  · subst hf; subst hp
    simp [Writer.textBody] at h
    subst h
    exact hs

end CifModel.Lemmas.WriterLexText
