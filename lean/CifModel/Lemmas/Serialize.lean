import CifModel.Model.Serialize
import CifModel.Model.Columns
/-
  Lemmas about Model/Serialize: the growth loop terminates, a sequence of writes succeeds and records exactly the
  words written, the deserialiser inverts the serialiser (any depth, any size).
-/
namespace CifModel.Model.Serialize
open CifModel

/-! ### the growth loop -/

/-- one and a half times `w`, in `size_t` arithmetic, is larger than `w` unless it wrapped -/
theorem grow_step_gt (w : Nat) (hw : 2 ≤ w) (h : ¬ (w * 3 % SZ) / 2 < w) : w < (w * 3 % SZ) / 2 := by
  have hle : w * 3 % SZ ≤ w * 3 := Nat.mod_le _ _
  by_cases hlt : w * 3 < SZ
  · rw [Nat.mod_eq_of_lt hlt] at h ⊢
    omega
  · -- wrapped: then (w*3 mod 2^64)/2 < w, contradiction with h
    exfalso
    apply h
    have hmod : w * 3 % SZ < SZ := Nat.mod_lt _ (by decide)
    have : w * 3 % SZ = w * 3 - SZ * (w * 3 / SZ) := by
      have := Nat.div_add_mod (w * 3) SZ
      omega
    have hq : 1 ≤ w * 3 / SZ := (Nat.le_div_iff_mul_le (by decide)).mpr (by omega)
    have : w * 3 % SZ ≤ w * 3 - SZ := by
      have : SZ * 1 ≤ SZ * (w * 3 / SZ) := Nat.mul_le_mul_left _ hq
      omega
    unfold SZ at *
    omega

/-- The loop of `cif_buf_write` as written (with `working_cap = proposed_cap`) terminates for every starting capacity
    ≥ 2 with a proposed capacity that covers the request; `needed - working` iterations suffice. -/
theorem growLoop_terminates (fuel working needed : Nat) (hw : 2 ≤ working) (hf : needed ≤ fuel + working) (hf1 : 1 ≤ fuel) :
    ∃ p, growLoop fuel working needed = some p ∧ needed ≤ p := by
  induction fuel generalizing working with
  | zero => omega
  | succ f ih =>
    unfold growLoop
    simp only []
    by_cases hov : (working * 3 % SZ) / 2 < working
    · -- overflow branch: proposed = needed
      simp only [hov, if_true, Nat.lt_irrefl, if_false]
      exact ⟨needed, rfl, Nat.le_refl _⟩
    · simp only [hov, if_false]
      have hgt := grow_step_gt working hw hov
      by_cases hlt : (working * 3 % SZ) / 2 < needed
      · simp only [hlt, if_true]
        have hf' : 1 ≤ f := by omega
        exact ih ((working * 3 % SZ) / 2) (by omega) (by omega) hf'
      · simp only [hlt, if_false]
        exact ⟨_, rfl, by omega⟩

/-- With the pinned loop (`working_cap` never updated) a request beyond 1.5 × capacity is never satisfied, whatever
    the fuel: the model output is `none` ("diverges") — F28. -/
theorem growLoopPinned_diverges (fuel working needed : Nat) (hno : ¬ (working * 3 % SZ) / 2 < working)
    (h : (working * 3 % SZ) / 2 < needed) : growLoopPinned fuel working needed = none := by
  induction fuel with
  | zero => rfl
  | succ f ih =>
    unfold growLoopPinned
    simp only [hno, if_false, h, if_true]
    exact ih

/-! ### sequences of writes -/

/-- invariant of a buffer under `cif_buf_write`: the block is at least as large as the capacity field says and as what
    has been written; `position = limit` (the serialiser only appends) -/
structure WBuf.Inv (b : WBuf) : Prop where
  cap2 : 2 ≤ b.capacity
  pos_eq : b.position = b.limit
  alloc_cap : b.capacity ≤ b.alloc
  alloc_pos : b.position ≤ b.alloc

theorem bufCreate_inv (cap : Nat) (h : 2 ≤ cap) : (bufCreate cap).Inv :=
  ⟨h, rfl, Nat.le_refl _, Nat.zero_le _⟩

/-- one write that does not overflow `size_t` succeeds, appends the word, advances position and limit by the word's
    width and keeps the invariant (in particular the `memcpy` stays inside the allocated block) -/
theorem bufWrite_ok (b : WBuf) (w : Word) (hb : b.Inv) (hsz : b.position + w.width < SZ) :
    ∃ b', bufWrite SZ b w = .ok b' ∧ b'.Inv ∧ b'.position = b.position + w.width ∧ b'.words = w :: b.words
      ∧ b'.capacity = b.capacity := by
  unfold bufWrite bufWriteWith
  simp only []
  rw [Nat.mod_eq_of_lt hsz]
  have h1 : ¬ b.position + w.width < b.position := by omega
  simp only [h1, if_false]
  by_cases hgrow : b.position + w.width > b.capacity
  · simp only [hgrow, if_true]
    obtain ⟨p, hp, hge⟩ := growLoop_terminates SZ b.capacity (b.position + w.width) hb.cap2 (by omega) (by decide)
    rw [hp]
    refine ⟨_, rfl, ⟨hb.cap2, ?_, ?_, ?_⟩, rfl, rfl, rfl⟩
    · simp only []
      have := hb.pos_eq
      split <;> omega
    · simp only []; omega
    · simp only []; omega
  · simp only [hgrow, if_false]
    refine ⟨_, rfl, ⟨hb.cap2, ?_, hb.alloc_cap, ?_⟩, rfl, rfl, rfl⟩
    · simp only []
      have := hb.pos_eq
      split <;> omega
    · simp only []
      have := hb.alloc_cap
      omega

theorem writeAll_ok (ws : List Word) (b : WBuf) (hb : b.Inv) (hsz : b.position + widthSum ws < SZ) :
    ∃ b', writeAll SZ b ws = .ok b' ∧ b'.Inv ∧ b'.position = b.position + widthSum ws
      ∧ b'.words = ws.reverse ++ b.words := by
  induction ws generalizing b with
  | nil => exact ⟨b, rfl, hb, by simp [widthSum], by simp⟩
  | cons w ws ih =>
    simp only [widthSum] at hsz
    obtain ⟨b1, h1, hinv1, hpos1, hw1, _⟩ := bufWrite_ok b w hb (by omega)
    obtain ⟨b2, h2, hinv2, hpos2, hw2⟩ := ih b1 hinv1 (by omega)
    refine ⟨b2, ?_, hinv2, ?_, ?_⟩
    · unfold writeAll writeAllWith
      unfold bufWrite at h1
      rw [h1]
      exact h2
    · simp only [widthSum]; omega
    · rw [hw2, hw1]; simp

/-- `cif_value_serialize` succeeds on every value whose serialised form is smaller than the address space, and the
    buffer then holds exactly the words of `ser v`, `limit` = their total width -/
theorem serialize_ok (v : V) (hsz : widthSum (ser v) < SZ) :
    ∃ b, serialize v = .ok b ∧ b.contents = ser v ∧ b.limit = widthSum (ser v) ∧ b.limit ≤ b.alloc := by
  obtain ⟨b, h, hinv, hpos, hw⟩ := writeAll_ok (ser v) (bufCreate defaultCap) (bufCreate_inv _ (by decide))
    (by simpa [bufCreate] using hsz)
  refine ⟨b, h, ?_, ?_, ?_⟩
  · simp [WBuf.contents, hw, bufCreate]
  · rw [← hinv.pos_eq, hpos]; simp [bufCreate]
  · rw [← hinv.pos_eq]; exact hinv.alloc_pos

/-! ### round trip -/

mutual
  /-- fuel that suffices for `deser` -/
  def cost : V → Nat
    | .lst vs => 2 + costList vs
    | .tbl es => 2 + costEntries es
    | _ => 1
  def costList : List V → Nat
    | [] => 0
    | v :: vs => 1 + cost v + costList vs
  def costEntries : List (Str × Str × V) → Nat
    | [] => 0
    | (_, _, v) :: es => 1 + cost v + costEntries es
end

theorem deserStr_serStr (s : Str) (rest : List Word) : deserStr (serStr s ++ rest) = some (s, rest) := by
  simp [serStr, deserStr]

theorem deserQuoted_q (q : Bool) (rest : List Word) : deserQuoted (.quoted (qcode q) :: rest) = some (q, rest) := by
  cases q <;> simp [deserQuoted, qcode]

open CifModel.Model.Columns in
mutual
  theorem roundtrip (parse : Str → Option NumbFields) (v : V) (rest : List Word) (fuel : Nat)
      (hp : numbsParse parse v = true) (h : cost v ≤ fuel) :
      deser parse fuel (ser v ++ rest) = some (v, rest) := by
    cases v with
    | unk => cases fuel with
      | zero => simp [cost] at h
      | succ f => simp [ser, deser]
    | na => cases fuel with
      | zero => simp [cost] at h
      | succ f => simp [ser, deser]
    | chr q s => cases fuel with
      | zero => simp [cost] at h
      | succ f =>
        simp only [ser, List.cons_append, List.append_assoc, deser]
        simp [deserStr_serStr, deserQuoted_q]
    | numb q t neg d su sc => cases fuel with
      | zero => simp [cost] at h
      | succ f =>
        have hpt : parse t = some (neg, d, su, sc) := by simpa [numbsParse] using hp
        simp only [ser, List.cons_append, List.append_assoc, deser]
        simp [deserStr_serStr, deserQuoted_q, hpt]
    | lst vs => cases fuel with
      | zero => simp [cost] at h
      | succ f =>
        have := roundtripList parse vs rest f (by simpa [numbsParse] using hp) (by simp [cost] at h; omega)
        simp [ser, deser, this]
    | tbl es => cases fuel with
      | zero => simp [cost] at h
      | succ f =>
        have := roundtripEntries parse es rest f (by simpa [numbsParse] using hp) (by simp [cost] at h; omega)
        simp [ser, deser, this]
  theorem roundtripList (parse : Str → Option NumbFields) (vs : List V) (rest : List Word) (fuel : Nat)
      (hp : numbsParseList parse vs = true) (h : costList vs + 1 ≤ fuel) :
      deserList parse fuel (lenV vs) (serList vs ++ rest) = some (vs, rest) := by
    cases vs with
    | nil => cases fuel with
      | zero => omega
      | succ f => simp [lenV, serList, deserList]
    | cons v vs => cases fuel with
      | zero => omega
      | succ f =>
        simp only [numbsParseList, Bool.and_eq_true] at hp
        have h1 := roundtrip parse v (serList vs ++ rest) f hp.1 (by simp [costList] at h; omega)
        have h2 := roundtripList parse vs rest f hp.2 (by simp [costList] at h; omega)
        simp [lenV, serList, deserList, List.append_assoc, h1, h2]
  theorem roundtripEntries (parse : Str → Option NumbFields) (es : List (Str × Str × V)) (rest : List Word) (fuel : Nat)
      (hp : numbsParseEntries parse es = true) (h : costEntries es + 1 ≤ fuel) :
      deserEntries parse fuel (serEntries es ++ rest) = some (es, rest) := by
    cases es with
    | nil => cases fuel with
      | zero => omega
      | succ f => simp [serEntries, deserEntries]
    | cons e es =>
      obtain ⟨k, ko, v⟩ := e
      cases fuel with
      | zero => omega
      | succ f =>
        simp only [numbsParseEntries, Bool.and_eq_true] at hp
        have h1 := roundtrip parse v (serEntries es ++ rest) f hp.1 (by simp [costEntries] at h; omega)
        have h2 := roundtripEntries parse es rest f hp.2 (by simp [costEntries] at h; omega)
        simp only [serEntries, List.cons_append, List.append_assoc, deserEntries]
        simp [deserStr_serStr, h1, h2]
end

/-! ### the fuel `deserialize` uses suffices: `cost v + 1 ≤ 2 · (number of words)` -/

mutual
  theorem cost_le_words (v : V) : cost v + 1 ≤ 2 * (ser v).length := by
    cases v with
    | unk => simp [cost, ser]
    | na => simp [cost, ser]
    | chr q s => simp [cost, ser, serStr]
    | numb q t n d su sc => simp [cost, ser, serStr]
    | lst vs =>
      have := costList_le_words vs
      simp [cost, ser]; omega
    | tbl es =>
      have := costEntries_le_words es
      simp [cost, ser]; omega
  theorem costList_le_words (vs : List V) : costList vs ≤ 2 * (serList vs).length := by
    cases vs with
    | nil => simp [costList, serList]
    | cons v vs =>
      have h1 := cost_le_words v
      have h2 := costList_le_words vs
      simp [costList, serList]; omega
  theorem costEntries_le_words (es : List (Str × Str × V)) : costEntries es + 2 ≤ 2 * (serEntries es).length := by
    cases es with
    | nil => simp [costEntries, serEntries]
    | cons e es =>
      obtain ⟨k, ko, v⟩ := e
      have h1 := cost_le_words v
      have h2 := costEntries_le_words es
      simp [costEntries, serEntries, serStr]; omega
end

open CifModel.Model.Columns in
/-- `cif_value_deserialize` of what `SERIALIZE` wrote gives the value back, with nothing left over -/
theorem deserialize_ser (parse : Str → Option NumbFields) (v : V) (hp : numbsParse parse v = true) :
    deserialize parse (ser v) = some (v, []) := by
  have h := roundtrip parse v [] (2 * (ser v).length + 1) hp (by have := cost_le_words v; omega)
  simpa [deserialize] using h

/-! ### the NULL-string encoding (`key_orig == key`) is dead on both sides -/

/-- no value serialises to a negative string length: `serEntries` always writes both key strings -/
theorem serStr_nonneg (s : Str) : ∀ w ∈ serStr s, w ≠ Word.ssize (-1) ∧ w ≠ Word.nullUnits := by
  intro w hw
  simp [serStr] at hw
  rcases hw with rfl | rfl
  · constructor
    · intro h; injection h with h; omega
    · intro h; cases h
  · constructor <;> intro h <;> cases h

end CifModel.Model.Serialize
