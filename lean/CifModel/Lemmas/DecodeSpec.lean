import CifModel.Lemmas.DecodeMarker
/-
  Lemmas/DecodeSpec — `decode_text` (Model/Decode.lean, the model of parser.c's decoder) computes the SPECIFICATION's decoding
  (Spec/TextProtocol.lean, written from the CIF 1.1 / CIF 2.0 texts) of every marked text-field body: for EVERY admissible
  prefix (not only the writer's `> `), with or without line folding, any blanks behind the marker.

  Together with `decodeText_plain` (Lemmas/DecodeMarker: an unmarked body is returned unchanged) this removes the circularity
  of the parser-side well-formedness predicate `wfVal o (.enc text body)`, which is phrased with the MODEL's decoder: a body that
  the specification decodes to `text` satisfies it (Props/C01parse.lean `C01_wfVal_enc_of_spec`).
-/
set_option linter.unusedSimpArgs false
set_option linter.unusedVariables false

namespace CifModel.Lemmas.DecodeSpec
open CifModel CifModel.Model.Decode CifModel.Lemmas.DecodeLines CifModel.Lemmas.DecodeMarker
open CifModel.Spec.TextProtocol (unfoldLines isBlank decode unprefix admissiblePrefix)

theorem scanStats_append (a b : Str) (i : Nat) (st : FirstLine) :
    scanStats (a ++ b) i st = scanStats b (i + a.length) (scanStats a i st) := by
  induction a generalizing i st with
  | nil => simp [scanStats]
  | cons c cs ih =>
    simp only [List.cons_append, scanStats, List.length_cons]
    have e : i + (cs.length + 1) = (i + 1) + cs.length := by omega
    split
    · rw [ih, e]
    · split
      · rw [ih, e]
      · rw [ih, e]

theorem scanStats_noBsl (l : Str) (h : (92 : CU) ∉ l) (i : Nat) (st : FirstLine) :
    (scanStats l i st).lastBsl = st.lastBsl ∧ (scanStats l i st).bslCount = st.bslCount := by
  induction l generalizing i st with
  | nil => simp [scanStats]
  | cons c cs ih =>
    have hc : c ≠ 92 := fun e => h (by simp [e])
    have hcs : (92 : CU) ∉ cs := fun e => h (List.mem_cons_of_mem _ e)
    simp only [scanStats, hc, if_false]
    split
    · exact ih hcs _ _
    · exact ih hcs _ _

theorem scanStats_blanks (l : Str) (h : l.all isBlank = true) (i : Nat) (st : FirstLine) : scanStats l i st = st := by
  induction l generalizing i with
  | nil => simp [scanStats]
  | cons c cs ih =>
    simp only [List.all_cons, Bool.and_eq_true] at h
    have hb : isWs c = true := h.1
    have hc : c ≠ 92 := by
      intro e; subst e; simp [isWs] at hb
    simp only [scanStats, hc, if_false, hb, if_true]
    exact ih h.2 _

theorem scanStats_bsl1 (i : Nat) (S : FirstLine) :
    scanStats [92] i S = { lastBsl := i, bslCount := S.bslCount + 1, nonws := false } := by
  simp [scanStats]

theorem scanStats_bsl2 (i : Nat) (S : FirstLine) :
    scanStats [92, 92] i S = { lastBsl := ((i + 1 : Nat) : Int), bslCount := S.bslCount + 2, nonws := false } := by
  simp [scanStats]

theorem noEol_blanks {l : Str} (h : l.all isBlank = true) : NoEol l := by
  intro c hc
  have := List.all_eq_true.mp h c hc
  simp only [isBlank, Bool.or_eq_true, beq_iff_eq] at this
  rcases this with rfl | rfl <;> decide

/-- the marker line of a text field: `\` (folded), `<prefix>\` (prefixed), `<prefix>\\` (both) -/
def markerLine (pre : Str) (folded : Bool) : Str := pre ++ (if pre ≠ [] ∧ folded = true then [92, 92] else [92])

/-- **the model's decoder on a marked body**: every prefix without backslash, line terminator and leading semicolon (`[]` = not
    prefixed, then the field is folded), any blanks behind the marker, any physical lines: `decode_text` (unfolding and prefix
    removal enabled) yields the specification's `unfoldLines` of the (leniently) unprefixed lines -/
theorem decodeText_marked_general (pre : Str) (hnb : (92 : CU) ∉ pre) (hne : NoEol pre) (h59 : pre.head? ≠ some 59)
    (folded : Bool) (hm : pre ≠ [] ∨ folded = true) (blanks : Str) (hb : blanks.all isBlank = true)
    (p : Str) (ps : List Str) (hp : NoEol p) (hps : ∀ q ∈ ps, NoEol q) :
    decodeText true true (markerLine pre folded ++ blanks ++ 10 :: body p ps)
      = unfoldLines folded ((p :: ps).map (stripPrefix pre)) := by
  have hfuel := body_length_pos_fuel p ps
  have hbl := noEol_blanks hb
  cases pre with
  | nil =>
    -- `\<blanks>`: folded only
    have hf : folded = true := hm.resolve_left (fun h => h rfl)
    subst hf
    have hline : NoEol ([92] ++ blanks) := NoEol.append (by intro c hc; simp at hc; subst hc; decide) hbl
    have hsc := scanFirst_line ([92] ++ blanks) (body p ps) 0 {} [] hline
    have hst : scanStats ([92] ++ blanks) 0 {} = { lastBsl := 0, bslCount := 1, nonws := false } := by
      rw [scanStats_append]
      simp only [scanStats, List.length_cons, List.length_nil]
      rw [scanStats_blanks blanks hb]
      rfl
    have hdec := decLines_body [] true p ps [] _ NoEol.nil hp hps hfuel
    show decodeText true true (92 :: (blanks ++ 10 :: body p ps)) = _
    have hraw : (92 : CU) :: (blanks ++ 10 :: body p ps) = ([92] ++ blanks) ++ 10 :: body p ps := by simp
    simp only [decodeText]
    rw [hraw, hsc, hst]
    simp [hdec]
  | cons c0 cs =>
    have hc59 : c0 ≠ 59 := by simpa using h59
    have hc92 : c0 ≠ 92 := fun e => hnb (by simp [e])
    cases folded with
    | false =>
      -- `<prefix>\<blanks>`
      have hline : NoEol ((c0 :: cs) ++ [92] ++ blanks) :=
        NoEol.append (NoEol.append hne (by intro c hc; simp at hc; subst hc; decide)) hbl
      have hsc := scanFirst_line ((c0 :: cs) ++ [92] ++ blanks) (body p ps) 0 {} [] hline
      have hst : scanStats ((c0 :: cs) ++ [92] ++ blanks) 0 {}
          = { lastBsl := ((c0 :: cs).length : Nat), bslCount := 1, nonws := false } := by
        rw [scanStats_append, scanStats_append, scanStats_bsl1, scanStats_blanks blanks hb,
          (scanStats_noBsl (c0 :: cs) hnb 0 {}).2]
        simp
      have hdec := decLines_body (c0 :: cs) false p ps [] _ hne hp hps hfuel
      have hraw : markerLine (c0 :: cs) false ++ blanks ++ 10 :: body p ps
          = ((c0 :: cs) ++ [92] ++ blanks) ++ 10 :: body p ps := by simp [markerLine]
      rw [hraw]
      have htake : (((c0 :: cs) ++ [92] ++ blanks) ++ 10 :: body p ps).take (cs.length + 1) = c0 :: cs := by
        simp [List.take_append]
      have hcons : ((c0 :: cs) ++ [92] ++ blanks) ++ 10 :: body p ps = c0 :: (cs ++ [92] ++ blanks ++ 10 :: body p ps) := by simp
      simp only [decodeText]
      rw [hcons]
      simp only [hc59, false_or, Bool.true_eq_false, and_self, if_false]
      rw [← hcons, hsc, hst]
      have hpl : ((((c0 :: cs).length : Nat) : Int) + 1 - ((1 : Nat) : Int)) = ((cs.length + 1 : Nat) : Int) := by simp
      simp only [if_true, hpl]
      have hz : ¬ ((cs.length : Int) + 1 = 0) := by omega
      simp [htake, hz, hdec]
    | true =>
      -- `<prefix>\\<blanks>`
      have hline : NoEol ((c0 :: cs) ++ [92, 92] ++ blanks) :=
        NoEol.append (NoEol.append hne (by intro c hc; simp at hc; rcases hc with rfl | rfl <;> decide)) hbl
      have hsc := scanFirst_line ((c0 :: cs) ++ [92, 92] ++ blanks) (body p ps) 0 {} [] hline
      have hst : scanStats ((c0 :: cs) ++ [92, 92] ++ blanks) 0 {}
          = { lastBsl := ((c0 :: cs).length + 1 : Nat), bslCount := 2, nonws := false } := by
        rw [scanStats_append, scanStats_append, scanStats_bsl2, scanStats_blanks blanks hb,
          (scanStats_noBsl (c0 :: cs) hnb 0 {}).2]
        simp
      have hdec := decLines_body (c0 :: cs) true p ps [] _ hne hp hps hfuel
      have hraw : markerLine (c0 :: cs) true ++ blanks ++ 10 :: body p ps
          = ((c0 :: cs) ++ [92, 92] ++ blanks) ++ 10 :: body p ps := by simp [markerLine]
      rw [hraw]
      have htake : (((c0 :: cs) ++ [92, 92] ++ blanks) ++ 10 :: body p ps).take (cs.length + 1) = c0 :: cs := by
        simp [List.take_append]
      have hget : (((c0 :: cs) ++ [92, 92] ++ blanks) ++ 10 :: body p ps)[cs.length + 1]? = some 92 := by
        simp [List.getElem?_append]
      have hcons : ((c0 :: cs) ++ [92, 92] ++ blanks) ++ 10 :: body p ps = c0 :: (cs ++ [92, 92] ++ blanks ++ 10 :: body p ps) := by simp
      simp only [decodeText]
      rw [hcons]
      simp only [hc59, false_or, Bool.true_eq_false, and_self, if_false]
      rw [← hcons, hsc, hst]
      have hpl : ((((c0 :: cs).length + 1 : Nat) : Int) + 1 - ((2 : Nat) : Int)) = ((cs.length + 1 : Nat) : Int) := by simp; omega
      simp only [hpl]
      simp [htake, hget, hdec]

/-- when every physical line carries the prefix, lenient and strict unprefixing agree: the specification's `decode` -/
theorem decode_eq_stripPrefix (pre : Str) (folded : Bool) (lines : List Str) (h : ∀ l ∈ lines, pre.isPrefixOf l = true) :
    decode pre folded lines = some (unfoldLines folded (lines.map (stripPrefix pre))) := by
  unfold decode
  have : lines.mapM (unprefix pre) = some (lines.map (stripPrefix pre)) := by
    induction lines with
    | nil => rfl
    | cons l r ih =>
      have hl := h l (by simp)
      have ihr := ih (fun x hx => h x (by simp [hx]))
      simp only [List.mapM_cons, unprefix, hl, if_true, ihr, List.map_cons, stripPrefix]
      by_cases hp : pre = []
      · subst hp; simp
      · simp [hp, hl]
  rw [this]; rfl

/-- **`decode_text` = the specification's decoder** on every marked body all of whose lines carry the prefix -/
theorem decodeText_eq_spec (pre : Str) (hadm : pre = [] ∨ admissiblePrefix pre = true)
    (folded : Bool) (hm : pre ≠ [] ∨ folded = true) (blanks : Str) (hb : blanks.all isBlank = true)
    (p : Str) (ps : List Str) (hp : NoEol p) (hps : ∀ q ∈ ps, NoEol q) (hcarry : ∀ l ∈ p :: ps, pre.isPrefixOf l = true) :
    some (decodeText true true (markerLine pre folded ++ blanks ++ 10 :: body p ps)) = decode pre folded (p :: ps) := by
  have hfacts : (92 : CU) ∉ pre ∧ NoEol pre ∧ pre.head? ≠ some 59 := by
    rcases hadm with rfl | h
    · exact ⟨by simp, NoEol.nil, by simp⟩
    · simp only [admissiblePrefix, Bool.and_eq_true, List.all_eq_true, bne_iff_ne, ne_eq, Bool.not_eq_true'] at h
      refine ⟨fun hm => (h.1.2 _ hm).1.1 rfl, fun c hc => ⟨(h.1.2 c hc).1.2, (h.1.2 c hc).2⟩, h.2⟩
  rw [decodeText_marked_general pre hfacts.1 hfacts.2.1 hfacts.2.2 folded hm blanks hb p ps hp hps,
    decode_eq_stripPrefix pre folded (p :: ps) hcarry]

end CifModel.Lemmas.DecodeSpec
