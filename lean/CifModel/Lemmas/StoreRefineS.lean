import CifModel.Lemmas.StoreRefineQ
/-
  Lemmas/StoreRefineS — set_value on an existing item against the documented data model: every packet of the item's loop
  carries the new value, nothing else changes.
-/
namespace CifModel.Store
open Gen.ErrCodes

/-- the cell `abs` shows for item `j` in the packet with row number `r` -/
def cell (d : Db) (cid : Nat) (j : ItemRow) (r : Nat) : V :=
  ((d.values.find? (fun v => v.cid == cid && v.name == j.name && v.rowNum == r)).map (·.val)).getD .unk

theorem absLoop_eq (d : Db) (x : LoopRow) :
    absLoop d x = { category := x.category, names := (d.loopItems x.cid x.loopNum).map (·.nameOrig),
                    packets := (d.loopRows x.cid x.loopNum).map (fun r => (d.loopItems x.cid x.loopNum).map (fun j => cell d x.cid j r)) } := rfl

theorem mem_loopRows_iff (d : Db) (cid ln r : Nat) :
    r ∈ d.loopRows cid ln ↔ ∃ w ∈ d.values, w.cid = cid ∧ (d.loopItems cid ln).any (fun i => i.name == w.name) = true ∧ w.rowNum = r := by
  unfold Db.loopRows
  constructor
  · intro h
    rcases mem_foldl_insertNat _ _ _ h with h0 | ⟨w, hw, hr⟩
    · cases h0
    · obtain ⟨hm, hk⟩ := List.mem_filter.mp hw
      simp only [Bool.and_eq_true] at hk
      exact ⟨w, hm, by simpa using hk.1, hk.2, hr⟩
  · intro ⟨w, hm, hc, ha, hr⟩
    apply mem_foldl_insertNat_of
    exact Or.inr ⟨w, List.mem_filter.mpr ⟨hm, by simp [hc, ha]⟩, hr⟩

/-- set_value of an existing item (SET_ALL_VALUES_SQL), container-local refinement: the item's loop keeps its names and its
    packets (same rows, same order); in every packet the item's cell is the new value and every other cell is what it was;
    every other loop of the CIF is what it was; loops, items, blocks, frames tables untouched. -/
theorem setAllValues_refines (d : Db) (x : LoopRow) (i : ItemRow) (v : V) (h : Inv d) (hx : x ∈ d.loops)
    (hi : i ∈ d.loopItems x.cid x.loopNum) :
    let d' := (d.setAllValues x.cid i.name v).1
    absLoop d' x = { absLoop d x with packets := (d.loopRows x.cid x.loopNum).map (fun r =>
        (d.loopItems x.cid x.loopNum).map (fun j => if j.name == i.name then v else cell d x.cid j r)) } ∧
    (∀ y ∈ d.loops, ¬(y.cid = x.cid ∧ y.loopNum = x.loopNum) → absLoop d' y = absLoop d y) ∧
    d'.loops = d.loops ∧ d'.items = d.items ∧ d'.frames = d.frames ∧ d'.blocks = d.blocks := by
  obtain ⟨him, hik⟩ := List.mem_filter.mp hi
  have hik' : i.cid = x.cid ∧ i.loopNum = x.loopNum := by simpa using hik
  -- the loop the statement finds for the item is this loop
  have hloop : d.loopOfItem x.cid i.name = some x.loopNum := by
    unfold Db.loopOfItem
    cases hf : d.items.find? (fun j => j.cid == x.cid && j.name == i.name) with
    | none =>
      have := List.find?_eq_none.mp hf i him
      simp [hik'.1] at this
    | some j =>
      have hjm := List.mem_of_find?_eq_some hf
      have hjk := List.find?_some hf
      simp at hjk
      have : j = i := itemKey_unique d.items h.itemPK j hjm i him (by rw [hjk.1, hik'.1]) hjk.2
      rw [this]; simp [hik'.2]
  let R := d.loopRows x.cid x.loopNum
  let N : List ValueRow := R.map (fun r => { cid := x.cid, name := i.name, rowNum := r, val := v })
  let Q : ValueRow → Bool := fun w => !(w.cid == x.cid && w.name == i.name && R.contains w.rowNum)
  have hd' : (d.setAllValues x.cid i.name v).1 = { d with values := d.values.filter Q ++ N } := by
    simp only [Db.setAllValues, hloop]
    rfl
  intro d'
  have hvals : d'.values = d.values.filter Q ++ N := by show ((d.setAllValues x.cid i.name v).1).values = _; rw [hd']
  have hitems : ∀ c n, d'.loopItems c n = d.loopItems c n := by
    intro c n; show ((d.setAllValues x.cid i.name v).1).loopItems c n = _; rw [hd']; rfl
  -- every stored value of the item sits in a row of the loop, so `Q` drops exactly the item's values
  have hQ : ∀ w ∈ d.values, Q w = !(w.cid == x.cid && w.name == i.name) := by
    intro w hw
    simp only [Q]
    cases hk : (w.cid == x.cid && w.name == i.name) with
    | false => simp
    | true =>
      simp only [Bool.true_and, Bool.not_true, Bool.not_eq_false']
      simp at hk
      have : w.rowNum ∈ R := (mem_loopRows_iff d _ _ _).mpr ⟨w, hw, hk.1, by
        simp only [List.any_eq_true]; exact ⟨i, hi, by simp [hk.2]⟩, rfl⟩
      simpa using this
  -- an item of another loop is not this item
  have hother : ∀ y ∈ d.loops, ¬(y.cid = x.cid ∧ y.loopNum = x.loopNum) → ∀ j ∈ d.loopItems y.cid y.loopNum,
      ¬(y.cid = x.cid ∧ j.name = i.name) := by
    intro y _ hne j hj ⟨hc, hn⟩
    obtain ⟨hjm, hjk⟩ := List.mem_filter.mp hj
    simp at hjk
    have : j = i := itemKey_unique d.items h.itemPK j hjm i him (by rw [hjk.1, hc, hik'.1]) hn
    subst this
    exact hne ⟨hc, by rw [← hjk.2, hik'.2]⟩
  have e1 : d'.loops = d.loops := by show ((d.setAllValues x.cid i.name v).1).loops = _; rw [hd']
  have e2 : d'.items = d.items := by show ((d.setAllValues x.cid i.name v).1).items = _; rw [hd']
  have e3 : d'.frames = d.frames := by show ((d.setAllValues x.cid i.name v).1).frames = _; rw [hd']
  have e4 : d'.blocks = d.blocks := by show ((d.setAllValues x.cid i.name v).1).blocks = _; rw [hd']
  refine ⟨?_, ?_, e1, e2, e3, e4⟩
  · -- the item's loop
    have hrows : d'.loopRows x.cid x.loopNum = R := by
      apply sorted_eq_of_mem_iff _ _ (loopRows_sorted d' _ _) (loopRows_sorted d _ _)
      intro r
      rw [mem_loopRows_iff, mem_loopRows_iff, hitems, hvals]
      constructor
      · intro ⟨w, hw, hc, ha, hr⟩
        rcases List.mem_append.mp hw with hw | hw
        · exact ⟨w, (List.mem_filter.mp hw).1, hc, ha, hr⟩
        · obtain ⟨r', hr', rfl⟩ := List.mem_map.mp hw
          simp only [] at hr
          subst hr
          exact (mem_loopRows_iff d _ _ _).mp hr'
      · intro hr
        have hrR : r ∈ R := (mem_loopRows_iff d _ _ _).mpr hr
        exact ⟨{ cid := x.cid, name := i.name, rowNum := r, val := v }, List.mem_append_right _ (List.mem_map.mpr ⟨r, hrR, rfl⟩), rfl,
          by simp only [List.any_eq_true]; exact ⟨i, hi, by simp⟩, rfl⟩
    rw [absLoop_eq d' x, absLoop_eq d x, hitems, hrows]
    simp only []
    congr 1
    apply List.map_congr_left
    intro r hr
    apply List.map_congr_left
    intro j hj
    unfold cell
    rw [hvals, List.find?_append, List.find?_filter]
    cases hjn : (j.name == i.name) with
    | true =>
      simp only [if_true]
      have hjn' : j.name = i.name := by simpa using hjn
      have h1 : d.values.find? (fun a => decide (Q a = true ∧ (a.cid == x.cid && a.name == j.name && a.rowNum == r) = true)) = none := by
        rw [List.find?_eq_none]
        intro w hw hq
        simp only [decide_eq_true_eq] at hq
        rw [hQ w hw] at hq
        simp [hjn'] at hq
        rcases hq.1 with h0 | h0
        · exact h0 hq.2.1.1
        · exact h0 hq.2.1.2
      rw [h1, Option.none_or]
      have h2 : N.find? (fun a => a.cid == x.cid && a.name == j.name && a.rowNum == r) = some { cid := x.cid, name := i.name, rowNum := r, val := v } := by
        simp only [N, List.find?_map]
        have hcomp : ((fun a : ValueRow => a.cid == x.cid && a.name == j.name && a.rowNum == r) ∘
            (fun r' : Nat => ({ cid := x.cid, name := i.name, rowNum := r', val := v } : ValueRow))) = (fun r' : Nat => r' == r) := by
          funext r'; simp [Function.comp, hjn']
        rw [hcomp]
        have : R.find? (fun r' => r' == r) = some r := by
          cases hf : R.find? (fun r' => r' == r) with
          | none => have := List.find?_eq_none.mp hf r hr; simp at this
          | some r' => have := List.find?_some hf; simp at this; rw [this]
        rw [this]; rfl
      rw [h2]; rfl
    | false =>
      simp only [Bool.false_eq_true, if_false]
      have hjn' : j.name ≠ i.name := by simpa using hjn
      have h1 : d.values.find? (fun a => decide (Q a = true ∧ (a.cid == x.cid && a.name == j.name && a.rowNum == r) = true)) =
          d.values.find? (fun a => a.cid == x.cid && a.name == j.name && a.rowNum == r) := by
        apply find?_congr'
        intro w hw
        rw [hQ w hw]
        cases hk : (w.cid == x.cid && w.name == j.name && w.rowNum == r) with
        | false => simp
        | true =>
          simp at hk
          have : w.name ≠ i.name := by rw [hk.1.2]; exact hjn'
          simp [this]
      have h2 : N.find? (fun a => a.cid == x.cid && a.name == j.name && a.rowNum == r) = none := by
        rw [List.find?_eq_none]
        intro w hw hq
        obtain ⟨r', _, rfl⟩ := List.mem_map.mp hw
        simp at hq
        exact hjn' hq.1.symm
      rw [h1, h2, Option.or_none]
  · -- every other loop
    intro y hy hne
    have hfil : d'.values.filter (fun w => w.cid == y.cid && (d.loopItems y.cid y.loopNum).any (fun j => j.name == w.name)) =
        d.values.filter (fun w => w.cid == y.cid && (d.loopItems y.cid y.loopNum).any (fun j => j.name == w.name)) := by
      rw [hvals, List.filter_append, List.filter_filter]
      have h1 : d.values.filter (fun a => (a.cid == y.cid && (d.loopItems y.cid y.loopNum).any (fun j => j.name == a.name)) && Q a) =
          d.values.filter (fun w => w.cid == y.cid && (d.loopItems y.cid y.loopNum).any (fun j => j.name == w.name)) := by
        apply List.filter_congr
        intro w hw
        rw [hQ w hw]
        cases hk : (w.cid == y.cid && (d.loopItems y.cid y.loopNum).any (fun j => j.name == w.name)) with
        | false => simp
        | true =>
          simp only [Bool.and_eq_true, List.any_eq_true] at hk
          obtain ⟨hc, j, hj, hjn⟩ := hk
          have := hother y hy hne j hj
          simp at hc hjn
          have hnn : ¬(w.cid = x.cid ∧ w.name = i.name) := fun ⟨a, b⟩ => this ⟨by rw [← hc, a], by rw [hjn, b]⟩
          have : (w.cid == x.cid && w.name == i.name) = false := by
            cases hb : (w.cid == x.cid && w.name == i.name) with
            | false => rfl
            | true => simp at hb; exact absurd hb hnn
          simp [this]
      have h2 : N.filter (fun w => w.cid == y.cid && (d.loopItems y.cid y.loopNum).any (fun j => j.name == w.name)) = [] := by
        rw [List.filter_eq_nil_iff]
        intro w hw hk
        obtain ⟨r', _, rfl⟩ := List.mem_map.mp hw
        simp only [Bool.and_eq_true, List.any_eq_true] at hk
        obtain ⟨hc, j, hj, hjn⟩ := hk
        simp at hc hjn
        exact hother y hy hne j hj ⟨hc.symm, hjn⟩
      rw [h1, h2, List.append_nil]
    have hrows : d'.loopRows y.cid y.loopNum = d.loopRows y.cid y.loopNum := by
      unfold Db.loopRows; rw [hitems, hfil]
    rw [absLoop_eq d' y, absLoop_eq d y, hitems, hrows]
    congr 1
    apply List.map_congr_left
    intro r _
    apply List.map_congr_left
    intro j hj
    unfold cell
    rw [hvals, List.find?_append, List.find?_filter]
    have hnot := hother y hy hne j hj
    have h1 : d.values.find? (fun a => decide (Q a = true ∧ (a.cid == y.cid && a.name == j.name && a.rowNum == r) = true)) =
        d.values.find? (fun a => a.cid == y.cid && a.name == j.name && a.rowNum == r) := by
      apply find?_congr'
      intro w hw
      rw [hQ w hw]
      cases hk : (w.cid == y.cid && w.name == j.name && w.rowNum == r) with
      | false => simp
      | true =>
        simp at hk
        have hnn : ¬(w.cid = x.cid ∧ w.name = i.name) := fun ⟨a, b⟩ => hnot ⟨by rw [← hk.1.1, a], by rw [← hk.1.2, b]⟩
        have : (w.cid == x.cid && w.name == i.name) = false := by
          cases hb : (w.cid == x.cid && w.name == i.name) with
          | false => rfl
          | true => simp at hb; exact absurd hb hnn
        simp [this]
    have h2 : N.find? (fun a => a.cid == y.cid && a.name == j.name && a.rowNum == r) = none := by
      rw [List.find?_eq_none]
      intro w hw hq
      obtain ⟨r', _, rfl⟩ := List.mem_map.mp hw
      simp at hq
      exact hnot ⟨hq.1.1.symm, hq.1.2.symm⟩
    rw [h1, h2, Option.or_none]

end CifModel.Store
