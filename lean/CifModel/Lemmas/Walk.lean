import CifModel.Spec.Traversal
/-
  CifModel.Lemmas.Walk — the model of cif_walk (Model/Walk.lean) refines the pruning semantics of Spec/Traversal.lean,
  and facts about that semantics.
-/
namespace CifModel.Lemmas.Walk
open CifModel.Walk CifModel.Spec.Traversal

theorem classify_go {r : Int} (h : r = CONTINUE ∨ r = SKIP_CURRENT) : classify r = .go := by
  simp [classify, h]

theorem classify_sib : classify SKIP_SIBLINGS = .sib := by decide

theorem classify_stop {r : Int} (h1 : ¬ (r = CONTINUE ∨ r = SKIP_CURRENT)) (h2 : r ≠ SKIP_SIBLINGS) :
    classify r = .stop r := by
  simp [classify, h1, h2]

theorem classify_eq_stop {r r' : Int} (h : classify r = .stop r') : r' = r ∧ isStop r := by
  unfold classify at h
  split at h
  · cases h
  · split at h
    · cases h
    · rename_i h1 h2
      injection h with h
      refine ⟨h.symm, ?_⟩
      unfold isStop
      intro h3
      rcases h3 with h3 | h3 | h3
      · exact h1 (Or.inl h3)
      · exact h1 (Or.inr h3)
      · exact h2 h3

theorem classify_eq_go {r : Int} (h : classify r = .go) : r = CONTINUE ∨ r = SKIP_CURRENT := by
  unfold classify at h
  split at h
  · assumption
  · split at h <;> cases h

theorem classify_eq_sib {r : Int} (h : classify r = .sib) : r = SKIP_SIBLINGS := by
  unfold classify at h
  split at h
  · cases h
  · split at h
    · assumption
    · cases h

/-- a `stop r` outcome carries a code that is no navigation answer other than END (a handler's answer, or the code of a
    failure point of the tree) -/
def FromProg (_p : Prog) (r : Int) : Prop := isStop r

theorem isStop_empty : isStop EMPTY_LOOP := by decide

theorem finish_stop (p : Prog) (e : Ev) (x : Out × W) (w' : W) (r : Int)
    (hx : ∀ r' w1, x = (.stop r', w1) → FromProg p r') (h : finish p e x = (.stop r, w')) : FromProg p r := by
  rcases x with ⟨o, w1⟩
  cases o with
  | go =>
    simp only [finish] at h
    injection h with h1 h2
    have := classify_eq_stop h1
    exact this.1 ▸ this.2
  | sib => simp [finish] at h
  | stop r' =>
    simp only [finish] at h
    injection h with h1 h2
    injection h1 with h1
    subst h1
    exact hx _ _ rfl

mutual
  theorem run_stop (p : Prog) : ∀ (t : ETree) (w w' : W) (r : Int), run p t w = (.stop r, w') → FromProg p r
    | .leaf e, w, w', r, h => by
      simp only [run] at h
      injection h with h1 h2
      have := classify_eq_stop h1
      exact this.1 ▸ this.2
    | .fail, w, w', r, h => by
      simp only [run] at h
      injection h with h1 h2
      injection h1 with h1
      exact h1 ▸ isStop_empty
    | .node s g1 g2 e, w, w', r, h => by
      simp only [run] at h
      by_cases hc : p w.n s = CONTINUE
      · simp only [hc, if_true] at h
        generalize h1 : runList p g1 (call p w s).2 = x1 at h
        rcases x1 with ⟨o1, w1⟩
        cases o1 with
        | stop r1 =>
          simp only at h
          injection h with h2 h3
          injection h2 with h2
          subst h2
          exact runList_stop p g1 _ _ _ h1
        | go =>
          simp only at h
          exact finish_stop p e _ _ _ (fun r' w2 hx => runList_stop p g2 _ _ _ hx) h
        | sib =>
          simp only at h
          exact finish_stop p e _ _ _ (fun r' w2 hx => runList_stop p g2 _ _ _ hx) h
      · simp only [hc, if_false] at h
        injection h with h1 h2
        have := classify_eq_stop h1
        exact this.1 ▸ this.2
  theorem runList_stop (p : Prog) : ∀ (ts : List ETree) (w w' : W) (r : Int), runList p ts w = (.stop r, w') → FromProg p r
    | [], w, w', r, h => by simp [runList] at h
    | t :: ts, w, w', r, h => by
      simp only [runList] at h
      generalize h1 : run p t w = x1 at h
      rcases x1 with ⟨o1, w1⟩
      cases o1 with
      | go => exact runList_stop p ts _ _ _ h
      | sib => simp at h
      | stop r1 =>
        simp only at h
        injection h with h2 h3
        injection h2 with h2
        subst h2
        exact run_stop p t _ _ _ h1
end

-- ---- the model refines the specification -----------------------------------------------------------------------

theorem three (r : Int) : (r = CONTINUE ∨ r = SKIP_CURRENT) ∨ r = SKIP_SIBLINGS
    ∨ (¬ (r = CONTINUE ∨ r = SKIP_CURRENT) ∧ r ≠ SKIP_SIBLINGS) := by
  by_cases h1 : r = CONTINUE ∨ r = SKIP_CURRENT
  · exact Or.inl h1
  · by_cases h2 : r = SKIP_SIBLINGS
    · exact Or.inr (Or.inl h2)
    · exact Or.inr (Or.inr ⟨h1, h2⟩)

theorem sib_not_go : ¬ (SKIP_SIBLINGS = CONTINUE ∨ SKIP_SIBLINGS = SKIP_CURRENT) := by decide

/-- result of the item loop of walk_packet, from the outcome of the group of items -/
def toItems : Out × W → Option Int × W
  | (.go, w) => (none, w)
  | (.sib, w) => (some CONTINUE, w)
  | (.stop r, w) => (some r, w)

theorem walkItems_eq (p : Prog) : ∀ (is : List (Str × V)) (w : W),
    walkItems p is w = toItems (runList p (is.map itemTree) w)
  | [], w => by simp [walkItems, runList, toItems]
  | (nm, v) :: is, w => by
    simp only [walkItems, call, List.map, itemTree, runList, run]
    rcases three (p w.n (.item nm v)) with h | h | ⟨h1, h2⟩
    · simp only [h, if_true, classify_go h]
      exact walkItems_eq p is _
    · simp only [h, sib_not_go, if_false, if_true, classify_sib, toItems]
    · simp only [h1, h2, if_false, classify_stop h1 h2, toItems]

theorem isStop_classify {r : Int} (h : isStop r) : classify r = .stop r := by
  unfold isStop at h
  apply classify_stop
  · intro h'; rcases h' with h' | h'
    · exact h (Or.inl h')
    · exact h (Or.inr (Or.inl h'))
  · intro h'; exact h (Or.inr (Or.inr h'))

theorem walkPacket_eq (p : Prog) (pk : List (Str × V)) (w : W) :
    (classify (walkPacket p pk w).1, (walkPacket p pk w).2) = run p (packetTree pk) w := by
  simp only [walkPacket, packetTree, run, runList, call]
  by_cases hc : p w.n (.pktStart pk) = CONTINUE
  · simp only [hc, if_true, ne_eq, not_true_eq_false, if_false]
    rw [walkItems_eq]
    generalize hx : runList p (pk.map itemTree) _ = x
    rcases x with ⟨o, w2⟩
    cases o with
    | go => simp only [toItems, finish, call]
    | sib => simp only [toItems, finish]; rw [classify_go (Or.inl rfl)]
    | stop r =>
      simp only [toItems, finish]
      rw [isStop_classify (runList_stop p _ _ _ _ hx)]
  · simp only [hc, if_false, ne_eq, not_false_eq_true, if_true]

/-- `stopped` and `result` when the packet loop of walk_loop is left, from the outcome of the group of packets -/
def toPackets : Out × W → Bool × Int × W
  | (.go, w) => (false, FINISHED, w)
  | (.sib, w) => (true, CONTINUE, w)
  | (.stop r, w) => (true, r, w)

theorem walkPackets_eq (p : Prog) : ∀ (pks : List (List (Str × V))) (w : W),
    walkPackets p pks w = toPackets (runList p (pks.map packetTree) w)
  | [], w => by simp [walkPackets, runList, toPackets]
  | pk :: pks, w => by
    simp only [walkPackets, List.map, runList]
    rw [← walkPacket_eq]
    rcases three (walkPacket p pk w).1 with h | h | ⟨h1, h2⟩
    · simp only [h, if_true, classify_go h]
      exact walkPackets_eq p pks _
    · simp only [h, sib_not_go, if_false, if_true, classify_sib, toPackets]
    · simp only [h1, h2, if_false, classify_stop h1 h2, toPackets]

theorem walkLoop_eq (p : Prog) (l : WLoop) (w : W) :
    (classify (walkLoop p l w).1, (walkLoop p l w).2) = run p (loopTree l) w := by
  by_cases hl : l.packets.isEmpty = true
  · simp only [walkLoop, loopTree, run, runList, call, hl, if_true]
    by_cases hc : p w.n (.loopStart l.category l.names) = CONTINUE
    · simp only [hc, if_true, ne_eq, not_true_eq_false, if_false, finish]
      rw [isStop_classify isStop_empty]
    · simp only [hc, if_false, ne_eq, not_false_eq_true, if_true]
  · have hl' : l.packets.isEmpty = false := by simpa using hl
    simp only [walkLoop, loopTree, run, runList, call, hl', Bool.false_eq_true, if_false]
    by_cases hc : p w.n (.loopStart l.category l.names) = CONTINUE
    · simp only [hc, if_true, ne_eq, not_true_eq_false, if_false, Bool.false_eq_true]
      simp only [walkPackets_eq]
      generalize hx : runList p (l.packets.map packetTree) _ = x
      rcases x with ⟨o, w2⟩
      cases o with
      | go => simp [toPackets, finish, call]
      | sib =>
        simp only [toPackets, finish, true_or, if_true]
        rw [classify_go (Or.inl rfl)]
      | stop r =>
        have hr := runList_stop p _ _ _ _ hx
        simp only [toPackets, finish, true_or, if_true]
        rw [isStop_classify hr]
    · simp only [hc, if_false, ne_eq, not_false_eq_true, if_true]

theorem walkLoopsFrom_eq (p : Prog) : ∀ (ls : List WLoop) (res : Int) (w : W),
    (res = CONTINUE ∨ res = SKIP_CURRENT) →
    (classify (walkLoopsFrom p ls res w).1, (walkLoopsFrom p ls res w).2) = runList p (ls.map loopTree) w
  | [], res, w, hres => by simp [walkLoopsFrom, runList, classify_go hres]
  | l :: ls, res, w, _ => by
    simp only [walkLoopsFrom, List.map, runList]
    rw [← walkLoop_eq p l]
    rcases three (walkLoop p l w).1 with h | h | ⟨h1, h2⟩
    · have h' : (walkLoop p l w).1 = SKIP_CURRENT ∨ (walkLoop p l w).1 = CONTINUE := h.symm
      simp only [h', if_true, classify_go h]
      exact walkLoopsFrom_eq p ls _ _ h
    · have h' : ¬ ((walkLoop p l w).1 = SKIP_CURRENT ∨ (walkLoop p l w).1 = CONTINUE) := by
        rw [h]; decide
      simp only [h', if_false]
      rw [h, classify_sib]
    · have h' : ¬ ((walkLoop p l w).1 = SKIP_CURRENT ∨ (walkLoop p l w).1 = CONTINUE) := fun x => h1 x.symm
      simp only [h', if_false, classify_stop h1 h2]

/-- outcome of the frame loop of walk_container, from the outcome of the group of frames -/
def toFrames : Out × W → Option Int × W
  | (.go, w) => (none, w)
  | (.sib, w) => (none, w)
  | (.stop r, w) => (some r, w)

theorem loops_all {loops : List WLoop} (h : loops.all (fun l => !l.packets.isEmpty) = true) :
    ∀ l ∈ loops, l.packets.isEmpty = false := by
  intro l hl
  have := List.all_eq_true.mp h l hl
  simpa using this

/-- the tail of walk_container after the frames, against `finish` -/
theorem contTail_eq (p : Prog) (loops : List WLoop) (e : Ev) (w1 : W) :
    (classify
        (if (walkLoops p loops w1).1 = CONTINUE ∨ (walkLoops p loops w1).1 = SKIP_CURRENT then
          call p (walkLoops p loops w1).2 e
        else if (walkLoops p loops w1).1 = SKIP_SIBLINGS then (CONTINUE, (walkLoops p loops w1).2)
        else ((walkLoops p loops w1).1, (walkLoops p loops w1).2)).1,
      (if (walkLoops p loops w1).1 = CONTINUE ∨ (walkLoops p loops w1).1 = SKIP_CURRENT then
          call p (walkLoops p loops w1).2 e
        else if (walkLoops p loops w1).1 = SKIP_SIBLINGS then (CONTINUE, (walkLoops p loops w1).2)
        else ((walkLoops p loops w1).1, (walkLoops p loops w1).2)).2)
      = finish p e (runList p (loops.map loopTree) w1) := by
  have h := walkLoopsFrom_eq p loops OK w1 (Or.inl rfl)
  unfold walkLoops
  rw [← h]
  rcases three (walkLoopsFrom p loops OK w1).1 with h0 | h0 | ⟨h1, h2⟩
  · simp only [h0, if_true, classify_go h0, finish, call]
  · simp only [h0, sib_not_go, if_false, if_true, classify_sib, finish]
    rw [classify_go (Or.inl rfl)]
  · simp only [h1, h2, if_false, classify_stop h1 h2, finish]

mutual
  theorem walkCont_eq (p : Prog) : ∀ (d : Nat) (c : WCont) (w : W),
      (classify (walkCont p d c w).1, (walkCont p d c w).2) = run p (contTree d c) w
    | d, .mk code frames loops, w => by
      simp only [walkCont, contTree, run, call]
      by_cases hs : p w.n (if d = 0 then Ev.blockStart code else Ev.frameStart code) = CONTINUE
      · simp only [hs, if_true, ne_eq, not_true_eq_false, if_false]
        have hf := walkFrames_eq p (d + 1) frames
          { n := w.n + 1, log := (if d = 0 then Ev.blockStart code else Ev.frameStart code) :: w.log }
        rw [hf]
        generalize hx : runList p (contTrees (d + 1) frames) _ = x
        rcases x with ⟨o, w1⟩
        cases o with
        | go =>
          simp only [toFrames]
          exact contTail_eq p loops _ w1
        | sib =>
          simp only [toFrames]
          exact contTail_eq p loops _ w1
        | stop r =>
          simp only [toFrames]
          rw [isStop_classify (runList_stop p _ _ _ _ hx)]
      · simp only [hs, if_false, ne_eq, not_false_eq_true, if_true]
  theorem walkFrames_eq (p : Prog) : ∀ (d : Nat) (fs : List WCont) (w : W),
      walkFrames p d fs w = toFrames (runList p (contTrees d fs) w)
    | d, [], w => by simp [walkFrames, contTrees, runList, toFrames]
    | d, f :: fs, w => by
      simp only [walkFrames, contTrees, runList]
      rw [← walkCont_eq p d f w]
      rcases three (walkCont p d f w).1 with h | h | ⟨h1, h2⟩
      · simp only [h, if_true, classify_go h]
        exact walkFrames_eq p d fs _
      · simp only [h, sib_not_go, if_false, if_true, classify_sib, toFrames]
      · simp only [h1, h2, if_false, classify_stop h1 h2, toFrames]
end

/-- outcome of the block loop of cif_walk, from the outcome of the group of blocks -/
def toBlocks : Out × W → Option Int × W
  | (.go, w) => (none, w)
  | (.sib, w) => (some OK, w)
  | (.stop r, w) => (some (if r = END then OK else r), w)

theorem walkBlocks_eq (p : Prog) : ∀ (bs : List WCont) (w : W),
    walkBlocks p bs w = toBlocks (runList p (contTrees 0 bs) w)
  | [], w => by simp [walkBlocks, contTrees, runList, toBlocks]
  | b :: bs, w => by
    simp only [walkBlocks, contTrees, runList]
    rw [← walkCont_eq p 0 b w]
    rcases three (walkCont p 0 b w).1 with h | h | ⟨h1, h2⟩
    · simp only [h, if_true, classify_go h]
      exact walkBlocks_eq p bs _
    · have : SKIP_SIBLINGS ≠ END := by decide
      simp only [h, sib_not_go, if_false, true_or, if_true, classify_sib, toBlocks]
    · simp only [h1, h2, if_false, false_or, classify_stop h1 h2, toBlocks]
      by_cases he : (walkCont p 0 b w).1 = END
      · simp only [he, if_true]
      · simp only [he, if_false]

/-- **refinement**: on every CIF (packet-less loops included: the tree has a failure point there), for every handler
    program, the model of cif_walk delivers exactly the callbacks and the result of the pruning semantics -/
theorem walk_eq_spec (p : Prog) (c : WCif) :
    walk p c = walkSpec p c := by
  simp only [walk, walkSpec, walkW, cifTree, run, runList, call]
  by_cases hs : p W.init.n Ev.cifStart = CONTINUE
  · simp only [hs, if_true]
    rw [walkBlocks_eq p c _]
    generalize hx : runList p (contTrees 0 c) _ = x
    rcases x with ⟨o, w1⟩
    cases o with
    | go =>
      simp only [toBlocks, finish, call]
      rcases three (p w1.n Ev.cifEnd) with h | h | ⟨h1, h2⟩
      · have h' : p w1.n Ev.cifEnd = CONTINUE ∨ p w1.n Ev.cifEnd = SKIP_CURRENT ∨ p w1.n Ev.cifEnd = SKIP_SIBLINGS
            ∨ p w1.n Ev.cifEnd = END := by
          rcases h with h | h
          · exact Or.inl h
          · exact Or.inr (Or.inl h)
        simp only [h', if_true, classify_go h, finalCode]
      · simp only [h, classify_sib, finalCode]
        simp
      · simp only [classify_stop h1 h2, finalCode]
        by_cases he : p w1.n Ev.cifEnd = END
        · simp [he]
        · have h' : ¬ (p w1.n Ev.cifEnd = CONTINUE ∨ p w1.n Ev.cifEnd = SKIP_CURRENT ∨ p w1.n Ev.cifEnd = SKIP_SIBLINGS
              ∨ p w1.n Ev.cifEnd = END) := by
            intro h
            rcases h with h | h | h | h
            · exact h1 (Or.inl h)
            · exact h1 (Or.inr h)
            · exact h2 h
            · exact he h
          simp only [h', if_false]
          simp [he]
    | sib => simp only [toBlocks, finish, finalCode]
    | stop r => simp only [toBlocks, finish, finalCode]
  · simp only [hs, if_false]
    rcases three (p W.init.n Ev.cifStart) with h | h | ⟨h1, h2⟩
    · have h' : p W.init.n Ev.cifStart = SKIP_CURRENT := by
        rcases h with h | h
        · exact absurd h hs
        · exact h
      simp only [h', true_or, if_true, classify_go (Or.inr rfl), finalCode]
    · simp only [h, true_or, or_true, if_true, classify_sib, finalCode]
    · simp only [classify_stop h1 h2, finalCode]
      by_cases he : p W.init.n Ev.cifStart = END
      · simp [he]
      · have h' : ¬ (p W.init.n Ev.cifStart = SKIP_CURRENT ∨ p W.init.n Ev.cifStart = SKIP_SIBLINGS
            ∨ p W.init.n Ev.cifStart = END) := by
          intro h
          rcases h with h | h | h
          · exact h1 (Or.inr h)
          · exact h2 h
          · exact he h
        simp only [h', if_false]
        simp [he]

-- ---- facts about the pruning semantics ---------------------------------------------------------------------------

/-- the answers of `p` to the events `l`, delivered as invocations `n, n+1, …`, are all navigation answers other than END -/
def Clean (p : Prog) : Nat → List Ev → Prop
  | _, [] => True
  | n, e :: l => ¬ isStop (p n e) ∧ Clean p (n + 1) l

theorem clean_append (p : Prog) : ∀ (a b : List Ev) (n : Nat),
    Clean p n (a ++ b) ↔ Clean p n a ∧ Clean p (n + a.length) b
  | [], b, n => by simp [Clean]
  | e :: a, b, n => by
    simp only [List.cons_append, Clean, List.length_cons, clean_append p a b (n + 1)]
    rw [show n + 1 + a.length = n + (a.length + 1) by omega]
    exact and_assoc.symm

theorem clean_get (p : Prog) : ∀ (l : List Ev) (n : Nat), Clean p n l →
    ∀ (i : Nat) (h : i < l.length), ¬ isStop (p (n + i) l[i])
  | [], _, _, i, h => by simp at h
  | e :: l, n, hc, 0, _ => by simpa using hc.1
  | e :: l, n, hc, i + 1, h => by
    have := clean_get p l (n + 1) hc.2 i (by simpa using h)
    simpa [show n + (i + 1) = n + 1 + i by omega] using this

/-- what `run` / `runList` did between `w` and the resulting state: the callbacks `l` were appended; unless the outcome
    is `stop`, every answer was a non-stopping one; if it is `stop r`, the last callback answered `r` and all the
    earlier ones were non-stopping -/
def Trace (p : Prog) (w : W) (x : Out × W) : Prop :=
  ∃ l : List Ev, x.2.log = l.reverse ++ w.log ∧ x.2.n = w.n + l.length ∧
    match x.1 with
    | .stop r => (∃ l0 e, l = l0 ++ [e] ∧ Clean p w.n l0 ∧ p (w.n + l0.length) e = r ∧ isStop r)
        ∨ (Clean p w.n l ∧ r = EMPTY_LOOP)        -- a failure point of the tree: no callback answered `r`
    | _ => Clean p w.n l

theorem not_isStop_of_go {r : Int} (h : classify r = .go) : ¬ isStop r := by
  have := classify_eq_go h
  unfold isStop
  intro h'
  rcases this with h1 | h1
  · exact h' (Or.inl h1)
  · exact h' (Or.inr (Or.inl h1))

theorem not_isStop_of_sib {r : Int} (h : classify r = .sib) : ¬ isStop r := by
  have := classify_eq_sib h
  unfold isStop
  intro h'
  exact h' (Or.inr (Or.inr this))

theorem trace_call (p : Prog) (w : W) (e : Ev) : Trace p w (classify (p w.n e), (call p w e).2) := by
  refine ⟨[e], by simp [call], by simp [call], ?_⟩
  generalize hc : classify (p w.n e) = o
  cases o with
  | go => exact ⟨not_isStop_of_go hc, trivial⟩
  | sib => exact ⟨not_isStop_of_sib hc, trivial⟩
  | stop r =>
    have := classify_eq_stop hc
    exact Or.inl ⟨[], e, rfl, trivial, by simpa using this.1.symm, this.1 ▸ this.2⟩

/-- sequencing: a non-stopping stretch followed by anything -/
theorem trace_trans (p : Prog) (w w1 : W) (o1 : Out) (x : Out × W) (h1 : Trace p w (o1, w1))
    (hns : ∀ r, o1 ≠ .stop r) (h2 : Trace p w1 x) : Trace p w x := by
  obtain ⟨l1, hl1, hn1, hc1⟩ := h1
  obtain ⟨l2, hl2, hn2, hc2⟩ := h2
  have hclean1 : Clean p w.n l1 := by
    cases o1 with
    | go => exact hc1
    | sib => exact hc1
    | stop r => exact absurd rfl (hns r)
  simp only at hl1 hn1
  refine ⟨l1 ++ l2, by simp [hl2, hl1], by simp [hn2, hn1]; omega, ?_⟩
  rcases x with ⟨o, w2⟩
  cases o with
  | go => exact (clean_append p l1 l2 w.n).mpr ⟨hclean1, hn1 ▸ hc2⟩
  | sib => exact (clean_append p l1 l2 w.n).mpr ⟨hclean1, hn1 ▸ hc2⟩
  | stop r =>
    rcases hc2 with ⟨l0, e, he, hc0, hp0, hs⟩ | ⟨hc0, hr⟩
    · refine Or.inl ⟨l1 ++ l0, e, by simp [he], (clean_append p l1 l0 w.n).mpr ⟨hclean1, hn1 ▸ hc0⟩, ?_, hs⟩
      rw [← hp0, hn1]
      simp [Nat.add_assoc]
    · exact Or.inr ⟨(clean_append p l1 l2 w.n).mpr ⟨hclean1, hn1 ▸ hc0⟩, hr⟩

theorem trace_go_of_sib (p : Prog) (w w1 : W) (h : Trace p w (.sib, w1)) : Trace p w (.go, w1) := h

theorem trace_finish (p : Prog) (e : Ev) (w : W) (x : Out × W) (h : Trace p w x) : Trace p w (finish p e x) := by
  rcases x with ⟨o, w1⟩
  cases o with
  | go =>
    simp only [finish]
    exact trace_trans p w w1 .go _ h (by intro r hr; cases hr) (trace_call p w1 e)
  | sib => exact h
  | stop r => exact h

mutual
  theorem run_trace (p : Prog) : ∀ (t : ETree) (w : W), Trace p w (run p t w)
    | .leaf e, w => by simp only [run]; exact trace_call p w e
    | .fail, w => by
      simp only [run]
      exact ⟨[], by simp, by simp, Or.inr ⟨trivial, rfl⟩⟩
    | .node s g1 g2 e, w => by
      simp only [run]
      by_cases hc : p w.n s = CONTINUE
      · simp only [hc, if_true]
        have hstart : Trace p w (.go, (call p w s).2) := by
          have := trace_call p w s
          rwa [hc, classify_go (Or.inl rfl)] at this
        have h1 := runList_trace p g1 (call p w s).2
        generalize runList p g1 (call p w s).2 = x1 at h1
        rcases x1 with ⟨o1, w1⟩
        cases o1 with
        | stop r => exact trace_trans p w _ .go _ hstart (by intro r hr; cases hr) h1
        | go =>
          have h01 := trace_trans p w _ .go _ hstart (by intro r hr; cases hr) h1
          exact trace_trans p w w1 .go _ h01 (by intro r hr; cases hr) (trace_finish p e w1 _ (runList_trace p g2 w1))
        | sib =>
          have h01 := trace_trans p w _ .go _ hstart (by intro r hr; cases hr) h1
          exact trace_trans p w w1 .sib _ h01 (by intro r hr; cases hr) (trace_finish p e w1 _ (runList_trace p g2 w1))
      · simp only [hc, if_false]
        exact trace_call p w s
  theorem runList_trace (p : Prog) : ∀ (ts : List ETree) (w : W), Trace p w (runList p ts w)
    | [], w => ⟨[], by simp [runList], by simp [runList], trivial⟩
    | t :: ts, w => by
      simp only [runList]
      have h1 := run_trace p t w
      generalize run p t w = x1 at h1
      rcases x1 with ⟨o1, w1⟩
      cases o1 with
      | go => exact trace_trans p w w1 .go _ h1 (by intro r hr; cases hr) (runList_trace p ts w1)
      | sib => exact h1
      | stop r => exact h1
end

/-- a stopping answer is the last callback and determines the result; without one the result is CIF_OK, unless the walk ran
    into a failure point (a packet-less loop) -/
theorem stop_of_trace (p : Prog) (x : Out × W) (ht : Trace p W.init x) :
    (∀ (k : Nat) (h : k < x.2.log.reverse.length), isStop (p k x.2.log.reverse[k]) →
        k + 1 = x.2.log.reverse.length ∧
        finalCode x.1 = (if p k x.2.log.reverse[k] = END then OK else p k x.2.log.reverse[k]))
    ∧ ((∀ (k : Nat) (h : k < x.2.log.reverse.length), ¬ isStop (p k x.2.log.reverse[k])) →
        finalCode x.1 = OK ∨ x.1 = .stop EMPTY_LOOP) := by
  rcases x with ⟨o, w1⟩
  obtain ⟨l, hl, hn, hc⟩ := ht
  simp only [W.init, List.append_nil] at hl hn
  simp only [hl, List.reverse_reverse]
  cases o with
  | go =>
    refine ⟨fun k h hs => absurd hs ?_, fun _ => Or.inl rfl⟩
    simpa using clean_get p l 0 hc k h
  | sib =>
    refine ⟨fun k h hs => absurd hs ?_, fun _ => Or.inl rfl⟩
    simpa using clean_get p l 0 hc k h
  | stop r =>
    rcases hc with ⟨l0, e, he, hc0, hp0, hs0⟩ | ⟨hc0, hr⟩
    · simp only [W.init, Nat.zero_add] at hp0
      subst he
      have hlast : (l0 ++ [e])[l0.length]'(by simp) = e := by simp
      constructor
      · intro k h hs
        have hk : k = l0.length := by
          by_cases hlt : k < l0.length
          · have := clean_get p l0 0 hc0 k hlt
            simp only [Nat.zero_add] at this
            rw [List.getElem_append_left hlt] at hs
            exact absurd hs this
          · simp at h; omega
        subst hk
        simp only [hlast, hp0, finalCode, List.length_append, List.length_singleton, and_self]
      · intro hall
        have := hall l0.length (by simp)
        rw [hlast, hp0] at this
        exact absurd hs0 this
    · subst hr
      refine ⟨fun k h hs => absurd hs ?_, fun _ => Or.inr rfl⟩
      simpa using clean_get p l 0 hc0 k h

theorem spec_stop (p : Prog) (c : WCif) :
    (∀ (k : Nat) (h : k < (walkSpec p c).1.length), isStop (p k (walkSpec p c).1[k]) →
        k + 1 = (walkSpec p c).1.length ∧
        (walkSpec p c).2 = (if p k (walkSpec p c).1[k] = END then OK else p k (walkSpec p c).1[k]))
    ∧ ((∀ (k : Nat) (h : k < (walkSpec p c).1.length), ¬ isStop (p k (walkSpec p c).1[k])) →
        (walkSpec p c).2 = OK ∨ (walkSpec p c).2 = EMPTY_LOOP) := by
  have h := stop_of_trace p (run p (cifTree c) W.init) (run_trace p (cifTree c) W.init)
  refine ⟨h.1, fun hall => ?_⟩
  rcases h.2 hall with h1 | h1
  · exact Or.inl h1
  · right
    show finalCode (run p (cifTree c) W.init).1 = EMPTY_LOOP
    rw [h1]; decide

-- ---- trees without failure points -----------------------------------------------------------------------------------------

theorem noFailList_map_leaf (is : List (Str × V)) : noFailList (is.map itemTree) = true := by
  induction is with
  | nil => rfl
  | cons a r ih => simp [noFailList, noFail, itemTree, ih]

theorem noFailList_packets (pks : List (List (Str × V))) : noFailList (pks.map packetTree) = true := by
  induction pks with
  | nil => rfl
  | cons a r ih => simp [noFailList, noFail, packetTree, noFailList_map_leaf, ih]

theorem noFailList_loops : ∀ (ls : List WLoop), ls.all (fun l => !l.packets.isEmpty) = true →
    noFailList (ls.map loopTree) = true
  | [], _ => rfl
  | l :: ls, h => by
    simp only [List.all_cons, Bool.and_eq_true, Bool.not_eq_true'] at h
    simp only [List.map, noFailList, loopTree, noFail, h.1, Bool.false_eq_true, if_false, noFailList_packets, Bool.and_self,
      Bool.true_and]
    exact noFailList_loops ls h.2

mutual
  theorem noFail_cont : ∀ (d : Nat) (c : WCont), noEmptyLoop c = true → noFail (contTree d c) = true
    | d, .mk code frames loops, h => by
      simp only [noEmptyLoop, Bool.and_eq_true] at h
      simp only [contTree, noFail, noFail_conts (d + 1) frames h.1, noFailList_loops loops h.2, Bool.and_self]
  theorem noFail_conts : ∀ (d : Nat) (cs : List WCont), noEmptyLoops cs = true → noFailList (contTrees d cs) = true
    | d, [], _ => rfl
    | d, c :: cs, h => by
      simp only [noEmptyLoops, Bool.and_eq_true] at h
      simp only [contTrees, noFailList, noFail_cont d c h.1, noFail_conts d cs h.2, Bool.and_self]
end

theorem noFail_cif (c : WCif) (h : noEmptyLoops c = true) : noFail (cifTree c) = true := by
  simp only [cifTree, noFail, noFailList, noFail_conts 0 c h, Bool.and_self]

mutual
  /-- in a tree without failure points a `stop r` outcome carries a handler's answer -/
  theorem run_fromprog (p : Prog) : ∀ (t : ETree) (w w' : W) (r : Int), noFail t = true → run p t w = (.stop r, w') →
      ∃ k e, p k e = r
    | .leaf e, w, w', r, _, h => by
      simp only [run] at h
      injection h with h1 h2
      exact ⟨_, _, (classify_eq_stop h1).1.symm⟩
    | .fail, _, _, _, hnf, _ => by simp [noFail] at hnf
    | .node s g1 g2 e, w, w', r, hnf, h => by
      simp only [noFail, Bool.and_eq_true] at hnf
      simp only [run] at h
      have hfin : ∀ (x : Out × W), (∀ r' w1, x = (.stop r', w1) → ∃ k e, p k e = r') → finish p e x = (.stop r, w') →
          ∃ k e, p k e = r := by
        intro x hx hf
        rcases x with ⟨o, w1⟩
        cases o with
        | go =>
          simp only [finish] at hf
          injection hf with h1 h2
          exact ⟨_, _, (classify_eq_stop h1).1.symm⟩
        | sib => simp [finish] at hf
        | stop r' =>
          simp only [finish] at hf
          injection hf with h1 h2
          injection h1 with h1
          subst h1
          exact hx _ _ rfl
      by_cases hc : p w.n s = CONTINUE
      · simp only [hc, if_true] at h
        generalize h1 : runList p g1 (call p w s).2 = x1 at h
        rcases x1 with ⟨o1, w1⟩
        cases o1 with
        | stop r1 =>
          simp only at h
          injection h with h2 h3
          injection h2 with h2
          subst h2
          exact runList_fromprog p g1 _ _ _ hnf.1 h1
        | go =>
          simp only at h
          exact hfin _ (fun r' w2 hx => runList_fromprog p g2 _ _ _ hnf.2 hx) h
        | sib =>
          simp only at h
          exact hfin _ (fun r' w2 hx => runList_fromprog p g2 _ _ _ hnf.2 hx) h
      · simp only [hc, if_false] at h
        injection h with h1 h2
        exact ⟨_, _, (classify_eq_stop h1).1.symm⟩
  theorem runList_fromprog (p : Prog) : ∀ (ts : List ETree) (w w' : W) (r : Int), noFailList ts = true →
      runList p ts w = (.stop r, w') → ∃ k e, p k e = r
    | [], w, w', r, _, h => by simp [runList] at h
    | t :: ts, w, w', r, hnf, h => by
      simp only [noFailList, Bool.and_eq_true] at hnf
      simp only [runList] at h
      generalize h1 : run p t w = x1 at h
      rcases x1 with ⟨o1, w1⟩
      cases o1 with
      | go => exact runList_fromprog p ts _ _ _ hnf.2 h
      | sib => simp at h
      | stop r1 =>
        simp only at h
        injection h with h2 h3
        injection h2 with h2
        subst h2
        exact run_fromprog p t _ _ _ hnf.1 h1
end

/-- the program that always continues -/
def allCont : Prog := fun _ _ => CONTINUE

mutual
  theorem run_allCont : ∀ (t : ETree) (w : W), noFail t = true →
      run allCont t w = (.go, { n := w.n + (flatten t).length, log := (flatten t).reverse ++ w.log })
    | .leaf e, w, _ => by
      have hc : classify (allCont w.n e) = .go := classify_go (Or.inl rfl)
      simp [run, hc, call, flatten]
    | .fail, _, h => by simp [noFail] at h
    | .node s g1 g2 e, w, h => by
      simp only [noFail, Bool.and_eq_true] at h
      have hc : ∀ k e, classify (allCont k e) = .go := fun _ _ => classify_go (Or.inl rfl)
      have h0 : allCont w.n s = CONTINUE := rfl
      simp only [run, h0, if_true, call]
      have h1 := runList_allCont g1 { n := w.n + 1, log := s :: w.log } h.1
      rw [h1]
      have h2 := runList_allCont g2
        { n := w.n + 1 + (flattenList g1).length, log := (flattenList g1).reverse ++ s :: w.log } h.2
      simp only [h2, finish, call, flatten, hc]
      simp [Nat.add_assoc, Nat.add_comm, Nat.add_left_comm]
  theorem runList_allCont : ∀ (ts : List ETree) (w : W), noFailList ts = true →
      runList allCont ts w = (.go, { n := w.n + (flattenList ts).length, log := (flattenList ts).reverse ++ w.log })
    | [], w, _ => by simp [runList, flattenList]
    | t :: ts, w, h => by
      simp only [noFailList, Bool.and_eq_true] at h
      simp only [runList, run_allCont t w h.1, runList_allCont ts _ h.2, flattenList]
      simp [Nat.add_assoc]
end

-- ---- what is delivered is a sublist of the full traversal ---------------------------------------------------------------

theorem finish_sublist (p : Prog) (e : Ev) (w : W) (x : Out × W) (l : List Ev) (h : x.2.log = l.reverse ++ w.log) :
    ∃ l' : List Ev, (finish p e x).2.log = l'.reverse ++ w.log ∧ l'.Sublist (l ++ [e]) ∧ l.Sublist l' := by
  rcases x with ⟨o, w1⟩
  cases o with
  | go => exact ⟨l ++ [e], by simp only at h; simp [finish, call, h], List.Sublist.refl _, List.sublist_append_left _ _⟩
  | sib => exact ⟨l, by simpa [finish] using h, List.sublist_append_left _ _, List.Sublist.refl _⟩
  | stop r => exact ⟨l, by simpa [finish] using h, List.sublist_append_left _ _, List.Sublist.refl _⟩

mutual
  theorem run_sublist (p : Prog) : ∀ (t : ETree) (w : W),
      ∃ l : List Ev, (run p t w).2.log = l.reverse ++ w.log ∧ l.Sublist (flatten t)
    | .leaf e, w => ⟨[e], by simp [run, call], by simp [flatten]⟩
    | .fail, w => ⟨[], by simp [run], by simp [flatten]⟩
    | .node s g1 g2 e, w => by
      simp only [run, flatten]
      by_cases hc : p w.n s = CONTINUE
      · simp only [hc, if_true]
        obtain ⟨l1, h1, s1⟩ := runList_sublist p g1 (call p w s).2
        generalize hx : runList p g1 (call p w s).2 = x1 at h1
        rcases x1 with ⟨o1, w1⟩
        have hcall : (call p w s).2.log = s :: w.log := rfl
        have key : ∀ (y : Out × W), y = finish p e (runList p g2 w1) →
            ∃ l : List Ev, y.2.log = l.reverse ++ w.log ∧ l.Sublist (s :: (flattenList g1 ++ (flattenList g2 ++ [e]))) := by
          intro y hy
          obtain ⟨l2, h2, s2⟩ := runList_sublist p g2 w1
          obtain ⟨l3, h3, s3, _⟩ := finish_sublist p e w1 _ l2 h2
          refine ⟨s :: (l1 ++ l3), ?_, ?_⟩
          · rw [hy, h3]; simp only at h1; rw [h1, hcall]; simp
          · exact List.Sublist.cons₂ _ (List.Sublist.append s1 (s3.trans (List.Sublist.append s2 (List.Sublist.refl _))))
        cases o1 with
        | stop r =>
          refine ⟨s :: l1, ?_, List.Sublist.cons₂ _ (s1.trans (List.sublist_append_left _ _))⟩
          simp only at h1 ⊢; rw [h1, hcall]; simp
        | go => exact key _ rfl
        | sib => exact key _ rfl
      · simp only [hc, if_false]
        exact ⟨[s], by simp [call], by simp⟩
  theorem runList_sublist (p : Prog) : ∀ (ts : List ETree) (w : W),
      ∃ l : List Ev, (runList p ts w).2.log = l.reverse ++ w.log ∧ l.Sublist (flattenList ts)
    | [], w => ⟨[], by simp [runList], by simp [flattenList]⟩
    | t :: ts, w => by
      simp only [runList, flattenList]
      obtain ⟨l1, h1, s1⟩ := run_sublist p t w
      generalize hx : run p t w = x1 at h1
      rcases x1 with ⟨o1, w1⟩
      cases o1 with
      | go =>
        obtain ⟨l2, h2, s2⟩ := runList_sublist p ts w1
        refine ⟨l1 ++ l2, ?_, List.Sublist.append s1 s2⟩
        simp only at h1 ⊢; rw [h2, h1]; simp
      | sib => exact ⟨l1, h1, s1.trans (List.sublist_append_left _ _)⟩
      | stop r => exact ⟨l1, h1, s1.trans (List.sublist_append_left _ _)⟩
end

/-- the callbacks of the pruning semantics are, in order, callbacks of the full traversal -/
theorem spec_sublist (p : Prog) (c : WCif) : (walkSpec p c).1.Sublist (fullTraversal c) := by
  obtain ⟨l, h1, h2⟩ := run_sublist p (cifTree c) W.init
  simp only [walkSpec, fullTraversal]
  rw [h1]
  simpa [W.init] using h2

end CifModel.Lemmas.Walk
