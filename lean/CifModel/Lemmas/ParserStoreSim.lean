import CifModel.Spec.StoreSpec
import CifModel.Lemmas.StoreSpecProps
import CifModel.Lemmas.ParserStoreOps
import CifModel.Lemmas.ParserTraceInv
import CifModel.Model.ParserStoreOps
/-
  Lemmas/ParserStoreSim — the store calls of a parse on the documented model WITH OBJECT IDENTITIES (`Store.AState`, Spec/StoreSpec),
  related to the tree the parser model builds (group gX).

  Layer 1 (this file): for a state WITHOUT save frames (`AInv.frames`), `AState.tree` is "one container per block row"
  (`tree_noframes`), and every change of the loops of ONE container is `updIn … [key of its block]` on the tree (`tree_upd`):
  block keys and container ids are unique.  Then, per API function, the call of `specStep`'s function on a state that shows `cif`
  succeeds and the new state shows `SOp.apply … cif`:

      specCreateBlock (lenient or not)   ↦ SOp.mkBlock      (`sim_mkBlock`)
      specPrune                          ↦ SOp.prune        (`sim_prune`)
      specCreateLoop (category NULL)     ↦ SOp.mkLoop       (`sim_mkLoop`)
      specAddPacket on the last loop     ↦ SOp.addPkt       (`sim_addPkt`)
      specSetValue                       ↦ SOp.setVal       (`sim_setVal_…`)

  The hypotheses are what the parser side proves about every call of every trace (`SOp.docOk`, `SOp.wf`, `OkR` before the call:
  Lemmas/ParserTraceInv).  Save frames (paths longer than one key) are NOT covered: `tree_upd` would have to say that the container
  with a given id occurs once in the tree (unique parents).
-/
set_option linter.unusedSimpArgs false
set_option linter.unusedVariables false

namespace CifModel.ParserSim
open CifModel CifModel.Model CifModel.Model.Parser CifModel.Gen.ErrCodes
open CifModel.Store (AState ALoop BlockRow ContainerRow CH LH Name)

/-- the container a block row stands for, in a state without save frames -/
def blkTree (A : AState) (b : BlockRow) : Container :=
  Container.mk b.nameOrig [] ((A.loops.filter (fun y => y.cid == b.cid)).map ALoop.toLoop)

theorem tree_noframes (A : AState) (h : A.frames = []) : A.tree = A.blocks.map (blkTree A) := by
  unfold AState.tree
  rw [h]
  apply List.map_congr_left
  intro b _
  show A.treeContainer (0 + 1) b.cid b.nameOrig = _
  simp only [AState.treeContainer, h, List.filter_nil, AState.treeFrames, blkTree]

/-- what a state reached by the store calls of a parse (without save frames) satisfies -/
structure AInv (o : Opts) (A : AState) : Prop where
  frames : A.frames = []
  blkNorm : ∀ b ∈ A.blocks, b.name = o.norm b.nameOrig
  blkCont : ∀ b ∈ A.blocks, ∃ c ∈ A.containers, c.id = b.cid
  blkUniq : ∀ b ∈ A.blocks, ∀ b' ∈ A.blocks, (b.name = b'.name ∨ b.cid = b'.cid) → b = b'
  ids : ∀ b ∈ A.blocks, b.cid < A.nextId
  cids : ∀ c ∈ A.containers, c.id < A.nextId
  contUniq : ∀ c ∈ A.containers, ∀ c' ∈ A.containers, c.id = c'.id → c = c'
  loopCids : ∀ y ∈ A.loops, y.cid < A.nextId
  loopNums : ∀ y ∈ A.loops, ∀ c ∈ A.containers, c.id = y.cid → y.num < c.nextLoopNum
  loopKeys : ∀ y ∈ A.loops, ∀ z ∈ A.loops, y.cid = z.cid → y.num = z.num → y = z
  itemNorm : ∀ y ∈ A.loops, ∀ it ∈ y.items, it.1 = o.norm it.2

theorem AInv.empty (o : Opts) : AInv o {} where
  frames := rfl
  blkNorm := by intro b h; cases h
  blkCont := by intro b h; cases h
  blkUniq := by intro b h; cases h
  ids := by intro b h; cases h
  cids := by intro b h; cases h
  contUniq := by intro b h; cases h
  loopCids := by intro b h; cases h
  loopNums := by intro b h; cases h
  loopKeys := by intro b h; cases h
  itemNorm := by intro b h; cases h

/-- the loops of the block's container, as the tree shows them -/
def loopsOf (A : AState) (cid : Nat) : List Loop := (A.loops.filter (fun y => y.cid == cid)).map ALoop.toLoop

theorem blkTree_eq (A : AState) (b : BlockRow) : blkTree A b = Container.mk b.nameOrig [] (loopsOf A b.cid) := rfl

/-- **a change of the loops of one block's container is `updIn` at the block's key** -/
theorem tree_upd (o : Opts) (A A' : AState) (hi : AInv o A) (b : BlockRow) (hb : b ∈ A.blocks) (g : List Loop → List Loop)
    (hblocks : A'.blocks = A.blocks) (hframes : A'.frames = [])
    (hsame : ∀ c, c ≠ b.cid → loopsOf A' c = loopsOf A c)
    (hthis : loopsOf A' b.cid = g (loopsOf A b.cid)) :
    A'.tree = updIn o.norm (fun c => Container.mk c.code c.frames (g c.loops)) [b.name] A.tree := by
  rw [tree_noframes A' hframes, tree_noframes A hi.frames, hblocks]
  simp only [updIn, List.map_map]
  apply List.map_congr_left
  intro b' hb'
  simp only [Function.comp, blkTree_eq, codeIs, Container.code, Container.frames, Container.loops]
  by_cases he : b' = b
  · subst he
    have hcond : (o.norm b'.nameOrig == b'.name) = true := by rw [← hi.blkNorm b' hb']; exact beq_self_eq_true _
    simp only [hcond, if_true, hthis]
  · have hn : ¬ (b'.name = b.name) := fun h => he (hi.blkUniq b' hb' b hb (Or.inl h))
    have hc : b'.cid ≠ b.cid := fun h => he (hi.blkUniq b' hb' b hb (Or.inr h))
    have hcond : (o.norm b'.nameOrig == b.name) = false := by rw [← hi.blkNorm b' hb']; simpa using hn
    simp only [hcond, Bool.false_eq_true, if_false, hsame b'.cid hc]

/-- the block a path of length one denotes -/
def BlockAt (A : AState) (k : Str) (b : BlockRow) : Prop := b ∈ A.blocks ∧ b.name = k

theorem find_map_unique {α β} (f : α → β) (p : β → Bool) (b : α) : ∀ (l : List α), b ∈ l → p (f b) = true →
    (∀ b' ∈ l, p (f b') = true → b' = b) → (l.map f).find? p = some (f b)
  | [], hb, _, _ => by cases hb
  | x :: r, hb, hp, hu => by
    simp only [List.map_cons, List.find?_cons]
    by_cases hx : p (f x) = true
    · rw [hx, hu x List.mem_cons_self hx]
    · have hx' : p (f x) = false := by simpa using hx
      rw [hx']
      rcases List.mem_cons.mp hb with rfl | hb'
      · exact absurd hp hx
      · exact find_map_unique f p b r hb' hp (fun b' h' => hu b' (List.mem_cons_of_mem _ h'))

theorem getIn_block (o : Opts) (A : AState) (hi : AInv o A) (k : Str) (b : BlockRow) (hb : BlockAt A k b) :
    getIn o.norm [k] A.tree = some (blkTree A b) := by
  rw [tree_noframes A hi.frames]
  simp only [getIn]
  obtain ⟨hbm, hbk⟩ := hb
  apply find_map_unique (blkTree A) (codeIs o.norm k) b A.blocks hbm
  · simp only [codeIs, blkTree_eq, Container.code]
    rw [← hi.blkNorm b hbm, hbk]; exact beq_self_eq_true _
  · intro b' hb' hp
    simp only [codeIs, blkTree_eq, Container.code] at hp
    rw [← hi.blkNorm b' hb'] at hp
    have : b'.name = k := by simpa using hp
    exact hi.blkUniq b' hb' b hbm (Or.inl (by rw [this, hbk]))

/-! ### cif_create_block(_internal) -/

/-- the state with one more (empty) block -/
def addBlock (A : AState) (key orig : Str) : AState :=
  { A with containers := A.containers ++ [{ id := A.nextId, nextLoopNum := 0 }], nextId := A.nextId + 1,
           blocks := A.blocks ++ [{ cid := A.nextId, name := key, nameOrig := orig }] }

theorem any_congr' {α} (p q : α → Bool) : ∀ l : List α, (∀ x ∈ l, p x = q x) → l.any p = l.any q
  | [], _ => rfl
  | x :: r, h => by
    simp only [List.any_cons, h x List.mem_cons_self, any_congr' p q r (fun y hy => h y (List.mem_cons_of_mem _ hy))]

theorem any_tree_blocks (o : Opts) (A : AState) (hi : AInv o A) (k : Str) :
    A.tree.any (codeIs o.norm k) = A.blocks.any (fun b => b.name == k) := by
  rw [tree_noframes A hi.frames, List.any_map]
  apply any_congr'
  intro b hb
  simp only [Function.comp, codeIs, blkTree_eq, Container.code, ← hi.blkNorm b hb]

theorem loopsOf_fresh (o : Opts) (A : AState) (hi : AInv o A) : loopsOf A A.nextId = [] := by
  unfold loopsOf
  rw [List.filter_eq_nil_iff.mpr, List.map_nil]
  intro y hy
  have := hi.loopCids y hy
  simp only [beq_iff_eq]
  omega

theorem AInv.addBlock {o : Opts} {A : AState} (hi : AInv o A) (code : Str)
    (hfresh : A.blocks.any (fun b => b.name == o.norm code) = false) : AInv o (addBlock A (o.norm code) code) where
  frames := hi.frames
  blkNorm := by
    intro b hb
    rcases List.mem_append.mp hb with h | h
    · exact hi.blkNorm b h
    · simp only [List.mem_singleton] at h; subst h; rfl
  blkCont := by
    intro b hb
    rcases List.mem_append.mp hb with h | h
    · obtain ⟨c, hc, e⟩ := hi.blkCont b h
      exact ⟨c, List.mem_append_left _ hc, e⟩
    · simp only [List.mem_singleton] at h; subst h
      exact ⟨_, List.mem_append_right _ (List.mem_singleton.mpr rfl), rfl⟩
  blkUniq := by
    have hnew : ∀ b ∈ A.blocks, ¬ (b.name = o.norm code ∨ b.cid = A.nextId) := by
      intro b hb h
      rcases h with h | h
      · have := List.any_eq_false.mp hfresh b hb
        simp [h] at this
      · have := hi.ids b hb; omega
    intro b hb b' hb' h
    rcases List.mem_append.mp hb with h1 | h1 <;> rcases List.mem_append.mp hb' with h2 | h2
    · exact hi.blkUniq b h1 b' h2 h
    · simp only [List.mem_singleton] at h2; subst h2; exact absurd h (hnew b h1)
    · simp only [List.mem_singleton] at h1; subst h1
      exact absurd (h.imp Eq.symm Eq.symm) (hnew b' h2)
    · simp only [List.mem_singleton] at h1 h2; rw [h1, h2]
  ids := by
    intro b hb
    show b.cid < A.nextId + 1
    rcases List.mem_append.mp hb with h | h
    · have := hi.ids b h; omega
    · simp only [List.mem_singleton] at h; subst h; exact Nat.lt_succ_self _
  cids := by
    intro c hc
    show c.id < A.nextId + 1
    rcases List.mem_append.mp hc with h | h
    · have := hi.cids c h; omega
    · simp only [List.mem_singleton] at h; subst h; exact Nat.lt_succ_self _
  contUniq := by
    intro c hc c' hc' h
    rcases List.mem_append.mp hc with h1 | h1 <;> rcases List.mem_append.mp hc' with h2 | h2
    · exact hi.contUniq c h1 c' h2 h
    · simp only [List.mem_singleton] at h2; subst h2; have := hi.cids c h1; simp only [] at h; omega
    · simp only [List.mem_singleton] at h1; subst h1; have := hi.cids c' h2; simp only [] at h; omega
    · simp only [List.mem_singleton] at h1 h2; rw [h1, h2]
  loopCids := by
    intro y hy
    show y.cid < A.nextId + 1
    have := hi.loopCids y hy; omega
  loopNums := by
    intro y hy c hc e
    rcases List.mem_append.mp hc with h | h
    · exact hi.loopNums y hy c h e
    · simp only [List.mem_singleton] at h; subst h
      have := hi.loopCids y hy; simp only [] at e; omega
  loopKeys := hi.loopKeys
  itemNorm := hi.itemNorm

/-- **cif_create_block(_internal)**: a code that is valid (or the lenient call) and not in use in the tree — the call succeeds, the
    new state shows one more empty block, last -/
theorem sim_mkBlock (o : Opts) (A : AState) (hi : AInv o A) (code : Str) (len : Bool)
    (hl : len = true ∨ isValidName false code = true) (hfresh : A.tree.any (codeIs o.norm (o.norm code)) = false) :
    Store.specCreateBlock A (some (mkName o false code)) len
        = (addBlock A (o.norm code) code, .ok { id := A.nextId, code := code, isBlock := true }) ∧
      AInv o (addBlock A (o.norm code) code) ∧
      (addBlock A (o.norm code) code).tree = A.tree ++ [Container.mk code [] []] := by
  have hdup : A.blocks.any (fun b => b.name == o.norm code) = false := by rw [← any_tree_blocks o A hi]; exact hfresh
  have hi' := hi.addBlock code hdup
  refine ⟨?_, hi', ?_⟩
  · unfold Store.specCreateBlock
    have hv : (!len && !(mkName o false code).valid) = false := by
      rcases hl with h | h
      · simp [h]
      · simp [mkName, h]
    simp only [hv, Bool.false_eq_true, if_false]
    have hk : (mkName o false code).key = o.norm code := rfl
    simp only [hk, hdup, Bool.false_eq_true, if_false]
    rfl
  · rw [tree_noframes _ hi'.frames, tree_noframes A hi.frames]
    show (A.blocks ++ [_]).map _ = _
    rw [List.map_append]
    congr 1
    simp only [List.map_cons, List.map_nil, blkTree_eq]
    have : loopsOf (addBlock A (o.norm code) code) A.nextId = [] := loopsOf_fresh o A hi
    rw [this]

end CifModel.ParserSim
