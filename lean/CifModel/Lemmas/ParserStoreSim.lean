import CifModel.Spec.StoreSpec
import CifModel.Lemmas.StoreSpecProps
import CifModel.Lemmas.ParserStoreOps
import CifModel.Lemmas.ParserTraceInv
import CifModel.Model.ParserStoreOps
/-
  Lemmas/ParserStoreSim — the store calls of a parse on the documented model WITH OBJECT IDENTITIES (`Store.AState`, Spec/StoreSpec),
  related to the tree the parser model builds (group gX).

  Layer 1 (this file): for a state WITHOUT save frames (`AInv.frames`), `AState.tree` is "one container per block row"
  (`tree_noframes`), and every change of the loops of ONE container is `updIn … [key of its block]` on the tree (`tree_upd`):
  block keys and container ids are unique.  Then, per API function, the call of `specStep`'s function on a state that shows `cif`
  succeeds and the new state shows `SOp.apply … cif`:

      specCreateBlock (lenient or not)   ↦ SOp.mkBlock      (`sim_mkBlock`)
      specPrune                          ↦ SOp.prune        (`sim_prune`)
      specCreateLoop (category NULL)     ↦ SOp.mkLoop       (`sim_mkLoop`)
      specAddPacket on the last loop     ↦ SOp.addPkt       (`sim_addPkt`)
      specSetValue                       ↦ SOp.setVal       (`sim_setVal_…`)

  The hypotheses are what the parser side proves about every call of every trace (`SOp.docOk`, `SOp.wf`, `OkR` before the call:
  Lemmas/ParserTraceInv).  Save frames (paths longer than one key) are NOT covered: `tree_upd` would have to say that the container
  with a given id occurs once in the tree (unique parents).
-/
set_option linter.unusedSimpArgs false
set_option linter.unusedVariables false

namespace CifModel.ParserSim
open CifModel CifModel.Model CifModel.Model.Parser CifModel.Gen.ErrCodes
open CifModel.Store (AState ALoop BlockRow ContainerRow CH LH Name)

/-- the container a block row stands for, in a state without save frames -/
def blkTree (A : AState) (b : BlockRow) : Container :=
  Container.mk b.nameOrig [] ((A.loops.filter (fun y => y.cid == b.cid)).map ALoop.toLoop)

theorem tree_noframes (A : AState) (h : A.frames = []) : A.tree = A.blocks.map (blkTree A) := by
  unfold AState.tree
  rw [h]
  apply List.map_congr_left
  intro b _
  show A.treeContainer (0 + 1) b.cid b.nameOrig = _
  simp only [AState.treeContainer, h, List.filter_nil, AState.treeFrames, blkTree]

/-- what a state reached by the store calls of a parse (without save frames) satisfies -/
structure AInv (o : Opts) (A : AState) : Prop where
  frames : A.frames = []
  blkNorm : ∀ b ∈ A.blocks, b.name = o.norm b.nameOrig
  blkCont : ∀ b ∈ A.blocks, ∃ c ∈ A.containers, c.id = b.cid
  blkUniq : ∀ b ∈ A.blocks, ∀ b' ∈ A.blocks, (b.name = b'.name ∨ b.cid = b'.cid) → b = b'
  ids : ∀ b ∈ A.blocks, b.cid < A.nextId
  cids : ∀ c ∈ A.containers, c.id < A.nextId
  contUniq : ∀ c ∈ A.containers, ∀ c' ∈ A.containers, c.id = c'.id → c = c'
  loopCids : ∀ y ∈ A.loops, y.cid < A.nextId
  loopNums : ∀ y ∈ A.loops, ∀ c ∈ A.containers, c.id = y.cid → y.num < c.nextLoopNum
  loopPw : A.loops.Pairwise (fun y z => ¬ (y.cid = z.cid ∧ y.num = z.num))
  itemNorm : ∀ y ∈ A.loops, ∀ it ∈ y.items, it.1 = o.norm it.2

theorem pairwise_unique {α} {R : α → α → Prop} (hs : ∀ a b, R a b → R b a) : ∀ l : List α, l.Pairwise R →
    ∀ y ∈ l, ∀ z ∈ l, ¬ R y z → y = z
  | [], _, _, hy, _, _, _ => by cases hy
  | a :: r, hp, y, hy, z, hz, hn => by
    rw [List.pairwise_cons] at hp
    rcases List.mem_cons.mp hy with rfl | hy' <;> rcases List.mem_cons.mp hz with rfl | hz'
    · rfl
    · exact absurd (hp.1 z hz') hn
    · exact absurd (hs _ _ (hp.1 y hy')) hn
    · exact pairwise_unique hs r hp.2 y hy' z hz' hn

/-- a loop is determined by (container id, loop number) -/
theorem AInv.loopKeys {o : Opts} {A : AState} (hi : AInv o A) : ∀ y ∈ A.loops, ∀ z ∈ A.loops, y.cid = z.cid → y.num = z.num → y = z := by
  intro y hy z hz e1 e2
  apply pairwise_unique (R := fun y z : ALoop => ¬ (y.cid = z.cid ∧ y.num = z.num)) _ A.loops hi.loopPw y hy z hz
  · intro h; exact h ⟨e1, e2⟩
  · intro a b h h'; exact h ⟨h'.1.symm, h'.2.symm⟩

theorem AInv.empty (o : Opts) : AInv o {} where
  frames := rfl
  blkNorm := by intro b h; cases h
  blkCont := by intro b h; cases h
  blkUniq := by intro b h; cases h
  ids := by intro b h; cases h
  cids := by intro b h; cases h
  contUniq := by intro b h; cases h
  loopCids := by intro b h; cases h
  loopNums := by intro b h; cases h
  loopPw := List.Pairwise.nil
  itemNorm := by intro b h; cases h

/-- the loops of the block's container, as the tree shows them -/
def loopsOf (A : AState) (cid : Nat) : List Loop := (A.loops.filter (fun y => y.cid == cid)).map ALoop.toLoop

theorem blkTree_eq (A : AState) (b : BlockRow) : blkTree A b = Container.mk b.nameOrig [] (loopsOf A b.cid) := rfl

/-- **a change of the loops of one block's container is `updIn` at the block's key** -/
theorem tree_upd (o : Opts) (A A' : AState) (hi : AInv o A) (b : BlockRow) (hb : b ∈ A.blocks) (g : List Loop → List Loop)
    (hblocks : A'.blocks = A.blocks) (hframes : A'.frames = [])
    (hsame : ∀ c, c ≠ b.cid → loopsOf A' c = loopsOf A c)
    (hthis : loopsOf A' b.cid = g (loopsOf A b.cid)) :
    A'.tree = updIn o.norm (fun c => Container.mk c.code c.frames (g c.loops)) [b.name] A.tree := by
  rw [tree_noframes A' hframes, tree_noframes A hi.frames, hblocks]
  simp only [updIn, List.map_map]
  apply List.map_congr_left
  intro b' hb'
  simp only [Function.comp, blkTree_eq, codeIs, Container.code, Container.frames, Container.loops]
  by_cases he : b' = b
  · subst he
    have hcond : (o.norm b'.nameOrig == b'.name) = true := by rw [← hi.blkNorm b' hb']; exact beq_self_eq_true _
    simp only [hcond, if_true, hthis]
  · have hn : ¬ (b'.name = b.name) := fun h => he (hi.blkUniq b' hb' b hb (Or.inl h))
    have hc : b'.cid ≠ b.cid := fun h => he (hi.blkUniq b' hb' b hb (Or.inr h))
    have hcond : (o.norm b'.nameOrig == b.name) = false := by rw [← hi.blkNorm b' hb']; simpa using hn
    simp only [hcond, Bool.false_eq_true, if_false, hsame b'.cid hc]

/-- the block a path of length one denotes -/
def BlockAt (A : AState) (k : Str) (b : BlockRow) : Prop := b ∈ A.blocks ∧ b.name = k

theorem find_map_unique {α β} (f : α → β) (p : β → Bool) (b : α) : ∀ (l : List α), b ∈ l → p (f b) = true →
    (∀ b' ∈ l, p (f b') = true → b' = b) → (l.map f).find? p = some (f b)
  | [], hb, _, _ => by cases hb
  | x :: r, hb, hp, hu => by
    simp only [List.map_cons, List.find?_cons]
    by_cases hx : p (f x) = true
    · rw [hx, hu x List.mem_cons_self hx]
    · have hx' : p (f x) = false := by simpa using hx
      rw [hx']
      rcases List.mem_cons.mp hb with rfl | hb'
      · exact absurd hp hx
      · exact find_map_unique f p b r hb' hp (fun b' h' => hu b' (List.mem_cons_of_mem _ h'))

theorem getIn_block (o : Opts) (A : AState) (hi : AInv o A) (k : Str) (b : BlockRow) (hb : BlockAt A k b) :
    getIn o.norm [k] A.tree = some (blkTree A b) := by
  rw [tree_noframes A hi.frames]
  simp only [getIn]
  obtain ⟨hbm, hbk⟩ := hb
  apply find_map_unique (blkTree A) (codeIs o.norm k) b A.blocks hbm
  · simp only [codeIs, blkTree_eq, Container.code]
    rw [← hi.blkNorm b hbm, hbk]; exact beq_self_eq_true _
  · intro b' hb' hp
    simp only [codeIs, blkTree_eq, Container.code] at hp
    rw [← hi.blkNorm b' hb'] at hp
    have : b'.name = k := by simpa using hp
    exact hi.blkUniq b' hb' b hbm (Or.inl (by rw [this, hbk]))

/-! ### cif_create_block(_internal) -/

/-- the state with one more (empty) block -/
def addBlock (A : AState) (key orig : Str) : AState :=
  { A with containers := A.containers ++ [{ id := A.nextId, nextLoopNum := 0 }], nextId := A.nextId + 1,
           blocks := A.blocks ++ [{ cid := A.nextId, name := key, nameOrig := orig }] }

theorem any_congr' {α} (p q : α → Bool) : ∀ l : List α, (∀ x ∈ l, p x = q x) → l.any p = l.any q
  | [], _ => rfl
  | x :: r, h => by
    simp only [List.any_cons, h x List.mem_cons_self, any_congr' p q r (fun y hy => h y (List.mem_cons_of_mem _ hy))]

theorem any_tree_blocks (o : Opts) (A : AState) (hi : AInv o A) (k : Str) :
    A.tree.any (codeIs o.norm k) = A.blocks.any (fun b => b.name == k) := by
  rw [tree_noframes A hi.frames, List.any_map]
  apply any_congr'
  intro b hb
  simp only [Function.comp, codeIs, blkTree_eq, Container.code, ← hi.blkNorm b hb]

theorem loopsOf_fresh (o : Opts) (A : AState) (hi : AInv o A) : loopsOf A A.nextId = [] := by
  unfold loopsOf
  rw [List.filter_eq_nil_iff.mpr, List.map_nil]
  intro y hy
  have := hi.loopCids y hy
  simp only [beq_iff_eq]
  omega

theorem AInv.addBlock {o : Opts} {A : AState} (hi : AInv o A) (code : Str)
    (hfresh : A.blocks.any (fun b => b.name == o.norm code) = false) : AInv o (addBlock A (o.norm code) code) where
  frames := hi.frames
  blkNorm := by
    intro b hb
    rcases List.mem_append.mp hb with h | h
    · exact hi.blkNorm b h
    · simp only [List.mem_singleton] at h; subst h; rfl
  blkCont := by
    intro b hb
    rcases List.mem_append.mp hb with h | h
    · obtain ⟨c, hc, e⟩ := hi.blkCont b h
      exact ⟨c, List.mem_append_left _ hc, e⟩
    · simp only [List.mem_singleton] at h; subst h
      exact ⟨_, List.mem_append_right _ (List.mem_singleton.mpr rfl), rfl⟩
  blkUniq := by
    have hnew : ∀ b ∈ A.blocks, ¬ (b.name = o.norm code ∨ b.cid = A.nextId) := by
      intro b hb h
      rcases h with h | h
      · have := List.any_eq_false.mp hfresh b hb
        simp [h] at this
      · have := hi.ids b hb; omega
    intro b hb b' hb' h
    rcases List.mem_append.mp hb with h1 | h1 <;> rcases List.mem_append.mp hb' with h2 | h2
    · exact hi.blkUniq b h1 b' h2 h
    · simp only [List.mem_singleton] at h2; subst h2; exact absurd h (hnew b h1)
    · simp only [List.mem_singleton] at h1; subst h1
      exact absurd (h.imp Eq.symm Eq.symm) (hnew b' h2)
    · simp only [List.mem_singleton] at h1 h2; rw [h1, h2]
  ids := by
    intro b hb
    show b.cid < A.nextId + 1
    rcases List.mem_append.mp hb with h | h
    · have := hi.ids b h; omega
    · simp only [List.mem_singleton] at h; subst h; exact Nat.lt_succ_self _
  cids := by
    intro c hc
    show c.id < A.nextId + 1
    rcases List.mem_append.mp hc with h | h
    · have := hi.cids c h; omega
    · simp only [List.mem_singleton] at h; subst h; exact Nat.lt_succ_self _
  contUniq := by
    intro c hc c' hc' h
    rcases List.mem_append.mp hc with h1 | h1 <;> rcases List.mem_append.mp hc' with h2 | h2
    · exact hi.contUniq c h1 c' h2 h
    · simp only [List.mem_singleton] at h2; subst h2; have := hi.cids c h1; simp only [] at h; omega
    · simp only [List.mem_singleton] at h1; subst h1; have := hi.cids c' h2; simp only [] at h; omega
    · simp only [List.mem_singleton] at h1 h2; rw [h1, h2]
  loopCids := by
    intro y hy
    show y.cid < A.nextId + 1
    have := hi.loopCids y hy; omega
  loopNums := by
    intro y hy c hc e
    rcases List.mem_append.mp hc with h | h
    · exact hi.loopNums y hy c h e
    · simp only [List.mem_singleton] at h; subst h
      have := hi.loopCids y hy; simp only [] at e; omega
  loopPw := hi.loopPw
  itemNorm := hi.itemNorm

/-- **cif_create_block(_internal)**: a code that is valid (or the lenient call) and not in use in the tree — the call succeeds, the
    new state shows one more empty block, last -/
theorem sim_mkBlock (o : Opts) (A : AState) (hi : AInv o A) (code : Str) (len : Bool)
    (hl : len = true ∨ isValidName false code = true) (hfresh : A.tree.any (codeIs o.norm (o.norm code)) = false) :
    Store.specCreateBlock A (some (mkName o false code)) len
        = (addBlock A (o.norm code) code, .ok { id := A.nextId, code := code, isBlock := true }) ∧
      AInv o (addBlock A (o.norm code) code) ∧
      (addBlock A (o.norm code) code).tree = A.tree ++ [Container.mk code [] []] := by
  have hdup : A.blocks.any (fun b => b.name == o.norm code) = false := by rw [← any_tree_blocks o A hi]; exact hfresh
  have hi' := hi.addBlock code hdup
  refine ⟨?_, hi', ?_⟩
  · unfold Store.specCreateBlock
    have hv : (!len && !(mkName o false code).valid) = false := by
      rcases hl with h | h
      · simp [h]
      · simp [mkName, h]
    simp only [hv, Bool.false_eq_true, if_false]
    have hk : (mkName o false code).key = o.norm code := rfl
    simp only [hk, hdup, Bool.false_eq_true, if_false]
    rfl
  · rw [tree_noframes _ hi'.frames, tree_noframes A hi.frames]
    show (A.blocks ++ [_]).map _ = _
    rw [List.map_append]
    congr 1
    simp only [List.map_cons, List.map_nil, blkTree_eq]
    have : loopsOf (addBlock A (o.norm code) code) A.nextId = [] := loopsOf_fresh o A hi
    rw [this]

/-! ### states that differ in their loops only -/

theorem AInv.ofLoops {o : Opts} {A : AState} (hi : AInv o A) (ls : List ALoop)
    (hcid : ∀ y ∈ ls, y.cid < A.nextId) (hnum : ∀ y ∈ ls, ∀ c ∈ A.containers, c.id = y.cid → y.num < c.nextLoopNum)
    (hkeys : ls.Pairwise (fun y z => ¬ (y.cid = z.cid ∧ y.num = z.num))) (hnorm : ∀ y ∈ ls, ∀ it ∈ y.items, it.1 = o.norm it.2) :
    AInv o { A with loops := ls } where
  frames := hi.frames
  blkNorm := hi.blkNorm
  blkCont := hi.blkCont
  blkUniq := hi.blkUniq
  ids := hi.ids
  cids := hi.cids
  contUniq := hi.contUniq
  loopCids := hcid
  loopNums := hnum
  loopPw := hkeys
  itemNorm := hnorm

theorem AInv.filter {o : Opts} {A : AState} (hi : AInv o A) (q : ALoop → Bool) : AInv o { A with loops := A.loops.filter q } :=
  hi.ofLoops _ (fun y hy => hi.loopCids y (List.mem_filter.mp hy).1) (fun y hy => hi.loopNums y (List.mem_filter.mp hy).1)
    (List.Pairwise.filter q hi.loopPw)
    (fun y hy => hi.itemNorm y (List.mem_filter.mp hy).1)

/-- `onLoop` with a function that keeps the identity of the loop and normalised item keys -/
theorem AInv.onLoop {o : Opts} {A : AState} (hi : AInv o A) (cid num : Nat) (f : ALoop → ALoop)
    (hf : ∀ y ∈ A.loops, (f y).cid = y.cid ∧ (f y).num = y.num ∧ ∀ it ∈ (f y).items, it.1 = o.norm it.2) :
    AInv o (A.onLoop cid num f) := by
  have hF : ∀ y ∈ A.loops, (if (y.cid == cid && y.num == num) = true then f y else y).cid = y.cid ∧
      (if (y.cid == cid && y.num == num) = true then f y else y).num = y.num := by
    intro y hy; split
    · exact ⟨(hf y hy).1, (hf y hy).2.1⟩
    · exact ⟨rfl, rfl⟩
  unfold AState.onLoop
  apply hi.ofLoops
  · intro y hy
    obtain ⟨y0, hy0, rfl⟩ := List.mem_map.mp hy
    rw [(hF y0 hy0).1]; exact hi.loopCids y0 hy0
  · intro y hy c hc e
    obtain ⟨y0, hy0, rfl⟩ := List.mem_map.mp hy
    rw [(hF y0 hy0).2]; rw [(hF y0 hy0).1] at e; exact hi.loopNums y0 hy0 c hc e
  · rw [List.pairwise_map]
    apply List.Pairwise.imp_of_mem _ hi.loopPw
    intro y0 z0 hy0 hz0 hR
    rw [(hF y0 hy0).1, (hF z0 hz0).1, (hF y0 hy0).2, (hF z0 hz0).2]
    exact hR
  · intro y hy
    obtain ⟨y0, hy0, rfl⟩ := List.mem_map.mp hy
    split
    · exact (hf y0 hy0).2.2
    · exact hi.itemNorm y0 hy0

theorem loopsOf_filter (A : AState) (q : ALoop → Bool) (c : Nat) :
    loopsOf { A with loops := A.loops.filter q } c = ((A.loops.filter (fun y => y.cid == c)).filter q).map ALoop.toLoop := by
  unfold loopsOf
  simp only [List.filter_filter]
  congr 1
  apply List.filter_congr
  intro y _
  exact Bool.and_comm _ _

theorem filter_self_of {α} (q : α → Bool) (l : List α) (h : ∀ y ∈ l, q y = true) : l.filter q = l :=
  List.filter_eq_self.mpr h

/-! ### cif_container_prune -/

def pruned (A : AState) (cid : Nat) : AState := { A with loops := A.loops.filter (fun y => !(y.cid == cid && y.packets.isEmpty)) }

theorem pruneC_eq : pruneC = fun c => Container.mk c.code c.frames (c.loops.filter fun l => !l.packets.isEmpty) := by
  funext c; cases c; rfl

/-- **cif_container_prune** on the container of block `b` -/
theorem sim_prune (o : Opts) (A : AState) (hi : AInv o A) (k : Str) (b : BlockRow) (hb : BlockAt A k b) (h : CH) (hh : h.id = b.cid) :
    Store.specPrune A h = (pruned A b.cid, .ok ()) ∧ AInv o (pruned A b.cid) ∧
      (pruned A b.cid).tree = updIn o.norm pruneC [k] A.tree := by
  refine ⟨by unfold Store.specPrune pruned; rw [hh], hi.filter _, ?_⟩
  rw [pruneC_eq, ← hb.2]
  apply tree_upd o A (pruned A b.cid) hi b hb.1 (fun ls => ls.filter fun l => !l.packets.isEmpty) rfl hi.frames
  · intro c hc
    unfold pruned
    rw [loopsOf_filter, filter_self_of]
    · rfl
    · intro y hy
      have : y.cid = c := by simpa using (List.mem_filter.mp hy).2
      have hne : (y.cid == b.cid) = false := by rw [this]; simpa using hc
      simp [hne]
  · unfold pruned
    rw [loopsOf_filter]
    unfold loopsOf
    rw [List.filter_map]
    congr 1
    apply List.filter_congr
    intro y hy
    have : (y.cid == b.cid) = true := (List.mem_filter.mp hy).2
    simp [this, Function.comp, ALoop.toLoop]

/-! ### cif_container_create_loop -/

theorem names_toLoop_any (o : Opts) (y : ALoop) (hn : ∀ it ∈ y.items, it.1 = o.norm it.2) (k : Str) :
    (y.toLoop.names.any fun n => o.norm n == k) = y.hasItem k := by
  unfold ALoop.toLoop ALoop.hasItem
  simp only [List.any_map]
  apply any_congr'
  intro it hit
  simp only [Function.comp, ← hn it hit]

/-- "the container has the item", on the tree and on the identity model -/
theorem hasItem_tree (o : Opts) (A : AState) (hi : AInv o A) (b : BlockRow) (k : Str) :
    hasItem o.norm (blkTree A b) k = A.hasItem b.cid k := by
  unfold hasItem AState.hasItem
  simp only [blkTree_eq, loopsOf, Container.loops, List.any_map, List.any_filter]
  apply any_congr'
  intro y hy
  simp only [Function.comp, names_toLoop_any o y (hi.itemNorm y hy)]

theorem namesFresh_of (o : Opts) (A : AState) (cid : Nat) (cc : Container) (hitem : ∀ k, hasItem o.norm cc k = A.hasItem cid k) :
    ∀ names : List Str, ((names.any fun n => hasItem o.norm cc (o.norm n)) || hasDup (names.map o.norm)) = false →
      A.namesFresh cid (names.map (mkName o true)) = true
  | [], _ => rfl
  | n :: ns, h => by
    simp only [List.any_cons, List.map_cons, hasDup, Bool.or_eq_false_iff] at h
    obtain ⟨⟨h1, h2⟩, h3, h4⟩ := h
    have ih := namesFresh_of o A cid cc hitem ns (by simp only [Bool.or_eq_false_iff]; exact ⟨h2, h4⟩)
    simp only [List.map_cons, AState.namesFresh, ih, Bool.and_true]
    have hk : (mkName o true n).key = o.norm n := rfl
    rw [hk, ← hitem, h1]
    have : (ns.map (mkName o true)).any (fun m => m.key == o.norm n) = false := by
      rw [List.any_map, List.any_eq_false]
      intro x hx
      simp only [Function.comp]
      have hk' : (mkName o true x).key = o.norm x := rfl
      rw [hk']
      intro he
      have : o.norm x = o.norm n := by simpa using he
      have hc : (ns.map o.norm).contains (o.norm n) = true := by
        rw [List.contains_iff_mem, ← this]
        exact List.mem_map_of_mem hx
      rw [hc] at h3; cases h3
    rw [this]; rfl

def incrLoopNum (cid : Nat) (r : ContainerRow) : ContainerRow := if r.id == cid then { r with nextLoopNum := r.nextLoopNum + 1 } else r

/-- the state with one more loop `x` in container `cid` -/
def withLoopG (A : AState) (cid : Nat) (x : ALoop) : AState :=
  { A with containers := A.containers.map (incrLoopNum cid), loops := A.loops ++ [x] }

def newLoop (o : Opts) (cid num : Nat) (names : List Str) : ALoop :=
  { cid := cid, num := num, category := none, items := names.map (fun n => (o.norm n, n)), packets := [] }

/-- the state with one more loop (category NULL, no packet) in container `cid` -/
def withLoop (o : Opts) (A : AState) (cid num : Nat) (names : List Str) : AState := withLoopG A cid (newLoop o cid num names)

/-- the loop the parser is filling: the LAST loop of its container, category NULL, the header's names (distinct after
    normalisation), identified by (container id, loop number) -/
def OpenLoop (o : Opts) (A : AState) (cid num : Nat) (names : List Str) : Prop :=
  ∃ ls0 x, A.loops.filter (fun y => y.cid == cid) = ls0 ++ [x] ∧ x.cid = cid ∧ x.num = num ∧ x.category = none ∧
    x.items = names.map (fun n => (o.norm n, n)) ∧ (names.map o.norm).Nodup

theorem find_container (o : Opts) (A : AState) (hi : AInv o A) (b : BlockRow) (hb : b ∈ A.blocks) :
    ∃ c, c ∈ A.containers ∧ c.id = b.cid ∧ A.containers.find? (fun r => r.id == b.cid) = some c := by
  obtain ⟨c, hc, e⟩ := hi.blkCont b hb
  cases hf : A.containers.find? (fun r => r.id == b.cid) with
  | none =>
    have := List.find?_eq_none.mp hf c hc
    simp [e] at this
  | some c' =>
    have hm := List.mem_of_find?_eq_some hf
    have hk : c'.id = b.cid := by simpa using List.find?_some hf
    exact ⟨c', hm, hk, rfl⟩

theorem nodup_of_hasDup : ∀ ks : List Str, hasDup ks = false → ks.Nodup
  | [], _ => List.nodup_nil
  | k :: ks, h => by
    simp only [hasDup, Bool.or_eq_false_iff] at h
    rw [List.nodup_cons]
    refine ⟨?_, nodup_of_hasDup ks h.2⟩
    intro hm
    have : ks.contains k = true := List.contains_iff_mem.mpr hm
    rw [this] at h; cases h.1

theorem AInv.withLoopG {o : Opts} {A : AState} (hi : AInv o A) (b : BlockRow) (hb : b ∈ A.blocks) (c : ContainerRow)
    (hc : c ∈ A.containers) (hcb : c.id = b.cid) (x : ALoop) (hx1 : x.cid = b.cid) (hx2 : x.num = c.nextLoopNum)
    (hx3 : ∀ it ∈ x.items, it.1 = o.norm it.2) : AInv o (withLoopG A b.cid x) where
  frames := hi.frames
  blkNorm := hi.blkNorm
  blkCont := by
    intro b' hb'
    obtain ⟨c', hc', e⟩ := hi.blkCont b' hb'
    refine ⟨incrLoopNum b.cid c', List.mem_map_of_mem hc', ?_⟩
    unfold incrLoopNum; split <;> exact e
  blkUniq := hi.blkUniq
  ids := hi.ids
  cids := by
    intro c' hc'
    obtain ⟨c0, hc0, rfl⟩ := List.mem_map.mp hc'
    have := hi.cids c0 hc0
    unfold incrLoopNum; split <;> exact this
  contUniq := by
    intro c1 h1 c2 h2 e
    obtain ⟨a1, ha1, rfl⟩ := List.mem_map.mp h1
    obtain ⟨a2, ha2, rfl⟩ := List.mem_map.mp h2
    have e' : a1.id = a2.id := by
      unfold incrLoopNum at e
      split at e <;> split at e <;> exact e
    rw [hi.contUniq a1 ha1 a2 ha2 e']
  loopCids := by
    intro y hy
    rcases List.mem_append.mp hy with h | h
    · exact hi.loopCids y h
    · simp only [List.mem_singleton] at h; subst h; rw [hx1]; exact hi.ids b hb
  loopNums := by
    intro y hy c' hc' e
    obtain ⟨c0, hc0, rfl⟩ := List.mem_map.mp hc'
    have hid : (incrLoopNum b.cid c0).id = c0.id := by unfold incrLoopNum; split <;> rfl
    rw [hid] at e
    have hmono : c0.nextLoopNum ≤ (incrLoopNum b.cid c0).nextLoopNum := by
      unfold incrLoopNum; split
      · exact Nat.le_succ _
      · exact Nat.le_refl _
    rcases List.mem_append.mp hy with h | h
    · have := hi.loopNums y h c0 hc0 e; omega
    · simp only [List.mem_singleton] at h; subst h
      rw [hx1] at e
      have : c0 = c := hi.contUniq c0 hc0 c hc (by rw [e, hcb])
      subst this
      rw [hx2]
      unfold incrLoopNum
      have : (c0.id == b.cid) = true := by simp [hcb]
      simp [this]
  loopPw := by
    show (A.loops ++ [_]).Pairwise _
    rw [List.pairwise_append]
    refine ⟨hi.loopPw, List.pairwise_singleton _ _, ?_⟩
    intro y hy z hz
    simp only [List.mem_singleton] at hz; subst hz
    rintro ⟨e1, e2⟩
    rw [hx1] at e1
    rw [hx2] at e2
    have := hi.loopNums y hy c hc (by rw [hcb, e1])
    omega
  itemNorm := by
    intro y hy it hit
    rcases List.mem_append.mp hy with h | h
    · exact hi.itemNorm y h it hit
    · simp only [List.mem_singleton] at h; subst h
      exact hx3 it hit

theorem AInv.withLoop {o : Opts} {A : AState} (hi : AInv o A) (b : BlockRow) (hb : b ∈ A.blocks) (c : ContainerRow)
    (hc : c ∈ A.containers) (hcb : c.id = b.cid) (names : List Str) : AInv o (withLoop o A b.cid c.nextLoopNum names) :=
  hi.withLoopG b hb c hc hcb _ rfl rfl (by
    intro it hit
    obtain ⟨n, _, rfl⟩ := List.mem_map.mp hit
    rfl)

theorem toLoop_newLoop (o : Opts) (cid num : Nat) (names : List Str) :
    (newLoop o cid num names).toLoop = { category := none, names := names, packets := [] } := by
  unfold newLoop ALoop.toLoop
  simp only [List.map_map]
  congr 1
  conv => rhs; rw [← List.map_id names]
  apply List.map_congr_left
  intro n _; rfl

theorem loopsOf_withLoopG_same (A : AState) (cid : Nat) (x : ALoop) (hx : x.cid = cid) :
    loopsOf (withLoopG A cid x) cid = loopsOf A cid ++ [x.toLoop] := by
  unfold loopsOf withLoopG
  simp only [List.filter_append, List.map_append]
  congr 1
  have : ([x].filter fun y => y.cid == cid) = [x] := by simp [List.filter_cons, hx]
  rw [this, List.map_cons, List.map_nil]

theorem loopsOf_withLoopG_other (A : AState) (cid : Nat) (x : ALoop) (hx : x.cid = cid) (c : Nat) (hc : c ≠ cid) :
    loopsOf (withLoopG A cid x) c = loopsOf A c := by
  unfold loopsOf withLoopG
  simp only [List.filter_append, List.map_append]
  have : ([x].filter fun y => y.cid == c) = [] := by
    have : (cid == c) = false := by simpa using (Ne.symm hc)
    simp [List.filter_cons, hx, this]
  rw [this, List.map_nil, List.append_nil]

theorem loopsOf_withLoop_same (o : Opts) (A : AState) (cid num : Nat) (names : List Str) :
    loopsOf (withLoop o A cid num names) cid = loopsOf A cid ++ [{ category := none, names := names, packets := [] }] := by
  unfold withLoop
  rw [loopsOf_withLoopG_same A cid _ rfl, toLoop_newLoop]

theorem loopsOf_withLoop_other (o : Opts) (A : AState) (cid num : Nat) (names : List Str) (c : Nat) (hc : c ≠ cid) :
    loopsOf (withLoop o A cid num names) c = loopsOf A c :=
  loopsOf_withLoopG_other A cid _ rfl c hc

/-- **cif_container_create_loop** (category NULL) in the container of block `b`: names valid, absent from the container, pairwise
    distinct (`SOp.docOk`) — the call succeeds; the new loop is the last one of the container -/
theorem sim_mkLoop (o : Opts) (A : AState) (hi : AInv o A) (k : Str) (b : BlockRow) (hb : BlockAt A k b) (h : CH) (hh : h.id = b.cid)
    (names : List Str) (hne : names ≠ []) (hv : (names.any fun n => !isValidName true n) = false)
    (hcl : ((names.any fun n => hasItem o.norm (blkTree A b) (o.norm n)) || hasDup (names.map o.norm)) = false) :
    ∃ c, c ∈ A.containers ∧ c.id = b.cid ∧
      Store.specCreateLoop A h none (names.map (mkName o true))
        = (withLoop o A b.cid c.nextLoopNum names, .ok { cid := b.cid, loopNum := c.nextLoopNum, category := none }) ∧
      AInv o (withLoop o A b.cid c.nextLoopNum names) ∧
      (withLoop o A b.cid c.nextLoopNum names).tree =
        updIn o.norm (fun cc => Container.mk cc.code cc.frames (cc.loops ++ [{ category := none, names := names, packets := [] }])) [k] A.tree ∧
      OpenLoop o (withLoop o A b.cid c.nextLoopNum names) b.cid c.nextLoopNum names := by
  obtain ⟨c, hc, hcb, hfind⟩ := find_container o A hi b hb.1
  refine ⟨c, hc, hcb, ?_, hi.withLoop b hb.1 c hc hcb names, ?_, ?_⟩
  · have h1 : (names.map (mkName o true)).isEmpty = false := by
      cases names with
      | nil => exact absurd rfl hne
      | cons _ _ => rfl
    have h2 : (names.map (mkName o true)).any (fun n => !n.valid) = false := by
      rw [List.any_map]; exact hv
    have h3 : A.namesFresh b.cid (names.map (mkName o true)) = true :=
      namesFresh_of o A b.cid (blkTree A b) (hasItem_tree o A hi b) names hcl
    unfold Store.specCreateLoop Store.specCreateLoopI
    simp only [h1, h2, hh, hfind, h3, Bool.false_eq_true, if_false, Bool.not_true]
    have : ((none : Option Str) == some []) = false := rfl
    simp only [this, Bool.false_and, Bool.false_eq_true, if_false]
    unfold withLoop withLoopG newLoop
    simp only [List.map_map]
    rfl
  · rw [← hb.2]
    exact tree_upd o A (withLoop o A b.cid c.nextLoopNum names) hi b hb.1
      (fun ls => ls ++ [{ category := none, names := names, packets := [] }]) rfl hi.frames
      (fun c' hc' => loopsOf_withLoop_other o A b.cid _ names c' hc') (loopsOf_withLoop_same o A b.cid _ names)
  · refine ⟨A.loops.filter (fun y => y.cid == b.cid), newLoop o b.cid c.nextLoopNum names, ?_, rfl, rfl, rfl, rfl, ?_⟩
    · show (A.loops ++ [newLoop o b.cid c.nextLoopNum names]).filter (fun y => y.cid == b.cid) = _
      rw [List.filter_append]
      congr 1
      simp [List.filter_cons, newLoop]
    · simp only [Bool.or_eq_false_iff] at hcl
      exact nodup_of_hasDup _ hcl.2

/-! ### cif_loop_add_packet on the loop being filled -/

def withPkt (A : AState) (cid num : Nat) (vals : List V) : AState :=
  A.onLoop cid num (fun y => { y with packets := y.packets ++ [vals] })

/-- `onLoop` with a function that keeps the container id commutes with the selection of a container's loops -/
theorem filter_onLoop (A : AState) (cid num : Nat) (f : ALoop → ALoop) (hf : ∀ y, (f y).cid = y.cid) (c : Nat) :
    (A.onLoop cid num f).loops.filter (fun y => y.cid == c) =
      (A.loops.filter (fun y => y.cid == c)).map (fun y => if (y.cid == cid && y.num == num) = true then f y else y) := by
  unfold AState.onLoop
  simp only [List.filter_map]
  congr 1
  apply List.filter_congr
  intro y _
  simp only [Function.comp]
  split
  · rw [hf y]
  · rfl

theorem loopsOf_onLoop_other (A : AState) (cid num : Nat) (f : ALoop → ALoop) (hf : ∀ y, (f y).cid = y.cid) (c : Nat) (hc : c ≠ cid) :
    loopsOf (A.onLoop cid num f) c = loopsOf A c := by
  unfold loopsOf
  rw [filter_onLoop A cid num f hf c]
  congr 1
  conv => rhs; rw [← List.map_id (A.loops.filter fun y => y.cid == c)]
  apply List.map_congr_left
  intro y hy
  have : y.cid = c := by simpa using (List.mem_filter.mp hy).2
  have hne : (y.cid == cid) = false := by rw [this]; simpa using hc
  simp [hne]

/-- when the loop (cid, num) is the last loop `x` of its container, `onLoop` changes exactly that one -/
theorem loopsOf_onLoop_last (o : Opts) (A : AState) (hi : AInv o A) (cid num : Nat) (f : ALoop → ALoop) (hf : ∀ y, (f y).cid = y.cid)
    (ls0 : List ALoop) (x : ALoop) (hfl : A.loops.filter (fun y => y.cid == cid) = ls0 ++ [x]) (hxc : x.cid = cid) (hxn : x.num = num) :
    (A.onLoop cid num f).loops.filter (fun y => y.cid == cid) = ls0 ++ [f x] := by
  rw [filter_onLoop A cid num f hf cid, hfl]
  have hpw : (ls0 ++ [x]).Pairwise (fun y z => ¬ (y.cid = z.cid ∧ y.num = z.num)) := by
    rw [← hfl]; exact List.Pairwise.filter _ hi.loopPw
  rw [List.pairwise_append] at hpw
  rw [← hxc, ← hxn]
  apply Store.map_onLoop_append
  intro y hy
  have := hpw.2.2 y hy x (List.mem_singleton.mpr rfl)
  rw [Bool.eq_false_iff]
  intro hk
  simp only [Bool.and_eq_true, beq_iff_eq] at hk
  exact this hk

theorem mem_of_filter_eq {A : AState} {cid : Nat} {ls0 : List ALoop} {x : ALoop}
    (hfl : A.loops.filter (fun y => y.cid == cid) = ls0 ++ [x]) : x ∈ A.loops := by
  have : x ∈ A.loops.filter (fun y => y.cid == cid) := by rw [hfl]; simp
  exact (List.mem_filter.mp this).1

theorem findLoop_of_mem (o : Opts) (A : AState) (hi : AInv o A) (x : ALoop) (hx : x ∈ A.loops) : A.findLoop x.cid x.num = some x := by
  unfold AState.findLoop
  cases hf : A.loops.find? (fun y => y.cid == x.cid && y.num == x.num) with
  | none =>
    have := List.find?_eq_none.mp hf x hx
    simp at this
  | some x' =>
    have hm := List.mem_of_find?_eq_some hf
    have hk := List.find?_some hf
    simp only [Bool.and_eq_true, beq_iff_eq] at hk
    rw [hi.loopKeys x' hm x hx hk.1 hk.2]

/-- **cif_loop_add_packet** of the packet `names ↦ values` on the open loop: the call succeeds and adds exactly the row of values to
    the last loop of the container -/
theorem sim_addPkt (o : Opts) (A : AState) (hi : AInv o A) (k : Str) (b : BlockRow) (hb : BlockAt A k b) (num : Nat) (names : List Str)
    (hop : OpenLoop o A b.cid num names) (vals : List V) (hne : vals ≠ []) (hlen : names.length = vals.length)
    (l : LH) (hl1 : l.cid = b.cid) (hl2 : l.loopNum = num) :
    Store.specAddPacket A l ((names.map o.norm).zip vals) = (withPkt A b.cid num vals, .ok ()) ∧ AInv o (withPkt A b.cid num vals) ∧
      (withPkt A b.cid num vals).tree = updIn o.norm (fun c => Container.mk c.code c.frames (addPacketLast c.loops vals)) [k] A.tree ∧
      OpenLoop o (withPkt A b.cid num vals) b.cid num names := by
  obtain ⟨ls0, x, hfl, hxc, hxn, hcat, hitems, hnd⟩ := hop
  have hxm : x ∈ A.loops := mem_of_filter_eq hfl
  have hfind : A.findLoop b.cid num = some x := by rw [← hxc, ← hxn]; exact findLoop_of_mem o A hi x hxm
  have hfcid : ∀ y : ALoop, ({ y with packets := y.packets ++ [vals] } : ALoop).cid = y.cid := fun _ => rfl
  have hlast := loopsOf_onLoop_last o A hi b.cid num (fun y => { y with packets := y.packets ++ [vals] }) hfcid ls0 x hfl hxc hxn
  have hinv : AInv o (withPkt A b.cid num vals) := hi.onLoop b.cid num _ (fun y hy => ⟨rfl, rfl, hi.itemNorm y hy⟩)
  refine ⟨?_, hinv, ?_, ?_⟩
  · have hpkt : x.packetOf ((names.map o.norm).zip vals) = vals := by
      unfold ALoop.packetOf
      rw [hitems, List.map_map]
      have := zip_lookup (names.map o.norm) vals hnd (by simp [hlen])
      rw [List.map_map] at this
      exact this
    have h1 : ((names.map o.norm).zip vals).isEmpty = false := by
      cases names with
      | nil => cases vals with
        | nil => exact absurd rfl hne
        | cons _ _ => simp at hlen
      | cons _ _ => cases vals with
        | nil => exact absurd rfl hne
        | cons _ _ => rfl
    have h2 : (x.category == some [] && !x.packets.isEmpty) = false := by rw [hcat]; rfl
    have h3 : ((names.map o.norm).zip vals).any (fun e => !x.hasItem e.1) = false := by
      rw [List.any_eq_false]
      intro e he
      have hm := (List.of_mem_zip he).1
      obtain ⟨n, hn1, hn2⟩ := List.mem_map.mp hm
      have : x.hasItem e.1 = true := by
        unfold ALoop.hasItem
        rw [hitems, List.any_map, List.any_eq_true]
        exact ⟨n, hn1, by simp [hn2]⟩
      simp [this]
    unfold Store.specAddPacket
    simp only [h1, hl1, hl2, hfind, h2, h3, Bool.false_eq_true, if_false]
    congr 1
    unfold withPkt
    apply Store.onLoop_congr
    intro z hz hk
    simp only [Bool.and_eq_true, beq_iff_eq] at hk
    have : z = x := hi.loopKeys z hz x hxm (by rw [hk.1, hxc]) (by rw [hk.2, hxn])
    rw [this, hpkt]
  · rw [← hb.2]
    apply tree_upd o A (withPkt A b.cid num vals) hi b hb.1 (fun ls => addPacketLast ls vals) rfl hi.frames
    · intro c hc
      exact loopsOf_onLoop_other A b.cid num _ hfcid c hc
    · unfold loopsOf
      rw [show (withPkt A b.cid num vals).loops.filter (fun y => y.cid == b.cid) = ls0 ++ [{ x with packets := x.packets ++ [vals] }] from hlast,
        hfl, List.map_append, List.map_append, List.map_cons, List.map_nil, List.map_cons, List.map_nil, addPacketLast_append]
      rfl
  · exact ⟨ls0, { x with packets := x.packets ++ [vals] }, hlast, hxc, hxn, hcat, hitems, hnd⟩

/-! ### cif_container_set_value -/

/-- one packet: "the given value in the item's cell" as the identity model says it (`ALoop.setColumn`) and as the parser model does
    it (`setAll`: the first matching cell) — the same, because keys are distinct and the packet is as wide as the header -/
theorem cells_set (o : Opts) (k : Str) (v : V) : ∀ (items : List (Str × Str)) (p : List V),
    (∀ it ∈ items, it.1 = o.norm it.2) → (items.map (·.1)).Nodup → p.length = items.length →
    (items.zip p).map (fun e => if e.1.1 == k then v else e.2) =
      (match (items.map (·.2)).findIdx? (fun n => o.norm n == k) with
       | none => p
       | some i => p.set i v)
  | [], p, _, _, hl => by
    cases p with
    | nil => rfl
    | cons _ _ => simp at hl
  | it :: r, p, hn, hnd, hl => by
    cases p with
    | nil => simp at hl
    | cons c p' =>
      have hit : it.1 = o.norm it.2 := hn it List.mem_cons_self
      have hn' : ∀ it' ∈ r, it'.1 = o.norm it'.2 := fun it' h' => hn it' (List.mem_cons_of_mem _ h')
      simp only [List.map_cons, List.nodup_cons] at hnd
      have hl' : p'.length = r.length := by simpa using hl
      have ih := cells_set o k v r p' hn' hnd.2 hl'
      simp only [List.zip_cons_cons, List.map_cons, List.findIdx?_cons, ← hit]
      by_cases hk : (it.1 == k) = true
      · simp only [hk, if_true, List.set_cons_zero]
        congr 1
        rw [ih]
        have : (r.map (·.2)).findIdx? (fun n => o.norm n == k) = none := by
          rw [List.findIdx?_eq_none_iff]
          intro x hx
          obtain ⟨it', hit', rfl⟩ := List.mem_map.mp hx
          rw [← hn' it' hit']
          have hk' : it.1 = k := by simpa using hk
          rw [Bool.eq_false_iff]
          intro he
          have : it'.1 = k := by simpa using he
          exact hnd.1 (by rw [hk', ← this]; exact List.mem_map_of_mem hit')
        rw [this]
      · have hk' : (it.1 == k) = false := by simpa using hk
        simp only [hk', Bool.false_eq_true, if_false]
        rw [ih]
        cases (r.map (·.2)).findIdx? (fun n => o.norm n == k) with
        | none => rfl
        | some i => simp only [Option.map_some, List.set_cons_succ]

/-- one loop: `setColumn` on the identity model is `setAll` on the tree (keys normalised and distinct, packets rectangular) -/
theorem toLoop_setColumn (o : Opts) (z : ALoop) (k : Str) (v : V) (hn : ∀ it ∈ z.items, it.1 = o.norm it.2)
    (hnd : (z.items.map (·.1)).Nodup) (hrect : ∀ p ∈ z.packets, p.length = z.items.length) :
    (z.setColumn k v).toLoop = setAll o.norm k v z.toLoop := by
  unfold ALoop.setColumn ALoop.toLoop setAll
  simp only []
  cases hfi : (z.items.map (·.2)).findIdx? (fun n => o.norm n == k) with
  | none =>
    simp only []
    congr 1
    conv => rhs; rw [← List.map_id z.packets]
    apply List.map_congr_left
    intro p hp
    rw [cells_set o k v z.items p hn hnd (hrect p hp), hfi]
    rfl
  | some i =>
    simp only []
    congr 1
    apply List.map_congr_left
    intro p hp
    rw [cells_set o k v z.items p hn hnd (hrect p hp), hfi]

theorem keys_eq_norm_names (o : Opts) (z : ALoop) (hn : ∀ it ∈ z.items, it.1 = o.norm it.2) :
    z.toLoop.names.map o.norm = z.items.map (·.1) := by
  unfold ALoop.toLoop
  simp only [List.map_map]
  apply List.map_congr_left
  intro it hit
  simp only [Function.comp, hn it hit]

theorem mem_normNames (o : Opts) (k : Str) (L : List ALoop) (hn : ∀ y ∈ L, ∀ it ∈ y.items, it.1 = o.norm it.2) (z : ALoop) (hz : z ∈ L)
    (hk : z.hasItem k = true) : k ∈ normNames o (L.map ALoop.toLoop) := by
  unfold normNames
  rw [List.mem_flatten]
  refine ⟨z.toLoop.names.map o.norm, ?_, ?_⟩
  · rw [List.map_map]; exact List.mem_map_of_mem (f := (fun l => l.names.map o.norm) ∘ ALoop.toLoop) hz
  · rw [keys_eq_norm_names o z (hn z hz)]
    unfold ALoop.hasItem at hk
    obtain ⟨it, hit, he⟩ := List.any_eq_true.mp hk
    have : it.1 = k := by simpa using he
    rw [← this]
    exact List.mem_map_of_mem hit

/-- at most one loop of a consistent container holds a given item -/
theorem unique_holder (o : Opts) (k : Str) : ∀ (L : List ALoop), (∀ y ∈ L, ∀ it ∈ y.items, it.1 = o.norm it.2) →
    (normNames o (L.map ALoop.toLoop)).Nodup → ∀ y ∈ L, ∀ z ∈ L, y.hasItem k = true → z.hasItem k = true → y = z
  | [], _, _, y, hy, _, _, _, _ => by cases hy
  | a :: r, hn, hnd, y, hy, z, hz, hyk, hzk => by
    rw [List.map_cons, normNames_cons, List.nodup_append] at hnd
    have hn' : ∀ y ∈ r, ∀ it ∈ y.items, it.1 = o.norm it.2 := fun y h' => hn y (List.mem_cons_of_mem _ h')
    have hain : ∀ x : ALoop, x = a → x.hasItem k = true → k ∈ a.toLoop.names.map o.norm := by
      intro x hx hxk
      subst hx
      have := mem_normNames o k [x] (fun y hy' => by simp only [List.mem_singleton] at hy'; subst hy'; exact hn y List.mem_cons_self) x
        (List.mem_singleton.mpr rfl) hxk
      simpa [normNames] using this
    rcases List.mem_cons.mp hy with rfl | hy' <;> rcases List.mem_cons.mp hz with rfl | hz'
    · rfl
    · exact absurd rfl (hnd.2.2 k (hain y rfl hyk) k (mem_normNames o k r hn' z hz' hzk))
    · exact absurd rfl (hnd.2.2 k (hain z rfl hzk) k (mem_normNames o k r hn' y hy' hyk))
    · exact unique_holder o k r hn' hnd.2.1 y hy' z hz' hyk hzk

/-- what the consistency of the container (`LoopsOk`, `LoopsRect` of its loops as the tree shows them) says about its loops in the
    identity model -/
theorem loop_facts (o : Opts) (A : AState) (hi : AInv o A) (cid : Nat) (hok : LoopsOk o (loopsOf A cid)) (hrect : LoopsRect (loopsOf A cid))
    (z : ALoop) (hz : z ∈ A.loops.filter (fun y => y.cid == cid)) :
    (z.items.map (·.1)).Nodup ∧ ∀ p ∈ z.packets, p.length = z.items.length := by
  have hzm : z ∈ A.loops := (List.mem_filter.mp hz).1
  have hzl : z.toLoop ∈ loopsOf A cid := List.mem_map_of_mem hz
  refine ⟨?_, ?_⟩
  · rw [← keys_eq_norm_names o z (hi.itemNorm z hzm)]
    exact nodup_names_of_mem o _ _ hok.1 hzl
  · intro p hp
    have := hrect _ hzl p hp
    simpa [ALoop.toLoop] using this

theorem setAll_lacks (o : Opts) (z : ALoop) (k : Str) (v : V) (hn : ∀ it ∈ z.items, it.1 = o.norm it.2) (hk : z.hasItem k = false) :
    setAll o.norm k v z.toLoop = z.toLoop := by
  unfold setAll
  have : z.toLoop.names.findIdx? (fun n => o.norm n == k) = none := by
    rw [List.findIdx?_eq_none_iff]
    intro x hx
    unfold ALoop.toLoop at hx
    obtain ⟨it, hit, rfl⟩ := List.mem_map.mp hx
    rw [← hn it hit]
    unfold ALoop.hasItem at hk
    exact List.any_eq_false.mp hk it hit |> fun h => by simpa using h
  rw [this]

/-- the loops of container `cid` that hold item `k`: exactly one, when the container has the item -/
theorem holder (o : Opts) (A : AState) (hi : AInv o A) (cid : Nat) (k : Str) (hok : LoopsOk o (loopsOf A cid))
    (hhas : A.hasItem cid k = true) :
    ∃ y, A.loops.filter (fun y => y.cid == cid && y.hasItem k) = [y] ∧ y ∈ A.loops ∧ y.cid = cid ∧ y.hasItem k = true := by
  have hinL : ∀ z, z ∈ A.loops.filter (fun y => y.cid == cid && y.hasItem k) →
      z ∈ A.loops.filter (fun y => y.cid == cid) ∧ z.hasItem k = true := by
    intro z hz
    obtain ⟨hzm, hzp⟩ := List.mem_filter.mp hz
    simp only [Bool.and_eq_true] at hzp
    exact ⟨List.mem_filter.mpr ⟨hzm, hzp.1⟩, hzp.2⟩
  have hnL : ∀ y ∈ A.loops.filter (fun y => y.cid == cid), ∀ it ∈ y.items, it.1 = o.norm it.2 :=
    fun y hy => hi.itemNorm y (List.mem_filter.mp hy).1
  have hpw := List.Pairwise.filter (fun y => y.cid == cid && y.hasItem k) hi.loopPw
  cases hF : A.loops.filter (fun y => y.cid == cid && y.hasItem k) with
  | nil =>
    exfalso
    unfold AState.hasItem at hhas
    obtain ⟨y, hy, hp⟩ := List.any_eq_true.mp hhas
    have : y ∈ A.loops.filter (fun y => y.cid == cid && y.hasItem k) := List.mem_filter.mpr ⟨hy, hp⟩
    rw [hF] at this; cases this
  | cons y rest =>
    have hy := hinL y (by rw [hF]; exact List.mem_cons_self)
    cases rest with
    | nil =>
      have hyc : y.cid = cid := by simpa using (List.mem_filter.mp hy.1).2
      exact ⟨y, rfl, (List.mem_filter.mp hy.1).1, hyc, hy.2⟩
    | cons y2 r2 =>
      exfalso
      have hy2 := hinL y2 (by rw [hF]; simp)
      have he : y = y2 := unique_holder o k _ hnL hok.1 y hy.1 y2 hy2.1 hy.2 hy2.2
      rw [hF, List.pairwise_cons] at hpw
      exact hpw.1 y2 List.mem_cons_self ⟨by rw [he], by rw [he]⟩

/-- **cif_container_set_value of an item the container has**: the value in every packet of the item's loop -/
theorem sim_setVal_existing (o : Opts) (A : AState) (hi : AInv o A) (k : Str) (b : BlockRow) (hb : BlockAt A k b) (h : CH)
    (hh : h.id = b.cid) (n : Str) (v : V) (hvn : isValidName true n = true) (hok : LoopsOk o (loopsOf A b.cid))
    (hrect : LoopsRect (loopsOf A b.cid)) (hhas : A.hasItem b.cid (o.norm n) = true) :
    ∃ A', Store.specSetValue A h (some (mkName o true n)) (some v) = (A', .ok ()) ∧ AInv o A' ∧ A'.blocks = A.blocks ∧
      A'.tree = updIn o.norm (fun c => Container.mk c.code c.frames (c.loops.map (setAll o.norm (o.norm n) v))) [k] A.tree := by
  obtain ⟨y, hF, hym, hyc, hyk⟩ := holder o A hi b.cid (o.norm n) hok hhas
  have hkey : (mkName o true n).key = o.norm n := rfl
  have hgi : Store.specGetItemLoop A h (some (mkName o true n)) = .ok { cid := h.id, loopNum := y.num, category := y.category } := by
    unfold Store.specGetItemLoop
    have hv : (mkName o true n).valid = true := hvn
    simp only [hv, Bool.not_true, Bool.false_eq_true, if_false, hkey, hh, hF]
  have hspec := Store.specSetValue_existing A h (mkName o true n) (some v) _ hvn hgi
  simp only [hkey, Option.getD_some, hh] at hspec
  have hfcid : ∀ z : ALoop, (z.setColumn (o.norm n) v).cid = z.cid := fun _ => rfl
  refine ⟨_, hspec, hi.onLoop _ _ _ (fun z hz => ⟨rfl, rfl, hi.itemNorm z hz⟩), rfl, ?_⟩
  rw [← hb.2]
  apply tree_upd o A (A.onLoop b.cid y.num fun y => y.setColumn (o.norm n) v) hi b hb.1
    (fun ls => ls.map (setAll o.norm (o.norm n) v)) rfl hi.frames
  · intro c hc
    exact loopsOf_onLoop_other A b.cid y.num _ hfcid c hc
  · unfold loopsOf
    rw [filter_onLoop A b.cid y.num _ hfcid b.cid, List.map_map, List.map_map]
    apply List.map_congr_left
    intro z hz
    simp only [Function.comp]
    have hzm : z ∈ A.loops := (List.mem_filter.mp hz).1
    have hzc : z.cid = b.cid := by simpa using (List.mem_filter.mp hz).2
    obtain ⟨hnd, hr⟩ := loop_facts o A hi b.cid hok hrect z hz
    split
    · exact toLoop_setColumn o z (o.norm n) v (hi.itemNorm z hzm) hnd hr
    · rename_i hne
      have hzk : z.hasItem (o.norm n) = false := by
        rw [Bool.eq_false_iff]
        intro hzk
        have hyL : y ∈ A.loops.filter (fun y => y.cid == b.cid) := List.mem_filter.mpr ⟨hym, by simp [hyc]⟩
        have : z = y := unique_holder o (o.norm n) _ (fun y hy => hi.itemNorm y (List.mem_filter.mp hy).1) hok.1 z hz y hyL hzk hyk
        apply hne
        rw [this]; simp [hyc]
      exact (setAll_lacks o z (o.norm n) v (hi.itemNorm z hzm) hzk).symm

/-- the parser model's `addScalar` when the container has no scalar loop: a new one, last -/
theorem addScalar_none (nm : Str) (v : V) : ∀ ls : List Loop, (∀ l ∈ ls, isScalarLoop l = false) →
    addScalar ls nm v = ls ++ [{ category := some [], names := [nm], packets := [[v]] }]
  | [], _ => rfl
  | l :: r, h => by
    have hl := h l List.mem_cons_self
    simp only [addScalar, hl, Bool.false_eq_true, if_false, List.cons_append]
    rw [addScalar_none nm v r (fun x hx => h x (List.mem_cons_of_mem _ hx))]

/-- what `addScalar` does to the scalar loop -/
def scalarUpd (nm : Str) (v : V) (l : Loop) : Loop :=
  { l with names := l.names ++ [nm],
           packets := if l.packets.isEmpty then [l.names.map (fun _ => V.unk) ++ [v]] else l.packets.map (· ++ [v]) }

theorem addScalar_map (nm : Str) (v : V) : ∀ ls : List Loop, (ls.filter isScalarLoop).length ≤ 1 → ls.any isScalarLoop = true →
    addScalar ls nm v = ls.map (fun l => if isScalarLoop l then scalarUpd nm v l else l)
  | [], _, h => by cases h
  | l :: r, hlen, hany => by
    by_cases hl : isScalarLoop l = true
    · simp only [addScalar, hl, if_true, List.map_cons, scalarUpd]
      congr 1
      have hr : ∀ x ∈ r, isScalarLoop x = false := by
        intro x hx
        rw [Bool.eq_false_iff]
        intro hxs
        have : x ∈ r.filter isScalarLoop := List.mem_filter.mpr ⟨hx, hxs⟩
        simp only [List.filter_cons, hl, if_true, List.length_cons] at hlen
        have h0 : (r.filter isScalarLoop).length = 0 := by omega
        rw [List.length_eq_zero_iff] at h0
        rw [h0] at this; cases this
      conv => lhs; rw [← List.map_id r]
      apply List.map_congr_left
      intro x hx
      simp [hr x hx]
    · have hl' : isScalarLoop l = false := by simpa using hl
      simp only [addScalar, hl', Bool.false_eq_true, if_false, List.map_cons]
      congr 1
      apply addScalar_map nm v r
      · simpa [List.filter_cons, hl'] using hlen
      · simpa [List.any_cons, hl'] using hany

/-- the scalar loops of container `cid` in the identity model: at most one in a consistent container -/
theorem scalar_loops (o : Opts) (A : AState) (cid : Nat) (hok : LoopsOk o (loopsOf A cid)) :
    (A.loops.filter (fun z => z.cid == cid && z.category == some [])).length ≤ 1 := by
  have h := hok.2.1
  unfold loopsOf at h
  rw [List.filter_map, List.length_map, List.filter_filter] at h
  have : A.loops.filter (fun z => z.cid == cid && z.category == some []) =
      A.loops.filter (fun a => (isScalarLoop ∘ ALoop.toLoop) a && (a.cid == cid)) := by
    apply List.filter_congr
    intro z _
    rw [Bool.and_comm]; rfl
  rw [this]; exact h

theorem findLoop_fresh (o : Opts) (A : AState) (hi : AInv o A) (c : ContainerRow) (hc : c ∈ A.containers) :
    A.findLoop c.id c.nextLoopNum = none := by
  unfold AState.findLoop
  rw [List.find?_eq_none]
  intro y hy hp
  simp only [Bool.and_eq_true, beq_iff_eq] at hp
  have := hi.loopNums y hy c hc hp.1.symm
  omega

/-- **cif_container_set_value of an item the container does not have**: the item joins the scalar loop (created when absent) -/
theorem sim_setVal_new (o : Opts) (A : AState) (hi : AInv o A) (k : Str) (b : BlockRow) (hb : BlockAt A k b) (h : CH)
    (hh : h.id = b.cid) (n : Str) (v : V) (hvn : isValidName true n = true) (hok : LoopsOk o (loopsOf A b.cid))
    (hhas : A.hasItem b.cid (o.norm n) = false) :
    ∃ A', Store.specSetValue A h (some (mkName o true n)) (some v) = (A', .ok ()) ∧ AInv o A' ∧ A'.blocks = A.blocks ∧
      A'.tree = updIn o.norm (fun c => Container.mk c.code c.frames (addScalar c.loops n v)) [k] A.tree := by
  have hkey : (mkName o true n).key = o.norm n := rfl
  have horig : (mkName o true n).orig = n := rfl
  have hitem : A.loops.filter (fun y => y.cid == h.id && y.hasItem (mkName o true n).key) = [] := by
    rw [List.filter_eq_nil_iff, hh, hkey]
    intro y hy hp
    unfold AState.hasItem at hhas
    have := List.any_eq_false.mp hhas y hy
    exact this hp
  have hsl := scalar_loops o A b.cid hok
  cases hS : A.loops.filter (fun z => z.cid == b.cid && z.category == some []) with
  | nil =>
    obtain ⟨c, hc, hcb, hfind⟩ := find_container o A hi b hb.1
    have hfresh : A.findLoop h.id c.nextLoopNum = none := by rw [hh, ← hcb]; exact findLoop_fresh o A hi c hc
    have hspec := Store.specSetValue_creates A h (mkName o true n) (some v) c hvn (by rw [hh]; exact hfind) hitem (by rw [hh]; exact hS) hfresh
    simp only [hkey, horig, Option.getD_some, hh] at hspec
    let x : ALoop := { cid := b.cid, num := c.nextLoopNum, category := some [], items := [(o.norm n, n)], packets := [[v]] }
    have hA' : Store.specSetValue A h (some (mkName o true n)) (some v) = (withLoopG A b.cid x, .ok ()) := hspec
    refine ⟨withLoopG A b.cid x, hA', hi.withLoopG b hb.1 c hc hcb x rfl rfl ?_, rfl, ?_⟩
    · intro it hit
      simp only [x, List.mem_singleton] at hit
      subst hit; rfl
    · rw [← hb.2]
      apply tree_upd o A (withLoopG A b.cid x) hi b hb.1 (fun ls => addScalar ls n v) rfl hi.frames
      · intro c' hc'
        exact loopsOf_withLoopG_other A b.cid x rfl c' hc'
      · rw [loopsOf_withLoopG_same A b.cid x rfl]
        symm
        apply addScalar_none
        intro l hl
        unfold loopsOf at hl
        obtain ⟨z, hz, rfl⟩ := List.mem_map.mp hl
        rw [Bool.eq_false_iff]
        intro hsc
        have hzc : (z.category == some []) = true := hsc
        obtain ⟨hzm, hzp⟩ := List.mem_filter.mp hz
        have : z ∈ A.loops.filter (fun z => z.cid == b.cid && z.category == some []) :=
          List.mem_filter.mpr ⟨hzm, by simp [hzp, hzc]⟩
        rw [hS] at this; cases this
  | cons y rest =>
    have hrest : rest = [] := by
      rw [hS] at hsl
      cases rest with
      | nil => rfl
      | cons _ _ => simp at hsl
    subst hrest
    have hyS : y ∈ A.loops.filter (fun z => z.cid == b.cid && z.category == some []) := by rw [hS]; exact List.mem_cons_self
    obtain ⟨hym, hyp⟩ := List.mem_filter.mp hyS
    simp only [Bool.and_eq_true, beq_iff_eq] at hyp
    obtain ⟨hyc, hycat⟩ := hyp
    have hspec := Store.specSetValue_joins A h (mkName o true n) (some v) y hvn hitem (by rw [hh]; exact hS)
      (fun z hz hk => by
        simp only [Bool.and_eq_true, beq_iff_eq] at hk
        exact hi.loopKeys z hz y hym hk.1 hk.2)
    simp only [hkey, horig, Option.getD_some] at hspec
    let f : ALoop → ALoop := fun z => { z with
      items := z.items ++ [(o.norm n, n)]
      packets := (if z.packets.isEmpty then [z.items.map (fun _ => V.unk) ++ [v]] else z.packets.map (· ++ [v])) }
    have hcongr : A.onLoop y.cid y.num (fun _ => f y) = A.onLoop y.cid y.num f := by
      apply Store.onLoop_congr
      intro z hz hk
      simp only [Bool.and_eq_true, beq_iff_eq] at hk
      rw [hi.loopKeys z hz y hym hk.1 hk.2]
    have hA' : Store.specSetValue A h (some (mkName o true n)) (some v) = (A.onLoop b.cid y.num f, .ok ()) := by
      rw [hspec, ← hyc, ← hcongr]
    have hfcid : ∀ z : ALoop, (f z).cid = z.cid := fun _ => rfl
    refine ⟨_, hA', hi.onLoop _ _ f (fun z hz => ⟨rfl, rfl, ?_⟩), rfl, ?_⟩
    · intro it hit
      rcases List.mem_append.mp hit with h1 | h1
      · exact hi.itemNorm z hz it h1
      · simp only [List.mem_singleton] at h1; subst h1; rfl
    · rw [← hb.2]
      apply tree_upd o A (A.onLoop b.cid y.num f) hi b hb.1 (fun ls => addScalar ls n v) rfl hi.frames
      · intro c' hc'
        exact loopsOf_onLoop_other A b.cid y.num f hfcid c' hc'
      · have hyL : y ∈ A.loops.filter (fun z => z.cid == b.cid) := List.mem_filter.mpr ⟨hym, by simp [hyc]⟩
        have hany : (loopsOf A b.cid).any isScalarLoop = true := by
          rw [List.any_eq_true]
          exact ⟨y.toLoop, List.mem_map_of_mem hyL, by show (y.category == some []) = true; simp [hycat]⟩
        rw [addScalar_map n v _ hok.2.1 hany]
        unfold loopsOf
        rw [filter_onLoop A b.cid y.num f hfcid b.cid, List.map_map, List.map_map]
        apply List.map_congr_left
        intro z hz
        simp only [Function.comp]
        obtain ⟨hzm, hzp⟩ := List.mem_filter.mp hz
        have hzc : z.cid = b.cid := by simpa using hzp
        have hsc : isScalarLoop z.toLoop = (z.category == some []) := rfl
        by_cases hm : (z.cid == b.cid && z.num == y.num) = true
        · simp only [hm, if_true]
          simp only [Bool.and_eq_true, beq_iff_eq] at hm
          have hzy : z = y := hi.loopKeys z hzm y hym (by rw [hm.1, hyc]) hm.2
          have : isScalarLoop z.toLoop = true := by rw [hsc, hzy, hycat]; rfl
          rw [this, if_pos rfl]
          simp only [f, ALoop.toLoop, scalarUpd, List.map_append, List.map_cons, List.map_nil, List.map_map]
          rfl
        · have hm' : (z.cid == b.cid && z.num == y.num) = false := by simpa using hm
          simp only [hm', Bool.false_eq_true, if_false]
          have : isScalarLoop z.toLoop = false := by
            rw [hsc, Bool.eq_false_iff]
            intro hzs
            have : z ∈ A.loops.filter (fun z => z.cid == b.cid && z.category == some []) :=
              List.mem_filter.mpr ⟨hzm, by simp [hzp, hzs]⟩
            rw [hS, List.mem_singleton] at this
            apply hm
            rw [this]; simp [hyc]
          rw [this]; rfl

theorem updIn_one_congr (norm : Str → Str) (f f' : Container → Container) (k : Str) (cs : List Container)
    (h : ∀ c ∈ cs, codeIs norm k c = true → f c = f' c) : updIn norm f [k] cs = updIn norm f' [k] cs := by
  simp only [updIn]
  apply List.map_congr_left
  intro c hc
  by_cases hk : codeIs norm k c = true
  · simp only [hk, if_true, h c hc hk]
  · have hk' : codeIs norm k c = false := by simpa using hk
    simp only [hk', Bool.false_eq_true, if_false]

theorem container_facts (o : Opts) (A : AState) (hi : AInv o A) (b : BlockRow) (hb : b ∈ A.blocks) (hokr : OkR o A.tree) :
    LoopsOk o (loopsOf A b.cid) ∧ LoopsRect (loopsOf A b.cid) := by
  have hm : blkTree A b ∈ A.tree := by rw [tree_noframes A hi.frames]; exact List.mem_map_of_mem hb
  have h1 := (OkCs_iff o A.tree).mp hokr.1.2 _ hm
  have h2 := (RectCs_iff A.tree).mp hokr.2 _ hm
  rw [blkTree_eq, OkC_mk] at h1
  rw [blkTree_eq, RectC_mk] at h2
  exact ⟨h1.1, h2.1⟩

/-- **cif_container_set_value** with a valid data name, on the container of block `b` of a consistent rectangular tree: the call
    succeeds and the new state shows what the parser model's `setValueC` makes of the container -/
theorem sim_setVal (o : Opts) (A : AState) (hi : AInv o A) (k : Str) (b : BlockRow) (hb : BlockAt A k b) (h : CH)
    (hh : h.id = b.cid) (n : Str) (v : V) (hvn : isValidName true n = true) (hokr : OkR o A.tree) :
    ∃ A', Store.specSetValue A h (some (mkName o true n)) (some v) = (A', .ok ()) ∧ AInv o A' ∧ A'.blocks = A.blocks ∧
      A'.tree = updIn o.norm (setValueC o n v) [k] A.tree := by
  obtain ⟨hok, hrect⟩ := container_facts o A hi b hb.1 hokr
  have hcc : ∀ c ∈ A.tree, codeIs o.norm k c = true → c = blkTree A b := by
    intro c hc hk
    rw [tree_noframes A hi.frames] at hc
    obtain ⟨b', hb', rfl⟩ := List.mem_map.mp hc
    simp only [codeIs, blkTree_eq, Container.code, ← hi.blkNorm b' hb'] at hk
    have : b'.name = k := by simpa using hk
    rw [hi.blkUniq b' hb' b hb.1 (Or.inl (by rw [this, hb.2]))]
  cases hhas : A.hasItem b.cid (o.norm n) with
  | true =>
    obtain ⟨A', h1, h2, h3, h4⟩ := sim_setVal_existing o A hi k b hb h hh n v hvn hok hrect hhas
    refine ⟨A', h1, h2, h3, ?_⟩
    rw [h4]
    apply updIn_one_congr
    intro c hc hk
    rw [hcc c hc hk]
    unfold setValueC
    rw [hasItem_tree o A hi b, hhas, if_pos rfl]
  | false =>
    obtain ⟨A', h1, h2, h3, h4⟩ := sim_setVal_new o A hi k b hb h hh n v hvn hok hhas
    refine ⟨A', h1, h2, h3, ?_⟩
    rw [h4]
    apply updIn_one_congr
    intro c hc hk
    rw [hcc c hc hk]
    unfold setValueC
    rw [hasItem_tree o A hi b, hhas]
    rfl

/-! ### reading back: cif_container_get_value after cif_container_set_value (property C07, route `parser`) -/

theorem find?_congr_mem {α} (p q : α → Bool) : ∀ l : List α, (∀ z ∈ l, p z = q z) → l.find? p = l.find? q
  | [], _ => rfl
  | x :: r, h => by
    simp only [List.find?_cons, h x List.mem_cons_self, find?_congr_mem p q r (fun z hz => h z (List.mem_cons_of_mem _ hz))]

/-- the first loop of the container that has the item holds `v` in the item's cell of every packet, and has a packet: get_value
    delivers `v` -/
theorem getVal_of_column (A : AState) (h : CH) (nm : Name) (v : V) (x : ALoop) (hv : nm.valid = true)
    (hf : A.loops.find? (fun y => y.cid == h.id && y.hasItem nm.key) = some x) (hne : x.packets ≠ [])
    (hcell : ∀ p ∈ x.packets, p.getD (x.items.findIdx (fun it => it.1 == nm.key)) V.unk = v) :
    ∃ amb, Store.specGetValue A h (some nm) = .ok (v, amb) := by
  unfold Store.specGetValue AState.columnOf
  simp only [hv, Bool.not_true, Bool.false_eq_true, if_false, hf, ALoop.column]
  cases hp : x.packets with
  | nil => exact absurd hp hne
  | cons p r =>
    have h1 : p.getD (x.items.findIdx (fun it => it.1 == nm.key)) V.unk = v := hcell p (by rw [hp]; exact List.mem_cons_self)
    cases r with
    | nil => exact ⟨false, by simp only [List.map_cons, List.map_nil, h1]⟩
    | cons p2 r2 => exact ⟨true, by simp only [List.map_cons, h1]⟩

theorem zipmap_getD (k : Str) (v : V) : ∀ (items : List (Str × Str)) (p : List V), items.any (fun it => it.1 == k) = true →
    p.length = items.length →
    ((items.zip p).map (fun e => if e.1.1 == k then v else e.2)).getD (items.findIdx (fun it => it.1 == k)) V.unk = v
  | [], _, h, _ => by simp at h
  | it :: r, p, h, hl => by
    cases p with
    | nil => simp at hl
    | cons c p' =>
      simp only [List.zip_cons_cons, List.map_cons, List.findIdx_cons]
      by_cases hk : (it.1 == k) = true
      · simp only [hk, if_true, cond_true, List.getD_cons_zero]
      · have hk' : (it.1 == k) = false := by simpa using hk
        simp only [hk', Bool.false_eq_true, if_false, cond_false, List.getD_cons_succ]
        apply zipmap_getD k v r p'
        · simpa [List.any_cons, hk'] using h
        · simpa using hl

theorem findIdx_none_length {α} (p : α → Bool) : ∀ l : List α, (∀ x ∈ l, p x = false) → l.findIdx p = l.length
  | [], _ => rfl
  | x :: r, h => by
    simp only [List.findIdx_cons, h x List.mem_cons_self, cond_false, List.length_cons,
      findIdx_none_length p r (fun y hy => h y (List.mem_cons_of_mem _ hy))]

theorem getD_append_len {α} (l : List α) (a d : α) : (l ++ [a]).getD l.length d = a := by
  simp [List.getD]

theorem find?_map_inv {α} (G : α → α) (p : α → Bool) : ∀ l : List α, (∀ z ∈ l, p (G z) = p z) → (l.map G).find? p = (l.find? p).map G
  | [], _ => rfl
  | x :: r, h => by
    simp only [List.map_cons, List.find?_cons, h x List.mem_cons_self]
    cases p x with
    | true => rfl
    | false => exact find?_map_inv G p r (fun z hz => h z (List.mem_cons_of_mem _ hz))

/-- **set_value then get_value, existing item**: when the item's loop has a packet, get_value delivers the value just set -/
theorem reads_existing (o : Opts) (A : AState) (hi : AInv o A) (b : BlockRow) (h : CH) (hh : h.id = b.cid) (n : Str) (v : V)
    (hvn : isValidName true n = true) (hok : LoopsOk o (loopsOf A b.cid)) (hrect : LoopsRect (loopsOf A b.cid))
    (hhas : A.hasItem b.cid (o.norm n) = true) :
    ∃ y, y ∈ A.loops ∧ y.cid = b.cid ∧ y.hasItem (o.norm n) = true ∧
      (y.packets ≠ [] → ∀ A', Store.specSetValue A h (some (mkName o true n)) (some v) = (A', .ok ()) →
        ∃ amb, Store.specGetValue A' h (some (mkName o true n)) = .ok (v, amb)) := by
  obtain ⟨y, hF, hym, hyc, hyk⟩ := holder o A hi b.cid (o.norm n) hok hhas
  refine ⟨y, hym, hyc, hyk, ?_⟩
  intro hne A' hA'
  have hkey : (mkName o true n).key = o.norm n := rfl
  have hgi : Store.specGetItemLoop A h (some (mkName o true n)) = .ok { cid := h.id, loopNum := y.num, category := y.category } := by
    unfold Store.specGetItemLoop
    have hv : (mkName o true n).valid = true := hvn
    simp only [hv, Bool.not_true, Bool.false_eq_true, if_false, hkey, hh, hF]
  have hspec := Store.specSetValue_existing A h (mkName o true n) (some v) _ hvn hgi
  simp only [hkey, Option.getD_some, hh] at hspec
  rw [hspec] at hA'
  have hAe : A' = A.onLoop b.cid y.num (fun z => z.setColumn (o.norm n) v) := (Prod.mk.inj hA').1.symm
  subst hAe
  have hyL : y ∈ A.loops.filter (fun z => z.cid == b.cid) := List.mem_filter.mpr ⟨hym, by simp [hyc]⟩
  obtain ⟨hnd, hr⟩ := loop_facts o A hi b.cid hok hrect y hyL
  have hfind0 : A.loops.find? (fun z => z.cid == b.cid && z.hasItem (o.norm n)) = some y := by
    rw [← List.head?_filter, hF]; rfl
  apply getVal_of_column _ h (mkName o true n) v (y.setColumn (o.norm n) v) hvn
  · show (A.loops.map _).find? _ = _
    rw [hkey, hh, find?_map_inv _ _ A.loops, hfind0]
    · simp only [Option.map_some]
      have : (y.cid == b.cid && y.num == y.num) = true := by simp [hyc]
      simp only [this, if_true]
    · intro z _
      split <;> rfl
  · show y.packets.map _ ≠ []
    intro e
    exact hne (List.map_eq_nil_iff.mp e)
  · intro p hp
    obtain ⟨p0, hp0, rfl⟩ := List.mem_map.mp hp
    exact zipmap_getD (o.norm n) v y.items p0 hyk (hr p0 hp0)

/-- **set_value then get_value, new item**: get_value delivers the value just stored, whatever the container held -/
theorem reads_new (o : Opts) (A : AState) (hi : AInv o A) (b : BlockRow) (hb : b ∈ A.blocks) (h : CH) (hh : h.id = b.cid) (n : Str) (v : V)
    (hvn : isValidName true n = true) (hok : LoopsOk o (loopsOf A b.cid)) (hrect : LoopsRect (loopsOf A b.cid))
    (hhas : A.hasItem b.cid (o.norm n) = false) :
    ∀ A', Store.specSetValue A h (some (mkName o true n)) (some v) = (A', .ok ()) →
      ∃ amb, Store.specGetValue A' h (some (mkName o true n)) = .ok (v, amb) := by
  intro A' hA'
  have hkey : (mkName o true n).key = o.norm n := rfl
  have horig : (mkName o true n).orig = n := rfl
  have hno : ∀ z ∈ A.loops, (z.cid == b.cid && z.hasItem (o.norm n)) = false := by
    intro z hz
    unfold AState.hasItem at hhas
    exact List.any_eq_false.mp hhas z hz |> fun h => by simpa using h
  have hitem : A.loops.filter (fun y => y.cid == h.id && y.hasItem (mkName o true n).key) = [] := by
    rw [List.filter_eq_nil_iff, hh, hkey]
    intro y hy hp
    rw [hno y hy] at hp; cases hp
  have hsl := scalar_loops o A b.cid hok
  cases hS : A.loops.filter (fun z => z.cid == b.cid && z.category == some []) with
  | nil =>
    obtain ⟨c, hc, hcb, hfind⟩ := find_container o A hi b hb
    have hfresh : A.findLoop h.id c.nextLoopNum = none := by rw [hh, ← hcb]; exact findLoop_fresh o A hi c hc
    have hspec := Store.specSetValue_creates A h (mkName o true n) (some v) c hvn (by rw [hh]; exact hfind) hitem (by rw [hh]; exact hS) hfresh
    simp only [hkey, horig, Option.getD_some, hh] at hspec
    rw [hspec] at hA'
    have hAe := (Prod.mk.inj hA').1.symm
    subst hAe
    let x : ALoop := { cid := b.cid, num := c.nextLoopNum, category := some [], items := [(o.norm n, n)], packets := [[v]] }
    apply getVal_of_column _ h (mkName o true n) v x hvn
    · show (A.loops ++ [x]).find? _ = _
      rw [hkey, hh, List.find?_append]
      have : A.loops.find? (fun y => y.cid == b.cid && y.hasItem (o.norm n)) = none := by
        rw [List.find?_eq_none]
        intro z hz
        rw [hno z hz]; simp
      rw [this]
      simp [x, ALoop.hasItem]
    · simp [x]
    · intro p hp
      simp only [x, List.mem_singleton] at hp
      subst hp
      simp [x, hkey, List.findIdx_cons]
  | cons y rest =>
    have hrest : rest = [] := by
      rw [hS] at hsl
      cases rest with
      | nil => rfl
      | cons _ _ => simp at hsl
    subst hrest
    have hyS : y ∈ A.loops.filter (fun z => z.cid == b.cid && z.category == some []) := by rw [hS]; exact List.mem_cons_self
    obtain ⟨hym, hyp⟩ := List.mem_filter.mp hyS
    simp only [Bool.and_eq_true, beq_iff_eq] at hyp
    obtain ⟨hyc, hycat⟩ := hyp
    have hspec := Store.specSetValue_joins A h (mkName o true n) (some v) y hvn hitem (by rw [hh]; exact hS)
      (fun z hz hk => by
        simp only [Bool.and_eq_true, beq_iff_eq] at hk
        exact hi.loopKeys z hz y hym hk.1 hk.2)
    simp only [hkey, horig, Option.getD_some] at hspec
    rw [hspec] at hA'
    have hAe := (Prod.mk.inj hA').1.symm
    subst hAe
    have hyL : y ∈ A.loops.filter (fun z => z.cid == b.cid) := List.mem_filter.mpr ⟨hym, by simp [hyc]⟩
    obtain ⟨_, hr⟩ := loop_facts o A hi b.cid hok hrect y hyL
    have hylack : ∀ it ∈ y.items, (it.1 == o.norm n) = false := by
      have := hno y hym
      simp only [hyc, beq_self_eq_true, Bool.true_and] at this
      unfold ALoop.hasItem at this
      exact fun it hit => List.any_eq_false.mp this it hit |> fun h => by simpa using h
    let y' : ALoop := { y with
      items := y.items ++ [(o.norm n, n)]
      packets := (if y.packets.isEmpty then [y.items.map (fun _ => V.unk) ++ [v]] else y.packets.map (· ++ [v])) }
    have hidx : y'.items.findIdx (fun it => it.1 == o.norm n) = y.items.length := by
      show (y.items ++ [(o.norm n, n)]).findIdx _ = _
      rw [List.findIdx_append, findIdx_none_length _ _ hylack]
      simp [List.findIdx_cons]
    apply getVal_of_column _ h (mkName o true n) v y' hvn
    · show (A.loops.map _).find? _ = _
      rw [hkey, hh, List.find?_map]
      have hcg : A.loops.find? ((fun z => z.cid == b.cid && z.hasItem (o.norm n)) ∘
          fun z => if (z.cid == y.cid && z.num == y.num) = true then y' else z) =
          A.loops.find? (fun z => z.cid == y.cid && z.num == y.num) := by
        apply find?_congr_mem
        intro z hz
        simp only [Function.comp]
        by_cases hm : (z.cid == y.cid && z.num == y.num) = true
        · simp only [hm, if_true]
          simp [y', hyc, ALoop.hasItem]
        · have hm' : (z.cid == y.cid && z.num == y.num) = false := by simpa using hm
          simp only [hm', Bool.false_eq_true, if_false]
          exact hno z hz
      rw [hcg]
      have := findLoop_of_mem o A hi y hym
      unfold AState.findLoop at this
      rw [this]
      have hself : (y.cid == y.cid && y.num == y.num) = true := by simp
      simp only [Option.map_some, hself, if_true]
      rfl
    · show (if y.packets.isEmpty then _ else _) ≠ []
      cases hp : y.packets with
      | nil => simp
      | cons p r => simp
    · intro p hp
      rw [hkey, hidx]
      have hp' : p ∈ (if y.packets.isEmpty then [y.items.map (fun _ => V.unk) ++ [v]] else y.packets.map (· ++ [v])) := hp
      cases hpk : y.packets with
      | nil =>
        rw [hpk] at hp'
        simp only [List.isEmpty_nil, if_true, List.mem_singleton] at hp'
        subst hp'
        have := getD_append_len (y.items.map (fun _ => V.unk)) v V.unk
        simpa using this
      | cons q r =>
        rw [hpk] at hp'
        simp only [List.isEmpty_cons, Bool.false_eq_true, if_false] at hp'
        obtain ⟨p0, hp0, rfl⟩ := List.mem_map.mp hp'
        have hl := hr p0 (by rw [hpk]; exact hp0)
        rw [← hl]
        exact getD_append_len p0 v V.unk

end CifModel.ParserSim
