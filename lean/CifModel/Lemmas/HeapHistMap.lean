import CifModel.Lemmas.HeapHistList
/-
  Lemmas for operation histories on the heap, part 3c: the map operations on the map object at an address (a table value —
  free-standing, list element or entry value — or a packet): recording a new spelling, adding an entry with the caller's
  object given by address, removing an entry (`ObjUpd` producers).
-/
namespace CifModel.Model.Hist
open CifModel CifModel.Model.Heap
open CifModel.Model.Value (Step Entry resolve update child setChild defaultOf mapFind mapSet mapReplace mapErase)

/-- storing a table's entry list back into the object that holds the map (value object or packet) -/
theorem putHV_tbl_spec (g : Heap) (m : Nat) (old new : List Nat) (hg : getHV g m = some (.tbl old)) :
    ∃ g', putHV g m (.tbl new) = some g' ∧ g'.next = g.next ∧ getHV g' m = some (.tbl new) ∧ SameKind (g.cell m) (g'.cell m)
      ∧ (∀ a, a ≠ m → g'.cell a = g.cell a) ∧ (g.WF → g'.WF) := by
  unfold getHV at hg
  cases hc : g.cell m with
  | none => rw [hc] at hg; cases hg
  | some c =>
    rw [hc] at hg
    have : ∃ c', reShell c (.tbl new) = some c' ∧ SameKind (some c) (some c')
        ∧ ∀ (g' : Heap), g'.cell m = some c' → getHV g' m = some (.tbl new) := by
      cases c <;> simp at hg
      · exact ⟨_, rfl, by simp [SameKind], fun g' h' => by simp [getHV, h']⟩
      · exact ⟨_, rfl, by simp [SameKind], fun g' h' => by simp [getHV, h']⟩
      · exact ⟨_, rfl, by simp [SameKind], fun g' h' => by simp [getHV, h']⟩
    obtain ⟨c', hrs, hsk, hfld⟩ := this
    obtain ⟨g', hwr, hn, hcell⟩ := write_spec g m c c' hc
    refine ⟨g', by simp [putHV, hc, hrs, hwr], hn, hfld g' (by rw [hcell m, if_pos rfl]), by rw [hcell m, if_pos rfl]; exact hsk,
      fun a hne => by rw [hcell a, if_neg hne], ?_⟩
    intro hw a ha
    rw [hcell a]
    have hne : a ≠ m := fun e => by
      subst e
      have := hw a (by rw [hn] at ha; exact ha)
      rw [hc] at this; cases this
    rw [if_neg hne]; exact hw a (by rw [hn] at ha; exact ha)

theorem RepEntry_mem_iff {h : Heap} {e : Nat} {k ko : Str} {v : V} {Fe : List Nat} {hv0 : HVal} {ka koa : Nat} {F1 : List Nat}
    (hFs : (ka = koa ∧ Fe = ka :: F1 ++ [e]) ∨ (ka ≠ koa ∧ Fe = ka :: koa :: F1 ++ [e])) :
    ∀ a, a ∈ Fe ↔ (a = ka ∨ a = koa ∨ a ∈ F1 ∨ a = e) := by
  intro a
  rcases hFs with ⟨hkk, rfl⟩ | ⟨_, rfl⟩
  · subst hkk
    simp only [List.cons_append, List.mem_cons, List.mem_append, List.mem_singleton, List.not_mem_nil, or_false]
    constructor
    · rintro (h1 | h1 | h1)
      · exact Or.inl h1
      · exact Or.inr (Or.inr (Or.inl h1))
      · exact Or.inr (Or.inr (Or.inr h1))
    · rintro (h1 | h1 | h1 | h1)
      · exact Or.inl h1
      · exact Or.inl h1
      · exact Or.inr (Or.inl h1)
      · exact Or.inr (Or.inr h1)
  · simp only [List.cons_append, List.mem_cons, List.mem_append, List.mem_singleton, List.not_mem_nil, or_false]

/-- **a new spelling for an existing entry** (first half of `cif_map_set_item` on an existing key), seen from the map object -/
theorem respell_spec (h : Heap) (hw : h.WF) (m : Nat) (ents : List Nat) (es : List (Str × Str × V)) (Ft : List Nat)
    (nk key : Str) (ent : Str × Str × V) (hg : getHV h m = some (.tbl ents)) (hr : RepEntries h ents es Ft) (hmF : m ∉ Ft)
    (hF : ∀ a, a ∈ Ft → a < h.next) (hmf : mapFind es nk = some ent) :
    ∃ e h1 F', findEntry h ents nk = some (some e) ∧ entryRespell false h e key = some h1
      ∧ ObjUpd h h1 m Ft (.tbl ents) (.tbl (mapReplace es nk key ent.2.2)) F' [] := by
  have hmlt := getHV_lt hw hg
  rcases RepEntries_find h es ents Ft nk hr with ⟨hmf', _⟩ | ⟨e, ko, v, Fe, hmf', hfe, hre, hsubF, hk, _⟩
  · rw [hmf] at hmf'; cases hmf'
  · rw [hmf] at hmf'
    simp only [Option.some.injEq] at hmf'
    subst hmf'
    have hFe : ∀ a, a ∈ Fe → a < h.next := fun a ha => hF a (hsubF a ha)
    obtain ⟨h1, Fe1, hop1, hre1, hw1, _, hfr1, hdrop1, hown1, hlt1, hsub1⟩ := entryRespell_spec h hw e nk ko v Fe key hre hFe
    have hle := entryRespell_next_le false h h1 e key hop1
    obtain ⟨F', hen', hmem'⟩ := hk h1 key v Fe1 hre1 (fun a ha hnf => hfr1 a (hF a ha) hnf)
      (fun a ha hin => by
        rcases hsub1 a ha with hh | hh
        · exact hh
        · have := hF a hin; omega)
    have hmFe : m ∉ Fe := fun hm => hmF (hsubF m hm)
    have hcm : h1.cell m = h.cell m := hfr1 m hmlt hmFe
    refine ⟨e, h1, F', hfe, hop1, hw1, hle, by rw [getHV_congr h h1 m hcm]; exact hg,
      by rw [hcm]; exact SameKind_refl_of_getHV hg, by simp only [Rep]; exact ⟨ents, rfl, hen'⟩, ?_, ?_, ?_, fun x hx => by cases hx⟩
    · intro a ha
      rcases (hmem' a).mp ha with hh | ⟨hh, _⟩
      · rcases hsub1 a hh with h2 | h2
        · exact Or.inl (hsubF a h2)
        · exact Or.inr ⟨h2, hlt1 a hh⟩
      · exact Or.inl hh
    · intro a halt hnf _; exact hfr1 a halt (fun hm => hnf (hsubF a hm))
    · intro a hl
      by_cases halt : a < h.next
      · by_cases hm : a ∈ Ft
        · by_cases hme : a ∈ Fe
          · by_cases hme1 : a ∈ Fe1
            · exact Or.inl ((hmem' a).mpr (Or.inl hme1))
            · rw [hdrop1 a hme hme1] at hl; cases hl
          · exact Or.inl ((hmem' a).mpr (Or.inr ⟨hm, hme⟩))
        · by_cases hem : a = m
          · exact Or.inr (Or.inl hem)
          · exact Or.inr (Or.inr (Or.inr ⟨halt, hm⟩))
      · exact Or.inl ((hmem' a).mpr (Or.inl (hown1 a (by omega) (isSome_lt hw1 hl))))

/-- **a new entry** (`cif_map_set_item`, key not present), the value read from the caller's object (or NULL) -/
theorem mapAddPut_spec (h : Heap) (hw : h.WF) (m : Nat) (ents : List Nat) (es : List (Str × Str × V)) (Ft : List Nat)
    (nk key : Str) (fuel : Nat) (xa : Option Nat) (x : Option V) (hg : getHV h m = some (.tbl ents))
    (hr : RepEntries h ents es Ft) (hmF : m ∉ Ft) (hF : ∀ a, a ∈ Ft → a < h.next) (hmf : mapFind es nk = none)
    (hsr : SrcRep h fuel xa x) :
    ∃ e h3 h4 F', mapAddH fuel h ents nk key xa = some (ents ++ [e], h3)
      ∧ putHV h3 m (.tbl (ents ++ [e])) = some h4
      ∧ ObjUpd h h4 m Ft (.tbl (ents ++ [e])) (.tbl (mapSet es nk key x)) F' [] := by
  have hmlt := getHV_lt hw hg
  have e0 := Ext.alloc h (.str nk) hw
  generalize hh0 : (alloc h (.str nk)).2 = h0 at e0
  have hn0 : h0.next = h.next + 1 := by rw [← hh0]; rfl
  have hkn0 : h0.cell h.next = some (.str nk) := by rw [← hh0]; simp [alloc_cell]
  have hr0 : RepEntries h0 ents es Ft := RepEntries_congr h h0 es ents Ft (fun a ha => e0.frame a (hF a ha)) hr
  have e1 := Ext.alloc h0 (.str key) e0.wf
  generalize hh1 : (alloc h0 (.str key)).2 = h1 at e1
  have hn1 : h1.next = h.next + 2 := by rw [← hh1, alloc_next, hn0]
  have hkoa1 : h1.cell (h.next + 1) = some (.str key) := by rw [← hh1, alloc_cell, hn0]; simp
  have hkn1 : h1.cell h.next = some (.str nk) := by rw [e1.frame h.next (by omega)]; exact hkn0
  have e01 := e0.trans e1
  have hsro : SrcRepOutside h fuel [] xa x := by
    cases xa with
    | none =>
      cases x with
      | none => trivial
      | some v => exact absurd hsr (by simp [SrcRep])
    | some a =>
      cases x with
      | none => exact absurd hsr (by simp [SrcRep])
      | some v =>
        obtain ⟨hs, Fs, a1, a2, a3, a4⟩ := hsr
        exact ⟨hs, Fs, a1, a2, a3, a4, by simp, fun _ _ => by simp⟩
  have hcf := copyFields_build h h1 e01.wf [] xa x fuel hsro e01.le (fun a ha _ => e01.frame a ha) hw
  generalize hb : buildVal h1 (x.getD .unk) = rb at hcf
  obtain ⟨hv, h2⟩ := rb
  obtain ⟨e2, Fv, hrv, hrange, hcover⟩ := buildVal_spec (x.getD .unk) h1 e1.wf hv h2 hb
  have e3 := Ext.alloc h2 (.entry hv h.next (h.next + 1)) e2.wf
  generalize hh3 : (alloc h2 (.entry hv h.next (h.next + 1))).2 = h3 at e3
  have hn3 : h3.next = h2.next + 1 := by rw [← hh3]; rfl
  have hce3 : h3.cell h2.next = some (.entry hv h.next (h.next + 1)) := by rw [← hh3]; simp [alloc_cell]
  have l2 := e2.le
  have e03 := (e01.trans e2).trans e3
  -- the new entry
  let Fe : List Nat := h.next :: (h.next + 1) :: Fv ++ [h2.next]
  have hre : RepEntry h3 h2.next nk key (x.getD .unk) Fe := by
    refine ⟨hv, h.next, h.next + 1, Fv, hce3, ?_, ?_, ?_, ?_, ?_, ?_, by omega, by omega, Or.inr ⟨by omega, rfl⟩⟩
    · rw [e3.frame _ (by omega), e2.frame _ (by omega)]; exact hkn1
    · rw [e3.frame _ (by omega), e2.frame _ (by omega)]; exact hkoa1
    · exact Rep_congr h2 h3 _ hv Fv (fun a ha => e3.frame a (hrange a ha).2) hrv
    · intro hm; have := (hrange _ hm).2; omega
    · intro hm; have := (hrange _ hm).1; omega
    · intro hm; have := (hrange _ hm).1; omega
  have hFe_range : ∀ a, a ∈ Fe → h.next ≤ a ∧ a < h3.next := by
    intro a ha
    simp only [Fe, List.cons_append, List.mem_cons, List.mem_append, List.mem_singleton, List.not_mem_nil, or_false] at ha
    rcases ha with rfl | rfl | ha | rfl
    · omega
    · omega
    · have := hrange a ha; omega
    · omega
  have hr3 : RepEntries h3 ents es Ft := RepEntries_congr h h3 es ents Ft (fun a ha => e03.frame a (hF a ha)) hr
  have happ := RepEntries_append h3 es ents Ft h2.next nk key (x.getD .unk) Fe hr3 hre
    (fun a ha hb => by have := hF a ha; have := (hFe_range a hb).1; omega)
  have hms : mapSet es nk key x = es ++ [(nk, key, x.getD .unk)] := by simp [mapSet, hmf]
  have hg3 : getHV h3 m = some (.tbl ents) := by rw [getHV_congr h h3 m (e03.frame m hmlt)]; exact hg
  obtain ⟨h4, hput, hn4, hg4, hsk4, hc4, hw4⟩ := putHV_tbl_spec h3 m ents (ents ++ [h2.next]) hg3
  have hmF' : m ∉ Ft ++ Fe := by
    intro hm
    rcases List.mem_append.mp hm with hm | hm
    · exact hmF hm
    · have := (hFe_range m hm).1; omega
  have hadd : mapAddH fuel h ents nk key xa = some (ents ++ [h2.next], h3) := by
    unfold mapAddH
    rw [show alloc h (.str nk) = (h.next, h0) by rw [← hh0]; rfl]
    simp only []
    rw [show alloc h0 (.str key) = (h.next + 1, h1) by rw [← hh1, ← hn0]; rfl]
    simp only [hcf]
    rw [show alloc h2 (.entry hv h.next (h.next + 1)) = (h2.next, h3) by rw [← hh3]; rfl]
  refine ⟨h2.next, h3, h4, Ft ++ Fe, hadd, hput, hw4 e3.wf, by rw [hn4]; exact e03.le, hg4,
    by rw [← e03.frame m hmlt]; exact hsk4, ?_, ?_, ?_, ?_, fun x hx => by cases hx⟩
  · simp only [Rep]
    refine ⟨_, rfl, ?_⟩
    rw [hms]
    exact RepEntries_congr h3 h4 _ _ _ (fun a ha => hc4 a (fun e => hmF' (e ▸ ha))) happ
  · intro a ha
    rcases List.mem_append.mp ha with ha | ha
    · exact Or.inl ha
    · exact Or.inr (by rw [hn4]; exact hFe_range a ha)
  · intro a halt _ hne; rw [hc4 a hne, e03.frame a halt]
  · intro a hl
    by_cases hem : a = m
    · exact Or.inr (Or.inl hem)
    · rw [hc4 a hem] at hl
      by_cases halt : a < h.next
      · by_cases hm : a ∈ Ft
        · exact Or.inl (List.mem_append_left _ hm)
        · exact Or.inr (Or.inr (Or.inr ⟨halt, hm⟩))
      · have hl3 := isSome_lt e3.wf hl
        refine Or.inl (List.mem_append_right _ ?_)
        simp only [Fe, List.cons_append, List.mem_cons, List.mem_append, List.mem_singleton, List.not_mem_nil, or_false]
        by_cases h0' : a = h.next
        · exact Or.inl h0'
        · by_cases h1' : a = h.next + 1
          · exact Or.inr (Or.inl h1')
          · by_cases h2' : a = h2.next
            · exact Or.inr (Or.inr (Or.inr h2'))
            · exact Or.inr (Or.inr (Or.inl (hcover a (by omega) (by omega))))

/-- **an entry is taken out** (`cif_map_retrieve_item(…, do_remove)`): the entry block — the value object handed to the caller —
    and the blocks of its value stay live (`Tn`), its key blocks and the temporary normalised key are released -/
theorem mapRemovePut_spec (h : Heap) (hw : h.WF) (m : Nat) (ents : List Nat) (es : List (Str × Str × V)) (Ft : List Nat)
    (nk : Str) (ent : Str × Str × V) (hg : getHV h m = some (.tbl ents)) (hr : RepEntries h ents es Ft) (hmF : m ∉ Ft)
    (hF : ∀ a, a ∈ Ft → a < h.next) (hmf : mapFind es nk = some ent) :
    ∃ e h1 h2 hv0 ka koa F1 F'', mapRemoveItemH h ents nk = some (some (e, ents.erase e), h1)
      ∧ putHV h1 m (.tbl (ents.erase e)) = some h2
      ∧ h2.cell e = some (.entry hv0 ka koa) ∧ Rep h2 hv0 ent.2.2 F1 ∧ e ∉ F1
      ∧ ObjUpd h h2 m Ft (.tbl (ents.erase e)) (.tbl (mapErase es nk)) F'' (e :: F1) := by
  have hmlt := getHV_lt hw hg
  have e0 := Ext.alloc h (.str nk) hw
  generalize hh0 : (alloc h (.str nk)).2 = h0 at e0
  have hn0 : h0.next = h.next + 1 := by rw [← hh0]; rfl
  have hkn0 : h0.cell h.next = some (.str nk) := by rw [← hh0]; simp [alloc_cell]
  have hr0 : RepEntries h0 ents es Ft := RepEntries_congr h h0 es ents Ft (fun a ha => e0.frame a (hF a ha)) hr
  rcases RepEntries_find h0 es ents Ft nk hr0 with ⟨hmf', _⟩ | ⟨e, ko, v, Fe, hmf', hfe, hre, hsubF, _, F'', hen'', hdis, hmemF⟩
  · rw [hmf] at hmf'; cases hmf'
  · rw [hmf] at hmf'
    simp only [Option.some.injEq] at hmf'
    subst hmf'
    obtain ⟨g, hfg, cg⟩ := Cleared.free h0 h.next _ hkn0
    have hwg : g.WF := Cleared.wf cg e0.wf
    obtain ⟨hv0, ka, koa, F1, he, hka, hkoa, hrep0, heF, hkaF, hkoaF, heka, hekoa, hFs⟩ := hre
    have memFe := RepEntry_mem_iff (h := h0) (e := e) (k := nk) (ko := ko) (v := v) (hv0 := hv0) hFs
    have hFelt : ∀ a, a ∈ Fe → a < h.next := fun a ha => hF a (hsubF a ha)
    have helt := hFelt e ((memFe e).mpr (Or.inr (Or.inr (Or.inr rfl))))
    have hkalt := hFelt ka ((memFe ka).mpr (Or.inl rfl))
    have hkoalt := hFelt koa ((memFe koa).mpr (Or.inr (Or.inl rfl)))
    have hgcell : ∀ a, a ≠ h.next → g.cell a = h0.cell a := fun a hne => by rw [cg.2 a]; simp [hne]
    have hge : g.cell e = some (.entry hv0 ka koa) := by rw [hgcell e (by omega)]; exact he
    -- the key blocks are released
    obtain ⟨K, h1, hdet, cK, hK⟩ : ∃ K h1, entryDetach g e = some h1 ∧ Cleared g h1 K ∧ ∀ a, a ∈ K ↔ (a = ka ∨ a = koa) := by
      by_cases hkk : ka = koa
      · have hgko : g.cell koa = some (.str ko) := by rw [hgcell koa (by omega)]; exact hkoa
        obtain ⟨h1, hf1, c1⟩ := Cleared.free g koa _ hgko
        exact ⟨[koa], h1, by simp [entryDetach, Heap.read, hge, hkk, hf1], c1, fun a => by simp [hkk]⟩
      · have hgka : g.cell ka = some (.str nk) := by rw [hgcell ka (by omega)]; exact hka
        obtain ⟨g1, hf1, c1⟩ := Cleared.free g ka _ hgka
        have hgko : g1.cell koa = some (.str ko) := by
          rw [c1.2 koa]
          have : koa ≠ ka := fun e' => hkk e'.symm
          simp [this, hgcell koa (by omega), hkoa]
        obtain ⟨h1, hf2, c2⟩ := Cleared.free g1 koa _ hgko
        exact ⟨[ka] ++ [koa], h1, by simp [entryDetach, Heap.read, hge, hkk, hf1, hf2], c1.trans c2, fun a => by simp⟩
    have hw1 : h1.WF := Cleared.wf cK hwg
    have hn1 : h1.next = h.next + 1 := by rw [cK.1, cg.1, hn0]
    have hc1 : ∀ a, a < h.next → a ≠ ka → a ≠ koa → h1.cell a = h.cell a := by
      intro a halt h1' h2'
      have : a ∉ K := fun hm => by rcases (hK a).mp hm with hh | hh; exact h1' hh; exact h2' hh
      rw [cK.2 a, if_neg this, hgcell a (by omega), e0.frame a halt]
    have hdead : ∀ a, (a = ka ∨ a = koa ∨ a = h.next) → h1.cell a = none := by
      intro a ha
      rw [cK.2 a]
      by_cases hm : a ∈ K
      · rw [if_pos hm]
      · rw [if_neg hm]
        rcases ha with hh | hh | hh
        · exact absurd ((hK a).mpr (Or.inl hh)) hm
        · exact absurd ((hK a).mpr (Or.inr hh)) hm
        · rw [cg.2 a]; simp [hh]
    have hmka : m ≠ ka := fun e' => hmF (hsubF m ((memFe m).mpr (Or.inl e')))
    have hmkoa : m ≠ koa := fun e' => hmF (hsubF m ((memFe m).mpr (Or.inr (Or.inl e'))))
    have hg1 : getHV h1 m = some (.tbl ents) := by rw [getHV_congr h h1 m (hc1 m hmlt hmka hmkoa)]; exact hg
    obtain ⟨h2, hput, hn2, hg2, hsk2, hc2, hw2⟩ := putHV_tbl_spec h1 m ents (ents.erase e) hg1
    have hne_m : ∀ a, a ∈ Ft → a ≠ m := fun a ha e' => hmF (e' ▸ ha)
    have hF1Fe : ∀ a, a ∈ F1 → a ∈ Fe := fun a ha => (memFe a).mpr (Or.inr (Or.inr (Or.inl ha)))
    have heFe : e ∈ Fe := (memFe e).mpr (Or.inr (Or.inr (Or.inr rfl)))
    have hcellF1 : ∀ a, a ∈ F1 → h2.cell a = h0.cell a := by
      intro a ha
      have hlt := hFelt a (hF1Fe a ha)
      rw [hc2 a (hne_m a (hsubF a (hF1Fe a ha))), hc1 a hlt (fun e' => hkaF (e' ▸ ha)) (fun e' => hkoaF (e' ▸ ha)), e0.frame a hlt]
    have hrep2 : Rep h2 hv0 v F1 := Rep_congr h0 h2 v hv0 F1 hcellF1 hrep0
    have hce2 : h2.cell e = some (.entry hv0 ka koa) := by
      rw [hc2 e (hne_m e (hsubF e heFe)), hc1 e helt heka hekoa, ← e0.frame e helt]; exact he
    have hF''Ft : ∀ a, a ∈ F'' → a ∈ Ft := fun a ha => (hmemF a).mpr (Or.inr ha)
    have hcellF'' : ∀ a, a ∈ F'' → h2.cell a = h0.cell a := by
      intro a ha
      have hlt := hF a (hF''Ft a ha)
      have h1' : a ≠ ka := fun e' => hdis a ((memFe a).mpr (Or.inl e')) ha
      have h2' : a ≠ koa := fun e' => hdis a ((memFe a).mpr (Or.inr (Or.inl e'))) ha
      rw [hc2 a (hne_m a (hF''Ft a ha)), hc1 a hlt h1' h2', e0.frame a hlt]
    refine ⟨e, h1, h2, hv0, ka, koa, F1, F'', ?_, hput, hce2, hrep2, heF, hw2 hw1, by rw [hn2, hn1]; omega, hg2,
      by rw [← hc1 m hmlt hmka hmkoa]; exact hsk2, ?_, ?_, ?_, ?_, ?_⟩
    · unfold mapRemoveItemH
      rw [show alloc h (.str nk) = (h.next, h0) by rw [← hh0]; rfl]
      simp [hfe, hfg, hdet]
    · simp only [Rep]
      exact ⟨_, rfl, RepEntries_congr h0 h2 _ _ F'' hcellF'' hen''⟩
    · intro a ha; exact Or.inl (hF''Ft a ha)
    · intro a halt hnf hne
      rw [hc2 a hne, hc1 a halt (fun e' => hnf (hsubF a ((memFe a).mpr (Or.inl e'))))
        (fun e' => hnf (hsubF a ((memFe a).mpr (Or.inr (Or.inl e')))))]
    · intro a hl
      by_cases hem : a = m
      · exact Or.inr (Or.inl hem)
      · rw [hc2 a hem] at hl
        by_cases hka' : a = ka
        · rw [hdead a (Or.inl hka')] at hl; cases hl
        · by_cases hkoa' : a = koa
          · rw [hdead a (Or.inr (Or.inl hkoa'))] at hl; cases hl
          · by_cases hkn' : a = h.next
            · rw [hdead a (Or.inr (Or.inr hkn'))] at hl; cases hl
            · have halt : a < h.next := by
                have := isSome_lt hw1 hl
                omega
              by_cases hm : a ∈ Ft
              · rcases (hmemF a).mp hm with hh | hh
                · rcases (memFe a).mp hh with h4 | h4 | h4 | h4
                  · exact absurd h4 hka'
                  · exact absurd h4 hkoa'
                  · exact Or.inr (Or.inr (Or.inl (List.mem_cons_of_mem _ h4)))
                  · exact Or.inr (Or.inr (Or.inl (h4 ▸ List.mem_cons_self)))
                · exact Or.inl hh
              · exact Or.inr (Or.inr (Or.inr ⟨halt, hm⟩))
    · intro a ha
      rcases List.mem_cons.mp ha with rfl | ha
      · exact ⟨hsubF a heFe, fun hm => hdis a heFe hm, by rw [hce2]; rfl⟩
      · exact ⟨hsubF a (hF1Fe a ha), fun hm => hdis a (hF1Fe a ha) hm, Rep_live h2 v hv0 F1 hrep2 a ha⟩

end CifModel.Model.Hist
