import CifModel.Lemmas.LexerLines
/-
  Lemmas/LexerAccept — under the accept-all policy no scanner function ever aborts.
-/
namespace CifModel.Model.Lexer
open CifModel CifModel.Model.Chars

structure NoAbort {α} (m : L α) : Prop where
  run : ∀ log, ∃ a log', m acceptAll log = .ok a log'

theorem NoAbort.pure {α} (a : α) : NoAbort (L.pure a) := ⟨fun log => ⟨a, log, rfl⟩⟩

theorem NoAbort.bind {α β} {m : L α} {f : α → L β} (hm : NoAbort m) (hf : ∀ a, NoAbort (f a)) : NoAbort (L.bind m f) := by
  constructor
  intro log
  obtain ⟨a, l1, h1⟩ := hm.run log
  obtain ⟨b, l2, h2⟩ := (hf a).run l1
  exact ⟨b, l2, by rw [L.bind_ok h1, h2]⟩

theorem NoAbort.report (code : Code) (line col : Nat) : NoAbort (report code line col) := by
  constructor
  intro log
  exact ⟨(), ⟨code, line, col⟩ :: log, by simp [Lexer.report, acceptAll]⟩

theorem NoAbort.reportIf (c : Bool) (code : Code) (line col : Nat) : NoAbort (reportIf c code line col) := by
  cases c
  · exact NoAbort.pure ()
  · exact NoAbort.report code line col

theorem NoAbort.ite {α} {c : Prop} [Decidable c] {a b : L α} (ha : NoAbort a) (hb : NoAbort b) : NoAbort (if c then a else b) := by
  split <;> assumption

syntax "noabort" : tactic
macro_rules
  | `(tactic| noabort) => `(tactic| repeat (first
      | exact NoAbort.pure _
      | exact NoAbort.report ..
      | exact NoAbort.reportIf ..
      | assumption
      | apply NoAbort.bind
      | apply NoAbort.ite
      | intro _))

theorem scanUChar_noabort (dia : Dialect) (line col prev c : Nat) (lead : Bool) : NoAbort (scanUChar dia line col prev c lead) := by
  simp only [scanUChar, bind_eq, pure_eq]
  noabort

theorem leadAtEof_noabort (dia : Dialect) (line col : Nat) (lead : Bool) (acc : Str) : NoAbort (leadAtEof dia line col lead acc) := by
  simp only [leadAtEof, bind_eq, pure_eq]
  noabort

theorem handleEol_noabort (line col sol c : Nat) : NoAbort (handleEol line col sol c) := by
  simp only [handleEol, bind_eq, pure_eq]
  noabort

theorem scanWs_noabort (dia : Dialect) : ∀ (inp : Str) (line col sol : Nat), NoAbort (scanWs dia inp line col sol) := by
  intro inp
  induction inp with
  | nil => intro line col sol; simp only [scanWs, pure_eq]; noabort
  | cons c r ih =>
    intro line col sol
    simp only [scanWs, bind_eq, pure_eq]
    have := handleEol_noabort
    apply NoAbort.ite (ih ..)
    apply NoAbort.ite
    · apply NoAbort.bind (handleEol_noabort ..)
      intro a; exact ih ..
    · exact NoAbort.pure _

theorem scanToWs_noabort (dia : Dialect) : ∀ (inp : Str) (line col : Nat) (lead : Bool) (acc : Str),
    NoAbort (scanToWs dia inp line col lead acc) := by
  intro inp
  induction inp with
  | nil => intro line col lead acc; simp only [scanToWs, bind_eq, pure_eq]; have := leadAtEof_noabort dia line col lead acc; noabort
  | cons c r ih =>
    intro line col lead acc
    simp only [scanToWs, bind_eq, pure_eq]
    apply NoAbort.bind (scanUChar_noabort ..)
    intro u
    apply NoAbort.ite (NoAbort.pure _) (ih ..)

theorem scanToEol_noabort (dia : Dialect) : ∀ (inp : Str) (line col : Nat) (lead : Bool) (acc : Str),
    NoAbort (scanToEol dia inp line col lead acc) := by
  intro inp
  induction inp with
  | nil => intro line col lead acc; simp only [scanToEol, bind_eq, pure_eq]; have := leadAtEof_noabort dia line col lead acc; noabort
  | cons c r ih =>
    intro line col lead acc
    simp only [scanToEol, bind_eq, pure_eq]
    apply NoAbort.bind (scanUChar_noabort ..)
    intro u
    apply NoAbort.ite (NoAbort.pure _) (ih ..)

theorem scanUnquoted_noabort (dia : Dialect) : ∀ (inp : Str) (line col : Nat) (lead : Bool) (acc : Str) (k : Nat) (kd ks : Bool),
    NoAbort (scanUnquoted dia inp line col lead acc k kd ks) := by
  intro inp
  induction inp with
  | nil =>
    intro line col lead acc k kd ks; simp only [scanUnquoted, bind_eq, pure_eq]
    have := leadAtEof_noabort dia line col lead acc; noabort
  | cons c r ih =>
    intro line col lead acc k kd ks
    simp only [scanUnquoted, bind_eq, pure_eq]
    apply NoAbort.bind (scanUChar_noabort ..)
    intro u
    cases metaOfCls (classOf dia u.c) <;> simp only []
    · exact ih ..
    · exact ih ..
    · apply NoAbort.ite (NoAbort.pure _) (NoAbort.pure _)
    · apply NoAbort.ite
      · noabort
      · exact ih ..
    · apply NoAbort.ite (NoAbort.pure _) (ih ..)

theorem scanTriple_noabort (dia : Dialect) (delim : Nat) : ∀ (inp : Str) (line col : Nat) (lead : Bool) (acc : Str) (dc sol : Nat),
    NoAbort (scanTriple dia delim inp line col lead acc dc sol) := by
  intro inp
  induction inp with
  | nil =>
    intro line col lead acc dc sol; simp only [scanTriple, bind_eq, pure_eq]
    have := leadAtEof_noabort dia line col lead acc; noabort
  | cons c r ih =>
    intro line col lead acc dc sol
    simp only [scanTriple, bind_eq, pure_eq]
    apply NoAbort.bind (scanUChar_noabort ..)
    intro u
    apply NoAbort.ite
    · apply NoAbort.ite (NoAbort.pure _) (ih ..)
    · apply NoAbort.ite
      · apply NoAbort.bind (handleEol_noabort ..)
        intro a; exact ih ..
      · exact ih ..

theorem scanDelim_noabort (dia : Dialect) (delim : Nat) : ∀ (inp : Str) (line col : Nat) (lead : Bool) (acc : Str) (first : Bool),
    NoAbort (scanDelim dia delim inp line col lead acc first) := by
  intro inp
  induction inp with
  | nil =>
    intro line col lead acc first; simp only [scanDelim, bind_eq, pure_eq]
    have := leadAtEof_noabort dia line col lead acc; noabort
  | cons c r ih =>
    intro line col lead acc first
    simp only [scanDelim, bind_eq, pure_eq]
    apply NoAbort.bind (scanUChar_noabort ..)
    intro u
    apply NoAbort.ite
    · cases r with
      | nil => exact NoAbort.pure _
      | cons d r' =>
        simp only []
        apply NoAbort.ite
        · apply NoAbort.ite (ih ..) (NoAbort.pure _)
        · apply NoAbort.ite (scanTriple_noabort ..) (NoAbort.pure _)
    · apply NoAbort.ite
      · noabort
      · exact ih ..

theorem scanText_noabort (dia : Dialect) : ∀ (inp : Str) (line col : Nat) (lead : Bool) (acc : Str) (sol : Nat),
    NoAbort (scanText dia inp line col lead acc sol) := by
  intro inp
  induction inp with
  | nil =>
    intro line col lead acc sol; simp only [scanText, bind_eq, pure_eq]
    have := leadAtEof_noabort dia line col lead acc; noabort
  | cons c r ih =>
    intro line col lead acc sol
    simp only [scanText, bind_eq, pure_eq]
    apply NoAbort.bind (scanUChar_noabort ..)
    intro u
    apply NoAbort.ite
    · apply NoAbort.ite (NoAbort.pure _) (ih ..)
    · apply NoAbort.ite
      · apply NoAbort.bind (handleEol_noabort ..)
        intro a; exact ih ..
      · exact ih ..

theorem finishUnquoted_noabort (dia : Dialect) (aw : Bool) (t : Str) (p : Pos) : NoAbort (finishUnquoted dia aw t p) := by
  unfold finishUnquoted
  cases classify dia t <;> simp only [bind_eq, pure_eq] <;> noabort

theorem stepTok_noabort (dia : Dialect) (aw : Bool) (c : Nat) (r : Str) (line col : Nat) : NoAbort (stepTok dia aw c r line col) := by
  unfold stepTok
  simp only [bind_eq]
  simp only [pure_eq]
  apply NoAbort.bind (NoAbort.reportIf ..)
  intro _
  have h1 := scanWs_noabort dia
  have h2 := scanToEol_noabort dia
  have h3 := scanToWs_noabort dia
  have h4 := scanDelim_noabort dia
  have h5 := scanText_noabort dia
  have h6 := scanUnquoted_noabort dia
  have h7 := finishUnquoted_noabort dia
  repeat (first
    | exact NoAbort.pure _
    | exact h1 ..
    | exact h2 ..
    | exact h3 ..
    | exact h4 ..
    | exact h5 ..
    | exact h6 ..
    | exact h7 ..
    | apply NoAbort.bind
    | apply NoAbort.ite
    | intro _)

theorem tokLoop_noabort (dia : Dialect) : ∀ (f : Nat) (aw : Bool) (p : Pos), NoAbort (tokLoop dia f aw p) := by
  intro f
  induction f with
  | zero => intro aw p; simp only [tokLoop, pure_eq]; exact NoAbort.pure _
  | succ f ih =>
    intro aw p
    obtain ⟨rest, line, col⟩ := p
    cases rest with
    | nil => exact ⟨fun log => ⟨_, _, tokLoop_nil dia f aw line col acceptAll log⟩⟩
    | cons c r =>
      rw [tokLoop_cons]
      apply NoAbort.bind (stepTok_noabort ..)
      intro st
      cases st with
      | tok t p' => exact NoAbort.pure _
      | skip aw' p' => exact ih ..

theorem nextToken_noabort (dia : Dialect) (s : Scan) : NoAbort (nextToken dia s) := by
  simp only [nextToken, bind_eq, pure_eq]
  apply NoAbort.bind (tokLoop_noabort ..)
  intro a
  exact NoAbort.pure _

end CifModel.Model.Lexer
