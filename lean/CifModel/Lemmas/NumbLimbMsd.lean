import CifModel.Lemmas.NumbLimbTight
import CifModel.Lemmas.NumbAutoinit
/-
  Limb level of C10, part 9: the index of the most significant limb of the shifted array is the limb of the most
  significant decimal place of |d| (`limbOfPlace (flog10Rat |d|)` of the exact-arithmetic level).
-/
namespace CifModel.Lemmas.NumbLimbMsd
open CifModel.Model.Numb CifModel.Model.NumbLimbs CifModel.Lemmas.NumbLimbPass CifModel.Lemmas.NumbLimbRefine
  CifModel.Lemmas.NumbLimbDigits CifModel.Lemmas.NumbLimbTight CifModel.Lemmas.NumbDigits

theorem Bb_pow' (k : Nat) : Bb ^ k = 10 ^ (9 * k) := by rw [Bb_eq, ← Nat.pow_mul]
  where Bb_eq : Bb = 10 ^ 9 := by decide

/-- zeros up to index `r`: the array number is below the weight of limb `r` -/
theorem small_of_zero_prefix (A : Arr) (r : Nat) (g : GoodD A) (hr : r < A.msd) (hr2 : r + 1 ≤ 156) :
    natOfLimbs A.digits < Bb ^ (155 - r) := by
  have hsplit : A.digits = A.digits.take (r + 1) ++ A.digits.drop (r + 1) := (List.take_append_drop _ _).symm
  have hN := nat_append (A.digits.take (r + 1)) (A.digits.drop (r + 1))
  rw [← hsplit] at hN
  have h0 : natOfLimbs (A.digits.take (r + 1)) = 0 := by
    apply all_zero_nat
    apply take_zero_of_idx
    intro j hj
    exact g.wf.zlo j (by omega)
  have hlo := nat_lt (A.digits.drop (r + 1)) (fun x hx => g.wf.small x (List.mem_of_mem_drop hx))
  rw [List.length_drop, g.len] at hN hlo
  have : 156 - (r + 1) = 155 - r := by omega
  rw [this] at hN hlo
  rw [hN, h0]; simpa using hlo

/-- a non-zero limb at `msd ≤ r`: the array number is at least the weight of limb `r` -/
theorem big_of_tight (A : Arr) (r : Nat) (g : GoodD A) (ht : TightUp A) (hr : A.msd ≤ r) (hr2 : r ≤ 155) :
    Bb ^ (155 - r) ≤ natOfLimbs A.digits := by
  have hm : A.msd < A.digits.length := getD_lt_of_ne _ _ ht
  have hsplit : A.digits = A.digits.take (A.msd + 1) ++ A.digits.drop (A.msd + 1) := (List.take_append_drop _ _).symm
  have hN := nat_append (A.digits.take (A.msd + 1)) (A.digits.drop (A.msd + 1))
  rw [← hsplit] at hN
  have htk : A.digits.take (A.msd + 1) = A.digits.take A.msd ++ [A.digits.getD A.msd 0] := by
    rw [List.getD_eq_getElem?_getD, List.getElem?_eq_getElem hm]
    simp only [Option.getD_some]
    exact List.take_succ_eq_append_getElem hm
  have h0 : natOfLimbs (A.digits.take A.msd) = 0 := all_zero_nat _ (take_zero_of_idx _ _ g.wf.zlo)
  rw [htk, nat_snoc, h0] at hN
  rw [List.length_drop, g.len] at hN
  unfold TightUp at ht
  generalize A.digits.getD A.msd 0 = x at *
  have hx : 1 ≤ x := by omega
  have h1 : 1 * Bb ^ (156 - (A.msd + 1)) ≤ (0 * Bb + x) * Bb ^ (156 - (A.msd + 1)) := Nat.mul_le_mul_right _ (by omega)
  have h2 : Bb ^ (155 - r) ≤ Bb ^ (156 - (A.msd + 1)) := Nat.pow_le_pow_right Bb_pos (by rw [g.len] at hm; omega)
  omega

/-- **msd of the limb level = msd of the exact level**: for the shifted array of to_digits, `r < msd` exactly when the
    exact level's `limbOfPlace (flog10Rat |d|)` says so -/
theorem msd_limbOfPlace (A : Arr) (r vn vd : Nat) (g : GoodD A) (ht : TightUp A) (hvn : 0 < vn) (hvd : 0 < vd)
    (hfuel : vd ≤ vn * 10 ^ 400) (hrel : natOfLimbs A.digits * vd = vn * Bb ^ 121) (hr : r ≤ 154) :
    ((r : Int) < limbOfPlace (flog10Rat vn vd)) ↔ r < A.msd := by
  obtain ⟨f1, f2⟩ := CifModel.Lemmas.NumbAutoinit.flog10Rat_spec vn vd hvn hvd hfuel
  generalize flog10Rat vn vd = x at *
  unfold limbOfPlace
  have hT : T x = 10 ^ x.toNat := rfl
  have hB : B x = 10 ^ (-x).toNat := rfl
  have hW : Bb ^ 121 = 10 ^ 1089 := by rw [Bb_pow']
  constructor
  · intro h
    rcases Nat.lt_or_ge r A.msd with h1 | h1
    · exact h1
    · exfalso
      have hbig := big_of_tight A r g ht h1 (by omega)
      rw [Bb_pow'] at hbig
      -- N · B x < 10 · T x · 10^1089
      have c1 : natOfLimbs A.digits * B x * vd < 10 * T x * 10 ^ 1089 * vd := by
        calc natOfLimbs A.digits * B x * vd = (natOfLimbs A.digits * vd) * B x := by grind
          _ = (vn * B x) * Bb ^ 121 := by rw [hrel]; grind
          _ < (10 * (T x * vd)) * Bb ^ 121 := Nat.mul_lt_mul_of_pos_right f2 (Nat.pow_pos Bb_pos)
          _ = 10 * T x * 10 ^ 1089 * vd := by rw [hW]; grind
      have c2 : natOfLimbs A.digits * B x < 10 * T x * 10 ^ 1089 := Nat.lt_of_mul_lt_mul_right c1
      have c3 : 10 ^ (9 * (155 - r)) * B x ≤ natOfLimbs A.digits * B x := Nat.mul_le_mul_right _ hbig
      rw [hT, hB] at c2
      rw [hB] at c3
      have c4 : 10 ^ (9 * (155 - r) + (-x).toNat) < 10 ^ (1 + x.toNat + 1089) := by
        have e1 : 10 ^ (9 * (155 - r) + (-x).toNat) = 10 ^ (9 * (155 - r)) * 10 ^ (-x).toNat := by rw [Nat.pow_add]
        have e2 : 10 ^ (1 + x.toNat + 1089) = 10 * 10 ^ x.toNat * 10 ^ 1089 := by
          rw [Nat.pow_add, Nat.pow_add]
        omega
      have := (Nat.pow_lt_pow_iff_right (by decide : 1 < 10)).mp c4
      omega
  · intro h1
    have hsm := small_of_zero_prefix A r g h1 (by omega)
    rw [Bb_pow'] at hsm
    have c1 : T x * 10 ^ 1089 * vd ≤ natOfLimbs A.digits * B x * vd := by
      calc T x * 10 ^ 1089 * vd = (T x * vd) * Bb ^ 121 := by rw [hW]; grind
        _ ≤ (vn * B x) * Bb ^ 121 := Nat.mul_le_mul_right _ f1
        _ = natOfLimbs A.digits * B x * vd := by
          have : vn * B x * Bb ^ 121 = (vn * Bb ^ 121) * B x := by grind
          rw [this, ← hrel]; grind
    have c2 : T x * 10 ^ 1089 ≤ natOfLimbs A.digits * B x := Nat.le_of_mul_le_mul_right c1 hvd
    have c3 : natOfLimbs A.digits * B x < 10 ^ (9 * (155 - r)) * B x := Nat.mul_lt_mul_of_pos_right hsm (B_pos x)
    rw [hT, hB] at c2
    rw [hB] at c3
    have c4 : 10 ^ (x.toNat + 1089) < 10 ^ (9 * (155 - r) + (-x).toNat) := by
      rw [Nat.pow_add, Nat.pow_add]; omega
    have := (Nat.pow_lt_pow_iff_right (by decide : 1 < 10)).mp c4
    omega

end CifModel.Lemmas.NumbLimbMsd
