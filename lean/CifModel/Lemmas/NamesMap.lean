import CifModel.Lemmas.Names
/-
  Lemmas for C09 (table keys, packet item names): the map of map.c at association-list level (`Model.Entries`), for an arbitrary
  normaliser.  `KeyedBy nf es`: every normalised key occurs once and is the normal form `nf` of the spelling kept with it — the
  invariant `cif_map_set_item` / `cif_map_retrieve_item` maintain from the empty map.
-/
namespace CifModel.Lemmas.Names
open CifModel CifModel.Model

/-- the invariant of a map: normalised keys pairwise different, each the normal form of its entry's spelling -/
def KeyedBy {α : Type} (nf : Str → Str) (es : Entries α) : Prop :=
  (es.map (·.1)).Nodup ∧ ∀ e ∈ es, e.1 = nf e.2.1

theorem KeyedBy.nil {α : Type} (nf : Str → Str) : KeyedBy nf ([] : Entries α) := ⟨List.nodup_nil, fun _ h => by cases h⟩

section set
variable {α : Type} (k key : Str) (v : α)

/-- the overwrite does not change the normalised keys -/
theorem map_overwrite_keys : ∀ (l : Entries α),
    (l.map fun e => if e.1 == k then (k, key, v) else e).map (·.1) = l.map (·.1) := by
  intro l
  induction l with
  | nil => rfl
  | cons x xs ih =>
    simp only [List.map_cons, ih]
    by_cases hx : (x.1 == k) = true
    · have : x.1 = k := by simpa using hx
      simp [hx, this]
    · have hx' : (x.1 == k) = false := by simpa using hx
      simp [hx']

theorem mem_overwrite (l : Entries α) (e : Str × Str × α)
    (h : e ∈ l.map fun e => if e.1 == k then (k, key, v) else e) : e = (k, key, v) ∨ (e ∈ l ∧ e.1 ≠ k) := by
  obtain ⟨x, hx, rfl⟩ := List.mem_map.mp h
  by_cases hk : (x.1 == k) = true
  · left; simp [hk]
  · right
    have hk' : (x.1 == k) = false := by simpa using hk
    simp only [hk', Bool.false_eq_true, if_false]
    exact ⟨hx, by simpa using hk⟩

theorem isSome_find_iff (l : Entries α) : (Entries.find l k).isSome = true ↔ k ∈ l.map (·.1) := by
  simp only [Entries.find, List.find?_isSome, List.mem_map, beq_iff_eq]

end set

/-- **the map after `set`**: the invariant is kept; the enumeration is the old one with the spelling of the matching entry
    replaced (or the new spelling appended); every enumerated spelling with the normal form of `key` IS `key`; spellings with another
    normal form are enumerated exactly as before -/
theorem set_keyed {α : Type} (nf : Str → Str) (norm : Option Str → Except Code Str) (es es' : Entries α) (key : Str) (v : α)
    (hn : norm (some key) = .ok (nf key)) (hinv : KeyedBy nf es) (hset : es.set norm key v = .ok es') :
    KeyedBy nf es' ∧
    es'.keys = (if (es.find (nf key)).isSome then es.map (fun e => if e.1 == nf key then key else e.2.1) else es.keys ++ [key]) ∧
    key ∈ es'.keys ∧
    (∀ k' ∈ es'.keys, nf k' = nf key → k' = key) ∧
    (es'.filter (fun e => e.1 == nf key)).length = 1 ∧
    (∀ k', nf k' ≠ nf key → (k' ∈ es'.keys ↔ k' ∈ es.keys)) := by
  obtain ⟨hnd, hnf⟩ := hinv
  simp only [Entries.set, hn] at hset
  -- in a list with pairwise different first components exactly one entry has a given first component that occurs
  have count1 : ∀ (l : Entries α) (k : Str), (l.map (·.1)).Nodup → k ∈ l.map (·.1) → (l.filter (fun e => e.1 == k)).length = 1 := by
    intro l k
    induction l with
    | nil => intro _ h; cases h
    | cons x xs ih =>
      intro hnd hk
      simp only [List.map_cons, List.nodup_cons] at hnd
      by_cases hx : x.1 = k
      · subst hx
        have : xs.filter (fun e => e.1 == x.1) = [] := by
          apply List.filter_eq_nil_iff.mpr
          intro e he h
          have : e.1 = x.1 := by simpa using h
          exact hnd.1 (this ▸ List.mem_map.mpr ⟨e, he, rfl⟩)
        simp [this]
      · have hx' : (x.1 == k) = false := by simpa using hx
        simp only [List.map_cons, List.mem_cons] at hk
        rcases hk with h | h
        · exact absurd h.symm hx
        · simp only [List.filter_cons, hx', Bool.false_eq_true, if_false]
          exact ih hnd.2 h
  by_cases hex : (es.find (nf key)).isSome = true
  · rw [if_pos hex] at hset
    injection hset with hset
    subst hset
    have hkeys := map_overwrite_keys (nf key) key v es
    have hinv' : KeyedBy nf (es.map fun e => if e.1 == nf key then (nf key, key, v) else e) := by
      refine ⟨by rw [hkeys]; exact hnd, ?_⟩
      intro e he
      rcases mem_overwrite (nf key) key v es e he with rfl | ⟨h1, _⟩
      · rfl
      · exact hnf e h1
    have hmemk : nf key ∈ es.map (·.1) := (isSome_find_iff (nf key) es).1 hex
    have hspell : ∀ k' ∈ Entries.keys (es.map fun e => if e.1 == nf key then (nf key, key, v) else e), nf k' = nf key → k' = key := by
      intro k' hk' heq
      obtain ⟨e, he, rfl⟩ := List.mem_map.mp hk'
      rcases mem_overwrite (nf key) key v es e he with rfl | ⟨h1, h2⟩
      · rfl
      · exact absurd ((hnf e h1).trans heq) h2
    refine ⟨hinv', ?_, ?_, hspell, ?_, ?_⟩
    · rw [if_pos hex]
      simp only [Entries.keys, List.map_map]
      apply List.map_congr_left
      intro e _
      by_cases h : (e.1 == nf key) = true
      · have h' : e.1 = nf key := by simpa using h
        simp [h']
      · have h' : ¬ e.1 = nf key := by simpa using h
        simp [h']
    · obtain ⟨e, he, hk⟩ := List.mem_map.mp hmemk
      refine List.mem_map.mpr ⟨(nf key, key, v), List.mem_map.mpr ⟨e, he, ?_⟩, rfl⟩
      simp [hk]
    · exact count1 _ _ hinv'.1 (by rw [hkeys]; exact hmemk)
    · intro k' hne
      constructor
      · intro h
        obtain ⟨e, he, rfl⟩ := List.mem_map.mp h
        rcases mem_overwrite (nf key) key v es e he with rfl | ⟨h1, _⟩
        · exact absurd rfl hne
        · exact List.mem_map.mpr ⟨e, h1, rfl⟩
      · intro h
        obtain ⟨e, he, rfl⟩ := List.mem_map.mp h
        have hek : e.1 ≠ nf key := fun h' => hne ((hnf e he).symm.trans h')
        refine List.mem_map.mpr ⟨e, List.mem_map.mpr ⟨e, he, ?_⟩, rfl⟩
        have : (e.1 == nf key) = false := by simpa using hek
        simp [this]
  · have hns : (es.find (nf key)).isSome = false := by simpa using hex
    rw [if_neg hex] at hset
    injection hset with hset
    subst hset
    have hnotin : nf key ∉ es.map (·.1) := fun h => hex ((isSome_find_iff (nf key) es).2 h)
    have hinv' : KeyedBy nf (es ++ [(nf key, key, v)]) := by
      refine ⟨?_, ?_⟩
      · rw [List.map_append]
        refine List.nodup_append.mpr ⟨hnd, by simp, ?_⟩
        intro a ha b hb
        simp only [List.map_cons, List.map_nil, List.mem_singleton] at hb
        subst hb; intro e; exact hnotin (e ▸ ha)
      · intro e he
        rcases List.mem_append.mp he with h | h
        · exact hnf e h
        · simp only [List.mem_singleton] at h; subst h; rfl
    refine ⟨hinv', ?_, ?_, ?_, ?_, ?_⟩
    · rw [if_neg hex]; simp [Entries.keys]
    · simp [Entries.keys]
    · intro k' hk' heq
      simp only [Entries.keys, List.map_append, List.mem_append, List.map_cons, List.map_nil, List.mem_singleton] at hk'
      rcases hk' with h | h
      · obtain ⟨e, he, rfl⟩ := List.mem_map.mp h
        exact absurd (List.mem_map.mpr ⟨e, he, (hnf e he).trans heq⟩) hnotin
      · exact h
    · exact count1 _ _ hinv'.1 (by simp)
    · intro k' hne
      simp only [Entries.keys, List.map_append, List.mem_append, List.map_cons, List.map_nil, List.mem_singleton]
      constructor
      · rintro (h | h)
        · exact h
        · subst h; exact absurd rfl hne
      · intro h; exact Or.inl h

/-- `remove` keeps the invariant -/
theorem remove_keyed {α : Type} (nf : Str → Str) (norm : Option Str → Except Code Str) (es es' : Entries α) (key : Str) (noSuch : Code)
    (hinv : KeyedBy nf es) (hrem : es.remove norm key noSuch = .ok es') : KeyedBy nf es' := by
  obtain ⟨hnd, hnf⟩ := hinv
  simp only [Entries.remove] at hrem
  cases hn : norm (some key) with
  | error c => rw [hn] at hrem; cases hrem
  | ok k =>
    rw [hn] at hrem
    simp only at hrem
    split at hrem
    · injection hrem with hrem
      subst hrem
      refine ⟨?_, fun e he => hnf e (List.mem_filter.mp he).1⟩
      exact List.Nodup.sublist (List.Sublist.map _ List.filter_sublist) hnd
    · cases hrem

end CifModel.Lemmas.Names
