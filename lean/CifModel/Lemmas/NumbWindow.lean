import CifModel.Lemmas.NumbDigits
import CifModel.Lemmas.NumbMisc
/-
  Lemmas for the full C10_to_double_big: uniqueness of the rounding, invariance under the presentation of the fraction,
  stripping of leading/trailing zeroes, and "normal result ⇒ most significant place inside to_double's window".
-/
namespace CifModel.Lemmas.NumbWindow
open CifModel.Model.Numb CifModel.Spec.Rounding CifModel.Lemmas.NumbRound CifModel.Lemmas.NumbToDouble CifModel.Lemmas.NumbDigits

/-! ### the binade of a fraction is unique -/

theorem binadeOf_PQ (num den : Nat) (e : Int) :
    BinadeOf num den e ↔ (den * P e * 2 ^ 52 ≤ num * Q e ∧ num * Q e < den * P e * 2 ^ 53) := Iff.rfl

theorem binade_lt_absurd (num den : Nat) (e1 e2 : Int) (hd : 0 < den) (hlt : e1 < e2)
    (h1 : BinadeOf num den e1) (h2 : BinadeOf num den e2) : False := by
  rw [binadeOf_PQ] at h1 h2
  let k := (e2 - e1).toNat
  have law := PQ_add e1 (k : Int)
  have hsum : e1 + (k : Int) = e2 := by omega
  have hQk : Q (k : Int) = 1 := P_nonneg_Q _ (by omega)
  have hPk : P (k : Int) = 2 ^ k := by unfold P; simp
  rw [hsum, hQk, hPk, Nat.mul_one] at law
  -- law : P e2 * Q e1 = P e1 * 2 ^ k * Q e2
  have hk2 : 2 ≤ 2 ^ k := by
    have : 2 ^ 1 ≤ 2 ^ k := Nat.pow_le_pow_right (by decide) (by omega)
    simpa using this
  have e53 : (2 : Nat) ^ 53 = 2 * 2 ^ 52 := by decide
  have a1 : num * Q e1 * Q e2 < den * P e1 * 2 ^ 53 * Q e2 := Nat.mul_lt_mul_of_pos_right h1.2 (Q_pos e2)
  have a2 : den * P e1 * 2 ^ 53 * Q e2 ≤ den * P e2 * 2 ^ 52 * Q e1 := by
    calc den * P e1 * 2 ^ 53 * Q e2 = den * 2 ^ 52 * (P e1 * 2 * Q e2) := by rw [e53]; grind
      _ ≤ den * 2 ^ 52 * (P e1 * 2 ^ k * Q e2) := by
          apply Nat.mul_le_mul_left
          apply Nat.mul_le_mul_right
          exact Nat.mul_le_mul_left _ hk2
      _ = den * P e2 * 2 ^ 52 * Q e1 := by rw [← law]; grind
  have a3 : den * P e2 * 2 ^ 52 * Q e1 ≤ num * Q e2 * Q e1 := Nat.mul_le_mul_right _ h2.1
  have a4 : num * Q e2 * Q e1 = num * Q e1 * Q e2 := by grind
  omega

theorem binade_unique (num den : Nat) (e1 e2 : Int) (hd : 0 < den)
    (h1 : BinadeOf num den e1) (h2 : BinadeOf num den e2) : e1 = e2 := by
  rcases Int.lt_trichotomy e1 e2 with h | h | h
  · exact (binade_lt_absurd num den e1 e2 hd h h1 h2).elim
  · exact h
  · exact (binade_lt_absurd num den e2 e1 hd h h2 h1).elim

theorem isRne_unique (num den : Nat) (p p' : Nat × Int) (hd : 0 < den) (h : IsRne num den p) (h' : IsRne num den p') : p = p' := by
  obtain ⟨e, he, hp⟩ := h
  obtain ⟨e', he', hp'⟩ := h'
  have := binade_unique num den e e' hd he he'
  subst this
  rw [hp, hp']

/-! ### the rounding does not depend on how the fraction is written -/

theorem isRne_congr (n1 d1 n2 d2 : Nat) (p : Nat × Int) (hd1 : 0 < d1) (hd2 : 0 < d2) (hx : n1 * d2 = n2 * d1)
    (h : IsRne n1 d1 p) : IsRne n2 d2 p := by
  obtain ⟨e, he, hp⟩ := h
  rw [binadeOf_PQ] at he
  refine ⟨e, ?_, ?_⟩
  · rw [binadeOf_PQ]
    constructor
    · apply Nat.le_of_mul_le_mul_right (c := d1) _ hd1
      calc d2 * P e * 2 ^ 52 * d1 = (d1 * P e * 2 ^ 52) * d2 := by grind
        _ ≤ (n1 * Q e) * d2 := Nat.mul_le_mul_right _ he.1
        _ = (n1 * d2) * Q e := by grind
        _ = n2 * Q e * d1 := by rw [hx]; grind
    · apply Nat.lt_of_mul_lt_mul_right (a := d1)
      calc n2 * Q e * d1 = (n2 * d1) * Q e := by grind
        _ = (n1 * Q e) * d2 := by rw [← hx]; grind
        _ < (d1 * P e * 2 ^ 53) * d2 := Nat.mul_lt_mul_of_pos_right he.2 hd2
        _ = d2 * P e * 2 ^ 53 * d1 := by grind
  · rw [hp]
    congr 1
    unfold roundAt
    apply roundHalfEven_cross _ _ _ _ (Nat.mul_pos hd1 (Nat.two_pow_pos _)) (Nat.mul_pos hd2 (Nat.two_pow_pos _))
    calc n1 * 2 ^ (-e).toNat * (d2 * 2 ^ e.toNat) = (n1 * d2) * (2 ^ (-e).toNat * 2 ^ e.toNat) := by grind
      _ = (n2 * d1) * (2 ^ (-e).toNat * 2 ^ e.toNat) := by rw [hx]
      _ = n2 * 2 ^ (-e).toNat * (d1 * 2 ^ e.toNat) := by grind


/-! ### a normal result forces the most significant place into to_double's window -/

theorem big1 : ¬ ((10 : Nat) ^ 309 < 2 ^ 1024) := by decide +kernel
theorem big2 : ¬ ((10 : Nat) ^ 321 * 2 ^ 52 < 2 ^ 1075) := by decide +kernel

theorem PQ_hi (e : Int) (he : e ≤ 971) : P e * 2 ^ 53 ≤ 2 ^ 1024 * Q e := by
  by_cases h : 0 ≤ e
  · rw [P_nonneg_Q e h, Nat.mul_one]
    unfold P
    rw [← Nat.pow_add]
    exact Nat.pow_le_pow_right (by decide) (by omega)
  · rw [Q_nonpos_P e (by omega), Nat.one_mul]
    have h1 : (2 : Nat) ^ 53 ≤ 2 ^ 1024 := Nat.pow_le_pow_right (by decide) (by decide)
    have h2 : 2 ^ 1024 * 1 ≤ 2 ^ 1024 * Q e := Nat.mul_le_mul_left _ (Q_pos e)
    omega

theorem PQ_lo (e : Int) (he : -1075 ≤ e) : Q e ≤ 2 ^ 1075 * P e := by
  by_cases h : 0 ≤ e
  · rw [P_nonneg_Q e h]
    have := Nat.mul_pos (Nat.two_pow_pos 1075) (P_pos e)
    omega
  · rw [Q_nonpos_P e (by omega), Nat.mul_one]
    unfold Q
    exact Nat.pow_le_pow_right (by decide) (by omega)

theorem window_hi (N d0 n : Nat) (lsp e : Int) (hd0 : 1 ≤ d0) (h1 : d0 * 10 ^ n ≤ N)
    (hb : BinadeOf (N * T lsp) (B lsp) e) (he : e ≤ 971) : lsp + (n : Int) ≤ 308 := by
  by_cases hgt : 308 < lsp + (n : Int)
  · exfalso
    rw [binadeOf_PQ] at hb
    have law := TB_add lsp (n : Int)
    have hBn : B (n : Int) = 1 := by
      unfold B
      have : (-(n : Int)).toNat = 0 := by omega
      rw [this]
    have hTn : T (n : Int) = 10 ^ n := by unfold T; simp
    rw [hBn, hTn, Nat.mul_one] at law
    -- law : T (lsp + n) * B lsp = T lsp * 10 ^ n * B (lsp + n)
    have hBm : B (lsp + (n : Int)) = 1 := by
      unfold B
      have : (-(lsp + (n : Int))).toNat = 0 := by omega
      rw [this]
    have hTm : 10 ^ 309 ≤ T (lsp + (n : Int)) := by
      unfold T
      exact Nat.pow_le_pow_right (by decide) (by omega)
    rw [hBm, Nat.mul_one] at law
    have hN : 10 ^ n ≤ N := Nat.le_trans (Nat.le_mul_of_pos_left _ hd0) h1
    have c1 : 10 ^ 309 * B lsp ≤ N * T lsp := by
      calc 10 ^ 309 * B lsp ≤ T (lsp + (n : Int)) * B lsp := Nat.mul_le_mul_right _ hTm
        _ = T lsp * 10 ^ n := law
        _ ≤ T lsp * N := Nat.mul_le_mul_left _ hN
        _ = N * T lsp := Nat.mul_comm _ _
    have c2 : N * T lsp * Q e < B lsp * 2 ^ 1024 * Q e := by
      calc N * T lsp * Q e < B lsp * P e * 2 ^ 53 := hb.2
        _ = B lsp * (P e * 2 ^ 53) := by grind
        _ ≤ B lsp * (2 ^ 1024 * Q e) := Nat.mul_le_mul_left _ (PQ_hi e he)
        _ = B lsp * 2 ^ 1024 * Q e := by grind
    have c3 : N * T lsp < B lsp * 2 ^ 1024 := Nat.lt_of_mul_lt_mul_right c2
    have c4 : 10 ^ 309 * B lsp < 2 ^ 1024 * B lsp := by
      have : B lsp * 2 ^ 1024 = 2 ^ 1024 * B lsp := Nat.mul_comm _ _
      omega
    exact big1 (Nat.lt_of_mul_lt_mul_right c4)
  · omega

theorem window_lo (N d0 n : Nat) (lsp e : Int) (hd9 : d0 ≤ 9) (hNpos : 0 < N) (h2 : N < (d0 + 1) * 10 ^ n)
    (hb : BinadeOf (N * T lsp) (B lsp) e) (he : -1075 ≤ e) : -322 < lsp + (n : Int) := by
  by_cases hgt : -322 < lsp + (n : Int)
  · exact hgt
  · exfalso
    have hle : lsp + (n : Int) ≤ -322 := by omega
    rw [binadeOf_PQ] at hb
    have law := TB_add lsp ((n + 1 : Nat) : Int)
    have hBn : B ((n + 1 : Nat) : Int) = 1 := by
      unfold B
      have : (-((n + 1 : Nat) : Int)).toNat = 0 := by omega
      rw [this]
    have hTn : T ((n + 1 : Nat) : Int) = 10 ^ (n + 1) := by unfold T; simp
    rw [hBn, hTn, Nat.mul_one] at law
    generalize hm1 : lsp + ((n + 1 : Nat) : Int) = m1 at *
    have hm1le : m1 ≤ -321 := by omega
    have hTm : T m1 = 1 := by
      unfold T
      have : m1.toNat = 0 := by omega
      rw [this]
    have hBm : 10 ^ 321 ≤ B m1 := by
      unfold B
      exact Nat.pow_le_pow_right (by decide) (by omega)
    rw [hTm, Nat.one_mul] at law
    -- law : B lsp = T lsp * 10 ^ (n + 1) * B m1
    have hN : N < 10 ^ (n + 1) := by
      have : (d0 + 1) * 10 ^ n ≤ 10 * 10 ^ n := Nat.mul_le_mul_right _ (by omega)
      rw [Nat.pow_succ, Nat.mul_comm (10 ^ n) 10]
      omega
    have hNT : 0 < N * T lsp := Nat.mul_pos hNpos (T_pos lsp)
    have c1 : N * T lsp * 10 ^ 321 < B lsp := by
      rw [law]
      calc N * T lsp * 10 ^ 321 ≤ N * T lsp * B m1 := Nat.mul_le_mul_left _ hBm
        _ = N * (T lsp * B m1) := by grind
        _ < 10 ^ (n + 1) * (T lsp * B m1) := Nat.mul_lt_mul_of_pos_right hN (Nat.mul_pos (T_pos lsp) (B_pos m1))
        _ = T lsp * 10 ^ (n + 1) * B m1 := by grind
    have c2 : B lsp * 2 ^ 52 * P e ≤ N * T lsp * 2 ^ 1075 * P e := by
      calc B lsp * 2 ^ 52 * P e = B lsp * P e * 2 ^ 52 := by grind
        _ ≤ N * T lsp * Q e := hb.1
        _ ≤ N * T lsp * (2 ^ 1075 * P e) := Nat.mul_le_mul_left _ (PQ_lo e he)
        _ = N * T lsp * 2 ^ 1075 * P e := by grind
    have c3 : B lsp * 2 ^ 52 ≤ N * T lsp * 2 ^ 1075 := Nat.le_of_mul_le_mul_right c2 (P_pos e)
    have c4 : N * T lsp * 10 ^ 321 * 2 ^ 52 < B lsp * 2 ^ 52 := Nat.mul_lt_mul_of_pos_right c1 (Nat.two_pow_pos 52)
    have c5 : (10 ^ 321 * 2 ^ 52) * (N * T lsp) < 2 ^ 1075 * (N * T lsp) := by
      have e1 : (10 ^ 321 * 2 ^ 52) * (N * T lsp) = N * T lsp * 10 ^ 321 * 2 ^ 52 := by grind
      have e2 : 2 ^ 1075 * (N * T lsp) = N * T lsp * 2 ^ 1075 := by grind
      omega
    exact big2 (Nat.lt_of_mul_lt_mul_right c5)


/-! ### the theorem without window hypotheses, on normalised digit strings -/

theorem carry_exp (m : Nat) (e : Int) : (carry m e).2 = e ∨ (carry m e).2 = e + 1 := by
  unfold carry; split
  · right; rfl
  · left; rfl

theorem toDoubleBig_rne_all (d0 : Nat) (rest : List Nat) (scale : Int) (hd0 : 1 ≤ d0) (hdig : ∀ d ∈ d0 :: rest, d ≤ 9)
    (htrail : (d0 :: rest).reverse.dropWhile (· = 0) = (d0 :: rest).reverse)
    (hlen : (d0 :: rest).length ≤ 2048) (p : Nat × Int)
    (hr : IsRne (natOfDigits (d0 :: rest) * T (-scale)) (B (-scale)) p) (hn : InNormalRange p) :
    toDoubleBig (d0 :: rest) scale = .fin false p.1 p.2 := by
  have hN := natOfDigits_cons d0 rest
  have hrl := natOfDigits_lt rest (fun x hx => hdig x (by simp [hx]))
  have h1 : d0 * 10 ^ rest.length ≤ natOfDigits (d0 :: rest) := by omega
  have h2 : natOfDigits (d0 :: rest) < (d0 + 1) * 10 ^ rest.length := by
    have : (d0 + 1) * 10 ^ rest.length = d0 * 10 ^ rest.length + 10 ^ rest.length := by grind
    omega
  have hNpos : 0 < natOfDigits (d0 :: rest) := by
    have : 1 * 1 ≤ d0 * 10 ^ rest.length := Nat.mul_le_mul hd0 (Nat.pow_pos (by decide))
    omega
  obtain ⟨e, hb, hp⟩ := hr
  have hce := carry_exp (roundAt (natOfDigits (d0 :: rest) * T (-scale)) (B (-scale)) e) e
  rw [← hp] at hce
  unfold InNormalRange at hn
  have hw1 := window_hi _ d0 rest.length (-scale) e hd0 h1 hb (by omega)
  have hw2 := window_lo _ d0 rest.length (-scale) e (hdig d0 (by simp)) hNpos h2 hb (by omega)
  obtain ⟨p', hr', hmodel⟩ := toDoubleBig_rne d0 rest scale hd0 hdig htrail hlen hw1 hw2
  have hpp : p = p' := isRne_unique _ _ p p' (B_pos _) ⟨e, hb, hp⟩ hr'
  rw [hpp]
  apply hmodel
  rw [← hpp]
  exact hn

/-! ### leading and trailing zeroes -/

theorem dropWhile_idem (p : Nat → Bool) (l : List Nat) : (l.dropWhile p).dropWhile p = l.dropWhile p := by
  induction l with
  | nil => rfl
  | cons x r ih =>
    rw [List.dropWhile_cons]
    by_cases hx : p x = true
    · rw [if_pos hx]; exact ih
    · rw [if_neg hx, List.dropWhile_cons, if_neg hx]

theorem toDoubleBig_lead (ds : List Nat) (scale : Int) : toDoubleBig ds scale = toDoubleBig (ds.dropWhile (· = 0)) scale := by
  unfold toDoubleBig
  rw [dropWhile_idem]

theorem natOfDigits_lead (ds : List Nat) : natOfDigits (ds.dropWhile (· = 0)) = natOfDigits ds := by
  induction ds with
  | nil => rfl
  | cons d r ih =>
    rw [List.dropWhile_cons]
    by_cases hd : d = 0
    · subst hd
      simp only [decide_true, if_true]
      rw [ih, natOfDigits_cons]; simp
    · simp only [hd, decide_false, Bool.false_eq_true, if_false]

theorem natOfDigits_append (a b : List Nat) : natOfDigits (a ++ b) = natOfDigits a * 10 ^ b.length + natOfDigits b := by
  unfold natOfDigits
  rw [List.foldl_append, foldl_digits b]

theorem natOfDigits_zeros (t : Nat) : natOfDigits (List.replicate t 0) = 0 := by
  induction t with
  | zero => rfl
  | succ n ih => rw [List.replicate_succ, natOfDigits_cons, ih]; simp

theorem all_zero_replicate (l : List Nat) (h : ∀ x ∈ l, x = 0) : l = List.replicate l.length 0 := by
  induction l with
  | nil => rfl
  | cons x r ih =>
    rw [List.length_cons, List.replicate_succ, h x (by simp), ← ih (fun y hy => h y (by simp [hy]))]

theorem mem_takeWhile_zero (l : List Nat) : ∀ x ∈ l.takeWhile (· = 0), x = 0 := by
  intro x hx
  have := CifModel.Lemmas.NumbMisc.mem_takeWhile_prop (fun y => decide (y = 0)) l x hx
  simpa using this

/-- the significant part of a digit string that starts with a non-zero digit -/
theorem trail_decomp (d0 : Nat) (r : List Nat) (hd0 : d0 ≠ 0) :
    ∃ r' t, ((d0 :: r).reverse.dropWhile (· = 0)).reverse = d0 :: r' ∧ d0 :: r = (d0 :: r') ++ List.replicate t 0 ∧
      (d0 :: r').reverse.dropWhile (· = 0) = (d0 :: r').reverse := by
  generalize hsig : ((d0 :: r).reverse.dropWhile (· = 0)).reverse = sig
  have hsplit : (d0 :: r).reverse = (d0 :: r).reverse.takeWhile (· = 0) ++ (d0 :: r).reverse.dropWhile (· = 0) :=
    (List.takeWhile_append_dropWhile).symm
  have hds : d0 :: r = sig ++ ((d0 :: r).reverse.takeWhile (· = 0)).reverse := by
    have := congrArg List.reverse hsplit
    rw [List.reverse_reverse, List.reverse_append, hsig] at this
    exact this
  have hZ := all_zero_replicate (((d0 :: r).reverse.takeWhile (· = 0)).reverse) (by
    intro x hx
    rw [List.mem_reverse] at hx
    exact mem_takeWhile_zero _ x hx)
  generalize ((d0 :: r).reverse.takeWhile (· = 0)).reverse = Z at *
  -- sig is not empty, because d0 is not a zero
  cases sig with
  | nil =>
    exfalso
    rw [List.nil_append] at hds
    have : d0 ∈ Z := by rw [← hds]; simp
    rw [hZ] at this
    rw [List.mem_replicate] at this
    exact hd0 this.2
  | cons s0 r' =>
    rw [List.cons_append] at hds
    have hs0 : d0 = s0 := by injection hds
    subst hs0
    refine ⟨r', Z.length, rfl, ?_, ?_⟩
    · rw [← hZ]; exact hds
    · have : (d0 :: r').reverse = (d0 :: r).reverse.dropWhile (· = 0) := by
        rw [← hsig, List.reverse_reverse]
      rw [this, dropWhile_idem]


/-- `toDoubleBig` on a digit string with trailing zeroes (leading digit non-zero), inside the window: the same
    `toDoubleCore` call as for the stripped string at the scale reduced by the number of stripped zeroes -/
theorem toDoubleBig_norm_trail (d0 : Nat) (r r' : List Nat) (t : Nat) (scale : Int) (hd0 : 1 ≤ d0)
    (hsig : ((d0 :: r).reverse.dropWhile (· = 0)).reverse = d0 :: r')
    (hlenr : r.length = r'.length + t)
    (hlen : (d0 :: r').length ≤ 2048)
    (hmsp1 : -scale + (r.length : Int) ≤ 308) (hmsp2 : -322 < -scale + (r.length : Int)) :
    toDoubleBig (d0 :: r) scale =
      toDoubleCore (natOfDigits (d0 :: r') * T (-scale + (t : Int))) (B (-scale + (t : Int)))
        ((d0 + 1) * T (-scale + (r.length : Int))) (B (-scale + (r.length : Int))) := by
  have hlead : (d0 :: r).dropWhile (· = 0) = d0 :: r := by
    have : ¬ (d0 = 0) := by omega
    simp [List.dropWhile, this]
  unfold toDoubleBig
  simp only [hlead, hsig]
  have hne : ¬ (d0 :: r = []) := by simp
  simp only [hne, if_false]
  simp only [List.length_cons, Nat.add_sub_cancel, List.headD_cons]
  have ht : r.length + 1 - (r'.length + 1) = t := by omega
  rw [ht]
  have hlong : decide (-scale + (r.length : Int) - (-scale + (t : Int)) ≥ ((CIF_LINE_LENGTH : Nat) : Int)) = false := by
    simp only [List.length_cons] at hlen
    unfold CIF_LINE_LENGTH
    simp only [decide_eq_false_iff_not]
    omega
  simp only [hlong]
  have c1 : ¬ (-scale + (r.length : Int) > DBL_MAX_10_EXP) := by unfold DBL_MAX_10_EXP; omega
  have c2 : ¬ (-scale + (r.length : Int) ≤ DBL_MIN_10_EXP - ((DBL_DIG : Nat) : Int)) := by
    unfold DBL_MIN_10_EXP DBL_DIG; omega
  simp only [c1, c2, if_false, Bool.false_eq_true]
  rw [num_uniform, den_uniform, num_uniform, den_uniform]

/-- **to_double rounds to nearest-even on every digit string** whose first digit is not zero (trailing zeroes allowed;
    at most 2048 significant digits): for the rounding `p` of `digits·10^-scale`, if `p` is normal the model returns it -/
theorem toDoubleBig_rne_trail (d0 : Nat) (r : List Nat) (scale : Int) (hd0 : 1 ≤ d0) (hdig : ∀ d ∈ d0 :: r, d ≤ 9)
    (hlen : ((d0 :: r).reverse.dropWhile (· = 0)).length ≤ 2048) (p : Nat × Int)
    (hr : IsRne (natOfDigits (d0 :: r) * T (-scale)) (B (-scale)) p) (hn : InNormalRange p) :
    toDoubleBig (d0 :: r) scale = .fin false p.1 p.2 := by
  obtain ⟨r', t, hsig, hdec, htr⟩ := trail_decomp d0 r (by omega)
  have hlen' : (d0 :: r').length ≤ 2048 := by
    have := congrArg List.length hsig
    rw [List.length_reverse] at this
    omega
  have hlenr : r.length = r'.length + t := by
    have := congrArg List.length hdec
    simp only [List.length_cons, List.length_append, List.length_replicate] at this
    omega
  have hdig' : ∀ d ∈ d0 :: r', d ≤ 9 := by
    intro d hd
    apply hdig d
    rw [hdec]; exact List.mem_append_left _ hd
  -- the value, written with the stripped digits
  have hval : natOfDigits (d0 :: r) = natOfDigits (d0 :: r') * 10 ^ t := by
    rw [hdec, natOfDigits_append, natOfDigits_zeros, List.length_replicate]; simp
  have hx : natOfDigits (d0 :: r) * T (-scale) * B (-scale + (t : Int)) =
      natOfDigits (d0 :: r') * T (-scale + (t : Int)) * B (-scale) := by
    have law := TB_add (-scale) (t : Int)
    have hBt : B (t : Int) = 1 := by
      unfold B
      have : (-(t : Int)).toNat = 0 := by omega
      rw [this]
    have hTt : T (t : Int) = 10 ^ t := by unfold T; simp
    rw [hBt, hTt, Nat.mul_one] at law
    -- law : T (-scale + t) * B (-scale) = T (-scale) * 10 ^ t * B (-scale + t)
    rw [hval]
    calc natOfDigits (d0 :: r') * 10 ^ t * T (-scale) * B (-scale + (t : Int))
        = natOfDigits (d0 :: r') * (T (-scale) * 10 ^ t * B (-scale + (t : Int))) := by grind
      _ = natOfDigits (d0 :: r') * (T (-scale + (t : Int)) * B (-scale)) := by rw [law]
      _ = natOfDigits (d0 :: r') * T (-scale + (t : Int)) * B (-scale) := by grind
  have hr' : IsRne (natOfDigits (d0 :: r') * T (-scale + (t : Int))) (B (-scale + (t : Int))) p :=
    isRne_congr _ _ _ _ p (B_pos _) (B_pos _) hx hr
  -- the stripped string at scale - t
  have hs : -(scale - (t : Int)) = -scale + (t : Int) := by omega
  have key := toDoubleBig_rne_all d0 r' (scale - (t : Int)) hd0 hdig' htr hlen' p (by rw [hs]; exact hr') hn
  -- the window, from the stripped string
  have hN := natOfDigits_cons d0 r'
  have hrl := natOfDigits_lt r' (fun x hx => hdig' x (by simp [hx]))
  have h1 : d0 * 10 ^ r'.length ≤ natOfDigits (d0 :: r') := by omega
  have h2 : natOfDigits (d0 :: r') < (d0 + 1) * 10 ^ r'.length := by
    have : (d0 + 1) * 10 ^ r'.length = d0 * 10 ^ r'.length + 10 ^ r'.length := by grind
    omega
  have hNpos : 0 < natOfDigits (d0 :: r') := by
    have : 1 * 1 ≤ d0 * 10 ^ r'.length := Nat.mul_le_mul hd0 (Nat.pow_pos (by decide))
    omega
  obtain ⟨e, hb, hp⟩ := hr'
  have hce := carry_exp (roundAt (natOfDigits (d0 :: r') * T (-scale + (t : Int))) (B (-scale + (t : Int))) e) e
  rw [← hp] at hce
  have hn' := hn
  unfold InNormalRange at hn'
  have hw1 := window_hi _ d0 r'.length (-scale + (t : Int)) e hd0 h1 hb (by omega)
  have hw2 := window_lo _ d0 r'.length (-scale + (t : Int)) e (hdig' d0 (by simp)) hNpos h2 hb (by omega)
  have hm1 : -scale + (r.length : Int) ≤ 308 := by omega
  have hm2 : -322 < -scale + (r.length : Int) := by omega
  rw [← key]
  rw [toDoubleBig_norm_trail d0 r r' t scale hd0 hsig hlenr hlen' hm1 hm2]
  rw [toDoubleBig_norm d0 r' (scale - (t : Int)) hd0 htr hlen' (by omega) (by omega)]
  have e1 : -scale + (t : Int) + (r'.length : Int) = -scale + (r.length : Int) := by omega
  rw [hs, e1]


theorem dropWhile_zero_head (l : List Nat) : l.dropWhile (· = 0) = [] ∨ ∃ d r, l.dropWhile (· = 0) = d :: r ∧ d ≠ 0 := by
  induction l with
  | nil => left; rfl
  | cons x t ih =>
    rw [List.dropWhile_cons]
    by_cases hx : x = 0
    · simp only [hx, decide_true, if_true]; exact ih
    · simp only [hx, decide_false, Bool.false_eq_true, if_false]
      right; exact ⟨x, t, rfl, hx⟩

theorem mem_dropWhile (p : Nat → Bool) (l : List Nat) : ∀ x ∈ l.dropWhile p, x ∈ l := by
  induction l with
  | nil => intro x hx; simp at hx
  | cons a t ih =>
    intro x hx
    rw [List.dropWhile_cons] at hx
    by_cases ha : p a = true
    · rw [if_pos ha] at hx; exact List.mem_cons_of_mem _ (ih x hx)
    · rw [if_neg ha] at hx; exact hx

/-- **to_double = IEEE round-to-nearest-even, for every digit string** (leading and trailing zeroes allowed, at most
    2048 significant digits, non-zero value): if `p` is the rounding of `digits·10^-scale` and `p` is a normal double,
    `toDoubleBig` returns exactly `p`. -/
theorem toDoubleBig_rne_full (ds : List Nat) (scale : Int) (hdig : ∀ d ∈ ds, d ≤ 9) (hnz : natOfDigits ds ≠ 0)
    (hlen : ((ds.dropWhile (· = 0)).reverse.dropWhile (· = 0)).length ≤ 2048) (p : Nat × Int)
    (hr : IsRne (natOfDigits ds * T (-scale)) (B (-scale)) p) (hn : InNormalRange p) :
    toDoubleBig ds scale = .fin false p.1 p.2 := by
  rw [toDoubleBig_lead]
  have hv := natOfDigits_lead ds
  rcases dropWhile_zero_head ds with h0 | ⟨d0, r, h0, hd0⟩
  · rw [h0] at hv
    exact absurd hv.symm hnz
  · rw [h0] at hlen hv ⊢
    rw [← hv] at hr
    exact toDoubleBig_rne_trail d0 r scale (by omega)
      (fun d hd => hdig d (mem_dropWhile _ ds d (by rw [h0]; exact hd))) hlen p hr hn

end CifModel.Lemmas.NumbWindow
