import CifModel.Lemmas.ParserDefectSeg
import CifModel.Lemmas.DefectChars
import CifModel.Lemmas.ParserDefectLex
/-
  Lemmas/ParserDefectDie (group gW) — property C12 under the ABORT-ON-ERROR handler (`dieAll`, cif_parse_error_die: the answer to a
  report is its code).  C03_die_is_first gives the return value and the log; what is added here is the CONTENT: the target CIF
  holds exactly what had been stored when the report was made — what stands in front of the defect, nothing behind it.

    * `DieSeg`            the element loop of a container, started in front of the tokens `T`, ends with the abort: return value =
                          the class's code, one more report, content `(fs', ls')`;
    * `DieSeg.after_elems`  well-formed elements in front (they are stored);
    * `DieSeg.frame`      the defect inside a save frame: the frame exists, with what had been stored in it (not pruned);
    * the classes: `die_missing_value`, `die_unexpected_value`, `die_dup_itemname`, `die_invalid_itemname`,
      `die_unexpected_delim`, `die_unexpected_term` — in each the report is made BEFORE anything of the defective construct is
      stored, so the content is that of the elements in front;
    * `block_die_run`, `block_die_chars`  the data block of the defect in a whole parse of a text.
-/
set_option linter.unusedSimpArgs false

namespace CifModel.Model.Parser
open CifModel CifModel.Model CifModel.Model.Lexer CifModel.Spec.Grammar CifModel.Spec.Lexical
open CifModel.Gen.ErrCodes

theorem report_die (code : Code) (line col : Nat) (w : W) (hc : code ≠ 0) :
    report code line col dieAll w = .abort (code : Int) { w with log := ⟨code, line, col⟩ :: w.log } := by
  have h : dieAll w.log.length ⟨code, line, col⟩ ≠ 0 := by
    simp only [dieAll]; exact_mod_cast hc
  have := report_nonzero code line col dieAll w h
  simpa [dieAll] using this

/-- the element loop, started in front of `T`, is left through the abort-on-error handler -/
def DieSeg (o : Opts) (path : Path) (put : Container → Cif) (code : Str) (isBlock : Bool) (T : List TokSpec)
    (fs : List Container) (ls : List Loop) (fs' : List Container) (ls' : List Loop) (C : Code) (j need : Nat)
    (follow : List TokSpec → Prop) : Prop :=
  ∀ (rest : List TokSpec) (s : PS) (fuel : Nat) (w : W), w.cif = put (.mk code fs ls) → need ≤ fuel → follow rest →
    Feeds o s (T ++ rest) →
    ∃ r, elemsLoop o fuel s (some path) isBlock dieAll w = .abort (C : Int) { log := r :: w.log, cif := put (.mk code fs' ls') }
      ∧ r.code = C ∧ RepAt o s j r

/-- well-formed elements in front of the defect: they are stored -/
theorem DieSeg.after_elems (o : Opts) (hmfd : o.maxFrameDepth ≠ 0) {path : Path} {put : Container → Cif} {code : Str}
    (hv : View o path put code) (isBlock : Bool) (es : List Elem) (seen fseen : List Str) (fs : List Container) (ls : List Loop)
    {T : List TokSpec} {fs' : List Container} {ls' : List Loop} {C : Code} {j need : Nat} {follow : List TokSpec → Prop}
    (hlvl : isBlock = true ∨ noFrames es = true ∨ o.maxFrameDepth ≠ 1) (hwf : wfElems o es seen fseen = true)
    (hseen : ∀ k ∈ normNames o ls, k ∈ seen) (hfseen : ∀ c ∈ fs, o.norm c.code ∈ fseen)
    (hT : ∀ rest, follow rest → termFollow (T ++ rest))
    (h : DieSeg o path put code isBlock T (denoteElems o.dia o.normKey es fs ls).1 (denoteElems o.dia o.normKey es fs ls).2 fs' ls'
      C j need follow) :
    DieSeg o path put code isBlock (elemsToks es ++ T) fs ls fs' ls' C ((elemsToks es).length + j) (szElems es + es.length + need)
      follow := by
  intro rest s fuel w hw hf hfol hF
  obtain ⟨f, rfl⟩ : ∃ f, fuel = f + es.length := ⟨fuel - es.length, by omega⟩
  obtain ⟨s1, h1, h2, a1⟩ := elemsV_at o hmfd es path put code hv isBlock seen fseen (T ++ rest) s f dieAll w fs ls hlvl hw hwf hseen
    hfseen (by omega) (hT rest hfol) (by simpa [List.append_assoc] using hF)
  obtain ⟨r, h3, hc, hr⟩ := h rest s1 f { w with cif := put (.mk code (denoteElems o.dia o.normKey es fs ls).1
    (denoteElems o.dia o.normKey es fs ls).2) } rfl (by omega) hfol h2
  exact ⟨r, by rw [h1, h3], hc, RepAt.shift a1 hr⟩

/-- well-formed ITEMS in front of the defect (when the run ends with a loop, the defect must start with a token that ends the
    loop body) -/
theorem DieSeg.after_items (o : Opts) {path : Path} {put : Container → Cif} {code : Str}
    (hv : View o path put code) (isBlock : Bool) (its : List Item) (seen : List Str) (fs : List Container) (ls : List Loop)
    {T : List TokSpec} {fs' : List Container} {ls' : List Loop} {C : Code} {j need : Nat} {follow : List TokSpec → Prop}
    (hwf : wfItems o its seen = true) (hseen : ∀ k ∈ normNames o ls, k ∈ seen)
    (hT : lastIsLoop its = true → ∀ rest, follow rest → termFollow (T ++ rest))
    (h : DieSeg o path put code isBlock T fs (denoteItems o.dia o.normKey its ls) fs' ls' C j need follow) :
    DieSeg o path put code isBlock (itemsToks its ++ T) fs ls fs' ls' C ((itemsToks its).length + j) (szItems its + its.length + need)
      follow := by
  intro rest s fuel w hw hf hfol hF
  obtain ⟨f, rfl⟩ : ∃ f, fuel = f + its.length := ⟨fuel - its.length, by omega⟩
  obtain ⟨s1, h1, h2, a1⟩ := items_structure_at o hv its seen (T ++ rest) s f dieAll w fs ls isBlock hw hwf hseen (by omega)
    (fun hl => hT hl rest hfol) (by simpa [List.append_assoc] using hF)
  obtain ⟨r, h3, hc, hr⟩ := h rest s1 f { w with cif := put (.mk code fs (denoteItems o.dia o.normKey its ls)) } rfl (by omega) hfol h2
  exact ⟨r, by rw [h1, h3], hc, RepAt.shift a1 hr⟩

/-- the defect inside a save frame: the abort leaves the frame as it is (created, filled so far, not pruned) -/
theorem DieSeg.frame (o : Opts) (hmfd : o.maxFrameDepth ≠ 0) {path : Path} {put : Container → Cif} {code : Str} (hv : View o path put code)
    (isBlock : Bool) (fc : Str) (fs : List Container) (ls : List Loop) (T : List TokSpec) (fsb : List Container) (lsb : List Loop)
    (C : Code) (j need : Nat) (follow : List TokSpec → Prop)
    (hlvl : isBlock = true ∨ o.maxFrameDepth ≠ 1) (hcode : wfCode fc = true)
    (hnew : ∀ c ∈ fs, codeIs o.norm (o.norm fc) c = false)
    (hbody : DieSeg o (path ++ [o.norm fc]) (fun c => put (.mk code (fs ++ [c]) ls)) fc false T [] [] fsb lsb C j need follow) :
    DieSeg o path put code isBlock ((.frameHead, fc) :: T) fs ls (fs ++ [.mk fc fsb lsb]) ls C (1 + j) (need + 2) follow := by
  intro rest s fuel w hw hf hfol hF
  have hc0 : ¬ (o.maxFrameDepth = 0 ∧ (!isBlock) = true) := by simp [hmfd]
  have hc1 : ¬ (o.maxFrameDepth = 1 ∧ (!isBlock) = true) := by
    rcases hlvl with h | h
    · simp [h]
    · simp [h]
  simp only [wfCode, Bool.and_eq_true] at hcode
  simp only [List.cons_append] at hF
  obtain ⟨t, s1, hty, htx, hn, ht, hr⟩ := hF.inv
  obtain ⟨X, rfl⟩ : ∃ X, fuel = (X + 1) + 1 := ⟨fuel - 2, by omega⟩
  obtain ⟨r, e1, hc, hrep⟩ := hbody rest (consume s1) X { w with cif := put (.mk code (fs ++ [.mk fc [] []]) ls) } rfl (by omega) hfol hr
  have a0 : At o s 1 (consume s1) := (At.refl o s).step hn ht
  refine ⟨r, ?_, hc, RepAt.shift a0 hrep⟩
  conv => lhs; rw [elemsLoop]
  simp only [bind_eq, pure_eq, P.bind, P.pure, hn, hty, htx, cstr_noNul hcode.2, hc0, hc1, if_false, hmfd, false_and,
    createIn_child o hv fc fs ls _ _ dieAll w hw hcode.1 hnew]
  conv => lhs; rw [parseContainer]
  simp only [bind_eq, pure_eq, P.bind, P.pure, e1]

/-! ### the classes: the report is made before anything of the defective construct is stored -/

/-- a data name that is not followed by a value -/
theorem die_missing_value (o : Opts) {path : Path} {put : Container → Cif} {code : Str} (hv : View o path put code) (isBlock : Bool)
    (n : Str) (fs : List Container) (ls : List Loop) (hname : wfName n = true) (hfresh : o.norm n ∉ normNames o ls) :
    DieSeg o path put code isBlock [(.name, n)] fs ls fs ls CIF_MISSING_VALUE 1 1 termFollow := by
  intro rest s fuel w hw hf hfol hF
  obtain ⟨ty, tx, ts, rfl, hterm⟩ := hfol
  obtain ⟨f, rfl⟩ : ∃ f, fuel = f + 1 := ⟨fuel - 1, by omega⟩
  simp only [wfName, Bool.and_eq_true] at hname
  simp only [List.singleton_append] at hF
  obtain ⟨t, s1, hty, htx, hn, ht, hr⟩ := hF.inv
  obtain ⟨t2, s2, hty2, htx2, hn2, ht2, hr2⟩ := hr.inv
  have a2 : At o s 1 s2 := ((At.refl o s).step hn ht).peek hn2 ht2
  simp only [isTerminator, Bool.not_eq_true', Bool.or_eq_false_iff] at hterm
  refine ⟨⟨CIF_MISSING_VALUE, s2.scan.line, s2.scan.col - t2.text.length⟩, ?_, rfl, ⟨s2, a2, rfl⟩⟩
  conv => lhs; rw [elemsLoop]
  simp only [bind_eq, pure_eq, P.bind, P.pure, hn, hty, htx, cstr_noNul hname.2,
    itemExists_false o hv n fs ls dieAll w hw hname.1 hfresh, Bool.false_eq_true, if_false, hname.1, Bool.not_true, and_false]
  unfold parseItem
  simp only [bind_eq, pure_eq, P.bind, P.pure, hn2, hty2, hterm.1.1.1, hterm.1.1.2, Bool.false_eq_true, if_false,
    report_die CIF_MISSING_VALUE _ _ w (by decide)]
  simp [hw]

/-- a value where an item is expected (the first token of any value) -/
theorem die_unexpected_value (o : Opts) {path : Path} {put : Container → Cif} {code : Str} (isBlock : Bool)
    (v : Val) (fs : List Container) (ls : List Loop) :
    DieSeg o path put code isBlock (valToks v) fs ls fs ls CIF_UNEXPECTED_VALUE 0 1 (fun _ => True) := by
  intro rest s fuel w hw hf _ hF
  obtain ⟨f, rfl⟩ : ∃ f, fuel = f + 1 := ⟨fuel - 1, by omega⟩
  obtain ⟨ty, tx, ts, hvt, hstart, hkey⟩ := valToks_head v
  rw [hvt, List.cons_append] at hF
  obtain ⟨t, s1, hty, htx, hn, ht, hr⟩ := hF.inv
  have a1 : At o s 0 s1 := (At.refl o s).peek hn ht
  refine ⟨⟨CIF_UNEXPECTED_VALUE, s1.scan.line, 1 + s1.scan.col - t.text.length⟩, ?_, rfl, ⟨s1, a1, rfl⟩⟩
  conv => lhs; rw [elemsLoop]
  cases ty <;> simp [isValueStart] at hstart <;>
    simp only [bind_eq, pure_eq, P.bind, P.pure, hn, hty, report_die CIF_UNEXPECTED_VALUE _ _ w (by decide)] <;> simp [hw]

/-- a data name that is already defined in the container (any spelling) -/
theorem die_dup_itemname (o : Opts) {path : Path} {put : Container → Cif} {code : Str} (hv : View o path put code) (isBlock : Bool)
    (n : Str) (fs : List Container) (ls : List Loop) (hname : wfName n = true) (hdup : o.norm n ∈ normNames o ls) :
    DieSeg o path put code isBlock [(.name, n)] fs ls fs ls CIF_DUP_ITEMNAME 1 1 (fun _ => True) := by
  intro rest s fuel w hw hf _ hF
  obtain ⟨f, rfl⟩ : ∃ f, fuel = f + 1 := ⟨fuel - 1, by omega⟩
  simp only [wfName, Bool.and_eq_true] at hname
  simp only [List.singleton_append] at hF
  obtain ⟨t, s1, hty, htx, hn, ht, hr⟩ := hF.inv
  have a1 : At o s 1 (consume s1) := (At.refl o s).step hn ht
  refine ⟨⟨CIF_DUP_ITEMNAME, (consume s1).scan.line, (consume s1).scan.col⟩, ?_, rfl, ⟨consume s1, a1, rfl⟩⟩
  conv => lhs; rw [elemsLoop]
  simp only [bind_eq, pure_eq, P.bind, P.pure, hn, hty, htx, cstr_noNul hname.2,
    itemExists_true o hv n fs ls dieAll w hw hname.1 hdup, if_true, report_die CIF_DUP_ITEMNAME _ _ w (by decide)]
  simp [hw]

/-- a data name that is not a valid item name -/
theorem die_invalid_itemname (o : Opts) {path : Path} {put : Container → Cif} {code : Str} (isBlock : Bool)
    (n : Str) (fs : List Container) (ls : List Loop) (hn0 : noNul n = true) (hinv : isValidName true n = false) :
    DieSeg o path put code isBlock [(.name, n)] fs ls fs ls CIF_INVALID_ITEMNAME 1 1 (fun _ => True) := by
  intro rest s fuel w hw hf _ hF
  obtain ⟨f, rfl⟩ : ∃ f, fuel = f + 1 := ⟨fuel - 1, by omega⟩
  simp only [List.singleton_append] at hF
  obtain ⟨t, s1, hty, htx, hn, ht, hr⟩ := hF.inv
  have a1 : At o s 1 (consume s1) := (At.refl o s).step hn ht
  have hex : itemExists o path n dieAll w = .ok false w := by
    unfold itemExists
    simp only [hinv, Bool.not_false, if_true, pure_eq, P.pure]
  refine ⟨⟨CIF_INVALID_ITEMNAME, (consume s1).scan.line, (consume s1).scan.col⟩, ?_, rfl, ⟨consume s1, a1, rfl⟩⟩
  conv => lhs; rw [elemsLoop]
  simp only [bind_eq, pure_eq, P.bind, P.pure, hn, hty, htx, cstr_noNul hn0, hex, Bool.false_eq_true, if_false, Option.isSome_some,
    hinv, Bool.not_false, and_self, if_true, report_die CIF_INVALID_ITEMNAME _ _ w (by decide)]
  simp [hw]

/-- a closing bracket or brace where an item is expected -/
theorem die_unexpected_delim (o : Opts) {path : Path} {put : Container → Cif} {code : Str} (isBlock : Bool)
    (ty : TokType) (tx : Str) (fs : List Container) (ls : List Loop) (hty : ty = .clist ∨ ty = .ctable) :
    DieSeg o path put code isBlock [(ty, tx)] fs ls fs ls CIF_UNEXPECTED_DELIM 0 1 (fun _ => True) := by
  intro rest s fuel w hw hf _ hF
  obtain ⟨f, rfl⟩ : ∃ f, fuel = f + 1 := ⟨fuel - 1, by omega⟩
  simp only [List.singleton_append] at hF
  obtain ⟨t, s1, ht, _, hn, htk, hr⟩ := hF.inv
  refine ⟨⟨CIF_UNEXPECTED_DELIM, s1.scan.line, s1.scan.col - t.text.length⟩, ?_, rfl, ⟨s1, (At.refl o s).peek hn htk, rfl⟩⟩
  conv => lhs; rw [elemsLoop]
  rcases hty with h | h <;>
    simp only [bind_eq, pure_eq, P.bind, P.pure, hn, ht, h, report_die CIF_UNEXPECTED_DELIM _ _ w (by decide)] <;> simp [hw]

/-- `save_` in a data block while no save frame is open -/
theorem die_unexpected_term (o : Opts) {path : Path} {put : Container → Cif} {code : Str}
    (tx : Str) (fs : List Container) (ls : List Loop) :
    DieSeg o path put code true [(.frameTerm, tx)] fs ls fs ls CIF_UNEXPECTED_TERM 0 1 (fun _ => True) := by
  intro rest s fuel w hw hf _ hF
  obtain ⟨f, rfl⟩ : ∃ f, fuel = f + 1 := ⟨fuel - 1, by omega⟩
  simp only [List.singleton_append] at hF
  obtain ⟨t, s1, ht, _, hn, htk, hr⟩ := hF.inv
  refine ⟨⟨CIF_UNEXPECTED_TERM, s1.scan.line, s1.scan.col⟩, ?_, rfl, ⟨s1, (At.refl o s).peek hn htk, rfl⟩⟩
  conv => lhs; rw [elemsLoop]
  simp only [bind_eq, pure_eq, P.bind, P.pure, hn, ht, if_true, report_die CIF_UNEXPECTED_TERM _ _ w (by decide)]
  simp [hw]

/-- `loop_` that is not followed by a data name -/
theorem die_null_loop (o : Opts) {path : Path} {put : Container → Cif} {code : Str} (hv : View o path put code) (isBlock : Bool)
    (fs : List Container) (ls : List Loop) :
    DieSeg o path put code isBlock [(.loopKw, [])] fs ls fs ls CIF_NULL_LOOP 1 2
      (fun rest => ∃ ty tx ts, rest = (ty, tx) :: ts ∧ ty ≠ .name) := by
  intro rest s fuel w hw hf hfol hF
  obtain ⟨ty, tx, ts, rfl, hnn⟩ := hfol
  obtain ⟨f, rfl⟩ : ∃ f, fuel = (f + 1) + 1 := ⟨fuel - 2, by omega⟩
  simp only [List.singleton_append] at hF
  obtain ⟨t, s1, hty, _, hn, htk, hr⟩ := hF.inv
  obtain ⟨s2, h1, h2, ha⟩ := header_structure_at o hv fs ls [] [] ((ty, tx) :: ts) (consume s1) (f + 1) dieAll w hw
    (by intro n hn; cases hn) (by intro n hn; cases hn) (by simp) (by simp) ⟨ty, tx, ts, rfl, hnn⟩ hr
  simp only [List.nil_append, List.map_nil] at h1
  have a2 : At o s 1 s2 := (((At.refl o s).step hn htk).trans ha).cast (by simp)
  refine ⟨⟨CIF_NULL_LOOP, s2.scan.line, s2.scan.col - (s2.tok.getD default).text.length⟩, ?_, rfl, ⟨s2, a2, rfl⟩⟩
  conv => lhs; rw [elemsLoop]
  simp only [bind_eq, pure_eq, P.bind, P.pure, hn, hty]
  unfold parseLoop
  simp only [bind_eq, pure_eq, P.bind, P.pure, h1, List.isEmpty_nil, if_true, report_die CIF_NULL_LOOP _ _ w (by decide)]
  simp [hw]

/-- a data name repeated in its loop header (`loop_ ns₁ n'`, `n'` a name of the container or of `ns₁`, any spelling): the report is
    made while the header is read — the loop has not been created -/
theorem die_dup_header_name (o : Opts) {path : Path} {put : Container → Cif} {code : Str} (hv : View o path put code) (isBlock : Bool)
    (ns1 : List Str) (n' : Str) (fs : List Container) (ls : List Loop)
    (hwf : ∀ n ∈ ns1, wfName n = true) (hfresh : ∀ n ∈ ns1, o.norm n ∉ normNames o ls) (hnd : (ns1.map o.norm).Nodup)
    (hname : wfName n' = true) (hdup : o.norm n' ∈ normNames o ls ∨ ∃ m ∈ ns1, o.norm m = o.norm n') :
    DieSeg o path put code isBlock ((.loopKw, []) :: (ns1.map (fun n => (TokType.name, n)) ++ [(.name, n')])) fs ls fs ls
      CIF_DUP_ITEMNAME (1 + ns1.length) (ns1.length + 2) (fun _ => True) := by
  intro rest s fuel w hw hf _ hF
  obtain ⟨g, rfl⟩ : ∃ g, fuel = ((g + 1) + ns1.length) + 1 := ⟨fuel - ns1.length - 2, by omega⟩
  simp only [List.cons_append, List.append_assoc, List.singleton_append] at hF
  obtain ⟨t, s1, hty, _, hn, ht, hr⟩ := hF.inv
  obtain ⟨s2, h1, h2, ha2⟩ := header_run_at o hv fs ls ns1 [] _ (consume s1) (g + 1) dieAll w hw hwf hfresh
    (by simpa using hnd) hr
  simp only [List.nil_append] at h1
  have a2 := ((At.refl o s).step hn ht).trans ha2
  simp only [wfName, Bool.and_eq_true] at hname
  obtain ⟨t2, s3, ht1, ht2, hn2, htk2, _⟩ := h2.inv
  have hstep : headerLoop o (some path) (g + 1) s2 (ns1.map some) dieAll w
      = .abort (CIF_DUP_ITEMNAME : Int) { w with log := ⟨CIF_DUP_ITEMNAME, s3.scan.line, s3.scan.col - t2.text.length⟩ :: w.log } := by
    rw [headerLoop]
    by_cases hin : o.norm n' ∈ normNames o ls
    · simp only [bind_eq, pure_eq, P.bind, P.pure, hn2, ht1, ht2, if_true, cstr_noNul hname.2,
        itemExists_true o hv n' fs ls dieAll w hw hname.1 hin, report_die CIF_DUP_ITEMNAME _ _ w (by decide)]
    · rcases hdup with h | ⟨m, hm, hmn⟩
      · exact absurd h hin
      · have hmv : isValidName true m = true := by
          have := hwf m hm; simp only [wfName, Bool.and_eq_true] at this; exact this.1
        have hfind : findHeaderName o (ns1.map some) n' = some false := by
          unfold findHeaderName
          have hmem : some m ∈ ns1.map some := List.mem_map.mpr ⟨m, hm, rfl⟩
          simp only [hname.1, Bool.not_true, Bool.false_eq_true, if_false]
          split
          · rfl
          · rename_i h
            exact absurd (List.any_eq_true.mpr ⟨some m, hmem, by simp [hmv, hmn]⟩) h
        simp only [bind_eq, pure_eq, P.bind, P.pure, hn2, ht1, ht2, if_true, cstr_noNul hname.2,
          itemExists_false o hv n' fs ls dieAll w hw hname.1 hin, Bool.false_eq_true, if_false, hfind,
          report_die CIF_DUP_ITEMNAME _ _ w (by decide)]
  refine ⟨⟨CIF_DUP_ITEMNAME, s3.scan.line, s3.scan.col - t2.text.length⟩, ?_, rfl,
    ⟨s3, (a2.peek hn2 htk2).cast (by omega), rfl⟩⟩
  conv => lhs; rw [elemsLoop]
  simp only [bind_eq, pure_eq, P.bind, P.pure, hn, hty]
  unfold parseLoop
  simp only [bind_eq, pure_eq, P.bind, P.pure, h1, hstep]
  simp [hw]

/-! ### defects inside a VALUE: the report is made while the value is parsed — the item is not stored -/

/-- parse_value, started in front of the tokens `T`, is left through the abort-on-error handler -/
def DieVal (o : Opts) (T : List TokSpec) (C : Code) (j need : Nat) (follow : List TokSpec → Prop) : Prop :=
  ∀ (rest : List TokSpec) (s : PS) (fuel : Nat) (w : W), need ≤ fuel → follow rest → Feeds o s (T ++ rest) →
    ∃ r, parseValue o fuel s dieAll w = .abort (C : Int) { w with log := r :: w.log } ∧ r.code = C ∧ RepAt o s j r

/-- an item `_n <value>` whose value parse is aborted -/
theorem die_item_of_value (o : Opts) {path : Path} {put : Container → Cif} {code : Str} (hv : View o path put code) (isBlock : Bool)
    (n : Str) (ty : TokType) (tx : Str) (T : List TokSpec) (fs : List Container) (ls : List Loop) (C : Code) (j need : Nat)
    (follow : List TokSpec → Prop) (hname : wfName n = true) (hfresh : o.norm n ∉ normNames o ls)
    (hstart : isValueStart ty = true) (hkey : isKeyTok ty = false) (hval : DieVal o ((ty, tx) :: T) C j need follow) :
    DieSeg o path put code isBlock ((.name, n) :: (ty, tx) :: T) fs ls fs ls C (1 + j) (need + 1) follow := by
  intro rest s fuel w hw hf hfol hF
  obtain ⟨f, rfl⟩ : ∃ f, fuel = f + 1 := ⟨fuel - 1, by omega⟩
  simp only [wfName, Bool.and_eq_true] at hname
  simp only [List.cons_append] at hF
  obtain ⟨t, s1, hty, htx, hn, ht, hr⟩ := hF.inv
  have a1 : At o s 1 (consume s1) := (At.refl o s).step hn ht
  obtain ⟨t2, s2, hty2, htx2, hn2, ht2, hr2⟩ := hr.inv
  have hpend : Feeds o s2 (((ty, tx) :: T) ++ rest) := by
    simp only [List.cons_append]; rw [← hty2, ← htx2]; exact Feeds.pending ht2 hr2
  obtain ⟨r, h1, hc, hrep⟩ := hval rest s2 f w (by omega) hfol hpend
  refine ⟨r, ?_, hc, RepAt.shift (a1.peek hn2 ht2) hrep⟩
  conv => lhs; rw [elemsLoop]
  simp only [bind_eq, pure_eq, P.bind, P.pure, hn, hty, htx, cstr_noNul hname.2,
    itemExists_false o hv n fs ls dieAll w hw hname.1 hfresh, Bool.false_eq_true, if_false, hname.1, Bool.not_true, and_false]
  unfold parseItem
  have hk : isKeyTok t2.ty = false := by rw [hty2]; exact hkey
  have hs : isValueStart t2.ty = true := by rw [hty2]; exact hstart
  simp only [bind_eq, pure_eq, P.bind, P.pure, hn2, hk, hs, if_true, Bool.false_eq_true, if_false, h1]
  simp [hw]

/-- the elements of a list up to a token that ends the list without closing it, abort-on-error handler -/
theorem values_open_die (o : Opts) : ∀ (vs : List Val) (ty : TokType) (tx : Str) (ts : List TokSpec) (s : PS) (fuel : Nat) (w : W)
    (acc : List V), wfVals o vs = true → szVals vs + 1 ≤ fuel → isTerminator ty = true →
    Feeds o s (valsToks vs ++ (ty, tx) :: ts) →
    ∃ r, listLoop o fuel s acc dieAll w = .abort (CIF_MISSING_DELIM : Int) { w with log := r :: w.log }
      ∧ r.code = CIF_MISSING_DELIM ∧ RepAt o s (valsToks vs).length r
  | [], ty, tx, ts, s, fuel, w, acc, _, hf, hterm, hF => by
    obtain ⟨f, rfl⟩ : ∃ f, fuel = f + 1 := ⟨fuel - 1, by omega⟩
    simp only [valsToks, List.nil_append] at hF
    obtain ⟨t, s', hty, htx, hn, ht, hr⟩ := hF.inv
    simp only [isTerminator, Bool.not_eq_true', Bool.or_eq_false_iff, beq_eq_false_iff_ne, ne_eq] at hterm
    have a0 : At o s (valsToks []).length s' := ((At.refl o s).peek hn ht).cast (by simp [valsToks])
    refine ⟨⟨CIF_MISSING_DELIM, s'.scan.line, s'.scan.col - t.text.length⟩, ?_, rfl, ⟨s', a0, rfl⟩⟩
    rw [listLoop]
    simp only [bind_eq, pure_eq, P.bind, P.pure, hn, hty, hterm.1.1.1, hterm.1.1.2, hterm.1.2, Bool.false_eq_true, if_false,
      report_die CIF_MISSING_DELIM _ _ w (by decide)]
  | v :: vs, ty, tx, ts, s, fuel, w, acc, hw, hf, hterm, hF => by
    obtain ⟨f, rfl⟩ : ∃ f, fuel = f + 1 := ⟨fuel - 1, by omega⟩
    simp only [wfVals, Bool.and_eq_true] at hw
    simp only [szVals] at hf
    have hp := szVal_pos v
    obtain ⟨vty, vtx, vts, hvt, hstart, hkey⟩ := valToks_head v
    simp only [valsToks, List.append_assoc] at hF
    have hF' := hF
    rw [hvt, List.cons_append] at hF'
    obtain ⟨t, s', hty, htx, hn, ht, hr⟩ := hF'.inv
    have hpend : Feeds o s' (valToks v ++ (valsToks vs ++ (ty, tx) :: ts)) := by
      rw [hvt, List.cons_append, ← hty, ← htx]; exact Feeds.pending ht hr
    obtain ⟨s1, h1, h2, ha1⟩ := value_structure_at o v _ s' f dieAll w hw.1 (by omega) hpend
    obtain ⟨r, h3, hc, hrep⟩ := values_open_die o vs ty tx ts s1 f w (acc ++ [denoteVal o.dia o.normKey v]) hw.2 (by omega) hterm h2
    have a1 : At o s (valToks v).length s1 := (((At.refl o s).peek hn ht).trans ha1).cast (by omega)
    refine ⟨r, ?_, hc, (RepAt.shift a1 hrep).cast (by simp [valsToks])⟩
    rw [listLoop]
    simp only [bind_eq, pure_eq, P.bind, P.pure, hn, hty, hkey, hstart, if_true, h1, h3, Bool.false_eq_true, if_false]

/-- an unterminated list as a value: `[ v₁ … vₖ` followed by a token that cannot continue the list -/
theorem dieVal_open_list (o : Opts) (btx : Str) (vs : List Val) (hw : wfVals o vs = true) :
    DieVal o ((.olist, btx) :: valsToks vs) CIF_MISSING_DELIM (1 + (valsToks vs).length) (szVals vs + 2) termFollow := by
  intro rest s fuel w hf hfol hF
  obtain ⟨ty, tx, ts, rfl, hterm⟩ := hfol
  obtain ⟨f, rfl⟩ : ∃ f, fuel = f + 1 := ⟨fuel - 1, by omega⟩
  simp only [List.cons_append] at hF
  obtain ⟨t, s1, hty, _, hn, htk, hr⟩ := hF.inv
  obtain ⟨r, h1, hc, hrep⟩ := values_open_die o vs ty tx ts (consume s1) f w [] hw (by omega) hterm hr
  refine ⟨r, ?_, hc, RepAt.shift ((At.refl o s).step hn htk) hrep⟩
  rw [parseValue]
  simp only [bind_eq, pure_eq, P.bind, P.pure, hn, hty, h1]

/-- **an item whose list value is not closed**, abort-on-error handler: the item is not stored -/
theorem die_missing_delim_list (o : Opts) {path : Path} {put : Container → Cif} {code : Str} (hv : View o path put code)
    (isBlock : Bool) (n btx : Str) (vs : List Val) (fs : List Container) (ls : List Loop)
    (hname : wfName n = true) (hfresh : o.norm n ∉ normNames o ls) (hw : wfVals o vs = true) :
    DieSeg o path put code isBlock ((.name, n) :: (.olist, btx) :: valsToks vs) fs ls fs ls CIF_MISSING_DELIM
      (1 + (1 + (valsToks vs).length)) (szVals vs + 2 + 1) termFollow :=
  die_item_of_value o hv isBlock n .olist btx (valsToks vs) fs ls CIF_MISSING_DELIM _ _ termFollow hname hfresh rfl rfl
    (dieVal_open_list o btx vs hw)

/-- the entries of a table up to a token that ends the table without closing it, abort-on-error handler -/
theorem entries_open_die (o : Opts) : ∀ (es : List (Str × Presentation × Val)) (ty : TokType) (tx : Str) (ts : List TokSpec) (s : PS)
    (fuel : Nat) (w : W) (acc : List (Str × Str × V)), wfEntries o es = true → szEntries es + 1 ≤ fuel → isTerminator ty = true →
    Feeds o s (entriesToks es ++ (ty, tx) :: ts) →
    ∃ r, tableLoop o fuel s acc dieAll w = .abort (CIF_MISSING_DELIM : Int) { w with log := r :: w.log }
      ∧ r.code = CIF_MISSING_DELIM ∧ RepAt o s (entriesToks es).length r
  | [], ty, tx, ts, s, fuel, w, acc, _, hf, hterm, hF => by
    obtain ⟨f, rfl⟩ : ∃ f, fuel = f + 1 := ⟨fuel - 1, by omega⟩
    simp only [entriesToks, List.nil_append] at hF
    obtain ⟨t, s', hty, htx, hn, ht, hr⟩ := hF.inv
    have a0 : At o s (entriesToks []).length s' := ((At.refl o s).peek hn ht).cast (by simp [entriesToks])
    refine ⟨⟨CIF_MISSING_DELIM, s'.scan.line, s'.scan.col - t.text.length⟩, ?_, rfl, ⟨s', a0, rfl⟩⟩
    rw [tableLoop]
    cases ty <;> simp [isTerminator, isKeyTok, isValueStart] at hterm <;>
      simp only [bind_eq, pure_eq, P.bind, P.pure, hn, hty, report_die CIF_MISSING_DELIM _ _ w (by decide)]
  | (k, kp, v) :: es, ty, tx, ts, s, fuel, w, acc, hw, hf, hterm, hF => by
    obtain ⟨f, rfl⟩ : ∃ f, fuel = f + 1 := ⟨fuel - 1, by omega⟩
    simp only [wfEntries, Bool.and_eq_true, Bool.not_eq_true'] at hw
    simp only [szEntries] at hf
    have hp := szVal_pos v
    obtain ⟨g, rfl⟩ : ∃ g, f = g + 1 := ⟨f - 1, by omega⟩
    simp only [entriesToks, List.cons_append, List.append_assoc] at hF
    obtain ⟨t, s', hty, htx, hn, htk, hr⟩ := hF.inv
    obtain ⟨vty, vtx, vts, hvt, hstart, _⟩ := valToks_head v
    have hr' := hr
    rw [hvt, List.cons_append] at hr'
    obtain ⟨t2, s2, hty2, htx2, hn2, ht2, hr2⟩ := hr'.inv
    have hpend : Feeds o s2 (valToks v ++ (entriesToks es ++ (ty, tx) :: ts)) := by
      rw [hvt, List.cons_append, ← hty2, ← htx2]; exact Feeds.pending ht2 hr2
    obtain ⟨s3, h1, h2, ha1⟩ := value_structure_at o v _ s2 g dieAll w hw.1.2 (by omega) hpend
    obtain ⟨r, h3, hc, hrep⟩ := entries_open_die o es ty tx ts s3 g w (putEntry o.normKey acc k (denoteVal o.dia o.normKey v)) hw.2
      (by omega) hterm h2
    have a1 : At o s (1 + (valToks v).length) s3 := (((At.refl o s).step hn htk).peek hn2 ht2).trans ha1
    refine ⟨r, ?_, hc, (RepAt.shift a1 hrep).cast (by simp [entriesToks]; omega)⟩
    rw [tableLoop]
    simp only [bind_eq, pure_eq, P.bind, P.pure, hn, hty, htx, cstr_noNul hw.1.1.1]
    rw [tableEntry]
    simp only [bind_eq, pure_eq, P.bind, P.pure, hw.1.1.2, Bool.false_eq_true, if_false, hn2, hty2, hstart, if_true, h1,
      tableSet_eq_putEntry, h3]

/-- an unterminated table as a value -/
theorem dieVal_open_table (o : Opts) (btx : Str) (es : List (Str × Presentation × Val)) (hw : wfEntries o es = true) :
    DieVal o ((.otable, btx) :: entriesToks es) CIF_MISSING_DELIM (1 + (entriesToks es).length) (szEntries es + 2) termFollow := by
  intro rest s fuel w hf hfol hF
  obtain ⟨ty, tx, ts, rfl, hterm⟩ := hfol
  obtain ⟨f, rfl⟩ : ∃ f, fuel = f + 1 := ⟨fuel - 1, by omega⟩
  simp only [List.cons_append] at hF
  obtain ⟨t, s1, hty, _, hn, htk, hr⟩ := hF.inv
  obtain ⟨r, h1, hc, hrep⟩ := entries_open_die o es ty tx ts (consume s1) f w [] hw (by omega) hterm hr
  refine ⟨r, ?_, hc, RepAt.shift ((At.refl o s).step hn htk) hrep⟩
  rw [parseValue]
  simp only [bind_eq, pure_eq, P.bind, P.pure, hn, hty, h1]

/-- **an item whose table value is not closed**, abort-on-error handler: the item is not stored -/
theorem die_missing_delim_table (o : Opts) {path : Path} {put : Container → Cif} {code : Str} (hv : View o path put code)
    (isBlock : Bool) (n btx : Str) (es : List (Str × Presentation × Val)) (fs : List Container) (ls : List Loop)
    (hname : wfName n = true) (hfresh : o.norm n ∉ normNames o ls) (hw : wfEntries o es = true) :
    DieSeg o path put code isBlock ((.name, n) :: (.otable, btx) :: entriesToks es) fs ls fs ls CIF_MISSING_DELIM
      (1 + (1 + (entriesToks es).length)) (szEntries es + 2 + 1) termFollow :=
  die_item_of_value o hv isBlock n .otable btx (entriesToks es) fs ls CIF_MISSING_DELIM _ _ termFollow hname hfresh rfl rfl
    (dieVal_open_table o btx es hw)

/-! ### the defect at any depth of nesting -/

/-- one level of the nesting context in front of the defect: the elements in front of the frame that is open, and its code -/
structure DLevel where
  pre : List Elem
  fc : Str

def dieToks : List DLevel → List TokSpec → List TokSpec
  | [], T => T
  | L :: r, T => elemsToks L.pre ++ ((.frameHead, L.fc) :: dieToks r T)

def dieInner : List DLevel → Str
  | [] => []
  | [L] => L.fc
  | _ :: L2 :: r => dieInner (L2 :: r)

/-- what the outermost container holds when the parse is aborted: at every level the elements in front and the open frame -/
def dieRes (o : Opts) : List DLevel → List Container × List Loop → List Container × List Loop → List Container × List Loop
  | [], _, inner => inner
  | L :: r, start, inner =>
    ((denoteElems o.dia o.normKey L.pre start.1 start.2).1 ++ [.mk L.fc (dieRes o r ([], []) inner).1 (dieRes o r ([], []) inner).2],
     (denoteElems o.dia o.normKey L.pre start.1 start.2).2)

def DieOk (o : Opts) : List DLevel → List Container × List Loop → Prop
  | [], _ => True
  | L :: r, start =>
    wfElems o L.pre (normNames o start.2) (start.1.map fun c => o.norm c.code) = true
    ∧ wfCode L.fc = true
    ∧ (∀ c ∈ (denoteElems o.dia o.normKey L.pre start.1 start.2).1, codeIs o.norm (o.norm L.fc) c = false)
    ∧ DieOk o r ([], [])

def dieJ : List DLevel → Nat → Nat
  | [], j => j
  | L :: r, j => (elemsToks L.pre).length + (1 + dieJ r j)

def dieNeed : List DLevel → Nat → Nat
  | [], need => need
  | L :: r, need => szElems L.pre + L.pre.length + (dieNeed r need + 2)

/-- **the abort at any depth**: the element loop of the innermost open frame aborts ⇒ so does that of the outermost container; every
    frame of the context exists, with what had been stored in it -/
theorem DieSeg.nest (o : Opts) (hmfd : o.maxFrameDepth ≠ 0) (T : List TokSpec) (fsb : List Container) (lsb : List Loop)
    (C : Code) (j need : Nat) (follow : List TokSpec → Prop) :
    ∀ (ctx : List DLevel), ctx ≠ [] → ∀ {path : Path} {put : Container → Cif} {code : Str} (_hv : View o path put code) (isBlock : Bool)
      (fs : List Container) (ls : List Loop),
      (isBlock = true ∨ o.maxFrameDepth ≠ 1) → (ctx.length ≤ 1 ∨ o.maxFrameDepth ≠ 1) → DieOk o ctx (fs, ls) →
      (∀ {path' : Path} {put' : Container → Cif}, View o path' put' (dieInner ctx) →
        DieSeg o path' put' (dieInner ctx) false T [] [] fsb lsb C j need follow) →
      DieSeg o path put code isBlock (dieToks ctx T) fs ls (dieRes o ctx (fs, ls) (fsb, lsb)).1 (dieRes o ctx (fs, ls) (fsb, lsb)).2
        C (dieJ ctx j) (dieNeed ctx need) follow
  | [], h, _, _, _, _, _, _, _, _, _, _, _ => absurd rfl h
  | [L], _, path, put, code, hv, isBlock, fs, ls, hlvl, _, hok, hbody => by
    obtain ⟨h1, h2, h3, _⟩ := hok
    have hl3 : isBlock = true ∨ noFrames L.pre = true ∨ o.maxFrameDepth ≠ 1 := by
      rcases hlvl with h | h
      · exact Or.inl h
      · exact Or.inr (Or.inr h)
    exact DieSeg.after_elems o hmfd hv isBlock L.pre _ _ fs ls hl3 h1 (fun _ h => h) (fun c hc => List.mem_map.mpr ⟨c, hc, rfl⟩)
      (fun rest _ => ⟨_, _, _, rfl, rfl⟩)
      (DieSeg.frame o hmfd hv isBlock L.fc _ _ T fsb lsb C j need follow hlvl h2 h3
        (hbody (hv.child (denoteElems o.dia o.normKey L.pre fs ls).1 (denoteElems o.dia o.normKey L.pre fs ls).2 L.fc h3)))
  | L :: L2 :: r, _, path, put, code, hv, isBlock, fs, ls, hlvl, hdeep, hok, hbody => by
    obtain ⟨h1, h2, h3, hrest⟩ := hok
    have hd : o.maxFrameDepth ≠ 1 := by
      rcases hdeep with h | h
      · simp at h
      · exact h
    have hl3 : isBlock = true ∨ noFrames L.pre = true ∨ o.maxFrameDepth ≠ 1 := Or.inr (Or.inr hd)
    have ih := DieSeg.nest o hmfd T fsb lsb C j need follow (L2 :: r) (by simp)
      (hv.child (denoteElems o.dia o.normKey L.pre fs ls).1 (denoteElems o.dia o.normKey L.pre fs ls).2 L.fc h3) false [] []
      (Or.inr hd) (Or.inr hd) hrest (fun hv' => hbody hv')
    exact DieSeg.after_elems o hmfd hv isBlock L.pre _ _ fs ls hl3 h1 (fun _ h => h) (fun c hc => List.mem_map.mpr ⟨c, hc, rfl⟩)
      (fun rest _ => ⟨_, _, _, rfl, rfl⟩)
      (DieSeg.frame o hmfd hv isBlock L.fc _ _ (dieToks (L2 :: r) T) _ _ C _ _ follow hlvl h2 h3 ih)

end CifModel.Model.Parser


namespace CifModel.Lemmas.DefectChars
open CifModel CifModel.Model CifModel.Model.Lexer CifModel.Model.Parser CifModel.Spec.Lexical CifModel.Spec.Grammar
open CifModel.Lemmas.LexGlue

/-- the whole parse when the block loop is left through an abort with a positive value -/
theorem parse_of_blocks_abort (o : Opts) (pol : Policy) (c : CU) (rest : Str) (rv : Int) (W' : W) (hutf : o.notUtf8 = false)
    (hfirst : disallowedInitial c = false) (hbom : (c == 0xFEFF) = false) (hrv : rv > 0)
    (h : blocksLoop o (fuelFor (c :: rest)) { scan := Scan.init (c :: rest), tok := none } pol { log := [], cif := [] } = .abort rv W') :
    parse o pol [] (c :: rest) = { rc := rv, log := W'.log.reverse, cif := W'.cif } := by
  unfold parse run parseInternal afterFirst parseCif
  simp only [hfirst, hbom, hutf, Bool.false_eq_true, if_false, false_and, Parser.bind_eq, Parser.pure_eq, P.bind, P.pure]
  cases hd : o.dia <;> simp [P.bind, P.pure, clamp, h, hrv]

/-- the data block of the defect, any well-formed blocks in front, under the abort-on-error handler (token level) -/
theorem block_die_run (o : Opts) (hstore : o.store = true) (hmfd : o.maxFrameDepth ≠ 0) (pre : List Block) (bc : Str)
    (T rest : List TokSpec) (fs' : List Container) (ls' : List Loop) (C : Code) (j need : Nat) (follow : List TokSpec → Prop) (s : PS)
    (total : Nat) (w : W) (hw : w.cif = [])
    (hpre : wfBlocks o pre [] = true) (hcode : wfCode bc = true)
    (hnew : ∀ c ∈ denote o.dia o.normKey pre, codeIs o.norm (o.norm bc) c = false)
    (hseg : DieSeg o [o.norm bc] (fun x => denote o.dia o.normKey pre ++ [x]) bc true T [] [] fs' ls' C j need follow)
    (hfol : follow rest) (hfuel : szBlocks pre + pre.length + need + 3 ≤ total)
    (hF : Feeds o s (blocksToks pre ++ ((.blockHead, bc) :: (T ++ rest)))) :
    ∃ r, blocksLoop o total s dieAll w
        = .abort (C : Int) { log := r :: w.log, cif := denote o.dia o.normKey pre ++ [.mk bc fs' ls'] }
      ∧ r.code = C ∧ RepAt o s ((blocksToks pre).length + 1 + j) r := by
  simp only [wfCode, Bool.and_eq_true] at hcode
  obtain ⟨F, rfl⟩ : ∃ F, total = ((F + 1) + 1) + pre.length := ⟨total - pre.length - 2, by omega⟩
  obtain ⟨s1, h1, h2, hat⟩ := blocks_prefix_at o hstore hmfd pre [] _ s ((F + 1) + 1) dieAll w hpre
    (by rw [hw]; intro c hc; cases hc) (by omega) ⟨.blockHead, bc, _, rfl, Or.inl rfl⟩ hF
  obtain ⟨t, s1', hty, htx, hn, htk, hr⟩ := h2.inv
  have hnew' : ∀ c ∈ ({ w with cif := w.cif ++ denote o.dia o.normKey pre } : W).cif, codeIs o.norm (o.norm bc) c = false := by
    intro c hc; simp only [hw, List.nil_append] at hc; exact hnew c hc
  obtain ⟨r, h3, hrc, hrep⟩ := hseg rest (consume s1') F
    { w with cif := (w.cif ++ denote o.dia o.normKey pre) ++ [.mk bc [] []] } (by simp [hw]) (by omega) hfol hr
  refine ⟨r, ?_, hrc, (RepAt.shift (hat.step hn htk) hrep).cast (by omega)⟩
  rw [h1]
  conv => lhs; rw [blocksLoop]
  simp only [Parser.bind_eq, Parser.pure_eq, P.bind, P.pure, hn, hty, htx, hstore, if_true, cstr_noNul hcode.2,
    createIn_block o bc _ _ dieAll _ hcode.1 hnew']
  conv => lhs; rw [parseContainer]
  simp only [Parser.bind_eq, Parser.pure_eq, P.bind, P.pure, h3]

/-- **the data block of the defect in a whole text, abort-on-error handler**: the text is ANY accepted chunk list whose tokens are
    well-formed blocks `preB`, the header `data_bc`, tokens `T` for which the element loop aborts as `hseg` says, then anything the
    acceptor admits (`rest`: the parse never gets there).  The parse returns the code `C`, exactly one report has been made — code
    `C`, on the line of its token position — and the CIF holds the blocks in front and the block `bc` as far as it had been filled. -/
theorem block_die_chars (o : Opts) (hstore : o.store = true) (hmfd : o.maxFrameDepth ≠ 0) (hutf : o.notUtf8 = false)
    (cs : List Chunk) (c : CU) (rst : Str) (preB : List Block) (bc : Str) (T rest : List TokSpec)
    (fs' : List Container) (ls' : List Loop) (C : Code) (j need : Nat) (follow : List TokSpec → Prop)
    (hok : okC o.dia .end_ [] cs) (hfit : linesFit 0 (renderChunks cs) = true)
    (hc : renderChunks cs = c :: rst) (hfirst : disallowedInitial c = false) (hbom : (c == 0xFEFF) = false)
    (ht : toks cs = blocksToks preB ++ ((.blockHead, bc) :: (T ++ rest)))
    (hpreB : wfBlocks o preB [] = true) (hcode : wfCode bc = true) (hnew : ∀ b ∈ preB, o.norm b.code ≠ o.norm bc)
    (hC : C ≠ 0) (hneed : need ≤ 2 * T.length + 8) (hj : j ≤ T.length) (hfol : follow (rest ++ [(.end_, [])]))
    (hseg : View o [o.norm bc] (fun x => denote o.dia o.normKey preB ++ [x]) bc →
      DieSeg o [o.norm bc] (fun x => denote o.dia o.normKey preB ++ [x]) bc true T [] [] fs' ls' C j need follow) :
    ∃ r, parse o dieAll [] (renderChunks cs)
        = { rc := (C : Int), log := [r], cif := denote o.dia o.normKey preB ++ [.mk bc fs' ls'] }
      ∧ r.code = C
      ∧ (r.line = endLine cs ((blocksToks preB).length + 1 + j) ∨ r.line = endLine cs ((blocksToks preB).length + 1 + j + 1)) := by
  have hfeeds := feeds_chunks o cs [] 1 0 .end_ hok (by simpa [renderWs] using hfit)
  have h1 := toks_weight o.dia cs .end_ [] hok
  have h2 := WriterChunks.szBlocks_toks preB
  have h4 := heads_blocks preB
  simp only [renderWs, List.map_nil, List.flatten_nil, List.nil_append] at hfeeds
  rw [ht] at hfeeds h1
  simp only [List.length_append, List.length_cons, heads_append, heads, hd, if_true] at h1
  have hS : ({ scan := Scan.init (renderChunks cs), tok := none } : PS) = { scan := Scan.init (c :: rst), tok := none } := by rw [hc]
  rw [hc] at hfeeds h1
  have hnewc : ∀ x ∈ denote o.dia o.normKey preB, codeIs o.norm (o.norm bc) x = false := by
    intro x hx
    obtain ⟨b, hb, hcb⟩ := denote_code hx
    simp only [codeIs, hcb, beq_eq_false_iff_ne, ne_eq]
    exact hnew b hb
  obtain ⟨r, h, hr, hrep⟩ := block_die_run o hstore hmfd preB bc T (rest ++ [(.end_, [])]) fs' ls' C j need follow _ (fuelFor (c :: rst))
    { log := [], cif := [] } rfl hpreB hcode hnewc (hseg (View.block o (denote o.dia o.normKey preB) bc hnewc)) hfol
    (by simp only [fuelFor]; omega) (by simpa [List.append_assoc] using hfeeds)
  have hrep' : RepAt o { scan := Scan.init (renderChunks cs), tok := none } ((blocksToks preB).length + 1 + j) r := by
    rw [hS]; exact hrep
  refine ⟨r, ?_, hr, repAt_line o cs hok hfit (by rw [ht]; simp only [List.length_append, List.length_cons]; omega) hrep'⟩
  rw [hc, parse_of_blocks_abort o dieAll c rst (C : Int) _ hutf hfirst hbom (by exact_mod_cast Nat.pos_of_ne_zero hC) h]
  simp

end CifModel.Lemmas.DefectChars
