import CifModel.Model.Names
import CifModel.Spec.Names
import CifModel.Gen.NamesConsts
/-
  Link theorems of property C09: the constants and the character test that the hand-written model `Model/Names.lean` (and the
  limits of `Spec/Names.lean`) use are the ones `tools/translate_names.py` re-extracts from src/cif.h and src/utils.c on every
  run.  A source edit that changes a limit, a range or a mask makes one of these stop checking (a broken proof obligation).
-/
namespace CifModel.Lemmas.NamesLink
open CifModel CifModel.Model CifModel.Gen

/-- `CIF_LINE_LENGTH` and the reserve subtracted for codes / item names -/
theorem limits_link : Model.lineLength = NamesConsts.lineLength ∧
    (∀ forItem : Bool, (if forItem then 0 else 5) = (if forItem then NamesConsts.itemReserve else NamesConsts.codeReserve)) := by
  refine ⟨rfl, fun b => by cases b <;> rfl⟩

/-- the limits of the specification (2048 characters for a data name, 2043 for a code: `data_` / `save_` + code fits a line) are
    those the code enforces -/
theorem spec_limits_link : (2048 : Nat) = NamesConsts.lineLength - NamesConsts.itemReserve ∧
    (2043 : Nat) = NamesConsts.lineLength - NamesConsts.codeReserve := ⟨rfl, rfl⟩

/-- first character of a data name, whitespace bound, surrogate ranges, non-character masks -/
theorem consts_link : NamesConsts.underscore = 95 ∧ NamesConsts.wsMax = 0x20 ∧ NamesConsts.minHighSurrogate = 0xd800 ∧
    NamesConsts.minLowSurrogate = 0xdc00 ∧ NamesConsts.maxLowSurrogate = 0xdfff ∧ NamesConsts.lowMask = 0x3fe ∧
    NamesConsts.highMask = 0x3f := ⟨rfl, rfl, rfl, rfl, rfl, rfl, rfl⟩

/-- kernel evaluation over all 65 536 units, in four blocks of 16 384 (each about 20 s) -/
def agreeOn (lo n : Nat) : Bool := (List.range n).all (fun k => NamesConsts.bmpDisallowedC (lo + k) == Model.bmpDisallowed (lo + k))
theorem bmpDisallowed_tab0 : agreeOn 0 0x4000 = true := by decide +kernel
theorem bmpDisallowed_tab1 : agreeOn 0x4000 0x4000 = true := by decide +kernel
theorem bmpDisallowed_tab2 : agreeOn 0x8000 0x4000 = true := by decide +kernel
theorem bmpDisallowed_tab3 : agreeOn 0xc000 0x4000 = true := by decide +kernel

theorem agreeOn_elim (lo n c : Nat) (h : agreeOn lo n = true) (h1 : lo ≤ c) (h2 : c < lo + n) :
    NamesConsts.bmpDisallowedC c = Model.bmpDisallowed c := by
  have := List.all_eq_true.mp h (c - lo) (List.mem_range.mpr (by omega))
  have e : lo + (c - lo) = c := by omega
  rw [e] at this
  simpa using this

/-- the BMP branch of `cif_has_disallowed_chars` as translated from the C equals the model's, on every 16-bit unit -/
theorem bmpDisallowed_link (c : Nat) (h : c < 0x10000) : NamesConsts.bmpDisallowedC c = Model.bmpDisallowed c := by
  by_cases h0 : c < 0x4000
  · exact agreeOn_elim 0 0x4000 c bmpDisallowed_tab0 (by omega) (by omega)
  · by_cases h1 : c < 0x8000
    · exact agreeOn_elim 0x4000 0x4000 c bmpDisallowed_tab1 (by omega) (by omega)
    · by_cases h2 : c < 0xc000
      · exact agreeOn_elim 0x8000 0x4000 c bmpDisallowed_tab2 (by omega) (by omega)
      · exact agreeOn_elim 0xc000 0x4000 c bmpDisallowed_tab3 (by omega) (by omega)

end CifModel.Lemmas.NamesLink
