import CifModel.Model.NumbLimbs
/-
  Limb level of C10, part 1: the shift passes over the base-10⁹ work array are exact division / multiplication by a
  power of two of the number the array denotes, and keep the array well formed.
-/
namespace CifModel.Lemmas.NumbLimbPass
open CifModel.Model.Numb CifModel.Model.NumbLimbs

abbrev Bb : Nat := BBASE

theorem Bb_pos : 0 < Bb := by decide

/-! ### the number a limb list denotes -/

theorem foldl_limbs (l : List Nat) (acc : Nat) :
    l.foldl (fun a x => a * BBASE + x) acc = acc * Bb ^ l.length + l.foldl (fun a x => a * BBASE + x) 0 := by
  induction l generalizing acc with
  | nil => simp
  | cons d r ih =>
    simp only [List.foldl_cons, List.length_cons]
    rw [ih (acc * BBASE + d), ih (0 * BBASE + d), Nat.pow_succ]
    show _ = acc * (Bb ^ r.length * Bb) + _
    have : (acc * BBASE + d) * Bb ^ r.length = acc * (Bb ^ r.length * Bb) + d * Bb ^ r.length := by
      show (acc * Bb + d) * Bb ^ r.length = _
      grind
    have h0 : (0 * BBASE + d) * Bb ^ r.length = d * Bb ^ r.length := by simp
    omega

theorem nat_cons (x : Nat) (l : List Nat) : natOfLimbs (x :: l) = x * Bb ^ l.length + natOfLimbs l := by
  unfold natOfLimbs
  simp only [List.foldl_cons]
  rw [foldl_limbs l (0 * BBASE + x)]
  simp

theorem nat_append (a b : List Nat) : natOfLimbs (a ++ b) = natOfLimbs a * Bb ^ b.length + natOfLimbs b := by
  unfold natOfLimbs
  rw [List.foldl_append, foldl_limbs b]

theorem nat_nil : natOfLimbs [] = 0 := rfl

theorem nat_zeros (k : Nat) : natOfLimbs (List.replicate k 0) = 0 := by
  induction k with
  | zero => rfl
  | succ n ih => rw [List.replicate_succ, nat_cons, ih]; simp

/-- all limbs are proper base-10⁹ digits -/
def Small (l : List Nat) : Prop := ∀ x ∈ l, x < Bb

theorem nat_lt (l : List Nat) (h : Small l) : natOfLimbs l < Bb ^ l.length := by
  induction l with
  | nil => simp [natOfLimbs]
  | cons x r ih =>
    rw [nat_cons]
    have hx : x < Bb := h x (by simp)
    have hr := ih (fun y hy => h y (by simp [hy]))
    simp only [List.length_cons, Nat.pow_succ]
    have : (x + 1) * Bb ^ r.length ≤ Bb * Bb ^ r.length := Nat.mul_le_mul_right _ hx
    have e : (x + 1) * Bb ^ r.length = x * Bb ^ r.length + Bb ^ r.length := by grind
    have e2 : Bb ^ r.length * Bb = Bb * Bb ^ r.length := Nat.mul_comm _ _
    omega

theorem all_zero_nat (l : List Nat) (h : ∀ x ∈ l, x = 0) : natOfLimbs l = 0 := by
  induction l with
  | nil => rfl
  | cons x r ih => rw [nat_cons, h x (by simp), ih (fun y hy => h y (by simp [hy]))]; simp

/-! ### division pass -/

theorem shrList_length (s : Nat) : ∀ (xs : List Nat) (r : Nat), (shrList s r xs).1.length = xs.length := by
  intro xs
  induction xs with
  | nil => intro r; rfl
  | cons x t ih => intro r; simp [shrList, ih]

theorem shrList_spec (s : Nat) : ∀ (xs : List Nat) (r : Nat),
    r * Bb ^ xs.length + natOfLimbs xs = pow2 s * natOfLimbs (shrList s r xs).1 + (shrList s r xs).2 := by
  intro xs
  induction xs with
  | nil => intro r; simp [shrList, natOfLimbs]
  | cons x t ih =>
    intro r
    have hdm : pow2 s * ((r * BBASE + x) / pow2 s) + (r * BBASE + x) % pow2 s = r * BBASE + x := Nat.div_add_mod _ _
    have := ih ((r * BBASE + x) % pow2 s)
    simp only [shrList]
    rw [nat_cons, nat_cons, shrList_length]
    simp only [List.length_cons, Nat.pow_succ]
    generalize (shrList s ((r * BBASE + x) % pow2 s) t).1 = out at *
    generalize (shrList s ((r * BBASE + x) % pow2 s) t).2 = rf at *
    generalize (r * BBASE + x) / pow2 s = q at *
    generalize (r * BBASE + x) % pow2 s = r' at *
    generalize Bb ^ t.length = W at *
    have e1 : r * (W * Bb) + (x * W + natOfLimbs t) = (r * BBASE + x) * W + natOfLimbs t := by
      show r * (W * Bb) + (x * W + natOfLimbs t) = (r * Bb + x) * W + natOfLimbs t
      grind
    rw [e1, ← hdm]
    have e2 : (pow2 s * q + r') * W + natOfLimbs t = pow2 s * (q * W) + (r' * W + natOfLimbs t) := by grind
    rw [e2, this]
    grind

theorem shrList_small (s : Nat) : ∀ (xs : List Nat) (r : Nat), r < pow2 s → Small xs →
    Small (shrList s r xs).1 ∧ (shrList s r xs).2 < pow2 s := by
  intro xs
  induction xs with
  | nil => intro r hr _; exact ⟨by intro x hx; simp [shrList] at hx, hr⟩
  | cons x t ih =>
    intro r hr hs
    have hD : 0 < pow2 s := Nat.two_pow_pos s
    have hx : x < Bb := hs x (by simp)
    have hr' : (r * BBASE + x) % pow2 s < pow2 s := Nat.mod_lt _ hD
    obtain ⟨i1, i2⟩ := ih _ hr' (fun y hy => hs y (by simp [hy]))
    simp only [shrList]
    refine ⟨?_, i2⟩
    intro y hy
    rw [List.mem_cons] at hy
    rcases hy with h | h
    · rw [h]
      apply (Nat.div_lt_iff_lt_mul hD).mpr
      have : (r + 1) * Bb ≤ pow2 s * Bb := Nat.mul_le_mul_right _ hr
      have e : (r + 1) * Bb = r * Bb + Bb := by grind
      have e2 : Bb * pow2 s = pow2 s * Bb := Nat.mul_comm _ _
      show r * Bb + x < Bb * pow2 s
      omega
    · exact i1 y h

theorem shrTail_spec (s : Nat) : ∀ (xs : List Nat) (r : Nat) (pt un : List Nat), shrTail s r xs = some (pt, un) →
    r < pow2 s → Small xs →
    ∃ consumed, xs = consumed ++ un ∧ consumed.length = pt.length ∧ Small pt ∧
      r * Bb ^ pt.length + natOfLimbs consumed = pow2 s * natOfLimbs pt := by
  intro xs
  induction xs with
  | nil =>
    intro r pt un h hr _
    simp only [shrTail] at h
    split at h
    · rename_i h0
      simp only [Option.some.injEq, Prod.mk.injEq] at h
      refine ⟨[], by rw [← h.2]; rfl, by rw [← h.1], by rw [← h.1]; intro x hx; simp at hx, ?_⟩
      rw [← h.1, h0]; simp [natOfLimbs]
    · cases h
  | cons x t ih =>
    intro r pt un h hr hs
    simp only [shrTail] at h
    by_cases h0 : r = 0
    · rw [if_pos h0] at h
      simp only [Option.some.injEq, Prod.mk.injEq] at h
      refine ⟨[], by rw [← h.2]; rfl, by rw [← h.1], by rw [← h.1]; intro y hy; simp at hy, ?_⟩
      rw [← h.1, h0]; simp [natOfLimbs]
    · rw [if_neg h0] at h
      cases hrec : shrTail s ((r * BBASE + x) % pow2 s) t with
      | none => rw [hrec] at h; simp at h
      | some p =>
        rw [hrec] at h
        simp only [Option.map, Option.some.injEq, Prod.mk.injEq] at h
        have hD : 0 < pow2 s := Nat.two_pow_pos s
        obtain ⟨c, hc1, hc2, hc3, hc4⟩ := ih _ p.1 p.2 (by rw [hrec]) (Nat.mod_lt _ hD) (fun y hy => hs y (by simp [hy]))
        have hx : x < Bb := hs x (by simp)
        have hdm : pow2 s * ((r * BBASE + x) / pow2 s) + (r * BBASE + x) % pow2 s = r * BBASE + x := Nat.div_add_mod _ _
        refine ⟨x :: c, ?_, ?_, ?_, ?_⟩
        · rw [← h.2, List.cons_append, ← hc1]
        · rw [← h.1]; simp [hc2]
        · rw [← h.1]
          intro y hy
          rw [List.mem_cons] at hy
          rcases hy with hy | hy
          · rw [hy]
            apply (Nat.div_lt_iff_lt_mul hD).mpr
            have : (r + 1) * Bb ≤ pow2 s * Bb := Nat.mul_le_mul_right _ hr
            have e : (r + 1) * Bb = r * Bb + Bb := by grind
            have e2 : Bb * pow2 s = pow2 s * Bb := Nat.mul_comm _ _
            show r * Bb + x < Bb * pow2 s
            omega
          · exact hc3 y hy
        · rw [← h.1]
          rw [nat_cons, nat_cons, hc2]
          simp only [List.length_cons, Nat.pow_succ]
          generalize (r * BBASE + x) / pow2 s = q at *
          generalize (r * BBASE + x) % pow2 s = r' at *
          generalize Bb ^ p.1.length = W at *
          have e1 : r * (W * Bb) + (x * W + natOfLimbs c) = (r * BBASE + x) * W + natOfLimbs c := by
            show r * (W * Bb) + (x * W + natOfLimbs c) = (r * Bb + x) * W + natOfLimbs c
            grind
          rw [e1, ← hdm]
          have e2 : (pow2 s * q + r') * W + natOfLimbs c = pow2 s * (q * W) + (r' * W + natOfLimbs c) := by grind
          rw [e2, hc4]
          grind


/-! ### multiplication pass (limbs least significant first) -/

theorem nat_snoc (l : List Nat) (x : Nat) : natOfLimbs (l ++ [x]) = natOfLimbs l * Bb + x := by
  rw [nat_append, nat_cons]; simp [natOfLimbs]

theorem shlList_length (s : Nat) : ∀ (xs : List Nat) (c : Nat), (shlList s c xs).1.length = xs.length := by
  intro xs
  induction xs with
  | nil => intro c; rfl
  | cons x t ih => intro c; simp [shlList, ih]

theorem shlList_spec (s : Nat) : ∀ (xs : List Nat) (c : Nat),
    natOfLimbs xs.reverse * pow2 s + c = natOfLimbs (shlList s c xs).1.reverse + (shlList s c xs).2 * Bb ^ xs.length := by
  intro xs
  induction xs with
  | nil => intro c; simp [shlList, natOfLimbs]
  | cons x t ih =>
    intro c
    have hdm : BBASE * ((x * pow2 s + c) / BBASE) + (x * pow2 s + c) % BBASE = x * pow2 s + c := Nat.div_add_mod _ _
    have := ih ((x * pow2 s + c) / BBASE)
    simp only [shlList, List.reverse_cons]
    rw [nat_snoc, nat_snoc]
    simp only [List.length_cons, Nat.pow_succ]
    generalize (shlList s ((x * pow2 s + c) / BBASE) t).1 = out at *
    generalize (shlList s ((x * pow2 s + c) / BBASE) t).2 = cf at *
    generalize (x * pow2 s + c) / BBASE = q at *
    generalize (x * pow2 s + c) % BBASE = m at *
    generalize Bb ^ t.length = W at *
    generalize natOfLimbs t.reverse = T at *
    generalize natOfLimbs out.reverse = O at *
    have e1 : (T * Bb + x) * pow2 s + c = Bb * (T * pow2 s) + (x * pow2 s + c) := by grind
    rw [e1, ← hdm]
    have e2 : Bb * (T * pow2 s) + (BBASE * q + m) = Bb * (T * pow2 s + q) + m := by
      show Bb * (T * pow2 s) + (Bb * q + m) = _
      grind
    rw [e2, this]
    grind

theorem shlList_small (s : Nat) : ∀ (xs : List Nat) (c : Nat), Small (shlList s c xs).1 := by
  intro xs
  induction xs with
  | nil => intro c x hx; simp [shlList] at hx
  | cons x t ih =>
    intro c y hy
    simp only [shlList, List.mem_cons] at hy
    rcases hy with h | h
    · rw [h]; exact Nat.mod_lt _ Bb_pos
    · exact ih _ y h

theorem shlTail_spec (s : Nat) : ∀ (xs : List Nat) (c : Nat) (pt un : List Nat), shlTail s c xs = some (pt, un) →
    ∃ consumed, xs = consumed ++ un ∧ consumed.length = pt.length ∧ Small pt ∧
      natOfLimbs consumed.reverse * pow2 s + c = natOfLimbs pt.reverse := by
  intro xs
  induction xs with
  | nil =>
    intro c pt un h
    simp only [shlTail] at h
    split at h
    · rename_i h0
      simp only [Option.some.injEq, Prod.mk.injEq] at h
      refine ⟨[], by rw [← h.2]; rfl, by rw [← h.1], by rw [← h.1]; intro x hx; simp at hx, ?_⟩
      rw [← h.1, h0]; simp [natOfLimbs]
    · cases h
  | cons x t ih =>
    intro c pt un h
    simp only [shlTail] at h
    by_cases h0 : c = 0
    · rw [if_pos h0] at h
      simp only [Option.some.injEq, Prod.mk.injEq] at h
      refine ⟨[], by rw [← h.2]; rfl, by rw [← h.1], by rw [← h.1]; intro y hy; simp at hy, ?_⟩
      rw [← h.1, h0]; simp [natOfLimbs]
    · rw [if_neg h0] at h
      cases hrec : shlTail s ((x * pow2 s + c) / BBASE) t with
      | none => rw [hrec] at h; simp at h
      | some p =>
        rw [hrec] at h
        simp only [Option.map, Option.some.injEq, Prod.mk.injEq] at h
        obtain ⟨cs, hc1, hc2, hc3, hc4⟩ := ih _ p.1 p.2 (by rw [hrec])
        have hdm : BBASE * ((x * pow2 s + c) / BBASE) + (x * pow2 s + c) % BBASE = x * pow2 s + c := Nat.div_add_mod _ _
        refine ⟨x :: cs, ?_, ?_, ?_, ?_⟩
        · rw [← h.2, List.cons_append, ← hc1]
        · rw [← h.1]; simp [hc2]
        · rw [← h.1]
          intro y hy
          rw [List.mem_cons] at hy
          rcases hy with hy | hy
          · rw [hy]; exact Nat.mod_lt _ Bb_pos
          · exact hc3 y hy
        · rw [← h.1]
          simp only [List.reverse_cons]
          rw [nat_snoc, nat_snoc, ← hc4]
          generalize (x * pow2 s + c) / BBASE = q at *
          generalize (x * pow2 s + c) % BBASE = m at *
          generalize natOfLimbs cs.reverse = T at *
          have e1 : (T * Bb + x) * pow2 s + c = Bb * (T * pow2 s) + (x * pow2 s + c) := by grind
          rw [e1, ← hdm]
          show Bb * (T * pow2 s) + (Bb * q + m) = (T * pow2 s + q) * Bb + m
          grind


/-! ### the work array: well-formedness and the passes -/

/-- limbs are base-10⁹ digits, and everything outside `msd .. lsd` is zero -/
structure WF (A : Arr) : Prop where
  small : Small A.digits
  zlo : ∀ j, j < A.msd → A.digits.getD j 0 = 0
  zhi : ∀ j, A.lsd < j → A.digits.getD j 0 = 0

theorem take_zero_of_idx : ∀ (l : List Nat) (k : Nat), (∀ j, j < k → l.getD j 0 = 0) → ∀ x ∈ l.take k, x = 0 := by
  intro l
  induction l with
  | nil => intro k _ x hx; simp at hx
  | cons a t ih =>
    intro k h x hx
    cases k with
    | zero => simp at hx
    | succ n =>
      rw [List.take_succ_cons, List.mem_cons] at hx
      rcases hx with e | e
      · rw [e]; have := h 0 (by omega); simpa using this
      · exact ih n (fun j hj => by have := h (j + 1) (by omega); simpa using this) x e

theorem drop_zero_of_idx : ∀ (l : List Nat) (k : Nat), (∀ j, k ≤ j → l.getD j 0 = 0) → ∀ x ∈ l.drop k, x = 0 := by
  intro l
  induction l with
  | nil => intro k _ x hx; simp at hx
  | cons a t ih =>
    intro k h x hx
    cases k with
    | zero =>
      rw [List.drop_zero, List.mem_cons] at hx
      rcases hx with e | e
      · rw [e]; have := h 0 (by omega); simpa using this
      · have := ih 0 (fun j _ => by have := h (j + 1) (by omega); simpa using this) x (by simpa using e)
        exact this
    | succ n =>
      rw [List.drop_succ_cons] at hx
      exact ih n (fun j hj => by have := h (j + 1) (by omega); simpa using this) x hx

theorem getD_of_all_zero (l : List Nat) (h : ∀ x ∈ l, x = 0) (j : Nat) : l.getD j 0 = 0 := by
  rw [List.getD_eq_getElem?_getD]
  cases hj : l[j]? with
  | none => rfl
  | some v => simp only [Option.getD_some]; exact h v (List.mem_of_getElem? hj)

theorem getD_append_l (a b : List Nat) (j : Nat) (h : j < a.length) : (a ++ b).getD j 0 = a.getD j 0 := by
  rw [List.getD_eq_getElem?_getD, List.getD_eq_getElem?_getD, List.getElem?_append_left h]

theorem getD_append_r (a b : List Nat) (j : Nat) (h : a.length ≤ j) : (a ++ b).getD j 0 = b.getD (j - a.length) 0 := by
  rw [List.getD_eq_getElem?_getD, List.getD_eq_getElem?_getD, List.getElem?_append_right h]

theorem skipUp_spec : ∀ (fuel : Nat) (ds : List Nat) (i : Nat),
    i ≤ skipUp fuel ds i ∧ ∀ j, i ≤ j → j < skipUp fuel ds i → ds.getD j 0 = 0 := by
  intro fuel
  induction fuel with
  | zero => intro ds i; exact ⟨Nat.le_refl _, fun j h1 h2 => by simp [skipUp] at h2; omega⟩
  | succ f ih =>
    intro ds i
    rw [skipUp]
    by_cases hc : ds.getD i 0 = 0 ∧ i + 1 < ds.length
    · rw [if_pos hc]
      obtain ⟨a, b⟩ := ih ds (i + 1)
      refine ⟨by omega, fun j h1 h2 => ?_⟩
      rcases Nat.eq_or_lt_of_le h1 with e | e
      · rw [← e]; exact hc.1
      · exact b j (by omega) h2
    · rw [if_neg hc]; exact ⟨Nat.le_refl _, fun j h1 h2 => by omega⟩

theorem skipUp_le : ∀ (fuel : Nat) (ds : List Nat) (i j : Nat), i ≤ j → ds.getD j 0 ≠ 0 → skipUp fuel ds i ≤ j := by
  intro fuel
  induction fuel with
  | zero => intro ds i j h _; simpa [skipUp] using h
  | succ f ih =>
    intro ds i j h hj
    rw [skipUp]
    by_cases hc : ds.getD i 0 = 0 ∧ i + 1 < ds.length
    · rw [if_pos hc]
      apply ih ds (i + 1) j _ hj
      rcases Nat.eq_or_lt_of_le h with e | e
      · rw [e] at hc; exact absurd hc.1 hj
      · omega
    · rw [if_neg hc]; exact h

theorem skipDown_ge : ∀ (fuel : Nat) (ds : List Nat) (i j : Nat), j ≤ i → ds.getD j 0 ≠ 0 → j ≤ skipDown fuel ds i := by
  intro fuel
  induction fuel with
  | zero => intro ds i j h _; simpa [skipDown] using h
  | succ f ih =>
    intro ds i j h hj
    rw [skipDown]
    by_cases hc : ds.getD i 0 = 0 ∧ 0 < i
    · rw [if_pos hc]
      apply ih ds (i - 1) j _ hj
      rcases Nat.eq_or_lt_of_le h with e | e
      · rw [← e] at hc; exact absurd hc.1 hj
      · omega
    · rw [if_neg hc]; exact h

theorem exists_nonzero (l : List Nat) (h : natOfLimbs l ≠ 0) : ∃ j, l.getD j 0 ≠ 0 := by
  apply Classical.byContradiction
  intro hn
  apply h
  apply all_zero_nat
  intro x hx
  obtain ⟨j, hj, e⟩ := List.mem_iff_getElem.mp hx
  have : l.getD j 0 = 0 := Classical.byContradiction (fun hh => hn ⟨j, hh⟩)
  rw [List.getD_eq_getElem?_getD, List.getElem?_eq_getElem hj] at this
  simp only [Option.getD_some] at this
  rw [← e]; exact this

theorem skipDown_spec : ∀ (fuel : Nat) (ds : List Nat) (i : Nat),
    skipDown fuel ds i ≤ i ∧ ∀ j, skipDown fuel ds i < j → j ≤ i → ds.getD j 0 = 0 := by
  intro fuel
  induction fuel with
  | zero => intro ds i; exact ⟨Nat.le_refl _, fun j h1 h2 => by simp [skipDown] at h1; omega⟩
  | succ f ih =>
    intro ds i
    rw [skipDown]
    by_cases hc : ds.getD i 0 = 0 ∧ 0 < i
    · rw [if_pos hc]
      obtain ⟨a, b⟩ := ih ds (i - 1)
      refine ⟨by omega, fun j h1 h2 => ?_⟩
      rcases Nat.eq_or_lt_of_le h2 with e | e
      · rw [e]; exact hc.1
      · exact b j h1 (by omega)
    · rw [if_neg hc]; exact ⟨Nat.le_refl _, fun j h1 h2 => by omega⟩

/-- **a right-shift pass divides exactly**: the number denoted by the array is divided by `2^s`, nothing is lost -/
theorem shrPass_spec (extra s : Nat) (A A' : Arr) (h : shrPass extra s A = some A') (wf : WF A) (hord0 : A.msd ≤ A.lsd + 1) :
    natOfLimbs A'.digits * pow2 s = natOfLimbs A.digits ∧ A'.digits.length = A.digits.length ∧ WF A' ∧
      A'.lsd < A'.digits.length ∧ A.lsd ≤ A'.lsd := by
  unfold shrPass at h
  simp only at h
  generalize hn : A.lsd + 1 + extra - A.msd = n at h
  by_cases hlen : A.digits.length < A.msd + n
  · rw [if_pos hlen] at h; cases h
  · rw [if_neg hlen] at h
    -- the three parts of the array
    have hsplit : A.digits = A.digits.take A.msd ++ ((A.digits.drop A.msd).take n ++ (A.digits.drop A.msd).drop n) := by
      rw [List.take_append_drop, List.take_append_drop]
    have hwinlen : ((A.digits.drop A.msd).take n).length = n := by
      rw [List.length_take, List.length_drop]; omega
    have hprelen : (A.digits.take A.msd).length = A.msd := by
      rw [List.length_take]; omega
    have hpre0' : ∀ x ∈ A.digits.take A.msd, x = 0 := take_zero_of_idx _ _ wf.zlo
    have hpost0 : ∀ x ∈ (A.digits.drop A.msd).drop n, x = 0 := by
      rw [List.drop_drop]
      apply drop_zero_of_idx
      intro j hj
      exact wf.zhi j (by omega)
    have hsmw : Small ((A.digits.drop A.msd).take n) :=
      fun x hx => wf.small x (List.mem_of_mem_drop (List.mem_of_mem_take hx))
    have hsmpre : Small (A.digits.take A.msd) := fun x hx => wf.small x (List.mem_of_mem_take hx)
    have hsmpost : Small ((A.digits.drop A.msd).drop n) :=
      fun x hx => wf.small x (List.mem_of_mem_drop (List.mem_of_mem_drop hx))
    generalize A.digits.take A.msd = pre at *
    generalize (A.digits.drop A.msd).take n = win at *
    generalize (A.digits.drop A.msd).drop n = post at *
    have hpre0 : natOfLimbs pre = 0 := all_zero_nat _ hpre0'
    have hq := shrList_spec s win 0
    have hqs := shrList_small s win 0 (Nat.two_pow_pos s) hsmw
    have hql := shrList_length s win 0
    generalize shrList s 0 win = q at *
    cases hT : shrTail s q.2 post with
    | none => rw [hT] at h; cases h
    | some p =>
      rw [hT] at h
      simp only [Option.some.injEq] at h
      obtain ⟨cs, hc1, hc2, hc3, hc4⟩ := shrTail_spec s _ q.2 p.1 p.2 (by rw [hT]) hqs.2 hsmpost
      have hcs0 : natOfLimbs cs = 0 := all_zero_nat _ (fun x hx => hpost0 x (by rw [hc1]; exact List.mem_append_left _ hx))
      have hun0 : ∀ x ∈ p.2, x = 0 := fun x hx => hpost0 x (by rw [hc1]; exact List.mem_append_right _ hx)
      have hun0' : natOfLimbs p.2 = 0 := all_zero_nat _ hun0
      have hdslen : (pre ++ q.1 ++ p.1 ++ p.2).length = A.digits.length := by
        rw [hsplit, hc1]
        simp only [List.length_append, hql, hwinlen, hc2, hprelen]
        omega
      rw [← h]
      simp only
      have hlsd : A.msd + n + p.1.length - 1 < (pre ++ q.1 ++ p.1 ++ p.2).length ∧ A.lsd ≤ A.msd + n + p.1.length - 1 := by
        simp only [List.length_append, hql, hwinlen, hprelen]
        have : 0 < A.digits.length := by omega
        rw [hsplit] at this
        simp only [List.length_append, hwinlen, hprelen] at this
        rw [hc1] at this
        simp only [List.length_append, hc2] at this
        omega
      refine ⟨?_, hdslen, ?_, hlsd.1, hlsd.2⟩
      · -- value
        rw [hsplit, hc1]
        simp only [nat_append, hpre0, hun0', hcs0, Nat.zero_mul, Nat.zero_add, Nat.add_zero, List.length_append]
        rw [hwinlen] at hq
        rw [hcs0] at hc4
        simp only [Nat.zero_mul, Nat.zero_add, Nat.add_zero] at hq hc4
        rw [hq, hc2]
        generalize natOfLimbs q.1 = Q at *
        generalize natOfLimbs p.1 = P at *
        rw [Nat.pow_add]
        generalize Bb ^ p.1.length = W1 at *
        generalize Bb ^ p.2.length = W2 at *
        have : (Q * W1 + P) * W2 * pow2 s = (pow2 s * Q * W1 + pow2 s * P) * W2 := by grind
        rw [this, ← hc4]
        grind
      · -- well-formedness
        have hsm : Small (pre ++ q.1 ++ p.1 ++ p.2) := by
          intro x hx
          simp only [List.mem_append] at hx
          rcases hx with ((hx | hx) | hx) | hx
          · exact hsmpre x hx
          · exact hqs.1 x hx
          · exact hc3 x hx
          · rw [hun0 x hx]; exact Bb_pos
        obtain ⟨su1, su2⟩ := skipUp_spec (pre ++ q.1 ++ p.1 ++ p.2).length (pre ++ q.1 ++ p.1 ++ p.2) A.msd
        refine ⟨hsm, ?_, ?_⟩
        · intro j hj
          rcases Nat.lt_or_ge j A.msd with h1 | h1
          · have : (pre ++ q.1 ++ p.1 ++ p.2).getD j 0 = pre.getD j 0 := by
              rw [List.append_assoc, List.append_assoc]
              exact getD_append_l _ _ _ (by rw [hprelen]; exact h1)
            rw [this]
            exact getD_of_all_zero _ hpre0' j
          · exact su2 j h1 hj
        · intro j hj
          simp only at hj
          have hord := hord0
          have hidx : (pre ++ q.1 ++ p.1).length ≤ j := by
            simp only [List.length_append, hprelen, hql, hwinlen]
            omega
          rw [getD_append_r _ _ _ hidx]
          exact getD_of_all_zero _ hun0 _


/-- **a left-shift pass multiplies exactly** -/
theorem shlPass_spec (s : Nat) (A A' : Arr) (h : shlPass s A = some A') (wf : WF A) (hord0 : A.msd ≤ A.lsd + 1)
    (hinb : A.lsd < A.digits.length) :
    natOfLimbs A'.digits = natOfLimbs A.digits * pow2 s ∧ A'.digits.length = A.digits.length ∧ WF A' := by
  unfold shlPass at h
  simp only at h
  generalize hn : A.lsd + 1 - A.msd = n at h
  have hsplit : A.digits = A.digits.take A.msd ++ ((A.digits.drop A.msd).take n ++ (A.digits.drop A.msd).drop n) := by
    rw [List.take_append_drop, List.take_append_drop]
  have hwinlen : ((A.digits.drop A.msd).take n).length = n := by
    rw [List.length_take, List.length_drop]; omega
  have hprelen : (A.digits.take A.msd).length = A.msd := by
    rw [List.length_take]; omega
  have hpre0' : ∀ x ∈ A.digits.take A.msd, x = 0 := take_zero_of_idx _ _ wf.zlo
  have hpost0 : ∀ x ∈ (A.digits.drop A.msd).drop n, x = 0 := by
    rw [List.drop_drop]
    apply drop_zero_of_idx
    intro j hj
    exact wf.zhi j (by omega)
  have hsmpre : Small (A.digits.take A.msd) := fun x hx => wf.small x (List.mem_of_mem_take hx)
  have hsmpost : Small ((A.digits.drop A.msd).drop n) :=
    fun x hx => wf.small x (List.mem_of_mem_drop (List.mem_of_mem_drop hx))
  generalize A.digits.take A.msd = pre at *
  generalize (A.digits.drop A.msd).take n = win at *
  generalize (A.digits.drop A.msd).drop n = post at *
  have hpost0' : natOfLimbs post = 0 := all_zero_nat _ hpost0
  have hpre0 : natOfLimbs pre = 0 := all_zero_nat _ hpre0'
  have hq := shlList_spec s win.reverse 0
  have hqs := shlList_small s win.reverse 0
  have hql := shlList_length s win.reverse 0
  rw [List.reverse_reverse, List.length_reverse, hwinlen] at hq
  rw [List.length_reverse, hwinlen] at hql
  generalize shlList s 0 win.reverse = q at *
  cases hT : shlTail s q.2 pre.reverse with
  | none => rw [hT] at h; cases h
  | some p =>
    rw [hT] at h
    simp only [Option.some.injEq] at h
    obtain ⟨cs, hc1, hc2, hc3, hc4⟩ := shlTail_spec s _ q.2 p.1 p.2 (by rw [hT])
    have hpre : pre = p.2.reverse ++ cs.reverse := by
      have := congrArg List.reverse hc1
      rw [List.reverse_reverse, List.reverse_append] at this
      exact this
    have hcs0 : ∀ x ∈ cs.reverse, x = 0 := fun x hx => hpre0' x (by rw [hpre]; exact List.mem_append_right _ hx)
    have hun0 : ∀ x ∈ p.2.reverse, x = 0 := fun x hx => hpre0' x (by rw [hpre]; exact List.mem_append_left _ hx)
    have hcsN : natOfLimbs cs.reverse = 0 := all_zero_nat _ hcs0
    have hunN : natOfLimbs p.2.reverse = 0 := all_zero_nat _ hun0
    have hlenpre : p.2.length + p.1.length = A.msd := by
      have := congrArg List.length hpre
      simp only [List.length_append, List.length_reverse] at this
      omega
    have hdslen : (p.2.reverse ++ p.1.reverse ++ q.1.reverse ++ post).length = A.digits.length := by
      rw [hsplit]
      simp only [List.length_append, List.length_reverse, hql, hwinlen, hprelen]
      omega
    rw [← h]
    simp only
    refine ⟨?_, hdslen, ?_⟩
    · rw [hsplit]
      simp only [nat_append, hpre0, hpost0', hunN, Nat.zero_mul, Nat.zero_add, Nat.add_zero, List.length_reverse, hql]
      rw [hcsN] at hc4
      simp only [Nat.zero_mul, Nat.zero_add, Nat.add_zero] at hq hc4
      rw [← hc4]
      generalize natOfLimbs q.1.reverse = Q at *
      generalize Bb ^ post.length = W2 at *
      have : natOfLimbs win * W2 * pow2 s = (natOfLimbs win * pow2 s) * W2 := by grind
      rw [this, hq]
      grind
    · have hsm : Small (p.2.reverse ++ p.1.reverse ++ q.1.reverse ++ post) := by
        intro x hx
        simp only [List.mem_append, List.mem_reverse] at hx
        rcases hx with ((hx | hx) | hx) | hx
        · rw [hun0 x (List.mem_reverse.mpr hx)]; exact Bb_pos
        · exact hc3 x hx
        · exact hqs x hx
        · exact hsmpost x hx
      obtain ⟨sd1, sd2⟩ := skipDown_spec (p.2.reverse ++ p.1.reverse ++ q.1.reverse ++ post).length
        (p.2.reverse ++ p.1.reverse ++ q.1.reverse ++ post) A.lsd
      refine ⟨hsm, ?_, ?_⟩
      · intro j hj
        simp only at hj
        have : (p.2.reverse ++ p.1.reverse ++ q.1.reverse ++ post).getD j 0 = p.2.reverse.getD j 0 := by
          rw [List.append_assoc, List.append_assoc]
          exact getD_append_l _ _ _ (by rw [List.length_reverse]; omega)
        rw [this]
        exact getD_of_all_zero _ hun0 j
      · intro j hj
        simp only at hj
        rcases Nat.lt_or_ge A.lsd j with h1 | h1
        · have hidx : (p.2.reverse ++ p.1.reverse ++ q.1.reverse).length ≤ j := by
            simp only [List.length_append, List.length_reverse, hql]
            omega
          rw [getD_append_r _ _ _ hidx]
          exact getD_of_all_zero _ hpost0 _
        · exact sd2 j hj h1

end CifModel.Lemmas.NumbLimbPass
