import CifModel.Lemmas.ParserStructure
/-
  Lemmas/ParserStore — the consistency invariant of the target CIF (`OkCif`) and its preservation by every store operation the
  integrated parser performs (Model/Parser.lean: setValue, addPacket, the loop creation of parseLoop, createIn, the pruning
  of parseContainer, the anonymous block of blocksLoop), hence by the whole parse, under every callback policy and also when
  the parse is aborted (`parse_ok`).

  `OkCif`: the normalised codes of the data blocks are pairwise distinct; in every container (recursively) the normalised codes of
  its save frames are pairwise distinct, every normalised item name occurs once (across all loops), there is at most one
  scalar loop (category ""), and a scalar loop has at most one packet.
-/
set_option linter.unusedSimpArgs false
set_option linter.unusedVariables false

namespace CifModel.Model.Parser
open CifModel CifModel.Model CifModel.Model.Lexer CifModel.Gen.ErrCodes CifModel.Spec.Grammar

/-! ### the invariant -/

def normCodes (o : Opts) (cs : List Container) : List Str := cs.map fun c => o.norm c.code

def LoopsOk (o : Opts) (ls : List Loop) : Prop :=
  (normNames o ls).Nodup ∧ (ls.filter Parser.isScalarLoop).length ≤ 1 ∧
    ∀ l ∈ ls, Parser.isScalarLoop l = true → l.packets.length ≤ 1

mutual
  def OkC (o : Opts) : Container → Prop
    | .mk _ fs ls => LoopsOk o ls ∧ (normCodes o fs).Nodup ∧ OkCs o fs
  def OkCs (o : Opts) : List Container → Prop
    | [] => True
    | c :: cs => OkC o c ∧ OkCs o cs
end

def OkCif (o : Opts) (cif : Cif) : Prop := (normCodes o cif).Nodup ∧ OkCs o cif

theorem OkCs_iff (o : Opts) : ∀ cs : List Container, OkCs o cs ↔ ∀ c ∈ cs, OkC o c
  | [] => by simp [OkCs]
  | a :: r => by simp [OkCs, OkCs_iff o r]

theorem OkC_mk (o : Opts) (code : Str) (fs : List Container) (ls : List Loop) :
    OkC o (.mk code fs ls) ↔ LoopsOk o ls ∧ (normCodes o fs).Nodup ∧ OkCs o fs := by
  simp [OkC]

theorem OkC_empty (o : Opts) (code : Str) : OkC o (.mk code [] []) := by
  simp [OkC, LoopsOk, normNames, normCodes, OkCs]

/-! ### paths -/

theorem find_of_nodup (o : Opts) (k : Str) : ∀ (cs : List Container) (c : Container), (normCodes o cs).Nodup → c ∈ cs →
    codeIs o.norm k c = true → cs.find? (codeIs o.norm k) = some c
  | [], c, _, hc, _ => by simp at hc
  | a :: r, c, hn, hc, hk => by
    simp only [normCodes, List.map_cons, List.nodup_cons] at hn
    rcases List.mem_cons.mp hc with rfl | hc'
    · simp [List.find?, hk]
    · by_cases ha : codeIs o.norm k a = true
      · exfalso
        apply hn.1
        simp only [codeIs, beq_iff_eq] at ha hk
        rw [ha, ← hk]
        exact List.mem_map.mpr ⟨c, hc', rfl⟩
      · simp only [List.find?, ha]
        exact find_of_nodup o k r c hn.2 hc' hk

theorem normCodes_map (o : Opts) (g : Container → Container) (hg : ∀ c, (g c).code = c.code) (cs : List Container) :
    normCodes o (cs.map g) = normCodes o cs := by
  simp [normCodes, List.map_map, Function.comp_def, hg]

theorem updIn_codes (o : Opts) (f : Container → Container) (hf : ∀ c, (f c).code = c.code) :
    ∀ (path : Path) (cs : List Container), normCodes o (updIn o.norm f path cs) = normCodes o cs
  | [], cs => by simp [updIn]
  | [k], cs => by
    simp only [updIn]
    apply normCodes_map
    intro c; split <;> simp [hf]
  | k :: k' :: ks, cs => by
    simp only [updIn]
    apply normCodes_map
    intro c; split <;> simp [Container.code]

/-- the update of the container at `path` keeps the invariant when the new content of THAT container is consistent -/
theorem updIn_ok (o : Opts) (f : Container → Container) (hf : ∀ c, (f c).code = c.code) :
    ∀ (path : Path) (cs : List Container), (normCodes o cs).Nodup → OkCs o cs →
      (∀ c, getIn o.norm path cs = some c → OkC o c → OkC o (f c)) → OkCs o (updIn o.norm f path cs)
  | [], cs, _, h, _ => by simpa [updIn] using h
  | [k], cs, hn, h, hc => by
    simp only [updIn]
    rw [OkCs_iff] at h ⊢
    intro c' hc'
    obtain ⟨c, hcm, rfl⟩ := List.mem_map.mp hc'
    split
    · rename_i hk
      exact hc c (by simp only [getIn]; exact find_of_nodup o k cs c hn hcm hk) (h c hcm)
    · exact h c hcm
  | k :: k' :: ks, cs, hn, h, hc => by
    simp only [updIn]
    rw [OkCs_iff] at h ⊢
    intro c' hc'
    obtain ⟨c, hcm, rfl⟩ := List.mem_map.mp hc'
    split
    · rename_i hk
      have hfind := find_of_nodup o k cs c hn hcm hk
      have hokc := h c hcm
      obtain ⟨code, fs, ls⟩ := c
      rw [OkC_mk] at hokc
      simp only [Container.code, Container.frames, Container.loops]
      rw [OkC_mk]
      refine ⟨hokc.1, ?_, ?_⟩
      · rw [updIn_codes o f hf]; exact hokc.2.1
      · apply updIn_ok o f hf (k' :: ks) fs hokc.2.1 hokc.2.2
        intro c2 hg
        apply hc
        simp only [getIn, hfind, Container.frames]
        exact hg
    · exact h c hcm

theorem updIn_okCif (o : Opts) (f : Container → Container) (hf : ∀ c, (f c).code = c.code) (path : Path) (cif : Cif)
    (h : OkCif o cif) (hc : ∀ c, getIn o.norm path cif = some c → OkC o c → OkC o (f c)) : OkCif o (updIn o.norm f path cif) :=
  ⟨by rw [updIn_codes o f hf]; exact h.1, updIn_ok o f hf path cif h.1 h.2 hc⟩

theorem getIn_updIn (o : Opts) (f : Container → Container) (hf : ∀ c, (f c).code = c.code) :
    ∀ (path : Path) (cs : List Container), getIn o.norm path (updIn o.norm f path cs) = (getIn o.norm path cs).map f
  | [], cs => by simp [getIn]
  | [k], cs => by
    simp only [getIn, updIn, List.find?_map]
    have e : (codeIs o.norm k ∘ fun c => if codeIs o.norm k c = true then f c else c) = codeIs o.norm k := by
      funext c
      simp only [Function.comp]
      split <;> simp [codeIs, hf]
    rw [e]
    cases hfd : cs.find? (codeIs o.norm k) with
    | none => rfl
    | some c =>
      have := List.find?_some hfd
      simp [this]
  | k :: k' :: ks, cs => by
    simp only [getIn, updIn, List.find?_map]
    have e : (codeIs o.norm k ∘ fun c => if codeIs o.norm k c = true then
        Container.mk c.code (updIn o.norm f (k' :: ks) c.frames) c.loops else c) = codeIs o.norm k := by
      funext c
      simp only [Function.comp]
      split <;> simp [codeIs, Container.code]
    rw [e]
    cases hfd : cs.find? (codeIs o.norm k) with
    | none => rfl
    | some c =>
      have := List.find?_some hfd
      simp only [Option.map_some, this, if_true, Container.frames]
      exact getIn_updIn o f hf (k' :: ks) c.frames

/-! ### the operations on the loops of one container -/

theorem normNames_cons (o : Opts) (l : Loop) (r : List Loop) : normNames o (l :: r) = l.names.map o.norm ++ normNames o r := by
  simp [normNames]

theorem LoopsOk.tail {o : Opts} {l : Loop} {r : List Loop} (h : LoopsOk o (l :: r)) : LoopsOk o r := by
  obtain ⟨h1, h2, h3⟩ := h
  rw [normNames_cons, List.nodup_append] at h1
  refine ⟨h1.2.1, ?_, fun l' hl' => h3 l' (List.mem_cons_of_mem _ hl')⟩
  simp only [List.filter_cons] at h2
  split at h2
  · simp only [List.length_cons] at h2; omega
  · exact h2

theorem setAll_names (norm : Str → Str) (k : Str) (v : V) (l : Loop) : (setAll norm k v l).names = l.names := by
  unfold setAll; split <;> rfl

theorem setAll_scalar (norm : Str → Str) (k : Str) (v : V) (l : Loop) :
    Parser.isScalarLoop (setAll norm k v l) = Parser.isScalarLoop l := by
  unfold setAll; split <;> rfl

theorem setAll_packets (norm : Str → Str) (k : Str) (v : V) (l : Loop) : (setAll norm k v l).packets.length = l.packets.length := by
  unfold setAll; split <;> simp

theorem loopsOk_setAll (o : Opts) (k : Str) (v : V) (ls : List Loop) (h : LoopsOk o ls) : LoopsOk o (ls.map (setAll o.norm k v)) := by
  obtain ⟨h1, h2, h3⟩ := h
  refine ⟨?_, ?_, ?_⟩
  · have : normNames o (ls.map (setAll o.norm k v)) = normNames o ls := by
      simp [normNames, List.map_map, Function.comp_def, setAll_names]
    rw [this]; exact h1
  · rw [List.filter_map, List.length_map]
    have : (Parser.isScalarLoop ∘ setAll o.norm k v) = Parser.isScalarLoop := by
      funext l; simp [Function.comp, setAll_scalar]
    rw [this]; exact h2
  · intro l' hl' hs
    obtain ⟨l, hl, rfl⟩ := List.mem_map.mp hl'
    rw [setAll_packets]
    rw [setAll_scalar] at hs
    exact h3 l hl hs

theorem loopsOk_addScalar (o : Opts) (name : Str) (v : V) : ∀ (ls : List Loop), LoopsOk o ls → o.norm name ∉ normNames o ls →
    LoopsOk o (addScalar ls name v)
  | [], _, _ => by
    simp [addScalar, LoopsOk, normNames, Parser.isScalarLoop]
  | l :: r, h, hn => by
    have htail := h.tail
    obtain ⟨h1, h2, h3⟩ := h
    rw [normNames_cons] at h1 hn
    simp only [List.mem_append, not_or] at hn
    rw [List.nodup_append] at h1
    simp only [addScalar]
    split
    · rename_i hs
      refine ⟨?_, ?_, ?_⟩
      · rw [normNames_cons]
        simp only [List.map_append, List.map_cons, List.map_nil]
        rw [List.nodup_append]
        refine ⟨?_, h1.2.1, ?_⟩
        · rw [List.nodup_append]
          refine ⟨h1.1, by simp, ?_⟩
          intro a ha b hb
          simp only [List.mem_singleton] at hb
          subst hb
          intro e; subst e; exact hn.1 ha
        · intro a ha b hb
          rcases List.mem_append.mp ha with ha | ha
          · exact h1.2.2 a ha b hb
          · simp only [List.mem_singleton] at ha
            subst ha
            intro e; subst e; exact hn.2 hb
      · simp only [List.filter_cons] at h2 ⊢
        have e : Parser.isScalarLoop { l with names := l.names ++ [name], packets := if l.packets.isEmpty = true then
            [List.map (fun x => V.unk) l.names ++ [v]] else List.map (fun x => x ++ [v]) l.packets } = true := hs
        rw [e]
        rw [hs] at h2
        simpa using h2
      · intro l' hl' hs'
        rcases List.mem_cons.mp hl' with rfl | hl'
        · simp only []
          have := h3 l (by simp) hs
          split
          · simp
          · simpa using this
        · exact h3 l' (List.mem_cons_of_mem _ hl') hs'
    · rename_i hs
      have ih := loopsOk_addScalar o name v r htail hn.2
      refine ⟨?_, ?_, ?_⟩
      · rw [normNames_cons, List.nodup_append]
        refine ⟨h1.1, ih.1, ?_⟩
        intro a ha b hb
        rw [addScalar_eq, normNames_putScalar] at hb
        rcases hb with hb | hb
        · exact h1.2.2 a ha b hb
        · subst hb
          intro e; subst e; exact hn.1 ha
      · simp only [List.filter_cons, hs]
        exact ih.2.1
      · intro l' hl' hs'
        rcases List.mem_cons.mp hl' with rfl | hl'
        · exact absurd hs' hs
        · exact ih.2.2 l' hl' hs'

/-- `cif_container_set_value` on one container -/
theorem okC_setValue (o : Opts) (name : Str) (v : V) (c : Container) (h : OkC o c) :
    OkC o (if hasItem o.norm c (o.norm name) then Container.mk c.code c.frames (c.loops.map (setAll o.norm (o.norm name) v))
      else Container.mk c.code c.frames (addScalar c.loops name v)) := by
  obtain ⟨code, fs, ls⟩ := c
  rw [OkC_mk] at h
  simp only [Container.code, Container.frames, Container.loops]
  split
  · rw [OkC_mk]; exact ⟨loopsOk_setAll o _ v ls h.1, h.2⟩
  · rename_i hh
    rw [OkC_mk]
    refine ⟨loopsOk_addScalar o name v ls h.1 ?_, h.2⟩
    intro hm
    exact hh ((hasItem_iff o code fs ls _).mpr hm)

/-- the loop the parser is filling: the last loop of the container, which is not the scalar loop -/
def lastPlain (ls : List Loop) : Prop := ∃ l, ls.getLast? = some l ∧ Parser.isScalarLoop l = false

theorem loopsOk_snoc_plain (o : Opts) (ls0 : List Loop) (l l' : Loop) (hn : l'.names = l.names)
    (hl : Parser.isScalarLoop l = false) (hl' : Parser.isScalarLoop l' = false) (h : LoopsOk o (ls0 ++ [l])) :
    LoopsOk o (ls0 ++ [l']) := by
  obtain ⟨h1, h2, h3⟩ := h
  refine ⟨?_, ?_, ?_⟩
  · have : normNames o (ls0 ++ [l']) = normNames o (ls0 ++ [l]) := by simp [normNames, hn]
    rw [this]; exact h1
  · simp only [List.filter_append, List.filter_cons, hl, hl', List.filter_nil] at h2 ⊢
    exact h2
  · intro x hx hs
    rcases List.mem_append.mp hx with hx | hx
    · exact h3 x (List.mem_append_left _ hx) hs
    · simp only [List.mem_singleton] at hx
      subst hx
      rw [hl'] at hs; cases hs

theorem exists_snoc_of_getLast? {α} : ∀ (ls : List α) (l : α), ls.getLast? = some l → ∃ ls0, ls = ls0 ++ [l]
  | [], _, h => by simp at h
  | [a], l, h => by
    simp only [List.getLast?_singleton, Option.some.injEq] at h
    exact ⟨[], by simp [h]⟩
  | a :: b :: r, l, h => by
    rw [List.getLast?_cons_cons] at h
    obtain ⟨ls0, e⟩ := exists_snoc_of_getLast? (b :: r) l h
    exact ⟨a :: ls0, by rw [e]; rfl⟩

theorem normNames_filter_sublist (o : Opts) (q : Loop → Bool) : ∀ ls : List Loop,
    (normNames o (ls.filter q)).Sublist (normNames o ls)
  | [] => by simp [normNames]
  | l :: r => by
    simp only [List.filter_cons]
    split
    · rw [normNames_cons, normNames_cons]
      exact List.Sublist.append (List.Sublist.refl _) (normNames_filter_sublist o q r)
    · rw [normNames_cons]
      exact (normNames_filter_sublist o q r).trans (List.sublist_append_right _ _)

/-- `cif_loop_add_packet` on the loop being filled -/
theorem loopsOk_addPacketLast (o : Opts) (ls : List Loop) (p : List V) (h : LoopsOk o ls) (hp : lastPlain ls) :
    LoopsOk o (addPacketLast ls p) ∧ lastPlain (addPacketLast ls p) := by
  obtain ⟨l, hl, hs⟩ := hp
  obtain ⟨ls0, e⟩ := exists_snoc_of_getLast? ls l hl
  subst e
  rw [addPacketLast_append]
  exact ⟨loopsOk_snoc_plain o _ l _ rfl hs hs h, ⟨{ l with packets := l.packets ++ [p] }, by simp, hs⟩⟩

theorem lastPlain_addPacketLast (ls : List Loop) (p : List V) (hp : lastPlain ls) : lastPlain (addPacketLast ls p) := by
  obtain ⟨l, hl, hs⟩ := hp
  obtain ⟨ls0, e⟩ := exists_snoc_of_getLast? ls l hl
  subst e
  rw [addPacketLast_append]
  exact ⟨{ l with packets := l.packets ++ [p] }, by simp, hs⟩

/-- the creation of a loop by parse_loop -/
theorem loopsOk_newLoop (o : Opts) (code : Str) (fs : List Container) (ls : List Loop) (names : List Str) (h : LoopsOk o ls)
    (hc : (names.any (fun n => hasItem o.norm (.mk code fs ls) (o.norm n)) || hasDup (names.map o.norm)) = false) :
    LoopsOk o (ls ++ [{ category := none, names := names, packets := [] }]) ∧
      lastPlain (ls ++ [{ category := none, names := names, packets := [] }]) := by
  obtain ⟨h1, h2, h3⟩ := h
  simp only [Bool.or_eq_false_iff, List.any_eq_false] at hc
  refine ⟨⟨?_, ?_, ?_⟩, ⟨{ category := none, names := names, packets := [] }, by simp, rfl⟩⟩
  · have : normNames o (ls ++ [{ category := none, names := names, packets := [] }]) = normNames o ls ++ names.map o.norm := by
      simp [normNames]
    rw [this, List.nodup_append]
    refine ⟨h1, nodup_of_hasDup_false _ hc.2, ?_⟩
    intro a ha b hb e
    subst e
    obtain ⟨n, hn, rfl⟩ := List.mem_map.mp hb
    exact hc.1 n hn ((hasItem_iff o code fs ls _).mpr ha)
  · simp only [List.filter_append, List.filter_cons, Parser.isScalarLoop, List.filter_nil]
    simpa using h2
  · intro x hx hs
    rcases List.mem_append.mp hx with hx | hx
    · exact h3 x hx hs
    · simp only [List.mem_singleton] at hx
      subst hx
      simp [Parser.isScalarLoop] at hs

/-- `cif_container_prune` -/
theorem okC_prune (o : Opts) (c : Container) (h : OkC o c) : OkC o (pruneC c) := by
  obtain ⟨code, fs, ls⟩ := c
  rw [OkC_mk] at h
  simp only [pruneC]
  rw [OkC_mk]
  refine ⟨?_, h.2⟩
  obtain ⟨h1, h2, h3⟩ := h.1
  have hsub : (ls.filter fun l => !l.packets.isEmpty).Sublist ls := List.filter_sublist
  refine ⟨?_, ?_, fun l hl => h3 l (hsub.subset hl)⟩
  · exact List.Nodup.sublist (normNames_filter_sublist o _ ls) h1
  · exact Nat.le_trans (hsub.filter _).length_le h2

theorem normCodes_snoc_nodup (o : Opts) (cs : List Container) (code : Str) (h : (normCodes o cs).Nodup)
    (hx : cs.any (codeIs o.norm (o.norm code)) = false) : (normCodes o (cs ++ [Container.mk code [] []])).Nodup := by
  have e : normCodes o (cs ++ [Container.mk code [] []]) = normCodes o cs ++ [o.norm code] := by
    simp [normCodes, Container.code]
  rw [e, List.nodup_append]
  refine ⟨h, by simp, ?_⟩
  intro a ha b hb e
  simp only [List.mem_singleton] at hb
  subst hb; subst e
  unfold normCodes at ha
  obtain ⟨c, hc, hcc⟩ := List.mem_map.mp ha
  rw [List.any_eq_false] at hx
  exact hx c hc (by simp [codeIs, hcc])

theorem okCs_snoc (o : Opts) (cs : List Container) (code : Str) (h : OkCs o cs) : OkCs o (cs ++ [Container.mk code [] []]) := by
  rw [OkCs_iff] at h ⊢
  intro c hc
  rcases List.mem_append.mp hc with hc | hc
  · exact h c hc
  · simp only [List.mem_singleton] at hc
    subst hc
    exact OkC_empty o code

/-- the creation of a save frame -/
theorem okC_newFrame (o : Opts) (code : Str) (c : Container) (h : OkC o c)
    (hx : c.frames.any (codeIs o.norm (o.norm code)) = false) :
    OkC o (Container.mk c.code (c.frames ++ [Container.mk code [] []]) c.loops) := by
  obtain ⟨cc, fs, ls⟩ := c
  rw [OkC_mk] at h
  simp only [Container.code, Container.frames, Container.loops] at hx ⊢
  rw [OkC_mk]
  exact ⟨h.1, normCodes_snoc_nodup o fs code h.2.1 hx, okCs_snoc o fs code h.2.2⟩

/-- the creation of a data block -/
theorem okCif_newBlock (o : Opts) (code : Str) (cif : Cif) (h : OkCif o cif)
    (hx : cif.any (codeIs o.norm (o.norm code)) = false) : OkCif o (cif ++ [Container.mk code [] []]) :=
  ⟨normCodes_snoc_nodup o cif code h.1 hx, okCs_snoc o cif code h.2⟩

end CifModel.Model.Parser
