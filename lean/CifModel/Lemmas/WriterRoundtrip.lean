import CifModel.Lemmas.WriterDocRel
/-
  Lemmas/WriterRoundtrip — the composition: what `cif_write` emits, parsed by the integrated parser model, gives back the CIF
  written.

    writer (Model/Writer)  ──cif_chunks──▶  chunks of an abstract document `d`       (Lemmas/WriterChunks*)
    chunks                 ──feeds_chunks─▶  the scanner hands out `tokensOf d`        (Lemmas/LexGlue, from gD's C01_lex_*)
    tokens                 ──C01_parse_render_partial (gJ)─▶  CIF_OK, no report, target = `denote d`
    `denote d`             ──blocks_denote─▶  the CIF written                           (Lemmas/WriterDocRel)
-/
namespace CifModel.Lemmas.WriterChunks
open CifModel CifModel.Model CifModel.Model.Writer CifModel.Model.Lexer CifModel.Model.Parser CifModel.Spec.Lexical CifModel.Spec.Grammar
open CifModel.Lemmas.LexGlue CifModel.Lemmas.WriterLines

/-- lines within the limit in code units are within the limit in characters -/
theorem linesFit_of_fitsU : ∀ (o : Str) (k col : Nat), col ≤ k → fitsU k o = true → linesFit col o = true := by
  intro o
  induction o with
  | nil => intro _ _ _ _; rfl
  | cons u r ih =>
    intro k col hle h
    have hL : LINE = 2048 := rfl
    by_cases hu : u = 10
    · subst hu
      simp only [fitsU, if_true, Bool.and_eq_true, decide_eq_true_eq] at h
      simp only [linesFit, if_true, Bool.and_eq_true, decide_eq_true_eq]
      exact ⟨by omega, ih 0 0 (Nat.le_refl _) h.2⟩
    · simp only [fitsU, hu, if_false] at h
      simp only [linesFit, hu, if_false]
      exact ih (k + 1) _ (by split <;> omega) h

/-- no line of the output exceeds the limit (the invariant behind C02_line_bound, in the form the scanner theorems use) -/
theorem write_fitsU (version : Nat) (cif : WCif) (out : Str) (h : containersL cif) (hw : writeCif version cif = .ok out) :
    fitsU 0 out = true := by
  unfold writeCif at hw
  simp only at hw
  generalize hc0 : ({ version := if version = 1 then 1 else 0 } : Ctx) = c0 at hw
  have hcol : c0.lastColumn = 0 := by rw [← hc0]
  have L : LineOk c0 (andThen (.ok ((if c0.isCif1 then MAGIC11 else MAGIC20), c0)) fun c1 =>
      andThen (writeContainers cif c1) fun c2 => .ok (writeNewline c2)) := by
    apply lineOk_andThen_ok
    · apply lineOk_of_track c0 _ _ (by rw [hcol]; exact Nat.zero_le _)
      intro _ k hk
      have hk0 : k = 0 := by omega
      subst hk0
      by_cases hv : c0.isCif1 = true
      · simp only [hv, ↓reduceIte]; rw [hcol]; decide
      · simp only [hv, ↓reduceIte]; rw [hcol]; decide
    · apply lineOk_andThen (lineOk_containers cif c0 h)
      intro c2; exact lineOk_newline c2
  cases hr : (andThen (.ok ((if c0.isCif1 then MAGIC11 else MAGIC20), c0)) fun c1 =>
      andThen (writeContainers cif c1) fun c2 => (.ok (writeNewline c2) : Writer.W)) with
  | error e => simp [hr] at hw
  | ok p =>
    obtain ⟨o, c'⟩ := p
    simp only [hr, Except.ok.injEq] at hw
    subst hw
    obtain ⟨_, hfit⟩ := L (by rw [hcol]; exact Nat.zero_le _) o c' hr
    exact (hfit 0 (Nat.zero_le _)).1

/-- **the round trip, both dialects**: `version = 1` with a CIF 1.1 parse, any other version with a CIF 2.0 parse -/
theorem roundtrip_doc (version : Nat) (o : Opts) (pol : Policy) (cif : WCif) (out : Str)
    (hdia : o.dia = if version = 1 then .cif1 else .cif2) (hun : o.unfold = true) (hpr : o.prem = true)
    (hstore : o.store = true) (hmfd : o.maxFrameDepth ≠ 0) (hutf : o.notUtf8 = false)
    (hL : containersL cif) (hR : cifR o.dia o.normKey cif) (hN : blocksN o cif [])
    (hw : writeCif version cif = .ok out) :
    ∃ back, parse o pol [] out = { rc := 0, log := [], cif := back } ∧ All2 backBlock cif back := by
  obtain ⟨d, cs, hrel, hr, ht, hok, hlen, hhead⟩ := cif_chunks o hun hpr version cif out hdia hR hw
  have hfit : linesFit 0 out = true := linesFit_of_fitsU out 0 0 (Nat.le_refl _) (write_fitsU version cif out hL hw)
  have hfeeds := feeds_chunks o cs [] 1 0 .end_ hok (by rw [hr] at hfit; exact hfit)
  cases out with
  | nil => simp at hhead
  | cons c rest =>
    have hc : c = 35 := by simpa using hhead
    refine ⟨denote o.dia o.normKey d, ?_, blocks_denote o cif d [] hrel hN⟩
    refine C01_parse_render_partial o d c rest pol hstore hmfd hutf (blocks_wf o cif d [] hrel hN) (by subst hc; decide)
      (by subst hc; decide) ?_ ?_
    · have h1 := szBlocks_toks d
      rw [ht] at hlen
      simp only [fuelFor]
      omega
    · rw [hr]
      have : tokensOf d = toks cs ++ [(.end_, [])] := by rw [ht]; rfl
      rw [this]
      exact hfeeds

/-! ### the output is well-formed UTF-16 of allowed characters -/

theorem okUnits_app (dia : Dialect) (a b : Str) (ha : okUnits dia none a = true) (hb : okUnits dia none b = true) :
    okUnits dia none (a ++ b) = true := by
  rw [Lemmas.WriterLexUnits.okUnits_append dia a b none ha]; exact hb

theorem adm_units {dia : Dialect} {p : Presentation} {s : Str} (h : admissible dia p s = true) : okUnits dia none s = true := by
  cases p with
  | bare =>
    cases s with
    | nil => rfl
    | cons c r =>
      simp only [admissible, bareOk, Bool.and_eq_true] at h
      exact h.1.1.1.1
  | squote => simp only [admissible, quotedOk, Bool.and_eq_true] at h; exact h.1.1
  | dquote => simp only [admissible, quotedOk, Bool.and_eq_true] at h; exact h.1.1
  | tsquote => simp only [admissible, Spec.Lexical.tripleOk, Bool.and_eq_true] at h; exact h.1.2
  | tdquote => simp only [admissible, Spec.Lexical.tripleOk, Bool.and_eq_true] at h; exact h.1.2
  | text => simp only [admissible, textOk, Bool.and_eq_true] at h; exact h.1

theorem render_units {dia : Dialect} {p : Presentation} {s : Str} (h : okUnits dia none s = true) :
    okUnits dia none (renderValue p s) = true := by
  have hq : ∀ (a b : Str), okUnits dia none a = true → okUnits dia none b = true → okUnits dia none (a ++ (s ++ b)) = true :=
    fun a b ha hb => okUnits_app dia a _ ha (okUnits_app dia s b h hb)
  cases p with
  | bare => exact h
  | squote => exact hq [39] [39] (by cases dia <;> decide) (by cases dia <;> decide)
  | dquote => exact hq [34] [34] (by cases dia <;> decide) (by cases dia <;> decide)
  | tsquote => exact hq [39, 39, 39] [39, 39, 39] (by cases dia <;> decide) (by cases dia <;> decide)
  | tdquote => exact hq [34, 34, 34] [34, 34, 34] (by cases dia <;> decide) (by cases dia <;> decide)
  | text => exact hq [59] [10, 59] (by cases dia <;> decide) (by cases dia <;> decide)

theorem tk_units {dia : Dialect} {t : Tk} (h : t.ok dia = true) : okUnits dia none t.chars = true := by
  cases t with
  | data code =>
    simp only [Tk.ok, Bool.and_eq_true, nonBlankOk] at h
    exact okUnits_app dia _ _ (by cases dia <;> decide) h.2.1
  | save code =>
    simp only [Tk.ok, Bool.and_eq_true, nonBlankOk] at h
    exact okUnits_app dia _ _ (by cases dia <;> decide) h.2.1
  | saveEnd => cases dia <;> decide
  | loopKw => cases dia <;> decide
  | name n =>
    cases n with
    | nil => simp [Tk.ok] at h
    | cons u s =>
      simp only [Tk.ok] at h
      split at h
      · rename_i s' heq
        injection heq with e1 e2
        subst e1; subst e2
        simp only [nonBlankOk, Bool.and_eq_true] at h
        exact okUnits_app dia [95] _ (by cases dia <;> decide) h.1
      · cases h
  | val p s =>
    simp only [Tk.ok, Bool.and_eq_true] at h
    exact render_units (adm_units h.1)
  | key p k =>
    simp only [Tk.ok, Bool.and_eq_true, beq_iff_eq] at h
    obtain ⟨⟨hd, _⟩, hadm⟩ := h
    subst hd
    exact okUnits_app _ _ [58] (render_units (adm_units hadm)) (by decide)
  | opn c =>
    simp only [Tk.ok, Bool.and_eq_true, Bool.or_eq_true, beq_iff_eq] at h
    obtain ⟨hd, hc⟩ := h
    subst hd
    rcases hc with rfl | rfl <;> decide
  | cls c =>
    simp only [Tk.ok, Bool.and_eq_true, Bool.or_eq_true, beq_iff_eq] at h
    obtain ⟨hd, hc⟩ := h
    subst hd
    rcases hc with rfl | rfl <;> decide

theorem ws_units {dia : Dialect} : ∀ (a : List WsAtom), (∀ x ∈ a, x.ok dia = true) → okUnits dia none (renderWs a) = true := by
  intro a
  induction a with
  | nil => intro _; rfl
  | cons x r ih =>
    intro h
    have hx := h x (by simp)
    have hr := ih (fun y hy => h y (by simp [hy]))
    have e : renderWs (x :: r) = x.render ++ renderWs r := by simp [renderWs]
    rw [e]
    refine okUnits_app dia _ _ ?_ hr
    cases x with
    | blank c =>
      simp only [WsAtom.ok, Spec.Lexical.isBlank, Bool.or_eq_true, beq_iff_eq] at hx
      rcases hx with rfl | rfl <;> cases dia <;> decide
    | eol => cases dia <;> decide
    | comment b =>
      simp only [WsAtom.ok, Bool.and_eq_true] at hx
      exact okUnits_app dia [35] _ (by cases dia <;> decide) (okUnits_app dia b [10] hx.1 (by cases dia <;> decide))

/-- accepted chunks render to well-formed UTF-16 of characters the dialect allows -/
theorem okC_units (dia : Dialect) : ∀ (cs : List Chunk) (lt : TokType) (w : List WsAtom), okC dia lt w cs →
    okUnits dia none (renderWs w ++ renderChunks cs) = true := by
  intro cs
  induction cs with
  | nil =>
    intro lt w h
    simp only [renderChunks, List.append_nil]
    exact ws_units w h.1
  | cons x r ih =>
    intro lt w h
    cases x with
    | ws a =>
      have e : renderWs w ++ renderChunks (.ws a :: r) = renderWs (w ++ a) ++ renderChunks r := by
        simp [renderChunks, renderWs_append]
      rw [e]
      exact ih lt (w ++ a) h
    | tk t =>
      obtain ⟨hw, htok, _, _, hrest⟩ := h
      have := ih _ [] hrest
      exact okUnits_app dia _ _ (ws_units w hw.1) (okUnits_app dia _ _ (tk_units htok) this)

/-- the units `cif_write` hands to the stream: well-formed UTF-16 (no unpaired surrogate) of characters the dialect allows -/
theorem output_units (version : Nat) (nk : Str → Str) (cif : WCif) (out : Str)
    (hR : cifR (if version = 1 then .cif1 else .cif2) nk cif) (hw : writeCif version cif = .ok out) :
    okUnits (if version = 1 then .cif1 else .cif2) none out = true := by
  let o : Opts := { dia := if version = 1 then .cif1 else .cif2, maxFrameDepth := 1, unfold := true, prem := true, notUtf8 := false,
                    store := true, norm := id, normKey := nk }
  obtain ⟨d, cs, _, hr, _, hok, _, _⟩ := cif_chunks o rfl rfl version cif out rfl hR hw
  have := okC_units o.dia cs .end_ [] hok
  rw [hr]
  exact this

end CifModel.Lemmas.WriterChunks
