import CifModel.Lemmas.WriterDocRel
/-
  Lemmas/WriterRoundtrip — the composition: what `cif_write` emits, parsed by the integrated parser model, gives back the CIF
  written.

    writer (Model/Writer)  ──cif_chunks──▶  chunks of an abstract document `d`       (Lemmas/WriterChunks*)
    chunks                 ──feeds_chunks─▶  the scanner hands out `tokensOf d`        (Lemmas/LexGlue, from gD's C01_lex_*)
    tokens                 ──C01_parse_render_partial (gJ)─▶  CIF_OK, no report, target = `denote d`
    `denote d`             ──blocks_denote─▶  the CIF written                           (Lemmas/WriterDocRel)
-/
namespace CifModel.Lemmas.WriterChunks
open CifModel CifModel.Model CifModel.Model.Writer CifModel.Model.Lexer CifModel.Model.Parser CifModel.Spec.Lexical CifModel.Spec.Grammar
open CifModel.Lemmas.LexGlue CifModel.Lemmas.WriterLines

/-- lines within the limit in code units are within the limit in characters -/
theorem linesFit_of_fitsU : ∀ (o : Str) (k col : Nat), col ≤ k → fitsU k o = true → linesFit col o = true := by
  intro o
  induction o with
  | nil => intro _ _ _ _; rfl
  | cons u r ih =>
    intro k col hle h
    have hL : LINE = 2048 := rfl
    by_cases hu : u = 10
    · subst hu
      simp only [fitsU, if_true, Bool.and_eq_true, decide_eq_true_eq] at h
      simp only [linesFit, if_true, Bool.and_eq_true, decide_eq_true_eq]
      exact ⟨by omega, ih 0 0 (Nat.le_refl _) h.2⟩
    · simp only [fitsU, hu, if_false] at h
      simp only [linesFit, hu, if_false]
      exact ih (k + 1) _ (by split <;> omega) h

/-- no line of the output exceeds the limit (the invariant behind C02_line_bound, in the form the scanner theorems use) -/
theorem write_fitsU (version : Nat) (cif : WCif) (out : Str) (h : containersL cif) (hw : writeCif version cif = .ok out) :
    fitsU 0 out = true := by
  unfold writeCif at hw
  simp only at hw
  generalize hc0 : ({ version := if version = 1 then 1 else 0 } : Ctx) = c0 at hw
  have hcol : c0.lastColumn = 0 := by rw [← hc0]
  have L : LineOk c0 (andThen (.ok ((if c0.isCif1 then MAGIC11 else MAGIC20), c0)) fun c1 =>
      andThen (writeContainers cif c1) fun c2 => .ok (writeNewline c2)) := by
    apply lineOk_andThen_ok
    · apply lineOk_of_track c0 _ _ (by rw [hcol]; exact Nat.zero_le _)
      intro _ k hk
      have hk0 : k = 0 := by omega
      subst hk0
      by_cases hv : c0.isCif1 = true
      · simp only [hv, ↓reduceIte]; rw [hcol]; decide
      · simp only [hv, ↓reduceIte]; rw [hcol]; decide
    · apply lineOk_andThen (lineOk_containers cif c0 h)
      intro c2; exact lineOk_newline c2
  cases hr : (andThen (.ok ((if c0.isCif1 then MAGIC11 else MAGIC20), c0)) fun c1 =>
      andThen (writeContainers cif c1) fun c2 => (.ok (writeNewline c2) : Writer.W)) with
  | error e => simp [hr] at hw
  | ok p =>
    obtain ⟨o, c'⟩ := p
    simp only [hr, Except.ok.injEq] at hw
    subst hw
    obtain ⟨_, hfit⟩ := L (by rw [hcol]; exact Nat.zero_le _) o c' hr
    exact (hfit 0 (Nat.zero_le _)).1

/-- **the round trip, both dialects**: `version = 1` with a CIF 1.1 parse, any other version with a CIF 2.0 parse -/
theorem roundtrip_doc (version : Nat) (o : Opts) (pol : Policy) (cif : WCif) (out : Str)
    (hdia : o.dia = if version = 1 then .cif1 else .cif2) (hun : o.unfold = true) (hpr : o.prem = true)
    (hstore : o.store = true) (hmfd : o.maxFrameDepth ≠ 0) (hutf : o.notUtf8 = false)
    (hL : containersL cif) (hR : cifR o.dia o.normKey cif) (hN : blocksN o cif [])
    (hw : writeCif version cif = .ok out) :
    ∃ back, parse o pol [] out = { rc := 0, log := [], cif := back } ∧ All2 backBlock cif back := by
  obtain ⟨d, cs, hrel, hr, ht, hok, hlen, hhead⟩ := cif_chunks o hun hpr version cif out hdia hR hw
  have hfit : linesFit 0 out = true := linesFit_of_fitsU out 0 0 (Nat.le_refl _) (write_fitsU version cif out hL hw)
  have hfeeds := feeds_chunks o cs [] 1 0 .end_ hok (by rw [hr] at hfit; exact hfit)
  cases out with
  | nil => simp at hhead
  | cons c rest =>
    have hc : c = 35 := by simpa using hhead
    refine ⟨denote o.dia o.normKey d, ?_, blocks_denote o cif d [] hrel hN⟩
    refine C01_parse_render_partial o d c rest pol hstore hmfd hutf (blocks_wf o cif d [] hrel hN) (by subst hc; decide)
      (by subst hc; decide) ?_ ?_
    · have h1 := szBlocks_toks d
      rw [ht] at hlen
      simp only [fuelFor]
      omega
    · rw [hr]
      have : tokensOf d = toks cs ++ [(.end_, [])] := by rw [ht]; rfl
      rw [this]
      exact hfeeds

end CifModel.Lemmas.WriterChunks
