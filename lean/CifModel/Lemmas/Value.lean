import CifModel.Model.Value
import CifModel.Spec.ValueSpec
import CifModel.Gen.ErrCodes
/-
  Lemmas about Model/Value: the structural list functions are `List.insertIdx / set / eraseIdx / [·]?`; the association
  list refines the abstract map of Spec/ValueSpec; invariants of the map operations.
-/
namespace CifModel.Model.Value
open CifModel CifModel.Spec.ValueSpec

/-- the result codes used by the model are the ones cif.h defines now (re-extracted on every run) -/
theorem codes_link :
    (a!"CIF_OK", OK) ∈ Gen.ErrCodes.codes ∧ (a!"CIF_ERROR", ERROR) ∈ Gen.ErrCodes.codes
    ∧ (a!"CIF_ARGUMENT_ERROR", ARGUMENT_ERROR) ∈ Gen.ErrCodes.codes
    ∧ (a!"CIF_DUP_ITEMNAME", DUP_ITEMNAME) ∈ Gen.ErrCodes.codes
    ∧ (a!"CIF_INVALID_ITEMNAME", INVALID_ITEMNAME) ∈ Gen.ErrCodes.codes
    ∧ (a!"CIF_NOSUCH_ITEM", NOSUCH_ITEM) ∈ Gen.ErrCodes.codes
    ∧ (a!"CIF_INVALID_NUMBER", INVALID_NUMBER) ∈ Gen.ErrCodes.codes
    ∧ (a!"CIF_INVALID_INDEX", INVALID_INDEX) ∈ Gen.ErrCodes.codes := by
  decide +kernel

/-! ### lists -/

theorem insertAt_eq (x : V) (i : Nat) (vs : List V) (h : i ≤ vs.length) : insertAt x i vs = vs.insertIdx i x := by
  induction vs generalizing i with
  | nil => cases i with
    | zero => rfl
    | succ i => simp at h
  | cons v vs ih => cases i with
    | zero => rfl
    | succ i => simp [insertAt, ih i (by simpa using h)]

theorem setAt_eq (x : V) (i : Nat) (vs : List V) : setAt x i vs = vs.set i x := by
  induction vs generalizing i with
  | nil => cases i <;> rfl
  | cons v vs ih => cases i with
    | zero => rfl
    | succ i => simp [setAt, ih]

theorem removeAt_eq (i : Nat) (vs : List V) : removeAt i vs = vs.eraseIdx i := by
  induction vs generalizing i with
  | nil => cases i <;> rfl
  | cons v vs ih => cases i with
    | zero => rfl
    | succ i => simp [removeAt, ih]

theorem getAt_eq (i : Nat) (vs : List V) : getAt i vs = vs[i]? := by
  induction vs generalizing i with
  | nil => cases i <;> rfl
  | cons v vs ih => cases i with
    | zero => rfl
    | succ i => simp [getAt, ih]

/-! ### maps: abstraction function and refinement -/

/-- abstraction of the association list -/
def absMap (es : List Entry) : AMap :=
  { get := fun k => (mapFind es k).map (fun e => (e.2.1, e.2.2)), order := es.map (·.1) }

theorem mapFind_key (es : List Entry) (nk : Str) (e : Entry) (h : mapFind es nk = some e) : e.1 = nk := by
  induction es with
  | nil => simp [mapFind] at h
  | cons a es ih =>
    simp only [mapFind] at h
    split at h
    · cases h; assumption
    · exact ih h

theorem mapFind_append_none (es : List Entry) (nk k : Str) (e : Entry) (h : mapFind es nk = none) :
    mapFind (es ++ [e]) k = if (mapFind es k).isSome then mapFind es k else (if e.1 = k then some e else none) := by
  induction es with
  | nil => simp [mapFind]
  | cons a es ih =>
    simp only [mapFind] at h
    split at h
    · cases h
    · simp only [List.cons_append, mapFind]
      split
      · simp
      · exact ih h

theorem mapFind_replace (es : List Entry) (nk ko : Str) (x : V) (k : Str) (hex : (mapFind es nk).isSome) :
    mapFind (mapReplace es nk ko x) k = if k = nk then some (nk, ko, x) else mapFind es k := by
  induction es with
  | nil => simp [mapFind] at hex
  | cons a es ih =>
    simp only [mapReplace]
    by_cases ha : a.1 = nk
    · simp only [ha, if_true, mapFind]
      by_cases hk : k = nk
      · simp [hk]
      · have : ¬ nk = k := fun h => hk h.symm
        simp [hk, this]
    · simp only [ha, if_false, mapFind]
      have hex' : (mapFind es nk).isSome := by simpa [mapFind, ha] using hex
      by_cases hak : a.1 = k
      · have : ¬ k = nk := fun h => ha (hak.trans h)
        simp [hak, this]
      · simp [hak, ih hex']

theorem map_fst_replace (es : List Entry) (nk ko : Str) (x : V) :
    (mapReplace es nk ko x).map (·.1) = es.map (·.1) := by
  induction es with
  | nil => rfl
  | cons a es ih =>
    simp only [mapReplace]
    split
    · simp [*]
    · simp [ih]

/-- `cif_map_set_item` refines "enter a value under a key" -/
theorem abs_mapSet (es : List Entry) (nk ko : Str) (x : Option V) :
    absMap (mapSet es nk ko x) = (absMap es).set nk ko (x.getD .unk) := by
  unfold mapSet
  cases hf : mapFind es nk with
  | some e =>
    simp only [absMap, AMap.set, hf, Option.map_some, Option.isSome_some, if_true, map_fst_replace]
    congr 1
    funext k
    rw [mapFind_replace es nk ko _ k (by simp [hf])]
    by_cases hk : k = nk <;> simp [hk]
  | none =>
    simp only [absMap, AMap.set, hf, Option.map_none, Option.isSome_none, List.map_append, List.map_cons, List.map_nil]
    congr 1
    funext k
    rw [mapFind_append_none es nk k _ hf]
    by_cases hk : k = nk
    · subst hk; simp [hf]
    · have : ¬ nk = k := fun h => hk h.symm
      cases hfk : mapFind es k <;> simp [hk, this]

theorem mapFind_erase (es : List Entry) (nk k : Str) (hn : nodupKeys es = true) :
    mapFind (mapErase es nk) k = if k = nk then none else mapFind es k := by
  induction es with
  | nil => simp [mapErase, mapFind]
  | cons a es ih =>
    simp only [nodupKeys, Bool.and_eq_true, Option.isNone_iff_eq_none] at hn
    simp only [mapErase]
    by_cases ha : a.1 = nk
    · simp only [ha, if_true]
      by_cases hk : k = nk
      · subst hk; rw [← ha]; simp [hn.1]
      · have : ¬ nk = k := fun h => hk h.symm
        simp [mapFind, ha, hk, this]
    · simp only [ha, if_false, mapFind]
      by_cases hak : a.1 = k
      · have : ¬ k = nk := fun h => ha (hak.trans h)
        simp [hak, this]
      · simp [hak, ih hn.2]

theorem map_fst_erase (es : List Entry) (nk : Str) : (mapErase es nk).map (·.1) = (es.map (·.1)).erase nk := by
  induction es with
  | nil => rfl
  | cons a es ih =>
    simp only [mapErase, List.map_cons]
    by_cases ha : a.1 = nk
    · simp [ha]
    · have : ¬ (a.1 == nk) = true := by simpa using ha
      simp [ha, this, ih]

/-- `HASH_DEL` refines "remove the key" on maps without duplicate keys -/
theorem abs_mapErase (es : List Entry) (nk : Str) (hn : nodupKeys es = true) :
    absMap (mapErase es nk) = (absMap es).erase nk := by
  simp only [absMap, AMap.erase, map_fst_erase]
  congr 1
  funext k
  rw [mapFind_erase es nk k hn]
  by_cases hk : k = nk <;> simp [hk]

/-! ### the no-duplicate invariant -/

theorem mapFind_none_replace (es : List Entry) (nk ko : Str) (x : V) (k : Str) (hk : k ≠ nk) (h : mapFind es k = none) :
    mapFind (mapReplace es nk ko x) k = none := by
  induction es with
  | nil => rfl
  | cons a es ih =>
    simp only [mapFind] at h
    split at h
    · cases h
    · rename_i hak
      simp only [mapReplace]
      split
      · have : ¬ nk = k := fun h => hk h.symm
        simp [mapFind, this, h]
      · simp [mapFind, hak, ih h]

theorem nodup_replace (es : List Entry) (nk ko : Str) (x : V) (hn : nodupKeys es = true) :
    nodupKeys (mapReplace es nk ko x) = true := by
  induction es with
  | nil => rfl
  | cons a es ih =>
    simp only [nodupKeys, Bool.and_eq_true, Option.isNone_iff_eq_none] at hn
    simp only [mapReplace]
    by_cases ha : a.1 = nk
    · simp only [ha, if_true, nodupKeys, Bool.and_eq_true, Option.isNone_iff_eq_none]
      exact ⟨by rw [← ha]; exact hn.1, hn.2⟩
    · simp only [ha, if_false, nodupKeys, Bool.and_eq_true, Option.isNone_iff_eq_none]
      exact ⟨mapFind_none_replace es nk ko x a.1 ha hn.1, ih hn.2⟩

theorem nodup_append (es : List Entry) (e : Entry) (hn : nodupKeys es = true) (hf : mapFind es e.1 = none) :
    nodupKeys (es ++ [e]) = true := by
  induction es with
  | nil => simp [nodupKeys, mapFind]
  | cons a es ih =>
    simp only [nodupKeys, Bool.and_eq_true, Option.isNone_iff_eq_none] at hn
    simp only [mapFind] at hf
    split at hf
    · cases hf
    · rename_i hae
      simp only [List.cons_append, nodupKeys, Bool.and_eq_true, Option.isNone_iff_eq_none]
      refine ⟨?_, ih hn.2 hf⟩
      rw [mapFind_append_none es a.1 a.1 e hn.1]
      have : ¬ e.1 = a.1 := fun h => hae h.symm
      simp [hn.1, this]

theorem nodup_mapSet (es : List Entry) (nk ko : Str) (x : Option V) (hn : nodupKeys es = true) :
    nodupKeys (mapSet es nk ko x) = true := by
  unfold mapSet
  cases hf : mapFind es nk with
  | some e => exact nodup_replace es nk ko _ hn
  | none => exact nodup_append es (nk, ko, x.getD .unk) hn hf

theorem mapFind_none_erase (es : List Entry) (nk k : Str) (h : mapFind es k = none) : mapFind (mapErase es nk) k = none := by
  induction es with
  | nil => rfl
  | cons a es ih =>
    simp only [mapFind] at h
    split at h
    · cases h
    · rename_i hak
      simp only [mapErase]
      split
      · exact h
      · simp [mapFind, hak, ih h]

theorem nodup_mapErase (es : List Entry) (nk : Str) (hn : nodupKeys es = true) : nodupKeys (mapErase es nk) = true := by
  induction es with
  | nil => rfl
  | cons a es ih =>
    simp only [nodupKeys, Bool.and_eq_true, Option.isNone_iff_eq_none] at hn
    simp only [mapErase]
    split
    · exact hn.2
    · simp only [nodupKeys, Bool.and_eq_true, Option.isNone_iff_eq_none]
      exact ⟨mapFind_none_erase es nk a.1 hn.1, ih hn.2⟩

/-! ### histories -/

/-- a history of map operations executed by the model -/
def runMap (es : List Entry) : List MapOp → List Entry
  | [] => es
  | .set nk ko v :: ops => runMap (mapSet es nk ko (some v)) ops
  | .remove nk :: ops => runMap (mapErase es nk) ops

theorem runMap_refines (ops : List MapOp) (es : List Entry) (hn : nodupKeys es = true) :
    absMap (runMap es ops) = (absMap es).run ops ∧ nodupKeys (runMap es ops) = true := by
  induction ops generalizing es with
  | nil => exact ⟨rfl, hn⟩
  | cons op ops ih =>
    cases op with
    | set nk ko v =>
      have := ih (mapSet es nk ko (some v)) (nodup_mapSet es nk ko _ hn)
      simp only [runMap, AMap.run, List.foldl_cons, AMap.apply]
      rw [this.1, abs_mapSet]
      exact ⟨rfl, this.2⟩
    | remove nk =>
      have := ih (mapErase es nk) (nodup_mapErase es nk hn)
      simp only [runMap, AMap.run, List.foldl_cons, AMap.apply]
      rw [this.1, abs_mapErase es nk hn]
      exact ⟨rfl, this.2⟩

theorem filterMap_congr' {α β : Type} {f g : α → Option β} (l : List α) (h : ∀ x ∈ l, f x = g x) :
    l.filterMap f = l.filterMap g := by
  induction l with
  | nil => rfl
  | cons a l ih =>
    have ha : f a = g a := h a (by simp)
    have hl : ∀ x ∈ l, f x = g x := fun x hx => h x (by simp [hx])
    simp [List.filterMap_cons, ha, ih hl]

theorem mem_keys_find (es : List Entry) (k : Str) (h : k ∈ es.map (·.1)) : (mapFind es k).isSome = true := by
  induction es with
  | nil => cases h
  | cons a es ih =>
    simp only [mapFind]
    split
    · rfl
    · rename_i hak
      simp only [List.map_cons, List.mem_cons] at h
      rcases h with h | h
      · exact absurd h.symm hak
      · exact ih h

/-- the keys `cif_map_get_keys` reports are the abstract map's keys (no duplicate keys) -/
theorem mapKeys_abs (es : List Entry) (hn : nodupKeys es = true) : mapKeys es = (absMap es).keys := by
  induction es with
  | nil => rfl
  | cons a es ih =>
    simp only [nodupKeys, Bool.and_eq_true, Option.isNone_iff_eq_none] at hn
    have ih' := ih hn.2
    simp only [mapKeys, AMap.keys, absMap] at ih' ⊢
    simp only [List.map_cons, List.filterMap_cons, mapFind, if_true, Option.map_some]
    congr 1
    rw [ih']
    apply filterMap_congr'
    intro k hk
    have hsome := mem_keys_find es k hk
    have : ¬ a.1 = k := by
      intro h
      rw [← h, hn.1] at hsome
      cases hsome
    simp [this]

/-! ### members by reference: reading back what was written at a path -/

theorem getAt_setAt (x : V) (i : Nat) (vs : List V) (h : i < vs.length) : getAt i (setAt x i vs) = some x := by
  induction vs generalizing i with
  | nil => simp at h
  | cons v vs ih => cases i with
    | zero => rfl
    | succ i => simp only [setAt, getAt]; exact ih i (by simpa using h)

theorem child_setChild (v : V) (s : Step) (x r : V) (h : setChild v s x = some r) : child r s = some x := by
  cases v <;> cases s <;> simp only [setChild] at h <;> try (cases h)
  case lst.idx vs i =>
    split at h
    · rename_i hi; cases h; simp only [child]; exact getAt_setAt x i vs hi
    · cases h
  case tbl.key es nk =>
    cases hf : mapFind es nk with
    | none => simp [hf] at h
    | some e =>
      simp only [hf] at h; cases h
      simp only [child]
      rw [mapFind_replace es nk e.2.1 x nk (by simp [hf])]
      simp

theorem resolve_update (p : List Step) (root x r : V) (h : update root p x = some r) : resolve r p = some x := by
  induction p generalizing root r with
  | nil => simp only [update] at h; cases h; rfl
  | cons s p ih =>
    simp only [update] at h
    cases hc : child root s with
    | none => simp [hc] at h
    | some c =>
      simp only [hc] at h
      cases hu : update c p x with
      | none => simp [hu] at h
      | some c' =>
        simp only [hu] at h
        simp only [resolve, child_setChild root s c' r h]
        exact ih c c' hu

/-- the repaired clone-onto: the target ends up equal to the source as it was before the call, whatever their relative
    position; cloning onto itself changes nothing -/
theorem cloneOnto_spec (root : V) (sp dp : List Step) (s r : V) (hs : resolve root sp = some s)
    (h : cloneOnto root sp dp = some r) : (sp = dp → r = root) ∧ (sp ≠ dp → resolve r dp = some s) := by
  unfold cloneOnto at h
  constructor
  · intro he; subst he; simp only [if_true, hs] at h; cases h; rfl
  · intro hne; simp only [hne, if_false, hs] at h; exact resolve_update dp root s r h

/-! ### structural equality is reflexive (clone is equal to the original) -/

mutual
  theorem beq_refl (v : V) : V.beq v v = true := by
    cases v with
    | unk => rfl
    | na => rfl
    | chr q s => simp [V.beq]
    | numb q t n d su sc => simp [V.beq]
    | lst vs => simp [V.beq, beqList_refl vs]
    | tbl es => simp [V.beq, beqEntries_refl es]
  theorem beqList_refl (vs : List V) : V.beqList vs vs = true := by
    cases vs with
    | nil => rfl
    | cons v vs => simp [V.beqList, beq_refl v, beqList_refl vs]
  theorem beqEntries_refl (es : List (Str × Str × V)) : V.beqEntries es es = true := by
    cases es with
    | nil => rfl
    | cons e es =>
      obtain ⟨k, ko, v⟩ := e
      simp [V.beqEntries, beq_refl v, beqEntries_refl es]
end

end CifModel.Model.Value
