import CifModel.Model.Numb
import CifModel.Spec.Rounding
import CifModel.Lemmas.NumbRound
/-
  Smaller lemmas of C10: the saturating exponent accumulation, decimal digit strings of naturals, to_digits.
-/
namespace CifModel.Lemmas.NumbMisc
open CifModel.Model.Numb CifModel.Spec.Rounding CifModel.Lemmas.NumbRound

/-! ### the exponent digit loop -/

theorem mem_takeWhile_prop (p : Nat → Bool) (l : List Nat) : ∀ c ∈ l.takeWhile p, p c = true := by
  induction l with
  | nil => intro c h; simp at h
  | cons x r ih =>
    intro c h
    rw [List.takeWhile_cons] at h
    by_cases hx : p x = true
    · rw [if_pos hx] at h
      simp only [List.mem_cons] at h
      rcases h with h | h
      · rw [h]; exact hx
      · exact ih c h
    · rw [if_neg hx] at h; simp at h

theorem isDigit_sub (c : Nat) (h : isDigit c = true) : c - UCHAR_0 ≤ 9 := by
  unfold isDigit UCHAR_0 UCHAR_9 at *
  simp at h
  omega

/-- for every saturation bound `lim`: a step keeps the accumulator `≤ 10·lim` -/
theorem expStepL_le (lim e c : Nat) (he : e ≤ lim * 10) (hc : isDigit c = true) : expStepL lim e c ≤ lim * 10 := by
  unfold expStepL
  have := isDigit_sub c hc
  split <;> omega

theorem foldl_expStepL_le (lim : Nat) (ds : Str) (hd : ∀ c ∈ ds, isDigit c = true) :
    ∀ acc, acc ≤ lim * 10 → ds.foldl (expStepL lim) acc ≤ lim * 10 := by
  induction ds with
  | nil => intro acc h; simpa using h
  | cons c r ih =>
    intro acc h
    simp only [List.foldl_cons]
    exact ih (fun x hx => hd x (by simp [hx])) _ (expStepL_le lim acc c h (hd c (by simp)))

/-- the accumulated exponent never exceeds `10·lim`, however many digits follow -/
theorem expAccumL_le (lim : Nat) (ds : Str) (hd : ∀ c ∈ ds, isDigit c = true) : expAccumL lim ds ≤ lim * 10 :=
  foldl_expStepL_le lim ds hd 0 (Nat.zero_le _)

/-- with the bound of the repaired tree: `≤ 1073741820 < 2^31 - 10^9` -/
theorem expAccum_le (ds : Str) (hd : ∀ c ∈ ds, isDigit c = true) : expAccum ds ≤ 1073741820 := by
  have := expAccumL_le 107374182 ds hd
  unfold expAccum expSatLimit
  omega

/-- every intermediate value of the accumulation stays in range too (the C evaluates `exponent * 10 + digit`
    only when `exponent < INT_MAX / 20`) -/
theorem expStep_operand_lt (e c : Nat) (he : e < expSatLimit) (hc : isDigit c = true) : e * 10 + (c - UCHAR_0) ≤ INT_MAX := by
  have := isDigit_sub c hc
  unfold expSatLimit INT_MAX at *
  omega

/-! ### lengths -/

theorem len_takeWhile_le (p : Nat → Bool) (l : List Nat) : (l.takeWhile p).length ≤ l.length := by
  induction l with
  | nil => simp
  | cons x r ih =>
    rw [List.takeWhile_cons]
    split
    · simp only [List.length_cons]; omega
    · simp

theorem len_dropWhile_le (p : Nat → Bool) (l : List Nat) : (l.dropWhile p).length ≤ l.length := by
  induction l with
  | nil => simp
  | cons x r ih =>
    rw [List.dropWhile_cons]
    split
    · simp only [List.length_cons]; omega
    · simp

theorem len_trimLead_le (l : Str) : (trimLead l).length ≤ l.length := by
  induction l with
  | nil => simp [trimLead]
  | cons x r ih =>
    rw [trimLead]
    split
    · simp only [List.length_cons]; omega
    · simp

theorem len_takeSign_le (t : Str) : (takeSign t).2.length ≤ t.length := by
  unfold takeSign
  cases t with
  | nil => simp
  | cons c r =>
    simp only
    split
    · simp
    · split <;> simp

theorem len_mantA_le (s0 : Str) : (mantA s0).length ≤ s0.length := len_takeWhile_le _ _

theorem len_mantB_le (s0 : Str) : (mantB s0).length ≤ s0.length := by
  unfold mantB
  split
  · have h1 := len_takeWhile_le isDigit ((afterA s0).drop 1)
    have h2 : ((afterA s0).drop 1).length ≤ (afterA s0).length := by simp
    have h3 : (afterA s0).length ≤ s0.length := len_dropWhile_le _ _
    omega
  · simp

theorem len_mantDigits_le (s0 : Str) : (mantDigits s0).length ≤ 2 * s0.length + 1 := by
  unfold mantDigits digitVals
  rw [List.length_map]
  refine Nat.le_trans (List.length_filter_le _ _) ?_
  have h2 := len_trimLead_le (mantRegion s0)
  have h3 : (mantRegion s0).length ≤ 2 * s0.length + 1 := by
    have ha := len_mantA_le s0
    have hb := len_mantB_le s0
    unfold mantRegion
    split
    · simp only [List.length_append, List.length_cons]; omega
    · omega
  omega

/-- the exponent part contributes at most `10·lim` in magnitude -/
theorem parseExpL_bound (lim : Nat) (s : Str) (r : Int × Str) (h : parseExpL lim s = some r) :
    -((lim * 10 : Nat) : Int) ≤ r.1 ∧ r.1 ≤ ((lim * 10 : Nat) : Int) := by
  unfold parseExpL at h
  cases s with
  | nil => simp at h; rw [← h]; simp; omega
  | cons c t =>
    simp only at h
    split at h
    · split at h
      · cases h
      · simp only [Option.some.injEq] at h
        rw [← h]
        have hb := expAccumL_le lim ((takeSign t).2.takeWhile isDigit) (mem_takeWhile_prop isDigit _)
        simp only
        split <;> omega
    · simp only [Option.some.injEq] at h
      rw [← h]; simp; omega

/-- **scale bound**, for every saturation bound: the scale is the exponent contribution plus at most the text length,
    and the digit string is at most `2·|text| + 1` long -/
theorem parseNumbZL_bounds (lim : Nat) (text : Str) (f : NumbFields) (h : parseNumbZL lim text = some f) :
    -((lim * 10 : Nat) : Int) ≤ f.scale ∧ f.scale ≤ ((lim * 10 + text.length : Nat) : Int) ∧
    f.digits.length ≤ 2 * text.length + 1 := by
  unfold parseNumbZL at h
  split at h
  · cases h
  · cases hE : parseExpL lim (afterMant (takeSign text).2) with
    | none => rw [hE] at h; cases h
    | some r =>
      rw [hE] at h
      simp only at h
      cases hS : parseSu r.2 with
      | none => rw [hS] at h; cases h
      | some u =>
        rw [hS] at h
        simp only at h
        split at h
        · cases h
        · simp only [Option.some.injEq] at h
          rw [← h]
          simp only
          have hb := parseExpL_bound lim _ r hE
          have hs := len_takeSign_le text
          have hmb := len_mantB_le (takeSign text).2
          have hmd := len_mantDigits_le (takeSign text).2
          refine ⟨?_, ?_, by omega⟩
          · split <;> omega
          · split <;> omega

/-! ### decimal digits of a natural number -/

theorem decDigitsF_value : ∀ (fuel n : Nat), n < fuel → natOfDigits (decDigitsF fuel n) = n := by
  intro fuel
  induction fuel with
  | zero => intro n h; omega
  | succ f ih =>
    intro n h
    rw [decDigitsF]
    by_cases h10 : n < 10
    · rw [if_pos h10]; simp [natOfDigits]
    · rw [if_neg h10]
      have hlt : n / 10 < f := by omega
      have := ih (n / 10) hlt
      unfold natOfDigits at *
      rw [List.foldl_append, this]
      simp only [List.foldl_cons, List.foldl_nil]
      omega

theorem natOfDigits_decDigits (n : Nat) : natOfDigits (decDigits n) = n :=
  decDigitsF_value (n + 1) n (by omega)

theorem decDigitsF_digits : ∀ (fuel n : Nat), ∀ d ∈ decDigitsF fuel n, d ≤ 9 := by
  intro fuel
  induction fuel with
  | zero => intro n d h; simp [decDigitsF] at h
  | succ f ih =>
    intro n d h
    rw [decDigitsF] at h
    by_cases h10 : n < 10
    · rw [if_pos h10] at h; simp at h; omega
    · rw [if_neg h10] at h
      simp only [List.mem_append, List.mem_singleton] at h
      rcases h with h | h
      · exact ih _ d h
      · omega

/-! ### to_digits / init_numb -/

/-- `|m·2^e|·10^scale` as a fraction of naturals (the quantity `to_digits` rounds) -/
def scaledNum (m : Nat) (e scale : Int) : Nat :=
  if scale ≥ 0 then (ratOfBin m e).1 * pow10 scale.toNat else (ratOfBin m e).1
def scaledDen (m : Nat) (e scale : Int) : Nat :=
  if scale ≥ 0 then (ratOfBin m e).2 else (ratOfBin m e).2 * pow10 (-scale).toNat

/-- the digit string produced by `to_digits`, with the empty string read as zero, denotes the half-even rounding of
    `|d|·10^scale`, and is the canonical numeral whenever that is not zero -/
theorem toDigitsBig_value (m : Nat) (e scale : Int) (hm : m ≠ 0) :
    natOfDigits (toDigitsBig m e scale) = roundHalfEven (scaledNum m e scale) (scaledDen m e scale) ∧
    (roundHalfEven (scaledNum m e scale) (scaledDen m e scale) ≠ 0 →
      toDigitsBig m e scale = decDigits (roundHalfEven (scaledNum m e scale) (scaledDen m e scale))) ∧
    (roundHalfEven (scaledNum m e scale) (scaledDen m e scale) = 0 →
      toDigitsBig m e scale = [0] ∨ toDigitsBig m e scale = []) := by
  unfold toDigitsBig scaledNum scaledDen
  simp only [hm, if_false]
  rw [rhe_eq_spec]
  generalize roundHalfEven _ _ = z
  by_cases hz : z = 0
  · subst hz
    simp only [ne_eq, not_true_eq_false, if_false]
    generalize (if scale ≤ 0 then (34 : Int) - (((-scale).toNat / 9 : Nat) : Int) else 34 + (((scale.toNat + 8) / 9 : Nat) : Int)) = rd
    by_cases hc : rd < limbOfPlace (flog10Rat (ratOfBin m e).fst (ratOfBin m e).snd)
    · rw [if_pos hc]
      exact ⟨by decide, fun h => h.elim, fun _ => Or.inl rfl⟩
    · rw [if_neg hc]
      exact ⟨by decide, fun h => h.elim, fun _ => Or.inr rfl⟩
  · simp only [ne_eq, hz, not_false_eq_true, if_true]
    exact ⟨natOfDigits_decDigits z, fun _ => trivial, fun h => absurd h (by simp)⟩

end CifModel.Lemmas.NumbMisc
