import CifModel.Model.Numb
import CifModel.Spec.Rounding
import CifModel.Lemmas.NumbRound
/-
  Smaller lemmas of C10: the saturating exponent accumulation, decimal digit strings of naturals, to_digits.
-/
namespace CifModel.Lemmas.NumbMisc
open CifModel.Model.Numb CifModel.Spec.Rounding CifModel.Lemmas.NumbRound

/-! ### the exponent digit loop -/

theorem mem_takeWhile_prop (p : Nat → Bool) (l : List Nat) : ∀ c ∈ l.takeWhile p, p c = true := by
  induction l with
  | nil => intro c h; simp at h
  | cons x r ih =>
    intro c h
    rw [List.takeWhile_cons] at h
    by_cases hx : p x = true
    · rw [if_pos hx] at h
      simp only [List.mem_cons] at h
      rcases h with h | h
      · rw [h]; exact hx
      · exact ih c h
    · rw [if_neg hx] at h; simp at h

theorem isDigit_sub (c : Nat) (h : isDigit c = true) : c - UCHAR_0 ≤ 9 := by
  unfold isDigit UCHAR_0 UCHAR_9 at *
  simp at h
  omega

theorem expStep_le (e c : Nat) (he : e ≤ 2147483629) (hc : isDigit c = true) : expStep e c ≤ 2147483629 := by
  unfold expStep expSatLimit
  have := isDigit_sub c hc
  split <;> omega

theorem foldl_expStep_le (ds : Str) (hd : ∀ c ∈ ds, isDigit c = true) :
    ∀ acc, acc ≤ 2147483629 → ds.foldl expStep acc ≤ 2147483629 := by
  induction ds with
  | nil => intro acc h; simpa using h
  | cons c r ih =>
    intro acc h
    simp only [List.foldl_cons]
    exact ih (fun x hx => hd x (by simp [hx])) _ (expStep_le acc c h (hd c (by simp)))

/-- the accumulated exponent never exceeds `2147483629 < INT_MAX`, however many digits follow -/
theorem expAccum_le (ds : Str) (hd : ∀ c ∈ ds, isDigit c = true) : expAccum ds ≤ 2147483629 :=
  foldl_expStep_le ds hd 0 (by decide)

/-- every intermediate value of the accumulation stays below `2^31` too (the C evaluates `exponent * 10 + digit`
    only when `exponent < (INT_MAX/10) - 1`) -/
theorem expStep_operand_lt (e c : Nat) (he : e < expSatLimit) (hc : isDigit c = true) : e * 10 + (c - UCHAR_0) ≤ INT_MAX := by
  have := isDigit_sub c hc
  unfold expSatLimit INT_MAX at *
  omega

/-! ### decimal digits of a natural number -/

theorem decDigitsF_value : ∀ (fuel n : Nat), n < fuel → natOfDigits (decDigitsF fuel n) = n := by
  intro fuel
  induction fuel with
  | zero => intro n h; omega
  | succ f ih =>
    intro n h
    rw [decDigitsF]
    by_cases h10 : n < 10
    · rw [if_pos h10]; simp [natOfDigits]
    · rw [if_neg h10]
      have hlt : n / 10 < f := by omega
      have := ih (n / 10) hlt
      unfold natOfDigits at *
      rw [List.foldl_append, this]
      simp only [List.foldl_cons, List.foldl_nil]
      omega

theorem natOfDigits_decDigits (n : Nat) : natOfDigits (decDigits n) = n :=
  decDigitsF_value (n + 1) n (by omega)

theorem decDigitsF_digits : ∀ (fuel n : Nat), ∀ d ∈ decDigitsF fuel n, d ≤ 9 := by
  intro fuel
  induction fuel with
  | zero => intro n d h; simp [decDigitsF] at h
  | succ f ih =>
    intro n d h
    rw [decDigitsF] at h
    by_cases h10 : n < 10
    · rw [if_pos h10] at h; simp at h; omega
    · rw [if_neg h10] at h
      simp only [List.mem_append, List.mem_singleton] at h
      rcases h with h | h
      · exact ih _ d h
      · omega

/-! ### to_digits / init_numb -/

/-- `|m·2^e|·10^scale` as a fraction of naturals (the quantity `to_digits` rounds) -/
def scaledNum (m : Nat) (e scale : Int) : Nat :=
  if scale ≥ 0 then (ratOfBin m e).1 * pow10 scale.toNat else (ratOfBin m e).1
def scaledDen (m : Nat) (e scale : Int) : Nat :=
  if scale ≥ 0 then (ratOfBin m e).2 else (ratOfBin m e).2 * pow10 (-scale).toNat

/-- the digit string produced by `to_digits`, with the empty string read as zero, denotes the half-even rounding of
    `|d|·10^scale`, and is the canonical numeral whenever that is not zero -/
theorem toDigitsBig_value (m : Nat) (e scale : Int) (hm : m ≠ 0) :
    natOfDigits (toDigitsBig m e scale) = roundHalfEven (scaledNum m e scale) (scaledDen m e scale) ∧
    (roundHalfEven (scaledNum m e scale) (scaledDen m e scale) ≠ 0 →
      toDigitsBig m e scale = decDigits (roundHalfEven (scaledNum m e scale) (scaledDen m e scale))) ∧
    (roundHalfEven (scaledNum m e scale) (scaledDen m e scale) = 0 →
      toDigitsBig m e scale = [0] ∨ toDigitsBig m e scale = []) := by
  unfold toDigitsBig scaledNum scaledDen
  simp only [hm, if_false]
  rw [rhe_eq_spec]
  generalize roundHalfEven _ _ = z
  by_cases hz : z = 0
  · subst hz
    simp only [ne_eq, not_true_eq_false, if_false]
    generalize (if scale ≤ 0 then (34 : Int) - (((-scale).toNat / 9 : Nat) : Int) else 34 + (((scale.toNat + 8) / 9 : Nat) : Int)) = rd
    by_cases hc : rd < limbOfPlace (flog10Rat (ratOfBin m e).fst (ratOfBin m e).snd)
    · rw [if_pos hc]
      exact ⟨by decide, fun h => h.elim, fun _ => Or.inl rfl⟩
    · rw [if_neg hc]
      exact ⟨by decide, fun h => h.elim, fun _ => Or.inr rfl⟩
  · simp only [ne_eq, hz, not_false_eq_true, if_true]
    exact ⟨natOfDigits_decDigits z, fun _ => trivial, fun h => absurd h (by simp)⟩

end CifModel.Lemmas.NumbMisc
