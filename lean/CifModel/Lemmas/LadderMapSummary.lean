import CifModel.Lemmas.LadderMap
import CifModel.Lemmas.LadderSummary
import CifModel.Lemmas.LadderDeserTable
import CifModel.Lemmas.LadderNamesNorm
/-
  CifModel.Lemmas.LadderMapSummary — the map ladders in the form the property theorems of Props/C17Map restate.
-/
namespace CifModel.Lemmas.Ladder
open CifModel.Model.Ladder CifModel.Spec.HeapTrace

theorem failIds_ne_of_bad {k N : Nat} {s s' : St} (h : Bad k N s s') : failIds s'.evs ≠ failIds s.evs := by
  rw [h.2.2.2]; intro hx
  have := congrArg List.length hx
  simp at this

/-- what C17 demands of one regular run of a map operation that starts in state `s` with the blocks `rest` live besides
    the map: nothing lost, the map not corrupt, exactly the blocks of the resulting map (and `rest`) live, CIF_OK or
    CIF_MEMORY_ERROR, CIF_OK exactly when no request of the call failed -/
def MapRunOk (s : St) (rest : List Nat) (r : MapRes × St) : Prop :=
  r.1.corrupt = false ∧ r.1.leaked = [] ∧ (r.1.rc = OK ∨ r.1.rc = MEMORY_ERROR) ∧
  Balanced r.2.evs (r.1.map.ids ++ rest) ∧ (r.1.rc = OK ↔ failIds r.2.evs = failIds s.evs)

theorem MapOk.run {k N : Nat} {s : St} {L : List Nat} {r : MapRes × St} (h : MapOk k N s L r) : MapRunOk s L r := by
  obtain ⟨h1, h2, h3, h4⟩ := h
  rcases h4 with ⟨hr, hg⟩ | ⟨hr, hb⟩
  · exact ⟨h1, h2, .inl hr, h3.1, by rw [hr]; simpa using hg.2.2⟩
  · refine ⟨h1, h2, .inr hr, h3.1, ?_⟩
    rw [hr]
    simpa [OK_ne_MEMORY_ERROR] using failIds_ne_of_bad hb

theorem mapSet_outcome (fixed : Bool) (k : Nat) (kind : MapKind) (m : MapSt) (key keyNorm : Str) (value : Option Shape)
    (s : St) (rest : List Nat) (hb : Balanced s.evs (m.ids ++ rest)) (hc : ∀ i ∈ m.ids ++ rest, i ≤ s.count) :
    Good k (mapSetAllocs kind m key keyNorm value) s (mapSet fixed k kind m key keyNorm value s).2 ∨
    Bad k (mapSetAllocs kind m key keyNorm value) s (mapSet fixed k kind m key keyNorm value s).2 := by
  rcases mapSet_spec fixed k kind m key keyNorm value s rest ⟨hb, hc⟩ with ⟨⟨_, _, _, h⟩, _⟩ | ⟨_, _, h⟩
  · rcases h with ⟨_, g⟩ | ⟨_, b⟩
    · exact .inl g
    · exact .inr b
  · exact .inr h.2.2.2.1

theorem mapSet_fixed_summary (k : Nat) (kind : MapKind) (m : MapSt) (key keyNorm : Str) (value : Option Shape)
    (s : St) (rest : List Nat) (hb : Balanced s.evs (m.ids ++ rest)) (hc : ∀ i ∈ m.ids ++ rest, i ≤ s.count) :
    MapRunOk s rest (mapSet true k kind m key keyNorm value s) := by
  rcases mapSet_spec true k kind m key keyNorm value s rest ⟨hb, hc⟩ with ⟨h, _⟩ | ⟨hf, _⟩
  · exact h.run
  · cases hf

theorem mapSet_pinned_summary (k : Nat) (kind : MapKind) (m : MapSt) (key keyNorm : Str) (value : Option Shape)
    (s : St) (rest : List Nat) (hb : Balanced s.evs (m.ids ++ rest)) (hc : ∀ i ∈ m.ids ++ rest, i ≤ s.count) :
    ((mapSet false k kind m key keyNorm value s).1.corrupt = true ↔
      extract keyNorm m.entries = none ∧ s.count + mapSetPre kind value < k ∧
        k ≤ s.count + mapSetAllocs kind m key keyNorm value) ∧
    ((mapSet false k kind m key keyNorm value s).1.corrupt = true →
      (mapSet false k kind m key keyNorm value s).1.rc = MEMORY_ERROR ∧
      (mapSet false k kind m key keyNorm value s).1.map = m ∧
      failIds (mapSet false k kind m key keyNorm value s).2.evs = failIds s.evs ++ [k] ∧
      Balanced (mapSet false k kind m key keyNorm value s).2.evs
        ((mapSet false k kind m key keyNorm value s).1.leaked ++ (m.ids ++ rest))) ∧
    ((mapSet false k kind m key keyNorm value s).1.corrupt = false →
      MapRunOk s rest (mapSet false k kind m key keyNorm value s)) := by
  rcases mapSet_spec false k kind m key keyNorm value s rest ⟨hb, hc⟩ with ⟨h, hpos⟩ | ⟨_, hx, h⟩
  · have hcf := h.1
    refine ⟨⟨fun ht => (by rw [hcf] at ht; cases ht), fun ⟨hn, h1, h2⟩ => ?_⟩, fun ht => (by rw [hcf] at ht; cases ht),
      fun _ => h.run⟩
    exfalso
    rcases h.2.2.2 with ⟨_, g⟩ | ⟨hr, _⟩
    · exact g.2.1 ⟨by unfold mapSetPre at h1; omega, h2⟩
    · have := hpos hr rfl hn; omega
  · obtain ⟨h1, h2, h3, h4, h5, h6⟩ := h
    refine ⟨⟨fun _ => ⟨hx, h5, h4.2.1⟩, fun _ => h2⟩, fun _ => ⟨h1, h3, h4.2.2.2, h6.1⟩, fun hf => ?_⟩
    rw [h2] at hf; cases hf

theorem mapRemove_outcome (k : Nat) (kind : MapKind) (m : MapSt) (keyNorm : Str) (keep : Bool) (s : St) (rest : List Nat)
    (hb : Balanced s.evs (m.ids ++ rest)) (hc : ∀ i ∈ m.ids ++ rest, i ≤ s.count) :
    Good k (normKeyAllocs kind) s (mapRemove k kind m keyNorm keep s).2 ∨
    Bad k (normKeyAllocs kind) s (mapRemove k kind m keyNorm keep s).2 := by
  rcases (mapRemove_spec k kind m keyNorm keep s rest ⟨hb, hc⟩).2.2.2 with ⟨_, _, b⟩ | ⟨_, g⟩
  · exact .inr b
  · exact .inl g

theorem NOSUCH_ne : NOSUCH_ITEM ≠ MEMORY_ERROR ∧ NOSUCH_ITEM ≠ OK := by decide

theorem mapRemove_summary (k : Nat) (kind : MapKind) (m : MapSt) (keyNorm : Str) (keep : Bool) (s : St) (rest : List Nat)
    (hb : Balanced s.evs (m.ids ++ rest)) (hc : ∀ i ∈ m.ids ++ rest, i ≤ s.count) :
    (mapRemove k kind m keyNorm keep s).1.corrupt = false ∧ (mapRemove k kind m keyNorm keep s).1.leaked = [] ∧
    Balanced (mapRemove k kind m keyNorm keep s).2.evs
      ((mapRemove k kind m keyNorm keep s).1.map.ids ++ ((mapRemove k kind m keyNorm keep s).1.handed ++ rest)) ∧
    ((mapRemove k kind m keyNorm keep s).1.rc = OK ∨ (mapRemove k kind m keyNorm keep s).1.rc = MEMORY_ERROR ∨
      ((mapRemove k kind m keyNorm keep s).1.rc = NOSUCH_ITEM ∧ extract keyNorm m.entries = none)) ∧
    ((mapRemove k kind m keyNorm keep s).1.rc = MEMORY_ERROR ↔
      failIds (mapRemove k kind m keyNorm keep s).2.evs ≠ failIds s.evs) ∧
    ((mapRemove k kind m keyNorm keep s).1.rc ≠ OK → (mapRemove k kind m keyNorm keep s).1.map = m ∧
      (mapRemove k kind m keyNorm keep s).1.handed = []) := by
  have ⟨h1, h2, h3, h4⟩ := mapRemove_spec k kind m keyNorm keep s rest ⟨hb, hc⟩
  have hhand : (mapRemove k kind m keyNorm keep s).1.rc ≠ OK → (mapRemove k kind m keyNorm keep s).1.handed = [] := by
    unfold mapRemove
    split
    · intro _; rfl
    · simp only
      split
      · intro _; rfl
      · split <;> intro hne <;> exact absurd rfl hne
  rcases h4 with ⟨hr, hm, b⟩ | ⟨hr, g⟩
  · refine ⟨h1, h2, h3.1, .inr (.inl hr), ⟨fun _ => failIds_ne_of_bad b, fun _ => hr⟩, fun hne => ⟨hm, hhand hne⟩⟩
  · have hg : failIds (mapRemove k kind m keyNorm keep s).2.evs = failIds s.evs := g.2.2
    rcases hr with hr | ⟨hr, hx, hm⟩
    · refine ⟨h1, h2, h3.1, .inl hr, ⟨fun hme => ?_, fun hne => absurd hg hne⟩, fun hne => absurd hr hne⟩
      rw [hr] at hme; exact absurd hme OK_ne_MEMORY_ERROR.symm
    · refine ⟨h1, h2, h3.1, .inr (.inr ⟨hr, hx⟩), ⟨fun hme => ?_, fun hne => absurd hg hne⟩, fun hne => ⟨hm, hhand hne⟩⟩
      rw [hr] at hme; exact absurd hme NOSUCH_ne.1

-- ---------------------------------------------------------------------------------------------------------------
-- re-entry: sequences of calls on the same map, each with its own (single) fault position

/-- one call on a map: set (repaired cif_map_set_item) or remove, with the fault position of that call -/
inductive MapOp
  | set (failAt : Nat) (key keyNorm : Str) (value : Option Shape)
  | remove (failAt : Nat) (keyNorm : Str) (keep : Bool)

/-- run the calls one after the other on the same map; `handed` collects what removals handed to the caller -/
def runMapOps (kind : MapKind) : List MapOp → MapSt → St → List Nat → MapSt × St × List Nat
  | [], m, s, handed => (m, s, handed)
  | .set k key keyNorm value :: ops, m, s, handed =>
    let r := mapSet true k kind m key keyNorm value s
    runMapOps kind ops r.1.map r.2 handed
  | .remove k keyNorm keep :: ops, m, s, handed =>
    let r := mapRemove k kind m keyNorm keep s
    runMapOps kind ops r.1.map r.2 (r.1.handed ++ handed)

theorem mapSet_fixed_inv (k : Nat) (kind : MapKind) (m : MapSt) (key keyNorm : Str) (value : Option Shape) (s : St)
    (L : List Nat) (h : Inv s (m.ids ++ L)) :
    Inv (mapSet true k kind m key keyNorm value s).2 ((mapSet true k kind m key keyNorm value s).1.map.ids ++ L) := by
  rcases mapSet_spec true k kind m key keyNorm value s L h with ⟨h1, _⟩ | ⟨hf, _⟩
  · exact h1.2.2.1
  · cases hf

/-- the hypotheses of the from-any-state theorems are re-established by every call, faulted or not -/
theorem runMapOps_inv (kind : MapKind) : ∀ (ops : List MapOp) (m : MapSt) (s : St) (handed L : List Nat),
    Inv s (m.ids ++ (handed ++ L)) →
    Inv (runMapOps kind ops m s handed).2.1
      ((runMapOps kind ops m s handed).1.ids ++ ((runMapOps kind ops m s handed).2.2 ++ L))
  | [], m, s, handed, L, h => h
  | .set k key keyNorm value :: ops, m, s, handed, L, h => by
    simp only [runMapOps]
    exact runMapOps_inv kind ops _ _ handed L (mapSet_fixed_inv k kind m key keyNorm value s _ h)
  | .remove k keyNorm keep :: ops, m, s, handed, L, h => by
    simp only [runMapOps]
    have h1 := (mapRemove_spec k kind m keyNorm keep s (handed ++ L) h).2.2.1
    exact runMapOps_inv kind ops _ _ _ L (h1.perm (by perm_ac))

-- ---------------------------------------------------------------------------------------------------------------
-- cif_value_clone of a table

theorem cloneTable_spec (fixed : Bool) (k : Nat) (src : List SrcEntry) (s : St) (L : List Nat) (h : Inv s L) :
    ((cloneTable fixed k src s).1.rc = OK ∧ (cloneTable fixed k src s).1.corrupt = false ∧
        (cloneTable fixed k src s).1.leaked = [] ∧ GoodE k s (cloneTable fixed k src s).2.2 ∧
        (∃ obj, (cloneTable fixed k src s).2.1 = some obj ∧
          Inv (cloneTable fixed k src s).2.2 (obj :: ((cloneTable fixed k src s).1.map.ids ++ L))) ∧
        (cloneTable fixed k src s).1.map.entries.length = src.length) ∨
    ((cloneTable fixed k src s).1.rc = MEMORY_ERROR ∧ (cloneTable fixed k src s).1.corrupt = false ∧
        (cloneTable fixed k src s).1.leaked = [] ∧ BadE k s (cloneTable fixed k src s).2.2 ∧
        (cloneTable fixed k src s).2.1 = none ∧ Inv (cloneTable fixed k src s).2.2 L) ∨
    (fixed = false ∧ (cloneTable fixed k src s).1.rc = MEMORY_ERROR ∧ (cloneTable fixed k src s).1.corrupt = true ∧
        BadE k s (cloneTable fixed k src s).2.2 ∧
        (∃ obj, (cloneTable fixed k src s).2.1 = some obj ∧ Inv (cloneTable fixed k src s).2.2
          (obj :: ((cloneTable fixed k src s).1.leaked ++ ((cloneTable fixed k src s).1.map.ids ++ L))))) := by
  unfold cloneTable
  rcases alloc_cases k s with ⟨hk, ha⟩ | ⟨hk, ha⟩ <;> simp only [ha]
  · right; left
    exact ⟨trivial, trivial, trivial, ⟨1, Bad.alloc hk⟩, trivial, h.fail⟩
  · have g1 := Good.alloc hk
    have i1 := h.alloc
    generalize ({ count := s.count + 1, evs := s.evs ++ [.alloc (s.count + 1)] } : St) = s1 at g1 i1 ⊢
    generalize s.count + 1 = obj at g1 i1 ⊢
    have hh := cloneEntries_spec fixed k src {} s1 (obj :: L) (fun _ => rfl) (by simpa [MapSt.ids, mentriesIds] using i1)
    generalize cloneEntries fixed k src {} s1 = r at hh ⊢
    obtain ⟨r, s2⟩ := r
    rcases hh with ⟨e1, e2, e3, e4, e5, e6⟩ | ⟨e1, e2, e3, e4, e5⟩ | ⟨e0, e1, e2, e4, e5⟩ <;> simp only at e1 e2 e4 e5 ⊢
    · left
      simp only [e1, if_true]
      exact ⟨trivial, e2, e3, g1.goodE e4, ⟨obj, rfl, e5.perm (by perm_ac)⟩, by simpa using e6⟩
    · right; left
      have hne : ¬ r.rc = OK := by rw [e1]; exact OK_ne_MEMORY_ERROR
      simp only [hne, e2, if_false, Bool.false_eq_true]
      exact ⟨e1, trivial, e3, BadE.free _ (g1.badE e4), trivial, e5.free⟩
    · right; right
      have hne : ¬ r.rc = OK := by rw [e1]; exact OK_ne_MEMORY_ERROR
      simp only [hne, e2, if_false, if_true]
      exact ⟨e0, e1, trivial, g1.badE e4, ⟨obj, rfl, e5.perm (by perm_ac)⟩⟩

theorem goodE_init {k : Nat} {s' : St} (h : GoodE k {} s') : NoFail s'.evs := by
  obtain ⟨N, hN⟩ := h; exact (good_init hN).2.2.1

theorem badE_init {k : Nat} {s' : St} (h : BadE k {} s') : ¬ NoFail s'.evs ∧ failIds s'.evs = [k] := by
  obtain ⟨N, hN⟩ := h; exact ⟨(bad_init hN).2.2.1, (bad_init hN).2.2.2.1⟩

/-- what C17 demands of a run of the table clone -/
def TableCloneOk (n : Nat) (r : MapRes × Option Nat × St) : Prop :=
  r.1.corrupt = false ∧ r.1.leaked = [] ∧
  Balanced r.2.2.evs (match r.2.1 with | some obj => obj :: r.1.map.ids | none => []) ∧
  (r.1.rc = OK ∨ r.1.rc = MEMORY_ERROR) ∧ (r.1.rc = OK ↔ r.2.1.isSome) ∧ (r.1.rc = OK ↔ NoFail r.2.2.evs) ∧
  (r.1.rc = OK → r.1.map.entries.length = n)

theorem cloneTable_summary (fixed : Bool) (k : Nat) (src : List SrcEntry) :
    ((cloneTable fixed k src).1.corrupt = true → fixed = false ∧ (cloneTable fixed k src).1.rc = MEMORY_ERROR ∧
      failIds (cloneTable fixed k src).2.2.evs = [k] ∧
      ∃ obj, (cloneTable fixed k src).2.1 = some obj ∧
        Balanced (cloneTable fixed k src).2.2.evs
          (obj :: ((cloneTable fixed k src).1.leaked ++ (cloneTable fixed k src).1.map.ids))) ∧
    ((cloneTable fixed k src).1.corrupt = false → TableCloneOk src.length (cloneTable fixed k src)) := by
  rcases cloneTable_spec fixed k src {} [] Inv.nil with ⟨e1, e2, e3, e4, ⟨obj, e5, e6⟩, e7⟩ | ⟨e1, e2, e3, e4, e5, e6⟩ | ⟨e0, e1, e2, e4, ⟨obj, e5, e6⟩⟩
  · refine ⟨fun ht => (by rw [e2] at ht; cases ht), fun _ => ?_⟩
    unfold TableCloneOk
    rw [e5, e1]
    exact ⟨e2, e3, by simpa using e6.1, .inl rfl, by simp, by simpa using goodE_init e4, fun _ => e7⟩
  · refine ⟨fun ht => (by rw [e2] at ht; cases ht), fun _ => ?_⟩
    unfold TableCloneOk
    rw [e5, e1]
    exact ⟨e2, e3, e6.1, .inr rfl, by simp [OK_ne_MEMORY_ERROR], by simpa [OK_ne_MEMORY_ERROR] using (badE_init e4).1,
      fun hx => absurd hx OK_ne_MEMORY_ERROR⟩
  · refine ⟨fun _ => ⟨e0, e1, (badE_init e4).2, obj, e5, by simpa using e6.1⟩, fun hf => ?_⟩
    rw [e2] at hf; cases hf

-- ---------------------------------------------------------------------------------------------------------------
-- table blobs, names with normalisation

theorem deserTable_summary (k : Nat) (bes : List BlobEntry) :
    Balanced (deserTable k bes).2.2.evs (match (deserTable k bes).2.1 with | some m => m.ids | none => []) ∧
    ((deserTable k bes).1 = OK ∨ (deserTable k bes).1 = MEMORY_ERROR) ∧
    ((deserTable k bes).1 = OK ↔ (deserTable k bes).2.1.isSome) ∧
    ((deserTable k bes).1 = OK ↔ NoFail (deserTable k bes).2.2.evs) ∧
    (∀ m, (deserTable k bes).2.1 = some m → m.entries.length = bes.length) := by
  unfold deserTable
  have hh := deserEntries_spec k bes {} {} [] (fun _ => rfl) (by simpa [MapSt.ids, mentriesIds] using Inv.nil)
  generalize deserEntries k bes {} {} = r at hh ⊢
  obtain ⟨ro, s'⟩ := r
  rcases hh with ⟨m, h1, h2, h3, h4⟩ | ⟨h1, h2, h3⟩ <;> simp only at h1 h2 h3 <;> subst h1 <;> simp only
  · obtain ⟨N, hN⟩ := h2
    have g := good_init hN
    exact ⟨by simpa using h3.1, .inl trivial, by simp, by simpa using g.2.2.1, fun m' hm => by cases hm; simpa using h4⟩
  · obtain ⟨N, hN⟩ := h2
    have b := bad_init hN
    exact ⟨h3.1, .inr trivial, by simp [OK_ne_MEMORY_ERROR], by simpa [OK_ne_MEMORY_ERROR] using b.2.2.1, fun m' hm => by cases hm⟩

theorem namesNorm_outcome (k n : Nat) :
    Good k (namesNormAllocs n) {} (getNamesNorm k n).2.2 ∨ Bad k (namesNormAllocs n) {} (getNamesNorm k n).2.2 := by
  rcases getNamesNorm_spec k n {} [] Inv.nil with h | h
  · exact .inl h.2.1
  · exact .inr h.2.2.1

theorem namesNorm_summary (k n : Nat) :
    Balanced (getNamesNorm k n).2.2.evs (getNamesNorm k n).2.1 ∧
    ((getNamesNorm k n).1 = OK ∨ (getNamesNorm k n).1 = MEMORY_ERROR ∨ (n = 0 ∧ (getNamesNorm k n).1 = INVALID_HANDLE)) ∧
    ((getNamesNorm k n).1 ≠ OK → (getNamesNorm k n).2.1 = []) ∧
    (0 < n → ((getNamesNorm k n).1 = OK ↔ NoFail (getNamesNorm k n).2.2.evs)) ∧
    ((getNamesNorm k n).1 = OK → (getNamesNorm k n).2.1.length = n + 1) := by
  rcases getNamesNorm_spec k n {} [] Inv.nil with ⟨h1, h2, h3, h4⟩ | ⟨h1, h2, h3, h4⟩
  · have g := good_init h2
    by_cases hn : n = 0
    · rw [if_pos hn] at h1
      have hne : (getNamesNorm k n).1 ≠ OK := by rw [h1]; exact INVALID_HANDLE_ne_OK
      have hlen : (getNamesNorm k n).2.1 = [] := by
        apply List.eq_nil_of_length_eq_zero; rw [h3, hn]; rfl
      exact ⟨by simpa using h4.1, .inr (.inr ⟨hn, h1⟩), fun _ => hlen, fun h => absurd hn (by omega), fun h => absurd h hne⟩
    · rw [if_neg hn] at h1
      refine ⟨by simpa using h4.1, .inl h1, fun h => absurd h1 h, fun _ => ⟨fun _ => g.2.2.1, fun _ => h1⟩, ?_⟩
      intro _; rw [h3]; unfold namesNormAllocs; simp [hn]; omega
  · have b := bad_init h3
    have hne : (getNamesNorm k n).1 ≠ OK := by rw [h1]; exact OK_ne_MEMORY_ERROR
    exact ⟨by rw [h2]; exact h4.1, .inr (.inl h1), fun _ => h2, fun _ => ⟨fun h => absurd h hne, fun h => absurd h b.2.2.1⟩,
      fun h => absurd h hne⟩

end CifModel.Lemmas.Ladder
