import CifModel.Lemmas.LexDefectChar
/-
  Lemmas/LexDefectMulti (group gW) — SEVERAL defective places in ONE token, and an unpaired LEAD surrogate anywhere.

  An event `Ev` is a place where the scanner reports while it goes on inside the token: it consumes the units `inp`, puts `out` into
  the token text, advances the column by `adv` and logs `reps line col` (`col` = the column in front of the place).  Two kinds:
    * `Ev.of1`   one defective unit (`Defect1`: a character outside the dialect's set / an unpaired trail surrogate);
    * `Ev.lead`  (CIF 2.0) an unpaired lead surrogate `l` followed by an ordinary character `x` (allowed, no surrogate): noticed when
                 `x` is scanned — ONE CIF_INVALID_CHAR at the column behind `x`, `l` replaced by U+FFFD (HANDLE_UNPAIRED_LEAD), `x` kept.
  A token body is then `s₀ e₁ s₁ e₂ … eₙ sₙ` with admissible runs `sᵢ` (`Body`).  `multi`: every scan function that crosses
  admissible runs (`…_prefix`) and events one at a time crosses the whole body; the reports are those of all events, each at its
  own column, in order.  Instantiated for data names (scan_to_ws), comments (scan_to_eol), quoted strings (scan_delim_string,
  CIF 2.0) and whitespace-delimited values (scan_unquoted, with its keyword state: `multiS`): `multi_name`, `multi_comment`,
  `multi_quoted`, `multi_bare`.
-/
namespace CifModel.Model.Lexer
open CifModel CifModel.Model CifModel.Model.Chars CifModel.Model.Parser CifModel.Spec.Lexical
open CifModel.Gen.ErrCodes

variable {dia : Dialect}

/-- a place inside a token at which the scanner reports and goes on -/
structure Ev where
  inp : Str
  out : Str
  adv : Nat
  reps : Nat → Nat → List Report

/-- one defective unit -/
def Ev.of1 (c c' : Nat) (reps : Nat → Nat → List Report) : Ev := ⟨[c], [c'], 1, fun line col => reps line (col + 1)⟩

/-- an unpaired lead surrogate followed by an ordinary character (CIF 2.0) -/
def Ev.lead (l x : Nat) : Ev := ⟨[l, x], [0xFFFD, x], 2, fun line col => [⟨CIF_INVALID_CHAR, line, col + 2⟩]⟩

/-- a token body: admissible runs with events between them; the last run is given separately -/
abbrev Body := List (Str × Ev)

def Body.inp : Body → Str
  | [] => []
  | (s, e) :: r => s ++ (e.inp ++ Body.inp r)

def Body.out : Body → Str
  | [] => []
  | (s, e) :: r => s ++ (e.out ++ Body.out r)

def Body.col (col : Nat) : Body → Nat
  | [] => col
  | (s, e) :: r => Body.col (col + colAdd s + e.adv) r

/-- the reports of the body, newest first -/
def Body.reps (line col : Nat) : Body → List Report
  | [] => []
  | (s, e) :: r => Body.reps line (col + colAdd s + e.adv) r ++ e.reps line (col + colAdd s)

/-- a scan function `F input column accumulated first-flag log` crosses admissible runs and events ⇒ it crosses a body -/
theorem multi {β : Type} (F : Str → Nat → Str → Bool → List Report → β) (clean : Str → Prop) (okEv : Ev → Prop) (line : Nat)
    (hpre : ∀ (s R : Str) (col : Nat) (acc : Str) (b : Bool) (log : List Report), clean s →
      F (s ++ R) col acc b log = F R (col + colAdd s) (s.reverse ++ acc) (b && s.isEmpty) log)
    (hev : ∀ (e : Ev) (R : Str) (col : Nat) (acc : Str) (b : Bool) (log : List Report), okEv e →
      F (e.inp ++ R) col acc b log = F R (col + e.adv) (e.out.reverse ++ acc) false (e.reps line col ++ log)) :
    ∀ (body : Body) (R : Str) (col : Nat) (acc : Str) (b : Bool) (log : List Report),
      (∀ p ∈ body, clean p.1 ∧ okEv p.2) →
      F (body.inp ++ R) col acc b log
        = F R (body.col col) (body.out.reverse ++ acc) (b && body.isEmpty) (body.reps line col ++ log)
  | [], R, col, acc, b, log, _ => by simp [Body.inp, Body.out, Body.col, Body.reps]
  | (s, e) :: r, R, col, acc, b, log, h => by
    have h1 := h (s, e) List.mem_cons_self
    have ih := multi F clean okEv line hpre hev r R (col + colAdd s + e.adv) (e.out.reverse ++ (s.reverse ++ acc)) false
      (e.reps line (col + colAdd s) ++ log) (fun p hp => h p (List.mem_cons_of_mem _ hp))
    simp only [Body.inp, List.append_assoc]
    rw [hpre s _ col acc b log h1.1, hev e _ _ _ _ log h1.2, ih]
    simp [Body.out, Body.col, Body.reps, List.append_assoc]

/-! ### the events at each scan function -/

/-- an ordinary character behind a lead surrogate: allowed, no surrogate itself -/
def plainUnit (x : Nat) : Prop := isTrail x = false ∧ isLead x = false ∧ disallowedBmp .cif2 x = false

theorem lead_then_plain (l x : Nat) (hl : isLeadU l = true) (hx : plainUnit x) (line col : Nat) (acc : Str) (log : List Report) :
    scanUChar .cif2 line col (acc.headD 0) l false acceptAll log = .ok ⟨l, false, col + 1, true⟩ log
    ∧ scanUChar .cif2 line (col + 1) ((l :: acc).headD 0) x true acceptAll log
        = .ok ⟨x, true, col + 1 + 1, false⟩ (⟨CIF_INVALID_CHAR, line, col + 1 + 1⟩ :: log) := by
  refine ⟨scanUChar_lead l hl line col _ acceptAll log, ?_⟩
  obtain ⟨h1, h2, h3⟩ := hx
  simp [scanUChar, h1, h2, h3, L.bind, report_accept]

theorem lead_cls (l : Nat) (hl : isLeadU l = true) : classOf .cif2 l = .general := (lead_facts l hl).2.2.2

/-- scan_to_ws -/
def EvToWs (dia : Dialect) (line : Nat) (e : Ev) : Prop :=
  ∀ (R : Str) (col : Nat) (acc : Str) (log : List Report),
    scanToWs dia (e.inp ++ R) line col false acc acceptAll log
      = scanToWs dia R line (col + e.adv) false (e.out.reverse ++ acc) acceptAll (e.reps line col ++ log)

theorem EvToWs.of1 {c c' : Nat} {reps : Nat → Nat → List Report} (hD : Defect1 dia c c' reps) (line : Nat) :
    EvToWs dia line (Ev.of1 c c' reps) := by
  intro R col acc log
  simpa [Ev.of1] using hD.toWs_step R line col acc log

theorem EvToWs.lead (l x : Nat) (hl : isLeadU l = true) (hx : plainUnit x) (hws : metaOf .cif2 x ≠ .ws) (line : Nat) :
    EvToWs .cif2 line (Ev.lead l x) := by
  intro R col acc log
  obtain ⟨e1, e2⟩ := lead_then_plain l x hl hx line col acc log
  have hlw : ¬ metaOf .cif2 l = .ws := by simp only [metaOf, lead_cls l hl]; decide
  simp only [Ev.lead, List.cons_append, List.nil_append]
  conv => lhs; simp only [scanToWs, bind_eq, pure_eq]
  rw [L.bind_ok e1]
  simp only [fixAcc_false, hlw, if_false]
  conv => lhs; simp only [scanToWs, bind_eq, pure_eq]
  rw [L.bind_ok e2]
  simp [fixAcc, replChar, hws]

/-- scan_to_eol -/
def EvToEol (dia : Dialect) (line : Nat) (e : Ev) : Prop :=
  ∀ (R : Str) (col : Nat) (acc : Str) (log : List Report),
    scanToEol dia (e.inp ++ R) line col false acc acceptAll log
      = scanToEol dia R line (col + e.adv) false (e.out.reverse ++ acc) acceptAll (e.reps line col ++ log)

theorem EvToEol.of1 {c c' : Nat} {reps : Nat → Nat → List Report} (hD : Defect1 dia c c' reps) (line : Nat) :
    EvToEol dia line (Ev.of1 c c' reps) := by
  intro R col acc log
  simpa [Ev.of1] using hD.toEol_step R line col acc log

theorem EvToEol.lead (l x : Nat) (hl : isLeadU l = true) (hx : plainUnit x) (heol : classOf .cif2 x ≠ .eol) (line : Nat) :
    EvToEol .cif2 line (Ev.lead l x) := by
  intro R col acc log
  obtain ⟨e1, e2⟩ := lead_then_plain l x hl hx line col acc log
  have hlw : ¬ classOf .cif2 l = .eol := by rw [lead_cls l hl]; decide
  simp only [Ev.lead, List.cons_append, List.nil_append]
  conv => lhs; simp only [scanToEol, bind_eq, pure_eq]
  rw [L.bind_ok e1]
  simp only [fixAcc_false, hlw, if_false]
  conv => lhs; simp only [scanToEol, bind_eq, pure_eq]
  rw [L.bind_ok e2]
  simp [fixAcc, replChar, heol]

/-- scan_delim_string (the `first` flag — "an immediately following delimiter opens a triple-quoted string" — is cleared by any unit) -/
def EvDelim (dia : Dialect) (q line : Nat) (e : Ev) : Prop :=
  ∀ (R : Str) (col : Nat) (acc : Str) (first : Bool) (log : List Report),
    scanDelim dia q (e.inp ++ R) line col false acc first acceptAll log
      = scanDelim dia q R line (col + e.adv) false (e.out.reverse ++ acc) false acceptAll (e.reps line col ++ log)

theorem EvDelim.of1 {c c' : Nat} {reps : Nat → Nat → List Report} (hD : Defect1 dia c c' reps) (q : Nat) (hq : q = 34 ∨ q = 39)
    (line : Nat) : EvDelim dia q line (Ev.of1 c c' reps) := by
  intro R col acc first log
  simpa [Ev.of1] using hD.delim_step q (quote_class dia q hq) R line col acc first log

theorem EvDelim.lead (l x : Nat) (hl : isLeadU l = true) (hx : plainUnit x) (q : Nat) (hq : q = 34 ∨ q = 39) (hxq : x ≠ q)
    (heol : classOf .cif2 x ≠ .eol) (line : Nat) : EvDelim .cif2 q line (Ev.lead l x) := by
  intro R col acc first log
  obtain ⟨e1, e2⟩ := lead_then_plain l x hl hx line col acc log
  have hlw : ¬ classOf .cif2 l = .eol := by rw [lead_cls l hl]; decide
  have hlq : ¬ l = q := by simp [isLeadU] at hl; rcases hq with h | h <;> omega_cu
  simp only [Ev.lead, List.cons_append, List.nil_append]
  conv => lhs; simp only [scanDelim, bind_eq, pure_eq]
  rw [L.bind_ok e1]
  simp only [fixAcc_false, hlw, hlq, if_false]
  conv => lhs; simp only [scanDelim, bind_eq, pure_eq]
  rw [L.bind_ok e2]
  simp [fixAcc, replChar, heol, hxq]

/-! ### whole tokens -/

/-- **a data name with any number of defective places**: `_ s₀ e₁ s₁ … eₙ sₙ` up to whitespace or the end of the input.  The token
    is NAME with the text in which every event has put its output; the reports are those of the events, each at its column -/
theorem multi_name (body : Body) (sN ctx : Str) (line col : Nat) (log : List Report)
    (hb : ∀ p ∈ body, nonBlankOk dia p.1 = true ∧ EvToWs dia line p.2) (hN : nonBlankOk dia sN = true) (hctx : wsOrEnd ctx = true) :
    stepTok dia true 95 (body.inp ++ (sN ++ ctx)) line col acceptAll log
      = .ok (.tok ⟨.name, 95 :: (body.out ++ sN), line, body.col (col + 1) + colAdd sN⟩ ⟨ctx, line, body.col (col + 1) + colAdd sN⟩)
          (body.reps line (col + 1) ++ log) := by
  simp only [nonBlankOk, Bool.and_eq_true] at hN
  have hcls : classOf dia 95 = .undersc := by cases dia <;> decide
  have hm := multi (fun inp c acc (_ : Bool) lg => scanToWs dia inp line c false acc acceptAll lg)
    (fun s => nonBlankOk dia s = true) (EvToWs dia line) line
    (fun s R c acc _ lg hs => by
      simp only [nonBlankOk, Bool.and_eq_true] at hs
      have := scanToWs_prefix dia R line acceptAll lg s none acc c hs.1 trivial hs.2
      simpa using this)
    (fun e R c acc _ lg he => he R c acc lg)
    body (sN ++ ctx) (col + 1) [95] true log hb
  have hscan : scanToWs dia (body.inp ++ (sN ++ ctx)) line (col + 1) false [95] acceptAll log
      = .ok ⟨(95 :: (body.out ++ sN)).reverse, ⟨ctx, line, body.col (col + 1) + colAdd sN⟩⟩ (body.reps line (col + 1) ++ log) := by
    rw [hm]
    have := scanToWs_ok dia ctx (wsOrEnd_iff hctx) line acceptAll (body.reps line (col + 1) ++ log) sN none
      (body.out.reverse ++ [95]) (body.col (col + 1)) hN.1 trivial hN.2
    simp only [Option.isSome_none] at this
    rw [this]
    simp
  unfold stepTok
  simp only [bind_eq]
  simp only [pure_eq]
  have : (metaOfCls (classOf dia 95) != Meta.close && metaOfCls (classOf dia 95) != Meta.ws && !true) = false := by simp
  rw [this, reportIf_false, L.pure_bind]
  rw [if_neg (by rw [hcls]; decide), if_neg (by rw [hcls]; decide), if_neg (by rw [hcls]; decide), if_pos hcls]
  rw [L.bind_ok hscan]
  simp [mkTok]

/-- **a comment with any number of defective places**, up to its line terminator: no token, the reports of the events, the token
    loop continues at the terminator as behind the clean comment -/
theorem multi_comment (body : Body) (sN R : Str) (line col f : Nat) (log : List Report)
    (hb : ∀ p ∈ body, (okUnits dia none p.1 = true ∧ p.1.all (fun x => !isEol x) = true) ∧ EvToEol dia line p.2)
    (hN : okUnits dia none sN = true) (hNe : sN.all (fun x => !isEol x) = true) :
    tokLoop dia (f + 1) true ⟨35 :: (body.inp ++ (sN ++ 10 :: R)), line, col⟩ acceptAll log
      = tokLoop dia f true ⟨10 :: R, line, body.col (col + 1) + colAdd sN⟩ acceptAll (body.reps line (col + 1) ++ log) := by
  have hcls : classOf dia 35 = .hash := by cases dia <;> decide
  have hm := multi (fun inp c acc (_ : Bool) lg => scanToEol dia inp line c false acc acceptAll lg)
    (fun s => okUnits dia none s = true ∧ s.all (fun x => !isEol x) = true) (EvToEol dia line) line
    (fun s R c acc _ lg hs => by
      have := scanToEol_prefix dia R line acceptAll lg s none acc c hs.1 trivial hs.2
      simpa using this)
    (fun e R c acc _ lg he => he R c acc lg)
    body (sN ++ 10 :: R) (col + 1) [35] true log hb
  have hscan : scanToEol dia (body.inp ++ (sN ++ 10 :: R)) line (col + 1) false [35] acceptAll log
      = .ok ⟨sN.reverse ++ (body.out.reverse ++ [35]), ⟨10 :: R, line, body.col (col + 1) + colAdd sN⟩⟩
          (body.reps line (col + 1) ++ log) := by
    rw [hm]
    have := scanToEol_ok dia R line acceptAll (body.reps line (col + 1) ++ log) sN none
      (body.out.reverse ++ [35]) (body.col (col + 1)) hN trivial hNe
    simp only [Option.isSome_none] at this
    rw [this]
  rw [tokLoop_cons]
  have hstep : stepTok dia true 35 (body.inp ++ (sN ++ 10 :: R)) line col acceptAll log
      = .ok (.skip true ⟨10 :: R, line, body.col (col + 1) + colAdd sN⟩) (body.reps line (col + 1) ++ log) := by
    unfold stepTok
    simp only [bind_eq]
    simp only [pure_eq]
    have : (metaOfCls (classOf dia 35) != Meta.close && metaOfCls (classOf dia 35) != Meta.ws && !true) = false := by simp
    rw [this, reportIf_false, L.pure_bind]
    rw [if_neg (by rw [hcls]; decide), if_neg (by rw [hcls]; decide), if_pos hcls]
    rw [L.bind_ok hscan]
    rfl
  rw [L.bind_ok hstep]

/-- **a comment that ends at the END OF THE INPUT** (no line terminator), with any number of defective places: the reports of the
    events, then the END token behind the comment -/
theorem multi_comment_eof (body : Body) (sN : Str) (line col f : Nat) (log : List Report)
    (hb : ∀ p ∈ body, (okUnits dia none p.1 = true ∧ p.1.all (fun x => !isEol x) = true) ∧ EvToEol dia line p.2)
    (hN : okUnits dia none sN = true) (hNe : sN.all (fun x => !isEol x) = true) :
    tokLoop dia (f + 2) true ⟨35 :: (body.inp ++ sN), line, col⟩ acceptAll log
      = .ok (⟨.end_, [], line, body.col (col + 1) + colAdd sN⟩, ⟨[], line, body.col (col + 1) + colAdd sN⟩)
          (body.reps line (col + 1) ++ log) := by
  have hcls : classOf dia 35 = .hash := by cases dia <;> decide
  have hm := multi (fun inp c acc (_ : Bool) lg => scanToEol dia inp line c false acc acceptAll lg)
    (fun s => okUnits dia none s = true ∧ s.all (fun x => !isEol x) = true) (EvToEol dia line) line
    (fun s R c acc _ lg hs => by
      have := scanToEol_prefix dia R line acceptAll lg s none acc c hs.1 trivial hs.2
      simpa using this)
    (fun e R c acc _ lg he => he R c acc lg)
    body (sN ++ []) (col + 1) [35] true log hb
  have hscan : scanToEol dia (body.inp ++ sN) line (col + 1) false [35] acceptAll log
      = .ok ⟨sN.reverse ++ (body.out.reverse ++ [35]), ⟨[], line, body.col (col + 1) + colAdd sN⟩⟩
          (body.reps line (col + 1) ++ log) := by
    have e : body.inp ++ sN = body.inp ++ (sN ++ []) := by simp
    rw [e, hm]
    have := scanToEol_prefix dia [] line acceptAll (body.reps line (col + 1) ++ log) sN none
      (body.out.reverse ++ [35]) (body.col (col + 1)) hN trivial hNe
    simp only [Option.isSome_none] at this
    rw [this]
    simp [scanToEol, leadAtEof, reportIf, fixAcc, L.bind, L.pure]
  rw [tokLoop_cons]
  have hstep : stepTok dia true 35 (body.inp ++ sN) line col acceptAll log
      = .ok (.skip true ⟨[], line, body.col (col + 1) + colAdd sN⟩) (body.reps line (col + 1) ++ log) := by
    unfold stepTok
    simp only [bind_eq]
    simp only [pure_eq]
    have : (metaOfCls (classOf dia 35) != Meta.close && metaOfCls (classOf dia 35) != Meta.ws && !true) = false := by simp
    rw [this, reportIf_false, L.pure_bind]
    rw [if_neg (by rw [hcls]; decide), if_neg (by rw [hcls]; decide), if_pos hcls]
    rw [L.bind_ok hscan]
    rfl
  rw [L.bind_ok hstep]
  exact tokLoop_nil dia f true line _ acceptAll _

/-- **a quoted string (CIF 2.0) with any number of defective places** -/
theorem multi_quoted (q : Nat) (hq : q = 34 ∨ q = 39) (body : Body) (sN ctx : Str) (line col : Nat) (log : List Report)
    (hb : ∀ p ∈ body, (okUnits .cif2 none p.1 = true ∧ p.1.all (fun x => !isEol x) = true ∧ p.1.all (fun x => x != q) = true)
      ∧ EvDelim .cif2 q line p.2)
    (hne : body ≠ []) (hN : quotedOk .cif2 q sN = true) (hctx : followOk .cif2 ctx = true) :
    stepTok .cif2 true q (body.inp ++ (sN ++ q :: ctx)) line col acceptAll log
      = .ok (.tok ⟨.qvalue, body.out ++ sN, line, body.col (col + 1) + colAdd sN + 1⟩ ⟨ctx, line, body.col (col + 1) + colAdd sN + 1⟩)
          (body.reps line (col + 1) ++ log) := by
  simp only [quotedOk, Bool.and_eq_true] at hN
  obtain ⟨⟨hNo, hNe⟩, hNq⟩ := hN
  have hcolon : ∀ d r, ctx = d :: r → ¬ d = colon := by
    intro d r h
    subst h
    simp only [followOk, isWs, isBlank, isEol, Bool.or_eq_true, beq_iff_eq, Bool.and_eq_true] at hctx
    simp only [colon]; omega_cu
  have hm := multi (fun inp c acc b lg => scanDelim .cif2 q inp line c false acc b acceptAll lg)
    (fun s => okUnits .cif2 none s = true ∧ s.all (fun x => !isEol x) = true ∧ s.all (fun x => x != q) = true)
    (EvDelim .cif2 q line) line
    (fun s R c acc b lg hs => by
      have := scanDelim_prefix .cif2 q R line acceptAll lg s none acc c b hs.1 trivial hs.2.1 hs.2.2
      simpa using this)
    (fun e R c acc b lg he => he R c acc b lg)
    body (sN ++ q :: ctx) (col + 1) [] true log hb
  have hflag : (true && body.isEmpty) = false := by
    cases body with
    | nil => exact absurd rfl hne
    | cons _ _ => rfl
  have hscan : scanDelim .cif2 q (body.inp ++ (sN ++ q :: ctx)) line (col + 1) false [] true acceptAll log
      = .ok ⟨(body.out ++ sN).reverse, ⟨ctx, line, body.col (col + 1) + colAdd sN + 1⟩⟩ (body.reps line (col + 1) ++ log) := by
    rw [hm, hflag]
    have := scanDelim_cif2 q hq ctx line acceptAll (body.reps line (col + 1) ++ log) sN none (body.out.reverse ++ [])
      (body.col (col + 1)) false hNo trivial hNe hNq (fun h => by cases h)
    simp only [Option.isSome_none] at this
    rw [this]
    simp
  rw [quote_dispatch .cif2 q hq, L.bind_ok hscan]
  cases ctx with
  | nil => simp [keyPeek, mkTok]
  | cons d r => simp [keyPeek, mkTok, hcolon d r rfl]

/-! ### whitespace-delimited values: scan_unquoted carries the `data_` / `save_` keyword state along -/

/-- `multi` for a scan function with further state that the runs and events may change -/
theorem multiS {β σ : Type} (F : Str → Nat → Str → σ → List Report → β) (clean : Str → Prop) (okEv : Ev → Prop) (line : Nat)
    (hpre : ∀ (s R : Str) (col : Nat) (acc : Str) (st : σ) (log : List Report), clean s →
      ∃ st', F (s ++ R) col acc st log = F R (col + colAdd s) (s.reverse ++ acc) st' log)
    (hev : ∀ (e : Ev) (R : Str) (col : Nat) (acc : Str) (st : σ) (log : List Report), okEv e →
      ∃ st', F (e.inp ++ R) col acc st log = F R (col + e.adv) (e.out.reverse ++ acc) st' (e.reps line col ++ log)) :
    ∀ (body : Body) (R : Str) (col : Nat) (acc : Str) (st : σ) (log : List Report),
      (∀ p ∈ body, clean p.1 ∧ okEv p.2) →
      ∃ st', F (body.inp ++ R) col acc st log = F R (body.col col) (body.out.reverse ++ acc) st' (body.reps line col ++ log)
  | [], R, col, acc, st, log, _ => ⟨st, by simp [Body.inp, Body.out, Body.col, Body.reps]⟩
  | (s, e) :: r, R, col, acc, st, log, h => by
    have h1 := h (s, e) List.mem_cons_self
    obtain ⟨st1, e1⟩ := hpre s (e.inp ++ (Body.inp r ++ R)) col acc st log h1.1
    obtain ⟨st2, e2⟩ := hev e (Body.inp r ++ R) (col + colAdd s) (s.reverse ++ acc) st1 log h1.2
    obtain ⟨st3, e3⟩ := multiS F clean okEv line hpre hev r R (col + colAdd s + e.adv) (e.out.reverse ++ (s.reverse ++ acc)) st2
      (e.reps line (col + colAdd s) ++ log) (fun p hp => h p (List.mem_cons_of_mem _ hp))
    refine ⟨st3, ?_⟩
    simp only [Body.inp, List.append_assoc]
    rw [e1, e2, e3]
    simp [Body.out, Body.col, Body.reps, List.append_assoc]

/-- scan_unquoted -/
def EvUnq (dia : Dialect) (line : Nat) (e : Ev) : Prop :=
  ∀ (R : Str) (col : Nat) (acc : Str) (k : Nat) (kd ks : Bool) (log : List Report),
    ∃ k' kd' ks', scanUnquoted dia (e.inp ++ R) line col false acc k kd ks acceptAll log
      = scanUnquoted dia R line (col + e.adv) false (e.out.reverse ++ acc) k' kd' ks' acceptAll (e.reps line col ++ log)

theorem EvUnq.of1 {c c' : Nat} {reps : Nat → Nat → List Report} (hD : Defect1 dia c c' reps) (line : Nat) :
    EvUnq dia line (Ev.of1 c c' reps) := by
  intro R col acc k kd ks log
  obtain ⟨kd', ks', h⟩ := hD.unquoted_step R line col acc k kd ks log
  exact ⟨k + 1, kd', ks', by simpa [Ev.of1] using h⟩

theorem EvUnq.lead (l x : Nat) (hl : isLeadU l = true) (hx : plainUnit x) (hg : metaOfCls (classOf .cif2 x) = .general) (line : Nat) :
    EvUnq .cif2 line (Ev.lead l x) := by
  intro R col acc k kd ks log
  obtain ⟨e1, e2⟩ := lead_then_plain l x hl hx line col acc log
  have hlg : metaOfCls (classOf .cif2 l) = .general := by rw [lead_cls l hl]; rfl
  refine ⟨k + 1 + 1,
    (if k + 1 < 5 then (if k < 5 then kd && (classOf .cif2 l == dataCls k) else kd) && (classOf .cif2 x == dataCls (k + 1))
      else (if k < 5 then kd && (classOf .cif2 l == dataCls k) else kd)),
    (if k + 1 < 5 then (if k < 5 then ks && (classOf .cif2 l == saveCls k) else ks) && (classOf .cif2 x == saveCls (k + 1))
      else (if k < 5 then ks && (classOf .cif2 l == saveCls k) else ks)), ?_⟩
  simp only [Ev.lead, List.cons_append, List.nil_append]
  conv => lhs; simp only [scanUnquoted, bind_eq, pure_eq]
  rw [L.bind_ok e1]
  simp only [fixAcc_false, hlg]
  conv => lhs; simp only [scanUnquoted, bind_eq, pure_eq]
  rw [L.bind_ok e2]
  simp only [hg]
  simp [fixAcc, replChar]

/-- **a whitespace-delimited value with any number of defective places**: the input `s₀ e₁ s₁ … eₙ sₙ` (first unit `f`: one that
    starts an unquoted token at this column) up to whitespace or the end of the input; the text put together from the runs and the
    outputs of the events is not a reserved word -/
theorem multi_bare (body : Body) (sN ctx : Str) (f : Nat) (r : Str) (line col : Nat) (log : List Report)
    (hb : ∀ p ∈ body, (nonBlankOk dia p.1 = true ∧
        (dia = .cif2 → p.1.all (fun x => !(x == 91 || x == 93 || x == 123 || x == 125)) = true)) ∧ EvUnq dia line p.2)
    (hN : nonBlankOk dia sN = true) (hNb : dia = .cif2 → sN.all (fun x => !(x == 91 || x == 93 || x == 123 || x == 125)) = true)
    (hin : body.inp ++ (sN ++ ctx) = f :: r) (hstart : bareStart dia f col = true)
    (hres : isReservedWord (body.out ++ sN) = false) (hctx : wsOrEnd ctx = true) :
    stepTok dia true f r line col acceptAll log
      = .ok (.tok ⟨.value, body.out ++ sN, line, body.col col + colAdd sN⟩ ⟨ctx, line, body.col col + colAdd sN⟩)
          (body.reps line col ++ log) := by
  simp only [nonBlankOk, Bool.and_eq_true] at hN
  obtain ⟨⟨k', kd', ks'⟩, hm⟩ := multiS
    (fun inp c acc (st : Nat × Bool × Bool) lg => scanUnquoted dia inp line c false acc st.1 st.2.1 st.2.2 acceptAll lg)
    (fun s => nonBlankOk dia s = true ∧ (dia = .cif2 → s.all (fun x => !(x == 91 || x == 93 || x == 123 || x == 125)) = true))
    (EvUnq dia line) line
    (fun s R c acc st lg hs => by
      have h1 := hs.1
      simp only [nonBlankOk, Bool.and_eq_true] at h1
      have := scanUnquoted_prefix dia R line acceptAll lg s none acc c st.1 st.2.1 st.2.2 h1.1 trivial h1.2 hs.2
      exact ⟨(_, _, _), by simpa using this⟩)
    (fun e R c acc st lg he => by
      obtain ⟨k1, kd1, ks1, h⟩ := he R c acc st.1 st.2.1 st.2.2 lg
      exact ⟨(k1, kd1, ks1), h⟩)
    body (sN ++ ctx) col [] (0, true, true) log hb
  have hscan : scanUnquoted dia (f :: r) line col false [] 0 true true acceptAll log
      = .ok ⟨(body.out ++ sN).reverse, ⟨ctx, line, body.col col + colAdd sN⟩⟩ (body.reps line col ++ log) := by
    rw [← hin]
    simp only at hm
    rw [hm]
    have := scanUnquoted_ok dia ctx (wsOrEnd_iff hctx) line acceptAll (body.reps line col ++ log) sN none (body.out.reverse ++ [])
      (body.col col) k' kd' ks' hN.1 trivial hN.2 hNb
    simp only [Option.isSome_none] at this
    rw [this]
    simp
  have hcv := classify_value dia (body.out ++ sN) hres
  rw [unquoted_dispatch dia f r line col hstart, L.bind_ok hscan]
  simp [finishUnquoted, hcv, mkTok]

/-! ### text fields: the position changes line inside the token -/

/-- scan_text (any state of its begin-of-line automaton in front; not at the beginning of a line behind) -/
def EvText (dia : Dialect) (e : Ev) : Prop :=
  (∀ (R : Str) (line col : Nat) (acc : Str) (sol : Nat) (log : List Report),
    scanText dia (e.inp ++ R) line col false acc sol acceptAll log
      = scanText dia R line (col + e.adv) false (e.out.reverse ++ acc) 0 acceptAll (e.reps line col ++ log))
  ∧ e.out ≠ [] ∧ e.out.getLast? ≠ some 13

theorem EvText.of1 {c c' : Nat} {reps : Nat → Nat → List Report} (hD : Defect1 dia c c' reps) : EvText dia (Ev.of1 c c' reps) := by
  refine ⟨?_, by simp [Ev.of1], by simp [Ev.of1, hD.ne13]⟩
  intro R line col acc sol log
  simpa [Ev.of1] using hD.text_step R line col acc sol log

theorem EvText.lead (l x : Nat) (hl : isLeadU l = true) (hx : plainUnit x) (heol : classOf .cif2 x ≠ .eol) (h13 : x ≠ 13) :
    EvText .cif2 (Ev.lead l x) := by
  refine ⟨?_, by simp [Ev.lead], by simp [Ev.lead, h13]⟩
  intro R line col acc sol log
  obtain ⟨e1, e2⟩ := lead_then_plain l x hl hx line col acc log
  have hl1 : ¬ classOf .cif2 l = .semi := by rw [lead_cls l hl]; decide
  have hl2 : ¬ classOf .cif2 l = .eol := by rw [lead_cls l hl]; decide
  simp only [Ev.lead, List.cons_append, List.nil_append]
  conv => lhs; simp only [scanText, bind_eq, pure_eq]
  rw [L.bind_ok e1]
  simp only [fixAcc_false, hl1, hl2, if_false]
  conv => lhs; simp only [scanText, bind_eq, pure_eq]
  rw [L.bind_ok e2]
  by_cases hs : classOf .cif2 x = .semi
  · simp [fixAcc, replChar, hs]
  · simp [fixAcc, replChar, hs, heol]

/-- the position behind a body that starts at `(line, col)` -/
def Body.tpos : Nat → Nat → Body → Nat × Nat
  | line, col, [] => (line, col)
  | line, col, (s, e) :: r => Body.tpos (posAfter line col s).1 ((posAfter line col s).2 + e.adv) r

/-- the reports of a body that may span lines, newest first -/
def Body.treps : Nat → Nat → Body → List Report
  | _, _, [] => []
  | line, col, (s, e) :: r =>
    Body.treps (posAfter line col s).1 ((posAfter line col s).2 + e.adv) r ++ e.reps (posAfter line col s).1 (posAfter line col s).2

/-- the runs are admissible text-field content whose lines fit, the events are events of scan_text -/
def Body.textOk (dia : Dialect) : Nat → Nat → Body → Prop
  | _, _, [] => True
  | line, col, (s, e) :: r =>
    Spec.Lexical.textOk dia s = true ∧ linesFit col s = true ∧ EvText dia e
      ∧ Body.textOk dia (posAfter line col s).1 ((posAfter line col s).2 + e.adv) r

theorem getLast?_append_ne {α} (a b : List α) (h : b ≠ []) : (a ++ b).getLast? = b.getLast? := by
  rw [List.getLast?_append]
  cases hb : b.getLast? with
  | none => rw [List.getLast?_eq_none_iff] at hb; exact absurd hb h
  | some x => simp

theorem Body.out_ne {body : Body} (hne : body ≠ []) (h : ∀ p ∈ body, p.2.out ≠ []) : body.out ≠ [] := by
  cases body with
  | nil => exact absurd rfl hne
  | cons p r =>
    obtain ⟨s, e⟩ := p
    have := h (s, e) List.mem_cons_self
    simp [Body.out, this]

theorem Body.out_last : ∀ (body : Body), (∀ p ∈ body, p.2.out ≠ [] ∧ p.2.out.getLast? ≠ some 13) → body.out.getLast? ≠ some 13
  | [], _ => by simp [Body.out]
  | (s, e) :: r, h => by
    have h1 := h (s, e) List.mem_cons_self
    have ih := Body.out_last r (fun p hp => h p (List.mem_cons_of_mem _ hp))
    by_cases hr : r = []
    · subst hr
      simp only [Body.out, List.append_nil]
      rw [getLast?_append_ne _ _ h1.1]
      exact h1.2
    · have hne := Body.out_ne hr (fun p hp => (h p (List.mem_cons_of_mem _ hp)).1)
      simp only [Body.out]
      rw [getLast?_append_ne _ _ (by simp [hne]), getLast?_append_ne _ _ hne]
      exact ih

theorem Body.textOk_evs : ∀ (body : Body) (line col : Nat), Body.textOk dia line col body →
    ∀ p ∈ body, p.2.out ≠ [] ∧ p.2.out.getLast? ≠ some 13
  | [], _, _, _ => by intro p hp; cases hp
  | (s, e) :: r, line, col, h => by
    intro p hp
    rcases List.mem_cons.mp hp with rfl | hp
    · exact ⟨h.2.2.1.2.1, h.2.2.1.2.2⟩
    · exact Body.textOk_evs r _ _ h.2.2.2 p hp

theorem multi_text_scan : ∀ (body : Body) (R : Str) (line col : Nat) (acc : Str) (log : List Report),
    Body.textOk dia line col body →
    scanText dia (body.inp ++ R) line col false acc 0 acceptAll log
      = scanText dia R (body.tpos line col).1 (body.tpos line col).2 false (body.out.reverse ++ acc) 0 acceptAll
          (body.treps line col ++ log)
  | [], R, line, col, acc, log, _ => by simp [Body.inp, Body.out, Body.tpos, Body.treps]
  | (s, e) :: r, R, line, col, acc, log, h => by
    obtain ⟨h1, h2, h3, h4⟩ := h
    simp only [Spec.Lexical.textOk, Bool.and_eq_true] at h1
    obtain ⟨sol', _, hp⟩ := scanText_prefix dia (e.inp ++ (Body.inp r ++ R)) acceptAll log s none acc line col 0 h1.1 trivial
      (by simpa using h1.2) (by decide) h2
    simp only [Option.isSome_none] at hp
    have ih := multi_text_scan r R (posAfter line col s).1 ((posAfter line col s).2 + e.adv) (e.out.reverse ++ (s.reverse ++ acc))
      (e.reps (posAfter line col s).1 (posAfter line col s).2 ++ log) h4
    simp only [Body.inp, List.append_assoc]
    rw [hp, h3.1, ih]
    simp [Body.out, Body.tpos, Body.treps, List.append_assoc]

/-- **a text field with any number of defective places, on any of its lines** -/
theorem multi_text (body : Body) (sN ctx : Str) (line : Nat) (log : List Report)
    (hb : Body.textOk dia line 1 body) (hN : Spec.Lexical.textOk dia sN = true)
    (hfit : linesFit (body.tpos line 1).2 (sN ++ [10]) = true) (hctx : followOk dia ctx = true) :
    stepTok dia true 59 (body.inp ++ (sN ++ 10 :: 59 :: ctx)) line 0 acceptAll log
      = .ok (.tok ⟨.tvalue, body.out ++ sN, (posAfter (body.tpos line 1).1 (body.tpos line 1).2 sN).1 + 1, 1⟩
                  ⟨ctx, (posAfter (body.tpos line 1).1 (body.tpos line 1).2 sN).1 + 1, 1⟩)
          (body.treps line 1 ++ log) := by
  simp only [Spec.Lexical.textOk, Bool.and_eq_true] at hN
  have hlast : (body.out.reverse ++ ([] : Str)).head? ≠ some 13 := by
    have := Body.out_last body (Body.textOk_evs body line 1 hb)
    simpa [List.head?_reverse] using this
  have hscan : scanText dia (body.inp ++ (sN ++ 10 :: 59 :: ctx)) line 1 false [] 0 acceptAll log
      = .ok ⟨(body.out ++ sN).reverse, ⟨ctx, (posAfter (body.tpos line 1).1 (body.tpos line 1).2 sN).1 + 1, 1⟩⟩
          (body.treps line 1 ++ log) := by
    rw [multi_text_scan body _ line 1 [] log hb]
    have := scanText_ok dia ctx acceptAll (body.treps line 1 ++ log) sN none (body.out.reverse ++ [])
      (body.tpos line 1).1 (body.tpos line 1).2 0 hN.1 trivial (by simpa using hN.2) (by decide) hfit hlast
    simp only [Option.isSome_none] at this
    rw [this]
    simp
  rw [text_dispatch, L.bind_ok hscan]
  have hcol : ∀ d r, ctx = d :: r → ¬ d = colon := by
    intro d r h
    subst h
    simp only [followOk, isWs, isBlank, isEol, Bool.or_eq_true, beq_iff_eq, Bool.and_eq_true] at hctx
    simp only [colon]; omega_cu
  cases dia with
  | cif1 => simp [mkTok]
  | cif2 =>
    cases ctx with
    | nil => simp [keyPeek, mkTok]
    | cons d r => simp [keyPeek, mkTok, hcol d r rfl]

/-! ### triple-quoted strings (CIF 2.0) -/

/-- scan_triple_delim_string (any delimiter count / begin-of-line state in front; both reset behind) -/
def EvTriple (q : Nat) (e : Ev) : Prop :=
  ∀ (R : Str) (line col : Nat) (acc : Str) (cnt sol : Nat) (log : List Report),
    scanTriple .cif2 q (e.inp ++ R) line col false acc cnt sol acceptAll log
      = scanTriple .cif2 q R line (col + e.adv) false (e.out.reverse ++ acc) 0 0 acceptAll (e.reps line col ++ log)

theorem EvTriple.of1 {c c' : Nat} {reps : Nat → Nat → List Report} (hD : Defect1 .cif2 c c' reps) (q : Nat) (hq : q = 34 ∨ q = 39) :
    EvTriple q (Ev.of1 c c' reps) := by
  intro R line col acc cnt sol log
  simpa [Ev.of1] using hD.triple_step q (quote_class .cif2 q hq) R line col acc cnt sol log

theorem EvTriple.lead (l x : Nat) (hl : isLeadU l = true) (hx : plainUnit x) (q : Nat) (hq : q = 34 ∨ q = 39) (hxq : x ≠ q)
    (heol : classOf .cif2 x ≠ .eol) : EvTriple q (Ev.lead l x) := by
  intro R line col acc cnt sol log
  obtain ⟨e1, e2⟩ := lead_then_plain l x hl hx line col acc log
  have hlw : ¬ classOf .cif2 l = .eol := by rw [lead_cls l hl]; decide
  have hlq : ¬ l = q := by simp [isLeadU] at hl; rcases hq with h | h <;> omega_cu
  simp only [Ev.lead, List.cons_append, List.nil_append]
  conv => lhs; simp only [scanTriple, bind_eq, pure_eq]
  rw [L.bind_ok e1]
  simp only [fixAcc_false, hlw, hlq, if_false]
  conv => lhs; simp only [scanTriple, bind_eq, pure_eq]
  rw [L.bind_ok e2]
  simp [fixAcc, replChar, heol, hxq]

/-- the runs never hold three delimiters in a row (they may end with one or two), their lines fit; the events are events of
    scan_triple_delim_string -/
def Body.tripleOk (q : Nat) : Nat → Nat → Body → Prop
  | _, _, [] => True
  | line, col, (s, e) :: r =>
    okUnits .cif2 none s = true ∧ tripleOpen q 0 s = true ∧ linesFit col s = true ∧ EvTriple q e
      ∧ Body.tripleOk q (posAfter line col s).1 ((posAfter line col s).2 + e.adv) r

theorem multi_triple_scan (q : Nat) (hq : q = 34 ∨ q = 39) : ∀ (body : Body) (R : Str) (line col : Nat) (acc : Str) (log : List Report),
    Body.tripleOk q line col body →
    scanTriple .cif2 q (body.inp ++ R) line col false acc 0 0 acceptAll log
      = scanTriple .cif2 q R (body.tpos line col).1 (body.tpos line col).2 false (body.out.reverse ++ acc) 0 0 acceptAll
          (body.treps line col ++ log)
  | [], R, line, col, acc, log, _ => by simp [Body.inp, Body.out, Body.tpos, Body.treps]
  | (s, e) :: r, R, line, col, acc, log, h => by
    obtain ⟨h1, h2, h3, h4, h5⟩ := h
    obtain ⟨cnt', sol', _, hp⟩ := scanTriple_prefix q hq (e.inp ++ (Body.inp r ++ R)) acceptAll log s none acc line col 0 0 h1 trivial h2
      (by decide) h3
    simp only [Option.isSome_none] at hp
    have ih := multi_triple_scan q hq r R (posAfter line col s).1 ((posAfter line col s).2 + e.adv) (e.out.reverse ++ (s.reverse ++ acc))
      (e.reps (posAfter line col s).1 (posAfter line col s).2 ++ log) h5
    simp only [Body.inp, List.append_assoc]
    rw [hp, h4, ih]
    simp [Body.out, Body.tpos, Body.treps, List.append_assoc]

/-- **a triple-quoted string with any number of defective places, on any of its lines** -/
theorem multi_triple (q : Nat) (hq : q = 34 ∨ q = 39) (body : Body) (sN ctx : Str) (line col : Nat) (log : List Report)
    (hb : Body.tripleOk q line (col + 3) body) (hN : Spec.Lexical.tripleOk .cif2 q sN = true)
    (hfit : linesFit (body.tpos line (col + 3)).2 sN = true) (hctx : followOk .cif2 ctx = true) :
    stepTok .cif2 true q (q :: q :: (body.inp ++ (sN ++ q :: q :: q :: ctx))) line col acceptAll log
      = .ok (.tok ⟨.qvalue, body.out ++ sN, (posAfter (body.tpos line (col + 3)).1 (body.tpos line (col + 3)).2 sN).1,
                    (posAfter (body.tpos line (col + 3)).1 (body.tpos line (col + 3)).2 sN).2 + 3⟩
                  ⟨ctx, (posAfter (body.tpos line (col + 3)).1 (body.tpos line (col + 3)).2 sN).1,
                    (posAfter (body.tpos line (col + 3)).1 (body.tpos line (col + 3)).2 sN).2 + 3⟩)
          (body.treps line (col + 3) ++ log) := by
  simp only [Spec.Lexical.tripleOk, Bool.and_eq_true] at hN
  obtain ⟨⟨_, hNo⟩, hNb⟩ := hN
  have hscan : scanTriple .cif2 q (body.inp ++ (sN ++ q :: q :: q :: ctx)) line (col + 1 + 2) false [] 0 0 acceptAll log
      = .ok ⟨(body.out ++ sN).reverse, ⟨ctx, (posAfter (body.tpos line (col + 3)).1 (body.tpos line (col + 3)).2 sN).1,
                    (posAfter (body.tpos line (col + 3)).1 (body.tpos line (col + 3)).2 sN).2 + 3⟩⟩
          (body.treps line (col + 3) ++ log) := by
    have e3 : col + 1 + 2 = col + 3 := by omega
    rw [e3, multi_triple_scan q hq body _ line (col + 3) [] log hb]
    have := scanTriple_ok q hq ctx acceptAll (body.treps line (col + 3) ++ log) sN none (body.out.reverse ++ [])
      (body.tpos line (col + 3)).1 (body.tpos line (col + 3)).2 0 0 hNo trivial hNb (by decide) hfit
    simp only [Option.isSome_none] at this
    rw [this]
    simp
  have hscan' := (scanDelim_triple_open q hq (body.inp ++ (sN ++ q :: q :: q :: ctx)) line (col + 1) acceptAll log).trans hscan
  rw [quote_dispatch .cif2 q hq, L.bind_ok hscan']
  cases ctx with
  | nil => simp [keyPeek, mkTok]
  | cons d r =>
    have : ¬ d = colon := by
      simp only [followOk, isWs, isBlank, isEol, Bool.or_eq_true, beq_iff_eq, Bool.and_eq_true] at hctx
      simp only [colon]; omega_cu
    simp [keyPeek, mkTok, this]

end CifModel.Model.Lexer
