import CifModel.Lemmas.NumbSyntax
import CifModel.Lemmas.NumbDigits
/-
  Lemmas for C10_init_text_roundtrip: the text written by format_text_decimal / format_text_sci parses back to the
  digits, su digits and scale it was written from.
-/
namespace CifModel.Lemmas.NumbRoundtrip
open CifModel.Model.Numb CifModel.Spec.Rounding CifModel.Lemmas.NumbMisc CifModel.Lemmas.NumbSyntax CifModel.Lemmas.NumbDigits

/-! ### canonical digit strings -/

/-- decimal digits, no leading zero except for the single digit `0` -/
def Canon (ds : List Nat) : Prop := (∀ d ∈ ds, d ≤ 9) ∧ (ds = [0] ∨ ∃ d r, ds = d :: r ∧ d ≠ 0)

theorem Canon.ne_nil {ds : List Nat} (h : Canon ds) : ds ≠ [] := by
  rcases h.2 with h | ⟨d, r, h, _⟩ <;> (rw [h]; simp)

theorem digitVals_digitChars (ds : List Nat) : digitVals (digitChars ds) = ds := by
  unfold digitVals digitChars
  rw [List.map_map]
  have : ((fun x => x - UCHAR_0) ∘ fun x => x + UCHAR_0) = id := by
    funext x; simp
  rw [this]; simp

theorem allDigits_digitChars (ds : List Nat) (h : ∀ d ∈ ds, d ≤ 9) : AllDigits (digitChars ds) := by
  intro c hc
  unfold digitChars at hc
  rw [List.mem_map] at hc
  obtain ⟨d, hd, e⟩ := hc
  have := h d hd
  rw [← e]
  unfold IsDigit UCHAR_0
  omega

theorem digitChars_length (ds : List Nat) : (digitChars ds).length = ds.length := by
  unfold digitChars; simp

theorem digitChars_take (ds : List Nat) (k : Nat) : digitChars (ds.take k) = (digitChars ds).take k := by
  unfold digitChars; rw [List.map_take]

theorem digitChars_drop (ds : List Nat) (k : Nat) : digitChars (ds.drop k) = (digitChars ds).drop k := by
  unfold digitChars; rw [List.map_drop]

/-! ### the trimming loop on written texts -/

theorem trimLead_head (c : Nat) (rest : Str) (h : c ≠ UCHAR_0 ∧ c ≠ UCHAR_DECIMAL) : trimLead (c :: rest) = c :: rest := by
  rw [trimLead]
  have : ¬ ((c = UCHAR_0 ∨ c = UCHAR_DECIMAL) ∧ rest ≠ []) := by
    intro hh; rcases hh.1 with e | e
    · exact h.1 e
    · exact h.2 e
  rw [if_neg this]

theorem trimLead_single (c : Nat) : trimLead [c] = [c] := by
  rw [trimLead]; simp

theorem trimLead_skip (c : Nat) (rest : Str) (hc : c = UCHAR_0 ∨ c = UCHAR_DECIMAL) (hr : rest ≠ []) :
    trimLead (c :: rest) = trimLead rest := by
  rw [trimLead, if_pos ⟨hc, hr⟩]

theorem trimLead_zeros (k : Nat) (D : Str) (hD : D ≠ []) : trimLead (List.replicate k UCHAR_0 ++ D) = trimLead D := by
  induction k with
  | zero => rfl
  | succ n ih =>
    rw [List.replicate_succ, List.cons_append, trimLead_skip _ _ (Or.inl rfl) (by simp [hD]), ih]

/-- the characters of a canonical digit string survive the trimming loop -/
theorem trimLead_canon (ds : List Nat) (h : Canon ds) (tl : Str) (htl : ds = [0] → tl = []) :
    trimLead (digitChars ds ++ tl) = digitChars ds ++ tl := by
  rcases h.2 with e | ⟨d, r, e, hd⟩
  · rw [e, htl e]; rfl
  · rw [e]
    have hle : d ≤ 9 := h.1 d (by rw [e]; simp)
    show trimLead ((d + UCHAR_0) :: (digitChars r ++ tl)) = _
    rw [trimLead_head]
    · rfl
    · unfold UCHAR_0 UCHAR_DECIMAL; omega

theorem trimZeros_canon (ds : List Nat) (h : Canon ds) : trimZeros (digitChars ds) = digitChars ds := by
  rcases h.2 with e | ⟨d, r, e, hd⟩
  · rw [e]; rfl
  · rw [e]
    show trimZeros ((d + UCHAR_0) :: digitChars r) = _
    rw [trimZeros]
    have : ¬ (d + UCHAR_0 = UCHAR_0 ∧ digitChars r ≠ []) := by
      intro hh; have := hh.1; omega
    rw [if_neg this]
    rfl

theorem filter_point_digitChars (ds : List Nat) (h : ∀ d ∈ ds, d ≤ 9) :
    (digitChars ds).filter (· ≠ UCHAR_DECIMAL) = digitChars ds := filter_allDigits _ (allDigits_digitChars ds h)

/-! ### the exponent field -/

theorem digitsValue_append_single (l : Str) (c : Nat) : digitsValue (l ++ [c]) = digitsValue l * 10 + (c - 48) := by
  unfold digitsValue
  rw [List.foldl_append]; rfl

theorem padDigits_value : ∀ (k n : Nat), digitsValue (padDigits k n) = n % 10 ^ k := by
  intro k
  induction k with
  | zero => intro n; simp [padDigits, digitsValue, Nat.mod_one]
  | succ j ih =>
    intro n
    rw [padDigits, digitsValue_append_single, ih]
    have h1 : n % 10 + UCHAR_0 - 48 = n % 10 := by unfold UCHAR_0; omega
    rw [h1, Nat.pow_succ, Nat.mul_comm (10 ^ j) 10, Nat.mod_mul]
    omega

theorem padDigits_allDigits : ∀ (k n : Nat), AllDigits (padDigits k n) := by
  intro k
  induction k with
  | zero => intro n c hc; simp [padDigits] at hc
  | succ j ih =>
    intro n c hc
    rw [padDigits, List.mem_append] at hc
    rcases hc with h | h
    · exact ih _ c h
    · simp only [List.mem_singleton] at h
      rw [h]
      unfold IsDigit UCHAR_0; omega

theorem padDigits_length : ∀ (k n : Nat), (padDigits k n).length = k := by
  intro k
  induction k with
  | zero => intro n; rfl
  | succ j ih => intro n; rw [padDigits, List.length_append, ih]; rfl

theorem decDigits_lt_pow (n : Nat) : n < 10 ^ (decDigits n).length := by
  have h1 := natOfDigits_decDigits n
  have h2 := natOfDigits_lt (decDigits n) (decDigitsF_digits _ _)
  omega


/-! ### from parts to the exact fields -/

def CanonOpt : Option (List Nat) → Prop
  | none => True
  | some d => Canon d

theorem suText_parts (suD : Option (List Nat)) (h : CanonOpt suD) : SuText (suText suD) (suD.map digitChars) := by
  cases suD with
  | none => exact SuText.none
  | some d =>
    have hc : Canon d := h
    have := SuText.some (digitChars d) (allDigits_digitChars d hc.1) (by
      intro e
      have := congrArg List.length e
      rw [digitChars_length] at this
      exact hc.ne_nil (List.length_eq_zero_iff.mp this))
    exact this

theorem su_back (suD : Option (List Nat)) (h : CanonOpt suD) :
    (suD.map digitChars).map (fun s => digitVals (trimZeros s)) = suD := by
  cases suD with
  | none => rfl
  | some d =>
    have hc : Canon d := h
    simp only [Option.map]
    rw [trimZeros_canon d hc, digitVals_digitChars]

theorem signText_of (neg : Bool) : SignText (if neg = true then [UCHAR_MINUS] else []) neg := by
  cases neg
  · exact SignText.none
  · exact SignText.minus

/-- a text with parts `p` whose trimmed digit region is `digitChars digits`, whose su is `suD` and whose exponent and
    fraction length give `scale`, parses to exactly these fields -/
theorem parse_exact (lim : Nat) (t : Str) (p : Parts) (neg : Bool) (digits : List Nat) (suD : Option (List Nat)) (scale : Int)
    (hp : NumberParts t p) (hneg : p.neg = neg)
    (hreg : (trimLead (if p.fp = [] then p.ip else p.ip ++ UCHAR_DECIMAL :: p.fp)).filter (· ≠ UCHAR_DECIMAL) = digitChars digits)
    (hsu : p.su = suD.map digitChars) (hcs : CanonOpt suD)
    (hsc : expContrib lim p.exp + (p.fp.length : Int) = scale) :
    parseNumbZL lim t = some ⟨neg, digits, suD, scale⟩ := by
  obtain ⟨f, hf, h1, _, h3, h4, h5⟩ := parse_of_parts lim t p hp
  rw [hf]
  cases f with
  | mk fneg fdigits fsu fscale =>
    simp only at h1 h3 h4 h5
    rw [hreg, digitVals_digitChars] at h5
    rw [hsu, su_back suD hcs] at h3
    rw [hsc] at h4
    rw [h1, hneg, h3, h4, h5]


/-! ### format_text_decimal -/

theorem canon_head (digits : List Nat) (h : Canon digits) (hne : digits ≠ [0]) :
    ∃ d r, digits = d :: r ∧ d ≠ 0 ∧ d ≤ 9 := by
  rcases h.2 with e | ⟨d, r, e, hd⟩
  · exact absurd e hne
  · exact ⟨d, r, e, hd, h.1 d (by rw [e]; simp)⟩

theorem replicate_allDigits (k : Nat) : AllDigits (List.replicate k UCHAR_0) := by
  intro c hc
  rw [List.mem_replicate] at hc
  rw [hc.2]; unfold IsDigit UCHAR_0; omega

theorem formatDecimal_roundtrip (lim : Nat) (neg : Bool) (digits : List Nat) (suD : Option (List Nat)) (scale : Nat) (t : Str)
    (hc : Canon digits) (hcs : CanonOpt suD) (h : formatDecimal neg digits suD scale = some t) :
    parseNumbZL lim t = some ⟨neg, digits, suD, (scale : Int)⟩ := by
  unfold formatDecimal at h
  by_cases hchars : decimalChars neg digits suD scale ≤ CIF_LINE_LENGTH + 1
  · rw [if_pos hchars] at h
    simp only [Option.some.injEq] at h
    unfold decimalBody signChars at h
    have hD := allDigits_digitChars digits hc.1
    have hDne : digitChars digits ≠ [] := by
      intro e
      have := congrArg List.length e
      rw [digitChars_length] at this
      exact hc.ne_nil (List.length_eq_zero_iff.mp this)
    by_cases hle : digits.length ≤ scale
    · -- 0.000ddd
      rw [if_pos hle] at h
      let fp := List.replicate (scale - digits.length) UCHAR_0 ++ digitChars digits
      have hfp : AllDigits fp := by
        intro c hcm
        rw [List.mem_append] at hcm
        rcases hcm with h1 | h1
        · exact replicate_allDigits _ c h1
        · exact hD c h1
      have hfpne : fp ≠ [] := by simp [fp, hDne]
      have hm : MantText ([UCHAR_0] ++ 46 :: fp) [UCHAR_0] fp :=
        MantText.point [UCHAR_0] fp (by intro c hcm; simp at hcm; rw [hcm]; unfold IsDigit UCHAR_0; omega) hfp (by simp)
      have hp := NumberParts.mk (if neg then [UCHAR_MINUS] else []) _ [] (suText suD) neg _ _ none _ (signText_of neg) hm
        ExpText.none (suText_parts suD hcs)
      have ht : (if neg then [UCHAR_MINUS] else []) ++ ([UCHAR_0] ++ 46 :: fp) ++ [] ++ suText suD = t := by
        rw [← h]; simp [fp, UCHAR_DECIMAL]
      rw [ht] at hp
      apply parse_exact lim t _ neg digits suD scale hp rfl _ rfl hcs
      · simp only [expContrib, fp, List.length_append, List.length_replicate, digitChars_length]
        omega
      · simp only [hfpne, if_false]
        show (trimLead (UCHAR_0 :: UCHAR_DECIMAL :: fp)).filter _ = _
        rw [trimLead_skip _ _ (Or.inl rfl) (by simp), trimLead_skip _ _ (Or.inr rfl) hfpne]
        show (trimLead (List.replicate (scale - digits.length) UCHAR_0 ++ digitChars digits)).filter _ = _
        rw [trimLead_zeros _ _ hDne]
        have := trimLead_canon digits hc [] (fun _ => rfl)
        rw [List.append_nil] at this
        rw [this, filter_point_digitChars digits hc.1]
    · -- ddd.ddd or ddd
      rw [if_neg hle] at h
      have hlt : scale < digits.length := by omega
      by_cases hs0 : scale = 0
      · subst hs0
        simp only [Nat.sub_zero, Nat.lt_irrefl, if_false, List.append_nil] at h
        have e1 : digits.take digits.length = digits := List.take_length
        have e2 : digits.drop digits.length = [] := List.drop_length
        rw [e1, e2] at h
        have hm : MantText (digitChars digits) (digitChars digits) [] := MantText.int _ hD hDne
        have hp := NumberParts.mk (if neg then [UCHAR_MINUS] else []) _ [] (suText suD) neg _ _ none _ (signText_of neg) hm
          ExpText.none (suText_parts suD hcs)
        have ht : (if neg then [UCHAR_MINUS] else []) ++ digitChars digits ++ [] ++ suText suD = t := by
          rw [← h]; simp [digitChars]
        rw [ht] at hp
        apply parse_exact lim t _ neg digits suD _ hp rfl _ rfl hcs
        · simp [expContrib]
        · simp only [if_true]
          have := trimLead_canon digits hc [] (fun _ => rfl)
          rw [List.append_nil] at this
          rw [this, filter_point_digitChars digits hc.1]
      · have hpos : 0 < scale := by omega
        simp only [hpos, if_true] at h
        let W := digitChars (digits.take (digits.length - scale))
        let F := digitChars (digits.drop (digits.length - scale))
        have hWF : W ++ F = digitChars digits := by
          simp only [W, F, digitChars]
          rw [← List.map_append, List.take_append_drop]
        have hne0 : digits ≠ [0] := by
          intro e; rw [e] at hlt; simp at hlt; omega
        obtain ⟨d, r, ed, hd0, hd9⟩ := canon_head digits hc hne0
        have hWd : AllDigits W := allDigits_digitChars _ (fun x hx => hc.1 x (List.mem_of_mem_take hx))
        have hFd : AllDigits F := allDigits_digitChars _ (fun x hx => hc.1 x (List.mem_of_mem_drop hx))
        have hFlen : F.length = scale := by
          simp only [F, digitChars_length, List.length_drop]; omega
        have hFne : F ≠ [] := by
          intro e; rw [e] at hFlen; simp at hFlen; omega
        have hWhead : ∃ w, W = (d + UCHAR_0) :: w := by
          obtain ⟨k, hk⟩ : ∃ k, digits.length - scale = k + 1 := ⟨digits.length - scale - 1, by omega⟩
          simp only [W]
          rw [hk, ed, List.take_succ_cons]
          exact ⟨_, rfl⟩
        obtain ⟨w, hw⟩ := hWhead
        have hm : MantText (W ++ 46 :: F) W F := MantText.point W F hWd hFd (by rw [hw]; simp)
        have hp := NumberParts.mk (if neg then [UCHAR_MINUS] else []) _ [] (suText suD) neg _ _ none _ (signText_of neg) hm
          ExpText.none (suText_parts suD hcs)
        have ht : (if neg then [UCHAR_MINUS] else []) ++ (W ++ 46 :: F) ++ [] ++ suText suD = t := by
          rw [← h]; simp [W, F, UCHAR_DECIMAL]
        rw [ht] at hp
        apply parse_exact lim t _ neg digits suD _ hp rfl _ rfl hcs
        · simp only [expContrib, hFlen]; omega
        · simp only [hFne, if_false]
          rw [hw]
          show (trimLead ((d + UCHAR_0) :: (w ++ UCHAR_DECIMAL :: F))).filter _ = _
          rw [trimLead_head _ _ (by unfold UCHAR_0 UCHAR_DECIMAL; omega)]
          have : (d + UCHAR_0) :: (w ++ UCHAR_DECIMAL :: F) = W ++ UCHAR_DECIMAL :: F := by rw [hw]; rfl
          rw [this, List.filter_append, filter_allDigits W hWd]
          have : (UCHAR_DECIMAL :: F).filter (· ≠ UCHAR_DECIMAL) = F.filter (· ≠ UCHAR_DECIMAL) := by simp [List.filter_cons]
          rw [this, filter_allDigits F hFd, hWF]
  · rw [if_neg hchars] at h; cases h


/-! ### format_text_sci -/

theorem formatSci_roundtrip (lim : Nat) (neg : Bool) (digits : List Nat) (suD : Option (List Nat)) (scale : Int) (t : Str)
    (hc : Canon digits) (hcs : CanonOpt suD) (hlim : (sciMsp digits scale).natAbs < lim)
    (h : formatSci neg digits suD scale = some t) :
    parseNumbZL lim t = some ⟨neg, digits, suD, scale⟩ := by
  unfold formatSci at h
  by_cases hchars : sciChars neg digits suD scale ≤ CIF_LINE_LENGTH + 1
  · rw [if_pos hchars] at h
    simp only [Option.some.injEq] at h
    unfold signChars sciExp at h
    -- the exponent field
    generalize hk : sciExpDigits digits scale = k at *
    generalize ha : (sciMsp digits scale).natAbs = a at *
    have hk2 : (decDigits a).length ≤ k ∧ 2 ≤ k := by
      rw [← hk]; unfold sciExpDigits; rw [ha]
      exact ⟨Nat.le_max_right _ _, Nat.le_max_left _ _⟩
    have hds : AllDigits (padDigits k a) := padDigits_allDigits k a
    have hdsne : padDigits k a ≠ [] := by
      intro e
      have := congrArg List.length e
      rw [padDigits_length] at this
      simp at this; omega
    have hval : digitsValue (padDigits k a) = a := by
      rw [padDigits_value]
      apply Nat.mod_eq_of_lt
      exact Nat.lt_of_lt_of_le (decDigits_lt_pow a) (Nat.pow_le_pow_right (by decide) hk2.1)
    have hacc : expAccumL lim (padDigits k a) = a := by
      rw [expAccumL_exact lim _ (by rw [hval]; exact hlim), hval]
    -- sign of the exponent
    have hx : ∃ sg eneg, SignText sg eneg ∧ sg = [if sciMsp digits scale < 0 then UCHAR_MINUS else UCHAR_PLUS] ∧
        (eneg = true ↔ sciMsp digits scale < 0) := by
      by_cases hneg : sciMsp digits scale < 0
      · exact ⟨[45], true, SignText.minus, by rw [if_pos hneg]; rfl, by simp [hneg]⟩
      · exact ⟨[43], false, SignText.plus, by rw [if_neg hneg]; rfl, by simp [hneg]⟩
    obtain ⟨sg, eneg, hsg, hsge, hnegiff⟩ := hx
    have hex : ExpText (UCHAR_e :: sg ++ padDigits k a) (some (eneg, padDigits k a)) :=
      ExpText.some UCHAR_e sg eneg _ (Or.inr rfl) hsg hds hdsne
    have hcontrib : expContrib lim (some (eneg, padDigits k a)) = -(sciMsp digits scale) := by
      simp only [expContrib, hacc]
      cases eneg with
      | true => have := hnegiff.mp rfl; simp only [if_true]; omega
      | false =>
        have : ¬ sciMsp digits scale < 0 := fun hh => by have := hnegiff.mpr hh; cases this
        simp only [Bool.false_eq_true, if_false]; omega
    obtain ⟨d, rest, ed⟩ : ∃ d rest, digits = d :: rest := by
      cases hdg : digits with
      | nil => exact absurd hdg hc.ne_nil
      | cons d rest => exact ⟨d, rest, rfl⟩
    have hmsp : sciMsp digits scale = (rest.length : Int) - scale := by
      unfold sciMsp; rw [ed]; simp
    have hd9 : d ≤ 9 := hc.1 d (by rw [ed]; simp)
    have hdD : IsDigit (d + UCHAR_0) := by unfold IsDigit UCHAR_0; omega
    by_cases hrest : rest = []
    · -- a single digit
      have hm : MantText [d + UCHAR_0] [d + UCHAR_0] [] :=
        MantText.int _ (by intro c hcm; simp at hcm; rw [hcm]; exact hdD) (by simp)
      have hp := NumberParts.mk (if neg = true then [UCHAR_MINUS] else []) _ _ (suText suD) neg _ _ _ _ (signText_of neg) hm
        hex (suText_parts suD hcs)
      have ht : (if neg = true then [UCHAR_MINUS] else []) ++ [d + UCHAR_0] ++ (UCHAR_e :: sg ++ padDigits k a) ++ suText suD = t := by
        rw [← h, hsge, ed, hrest]; simp [sciMant]
      rw [ht] at hp
      apply parse_exact lim t _ neg digits suD scale hp rfl _ rfl hcs
      · rw [hcontrib, hmsp, hrest]; simp
      · simp only [if_true]
        rw [trimLead_single, ed, hrest]
        exact filter_allDigits _ (by intro c hcm; simp at hcm; rw [hcm]; exact hdD)
    · have hne0 : digits ≠ [0] := by
        intro e; rw [ed] at e; simp only [List.cons.injEq] at e; exact hrest e.2
      obtain ⟨d', r', ed', hd0, _⟩ := canon_head digits hc hne0
      have hdd : d' = d := by rw [ed] at ed'; simp only [List.cons.injEq] at ed'; exact ed'.1.symm
      rw [hdd] at hd0
      have hrd : AllDigits (digitChars rest) := allDigits_digitChars rest (fun x hx => hc.1 x (by rw [ed]; simp [hx]))
      have hrne : digitChars rest ≠ [] := by
        intro e
        have := congrArg List.length e
        rw [digitChars_length] at this
        exact hrest (List.length_eq_zero_iff.mp this)
      have hm : MantText ([d + UCHAR_0] ++ 46 :: digitChars rest) [d + UCHAR_0] (digitChars rest) :=
        MantText.point _ _ (by intro c hcm; simp at hcm; rw [hcm]; exact hdD) hrd (by simp)
      have hp := NumberParts.mk (if neg = true then [UCHAR_MINUS] else []) _ _ (suText suD) neg _ _ _ _ (signText_of neg) hm
        hex (suText_parts suD hcs)
      have ht : (if neg = true then [UCHAR_MINUS] else []) ++ ([d + UCHAR_0] ++ 46 :: digitChars rest) ++ (UCHAR_e :: sg ++ padDigits k a) ++ suText suD = t := by
        rw [← h, hsge, ed]; simp [sciMant, hrest, UCHAR_DECIMAL]
      rw [ht] at hp
      apply parse_exact lim t _ neg digits suD scale hp rfl _ rfl hcs
      · rw [hcontrib, hmsp, digitChars_length]; omega
      · simp only [hrne, if_false]
        show (trimLead ((d + UCHAR_0) :: (UCHAR_DECIMAL :: digitChars rest))).filter _ = _
        rw [trimLead_head _ _ (by unfold UCHAR_0 UCHAR_DECIMAL; omega)]
        have e1 : (d + UCHAR_0) :: UCHAR_DECIMAL :: digitChars rest = [d + UCHAR_0] ++ UCHAR_DECIMAL :: digitChars rest := rfl
        rw [e1, List.filter_append, filter_allDigits [d + UCHAR_0] (by intro c hcm; simp at hcm; rw [hcm]; exact hdD)]
        have : (UCHAR_DECIMAL :: digitChars rest).filter (· ≠ UCHAR_DECIMAL) = (digitChars rest).filter (· ≠ UCHAR_DECIMAL) := by
          simp [List.filter_cons]
        rw [this, filter_allDigits _ hrd, ed]; rfl
  · rw [if_neg hchars] at h; cases h


/-! ### the digit strings init_numb produces are canonical -/

theorem decDigitsF_head : ∀ (fuel n : Nat), n < fuel → n ≠ 0 → ∃ d r, decDigitsF fuel n = d :: r ∧ d ≠ 0 := by
  intro fuel
  induction fuel with
  | zero => intro n h; omega
  | succ f ih =>
    intro n h hn
    rw [decDigitsF]
    by_cases h10 : n < 10
    · rw [if_pos h10]; exact ⟨n, [], rfl, hn⟩
    · rw [if_neg h10]
      obtain ⟨d, r, e, hd⟩ := ih (n / 10) (by omega) (by omega)
      rw [e]
      exact ⟨d, r ++ [n % 10], rfl, hd⟩

theorem canon_decDigits (z : Nat) (hz : z ≠ 0) : Canon (decDigits z) := by
  refine ⟨decDigitsF_digits _ _, Or.inr ?_⟩
  exact decDigitsF_head (z + 1) z (by omega) hz

theorem canon_zero : Canon [0] := ⟨by intro d hd; simp at hd; rw [hd]; decide, Or.inl rfl⟩

theorem toDigitsBig_cases (m : Nat) (e scale : Int) :
    toDigitsBig m e scale = [] ∨ Canon (toDigitsBig m e scale) := by
  unfold toDigitsBig
  by_cases hm : m = 0
  · rw [if_pos hm]; exact Or.inr canon_zero
  · rw [if_neg hm]
    simp only
    generalize rhe _ _ = z
    by_cases hz : z ≠ 0
    · rw [if_pos hz]; exact Or.inr (canon_decDigits z hz)
    · rw [if_neg hz]
      generalize (if scale ≤ 0 then (34 : Int) - (((-scale).toNat / 9 : Nat) : Int) else 34 + (((scale.toNat + 8) / 9 : Nat) : Int)) = rd
      by_cases hlt : rd < limbOfPlace (flog10Rat (ratOfBin m e).fst (ratOfBin m e).snd)
      · rw [if_pos hlt]; exact Or.inr canon_zero
      · rw [if_neg hlt]; exact Or.inl rfl

theorem canon_initDigits (val : Bin) (scale : Int) : Canon (initDigits val scale) := by
  unfold initDigits
  rcases toDigitsBig_cases val.m val.e scale with h | h
  · rw [if_pos h]; exact canon_zero
  · rw [if_neg h.ne_nil]; exact h

theorem canon_initSu (su : Bin) (scale : Int) : CanonOpt (initSu su scale) := by
  unfold initSu
  split
  · rcases toDigitsBig_cases su.m su.e scale with h | h
    · rw [if_pos h]; trivial
    · rw [if_neg h.ne_nil]; exact h
  · trivial

/-! ### the written text contains no NUL -/

def NZ (l : Str) : Prop := ∀ c ∈ l, c ≠ 0

theorem NZ_append {a b : Str} (ha : NZ a) (hb : NZ b) : NZ (a ++ b) := by
  intro c hc; rw [List.mem_append] at hc; rcases hc with h | h
  · exact ha c h
  · exact hb c h

theorem NZ_cons {c : Nat} {l : Str} (hc : c ≠ 0) (hl : NZ l) : NZ (c :: l) := by
  intro x hx; rw [List.mem_cons] at hx; rcases hx with h | h
  · rw [h]; exact hc
  · exact hl x h

theorem NZ_nil : NZ [] := by intro c hc; simp at hc

theorem NZ_digitChars (ds : List Nat) : NZ (digitChars ds) := by
  intro c hc
  unfold digitChars at hc
  rw [List.mem_map] at hc
  obtain ⟨d, _, e⟩ := hc
  rw [← e]; exact Nat.succ_ne_zero (d + 47)

theorem NZ_padDigits : ∀ k n, NZ (padDigits k n) := by
  intro k
  induction k with
  | zero => intro n; exact NZ_nil
  | succ j ih =>
    intro n
    rw [padDigits]
    exact NZ_append (ih _) (NZ_cons (by unfold UCHAR_0; omega) NZ_nil)

theorem NZ_suText (su : Option (List Nat)) : NZ (suText su) := by
  cases su with
  | none => exact NZ_nil
  | some d => exact NZ_cons (by decide) (NZ_append (NZ_digitChars d) (NZ_cons (by decide) NZ_nil))

theorem NZ_sign (neg : Bool) : NZ (signChars neg) := by
  unfold signChars; cases neg
  · exact NZ_nil
  · exact NZ_cons (by decide) NZ_nil

theorem NZ_replicate (k : Nat) : NZ (List.replicate k UCHAR_0) := by
  intro c hc; rw [List.mem_replicate] at hc; rw [hc.2]; decide

theorem cstr_of_NZ (l : Str) (h : NZ l) : cstr l = l := by
  unfold cstr
  induction l with
  | nil => rfl
  | cons c r ih =>
    have hc : c ≠ 0 := h c (by simp)
    rw [List.takeWhile_cons]
    simp only [ne_eq, hc, not_false_eq_true, decide_true, if_true]
    rw [ih (fun x hx => h x (by simp [hx]))]

theorem NZ_formatDecimal (neg : Bool) (digits : List Nat) (su : Option (List Nat)) (scale : Nat) (t : Str)
    (h : formatDecimal neg digits su scale = some t) : NZ t := by
  unfold formatDecimal at h
  split at h
  · simp only [Option.some.injEq] at h
    rw [← h]
    refine NZ_append (NZ_append (NZ_sign neg) ?_) (NZ_suText su)
    unfold decimalBody
    split
    · exact NZ_cons (by decide) (NZ_cons (by decide) (NZ_append (NZ_replicate _) (NZ_digitChars _)))
    · refine NZ_append (NZ_append (NZ_digitChars _) ?_) (NZ_digitChars _)
      split
      · exact NZ_cons (by decide) NZ_nil
      · exact NZ_nil
  · cases h

theorem NZ_formatSci (neg : Bool) (digits : List Nat) (su : Option (List Nat)) (scale : Int) (t : Str)
    (h : formatSci neg digits su scale = some t) : NZ t ∧ digits.length ≤ 2049 := by
  unfold formatSci at h
  split at h
  · rename_i hchars
    simp only [Option.some.injEq] at h
    rw [← h]
    constructor
    · refine NZ_append (NZ_append (NZ_append (NZ_sign neg) ?_) ?_) (NZ_suText su)
      · unfold sciMant
        cases digits with
        | nil => exact NZ_cons (by decide) NZ_nil
        | cons d rest =>
          simp only
          refine NZ_cons (by unfold UCHAR_0; omega) ?_
          split
          · exact NZ_nil
          · exact NZ_cons (by decide) (NZ_digitChars _)
      · unfold sciExp
        refine NZ_cons (by decide) (NZ_cons ?_ (NZ_padDigits _ _))
        split <;> decide
    · unfold sciChars CIF_LINE_LENGTH at hchars
      by_cases h1 : digits.length > 1
      · rw [if_pos h1] at hchars; omega
      · omega
  · cases h

/-- **init text round trip**: whatever `cif_value_init_numb` writes parses back to the sign, digit string, su digit
    string and scale it recorded -/
theorem initNumb_roundtrip (val su : Bin) (scale maxLead msp : Int) (q : Bool) (t : Str) (neg : Bool)
    (digits : List Nat) (suD : Option (List Nat)) (sc : Int)
    (h : initNumb val su scale maxLead msp = .ok (V.numb q t neg digits suD sc)) :
    parseNumb t = some ⟨neg, digits, suD, sc⟩ := by
  unfold initNumb at h
  by_cases hc : (su.neg = true ∧ su.m ≠ 0) ∨ -scale < LEAST_DBL_10_DIGIT ∨ -scale > DBL_MAX_10_EXP ∨ maxLead < 0
  · rw [if_pos hc] at h; cases h
  · rw [if_neg hc] at h
    simp only at h
    cases hT : initText (val.neg && decide (val.m ≠ 0)) (initDigits val scale) (initSu su scale) scale maxLead msp with
    | none => rw [hT] at h; cases h
    | some t' =>
      rw [hT] at h
      simp only [Except.ok.injEq, V.numb.injEq] at h
      obtain ⟨_, ht, hneg, hdig, hsu, hsc⟩ := h
      rw [← ht, ← hneg, ← hdig, ← hsu, ← hsc]
      have hcd := canon_initDigits val scale
      have hcs := canon_initSu su scale
      unfold initText at hT
      unfold parseNumb parseNumbZ
      by_cases hdec : scale ≥ 0 ∧ -(msp + 1) ≤ maxLead
      · rw [if_pos hdec] at hT
        rw [cstr_of_NZ t' (NZ_formatDecimal _ _ _ _ _ hT)]
        have := formatDecimal_roundtrip expSatLimit _ _ _ _ _ hcd hcs hT
        have e : ((scale.toNat : Nat) : Int) = scale := by omega
        rw [e] at this
        exact this
      · rw [if_neg hdec] at hT
        obtain ⟨hnz, hlen⟩ := NZ_formatSci _ _ _ _ _ hT
        rw [cstr_of_NZ t' hnz]
        apply formatSci_roundtrip expSatLimit _ _ _ _ _ hcd hcs _ hT
        have h1 : ¬ (-scale < LEAST_DBL_10_DIGIT) := fun hh => hc (Or.inr (Or.inl hh))
        have h2 : ¬ (-scale > DBL_MAX_10_EXP) := fun hh => hc (Or.inr (Or.inr (Or.inl hh)))
        unfold LEAST_DBL_10_DIGIT at h1
        unfold DBL_MAX_10_EXP at h2
        unfold sciMsp expSatLimit
        split <;> omega

end CifModel.Lemmas.NumbRoundtrip
