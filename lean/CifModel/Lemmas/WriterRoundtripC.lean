import CifModel.Lemmas.WriterRoundtrip
import CifModel.Lemmas.WriterLinesC
/-
  Lemmas/WriterRoundtripC — the whole-document round trip WITHOUT the line-length hypothesis `containersL`.

  `roundtrip_doc` (Lemmas/WriterRoundtrip.lean) asks `containersL cif` only to know that no line of the output is too long for
  the scanner (`Spec.Lexical.linesFit`, in characters).  That follows from the character-level line bound (Lemmas/WriterLinesC.lean),
  whose hypotheses `containersLC` are consequences of the other two hypotheses of the round trip: `cifR` (allowed characters, names
  not longer than a line) and `blocksN` (`cif_is_valid_name` for every code and name — which bounds codes by 2043 and names by 2048
  CHARACTERS and forbids whitespace).
-/
set_option linter.unusedSimpArgs false
set_option linter.unusedVariables false

namespace CifModel.Lemmas.WriterChunks
open CifModel CifModel.Model CifModel.Model.Writer CifModel.Model.Lexer CifModel.Model.Parser CifModel.Spec.Lexical CifModel.Spec.Grammar
open CifModel.Lemmas.LexGlue CifModel.Lemmas.WriterLines CifModel.Lemmas.WriterLinesC

theorem noLF_of_noWs (s : Str) (h : hasWhitespace s = false) : (10 : CU) ∉ s := by
  intro hm
  unfold hasWhitespace at h
  rw [List.any_eq_false] at h
  have := h 10 hm
  simp at this

theorem codeLC_of_wf (code : Str) (h : wfCode code = true) : codeLC code := by
  unfold wfCode isValidName at h
  simp only [Bool.and_eq_true, decide_eq_true_eq, Bool.not_eq_true', Bool.false_eq_true, if_false] at h
  obtain ⟨⟨⟨⟨_, hlen⟩, hws⟩, _⟩, _⟩ := h
  refine ⟨noLF_of_noWs code hws, ?_⟩
  have := cpLen_le_nameCount code.length code (Nat.le_refl _)
  have hL : Model.lineLength = 2048 := rfl
  have hL' : LINE = 2048 := rfl
  omega

theorem headerLC_of_wf (n : Str) (h : wfName n = true) : headerLC n := by
  unfold wfName isValidName at h
  simp only [Bool.and_eq_true, decide_eq_true_eq, Bool.not_eq_true', if_true] at h
  obtain ⟨⟨⟨⟨_, hlen⟩, hws⟩, _⟩, _⟩ := h
  refine ⟨noLF_of_noWs n hws, ?_⟩
  have := cpLen_le_nameCount n.length n (Nat.le_refl _)
  have hL : Model.lineLength = 2048 := rfl
  have hL' : LINE = 2048 := rfl
  omega

/-- the header names of every loop other than the scalar loop are valid names -/
theorem loopsN_header (o : Opts) : ∀ (ls : List WLoop) (seen : List Str), loopsN o ls seen →
    ∀ l ∈ ls, isScalars l.category = false → l.header.all wfName = true := by
  intro ls
  induction ls with
  | nil => intro _ _ l hl; cases hl
  | cons l0 rest ih =>
    intro seen h l hl hsc
    simp only [loopsN] at h
    rcases List.mem_cons.mp hl with e | e
    · subst e
      simp only [hsc, Bool.false_eq_true, if_false] at h
      exact h.1.2.2.1
    · exact ih _ h.2 l e hsc

theorem itemsLC_of_R {dia : Dialect} {nk : Str → Str} (named : Bool) (p : List (Str × V)) (h : itemsR dia nk named p) :
    itemsLC named p :=
  fun nv hnv => ⟨valueR_L nv.2 (h nv hnv).1, fun hn => (nameR_nameL ((h nv hnv).2 hn)).1⟩

theorem loopLC_of_RN {dia : Dialect} {nk : Str → Str} (l : WLoop) (hR : loopR dia nk l)
    (hN : isScalars l.category = false → l.header.all wfName = true) : loopLC l := by
  refine ⟨fun hsc n hn => ?_, fun p hp => itemsLC_of_R _ p (hR.2.2 p hp)⟩
  have := hN hsc
  rw [List.all_eq_true] at this
  exact headerLC_of_wf n (this n hn)

mutual
  theorem frameLC_of_RN (o : Opts) {dia : Dialect} {nk : Str → Str} : ∀ (k : WContainer), frameR dia nk k → frameN o k → containerLC k
    | .mk code frames loops, hR, hN => by
      simp only [frameR] at hR
      simp only [frameN] at hN
      refine ⟨codeLC_of_wf code hN.1, framesLC_of_RN o frames [] hR.2.1 hN.2.2.1, ?_⟩
      intro l hl
      exact loopLC_of_RN l (hR.2.2 l hl) (loopsN_header o loops [] hN.2.2.2.1 l hl)
  theorem framesLC_of_RN (o : Opts) {dia : Dialect} {nk : Str → Str} : ∀ (fs : List WContainer) (seen : List Str),
      framesR dia nk fs → framesN o fs seen → containersLC fs
    | [], _, _, _ => trivial
    | k :: r, seen, hR, hN => by
      simp only [framesR] at hR
      simp only [framesN] at hN
      exact ⟨frameLC_of_RN o k hR.1 hN.1, framesLC_of_RN o r _ hR.2 hN.2.2⟩
end

/-- the hypotheses of the character-level line bound follow from those of the round trip -/
theorem containersLC_of_RN (o : Opts) {dia : Dialect} {nk : Str → Str} : ∀ (cif : WCif) (seen : List Str),
    cifR dia nk cif → blocksN o cif seen → containersLC cif := by
  intro cif
  induction cif with
  | nil => intro _ _ _; trivial
  | cons k rest ih =>
    intro seen hR hN
    obtain ⟨code, frames, loops, hk, hcode, hfr, hlo⟩ := hR k List.mem_cons_self
    subst hk
    simp only [blocksN] at hN
    refine ⟨⟨codeLC_of_wf code hN.1, framesLC_of_RN o frames [] ((framesR_iff dia nk frames).mpr hfr) hN.2.2.1, ?_⟩,
      ih _ (fun x hx => hR x (List.mem_cons_of_mem _ hx)) hN.2.2.2.2.2⟩
    intro l hl
    exact loopLC_of_RN l (hlo l hl) (loopsN_header o loops [] hN.2.2.2.1 l hl)

/-- **the round trip, both dialects, without a line-length hypothesis** -/
theorem roundtrip_doc_nl (version : Nat) (o : Opts) (pol : Policy) (cif : WCif) (out : Str)
    (hdia : o.dia = if version = 1 then .cif1 else .cif2) (hun : o.unfold = true) (hpr : o.prem = true)
    (hstore : o.store = true) (hmfd : o.maxFrameDepth ≠ 0) (hutf : o.notUtf8 = false)
    (hR : cifR o.dia o.normKey cif) (hN : blocksN o cif [])
    (hw : writeCif version cif = .ok out) :
    ∃ back, parse o pol [] out = { rc := 0, log := [], cif := back } ∧ All2 backBlock cif back := by
  obtain ⟨d, cs, hrel, hr, ht, hok, hlen, hhead⟩ := cif_chunks o hun hpr version cif out hdia hR hw
  have hfit : linesFit 0 out = true :=
    linesFit_of_fitsC out 0 0 (Nat.le_refl _) (write_fitsC version cif out (containersLC_of_RN o cif [] hR hN) hw)
  have hfeeds := feeds_chunks o cs [] 1 0 .end_ hok (by rw [hr] at hfit; exact hfit)
  cases out with
  | nil => simp at hhead
  | cons c rest =>
    have hc : c = 35 := by simpa using hhead
    refine ⟨denote o.dia o.normKey d, ?_, blocks_denote o cif d [] hrel hN⟩
    refine C01_parse_render_partial o d c rest pol hstore hmfd hutf (blocks_wf o cif d [] hrel hN) (by subst hc; decide)
      (by subst hc; decide) ?_ ?_
    · have h1 := szBlocks_toks d
      rw [ht] at hlen
      simp only [fuelFor]
      omega
    · rw [hr]
      have : tokensOf d = toks cs ++ [(.end_, [])] := by rw [ht]; rfl
      rw [this]
      exact hfeeds

end CifModel.Lemmas.WriterChunks
