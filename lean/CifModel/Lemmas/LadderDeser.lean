import CifModel.Lemmas.LadderClone
/-
  CifModel.Lemmas.LadderDeser — the deserialisation ladder (DESERIALIZE / cif_list_deserialize) for list blobs whose
  elements are unknown/na values, character values and lists of such.
-/
namespace CifModel.Lemmas.Ladder
open CifModel.Model.Ladder CifModel.Spec.HeapTrace

mutual
  /-- number of requests of `deserInto` on a shape (fault-free) -/
  def dallocs : DShape → Nat
    | .scalar => 0
    | .chr => 1
    | .numb hasSu => if hasSu then 3 else 2
    | .lst es => if es.isEmpty then 0 else 1 + dallocsList es
  def dallocsList : List DShape → Nat
    | [] => 0
    | e :: es => 1 + dallocs e + dallocsList es
end

mutual
  theorem deserInto_spec (k obj : Nat) : ∀ (sh : DShape) (s : St) (L : List Nat), Inv s (obj :: L) →
      (∃ o, (deserInto k obj sh s).1 = some o ∧ Good k (dallocs sh) s (deserInto k obj sh s).2 ∧
          Inv (deserInto k obj sh s).2 (o.ids ++ L)) ∨
      ((deserInto k obj sh s).1 = none ∧ Bad k (dallocs sh) s (deserInto k obj sh s).2 ∧ Inv (deserInto k obj sh s).2 L)
    | .scalar, s, L, h => by
      left
      simp only [deserInto, dallocs]
      exact ⟨_, rfl, Good.refl k s, h⟩
    | .chr, s, L, h => by
      simp only [deserInto, dallocs]
      rcases alloc_cases k s with ⟨hk, ha⟩ | ⟨hk, ha⟩ <;> simp only [ha]
      · right
        exact ⟨trivial, (Bad.alloc hk).free _, h.fail.free⟩
      · left
        exact ⟨_, rfl, Good.alloc hk, h.alloc.perm (by perm_ac)⟩
    | .numb hasSu, s, L, h => by
      simp only [deserInto, dallocs]
      rcases alloc_cases k s with ⟨hk, ha⟩ | ⟨hk, ha⟩ <;> simp only [ha]
      · right
        exact ⟨trivial, ((Bad.alloc hk).free _).mono (by split <;> omega), h.fail.free⟩
      · have g1 := Good.alloc hk
        have i1 := h.alloc
        generalize ({ count := s.count + 1, evs := s.evs ++ [.alloc (s.count + 1)] } : St) = s1 at g1 i1 ⊢
        generalize s.count + 1 = t at g1 i1 ⊢
        cases hasSu with
        | false =>
          simp only [Bool.false_eq_true, if_false]
          rcases alloc_cases k s1 with ⟨hk, ha⟩ | ⟨hk, ha⟩ <;> simp only [ha]
          · right
            exact ⟨trivial, g1.bad' (((Bad.alloc hk).free _).free _) (by omega), Inv.free (Inv.free i1.fail)⟩
          · left
            exact ⟨_, rfl, g1.trans (Good.alloc hk), i1.alloc.perm (by perm_ac)⟩
        | true =>
          simp only [if_true]
          rcases alloc_cases k s1 with ⟨hk, ha⟩ | ⟨hk, ha⟩ <;> simp only [ha]
          · right
            exact ⟨trivial, g1.bad' (((Bad.alloc hk).free _).free _) (by omega), Inv.free (Inv.free i1.fail)⟩
          · have g2 := g1.trans (Good.alloc hk)
            have i2 := i1.alloc
            generalize ({ count := s1.count + 1, evs := s1.evs ++ [.alloc (s1.count + 1)] } : St) = s2 at g2 i2 ⊢
            generalize s1.count + 1 = u at g2 i2 ⊢
            rcases alloc_cases k s2 with ⟨hk, ha⟩ | ⟨hk, ha⟩ <;> simp only [ha]
            · right
              exact ⟨trivial, g2.bad' ((((Bad.alloc hk).free _).free _).free _) (by omega),
                Inv.free (Inv.free (Inv.free i2.fail))⟩
            · left
              exact ⟨_, rfl, g2.trans (Good.alloc hk), i2.alloc.perm (by perm_ac)⟩
    | .lst [], s, L, h => by
      left
      simp only [deserInto, dallocs, List.isEmpty_nil, if_true]
      exact ⟨_, rfl, Good.refl k s, h⟩
    | .lst (e :: es), s, L, h => by
      simp only [deserInto, dallocs, List.isEmpty_cons, Bool.false_eq_true, if_false]
      rcases alloc_cases k s with ⟨hk, ha⟩ | ⟨hk, ha⟩ <;> simp only [ha]
      · right
        exact ⟨trivial, ((Bad.alloc hk).free _).mono (by omega), h.fail.free⟩
      · have g1 := Good.alloc hk
        have i1 := h.alloc
        generalize ({ count := s.count + 1, evs := s.evs ++ [.alloc (s.count + 1)] } : St) = s1 at g1 i1 ⊢
        generalize s.count + 1 = arr at g1 i1 ⊢
        have hh := deserElems_spec k (e :: es) [] s1 (arr :: obj :: L) (by simpa [Owned.idsList] using i1)
        generalize deserElems k (e :: es) [] s1 = r at hh ⊢
        obtain ⟨ro, rs⟩ := r
        rcases hh with ⟨os, h1, h2, h3⟩ | ⟨h1, h2, h3⟩ <;> simp only at h1 h2 h3 <;> subst h1 <;> simp only
        · left
          exact ⟨_, rfl, g1.trans h2, h3.perm (by perm_ac)⟩
        · right
          exact ⟨trivial, g1.bad' ((h2.free _).free _) (by omega), h3.free.free⟩
  theorem deserElems_spec (k : Nat) : ∀ (es : List DShape) (done : List Owned) (s : St) (L : List Nat),
      Inv s (Owned.idsList done.reverse ++ L) →
      (∃ os, (deserElems k es done s).1 = some os ∧ Good k (dallocsList es) s (deserElems k es done s).2 ∧
          Inv (deserElems k es done s).2 (Owned.idsList os ++ L)) ∨
      ((deserElems k es done s).1 = none ∧ Bad k (dallocsList es) s (deserElems k es done s).2 ∧
          Inv (deserElems k es done s).2 L)
    | [], done, s, L, h => by
      left
      simp only [deserElems, dallocsList]
      exact ⟨_, rfl, Good.refl k s, h⟩
    | sh :: rest, done, s, L, h => by
      simp only [deserElems, dallocsList]
      rcases alloc_cases k s with ⟨hk, ha⟩ | ⟨hk, ha⟩ <;> simp only [ha]
      · right
        have ⟨f1, f2⟩ := freeOwnedRev_spec done.reverse _ L h.fail
        exact ⟨trivial, ((Bad.alloc hk).same f2).mono (by omega), f1⟩
      · have g1 := Good.alloc hk
        have i1 := h.alloc
        generalize ({ count := s.count + 1, evs := s.evs ++ [.alloc (s.count + 1)] } : St) = s1 at g1 i1 ⊢
        generalize s.count + 1 = obj at g1 i1 ⊢
        have hh := deserInto_spec k obj sh s1 _ i1
        generalize deserInto k obj sh s1 = r at hh ⊢
        obtain ⟨ro, rs⟩ := r
        rcases hh with ⟨o, h1, h2, h3⟩ | ⟨h1, h2, h3⟩ <;> simp only at h1 h2 h3 <;> subst h1 <;> simp only
        · have i2 : Inv rs (Owned.idsList (o :: done).reverse ++ L) := by
            rw [List.reverse_cons, idsList_append]
            exact h3.perm (by perm_ac)
          rcases deserElems_spec k rest (o :: done) _ L i2 with ⟨os, e1, e2, e3⟩ | ⟨e1, e2, e3⟩
          · left
            exact ⟨os, e1, (g1.trans h2).trans' e2 (by omega), e3⟩
          · right
            exact ⟨e1, (g1.trans h2).bad' e2 (by omega), e3⟩
        · right
          have ⟨f1, f2⟩ := freeOwnedRev_spec done.reverse _ L h3
          exact ⟨trivial, (g1.bad' h2 (by omega)).same f2, f1⟩
end

/-- number of requests of `deserialize` (fault-free) -/
def deserAllocs (elems : List DShape) : Nat := if elems.isEmpty then 0 else 1 + dallocsList elems

theorem deserialize_spec (k : Nat) (elems : List DShape) (s : St) (L : List Nat) (h : Inv s L) :
    (∃ g, (deserialize k elems s).1 = OK ∧ (deserialize k elems s).2.1 = some g ∧
        Good k (deserAllocs elems) s (deserialize k elems s).2.2 ∧ Inv (deserialize k elems s).2.2 (g ++ L)) ∨
    ((deserialize k elems s).1 = MEMORY_ERROR ∧ (deserialize k elems s).2.1 = none ∧
        Bad k (deserAllocs elems) s (deserialize k elems s).2.2 ∧ Inv (deserialize k elems s).2.2 L) := by
  cases elems with
  | nil =>
    left
    simp only [deserialize, deserAllocs, List.isEmpty_nil, if_true]
    exact ⟨[], by trivial, by trivial, Good.refl k s, h⟩
  | cons e es =>
    simp only [deserialize, deserAllocs, List.isEmpty_cons, Bool.false_eq_true, if_false]
    rcases alloc_cases k s with ⟨hk, ha⟩ | ⟨hk, ha⟩ <;> simp only [ha]
    · right
      exact ⟨trivial, trivial, (Bad.alloc hk).mono (by omega), h.fail⟩
    · have g1 := Good.alloc hk
      have i1 := h.alloc
      generalize ({ count := s.count + 1, evs := s.evs ++ [.alloc (s.count + 1)] } : St) = s1 at g1 i1 ⊢
      generalize s.count + 1 = arr at g1 i1 ⊢
      have hh := deserElems_spec k (e :: es) [] s1 (arr :: L) (by simpa [Owned.idsList] using i1)
      generalize deserElems k (e :: es) [] s1 = r at hh ⊢
      obtain ⟨ro, rs⟩ := r
      rcases hh with ⟨os, h1, h2, h3⟩ | ⟨h1, h2, h3⟩ <;> simp only at h1 h2 h3 <;> subst h1 <;> simp only
      · left
        exact ⟨_, by trivial, rfl, g1.trans h2, h3.perm (by perm_ac)⟩
      · right
        exact ⟨by trivial, by trivial, g1.bad' (h2.free _) (by omega), h3.free⟩

end CifModel.Lemmas.Ladder
